/-
  L4: the printer is a fixpoint on transcripts of its own output (programs without subshells and
  blocks, every option set without SingleLine).

  `Tr… p x x'` says that the tree `x'` carries, as line numbers, the lines on which the printer —
  started in state `p` on the tree `x` — actually writes the corresponding tokens (this is what
  parsing the printed text gives).  `R p q` relates the first run (state `p`, arbitrary line
  counter) with the second run (state `q`): same flags and levels, same bytes written, and the
  second run's line counter *is* the current output line.  Every printer segment preserves `R`
  when the second run prints the transcript, hence both runs write the same bytes.
-/
import ShVerif.Proofs.L4Single
import ShVerif.Proofs.L4Print
import ShVerif.Model.L4Transcript
namespace ShVerif.L4

theorem P.cur_eq (p : P) : p.cur = 1 + nls (outB p) := rfl

theorem nls_append (a b : Bytes) : nls (a ++ b) = nls a + nls b := by simp [nls, List.count_append]

theorem outB_cons (p : P) (x : Piece) (p' : P) (h : p'.out = x :: p.out) : outB p' = outB p ++ x.bytes := by
  simp [outB, h, render_snoc]

/-- first run `p`, second run `q` -/
structure R (p q : P) : Prop where
  o : q.o = p.o
  wantSpace : q.wantSpace = p.wantSpace
  wantNewline : q.wantNewline = p.wantNewline
  mustNewline : q.mustNewline = p.mustNewline
  wroteSemi : q.wroteSemi = p.wroteSemi
  firstLine : q.firstLine = p.firstLine
  lastLevel : q.lastLevel = p.lastLevel
  level : q.level = p.level
  levelIncs : q.levelIncs = p.levelIncs
  nestedBinary : q.nestedBinary = p.nestedBinary
  panicked : q.panicked = p.panicked
  out : outB q = outB p
  line : q.line = p.cur
  sl : p.o.singleLine = false

theorem R.set_wantSpace {p q : P} (h : R p q) (v : _) : R { p with wantSpace := v } { q with wantSpace := v } :=
  ⟨h.o, rfl, h.wantNewline, h.mustNewline, h.wroteSemi, h.firstLine, h.lastLevel, h.level, h.levelIncs, h.nestedBinary, h.panicked, h.out, h.line, h.sl⟩
theorem R.set_wantNewline {p q : P} (h : R p q) (v : _) : R { p with wantNewline := v } { q with wantNewline := v } :=
  ⟨h.o, h.wantSpace, rfl, h.mustNewline, h.wroteSemi, h.firstLine, h.lastLevel, h.level, h.levelIncs, h.nestedBinary, h.panicked, h.out, h.line, h.sl⟩
theorem R.set_mustNewline {p q : P} (h : R p q) (v : _) : R { p with mustNewline := v } { q with mustNewline := v } :=
  ⟨h.o, h.wantSpace, h.wantNewline, rfl, h.wroteSemi, h.firstLine, h.lastLevel, h.level, h.levelIncs, h.nestedBinary, h.panicked, h.out, h.line, h.sl⟩
theorem R.set_wroteSemi {p q : P} (h : R p q) (v : _) : R { p with wroteSemi := v } { q with wroteSemi := v } :=
  ⟨h.o, h.wantSpace, h.wantNewline, h.mustNewline, rfl, h.firstLine, h.lastLevel, h.level, h.levelIncs, h.nestedBinary, h.panicked, h.out, h.line, h.sl⟩
theorem R.set_firstLine {p q : P} (h : R p q) (v : _) : R { p with firstLine := v } { q with firstLine := v } :=
  ⟨h.o, h.wantSpace, h.wantNewline, h.mustNewline, h.wroteSemi, rfl, h.lastLevel, h.level, h.levelIncs, h.nestedBinary, h.panicked, h.out, h.line, h.sl⟩
theorem R.set_lastLevel {p q : P} (h : R p q) (v : _) : R { p with lastLevel := v } { q with lastLevel := v } :=
  ⟨h.o, h.wantSpace, h.wantNewline, h.mustNewline, h.wroteSemi, h.firstLine, rfl, h.level, h.levelIncs, h.nestedBinary, h.panicked, h.out, h.line, h.sl⟩
theorem R.set_level {p q : P} (h : R p q) (v : _) : R { p with level := v } { q with level := v } :=
  ⟨h.o, h.wantSpace, h.wantNewline, h.mustNewline, h.wroteSemi, h.firstLine, h.lastLevel, rfl, h.levelIncs, h.nestedBinary, h.panicked, h.out, h.line, h.sl⟩
theorem R.set_levelIncs {p q : P} (h : R p q) (v : _) : R { p with levelIncs := v } { q with levelIncs := v } :=
  ⟨h.o, h.wantSpace, h.wantNewline, h.mustNewline, h.wroteSemi, h.firstLine, h.lastLevel, h.level, rfl, h.nestedBinary, h.panicked, h.out, h.line, h.sl⟩
theorem R.set_nestedBinary {p q : P} (h : R p q) (v : _) : R { p with nestedBinary := v } { q with nestedBinary := v } :=
  ⟨h.o, h.wantSpace, h.wantNewline, h.mustNewline, h.wroteSemi, h.firstLine, h.lastLevel, h.level, h.levelIncs, rfl, h.panicked, h.out, h.line, h.sl⟩
theorem R.set_panicked {p q : P} (h : R p q) (v : _) : R { p with panicked := v } { q with panicked := v } :=
  ⟨h.o, h.wantSpace, h.wantNewline, h.mustNewline, h.wroteSemi, h.firstLine, h.lastLevel, h.level, h.levelIncs, h.nestedBinary, rfl, h.out, h.line, h.sl⟩

/-- a piece without newline, written by both runs -/
theorem R.push {p q : P} (h : R p q) (x y : Piece) (hb : y.bytes = x.bytes) (hn : nls x.bytes = 0) :
    R { p with out := x :: p.out } { q with out := y :: q.out } := by
  refine ⟨h.o, h.wantSpace, h.wantNewline, h.mustNewline, h.wroteSemi, h.firstLine, h.lastLevel, h.level, h.levelIncs, h.nestedBinary, h.panicked, ?_, ?_, h.sl⟩
  · rw [outB_cons q y { q with out := y :: q.out } rfl, outB_cons p x { p with out := x :: p.out } rfl, h.out, hb]
  · show q.line = 1 + nls (outB { p with out := x :: p.out })
    rw [outB_cons p x { p with out := x :: p.out } rfl, nls_append, hn, h.line]
    rfl

theorem R.tok {p q : P} (h : R p q) (b : Bytes) (hn : nls b = 0) : R (p.tok b) (q.tok b) := h.push _ _ rfl hn
theorem R.gapw {p q : P} (h : R p q) (b : Bytes) (hn : nls b = 0) : R (p.gapw b) (q.gapw b) := h.push _ _ rfl hn

/-- the first run's line counter is irrelevant -/
theorem R.line1 {p q : P} (h : R p q) (l : Nat) : R { p with line := l } q :=
  ⟨h.o, h.wantSpace, h.wantNewline, h.mustNewline, h.wroteSemi, h.firstLine, h.lastLevel, h.level, h.levelIncs, h.nestedBinary, h.panicked, h.out, h.line, h.sl⟩

theorem R.advance {p q : P} (h : R p q) (l1 l2 : Nat) (hl : l2 ≤ p.cur) : R (p.advanceLine l1) (q.advanceLine l2) := by
  refine ⟨h.o, h.wantSpace, h.wantNewline, h.mustNewline, h.wroteSemi, h.firstLine, h.lastLevel, h.level, h.levelIncs, h.nestedBinary, h.panicked, h.out, ?_, h.sl⟩
  show max q.line l2 = p.cur
  rw [h.line]
  exact Nat.max_eq_left hl

theorem R.push' {p q : P} (h : R p q) (x y : Piece) (hb : y.bytes = x.bytes) (l1 l2 : Nat)
    (hl2 : l2 = q.line + nls x.bytes) :
    R { p with out := x :: p.out, line := l1 } { q with out := y :: q.out, line := l2 } := by
  subst hl2
  refine ⟨h.o, h.wantSpace, h.wantNewline, h.mustNewline, h.wroteSemi, h.firstLine, h.lastLevel, h.level, h.levelIncs, h.nestedBinary, h.panicked, ?_, ?_, h.sl⟩
  · rw [outB_cons q y { q with out := y :: q.out, line := q.line + nls x.bytes } rfl, outB_cons p x { p with out := x :: p.out, line := l1 } rfl, h.out, hb]
  · show q.line + nls x.bytes = 1 + nls (outB { p with out := x :: p.out, line := l1 })
    rw [outB_cons p x { p with out := x :: p.out, line := l1 } rfl, nls_append, h.line]
    rw [P.cur_eq]
    omega

theorem nls_replicate (n : Nat) (c : UInt8) (hc : c ≠ 10) : nls (List.replicate n c) = 0 := by
  simp [nls, List.count_replicate, hc]

/-! ### the current line along the primitives -/

theorem cur_gapw (p : P) (b : Bytes) : (p.gapw b).cur = p.cur + nls b := by
  rw [P.cur_eq, P.cur_eq]
  rw [outB_cons p (.gap b) (p.gapw b) rfl, nls_append]
  simp [Piece.bytes]; omega
theorem cur_tok (p : P) (b : Bytes) : (p.tok b).cur = p.cur + nls b := by
  rw [P.cur_eq, P.cur_eq]
  rw [outB_cons p (.op b) (p.tok b) rfl, nls_append]
  simp [Piece.bytes]; omega
theorem cur_space (p : P) : p.space.cur = p.cur := by
  show (p.gapw [32]).cur = p.cur
  rw [cur_gapw]; rfl
theorem cur_spacePad (p : P) : p.spacePad.cur = p.cur := by
  unfold P.spacePad
  split
  · show (p.gapw [32]).cur = p.cur
    rw [cur_gapw]; rfl
  · rfl
theorem cur_indent (p : P) : p.indent.cur = p.cur := by
  unfold P.indent
  split
  · rfl
  · simp only
    split
    · rfl
    · split
      · show (P.gapw _ _).cur = _
        rw [cur_gapw, nls_replicate _ _ (by decide)]; rfl
      · show (P.gapw _ _).cur = _
        rw [cur_gapw, nls_replicate _ _ (by decide)]; rfl
theorem cur_bslashNewl (p : P) : p.bslashNewl.cur = p.cur + 1 := by
  unfold P.bslashNewl
  simp only
  rw [cur_indent]
  show (P.gapw _ [92, 10]).cur = _
  rw [cur_gapw]
  split
  · rw [cur_space]; rfl
  · rfl
theorem cur_incLevel (p : P) : p.incLevel.cur = p.cur := by
  unfold P.incLevel
  split
  · rfl
  · split <;> rfl
theorem cur_decLevel (p : P) : p.decLevel.cur = p.cur := by
  unfold P.decLevel
  split <;> rfl

/-! ### `R` along the primitives -/

theorem R.panic {p q : P} (h : R p q) : R p.panic q.panic := h.set_panicked true

theorem R.space {p q : P} (h : R p q) : R p.space q.space :=
  (h.gapw [32] rfl).set_wantSpace .written

theorem R.spacePad {p q : P} (h : R p q) : R p.spacePad q.spacePad := by
  unfold P.spacePad
  rw [h.wantSpace]
  split
  · exact (h.gapw [32] rfl).set_wantSpace .written
  · exact h

theorem R.elim {p q : P} (h : R p q) : ∃ o l, q = { p with out := o, line := l } := by
  refine ⟨q.out, q.line, ?_⟩
  obtain ⟨h1, h2, h3, h4, h5, h6, h7, h8, h9, h10, h11, _, _⟩ := h
  cases p; cases q
  simp only at h1 h2 h3 h4 h5 h6 h7 h8 h9 h10 h11
  subst h1 h2 h3 h4 h5 h6 h7 h8 h9 h10 h11
  rfl

/-- closes `R X Y` where `X`, `Y` are `p`, `q` with the same flag updates -/
macro "r_same " h:term : tactic =>
  `(tactic| (have ho := R.out $h; (have hl := R.line $h; (have hs := R.sl $h; exact ⟨rfl, rfl, rfl, rfl, rfl, rfl, rfl, rfl, rfl, rfl, rfl, ho, hl, hs⟩))))

theorem R.indent {p q : P} (h : R p q) : R p.indent q.indent := by
  obtain ⟨o, l, rfl⟩ := h.elim
  have h1 := h.set_lastLevel p.level
  unfold P.indent
  simp only []
  split
  · exact h
  · split
    · exact h1
    · split
      · exact h1.gapw _ (nls_replicate _ 9 (by decide))
      · exact h1.gapw _ (nls_replicate _ 32 (by decide))

theorem R.bslashNewl {p q : P} (h : R p q) : R p.bslashNewl q.bslashNewl := by
  unfold P.bslashNewl
  simp only [h.wantSpace]
  apply R.indent
  split
  · exact h.space.push' (.gap [92, 10]) (.gap [92, 10]) rfl _ _ rfl
  · exact h.push' (.gap [92, 10]) (.gap [92, 10]) rfl _ _ rfl

theorem R.spacedString {p q : P} (h : R p q) (s : Bytes) (hs : nls s = 0) : R (p.spacedString s) (q.spacedString s) :=
  (h.spacePad.tok s hs).set_wantSpace .required

theorem R.spacedToken {p q : P} (h : R p q) (s : Bytes) (hs : nls s = 0) : R (p.spacedToken s) (q.spacedToken s) := by
  unfold P.spacedToken
  rw [h.o]
  split
  · exact (h.tok s hs).set_wantSpace .notRequired
  · exact (h.spacePad.tok s hs).set_wantSpace .required

theorem R.incLevel {p q : P} (h : R p q) : R p.incLevel q.incLevel := by
  obtain ⟨o, l, rfl⟩ := h.elim
  unfold P.incLevel
  simp only []
  split
  · r_same h
  · split
    · r_same h
    · r_same h

theorem R.decLevel {p q : P} (h : R p q) : R p.decLevel q.decLevel := by
  obtain ⟨o, l, rfl⟩ := h.elim
  unfold P.decLevel
  simp only []
  split
  · exact h.panic
  · r_same h

/-! ### words -/

theorem wordPartsLoop_eq (p : P) (ps : List WordPart) :
    p.wordPartsLoop ps = { p with line := max p.line (partsMax ps) } := by
  induction ps generalizing p with
  | nil => simp [P.wordPartsLoop, partsMax]
  | cons wp r ih =>
    rw [P.wordPartsLoop, ih]
    cases wp with
    | lit a e v => simp [P.wordPart, P.advanceLine, partsMax, WordPart.endMax, Nat.max_assoc]
    | sgl a e v => simp [P.wordPart, P.advanceLine, partsMax, WordPart.endMax, Nat.max_assoc]

theorem cur_preWord_ge (p : P) (w : Word) : p.cur ≤ (p.preWord w).cur := by
  unfold P.preWord
  split
  · exact Nat.le_refl _
  · split
    · rw [cur_bslashNewl]; omega
    · exact Nat.le_refl _

/-- `w'` is the word `w` as read back from where `p.word w` writes it -/
structure TrWord (p : P) (w w' : Word) : Prop where
  ne : w.parts ≠ []
  bytes : wordBytes w'.parts = wordBytes w.parts
  first : ∃ wp' r, w'.parts = wp' :: r ∧ wp'.pos.line = (p.preWord w).cur
  last : partsMax w'.parts = (p.preWord w).cur + nls (wordBytes w.parts)

theorem R.word {p q : P} (h : R p q) {w w' : Word} (t : TrWord p w w') :
    R (p.word w) (q.word w') := by
  have hsl := h.sl
  obtain ⟨wp', r', hw', hfirst⟩ := t.first
  have hlast := t.last
  have hbytes := t.bytes
  have hne := t.ne
  unfold P.word P.wordParts
  apply R.set_wantSpace
  rw [hw'] at hlast hbytes ⊢
  cases hw : w.parts with
  | nil => exact absurd hw hne
  | cons wp r =>
    rw [hw] at hlast hbytes
    simp only [P.preWord, hw] at hfirst hlast
    simp only [h.o, hsl, Bool.not_false, Bool.true_and, decide_eq_true_eq]
    rw [wordPartsLoop_eq, wordPartsLoop_eq]
    simp only [hsl, Bool.not_false, Bool.true_and, decide_eq_true_eq] at hfirst hlast
    by_cases c1 : wp.pos.line > p.line
    · simp only [c1, ↓reduceIte] at hfirst hlast ⊢
      rw [cur_bslashNewl] at hfirst hlast
      have c2 : wp'.pos.line > q.line := by rw [h.line]; omega
      simp only [c2, ↓reduceIte]
      have h1 := h.bslashNewl
      refine h1.push' (.word (wp :: r)) (.word (wp' :: r')) hbytes _ _ ?_
      rw [hlast, h1.line, cur_bslashNewl]
      simp only [Piece.bytes]
      omega
    · simp only [c1, ↓reduceIte] at hfirst hlast ⊢
      have c2 : ¬ wp'.pos.line > q.line := by rw [h.line]; omega
      simp only [c2, ↓reduceIte]
      refine h.push' (.word (wp :: r)) (.word (wp' :: r')) hbytes _ _ ?_
      rw [hlast, h.line]
      simp only [Piece.bytes]
      omega

/-! ### argument lists -/

theorem wordJoinLoop_cons (p : P) (any : Bool) (w : Word) (rest : List Word) (pos : Pos)
    (hp : w.pos? = some pos) :
    p.wordJoinLoop any (w :: rest) =
      ((p.joinStep any pos).1.spacePad.word w).wordJoinLoop (p.joinStep any pos).2 rest := by
  rw [P.wordJoinLoop]
  simp only [hp, P.joinStep]

def TrArgs (p : P) (any : Bool) : List Word → List Word → Prop
  | [], [] => True
  | w :: rest, w' :: rest' =>
    ∃ pos, w.pos? = some pos ∧
      TrWord (p.joinStep any pos).1.spacePad w w' ∧
      TrArgs ((p.joinStep any pos).1.spacePad.word w) (p.joinStep any pos).2 rest rest'
  | _, _ => False

theorem spacePad_line (p : P) : p.spacePad.line = p.line := by
  unfold P.spacePad; split <;> rfl
theorem spacePad_o (p : P) : p.spacePad.o = p.o := by
  unfold P.spacePad; split <;> rfl

theorem R.joinStep {p q : P} (h : R p q) (any : Bool) (pos pos' : Pos) (w : Word)
    (hp : w.pos? = some pos)
    (hfirst : pos'.line = ((p.joinStep any pos).1.spacePad.preWord w).cur) :
    R (p.joinStep any pos).1 (q.joinStep any pos').1 ∧ (q.joinStep any pos').2 = (p.joinStep any pos).2 := by
  have hsl := h.sl
  have hge := cur_preWord_ge (p.joinStep any pos).1.spacePad w
  rw [cur_spacePad] at hge
  unfold P.joinStep at hfirst hge ⊢
  simp only [h.o, hsl, Bool.not_false, Bool.and_true, decide_eq_true_eq] at hfirst hge ⊢
  by_cases d1 : pos.line > p.line
  · simp only [d1, ↓reduceIte] at hfirst hge ⊢
    rw [cur_bslashNewl] at hge
    cases any
    · simp only [Bool.not_false, ↓reduceIte] at hfirst hge ⊢
      rw [cur_incLevel] at hge
      have d2 : pos'.line > q.line := by rw [h.line, hfirst]; omega
      simp only [d2, ↓reduceIte, and_true]
      exact h.incLevel.bslashNewl
    · simp only [Bool.not_true, Bool.false_eq_true, ↓reduceIte] at hfirst hge ⊢
      have d2 : pos'.line > q.line := by rw [h.line, hfirst]; omega
      simp only [d2, ↓reduceIte, and_true]
      exact h.bslashNewl
  · simp only [d1, ↓reduceIte] at hfirst hge ⊢
    have d2 : ¬ pos'.line > q.line := by
      rw [h.line, hfirst]
      unfold P.preWord
      cases hw : w.parts with
      | nil => simp [Word.pos?, hw] at hp
      | cons wp r =>
        have : wp.pos = pos := by simpa [Word.pos?, hw] using hp
        simp only [spacePad_line, spacePad_o, hsl, this, d1, Bool.not_false, Bool.true_and, decide_false, Bool.false_eq_true, ↓reduceIte, cur_spacePad]
        omega
    simp only [d2, ↓reduceIte, and_true]
    exact h

theorem R.wordJoinLoop {p q : P} (h : R p q) (any : Bool) (ws ws' : List Word) (t : TrArgs p any ws ws') :
    R (p.wordJoinLoop any ws).1 (q.wordJoinLoop any ws').1 ∧
      (q.wordJoinLoop any ws').2 = (p.wordJoinLoop any ws).2 := by
  induction ws generalizing p q any ws' with
  | nil =>
    cases ws' with
    | nil => exact ⟨h, rfl⟩
    | cons _ _ => simp [TrArgs] at t
  | cons w rest ih =>
    cases ws' with
    | nil => simp [TrArgs] at t
    | cons w' rest' =>
      simp only [TrArgs] at t
      obtain ⟨pos, hp, tw, tr⟩ := t
      obtain ⟨wp', r', hw', hfirst⟩ := tw.first
      have hp' : w'.pos? = some wp'.pos := by simp [Word.pos?, hw']
      rw [wordJoinLoop_cons p any w rest pos hp, wordJoinLoop_cons q any w' rest' wp'.pos hp']
      have key := h.joinStep any pos wp'.pos w hp hfirst
      rw [key.2]
      exact ih (key.1.spacePad.word tw) _ _ tr

/-- `w'` … as read back from where `p.wordJoin ws` writes them -/
theorem R.wordJoin {p q : P} (h : R p q) (ws ws' : List Word) (t : TrArgs p false ws ws') :
    R (p.wordJoin ws) (q.wordJoin ws') := by
  have k := h.wordJoinLoop false ws ws' t
  unfold P.wordJoin
  simp only []
  rw [k.2]
  split
  · exact k.1.decLevel
  · exact k.1

/-! ### statements -/

theorem incLevel_line (p : P) : p.incLevel.line = p.line := by
  unfold P.incLevel
  split
  · rfl
  · split <;> rfl

theorem R.stmtPre {p q : P} (h : R p q) (neg : Bool) : R (p.stmtPre neg) (q.stmtPre neg) := by
  unfold P.stmtPre
  cases neg
  · exact h.set_wroteSemi false
  · exact (h.set_wroteSemi false).spacedString [33] rfl

/-- the terminator of the re-read statement sits where `p.stmtEnd semi bg` writes it -/
structure TrSemiS (p : P) (semi : Pos) (bg : Bool) (semi' : Pos) : Prop where
  valid : semi'.valid = ((semi.valid && decide (semi.line > p.line)) || bg)
  sepLine : semi.valid = true → semi.line > p.line → semi'.line = p.cur + 1
  bgLine : ¬ (semi.valid = true ∧ semi.line > p.line) → bg = true → semi'.line = p.cur

/-- the weaker form the printer needs: a terminator the first run moved to a continuation line is
    there, one line down; any other terminator of the re-read statement (also the `;` that
    `semiRsrv` writes before `}` and the parser gives to the last statement) is on the current
    line -/
structure TrSemi (p : P) (semi : Pos) (bg : Bool) (semi' : Pos) : Prop where
  sepV : semi.valid = true → semi.line > p.line → semi'.valid = true ∧ semi'.line = p.cur + 1
  nosep : ¬ (semi.valid = true ∧ semi.line > p.line) → semi'.valid = true → semi'.line = p.cur

theorem TrSemiS.weak {p : P} {semi semi' : Pos} {bg : Bool} (t : TrSemiS p semi bg semi') : TrSemi p semi bg semi' := by
  refine ⟨fun hv hl => ⟨?_, t.sepLine hv hl⟩, fun hn hv' => ?_⟩
  · rw [t.valid]; simp [hv, hl]
  · have hv := t.valid
    have e1 : (semi.valid && decide (semi.line > p.line)) = false := by
      cases h : semi.valid
      · rfl
      · simp only [Bool.true_and, decide_eq_false_iff_not]
        exact fun hh => hn ⟨h, hh⟩
    rw [e1, hv'] at hv
    have hb : bg = true := by simpa using hv.symm
    exact t.bgLine hn hb

theorem R.stmtEnd {p q : P} (h : R p q) {semi semi' : Pos} {bg : Bool} (t : TrSemi p semi bg semi') :
    R (p.stmtEnd semi bg) (q.stmtEnd semi' bg) := by
  have h1 := h.incLevel
  have l1 : p.incLevel.line = p.line := incLevel_line p
  have c1 : p.incLevel.cur = p.cur := cur_incLevel p
  unfold P.stmtEnd
  simp only []
  generalize p.incLevel = p1 at h1 l1 c1 ⊢
  generalize q.incLevel = q1 at h1 ⊢
  obtain ⟨o, l, rfl⟩ := h1.elim
  have hsl := h1.sl
  have hl : l = p1.cur := h1.line
  simp only [hsl, Bool.not_false, Bool.and_true]
  apply R.decLevel
  by_cases c : semi.valid = true ∧ semi.line > p1.line
  · have e1 : (semi.valid && decide (semi.line > p1.line)) = true := by simp [c.1, c.2]
    obtain ⟨hv, hln⟩ := t.sepV c.1 (l1 ▸ c.2)
    have e2 : (semi'.valid && decide (semi'.line > l)) = true := by
      simp only [hv, Bool.true_and, decide_eq_true_eq]; omega
    simp only [e1, e2, Bool.true_or, ↓reduceIte]
    cases bg
    · exact ((h1.bslashNewl.tok [59] rfl).set_wroteSemi true).set_wantSpace .required
    · exact ((h1.bslashNewl.tok [38] rfl).set_wroteSemi true).set_wantSpace .required
  · have e1 : (semi.valid && decide (semi.line > p1.line)) = false := by
      cases hv : semi.valid
      · rfl
      · simp only [Bool.true_and, decide_eq_false_iff_not]
        exact fun hh => c ⟨hv, hh⟩
    have e2 : (semi'.valid && decide (semi'.line > l)) = false := by
      cases hv' : semi'.valid
      · rfl
      · have := t.nosep (l1 ▸ c) hv'
        simp only [Bool.true_and, decide_eq_false_iff_not]
        omega
    cases bg
    · simp only [e1, e2, Bool.false_or, Bool.false_eq_true, ↓reduceIte]
      exact h1.set_wroteSemi false
    · simp only [e1, e2, Bool.or_true, Bool.false_eq_true, ↓reduceIte]
      split
      · exact ((h1.space.tok [38] rfl).set_wroteSemi true).set_wantSpace .required
      · exact ((h1.tok [38] rfl).set_wroteSemi true).set_wantSpace .required

/-! ### binary commands -/

theorem indent_advanceLine (p : P) (l : Nat) : (p.indent).advanceLine l = (p.advanceLine l).indent := by
  unfold P.indent P.advanceLine
  simp only []
  split
  · rfl
  · split
    · rfl
    · split <;> rfl

theorem cur_advanceLine (p : P) (l : Nat) : (p.advanceLine l).cur = p.cur := rfl

theorem cur_spacedToken (p : P) (s : Bytes) (hs : nls s = 0) : (p.spacedToken s).cur = p.cur := by
  unfold P.spacedToken
  split
  · show (p.tok s).cur = _
    rw [cur_tok, hs]; rfl
  · show (p.spacePad.tok s).cur = _
    rw [cur_tok, cur_spacePad, hs]; rfl

theorem nls_opstr (op : BinOp) : nls op.str = 0 := by cases op <;> rfl

theorem cur_newline (p : P) (l : Nat) : (p.newline l).cur = p.cur + 1 := by
  show (p.gapw [10]).cur = _
  rw [cur_gapw]; rfl

/-- the multi-line layout of a binary operator -/
def P.opMulti (p : P) (opPos : Pos) (s : Bytes) (yLine : Nat) : P :=
  (if p.o.binNextLine then p.bslashNewl.spacedToken s
   else (((p.spacedToken s).advanceLine opPos.line).newline 0).indent).advanceLine yLine

theorem binaryOp_eq (p : P) (opPos : Pos) (op : BinOp) (yLine : Nat) (yb : Bool) :
    p.binaryOp opPos op yLine yb =
      if p.o.minify || p.o.singleLine || yLine ≤ p.line then
        (((p.spacedToken op.str).advanceLine yLine), false, false)
      else
        ({ ((if !p.nestedBinary then p.incLevel else p).opMulti opPos op.str yLine) with nestedBinary := yb },
          !p.nestedBinary, true) := by
  unfold P.binaryOp P.opMulti
  rfl

theorem cur_opMulti (p : P) (opPos : Pos) (s : Bytes) (yLine : Nat) (hs : nls s = 0) :
    (p.opMulti opPos s yLine).cur = p.cur + 1 := by
  unfold P.opMulti
  rw [cur_advanceLine]
  split
  · rw [cur_spacedToken _ _ hs, cur_bslashNewl]
  · rw [cur_indent, cur_newline, cur_advanceLine, cur_spacedToken _ _ hs]

theorem R.opNewline {p q : P} (h : R p q) (a1 a2 y1 y2 : Nat) (ha : a2 ≤ y2) (hy : y2 = p.cur + 1) :
    R ((((p.advanceLine a1).newline 0).indent).advanceLine y1)
      ((((q.advanceLine a2).newline 0).indent).advanceLine y2) := by
  rw [indent_advanceLine, indent_advanceLine]
  apply R.indent
  have hq := h.line
  exact (((h.push' (.gap [10]) (.gap [10]) rfl (max (max (max p.line a1) 0) y1) (max (max (max q.line a2) 0) y2)
    (by show _ = q.line + 1; omega)).set_wantSpace .written).set_wantNewline false).set_mustNewline false

theorem R.opMulti {p q : P} (h : R p q) (opPos opPos' : Pos) (s : Bytes) (hs : nls s = 0) (yLine yLine' : Nat)
    (hy : yLine' = p.cur + 1) (hop : opPos'.line ≤ yLine') :
    R (p.opMulti opPos s yLine) (q.opMulti opPos' s yLine') := by
  unfold P.opMulti
  rw [h.o]
  split
  · refine (h.bslashNewl.spacedToken s hs).advance _ _ ?_
    rw [cur_spacedToken _ _ hs, cur_bslashNewl, hy]
    exact Nat.le_refl _
  · exact (h.spacedToken s hs).opNewline _ _ _ _ hop (by rw [cur_spacedToken _ _ hs, hy])

theorem incLevel_o (p : P) : p.incLevel.o = p.o := by
  unfold P.incLevel
  split
  · rfl
  · split <;> rfl

theorem R.binaryOp {p q : P} (h : R p q) (opPos opPos' : Pos) (op : BinOp) (yLine yLine' : Nat) (yb : Bool)
    (hy : yLine' = (p.binaryOp opPos op yLine yb).1.cur) (hop : opPos'.line ≤ yLine') :
    R (p.binaryOp opPos op yLine yb).1 (q.binaryOp opPos' op yLine' yb).1 ∧
      (q.binaryOp opPos' op yLine' yb).2 = (p.binaryOp opPos op yLine yb).2 := by
  have hsl := h.sl
  rw [binaryOp_eq] at hy ⊢
  rw [binaryOp_eq]
  simp only [h.o, h.nestedBinary, hsl, Bool.or_false] at hy ⊢
  by_cases c : p.o.minify = true ∨ yLine ≤ p.line
  · have e1 : (p.o.minify || decide (yLine ≤ p.line)) = true := by simpa using c
    simp only [e1, ↓reduceIte] at hy
    rw [cur_advanceLine, cur_spacedToken _ _ (nls_opstr op)] at hy
    have e2 : (p.o.minify || decide (yLine' ≤ q.line)) = true := by rw [h.line, hy]; simp
    simp only [e1, e2, ↓reduceIte, and_true]
    exact (h.spacedToken _ (nls_opstr op)).advance _ _
      (by rw [cur_spacedToken _ _ (nls_opstr op), hy]; exact Nat.le_refl _)
  · have hm : p.o.minify = false := by
      cases hh : p.o.minify
      · rfl
      · exact absurd (Or.inl hh) c
    have hgt : ¬ yLine ≤ p.line := fun hh => c (Or.inr hh)
    have e1 : (p.o.minify || decide (yLine ≤ p.line)) = false := by simp [hm, hgt]
    simp only [e1, Bool.false_eq_true, ↓reduceIte] at hy ⊢
    have hy' : yLine' = p.cur + 1 := by
      rw [hy]
      show ((if (!p.nestedBinary) = true then p.incLevel else p).opMulti opPos op.str yLine).cur = _
      rw [cur_opMulti _ _ _ _ (nls_opstr op)]
      cases p.nestedBinary
      · simp [cur_incLevel]
      · simp
    have e2 : (p.o.minify || decide (yLine' ≤ q.line)) = false := by
      rw [h.line, hy', hm]; simp
    simp only [e2, Bool.false_eq_true, ↓reduceIte, and_true]
    apply R.set_nestedBinary
    cases p.nestedBinary
    · simp only [Bool.not_false, ↓reduceIte]
      exact h.incLevel.opMulti _ _ _ (nls_opstr op) _ _ (by rw [cur_incLevel]; exact hy') hop
    · simp only [Bool.not_true, Bool.false_eq_true, ↓reduceIte]
      exact h.opMulti _ _ _ (nls_opstr op) _ _ hy' hop

theorem R.binaryEnd {p q : P} (h : R p q) (indent multi : Bool) :
    R (p.binaryEnd indent multi) (q.binaryEnd indent multi) := by
  unfold P.binaryEnd
  cases multi
  · exact h
  · cases indent
    · exact h.set_nestedBinary false
    · exact h.decLevel.set_nestedBinary false

/-! ### statement separators -/

theorem wantsNewline_eq (p : P) (l : Nat) (hsl : p.o.singleLine = false) :
    p.wantsNewline l false = (p.mustNewline || (p.wantNewline || decide (l > p.line))) := by
  unfold P.wantsNewline
  cases p.mustNewline <;> simp [hsl]

/-- the state after the first newline of `newlines` -/
def P.nl (p : P) : P := { p.gapw [10] with wantSpace := .written, wantNewline := false, mustNewline := false }

theorem R.nlK {p q : P} (h : R p q) (dbl : Bool) (a1 a2 : Nat) (ha : a2 = p.cur + (if dbl then 2 else 1)) :
    R (((if dbl then p.nl.gapw [10] else p.nl).advanceLine a1).advanceLine a1)
      (((if dbl then q.nl.gapw [10] else q.nl).advanceLine a2).advanceLine a2) := by
  have hq := h.line
  cases dbl
  · simp only [Bool.false_eq_true, ↓reduceIte] at ha ⊢
    exact (((h.push' (.gap [10]) (.gap [10]) rfl (max (max p.line a1) a1) (max (max q.line a2) a2)
      (by show _ = q.line + 1; omega)).set_wantSpace .written).set_wantNewline false).set_mustNewline false
  · simp only [↓reduceIte] at ha ⊢
    have h1 :=
      (((h.push' (.gap [10]) (.gap [10]) rfl p.line (q.line + 1) rfl).set_wantSpace .written).set_wantNewline false).set_mustNewline false
    exact h1.push' (.gap [10]) (.gap [10]) rfl (max (max p.line a1) a1) (max (max q.line a2) a2)
      (by show _ = q.line + 1 + 1; omega)

theorem newlines_eq (p : P) (l : Nat) :
    p.newlines l =
      if p.firstLine then { p with firstLine := false }
      else if !p.wantsNewline l false then p
      else ((if l > p.line + 1 && !p.o.minify then p.nl.gapw [10] else p.nl).advanceLine l).indent := by
  unfold P.newlines
  rfl

theorem cur_nl (p : P) : p.nl.cur = p.cur + 1 := by
  show (p.gapw [10]).cur = _
  rw [cur_gapw]; rfl

theorem R.newlinesAdv {p q : P} (h : R p q) (l1 l2 : Nat) (hl : l2 = ((p.newlines l1).advanceLine l1).cur) :
    R ((p.newlines l1).advanceLine l1) ((q.newlines l2).advanceLine l2) := by
  have hsl := h.sl
  have hq0 := h.line
  obtain ⟨o, l, rfl⟩ := h.elim
  have hq : l = p.cur := hq0
  rw [cur_advanceLine] at hl
  rw [newlines_eq] at hl ⊢
  rw [newlines_eq]
  rw [wantsNewline_eq p l1 hsl] at hl
  rw [wantsNewline_eq p l1 hsl, wantsNewline_eq _ l2 (show ({ p with out := o, line := l } : P).o.singleLine = false from hsl)]
  simp only []
  by_cases hf : p.firstLine = true
  rotate_left
  · have hnf : ¬ p.firstLine = true := hf
    rw [if_neg hnf] at hl
    rw [if_neg hnf, if_neg hnf]
    by_cases w1 : (p.mustNewline || (p.wantNewline || decide (l1 > p.line))) = true
    · simp only [w1, Bool.not_true, Bool.false_eq_true, ↓reduceIte] at hl ⊢
      rw [cur_indent, cur_advanceLine] at hl
      rw [indent_advanceLine]
      by_cases d1 : (decide (l1 > p.line + 1) && !p.o.minify) = true
      · simp only [d1, ↓reduceIte] at hl ⊢
        rw [cur_gapw, cur_nl] at hl
        have hl' : l2 = p.cur + 2 := by rw [hl]; show p.cur + 1 + 1 = _; rfl
        have w2 : (p.mustNewline || (p.wantNewline || decide (l2 > l))) = true := by
          have : l2 > l := by omega
          simp [this]
        have d2 : (decide (l2 > l + 1) && !p.o.minify) = true := by
          have : l2 > l + 1 := by omega
          simp only [Bool.and_eq_true, decide_eq_true_eq] at d1 ⊢
          exact ⟨this, d1.2⟩
        simp only [w2, d2, Bool.not_true, Bool.false_eq_true, ↓reduceIte]
        rw [indent_advanceLine]
        apply R.indent
        exact h.nlK true l1 l2 hl'
      · simp only [d1, Bool.false_eq_true, ↓reduceIte] at hl ⊢
        rw [cur_nl] at hl
        have w2 : (p.mustNewline || (p.wantNewline || decide (l2 > l))) = true := by
          have : l2 > l := by omega
          simp [this]
        have d2 : (decide (l2 > l + 1) && !p.o.minify) = false := by
          have : ¬ l2 > l + 1 := by omega
          simp [this]
        simp only [w2, d2, Bool.not_true, Bool.false_eq_true, ↓reduceIte]
        rw [indent_advanceLine]
        apply R.indent
        exact h.nlK false l1 l2 hl
    · simp only [w1, Bool.not_false, ↓reduceIte] at hl ⊢
      have w1' : (p.mustNewline || (p.wantNewline || decide (l1 > p.line))) = false := by
        simpa using w1
      have hm : p.mustNewline = false := by
        cases hh : p.mustNewline
        · rfl
        · simp [hh] at w1'
      have hw : p.wantNewline = false := by
        cases hh : p.wantNewline
        · rfl
        · simp [hh] at w1'
      have w2 : (p.mustNewline || (p.wantNewline || decide (l2 > l))) = false := by
        have : ¬ l2 > l := by omega
        simp [hm, hw, this]
      simp only [w2, Bool.not_false, ↓reduceIte]
      exact h.advance l1 l2 (by omega)
  · rw [if_pos hf] at hl
    rw [if_pos hf, if_pos hf]
    exact (h.set_firstLine false).advance l1 l2 (by rw [hl]; exact Nat.le_refl _)

theorem R.stmtSep {p q : P} (h : R p q) (first : Bool) (l1 l2 : Nat) (hl : l2 = (p.stmtSep first l1).cur) :
    R (p.stmtSep first l1) (q.stmtSep first l2) := by
  have hsl := h.sl
  unfold P.stmtSep at hl ⊢
  simp only [h.o, h.mustNewline, h.wantSpace, hsl, Bool.false_and, Bool.and_false, Bool.false_eq_true, ↓reduceIte] at hl ⊢
  split
  · rename_i c
    simp only [c, ↓reduceIte] at hl
    exact h.newlinesAdv l1 l2 hl
  · rename_i c
    simp only [c] at hl
    exact h.advance l1 l2 (by rw [hl]; exact Nat.le_refl _)

/-! ### commands, statements, lists -/

theorem decLevel_line (p : P) : p.decLevel.line = p.line := by
  unfold P.decLevel
  split <;> rfl
theorem incLevel_o' (p : P) : p.incLevel.o = p.o := incLevel_o p
theorem decLevel_o (p : P) : p.decLevel.o = p.o := by
  unfold P.decLevel
  split <;> rfl

theorem wordJoin_nil (p : P) : p.wordJoin [] = p := by
  simp [P.wordJoin, P.wordJoinLoop]

theorem command_call (p : P) (w : Word) (rest : List Word) (pos : Pos) (hp : w.pos? = some pos) :
    p.command (.call (w :: rest)) =
      (((p.advanceLine pos.line).spacePad.incLevel.decLevel).wordJoin [w]).wordJoin rest := by
  rw [P.command]
  simp only [hp]
  cases rest with
  | nil => simp [wordJoin_nil]
  | cons a r => simp

/-- the arguments of a call, as read back -/
def TrCall (p : P) : List Word → List Word → Prop
  | w :: rest, w' :: rest' =>
      ∃ pos, w.pos? = some pos ∧
        TrArgs ((p.advanceLine pos.line).spacePad.incLevel.decLevel) false [w] [w'] ∧
        TrArgs (((p.advanceLine pos.line).spacePad.incLevel.decLevel).wordJoin [w]) false rest rest'
  | _, _ => False

mutual
/-- `s'` is the statement `s` as read back from where `p.stmt s` writes it -/
def TrStmt (p : P) : Stmt → Stmt → Prop
  | .mk _ semi neg bg cmd, .mk pos' semi' neg' bg' cmd' =>
      neg' = neg ∧ bg' = bg ∧ pos'.line = p.cur ∧
      TrCmd (p.stmtPre neg) cmd cmd' ∧
      TrSemi ((p.stmtPre neg).command cmd) semi bg semi'
def TrCmd (p : P) : Cmd → Cmd → Prop
  | .call args, c' =>
      match c' with
      | .call args' => TrCall p args args'
      | _ => False
  | .binary opPos op x y, c' =>
      match c' with
      | .binary opPos' op' x' y' =>
        op' = op ∧ TrStmt ((p.advanceLine x.pos.line).spacePad) x x' ∧
        opPos'.line ≤ y'.pos.line ∧
        TrStmt ((((p.advanceLine x.pos.line).spacePad).stmt x).binaryOp opPos op y.pos.line y.isBinaryCmd).1 y y'
      | _ => False
  | .subshell lp rp ss, c' =>
      match c' with
      | .subshell lp' rp' ss' =>
        -- same shape; `(` where it was written
        ss'.length = ss.length ∧ ss'.headLparen = ss.headLparen ∧ ss'.singleRparen = ss.singleRparen ∧
        lp'.line = p.cur ∧
        -- the position comparisons of the printer give the same answers on the re-read tree
        (ss.headLparen = true → (lp'.line != ss'.headLine) = (lp.line != ss.headLine)) ∧
        (ss.length ≤ 1 →
          nestB (((p.advanceLine lp.line).spacePad).subshellOpen lp ss).cur ss' rp' =
            nestB (((p.advanceLine lp.line).spacePad).subshellOpen lp ss).line ss rp) ∧
        (ss.single = true →
          (((((p.advanceLine lp.line).spacePad).subshellOpen lp ss).nestPre ss rp).wantNewline ||
              decide (ss'.headLine > ((((p.advanceLine lp.line).spacePad).subshellOpen lp ss).nestPre ss rp).cur)) =
            ((((p.advanceLine lp.line).spacePad).subshellOpen lp ss).nestPre ss rp).listSep ss) ∧
        (ss.singleRparen = true → (lp'.line == rp'.line) = (lp.line == rp.line)) ∧
        -- the statements, and `)` where it was written
        TrLoop ((((p.advanceLine lp.line).spacePad).subshellOpen lp ss).nestPre ss rp) true ss ss' ∧
        rp'.line = ((p.subClose lp rp ss).rparenPre rp.line).cur
      | _ => False
  | .block lb rb ss, c' =>
      match c' with
      | .block lb' rb' ss' =>
        ss'.length = ss.length ∧ lb'.line = p.cur ∧
        (ss.length ≤ 1 → nestB (p.blkOpen lb).cur ss' rb' = nestB (p.blkOpen lb).line ss rb) ∧
        (ss.single = true →
          (((p.blkOpen lb).nestPre ss rb).wantNewline ||
              decide (ss'.headLine > ((p.blkOpen lb).nestPre ss rb).cur)) =
            ((p.blkOpen lb).nestPre ss rb).listSep ss) ∧
        TrLoop ((p.blkOpen lb).nestPre ss rb) true ss ss' ∧
        (p.blkBody lb rb ss).firstLine = false ∧
        rb'.line = ((p.blkBody lb rb ss).semiPre rb.line).cur
      | _ => False
/-- the statements of a list, as read back from where the `stmtList` loop writes them -/
def TrLoop (p : P) (first : Bool) : Stmts → Stmts → Prop
  | .nil, .nil => True
  | .cons s rest, .cons s' rest' =>
      TrStmt (p.stmtSep first s.pos.line) s s' ∧
      TrLoop { ((p.stmtSep first s.pos.line).stmt s) with wantNewline := true } false rest rest'
  | .nil, .cons _ _ => False
  | .cons _ _, .nil => False
end

theorem TrStmt.pos {p : P} {s s' : Stmt} (t : TrStmt p s s') : s'.pos.line = p.cur := by
  cases s; cases s'
  simp only [TrStmt] at t
  exact t.2.2.1

theorem TrStmt.isBinary {p : P} {s s' : Stmt} (t : TrStmt p s s') : s'.isBinaryCmd = s.isBinaryCmd := by
  cases s with
  | mk _ _ _ _ c =>
    cases s' with
    | mk _ _ _ _ c' =>
      simp only [TrStmt] at t
      have tc := t.2.2.2.1
      cases c <;> cases c' <;> simp [TrCmd] at tc <;> rfl

theorem R.call {p q : P} (h : R p q) (args args' : List Word) (t : TrCall p args args') :
    R (p.command (.call args)) (q.command (.call args')) := by
  cases args with
  | nil => simp [TrCall] at t
  | cons w rest =>
    cases args' with
    | nil => simp [TrCall] at t
    | cons w' rest' =>
      simp only [TrCall] at t
      obtain ⟨pos, hp, t1, t2⟩ := t
      have t1' := t1
      simp only [TrArgs] at t1'
      obtain ⟨pos2, hp2, tw, _⟩ := t1'
      obtain ⟨wp', r', hw', hfirst⟩ := tw.first
      have hp' : w'.pos? = some wp'.pos := by simp [Word.pos?, hw']
      rw [command_call p w rest pos hp, command_call q w' rest' wp'.pos hp']
      have e : pos2 = pos := by rw [hp] at hp2; exact (Option.some.inj hp2).symm
      subst e
      -- the first word of a call is never moved to a continuation line
      have hsl := h.sl
      have hline : ((p.advanceLine pos2.line).spacePad.incLevel.decLevel).line = max p.line pos2.line := by
        rw [decLevel_line, incLevel_line, spacePad_line]; rfl
      have ho : ((p.advanceLine pos2.line).spacePad.incLevel.decLevel).o = p.o := by
        rw [decLevel_o, incLevel_o, spacePad_o]; rfl
      have hcur : ((p.advanceLine pos2.line).spacePad.incLevel.decLevel).cur = p.cur := by
        rw [cur_decLevel, cur_incLevel, cur_spacePad]; rfl
      have hj : ((p.advanceLine pos2.line).spacePad.incLevel.decLevel).joinStep false pos2 =
          ((p.advanceLine pos2.line).spacePad.incLevel.decLevel, false) := by
        unfold P.joinStep
        rw [hline]
        have : ¬ pos2.line > max p.line pos2.line := by omega
        simp [this]
      rw [hj] at hfirst
      have hpw : (((p.advanceLine pos2.line).spacePad.incLevel.decLevel).spacePad.preWord w).cur = p.cur := by
        unfold P.preWord
        cases hw : w.parts with
        | nil => simp [Word.pos?, hw] at hp
        | cons wp r =>
          have : wp.pos = pos2 := by simpa [Word.pos?, hw] using hp
          simp only [spacePad_line, hline, this]
          have : ¬ pos2.line > max p.line pos2.line := by omega
          simp only [this, decide_false, Bool.and_false, Bool.false_eq_true, ↓reduceIte, cur_spacePad, hcur]
      rw [hpw] at hfirst
      have h0 : R ((p.advanceLine pos2.line).spacePad.incLevel.decLevel)
          ((q.advanceLine wp'.pos.line).spacePad.incLevel.decLevel) :=
        (h.advance _ _ (by rw [hfirst]; exact Nat.le_refl _)).spacePad.incLevel.decLevel
      exact (h0.wordJoin [w] [w'] t1).wordJoin rest rest' t2

/-! ### subshells and blocks -/

theorem nestedStmtsWith_eq2 (p : P) (ss : Stmts) (c : Pos) (loop : P → P) :
    p.nestedStmtsWith ss c loop = ((p.nestPre ss c).stmtListWith ss loop).decLevel := rfl

theorem stmtListWith_eq2 (p : P) (ss : Stmts) (loop : P → P) :
    p.stmtListWith ss loop = (if ss.single && !p.listSep ss then { loop p with wantNewline := false } else loop p) := by
  unfold P.stmtListWith P.listSep
  cases ss with
  | nil => simp [Stmts.single]
  | cons s r => cases r <;> simp [Stmts.single]

theorem command_block2 (p : P) (lb rb : Pos) (ss : Stmts) :
    p.command (.block lb rb ss) = (p.blkBody lb rb ss).semiRsrv [125] rb.line := by
  rw [P.command]; rfl

theorem semiRsrv_eq2 (p : P) (s : Bytes) (l : Nat) :
    p.semiRsrv s l = { ((p.semiPre l).tok s) with wantSpace := .required } := rfl

theorem command_subshell2 (p : P) (lp rp : Pos) (ss : Stmts) :
    p.command (.subshell lp rp ss) = (p.subClose lp rp ss).rightParen rp.line := by
  rw [P.command]; rfl

theorem single_of_length {ss ss' : Stmts} (h : ss'.length = ss.length) : ss'.single = ss.single := by
  cases ss with
  | nil => cases ss' with
    | nil => rfl
    | cons _ _ => simp [Stmts.length] at h
  | cons s r => cases ss' with
    | nil => simp [Stmts.length] at h
    | cons s' r' =>
      cases r with
      | nil => cases r' with
        | nil => rfl
        | cons _ _ => simp [Stmts.length] at h
      | cons _ _ => cases r' with
        | nil => simp [Stmts.length] at h
        | cons _ _ => rfl

theorem advanceLine_idem (p : P) (a : Nat) : (p.advanceLine a).advanceLine a = p.advanceLine a := by
  simp [P.advanceLine, Nat.max_assoc]

/-- `newlines` alone: the second run is told the line on which the next token goes -/
theorem R.newlines {p q : P} (h : R p q) (l1 l2 : Nat) (hl : l2 = (p.newlines l1).cur) :
    R (p.newlines l1) (q.newlines l2) := by
  have hsl := h.sl
  have hq0 := h.line
  obtain ⟨o, l, rfl⟩ := h.elim
  have hq : l = p.cur := hq0
  rw [newlines_eq] at hl ⊢
  rw [newlines_eq]
  rw [wantsNewline_eq p l1 hsl] at hl
  rw [wantsNewline_eq p l1 hsl, wantsNewline_eq _ l2 (show ({ p with out := o, line := l } : P).o.singleLine = false from hsl)]
  simp only []
  by_cases hf : p.firstLine = true
  rotate_left
  · have hnf : ¬ p.firstLine = true := hf
    rw [if_neg hnf] at hl
    rw [if_neg hnf, if_neg hnf]
    by_cases w1 : (p.mustNewline || (p.wantNewline || decide (l1 > p.line))) = true
    · simp only [w1, Bool.not_true, Bool.false_eq_true, ↓reduceIte] at hl ⊢
      rw [cur_indent, cur_advanceLine] at hl
      by_cases d1 : (decide (l1 > p.line + 1) && !p.o.minify) = true
      · simp only [d1, ↓reduceIte] at hl ⊢
        rw [cur_gapw, cur_nl] at hl
        have hl' : l2 = p.cur + 2 := by rw [hl]; show p.cur + 1 + 1 = _; rfl
        have w2 : (p.mustNewline || (p.wantNewline || decide (l2 > l))) = true := by
          have : l2 > l := by omega
          simp [this]
        have d2 : (decide (l2 > l + 1) && !p.o.minify) = true := by
          have : l2 > l + 1 := by omega
          simp only [Bool.and_eq_true, decide_eq_true_eq] at d1 ⊢
          exact ⟨this, d1.2⟩
        simp only [w2, d2, Bool.not_true, Bool.false_eq_true, ↓reduceIte]
        apply R.indent
        have := h.nlK true l1 l2 hl'
        rw [advanceLine_idem, advanceLine_idem] at this
        exact this
      · simp only [d1, Bool.false_eq_true, ↓reduceIte] at hl ⊢
        rw [cur_nl] at hl
        have w2 : (p.mustNewline || (p.wantNewline || decide (l2 > l))) = true := by
          have : l2 > l := by omega
          simp [this]
        have d2 : (decide (l2 > l + 1) && !p.o.minify) = false := by
          have : ¬ l2 > l + 1 := by omega
          simp [this]
        simp only [w2, d2, Bool.not_true, Bool.false_eq_true, ↓reduceIte]
        apply R.indent
        have := h.nlK false l1 l2 hl
        rw [advanceLine_idem, advanceLine_idem] at this
        exact this
    · simp only [w1, Bool.not_false, ↓reduceIte] at hl ⊢
      have w1' : (p.mustNewline || (p.wantNewline || decide (l1 > p.line))) = false := by
        simpa using w1
      have hm : p.mustNewline = false := by
        cases hh : p.mustNewline
        · rfl
        · simp [hh] at w1'
      have hw : p.wantNewline = false := by
        cases hh : p.wantNewline
        · rfl
        · simp [hh] at w1'
      have w2 : (p.mustNewline || (p.wantNewline || decide (l2 > l))) = false := by
        have : ¬ l2 > l := by omega
        simp [hm, hw, this]
      simp only [w2, Bool.not_false, ↓reduceIte]
      exact h
  · rw [if_pos hf, if_pos hf]
    exact h.set_firstLine false

theorem R.rightParen {p q : P} (h : R p q) (l1 l2 : Nat)
    (hl : l2 = (p.rparenPre l1).cur) : R (p.rightParen l1) (q.rightParen l2) := by
  unfold P.rparenPre at hl
  unfold P.rightParen
  simp only []
  rw [h.o]
  apply R.set_wantSpace
  refine R.tok ?_ [41] rfl
  cases hm : p.o.minify
  · simp only [hm, Bool.false_eq_true, ↓reduceIte, Bool.not_false] at hl ⊢
    exact h.newlines l1 l2 hl
  · simp only [Bool.not_true, Bool.false_eq_true, ↓reduceIte]
    exact h

theorem closingParenSpace_eq2 (x : P) (tt : Stmts) (a b : Nat) : x.closingParenSpace tt a b =
    (if tt.singleRparen && (x.o.singleLine || a == b) then { x with wantSpace := .required }
     else { x with wantSpace := .notRequired }).spacePad := by
  unfold P.closingParenSpace
  cases tt with
  | nil => rfl
  | cons s r =>
    cases r with
    | nil => rfl
    | cons _ _ => rfl

theorem R.closingParenSpace {p q : P} (h : R p q) (ss ss' : Stmts) (ol cl ol' cl' : Nat)
    (hs : ss'.singleRparen = ss.singleRparen) (hag : ss.singleRparen = true → (ol' == cl') = (ol == cl)) :
    R (p.closingParenSpace ss ol cl) (q.closingParenSpace ss' ol' cl') := by
  have hsl := h.sl
  obtain ⟨o, l, rfl⟩ := h.elim
  rw [closingParenSpace_eq2, closingParenSpace_eq2, hs]
  simp only [hsl, Bool.false_or]
  apply R.spacePad
  cases hsr : ss.singleRparen
  · simp only [Bool.false_and, Bool.false_eq_true, ↓reduceIte]
    exact h.set_wantSpace _
  · rw [hag hsr]
    simp only [Bool.true_and]
    split
    · exact h.set_wantSpace _
    · exact h.set_wantSpace _

theorem nestPre_line (p : P) (ss : Stmts) (c : Pos) : (p.nestPre ss c).line = p.line := by
  unfold P.nestPre
  simp only
  split
  · exact incLevel_line p
  · split
    · exact incLevel_line p
    · exact incLevel_line p

theorem R.nestPre {p q : P} (h : R p q) (ss ss' : Stmts) (c c' : Pos) (hlen : ss'.length = ss.length)
    (hag : ss.length ≤ 1 → nestB p.cur ss' c' = nestB p.line ss c) :
    R (p.nestPre ss c) (q.nestPre ss' c') := by
  have h1 := h.incLevel
  have l1 : p.incLevel.line = p.line := incLevel_line p
  have c1 : p.incLevel.cur = p.cur := cur_incLevel p
  unfold P.nestPre
  simp only []
  generalize p.incLevel = p1 at h1 l1 c1 ⊢
  generalize q.incLevel = q1 at h1 ⊢
  have hq0 := h1.line
  obtain ⟨o, l, rfl⟩ := h1.elim
  have hq : l = p1.cur := hq0
  simp only [hlen]
  by_cases hgt : ss.length > 1
  · simp only [hgt, ↓reduceIte]
    exact h1.set_wantNewline true
  · simp only [hgt, ↓reduceIte]
    have hh := hag (by omega)
    unfold nestB at hh
    rw [hlen, ← c1, ← hq, ← l1] at hh
    rw [hh]
    split
    · exact h1.set_wantNewline true
    · exact h1

theorem R.stmtListWith {p q : P} (h : R p q) (ss ss' : Stmts) (loop loop' : P → P)
    (hlen : ss'.length = ss.length)
    (hag : ss.single = true → (p.wantNewline || decide (ss'.headLine > p.cur)) = p.listSep ss)
    (hl : R (loop p) (loop' q)) : R (p.stmtListWith ss loop) (q.stmtListWith ss' loop') := by
  rw [stmtListWith_eq2, stmtListWith_eq2, single_of_length hlen]
  cases hs : ss.single
  · simp only [Bool.false_and, Bool.false_eq_true, ↓reduceIte]
    exact hl
  · have e : q.listSep ss' = p.listSep ss := by
      rw [← hag hs]
      have hs' : ss'.single = true := by rw [single_of_length hlen, hs]
      unfold P.listSep
      rw [h.wantNewline, h.line]
      cases ss' with
      | nil => simp [Stmts.single] at hs'
      | cons s' r' => simp [Stmts.headLine]
    rw [e]
    simp only [Bool.true_and]
    split
    · exact hl.set_wantNewline false
    · exact hl

theorem R.nested {p q : P} (h : R p q) (ss ss' : Stmts) (c c' : Pos) (loop loop' : P → P)
    (hlen : ss'.length = ss.length)
    (hagB : ss.length ≤ 1 → nestB p.cur ss' c' = nestB p.line ss c)
    (hagS : ss.single = true →
      ((p.nestPre ss c).wantNewline || decide (ss'.headLine > (p.nestPre ss c).cur)) = (p.nestPre ss c).listSep ss)
    (hl : R (loop (p.nestPre ss c)) (loop' (q.nestPre ss' c'))) :
    R (p.nestedStmtsWith ss c loop) (q.nestedStmtsWith ss' c' loop') := by
  rw [nestedStmtsWith_eq2, nestedStmtsWith_eq2]
  exact ((h.nestPre ss ss' c c' hlen hagB).stmtListWith ss ss' loop loop' hlen hagS hl).decLevel

theorem R.subshellOpen {p q : P} (h : R p q) (lp lp' : Pos) (ss ss' : Stmts) (hlen : ss'.length = ss.length)
    (hhl : ss'.headLparen = ss.headLparen)
    (hag : ss.headLparen = true → (lp'.line != ss'.headLine) = (lp.line != ss.headLine)) :
    R (p.subshellOpen lp ss) (q.subshellOpen lp' ss') := by
  have h1 := h.tok [40] rfl
  unfold P.subshellOpen
  simp only []
  apply R.spacePad
  generalize p.tok [40] = p1 at h1 ⊢
  generalize q.tok [40] = q1 at h1 ⊢
  have hsl := h1.sl
  obtain ⟨o, l, rfl⟩ := h1.elim
  cases ss with
  | nil =>
    cases ss' with
    | nil => r_same h1
    | cons _ _ => simp [Stmts.length] at hlen
  | cons s rest =>
    cases ss' with
    | nil => simp [Stmts.length] at hlen
    | cons s' rest' =>
      simp only [Stmts.headLparen] at hhl hag
      simp only [Stmts.headLine] at hag
      have hr : rest'.length = rest.length := by simpa [Stmts.length] using hlen
      simp only [hhl, hr, hsl, Bool.not_false, Bool.and_true]
      cases hs : s.startsWithLparen
      · simp only [Bool.false_eq_true, ↓reduceIte]
        r_same h1
      · simp only [↓reduceIte]
        rw [hag hs]
        split
        · split
          · r_same h1
          · r_same h1
        · r_same h1

theorem R.blkOpen {p q : P} (h : R p q) (lb lb' : Pos) (hl : lb'.line = p.cur) : R (p.blkOpen lb) (q.blkOpen lb') := by
  unfold P.blkOpen
  simp only []
  have h1 := (h.advance lb.line lb'.line (by rw [hl]; exact Nat.le_refl _)).spacePad.tok [123] rfl
  generalize (p.advanceLine lb.line).spacePad.tok [123] = p1 at h1 ⊢
  generalize (q.advanceLine lb'.line).spacePad.tok [123] = q1 at h1 ⊢
  obtain ⟨o, l, rfl⟩ := h1.elim
  r_same h1

theorem R.semiPre {p q : P} (h : R p q) (l1 l2 : Nat) (hf : p.firstLine = false) (hl : l2 = (p.semiPre l1).cur) :
    R (p.semiPre l1) (q.semiPre l2) := by
  have hsl := h.sl
  unfold P.semiPre at hl ⊢
  rw [wantsNewline_eq p l1 hsl] at hl
  rw [wantsNewline_eq p l1 hsl, wantsNewline_eq q l2 (h.o ▸ hsl)]
  rw [h.mustNewline, h.wantNewline, h.line]
  by_cases w1 : (p.mustNewline || (p.wantNewline || decide (l1 > p.line))) = true
  · simp only [w1, ↓reduceIte] at hl ⊢
    -- a newline is written
    have hgt : l2 > p.cur := by
      rw [hl, newlines_eq, hf]
      simp only [Bool.false_eq_true, ↓reduceIte]
      rw [wantsNewline_eq p l1 hsl, w1]
      simp only [Bool.not_true, Bool.false_eq_true, ↓reduceIte]
      rw [cur_indent, cur_advanceLine]
      split
      · rw [cur_gapw, cur_nl]; omega
      · rw [cur_nl]; omega
    have w2 : (p.mustNewline || (p.wantNewline || decide (l2 > p.cur))) = true := by simp [hgt]
    simp only [w2, ↓reduceIte]
    exact h.newlines l1 l2 hl
  · have w1' : (p.mustNewline || (p.wantNewline || decide (l1 > p.line))) = false := by simpa using w1
    simp only [w1', Bool.false_eq_true, ↓reduceIte] at hl ⊢
    have hm : p.mustNewline = false := by
      cases hh : p.mustNewline
      · rfl
      · simp [hh] at w1'
    have hw : p.wantNewline = false := by
      cases hh : p.wantNewline
      · rfl
      · simp [hh] at w1'
    have hc : l2 = p.cur := by
      rw [hl]
      have e : ∀ x : P, (if (!x.o.minify) = true then x.spacePad else x).cur = x.cur := by
        intro x; split
        · exact cur_spacePad x
        · rfl
      rw [e]
      split
      · rw [cur_tok]; rfl
      · rfl
    have w2 : (p.mustNewline || (p.wantNewline || decide (l2 > p.cur))) = false := by
      simp [hm, hw, hc]
    simp only [w2, Bool.false_eq_true, ↓reduceIte]
    have hx : R (if (!p.wroteSemi) = true then p.tok [59] else p) (if (!q.wroteSemi) = true then q.tok [59] else q) := by
      rw [h.wroteSemi]
      split
      · exact h.tok [59] rfl
      · exact h
    generalize (if (!p.wroteSemi) = true then p.tok [59] else p) = px at hx ⊢
    generalize (if (!q.wroteSemi) = true then q.tok [59] else q) = qx at hx ⊢
    rw [hx.o]
    split
    · exact hx.spacePad
    · exact hx

mutual
theorem fix_stmt : ∀ (s s' : Stmt) (p q : P), R p q → TrStmt p s s' → R (p.stmt s) (q.stmt s')
  | .mk pos semi neg bg cmd, .mk pos' semi' neg' bg' cmd', p, q, h, t => by
    simp only [TrStmt] at t
    obtain ⟨rfl, rfl, _, tc, ts⟩ := t
    rw [P.stmt, P.stmt]
    exact (fix_cmd cmd cmd' _ _ (h.stmtPre neg') tc).stmtEnd ts
theorem fix_cmd : ∀ (c c' : Cmd) (p q : P), R p q → TrCmd p c c' → R (p.command c) (q.command c')
  | .call args, c', p, q, h, t => by
    cases c' with
    | call args' =>
      simp only [TrCmd] at t
      exact h.call args args' t
    | subshell _ _ _ => simp [TrCmd] at t
    | block _ _ _ => simp [TrCmd] at t
    | binary _ _ _ _ => simp [TrCmd] at t
  | .binary opPos op x y, c', p, q, h, t => by
    cases c' with
    | call _ => simp [TrCmd] at t
    | subshell _ _ _ => simp [TrCmd] at t
    | block _ _ _ => simp [TrCmd] at t
    | binary opPos' op' x' y' =>
      simp only [TrCmd] at t
      obtain ⟨rfl, tx, hop, ty⟩ := t
      rw [P.command, P.command]
      have hx0 : x'.pos.line = p.cur := by rw [tx.pos, cur_spacePad]; rfl
      have h0 : R ((p.advanceLine x.pos.line).spacePad) ((q.advanceLine x'.pos.line).spacePad) :=
        (h.advance _ _ (by rw [hx0]; exact Nat.le_refl _)).spacePad
      have h1 := fix_stmt x x' _ _ h0 tx
      have k := h1.binaryOp opPos opPos' op' y.pos.line y'.pos.line y.isBinaryCmd ty.pos hop
      rw [ty.isBinary, k.2]
      exact (fix_stmt y y' _ _ k.1 ty).binaryEnd _ _
  | .subshell lp rp ss, c', p, q, h, t => by
    cases c' with
    | call _ => simp [TrCmd] at t
    | block _ _ _ => simp [TrCmd] at t
    | binary _ _ _ _ => simp [TrCmd] at t
    | subshell lp' rp' ss' =>
      simp only [TrCmd] at t
      obtain ⟨hlen, hhl, hsr, hlp, hagO, hagB, hagS, hagE, tl, hrp⟩ := t
      rw [command_subshell2, command_subshell2]
      have h0 : R ((p.advanceLine lp.line).spacePad) ((q.advanceLine lp'.line).spacePad) :=
        (h.advance _ _ (by rw [hlp]; exact Nat.le_refl _)).spacePad
      have h1 := h0.subshellOpen lp lp' ss ss' hlen hhl hagO
      have hloop := fix_loop ss ss' _ _ true (h1.nestPre ss ss' rp rp' hlen hagB) tl
      have h4 := h1.nested ss ss' rp rp' (fun x => x.stmtListLoop true ss) (fun x => x.stmtListLoop true ss')
        hlen hagB hagS hloop
      have h5 := h4.closingParenSpace ss ss' lp.line rp.line lp'.line rp'.line hsr hagE
      exact h5.rightParen rp.line rp'.line hrp
  | .block lb rb ss, c', p, q, h, t => by
    cases c' with
    | call _ => simp [TrCmd] at t
    | subshell _ _ _ => simp [TrCmd] at t
    | binary _ _ _ _ => simp [TrCmd] at t
    | block lb' rb' ss' =>
      simp only [TrCmd] at t
      obtain ⟨hlen, hlb, hagB, hagS, tl, hf, hrb⟩ := t
      rw [command_block2, command_block2, semiRsrv_eq2, semiRsrv_eq2]
      have h1 := h.blkOpen lb lb' hlb
      have hloop := fix_loop ss ss' _ _ true (h1.nestPre ss ss' rb rb' hlen hagB) tl
      have h4 := h1.nested ss ss' rb rb' (fun x => x.stmtListLoop true ss) (fun x => x.stmtListLoop true ss')
        hlen hagB hagS hloop
      have h5 : R (p.blkBody lb rb ss) (q.blkBody lb' rb' ss') := by
        unfold P.blkBody
        rw [h4.o, hlen]
        split
        · exact h4.space
        · exact h4
      exact ((h5.semiPre rb.line rb'.line hf hrb).tok [125] rfl).set_wantSpace _
theorem fix_loop : ∀ (ss ss' : Stmts) (p q : P) (first : Bool), R p q → TrLoop p first ss ss' →
    R (p.stmtListLoop first ss) (q.stmtListLoop first ss')
  | .nil, .nil, p, q, first, h, _ => by
    rw [P.stmtListLoop, P.stmtListLoop]; exact h
  | .nil, .cons _ _, _, _, _, _, t => by simp [TrLoop] at t
  | .cons _ _, .nil, _, _, _, _, t => by simp [TrLoop] at t
  | .cons s rest, .cons s' rest', p, q, first, h, t => by
    simp only [TrLoop] at t
    obtain ⟨ts, tr⟩ := t
    rw [P.stmtListLoop, P.stmtListLoop]
    have h1 := h.stmtSep first s.pos.line s'.pos.line ts.pos
    have h2 := fix_stmt s s' _ _ h1 ts
    exact fix_loop rest rest' _ _ false (h2.set_wantNewline true) tr
end

/-! ### files -/

/-- the second run may as well start with its line counter on line 1 -/
def P.init1 (o : Opts) : P := { P.init o with line := 1 }

theorem R.init (o : Opts) (hsl : o.singleLine = false) : R (P.init o) (P.init1 o) :=
  ⟨rfl, rfl, rfl, rfl, rfl, rfl, rfl, rfl, rfl, rfl, rfl, rfl, rfl, hsl⟩

theorem init_sep (o : Opts) (l : Nat) (hl : 1 ≤ l) :
    (P.init o).stmtSep true l = (P.init1 o).stmtSep true l := by
  have e : max 0 l = max 1 l := by omega
  cases hm : o.minify <;>
    simp [P.stmtSep, P.init, P.init1, hm, P.newlines, P.advanceLine, e]

theorem init_loop (o : Opts) (ss : Stmts) (h : ∀ s r, ss = .cons s r → 1 ≤ s.pos.line) :
    ((P.init o).stmtListLoop true ss).out = ((P.init1 o).stmtListLoop true ss).out ∧
    ((P.init o).stmtListLoop true ss).panicked = ((P.init1 o).stmtListLoop true ss).panicked := by
  cases ss with
  | nil => rw [P.stmtListLoop, P.stmtListLoop]; exact ⟨rfl, rfl⟩
  | cons s r =>
    rw [P.stmtListLoop, P.stmtListLoop, init_sep o _ (h s r rfl)]
    exact ⟨rfl, rfl⟩

theorem stmtList_fin (p : P) (ss : Stmts) :
    ((p.stmtList ss).newline 0).finish = ((p.stmtListLoop true ss).newline 0).finish := by
  unfold P.stmtList P.stmtListWith
  simp only []
  split
  · split <;> split <;> rfl
  · rfl

theorem fin_congr (a b : P) (ho : a.out = b.out) (hp : a.panicked = b.panicked) :
    (a.newline 0).finish = (b.newline 0).finish := by
  unfold P.finish P.newline P.advanceLine P.gapw
  simp only [ho, hp]

theorem fin_R {p q : P} (h : R p q) : (q.newline 0).finish = (p.newline 0).finish := by
  have e : render (Piece.gap [10] :: q.out).reverse = render (Piece.gap [10] :: p.out).reverse := by
    have := h.out
    unfold outB at this
    simp only [List.reverse_cons, render_snoc, this]
  unfold P.finish P.newline P.advanceLine P.gapw
  simp only [h.panicked, e]

/-- `f'` carries the lines on which printing `f` puts its tokens -/
def TrFile (o : Opts) (f f' : File) : Prop := TrLoop (P.init o) true f.stmts f'.stmts

theorem cur_pos (p : P) : 1 ≤ p.cur := by rw [P.cur_eq]; omega

/-- **The printer is a fixpoint on transcripts of its own output.** -/
theorem printFile_fix (o : Opts) (f f' : File) (hsl : o.singleLine = false) (t : TrFile o f f') :
    printFile o f' = printFile o f := by
  unfold printFile
  split
  · rfl
  · rw [stmtList_fin, stmtList_fin]
    have h1 : ∀ s r, f'.stmts = .cons s r → 1 ≤ s.pos.line := by
      intro s r hs
      unfold TrFile at t
      rw [hs] at t
      cases hf : f.stmts with
      | nil => rw [hf] at t; simp [TrLoop] at t
      | cons s0 r0 =>
        rw [hf] at t
        simp only [TrLoop] at t
        rw [t.1.pos]
        exact cur_pos _
    have e := init_loop o f'.stmts h1
    rw [fin_congr _ _ e.1 e.2]
    exact fin_R (fix_loop f.stmts f'.stmts _ _ true (R.init o hsl) t)

/-! ### the executable transcript check is sound -/

theorem trWordB_sound {p : P} {w w' : Word} (h : trWordB p w w' = true) : TrWord p w w' := by
  unfold trWordB at h
  simp only [Bool.and_eq_true, beq_iff_eq] at h
  obtain ⟨⟨⟨h1, h2⟩, h3⟩, h4⟩ := h
  refine ⟨?_, h2, ?_, h4⟩
  · intro e; rw [e] at h1; simp at h1
  · cases hw : w'.parts with
    | nil => rw [hw] at h3; simp at h3
    | cons wp' r => rw [hw] at h3; exact ⟨wp', r, rfl, by simpa using h3⟩

theorem trArgsB_sound : ∀ (ws ws' : List Word) (p : P) (any : Bool), trArgsB p any ws ws' = true → TrArgs p any ws ws'
  | [], [], _, _, _ => by simp [TrArgs]
  | [], _ :: _, _, _, h => by simp [trArgsB] at h
  | _ :: _, [], _, _, h => by simp [trArgsB] at h
  | w :: rest, w' :: rest', p, any, h => by
    rw [trArgsB] at h
    simp only [TrArgs]
    cases hp : w.pos? with
    | none => rw [hp] at h; simp at h
    | some pos =>
      rw [hp] at h
      simp only [Bool.and_eq_true] at h
      exact ⟨pos, rfl, trWordB_sound h.1, trArgsB_sound rest rest' _ _ h.2⟩

theorem trCallB_sound {p : P} {args args' : List Word} (h : trCallB p args args' = true) : TrCall p args args' := by
  cases args with
  | nil => simp [trCallB] at h
  | cons w rest =>
    cases args' with
    | nil => simp [trCallB] at h
    | cons w' rest' =>
      rw [trCallB] at h
      simp only [TrCall]
      cases hp : w.pos? with
      | none => rw [hp] at h; simp at h
      | some pos =>
        rw [hp] at h
        simp only [Bool.and_eq_true] at h
        exact ⟨pos, rfl, trArgsB_sound _ _ _ _ h.1, trArgsB_sound _ _ _ _ h.2⟩

theorem trSemiB_sound {p : P} {semi semi' : Pos} {bg : Bool} (h : trSemiB p semi bg semi' = true) :
    TrSemiS p semi bg semi' := by
  unfold trSemiB at h
  simp only [Bool.and_eq_true, beq_iff_eq] at h
  obtain ⟨h1, h2⟩ := h
  refine ⟨h1, ?_, ?_⟩
  · intro hv hl
    have : semi.valid = true ∧ decide (semi.line > p.line) = true := ⟨hv, by simpa using hl⟩
    rw [if_pos this] at h2
    simpa using h2
  · intro hn hb
    have : ¬ (semi.valid = true ∧ decide (semi.line > p.line) = true) := by
      intro hh
      exact hn ⟨hh.1, by simpa using hh.2⟩
    rw [if_neg this, if_pos hb] at h2
    simpa using h2

mutual
theorem trStmtB_sound : ∀ (s s' : Stmt) (p : P), trStmtB p s s' = true → TrStmt p s s'
  | .mk _ semi neg bg cmd, .mk pos' semi' neg' bg' cmd', p, h => by
    rw [trStmtB] at h
    simp only [Bool.and_eq_true, beq_iff_eq] at h
    obtain ⟨⟨⟨⟨h1, h2⟩, h3⟩, h4⟩, h5⟩ := h
    simp only [TrStmt]
    exact ⟨h1, h2, h3, trCmdB_sound cmd cmd' _ h4, (trSemiB_sound h5).weak⟩
theorem trCmdB_sound : ∀ (c c' : Cmd) (p : P), trCmdB p c c' = true → TrCmd p c c'
  | .call args, c', p, h => by
    cases c' with
    | call args' =>
      rw [trCmdB] at h
      simp only [TrCmd]
      exact trCallB_sound h
    | subshell _ _ _ => simp [trCmdB] at h
    | block _ _ _ => simp [trCmdB] at h
    | binary _ _ _ _ => simp [trCmdB] at h
  | .binary opPos op x y, c', p, h => by
    cases c' with
    | call _ => simp [trCmdB] at h
    | subshell _ _ _ => simp [trCmdB] at h
    | block _ _ _ => simp [trCmdB] at h
    | binary opPos' op' x' y' =>
      rw [trCmdB] at h
      simp only [Bool.and_eq_true, beq_iff_eq, decide_eq_true_eq] at h
      obtain ⟨⟨⟨h1, h2⟩, h3⟩, h4⟩ := h
      simp only [TrCmd]
      exact ⟨h1, trStmtB_sound x x' _ h2, h3, trStmtB_sound y y' _ h4⟩
  | .subshell _ _ _, _, _, h => by simp [trCmdB] at h
  | .block _ _ _, _, _, h => by simp [trCmdB] at h
end

theorem trLoopB_sound : ∀ (ss ss' : Stmts) (p : P) (first : Bool), trLoopB p first ss ss' = true → TrLoop p first ss ss'
  | .nil, .nil, _, _, _ => by simp [TrLoop]
  | .nil, .cons _ _, _, _, h => by simp [trLoopB] at h
  | .cons _ _, .nil, _, _, h => by simp [trLoopB] at h
  | .cons s rest, .cons s' rest', p, first, h => by
    rw [trLoopB] at h
    simp only [Bool.and_eq_true] at h
    simp only [TrLoop]
    exact ⟨trStmtB_sound s s' _ h.1, trLoopB_sound rest rest' _ _ h.2⟩

theorem trFileB_sound {o : Opts} {f f' : File} (h : trFileB o f f' = true) : TrFile o f f' :=
  trLoopB_sound _ _ _ _ h

/-- **The printer is a fixpoint on transcripts of its own output** (executable hypothesis). -/
theorem printFile_transcript (o : Opts) (f f' : File) (hsl : o.singleLine = false) (t : trFileB o f f' = true) :
    printFile o f' = printFile o f :=
  printFile_fix o f f' hsl (trFileB_sound t)

end ShVerif.L4
