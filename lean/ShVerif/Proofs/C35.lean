import ShVerif.Model.C35
/-
  C35 — helper lemmas: all intermediate states of a script, and prefixes.
-/
namespace ShVerif.C35

/-- The states after every prefix of the script (the empty prefix first); `none` once a call failed. -/
def states : List Op → FS → List (Option FS)
  | [], fs => [some fs]
  | o :: os, fs =>
    some fs :: (match step fs o with
      | some fs' => states os fs'
      | none => [none])

theorem run_take_mem_states (l : List Op) (fs : FS) (k : Nat) :
    run (l.take k) fs ∈ states l fs := by
  induction l generalizing fs k with
  | nil => simp [run, states]
  | cons o os ih =>
    cases k with
    | zero => simp [run, states]
    | succ k =>
      simp only [List.take_succ_cons, run, states]
      cases h : step fs o with
      | none => simp
      | some fs' =>
        simp only [Option.bind_some]
        exact List.mem_cons_of_mem _ (ih fs' k)

theorem run_mem_states (l : List Op) (fs : FS) : run l fs ∈ states l fs := by
  have := run_take_mem_states l fs l.length
  simpa using this

@[simp] theorem upd_same {α β : Type} [DecidableEq α] (f : α → β) (a : α) (b : β) : upd f a b a = b := by
  simp [upd]

@[simp] theorem upd_other {α β : Type} [DecidableEq α] (f : α → β) (a x : α) (b : β) (h : x ≠ a) :
    upd f a b x = f x := by
  simp [upd, h]

end ShVerif.C35
