import ShVerif.Model.C16
import ShVerif.Proofs.C16
import ShVerif.Proofs.C16b
/-
  C16 — lemmas for `bash_equiv_partial`, part B: bash's gobbler-based recursion on the text of a
  well-formed brace expression tree computes the denotation of the tree.
-/
set_option linter.unusedSimpArgs false
set_option linter.unusedVariables false
namespace ShVerif.C16

/-- Prepend skipped text to the amble a gobbler returns. -/
def prep (p : Bytes) : Option (Bytes × Bytes) → Option (Bytes × Bytes)
  | none => none
  | some (a, q) => some (p ++ a, q)

@[simp] theorem prep_nil (o : Option (Bytes × Bytes)) : prep [] o = o := by
  cases o with
  | none => rfl
  | some x => cases x; simp [prep]

theorem prep_prep (p q : Bytes) (o : Option (Bytes × Bytes)) :
    prep p (prep q o) = prep (p ++ q) o := by
  cases o with
  | none => rfl
  | some x => cases x; simp [prep]

/-! ### `brace_gobbler(…, '}')` steps -/

theorem gc_safe (c : UInt8) (h : safeByte c = true) (l k : Nat) (r : Bytes) :
    gobbleClose l k (c :: r) = prep [c] (gobbleClose l k r) := by
  obtain ⟨h1, h2, h3, h4, h5, h6⟩ := safeByte_ne c h
  rw [gobbleClose.eq_def]
  simp only [h1, h2, h3, h4, h5, h6, false_and, if_false]
  cases gobbleClose l k r with
  | none => rfl
  | some x => cases x; rfl

theorem gc_lb (l k : Nat) (r : Bytes) :
    gobbleClose l k (cLB :: r) = prep [cLB] (gobbleClose (l + 1) k r) := by
  rw [gobbleClose.eq_def]
  simp
  cases gobbleClose (l + 1) k r with
  | none => rfl
  | some x => cases x; rfl

theorem gc_rb_pos (l k : Nat) (r : Bytes) :
    gobbleClose (l + 1) k (cRB :: r) = prep [cRB] (gobbleClose l k r) := by
  rw [gobbleClose.eq_def]
  simp
  cases gobbleClose l k r with
  | none => rfl
  | some x => cases x; rfl

theorem gc_rb_close (k : Nat) (hk : 0 < k) (r : Bytes) :
    gobbleClose 0 k (cRB :: r) = some ([], r) := by
  rw [gobbleClose.eq_def]
  simp [hk]

theorem gc_comma0 (k : Nat) (r : Bytes) :
    gobbleClose 0 k (cComma :: r) = prep [cComma] (gobbleClose 0 (k + 1) r) := by
  rw [gobbleClose.eq_def]
  simp
  cases gobbleClose 0 (k + 1) r with
  | none => rfl
  | some x => cases x; rfl

theorem gc_comma_pos (l k : Nat) (r : Bytes) :
    gobbleClose (l + 1) k (cComma :: r) = prep [cComma] (gobbleClose (l + 1) k r) := by
  rw [gobbleClose.eq_def]
  simp
  cases gobbleClose (l + 1) k r with
  | none => rfl
  | some x => cases x; rfl

theorem gc_dot_pos (l k : Nat) (r : Bytes) :
    gobbleClose (l + 1) k (cDot :: r) = prep [cDot] (gobbleClose (l + 1) k r) := by
  rw [gobbleClose.eq_def]
  simp
  cases gobbleClose (l + 1) k r with
  | none => rfl
  | some x => cases x; rfl

theorem gc_dot0_count (k : Nat) (c : UInt8) (r : Bytes) (hc : c ≠ cRB) :
    gobbleClose 0 k (cDot :: cDot :: c :: r) =
      prep [cDot] (gobbleClose 0 (k + 1) (cDot :: c :: r)) := by
  rw [gobbleClose.eq_def]
  simp [hc]
  cases gobbleClose 0 (k + 1) (cDot :: c :: r) with
  | none => rfl
  | some x => cases x; rfl

theorem gc_dot0_no (k : Nat) (c : UInt8) (r : Bytes) (hc : c ≠ cDot) :
    gobbleClose 0 k (cDot :: c :: r) = prep [cDot] (gobbleClose 0 k (c :: r)) := by
  rw [gobbleClose.eq_def]
  simp [hc]
  cases gobbleClose 0 k (c :: r) with
  | none => rfl
  | some x => cases x; rfl

theorem gc_safes (v : Bytes) (hv : v.all safeByte = true) (l k : Nat) (r : Bytes) :
    gobbleClose l k (v ++ r) = prep v (gobbleClose l k r) := by
  induction v with
  | nil => simp
  | cons c v ih =>
    simp only [List.all_cons, Bool.and_eq_true] at hv
    rw [List.cons_append, gc_safe c hv.1, ih hv.2, prep_prep]
    rfl

theorem gc_inner : ∀ (v : Bytes), innerOk v = true → ∀ (l k : Nat) (r : Bytes),
    gobbleClose l k (v ++ r) = prep v (gobbleClose l k r)
  | [], _, l, k, r => by simp
  | [c], h, l, k, r => by
    simp only [innerOk] at h
    exact gc_safes [c] (by simp [h]) l k r
  | c :: d :: t, h, l, k, r => by
    simp only [innerOk, Bool.and_eq_true, Bool.or_eq_true, decide_eq_true_eq] at h
    have ih := gc_inner (d :: t) h.2 l k r
    rcases h.1 with hc | ⟨rfl, hd⟩
    · rw [List.cons_append, gc_safe c hc, ih, prep_prep]; rfl
    · cases l with
      | zero =>
        rw [List.cons_append, List.cons_append, gc_dot0_no k d (t ++ r) hd]
        have := ih; simp only [List.cons_append] at this
        rw [this, prep_prep]; rfl
      | succ l =>
        rw [List.cons_append, gc_dot_pos, ih, prep_prep]; rfl

/-! ### skipping the text of a canonical tree inside a gobbler -/

def GobSkips (u : List Part) : Prop :=
  ∀ (l k : Nat) (r : Bytes), gobbleClose l k (render u ++ r) = prep (render u) (gobbleClose l k r)

theorem gc_elems_pos (es : List (List Part)) (hes : ∀ e ∈ es, GobSkips e) (l k : Nat) (r : Bytes) :
    gobbleClose (l + 1) k (joinSep [cComma] (renderElems es) ++ r) =
      prep (joinSep [cComma] (renderElems es)) (gobbleClose (l + 1) k r) := by
  induction es with
  | nil => simp [joinSep]
  | cons e es ih =>
    cases es with
    | nil =>
      simp only [renderElems_cons, renderElems_nil, joinSep]
      exact hes e (by simp) _ _ _
    | cons e' es' =>
      have ih' := ih (fun x hx => hes x (by simp [hx]))
      simp only [renderElems_cons, joinSep, List.append_assoc] at ih' ⊢
      rw [hes e (by simp), List.singleton_append, gc_comma_pos, ih', prep_prep, prep_prep]
      simp

theorem gc_seq_pos (a b : Bytes) (ha : a.all safeByte = true) (hb : b.all safeByte = true)
    (l k : Nat) (r : Bytes) :
    gobbleClose (l + 1) k (a ++ (dots ++ (b ++ r))) =
      prep (a ++ (dots ++ b)) (gobbleClose (l + 1) k r) := by
  rw [gc_safes a ha]
  simp only [dots, List.cons_append, List.nil_append]
  rw [gc_dot_pos, gc_dot_pos, gc_safes b hb, prep_prep, prep_prep, prep_prep]
  simp

mutual
theorem gobSkipsPart : ∀ (p : Part), canonPart p = true → GobSkips [p]
  | .lit v, h => by
    intro l k r
    simp only [canonPart] at h
    simp only [render_cons, renderPart_lit, render_nil, List.append_nil]
    exact gc_inner v (innerLit_ok v h) l k r
  | .brace true elems, h => by
    intro l k r
    simp only [canonPart, if_true, Bool.and_eq_true] at h
    rcases seq_elems_cases elems h.1 h.2 with ⟨a, b, rfl, ha, hb⟩ | ⟨a, b, c, rfl, ha, hb, hc⟩
    · simp only [render_cons, render_nil, List.append_nil, renderPart_brace, sepOf, if_true,
        renderElems_cons, renderElems_nil, renderPart_lit, joinSep, List.cons_append,
        List.append_assoc, List.singleton_append]
      rw [gc_lb, gc_seq_pos a b (safeLit_all a ha) (safeLit_all b hb), gc_rb_pos, prep_prep, prep_prep]
      simp
    · simp only [render_cons, render_nil, List.append_nil, renderPart_brace, sepOf, if_true,
        renderElems_cons, renderElems_nil, renderPart_lit, joinSep, List.cons_append,
        List.append_assoc, List.singleton_append]
      rw [gc_lb, gc_seq_pos a b (safeLit_all a ha) (safeLit_all b hb)]
      simp only [dots, List.cons_append, List.nil_append]
      rw [gc_dot_pos, gc_dot_pos, gc_safes c (safeLit_all c hc), gc_rb_pos]
      simp only [prep_prep]
      simp [dots]
  | .brace false elems, h => by
    intro l k r
    simp only [canonPart, Bool.false_eq_true, if_false, Bool.and_eq_true] at h
    simp only [render_cons, render_nil, List.append_nil, renderPart_brace, sepOf,
      Bool.false_eq_true, if_false, List.cons_append, List.append_assoc, List.singleton_append]
    rw [gc_lb, gc_elems_pos elems (gobSkipsMem elems h.2), gc_rb_pos, prep_prep, prep_prep]
    simp
theorem gobSkips : ∀ (u : List Part), canon u = true → GobSkips u
  | [], _ => by intro l k r; simp
  | p :: ps, h => by
    intro l k r
    obtain ⟨hp, hps, _⟩ := canon_cons p ps h
    have h1 := gobSkipsPart p hp l k (render ps ++ r)
    simp only [render_cons, render_nil, List.append_nil] at h1
    simp only [render_cons, List.append_assoc]
    rw [h1, gobSkips ps hps l k r, prep_prep]
theorem gobSkipsMem : ∀ (es : List (List Part)), canonElems es = true → ∀ e ∈ es, GobSkips e
  | [], _ => by intro e he; cases he
  | x :: xs, h => by
    simp only [canonElems, Bool.and_eq_true] at h
    intro e he
    simp only [List.mem_cons] at he
    rcases he with rfl | he
    · exact gobSkips e h.1
    · exact gobSkipsMem xs h.2 e he
end

/-- The candidate list group: the gobbler stops at its closing brace. -/
theorem gc_list0 (es : List (List Part)) (hes : ∀ e ∈ es, GobSkips e) (e : List Part)
    (he : GobSkips e) (k : Nat) (hk : 0 < k ∨ es ≠ []) (post : Bytes) :
    gobbleClose 0 k (joinSep [cComma] (render e :: renderElems es) ++ cRB :: post) =
      some (joinSep [cComma] (render e :: renderElems es), post) := by
  induction es generalizing e k with
  | nil =>
    simp only [renderElems_nil, joinSep]
    rw [he, gc_rb_close k (by rcases hk with h | h; exact h; exact absurd rfl h)]
    simp [prep]
  | cons e' es' ih =>
    simp only [renderElems_cons, joinSep, List.append_assoc]
    rw [he, List.singleton_append, gc_comma0,
      ih (fun x hx => hes x (by simp [hx])) e' (hes e' (by simp)) (k + 1) (Or.inl (by omega))]
    simp [prep]

theorem safe_head_ne (b : Bytes) (hb : safeLit b = true) :
    ∃ c r, b = c :: r ∧ c ≠ cRB ∧ c ≠ cDot ∧ r.all safeByte = true := by
  cases b with
  | nil => simp [safeLit] at hb
  | cons c r =>
    simp only [safeLit, List.isEmpty_cons, Bool.not_false, List.all_cons, Bool.true_and,
      Bool.and_eq_true] at hb
    obtain ⟨_, h2, _, h4, _, _⟩ := safeByte_ne c hb.1
    exact ⟨c, r, rfl, h2, h4, hb.2⟩

theorem gc_seq0_2 (a b : Bytes) (ha : safeLit a = true) (hb : safeLit b = true) (post : Bytes) :
    gobbleClose 0 0 (a ++ (dots ++ (b ++ cRB :: post))) = some (a ++ (dots ++ b), post) := by
  obtain ⟨c, r, rfl, hc1, hc2, hr⟩ := safe_head_ne b hb
  rw [gc_safes a (safeLit_all a ha)]
  simp only [dots, List.cons_append, List.nil_append]
  rw [gc_dot0_count 0 c _ hc1, gc_dot0_no _ c _ hc2,
    show c :: (r ++ cRB :: post) = (c :: r) ++ cRB :: post from rfl,
    gc_safes (c :: r) (safeLit_all _ hb), gc_rb_close 1 (by omega)]
  simp [prep]

theorem gc_seq0_3 (a b c : Bytes) (ha : safeLit a = true) (hb : safeLit b = true)
    (hc : safeLit c = true) (post : Bytes) :
    gobbleClose 0 0 (a ++ (dots ++ (b ++ (dots ++ (c ++ cRB :: post))))) =
      some (a ++ (dots ++ (b ++ (dots ++ c))), post) := by
  obtain ⟨x, r, rfl, hx1, hx2, hr⟩ := safe_head_ne b hb
  obtain ⟨y, s, rfl, hy1, hy2, hs⟩ := safe_head_ne c hc
  rw [gc_safes a (safeLit_all a ha)]
  simp only [dots, List.cons_append, List.nil_append]
  rw [gc_dot0_count 0 x _ hx1, gc_dot0_no _ x _ hx2,
    show x :: (r ++ cDot :: cDot :: y :: (s ++ cRB :: post)) =
      (x :: r) ++ cDot :: cDot :: y :: (s ++ cRB :: post) from rfl,
    gc_safes (x :: r) (safeLit_all _ hb), gc_dot0_count 1 y _ hy1, gc_dot0_no _ y _ hy2,
    show y :: (s ++ cRB :: post) = (y :: s) ++ cRB :: post from rfl,
    gc_safes (y :: s) (safeLit_all _ hc), gc_rb_close 2 (by omega)]
  simp [prep]

/-! ### `brace_gobbler(…, '{')` -/

theorem go_safe (c : UInt8) (h : safeByte c = true) (b : Bool) (r : Bytes) :
    gobbleOpen b 0 (c :: r) = prep [c] (gobbleOpen false 0 r) := by
  obtain ⟨h1, h2, h3, h4, h5, h6⟩ := safeByte_ne c h
  rw [gobbleOpen.eq_def]
  simp only [h1, h2, h3, h4, h5, h6, false_and, if_false]
  cases gobbleOpen false 0 r with
  | none => rfl
  | some x => cases x; rfl

theorem go_lb (b : Bool) (r : Bytes) (h : ¬ (b = true ∧ (r = [] ∨ r.head? = some cRB))) :
    gobbleOpen b 0 (cLB :: r) = some ([], r) := by
  rw [gobbleOpen.eq_def]
  simp [h]

theorem go_safes_none (v : Bytes) (hv : v.all safeByte = true) (b : Bool) :
    gobbleOpen b 0 v = none := by
  induction v generalizing b with
  | nil => rw [gobbleOpen.eq_def]
  | cons c v ih =>
    simp only [List.all_cons, Bool.and_eq_true] at hv
    rw [go_safe c hv.1, ih hv.2]; rfl

theorem go_safes_lb (v : Bytes) (hv : v.all safeByte = true) (b : Bool) (r : Bytes)
    (h : v = [] → ¬ (b = true ∧ (r = [] ∨ r.head? = some cRB))) :
    gobbleOpen b 0 (v ++ cLB :: r) = some (v, r) := by
  induction v generalizing b with
  | nil => simp only [List.nil_append]; exact go_lb b r (h rfl)
  | cons c v ih =>
    simp only [List.all_cons, Bool.and_eq_true] at hv
    rw [List.cons_append, go_safe c hv.1, ih hv.2 false (by intro _; simp)]
    simp [prep]

/-- Bytes allowed in a literal outside any brace group. -/
def topByte (b : UInt8) : Bool := b ≠ cLB && b ≠ cBS && b ≠ cDollar

theorem topByte_ne (c : UInt8) (h : topByte c = true) : c ≠ cLB ∧ c ≠ cBS ∧ c ≠ cDollar := by
  have := h
  simp only [topByte, Bool.and_eq_true, decide_eq_true_eq] at this
  exact ⟨this.1.1, this.1.2, this.2⟩

theorem safeByte_top (c : UInt8) (h : safeByte c = true) : topByte c = true := by
  obtain ⟨h1, _, _, _, h5, h6⟩ := safeByte_ne c h
  simp [topByte, h1, h5, h6]

theorem go_top (c : UInt8) (h : topByte c = true) (b : Bool) (r : Bytes) :
    gobbleOpen b 0 (c :: r) = prep [c] (gobbleOpen false 0 r) := by
  obtain ⟨h1, h2, h3⟩ := topByte_ne c h
  rw [gobbleOpen.eq_def]
  simp only [h1, h2, h3, false_and, if_false, Nat.lt_irrefl, and_false]
  cases gobbleOpen false 0 r with
  | none => rfl
  | some x => cases x; rfl

theorem go_tops_none (v : Bytes) (hv : v.all topByte = true) (b : Bool) :
    gobbleOpen b 0 v = none := by
  induction v generalizing b with
  | nil => rw [gobbleOpen.eq_def]
  | cons c v ih =>
    simp only [List.all_cons, Bool.and_eq_true] at hv
    rw [go_top c hv.1, ih hv.2]; rfl

theorem go_tops_lb (v : Bytes) (hv : v.all topByte = true) (b : Bool) (r : Bytes)
    (h : v = [] → ¬ (b = true ∧ (r = [] ∨ r.head? = some cRB))) :
    gobbleOpen b 0 (v ++ cLB :: r) = some (v, r) := by
  induction v generalizing b with
  | nil => simp only [List.nil_append]; exact go_lb b r (h rfl)
  | cons c v ih =>
    simp only [List.all_cons, Bool.and_eq_true] at hv
    rw [List.cons_append, go_top c hv.1, ih hv.2 false (by intro _; simp)]
    simp [prep]

theorem findBrace_top (n : Nat) (b : Bool) (v : Bytes) (hv : v.all topByte = true) :
    findBrace n b v = none := by
  cases n with
  | zero => simp [findBrace]
  | succ n => simp only [findBrace, go_tops_none v hv b]

/-! ### the comma test and `expand_amble` -/

theorem hc_safe (c : UInt8) (h : c ≠ cBS) (h' : c ≠ cComma) (r : Bytes) :
    hasComma (c :: r) = hasComma r := by
  rw [hasComma.eq_def]; simp [h, h']

theorem hc_comma (r : Bytes) : hasComma (cComma :: r) = true := by
  rw [hasComma.eq_def]; simp

/-- Bytes a canonical text is made of: no backslash. -/
def noBS (v : Bytes) : Prop := ∀ c ∈ v, c ≠ cBS

theorem hc_prefix (x : Bytes) (hx : noBS x) (y : Bytes) : hasComma (x ++ cComma :: y) = true := by
  induction x with
  | nil => exact hc_comma y
  | cons c x ih =>
    rw [List.cons_append, hasComma.eq_def]
    have : c ≠ cBS := hx c (by simp)
    simp only [this, if_false]
    split
    · rfl
    · exact ih (fun d hd => hx d (by simp [hd]))

theorem hc_none (x : Bytes) (hx : ∀ c ∈ x, c ≠ cBS ∧ c ≠ cComma) : hasComma x = false := by
  induction x with
  | nil => rw [hasComma.eq_def]
  | cons c x ih =>
    rw [hc_safe c (hx c (by simp)).1 (hx c (by simp)).2]
    exact ih (fun d hd => hx d (by simp [hd]))

theorem noBS_append (a b : Bytes) (ha : noBS a) (hb : noBS b) : noBS (a ++ b) := by
  intro c hc
  simp only [List.mem_append] at hc
  rcases hc with h | h
  · exact ha c h
  · exact hb c h

theorem noBS_safe (v : Bytes) (hv : v.all safeByte = true) : noBS v := by
  intro c hc
  exact (safeByte_ne c (List.all_eq_true.mp hv c hc)).2.2.2.2.1

theorem innerOk_top (v : Bytes) (h : innerOk v = true) : v.all topByte = true := by
  rw [List.all_eq_true]
  intro c hc
  rcases innerOk_bytes v h c hc with h1 | rfl
  · exact safeByte_top c h1
  · decide

theorem innerOk_noBS (v : Bytes) (h : innerOk v = true) : noBS v := by
  intro c hc
  rcases innerOk_bytes v h c hc with h1 | rfl
  · exact (safeByte_ne c h1).2.2.2.2.1
  · decide

theorem noBS_joinSep (sep : Bytes) (hs : noBS sep) (xs : List Bytes) (hx : ∀ x ∈ xs, noBS x) :
    noBS (joinSep sep xs) := by
  induction xs with
  | nil => intro c hc; simp [joinSep] at hc
  | cons x xs ih =>
    cases xs with
    | nil => simpa [joinSep] using hx x (by simp)
    | cons y ys =>
      simp only [joinSep]
      exact noBS_append _ _ (noBS_append _ _ (hx x (by simp)) hs)
        (ih (fun z hz => hx z (by simp [hz])))

theorem noBS_cons (c : UInt8) (hc : c ≠ cBS) (r : Bytes) (hr : noBS r) : noBS (c :: r) := by
  intro x hx
  simp only [List.mem_cons] at hx
  rcases hx with rfl | hx
  · exact hc
  · exact hr x hx

theorem noBS_dots : noBS dots := by
  intro x hx
  simp only [dots, List.mem_cons, List.mem_nil_iff, or_false] at hx
  rcases hx with rfl | rfl <;> decide

theorem noBS_rb : noBS [cRB] := by
  intro x hx
  simp only [List.mem_singleton] at hx
  subst hx; decide

mutual
theorem noBSPart : ∀ (p : Part), canonPart p = true → noBS (renderPart p)
  | .lit v, h => by
    simp only [canonPart] at h
    simpa using innerOk_noBS v (innerLit_ok v h)
  | .brace true elems, h => by
    simp only [canonPart, if_true, Bool.and_eq_true] at h
    rcases seq_elems_cases elems h.1 h.2 with ⟨a, b, rfl, ha, hb⟩ | ⟨a, b, c, rfl, ha, hb, hc⟩
    · simp only [renderPart_brace, sepOf, if_true, renderElems_cons, renderElems_nil, render_cons,
        render_nil, renderPart_lit, List.append_nil, joinSep]
      have h1 := noBS_safe a (safeLit_all a ha)
      have h2 := noBS_safe b (safeLit_all b hb)
      exact noBS_cons _ (by decide) _
        (noBS_append _ _ (noBS_append _ _ (noBS_append _ _ h1 noBS_dots) h2) noBS_rb)
    · simp only [renderPart_brace, sepOf, if_true, renderElems_cons, renderElems_nil, render_cons,
        render_nil, renderPart_lit, List.append_nil, joinSep]
      have h1 := noBS_safe a (safeLit_all a ha)
      have h2 := noBS_safe b (safeLit_all b hb)
      have h3 := noBS_safe c (safeLit_all c hc)
      exact noBS_cons _ (by decide) _
        (noBS_append _ _ (noBS_append _ _ (noBS_append _ _ h1 noBS_dots)
          (noBS_append _ _ (noBS_append _ _ h2 noBS_dots) h3)) noBS_rb)
  | .brace false elems, h => by
    simp only [canonPart, Bool.false_eq_true, if_false, Bool.and_eq_true] at h
    simp only [renderPart_brace, sepOf, Bool.false_eq_true, if_false]
    exact noBS_cons _ (by decide) _ (noBS_append _ _
      (noBS_joinSep [cComma] (by intro c hc; simp at hc; subst hc; decide) _ (noBSElems elems h.2))
      noBS_rb)
theorem noBSWord : ∀ (u : List Part), canon u = true → noBS (render u)
  | [], _ => by intro c hc; simp at hc
  | p :: ps, h => by
    obtain ⟨hp, hps, _⟩ := canon_cons p ps h
    simp only [render_cons]
    exact noBS_append _ _ (noBSPart p hp) (noBSWord ps hps)
theorem noBSElems : ∀ (es : List (List Part)), canonElems es = true →
    ∀ x ∈ renderElems es, noBS x
  | [], _ => by intro x hx; simp at hx
  | e :: es, h => by
    simp only [canonElems, Bool.and_eq_true] at h
    intro x hx
    simp only [renderElems_cons, List.mem_cons] at hx
    rcases hx with rfl | hx
    · exact noBSWord e h.1
    · exact noBSElems es h.2 x hx
end

/-! ### `expand_amble` pieces -/

def prepHead (p : Bytes) : List Bytes → List Bytes
  | [] => [p]
  | x :: xs => (p ++ x) :: xs

@[simp] theorem prepHead_nil_left (l : List Bytes) (h : l ≠ []) : prepHead [] l = l := by
  cases l with
  | nil => exact absurd rfl h
  | cons x xs => simp [prepHead]

theorem splitAmble_ne_nil (l : Nat) (r : Bytes) : splitAmble l r ≠ [] := by
  cases r with
  | nil => rw [splitAmble.eq_def]; simp
  | cons c r =>
    rw [splitAmble.eq_def]
    simp only
    split
    · split
      · simp
      · split <;> simp
    · split
      · split
        · simp
        · split <;> simp
      · split
        · simp
        · split
          · split <;> simp
          · split
            · split <;> simp
            · split <;> simp

theorem prepHead_prepHead (p q : Bytes) (l : List Bytes) (h : l ≠ []) :
    prepHead p (prepHead q l) = prepHead (p ++ q) l := by
  cases l with
  | nil => exact absurd rfl h
  | cons x xs => simp [prepHead]

theorem sa_plain (c : UInt8) (h1 : c ≠ cBS) (h2 : c ≠ cDollar) (h3 : c ≠ cComma) (h4 : c ≠ cLB)
    (h5 : c ≠ cRB) (l : Nat) (r : Bytes) :
    splitAmble l (c :: r) = prepHead [c] (splitAmble l r) := by
  rw [splitAmble.eq_def]
  simp only [h1, h2, h3, h4, h5, false_and, if_false]
  cases splitAmble l r with
  | nil => rfl
  | cons x xs => rfl

theorem sa_safe (c : UInt8) (h : safeByte c = true) (l : Nat) (r : Bytes) :
    splitAmble l (c :: r) = prepHead [c] (splitAmble l r) := by
  obtain ⟨h1, h2, h3, h4, h5, h6⟩ := safeByte_ne c h
  exact sa_plain c h5 h6 h3 h1 h2 l r

theorem sa_dot (l : Nat) (r : Bytes) :
    splitAmble l (cDot :: r) = prepHead [cDot] (splitAmble l r) :=
  sa_plain cDot (by decide) (by decide) (by decide) (by decide) (by decide) l r

theorem sa_lb (l : Nat) (r : Bytes) :
    splitAmble l (cLB :: r) = prepHead [cLB] (splitAmble (l + 1) r) := by
  rw [splitAmble.eq_def]
  simp
  cases splitAmble (l + 1) r with
  | nil => rfl
  | cons x xs => rfl

theorem sa_rb_pos (l : Nat) (r : Bytes) :
    splitAmble (l + 1) (cRB :: r) = prepHead [cRB] (splitAmble l r) := by
  rw [splitAmble.eq_def]
  simp
  cases splitAmble l r with
  | nil => rfl
  | cons x xs => rfl

theorem sa_comma0 (r : Bytes) : splitAmble 0 (cComma :: r) = [] :: splitAmble 0 r := by
  rw [splitAmble.eq_def]
  simp

theorem sa_comma_pos (l : Nat) (r : Bytes) :
    splitAmble (l + 1) (cComma :: r) = prepHead [cComma] (splitAmble (l + 1) r) := by
  rw [splitAmble.eq_def]
  simp
  cases splitAmble (l + 1) r with
  | nil => rfl
  | cons x xs => rfl

theorem sa_safes (v : Bytes) (hv : v.all safeByte = true) (l : Nat) (r : Bytes) :
    splitAmble l (v ++ r) = prepHead v (splitAmble l r) := by
  induction v with
  | nil => simp [splitAmble_ne_nil]
  | cons c v ih =>
    simp only [List.all_cons, Bool.and_eq_true] at hv
    rw [List.cons_append, sa_safe c hv.1, ih hv.2, prepHead_prepHead _ _ _ (splitAmble_ne_nil _ _)]
    rfl

theorem sa_inner : ∀ (v : Bytes), innerOk v = true → ∀ (l : Nat) (r : Bytes),
    splitAmble l (v ++ r) = prepHead v (splitAmble l r)
  | [], _, l, r => by simp [splitAmble_ne_nil]
  | [c], h, l, r => by
    simp only [innerOk] at h
    exact sa_safes [c] (by simp [h]) l r
  | c :: d :: t, h, l, r => by
    simp only [innerOk, Bool.and_eq_true, Bool.or_eq_true, decide_eq_true_eq] at h
    have ih := sa_inner (d :: t) h.2 l r
    rcases h.1 with hc | ⟨rfl, hd⟩
    · rw [List.cons_append, sa_safe c hc, ih, prepHead_prepHead _ _ _ (splitAmble_ne_nil _ _)]; rfl
    · rw [List.cons_append, sa_dot, ih, prepHead_prepHead _ _ _ (splitAmble_ne_nil _ _)]; rfl

def AmbleSkips (u : List Part) : Prop :=
  ∀ (l : Nat) (r : Bytes), splitAmble l (render u ++ r) = prepHead (render u) (splitAmble l r)

theorem sa_elems_pos (es : List (List Part)) (hes : ∀ e ∈ es, AmbleSkips e) (l : Nat) (r : Bytes) :
    splitAmble (l + 1) (joinSep [cComma] (renderElems es) ++ r) =
      prepHead (joinSep [cComma] (renderElems es)) (splitAmble (l + 1) r) := by
  induction es with
  | nil => simp [joinSep, splitAmble_ne_nil]
  | cons e es ih =>
    cases es with
    | nil =>
      simp only [renderElems_cons, renderElems_nil, joinSep]
      exact hes e (by simp) _ _
    | cons e' es' =>
      have ih' := ih (fun x hx => hes x (by simp [hx]))
      simp only [renderElems_cons, joinSep, List.append_assoc] at ih' ⊢
      rw [hes e (by simp), List.singleton_append, sa_comma_pos, ih',
        prepHead_prepHead _ _ _ (splitAmble_ne_nil _ _),
        prepHead_prepHead _ _ _ (splitAmble_ne_nil _ _)]

theorem sa_seq_pos (a b : Bytes) (ha : a.all safeByte = true) (hb : b.all safeByte = true)
    (l : Nat) (r : Bytes) :
    splitAmble l (a ++ (dots ++ (b ++ r))) = prepHead (a ++ (dots ++ b)) (splitAmble l r) := by
  rw [sa_safes a ha]
  simp only [dots, List.cons_append, List.nil_append]
  rw [sa_dot, sa_dot, sa_safes b hb]
  simp only [prepHead_prepHead _ _ _ (splitAmble_ne_nil _ _)]
  simp

mutual
theorem ambleSkipsPart : ∀ (p : Part), canonPart p = true → AmbleSkips [p]
  | .lit v, h => by
    intro l r
    simp only [canonPart] at h
    simp only [render_cons, renderPart_lit, render_nil, List.append_nil]
    exact sa_inner v (innerLit_ok v h) l r
  | .brace true elems, h => by
    intro l r
    simp only [canonPart, if_true, Bool.and_eq_true] at h
    rcases seq_elems_cases elems h.1 h.2 with ⟨a, b, rfl, ha, hb⟩ | ⟨a, b, c, rfl, ha, hb, hc⟩
    · simp only [render_cons, render_nil, List.append_nil, renderPart_brace, sepOf, if_true,
        renderElems_cons, renderElems_nil, renderPart_lit, joinSep, List.cons_append,
        List.append_assoc, List.singleton_append]
      rw [sa_lb, sa_seq_pos a b (safeLit_all a ha) (safeLit_all b hb), sa_rb_pos]
      simp only [prepHead_prepHead _ _ _ (splitAmble_ne_nil _ _)]
      simp
    · simp only [render_cons, render_nil, List.append_nil, renderPart_brace, sepOf, if_true,
        renderElems_cons, renderElems_nil, renderPart_lit, joinSep, List.cons_append,
        List.append_assoc, List.singleton_append]
      rw [sa_lb, sa_seq_pos a b (safeLit_all a ha) (safeLit_all b hb)]
      simp only [dots, List.cons_append, List.nil_append]
      rw [sa_dot, sa_dot, sa_safes c (safeLit_all c hc), sa_rb_pos]
      simp only [prepHead_prepHead _ _ _ (splitAmble_ne_nil _ _)]
      simp [dots]
  | .brace false elems, h => by
    intro l r
    simp only [canonPart, Bool.false_eq_true, if_false, Bool.and_eq_true] at h
    simp only [render_cons, render_nil, List.append_nil, renderPart_brace, sepOf,
      Bool.false_eq_true, if_false, List.cons_append, List.append_assoc, List.singleton_append]
    rw [sa_lb, sa_elems_pos elems (ambleSkipsMem elems h.2), sa_rb_pos]
    simp only [prepHead_prepHead _ _ _ (splitAmble_ne_nil _ _)]
    simp
theorem ambleSkips : ∀ (u : List Part), canon u = true → AmbleSkips u
  | [], _ => by intro l r; simp [splitAmble_ne_nil]
  | p :: ps, h => by
    intro l r
    obtain ⟨hp, hps, _⟩ := canon_cons p ps h
    have h1 := ambleSkipsPart p hp l (render ps ++ r)
    simp only [render_cons, render_nil, List.append_nil] at h1
    simp only [render_cons, List.append_assoc]
    rw [h1, ambleSkips ps hps l r, prepHead_prepHead _ _ _ (splitAmble_ne_nil _ _)]
theorem ambleSkipsMem : ∀ (es : List (List Part)), canonElems es = true → ∀ e ∈ es, AmbleSkips e
  | [], _ => by intro e he; cases he
  | x :: xs, h => by
    simp only [canonElems, Bool.and_eq_true] at h
    intro e he
    simp only [List.mem_cons] at he
    rcases he with rfl | he
    · exact ambleSkips e h.1
    · exact ambleSkipsMem xs h.2 e he
end

theorem sa_list0 (es : List (List Part)) (hes : ∀ e ∈ es, AmbleSkips e) (e : List Part)
    (he : AmbleSkips e) :
    splitAmble 0 (joinSep [cComma] (render e :: renderElems es)) = render e :: renderElems es := by
  induction es generalizing e with
  | nil =>
    have := he 0 []
    simp only [List.append_nil] at this
    simp only [renderElems_nil, joinSep, this]
    rw [splitAmble.eq_def]
    simp [prepHead]
  | cons e' es' ih =>
    simp only [renderElems_cons, joinSep, List.append_assoc]
    rw [he, List.singleton_append, sa_comma0,
      ih (fun x hx => hes x (by simp [hx])) e' (hes e' (by simp))]
    simp [prepHead]

/-! ### `brace_expand` on the text of a canonical tree -/

theorem bashRec_nil (fuel : Nat) : bashRec fuel [] = [[]] := by
  cases fuel with
  | zero => simp [bashRec]
  | succ n =>
    simp only [bashRec, List.length_nil, Nat.zero_add]
    have : findBrace 1 true [] = none := by
      simp only [findBrace]
      rw [gobbleOpen.eq_def]
    rw [this]

theorem findBrace_hit (n : Nat) (b : Bool) (text pre after amble post : Bytes)
    (h1 : gobbleOpen b 0 text = some (pre, after))
    (h2 : gobbleClose 0 0 after = some (amble, post)) :
    findBrace (n + 1) b text = some (pre, amble, post) := by
  simp only [findBrace, h1, h2]

theorem findBrace_safe (n : Nat) (b : Bool) (v : Bytes) (hv : v.all safeByte = true) :
    findBrace n b v = none := by
  cases n with
  | zero => simp [findBrace]
  | succ n => simp only [findBrace, go_safes_none v hv b]

theorem canon_split (a : List Part) (p : Part) (b : List Part) (h : canon (a ++ p :: b) = true) :
    (∀ q ∈ a, canonPart q = true) ∧ canonPart p = true ∧ canon b = true := by
  induction a with
  | nil =>
    obtain ⟨h1, h2, _⟩ := canon_cons p b h
    exact ⟨by simp, h1, h2⟩
  | cons x xs ih =>
    obtain ⟨h1, h2, _⟩ := canon_cons x (xs ++ p :: b) h
    obtain ⟨i1, i2, i3⟩ := ih h2
    refine ⟨?_, i2, i3⟩
    intro q hq
    simp only [List.mem_cons] at hq
    rcases hq with rfl | hq
    · exact h1
    · exact i1 q hq

theorem render_lits_safe (a : List Part) (ha : a.all Part.isLit = true)
    (hc : ∀ q ∈ a, canonPart q = true) : (render a).all topByte = true := by
  induction a with
  | nil => simp
  | cons x xs ih =>
    cases x with
    | lit v =>
      have hv := hc (.lit v) (by simp)
      simp only [canonPart] at hv
      simp only [List.all_cons, isLit_lit, Bool.true_and] at ha
      simp only [render_cons, renderPart_lit, List.all_append, Bool.and_eq_true]
      exact ⟨innerOk_top v (innerLit_ok v hv), ih ha (fun q hq => hc q (by simp [hq]))⟩
    | brace s e => simp at ha

@[simp] theorem seqsAgree_nil : seqsAgree [] = true := by simp [seqsAgree]
@[simp] theorem seqsAgree_cons (p : Part) (ps : List Part) :
    seqsAgree (p :: ps) = (seqsAgreePart p && seqsAgree ps) := by simp [seqsAgree]

theorem seqsAgree_split (a : List Part) (p : Part) (b : List Part)
    (h : seqsAgree (a ++ p :: b) = true) : seqsAgreePart p = true ∧ seqsAgree b = true := by
  induction a with
  | nil => simpa using h
  | cons x xs ih =>
    simp only [List.cons_append, seqsAgree_cons, Bool.and_eq_true] at h
    exact ih h.2

theorem seqsAgreeElems_mem (es : List (List Part)) (h : seqsAgreeElems es = true) :
    ∀ e ∈ es, seqsAgree e = true := by
  induction es with
  | nil => intro e he; cases he
  | cons x xs ih =>
    simp only [seqsAgreeElems, Bool.and_eq_true] at h
    intro e he
    simp only [List.mem_cons] at he
    rcases he with rfl | he
    · exact h.1
    · exact ih h.2 e he

theorem joinSep_length_mem (sep : Bytes) (xs : List Bytes) (x : Bytes) (hx : x ∈ xs) :
    x.length ≤ (joinSep sep xs).length := by
  induction xs with
  | nil => cases hx
  | cons y ys ih =>
    cases ys with
    | nil =>
      simp only [List.mem_singleton] at hx
      subst hx; simp [joinSep]
    | cons z zs =>
      simp only [joinSep, List.length_append]
      simp only [List.mem_cons] at hx ih
      rcases hx with rfl | hx
      · omega
      · have := ih hx; omega

theorem render_mem_renderElems (es : List (List Part)) (e : List Part) (he : e ∈ es) :
    render e ∈ renderElems es := by
  induction es with
  | nil => cases he
  | cons x xs ih =>
    simp only [List.mem_cons] at he
    rcases he with rfl | he
    · simp
    · simp [ih he]

theorem canon_head_ne_rb (u : List Part) (hc : canon u = true) (c : UInt8) (r : Bytes)
    (h : render u = c :: r) : c ≠ cRB := by
  cases u with
  | nil => simp at h
  | cons p ps =>
    obtain ⟨hp, _, _⟩ := canon_cons p ps hc
    cases p with
    | lit v =>
      simp only [canonPart] at hp
      cases v with
      | nil => simp [innerLit] at hp
      | cons x y =>
        simp only [render_cons, renderPart_lit, List.cons_append, List.cons.injEq] at h
        rw [← h.1]
        rcases innerOk_bytes (x :: y) (innerLit_ok _ hp) x (by simp) with h1 | h1
        · exact (safeByte_ne x h1).2.1
        · rw [h1]; decide
    | brace s e =>
      simp only [render_cons, renderPart_brace, List.cons_append, List.cons.injEq] at h
      rw [← h.1]; decide

theorem seqAgree_list (elems : List Word) (h : seqAgree elems = true) :
    ∃ s, seqTerm (joinSep dots (renderElems elems)) = some s ∧ s.list = seqTexts elems := by
  unfold seqAgree at h
  cases hs : seqTerm (joinSep dots (renderElems elems)) with
  | none => simp [hs] at h
  | some s =>
    cases hp : seqParams elems with
    | none => simp [hs, hp] at h
    | some sp =>
      simp only [hs, hp, Bool.and_eq_true, beq_iff_eq] at h
      obtain ⟨⟨⟨⟨h1, h2⟩, h3⟩, h4⟩, h5⟩ := h
      refine ⟨s, rfl, ?_⟩
      simp only [SeqSpec.list, seqTexts, hp, h2, h3, h5]
      congr 1
      funext n
      simp [SeqSpec.fmt, fmtSeq, h1, h4]

theorem hasComma_seq2 (a b : Bytes) (ha : safeLit a = true) (hb : safeLit b = true) :
    hasComma (a ++ (dots ++ b)) = false := by
  apply hc_none
  intro c hc
  simp only [List.mem_append, dots, List.mem_cons, List.mem_nil_iff, or_false] at hc
  rcases hc with h | (h | h) | h
  · have := safeByte_ne c (List.all_eq_true.mp (safeLit_all a ha) c h)
    exact ⟨this.2.2.2.2.1, this.2.2.1⟩
  · subst h; exact ⟨by decide, by decide⟩
  · subst h; exact ⟨by decide, by decide⟩
  · have := safeByte_ne c (List.all_eq_true.mp (safeLit_all b hb) c h)
    exact ⟨this.2.2.2.2.1, this.2.2.1⟩

theorem hasComma_seq3 (a b c : Bytes) (ha : safeLit a = true) (hb : safeLit b = true)
    (hc : safeLit c = true) : hasComma (a ++ (dots ++ (b ++ (dots ++ c)))) = false := by
  apply hc_none
  intro x hx
  simp only [List.mem_append, dots, List.mem_cons, List.mem_nil_iff, or_false] at hx
  rcases hx with h | (h | h) | h | (h | h) | h
  · have := safeByte_ne x (List.all_eq_true.mp (safeLit_all a ha) x h)
    exact ⟨this.2.2.2.2.1, this.2.2.1⟩
  · subst h; exact ⟨by decide, by decide⟩
  · subst h; exact ⟨by decide, by decide⟩
  · have := safeByte_ne x (List.all_eq_true.mp (safeLit_all b hb) x h)
    exact ⟨this.2.2.2.2.1, this.2.2.1⟩
  · subst h; exact ⟨by decide, by decide⟩
  · subst h; exact ⟨by decide, by decide⟩
  · have := safeByte_ne x (List.all_eq_true.mp (safeLit_all c hc) x h)
    exact ⟨this.2.2.2.2.1, this.2.2.1⟩

/-- The tack/postscript product of `brace_expand`, once the first brace has been located. -/
theorem bashRec_hit (fuel : Nat) (text pre amble post : Bytes)
    (h : findBrace (text.length + 1) true text = some (pre, amble, post)) :
    bashRec (fuel + 1) text =
      cross ((if hasComma amble then (splitAmble 0 amble).flatMap (bashRec fuel)
              else match seqTerm amble with
                | some s => s.list
                | none => [cLB :: (amble ++ [cRB])]).map fun t => pre ++ t)
        (if post = [] then [[]] else bashRec fuel post) := by
  simp only [bashRec, h]
  rfl

theorem bash_canon : ∀ (fuel : Nat) (t : List Part), canon t = true → seqsAgree t = true →
    (render t).length < fuel → bashRec fuel (render t) = denot t := by
  intro fuel
  induction fuel with
  | zero => intro t _ _ h; omega
  | succ fuel ih =>
    intro t hc hag hlen
    cases hsp : splitAtBrace t with
    | mk left o =>
      cases o with
      | none =>
        obtain ⟨hl, hall⟩ := splitAtBrace_none t left hsp
        subst hl
        have hsafe : (render left).all topByte = true := by
          apply render_lits_safe left hall
          clear hsp hall hlen hag
          induction left with
          | nil => intro q hq; cases hq
          | cons x xs ihx =>
            obtain ⟨h1, h2, _⟩ := canon_cons x xs hc
            intro q hq
            simp only [List.mem_cons] at hq
            rcases hq with rfl | hq
            · exact h1
            · exact ihx h2 q hq
        simp only [bashRec, findBrace_top _ _ _ hsafe]
        rw [denot_allLit left hall]
      | some tr =>
        obtain ⟨seq, elems, rest⟩ := tr
        obtain ⟨hteq, hleft⟩ := splitAtBrace_some t left seq elems rest hsp
        subst hteq
        obtain ⟨hcl, hcp, hcr⟩ := canon_split left _ rest hc
        obtain ⟨hap, har⟩ := seqsAgree_split left _ rest hag
        have hpre := render_lits_safe left hleft hcl
        have hden : denot (left ++ Part.brace seq elems :: rest) =
            (cross (denotPart (.brace seq elems)) (denot rest)).map (render left ++ ·) := by
          rw [denot_append, denot_allLit left hleft, cross_single_left, denot_cons]
        have hrestlen : (render rest).length < fuel := by
          simp only [render_append, render_cons, renderPart_brace, List.length_append,
            List.length_cons] at hlen
          omega
        have hpost : (if render rest = [] then [[]] else bashRec fuel (render rest)) = denot rest := by
          have := ih rest hcr har hrestlen
          split
          · rename_i he
            rw [he, bashRec_nil] at this
            exact this
          · exact this
        cases seq with
        | false =>
          simp only [canonPart, Bool.false_eq_true, if_false, Bool.and_eq_true,
            decide_eq_true_eq] at hcp
          simp only [seqsAgreePart, Bool.false_eq_true, if_false] at hap
          match elems, hcp, hap with
          | [], hcp, _ => simp at hcp
          | [e], hcp, _ => simp at hcp
          | e :: e' :: es', hcp, hap =>
            obtain ⟨_, hce⟩ := hcp
            have hmemc := canonElems_mem _ hce
            have hmema := seqsAgreeElems_mem _ hap
            have hgs := gobSkipsMem _ hce
            have has := ambleSkipsMem _ hce
            -- the text
            have htext : render (left ++ Part.brace false (e :: e' :: es') :: rest) =
                render left ++ cLB :: (joinSep [cComma] (render e :: renderElems (e' :: es')) ++
                  cRB :: render rest) := by
              simp [render_append, renderPart_brace, sepOf]
            have hJ : joinSep [cComma] (render e :: renderElems (e' :: es')) =
                render e ++ cComma :: joinSep [cComma] (renderElems (e' :: es')) := by
              simp [joinSep]
            have hopen : gobbleOpen true 0 (render (left ++ Part.brace false (e :: e' :: es') :: rest)) =
                some (render left, joinSep [cComma] (render e :: renderElems (e' :: es')) ++
                  cRB :: render rest) := by
              rw [htext]
              apply go_tops_lb _ hpre
              intro _
              rw [hJ]
              intro hbad
              rcases hbad.2 with h0 | h0
              · cases hre : render e <;> simp [hre] at h0
              · cases hre : render e with
                | nil => simp [hre] at h0
                | cons c r =>
                  simp only [hre, List.cons_append, List.head?_cons, Option.some.injEq] at h0
                  exact canon_head_ne_rb e (hmemc e (by simp)) c r hre h0
            have hclose := gc_list0 (e' :: es') (fun x hx => hgs x (by simp [hx])) e
              (hgs e (by simp)) 0 (Or.inr (by simp)) (render rest)
            have hfind := findBrace_hit
              (render (left ++ Part.brace false (e :: e' :: es') :: rest)).length true _ _ _ _ _
              hopen hclose
            rw [bashRec_hit fuel _ _ _ _ hfind, hpost]
            have hcomma : hasComma (joinSep [cComma] (render e :: renderElems (e' :: es'))) = true := by
              rw [hJ]; exact hc_prefix _ (noBSWord e (hmemc e (by simp))) _
            rw [hcomma, if_pos rfl,
              sa_list0 (e' :: es') (fun x hx => has x (by simp [hx])) e (has e (by simp))]
            have helems : ((render e :: renderElems (e' :: es')).flatMap (bashRec fuel)) =
                denotElems (e :: e' :: es') := by
              have hJlen : (joinSep [cComma] (renderElems (e :: e' :: es'))).length < fuel := by
                rw [htext] at hlen
                simp only [List.length_append, List.length_cons, renderElems_cons] at hlen ⊢
                omega
              have key : ∀ (xs : List (List Part)), (∀ x ∈ xs, x ∈ e :: e' :: es') →
                  (renderElems xs).flatMap (bashRec fuel) = denotElems xs := by
                intro xs
                induction xs with
                | nil => intro _; simp
                | cons x xs ihx =>
                  intro hx
                  have hxm := hx x (by simp)
                  have hl := joinSep_length_mem [cComma] _ _ (render_mem_renderElems _ x hxm)
                  simp only [renderElems_cons, List.flatMap_cons, denotElems_cons]
                  rw [ih x (hmemc x hxm) (hmema x hxm) (by omega),
                    ihx (fun y hy => hx y (by simp [hy]))]
              have := key (e :: e' :: es') (fun x hx => hx)
              simpa using this
            rw [helems, hden, cross_map_left]
            simp [denotPart]
        | true =>
          simp only [canonPart, if_true, Bool.and_eq_true] at hcp
          simp only [seqsAgreePart, if_true] at hap
          obtain ⟨s, hst, hsl⟩ := seqAgree_list elems hap
          rcases seq_elems_cases elems hcp.1 hcp.2 with ⟨a, b, rfl, ha, hb⟩ | ⟨a, b, c, rfl, ha, hb, hc3⟩
          · have htext : render (left ++ Part.brace true [[Part.lit a], [Part.lit b]] :: rest) =
                render left ++ cLB :: (a ++ (dots ++ (b ++ cRB :: render rest))) := by
              simp [render_append, renderPart_brace, sepOf, joinSep]
            have hamble : joinSep dots (renderElems [[Part.lit a], [Part.lit b]]) = a ++ (dots ++ b) := by
              simp [joinSep]
            obtain ⟨x, y, hax, hx1, _, _⟩ := safe_head_ne a ha
            have hopen : gobbleOpen true 0 (render (left ++ Part.brace true [[Part.lit a], [Part.lit b]] :: rest)) =
                some (render left, a ++ (dots ++ (b ++ cRB :: render rest))) := by
              rw [htext]
              apply go_tops_lb _ hpre
              intro _ hbad
              subst hax
              rcases hbad.2 with h0 | h0
              · simp at h0
              · simp only [List.cons_append, List.head?_cons, Option.some.injEq] at h0
                exact hx1 h0
            have hfind := findBrace_hit
              (render (left ++ Part.brace true [[Part.lit a], [Part.lit b]] :: rest)).length true _ _ _ _ _
              hopen (gc_seq0_2 a b ha hb (render rest))
            rw [bashRec_hit fuel _ _ _ _ hfind, hpost, hasComma_seq2 a b ha hb]
            rw [hamble] at hst
            simp only [Bool.false_eq_true, if_false, hst, hsl]
            rw [hden, cross_map_left]
            simp [denotPart]
          · have htext : render (left ++ Part.brace true [[Part.lit a], [Part.lit b], [Part.lit c]] :: rest) =
                render left ++ cLB :: (a ++ (dots ++ (b ++ (dots ++ (c ++ cRB :: render rest))))) := by
              simp [render_append, renderPart_brace, sepOf, joinSep]
            have hamble : joinSep dots (renderElems [[Part.lit a], [Part.lit b], [Part.lit c]]) =
                a ++ (dots ++ (b ++ (dots ++ c))) := by
              simp [joinSep]
            obtain ⟨x, y, hax, hx1, _, _⟩ := safe_head_ne a ha
            have hopen : gobbleOpen true 0
                (render (left ++ Part.brace true [[Part.lit a], [Part.lit b], [Part.lit c]] :: rest)) =
                some (render left, a ++ (dots ++ (b ++ (dots ++ (c ++ cRB :: render rest))))) := by
              rw [htext]
              apply go_tops_lb _ hpre
              intro _ hbad
              subst hax
              rcases hbad.2 with h0 | h0
              · simp at h0
              · simp only [List.cons_append, List.head?_cons, Option.some.injEq] at h0
                exact hx1 h0
            have hfind := findBrace_hit
              (render (left ++ Part.brace true [[Part.lit a], [Part.lit b], [Part.lit c]] :: rest)).length
              true _ _ _ _ _ hopen (gc_seq0_3 a b c ha hb hc3 (render rest))
            rw [bashRec_hit fuel _ _ _ _ hfind, hpost, hasComma_seq3 a b c ha hb hc3]
            rw [hamble] at hst
            simp only [Bool.false_eq_true, if_false, hst, hsl]
            rw [hden, cross_map_left]
            simp [denotPart]

/-! ### `bashCount` is the length of `bashBraces` -/

theorem seqSpec_list_length (s : SeqSpec) : s.list.length = s.count := by
  simp [SeqSpec.list, SeqSpec.count, idealSeq, arith_length]

theorem bashCountRec_eq : ∀ (fuel : Nat) (text : Bytes),
    bashCountRec fuel text = (bashRec fuel text).length := by
  intro fuel
  induction fuel with
  | zero => intro text; simp [bashCountRec, bashRec]
  | succ fuel ih =>
    intro text
    simp only [bashCountRec, bashRec]
    cases findBrace (text.length + 1) true text with
    | none => simp
    | some tr =>
      obtain ⟨pre, amble, post⟩ := tr
      simp only [cross_length, List.length_map]
      congr 1
      · split
        · rw [List.length_flatMap]
          congr 1
          apply List.map_congr_left
          intro x _
          exact ih x
        · split
          · exact (seqSpec_list_length _).symm
          · simp
      · split
        · simp
        · exact ih post

theorem bashCount_eq (text : Bytes) : bashCount text = (bashBraces text).length :=
  bashCountRec_eq _ _

end ShVerif.C16
