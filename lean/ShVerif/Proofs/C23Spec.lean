import ShVerif.Proofs.C23
/-
  C23 — ReadFields meets the bash `read` specification on `Clean` input
  (`readfields_spec_partial'`).

  Layer A: the Go loop over the raw characters equals a simpler loop (`mcLoop`) over the marked
           characters `unescape raw line`.
  Layer B: the result of that loop as a list of closed positions (`posOf`), and `finish` on it
           (`finishM`, `cut`).
  Layer C: positions + slices equal the specification on isolated-delimiter input.
-/
namespace ShVerif.C23

/-! ## Layer A -/

structure MSt where
  closed : List Pos
  cur : Option Nat
  runes : List Char

def openPart : Option Nat → List Pos
  | some a => [⟨a, -1⟩]
  | none => []

def abs (ms : MSt) (esc : Bool) : St :=
  ⟨ms.closed ++ openPart ms.cur, ms.runes, ms.cur.isSome, esc⟩

def mcStep (ifs : List Char) (ms : MSt) (m : MC) : MSt :=
  match ms.cur, isDelim ifs m with
  | some a, true => ⟨ms.closed ++ [⟨a, (ms.runes.length : Int)⟩], none, ms.runes ++ [m.1]⟩
  | none, false => ⟨ms.closed, some ms.runes.length, ms.runes ++ [m.1]⟩
  | c, _ => ⟨ms.closed, c, ms.runes ++ [m.1]⟩

def mcLoop (ifs : List Char) : MSt → List MC → MSt
  | ms, [] => ms
  | ms, m :: s => mcLoop ifs (mcStep ifs ms m) s

theorem isDelim_plain (ifs : List Char) (c : Char) : isDelim ifs (c, false) = ifsRune ifs c := by
  simp [isDelim, ifsRune]

theorem isDelim_esc (ifs : List Char) (c : Char) : isDelim ifs (c, true) = false := by
  simp [isDelim]

theorem step_raw (ifs : List Char) (ms : MSt) (esc : Bool) (c : Char) :
    ∃ esc', step ifs true (abs ms esc) c = .ok (abs (mcStep ifs ms (c, false)) esc') := by
  obtain ⟨closed, cur, runes⟩ := ms
  refine ⟨if c == '\\' then !esc else false, ?_⟩
  unfold step toggle mcStep
  rw [isDelim_plain]
  generalize ifsRune ifs c = b
  cases cur <;> cases b <;> by_cases hc : c = '\\' <;>
    simp [push, abs, openPart, hc, setLastEnd_snoc]

theorem loop_raw (ifs : List Char) : ∀ (line : List Char) (ms : MSt) (esc : Bool),
    ∃ esc', loop ifs true (abs ms esc) line =
      .ok (abs (mcLoop ifs ms (unescape true line)) esc')
  | [], ms, esc => ⟨esc, rfl⟩
  | c :: rest, ms, esc => by
    obtain ⟨e1, h1⟩ := step_raw ifs ms esc c
    obtain ⟨e2, h2⟩ := loop_raw ifs rest (mcStep ifs ms (c, false)) e1
    refine ⟨e2, ?_⟩
    rw [loop, h1]
    simp only [unescape, List.map_cons, mcLoop] at h2 ⊢
    exact h2

theorem step_cooked_plain (ifs : List Char) (ms : MSt) (c : Char) (hc : c ≠ '\\') :
    step ifs false (abs ms false) c = .ok (abs (mcStep ifs ms (c, false)) false) := by
  obtain ⟨closed, cur, runes⟩ := ms
  unfold step toggle mcStep
  rw [isDelim_plain]
  generalize ifsRune ifs c = b
  cases cur <;> cases b <;>
    simp [push, abs, openPart, hc, setLastEnd_snoc]

theorem step_cooked_bs (ifs : List Char) (hb : ifs.contains '\\' = false) (ms : MSt) :
    step ifs false (abs ms false) '\\' =
      .ok (abs ⟨ms.closed, some (ms.cur.getD ms.runes.length), ms.runes⟩ true) := by
  obtain ⟨closed, cur, runes⟩ := ms
  have hb' : ifsRune ifs '\\' = false := hb
  unfold step toggle
  rw [hb']
  cases cur <;> simp [push, abs, openPart]

theorem step_cooked_esc (ifs : List Char) (ms : MSt) (d : Char) :
    step ifs false (abs ms true) d = .ok (abs ⟨ms.closed, ms.cur, ms.runes ++ [d]⟩ false) := by
  obtain ⟨closed, cur, runes⟩ := ms
  unfold step toggle
  cases cur <;> by_cases hd : d = '\\' <;> simp [push, abs, openPart, hd]

theorem mcStep_esc (ifs : List Char) (ms : MSt) (d : Char) :
    mcStep ifs ms (d, true) = ⟨ms.closed, some (ms.cur.getD ms.runes.length), ms.runes ++ [d]⟩ := by
  obtain ⟨closed, cur, runes⟩ := ms
  unfold mcStep
  rw [isDelim_esc]
  cases cur <;> simp

theorem step_cooked_pair (ifs : List Char) (hb : ifs.contains '\\' = false) (ms : MSt) (d : Char) :
    ∃ st1, step ifs false (abs ms false) '\\' = .ok st1 ∧
      step ifs false st1 d = .ok (abs (mcStep ifs ms (d, true)) false) := by
  refine ⟨_, step_cooked_bs ifs hb ms, ?_⟩
  rw [step_cooked_esc, mcStep_esc]

theorem loop_cooked (ifs : List Char) (hb : ifs.contains '\\' = false) :
    ∀ (line : List Char) (ms : MSt), loneBackslash line = false →
      loop ifs false (abs ms false) line = .ok (abs (mcLoop ifs ms (unescape false line)) false)
  | [], ms, _ => rfl
  | [c], ms, h => by
    have hc : c ≠ '\\' := by simpa [loneBackslash] using h
    rw [loop, step_cooked_plain ifs ms c hc]
    simp [unescape, hc, mcLoop, loop]
  | c :: d :: rest, ms, h => by
    by_cases hc : c = '\\'
    · subst hc
      have h' : loneBackslash rest = false := by simpa [loneBackslash] using h
      obtain ⟨st1, h1, h2⟩ := step_cooked_pair ifs hb ms d
      rw [loop, h1]
      simp only
      rw [loop, h2]
      simp only [unescape, if_true, beq_self_eq_true, mcLoop]
      exact loop_cooked ifs hb rest _ h'
    · have h' : loneBackslash (d :: rest) = false := by simpa [loneBackslash, hc] using h
      rw [loop, step_cooked_plain ifs ms c hc]
      simp only [unescape, hc, beq_iff_eq, if_false, mcLoop]
      exact loop_cooked ifs hb (d :: rest) _ h'

/-! ## Layer B -/

/-- Closed positions produced from an open-field start, the current offset and the remaining
    marked characters, the last field being closed at the end of input. -/
def posOf (ifs : List Char) : Option Nat → Nat → List MC → List Pos
  | none, _, [] => []
  | some a, off, [] => [⟨a, (off : Int)⟩]
  | some a, off, m :: s =>
    if isDelim ifs m then ⟨a, (off : Int)⟩ :: posOf ifs none (off + 1) s
    else posOf ifs (some a) (off + 1) s
  | none, off, m :: s =>
    if isDelim ifs m then posOf ifs none (off + 1) s else posOf ifs (some off) (off + 1) s

def closePart (len : Nat) : Option Nat → List Pos
  | some a => [⟨a, (len : Int)⟩]
  | none => []

def closeAll (ms : MSt) : List Pos := ms.closed ++ closePart ms.runes.length ms.cur

theorem mcLoop_spec (ifs : List Char) : ∀ (s : List MC) (ms : MSt),
    (mcLoop ifs ms s).runes = ms.runes ++ chars s ∧
    closeAll (mcLoop ifs ms s) = ms.closed ++ posOf ifs ms.cur ms.runes.length s
  | [], ms => by
    obtain ⟨closed, cur, runes⟩ := ms
    cases cur <;> simp [mcLoop, chars, closeAll, closePart, posOf]
  | m :: s, ms => by
    obtain ⟨closed, cur, runes⟩ := ms
    have ih := mcLoop_spec ifs s (mcStep ifs ⟨closed, cur, runes⟩ m)
    rw [mcLoop]
    cases cur <;> cases hd : isDelim ifs m <;>
      simp [mcStep, hd, posOf, chars] at ih ⊢ <;> exact ih

/-- `finish` on closed positions. -/
def finishM (ifs : List Char) (n : Int) (P : List Pos) (R : List Char) :
    Except String (List (List Char)) :=
  match P with
  | [] => .ok []
  | p0 :: _ =>
    match lastPos P with
    | none => .error "fpos[len(fpos)-1]"
    | some pl =>
      if n == 1 then
        match loLoop ifs R p0.start p0.start 0, hiLoop ifs R pl.stop R.length with
        | .ok lo, .ok hi => sliceAll R [⟨lo, hi⟩]
        | .error m, _ => .error m
        | _, .error m => .error m
      else if n != -1 && n < P.length then
        if n - 1 < 0 then .error "fpos[n-1]"
        else sliceAll R ((setEndAt P (n - 1).toNat pl.stop).take n.toNat)
      else sliceAll R P

theorem finish_closed (ifs : List Char) (n : Int) (P : List Pos) (R : List Char) (esc : Bool) :
    finish ifs n ⟨P, R, false, esc⟩ = finishM ifs n P R := by
  cases P with
  | nil => rfl
  | cons p ps => rfl

theorem finish_open (ifs : List Char) (n : Int) (C : List Pos) (a : Nat) (R : List Char)
    (esc : Bool) :
    finish ifs n ⟨C ++ [⟨a, -1⟩], R, true, esc⟩ = finishM ifs n (C ++ [⟨a, (R.length : Int)⟩]) R := by
  have h := setLastEnd_snoc C ⟨a, -1⟩ (R.length : Int)
  cases C with
  | nil =>
    unfold finish finishM
    simp only [List.nil_append, if_true, setLastEnd]
    rfl
  | cons q qs =>
    unfold finish finishM
    simp only [List.cons_append, if_true] at h ⊢
    rw [h]
    rfl

theorem finish_abs (ifs : List Char) (n : Int) (ms : MSt) (esc : Bool) :
    finish ifs n (abs ms esc) = finishM ifs n (closeAll ms) ms.runes := by
  obtain ⟨closed, cur, runes⟩ := ms
  cases cur with
  | none =>
    simp only [abs, openPart, closeAll, closePart, List.append_nil, Option.isSome_none]
    exact finish_closed ifs n closed runes esc
  | some a =>
    simp only [abs, openPart, closeAll, closePart, Option.isSome_some]
    exact finish_open ifs n closed a runes esc

theorem readFields_eq (ifs line : List Char) (n : Int) (raw : Bool)
    (h1 : raw = true ∨ ifs.contains '\\' = false) (h2 : raw = true ∨ loneBackslash line = false) :
    readFields ifs line n raw =
      finishM ifs n (posOf ifs none 0 (unescape raw line)) (chars (unescape raw line)) := by
  have hinit : St.init = abs ⟨[], none, []⟩ false := rfl
  have hspec := mcLoop_spec ifs (unescape raw line) ⟨[], none, []⟩
  simp only [List.nil_append, List.length_nil] at hspec
  unfold readFields
  rw [hinit]
  cases raw with
  | true =>
    obtain ⟨e, he⟩ := loop_raw ifs line ⟨[], none, []⟩ false
    rw [he]
    simp only
    rw [finish_abs, hspec.1, hspec.2]
  | false =>
    have hb : ifs.contains '\\' = false := by simpa using h1
    have hl : loneBackslash line = false := by simpa using h2
    rw [loop_cooked ifs hb line _ hl]
    simp only
    rw [finish_abs, hspec.1, hspec.2]

/-! ## Layer C : basic facts on `isWs`, `isDelim`, `skipWs`, `isolated` -/

theorem isWs_isDelim {ifs : List Char} {m : MC} (h : isWs ifs m = true) : isDelim ifs m = true := by
  simp only [isWs, isDelim, Bool.and_eq_true] at h ⊢
  exact ⟨h.1.1, h.2⟩

theorem not_isDelim_not_isWs {ifs : List Char} {m : MC} (h : isDelim ifs m = false) :
    isWs ifs m = false := by
  cases hw : isWs ifs m with
  | false => rfl
  | true => rw [isWs_isDelim hw] at h; cases h

theorem isWs_ifsWhitespace {ifs : List Char} {m : MC} (h : isWs ifs m = true) :
    ifsWhitespace ifs m.1 = true := by
  simp only [isWs, ifsWhitespace, ifsRune, Bool.and_eq_true] at h ⊢
  exact ⟨h.1.2, h.2⟩

theorem isolated_ws {ifs : List Char} {m : MC} (st : Scan) (s : List MC) (h : isWs ifs m = true) :
    isolated ifs st (m :: s) = isolated ifs st s := by
  cases st <;> simp [isolated, h]

theorem isolated_nd {ifs : List Char} {m : MC} (st : Scan) (s : List MC)
    (h : isDelim ifs m = false) : isolated ifs st (m :: s) = isolated ifs .afterC s := by
  have hw := not_isDelim_not_isWs h
  cases st <;> simp [isolated, h, hw]

theorem isolated_d_afterC {ifs : List Char} {m : MC} (s : List MC)
    (hw : isWs ifs m = false) (h : isDelim ifs m = true) :
    isolated ifs .afterC (m :: s) = isolated ifs .afterD s := by
  simp [isolated, h, hw]

theorem isolated_d_other {ifs : List Char} {m : MC} (st : Scan) (s : List MC) (hst : st ≠ .afterC)
    (hw : isWs ifs m = false) (h : isDelim ifs m = true) :
    isolated ifs st (m :: s) = false := by
  cases st <;> simp [isolated, h, hw] at hst ⊢

theorem skipWs_cons_ws {ifs : List Char} {m : MC} (s : List MC) (h : isWs ifs m = true) :
    skipWs ifs (m :: s) = skipWs ifs s := by
  simp [skipWs, h]

theorem skipWs_cons_nws {ifs : List Char} {m : MC} (s : List MC) (h : isWs ifs m = false) :
    skipWs ifs (m :: s) = m :: s := by
  simp [skipWs, h]

theorem isolated_skipWs (ifs : List Char) (st : Scan) : ∀ s : List MC,
    isolated ifs st (skipWs ifs s) = isolated ifs st s
  | [] => rfl
  | m :: s => by
    cases hw : isWs ifs m with
    | true => rw [skipWs_cons_ws s hw, isolated_ws st s hw]; exact isolated_skipWs ifs st s
    | false => rw [skipWs_cons_nws s hw]

theorem skipWs_head (ifs : List Char) : ∀ (s : List MC) (m : MC) (r : List MC),
    skipWs ifs s = m :: r → isWs ifs m = false
  | [], m, r, h => by simp [skipWs] at h
  | x :: s, m, r, h => by
    cases hw : isWs ifs x with
    | true => rw [skipWs_cons_ws s hw] at h; exact skipWs_head ifs s m r h
    | false =>
      rw [skipWs_cons_nws s hw] at h
      simp only [List.cons.injEq] at h
      rw [← h.1]; exact hw

theorem dropD_cons_d {ifs : List Char} {m : MC} (s : List MC) (h : isDelim ifs m = true) :
    (m :: s).dropWhile (isDelim ifs) = s.dropWhile (isDelim ifs) := by
  simp [h]

theorem dropD_cons_nd {ifs : List Char} {m : MC} (s : List MC) (h : isDelim ifs m = false) :
    (m :: s).dropWhile (isDelim ifs) = m :: s := by
  simp [h]

theorem dropD_skipWs (ifs : List Char) : ∀ s : List MC,
    (skipWs ifs s).dropWhile (isDelim ifs) = s.dropWhile (isDelim ifs)
  | [] => rfl
  | m :: s => by
    cases hw : isWs ifs m with
    | true =>
      rw [skipWs_cons_ws s hw, dropD_cons_d s (isWs_isDelim hw)]; exact dropD_skipWs ifs s
    | false => rw [skipWs_cons_nws s hw]

/-- "Field start": empty, or begins with a field character and the rest keeps delimiters isolated. -/
def FS (ifs : List Char) : List MC → Prop
  | [] => True
  | c :: t0 => isDelim ifs c = false ∧ isolated ifs .afterC t0 = true

theorem afterD_skip {ifs : List Char} {r : List MC} (h : isolated ifs .afterD r = true) :
    ∃ m r4, skipWs ifs r = m :: r4 ∧ r.dropWhile (isDelim ifs) = m :: r4 ∧
      isDelim ifs m = false ∧ isolated ifs .afterC r4 = true := by
  rw [← isolated_skipWs] at h
  have hd := dropD_skipWs ifs r
  cases hs : skipWs ifs r with
  | nil => rw [hs] at h; simp [isolated] at h
  | cons m r4 =>
    rw [hs] at h hd
    have hw := skipWs_head ifs r m r4 hs
    cases hdm : isDelim ifs m with
    | true => rw [isolated_d_other .afterD r4 (by decide) hw hdm] at h; cases h
    | false =>
      rw [isolated_nd .afterD r4 hdm] at h
      rw [dropD_cons_nd r4 hdm] at hd
      exact ⟨m, r4, rfl, hd.symm, hdm, h⟩

/-- The tail computation of `getWord` on the string from the first delimiter on. -/
def gwRest (ifs : List Char) : List MC → List MC
  | [] => []
  | d :: r1 =>
    if isWs ifs d then
      match skipWs ifs r1 with
      | [] => []
      | d2 :: r3 => if isDelim ifs d2 then skipWs ifs r3 else d2 :: r3
    else skipWs ifs r1

theorem getWord_eq (ifs : List Char) (s : List MC) :
    getWord ifs s = (s.takeWhile (fun m => !isDelim ifs m),
      gwRest ifs (s.dropWhile (fun m => !isDelim ifs m))) := by
  unfold getWord
  cases h : s.dropWhile (fun m => !isDelim ifs m) with
  | nil => rfl
  | cons d r1 =>
    simp only [gwRest]
    cases hw : isWs ifs d with
    | false => simp
    | true =>
      simp only [if_true]
      cases h2 : skipWs ifs r1 with
      | nil => rfl
      | cons d2 r3 =>
        simp only
        cases isDelim ifs d2 <;> simp

theorem delim_run {ifs : List Char} {d0 : MC} {r1 : List MC} (hd0 : isDelim ifs d0 = true)
    (h : isolated ifs .afterC (d0 :: r1) = true) :
    gwRest ifs (d0 :: r1) = (d0 :: r1).dropWhile (isDelim ifs) ∧
      FS ifs ((d0 :: r1).dropWhile (isDelim ifs)) := by
  rw [dropD_cons_d r1 hd0]
  cases hw : isWs ifs d0 with
  | true =>
    rw [isolated_ws _ _ hw, ← isolated_skipWs] at h
    rw [← dropD_skipWs]
    simp only [gwRest, hw, if_true]
    cases h2 : skipWs ifs r1 with
    | nil => exact ⟨rfl, trivial⟩
    | cons d2 r3 =>
      rw [h2] at h
      have hw2 := skipWs_head ifs r1 d2 r3 h2
      simp only
      cases hd2 : isDelim ifs d2 with
      | true =>
        rw [isolated_d_afterC r3 hw2 hd2] at h
        obtain ⟨m, r4, e1, e2, e3, e4⟩ := afterD_skip h
        rw [dropD_cons_d r3 hd2, e2]
        simp only [if_true, e1]
        exact ⟨trivial, e3, e4⟩
      | false =>
        rw [isolated_nd _ r3 hd2] at h
        rw [dropD_cons_nd r3 hd2]
        simp only [Bool.false_eq_true, if_false]
        exact ⟨trivial, hd2, h⟩
  | false =>
    rw [isolated_d_afterC r1 hw hd0] at h
    obtain ⟨m, r4, e1, e2, e3, e4⟩ := afterD_skip h
    simp only [gwRest, hw, Bool.false_eq_true, if_false, e1, e2]
    exact ⟨trivial, e3, e4⟩

/-! ### Words -/

theorem iso_nd_prefix (ifs : List Char) (u : List MC) : ∀ w0 : List MC,
    (∀ m ∈ w0, isDelim ifs m = false) →
    isolated ifs .afterC (w0 ++ u) = isolated ifs .afterC u
  | [], _ => rfl
  | m :: w0, h => by
    rw [List.cons_append, isolated_nd _ _ (h m (by simp))]
    exact iso_nd_prefix ifs u w0 (fun x hx => h x (by simp [hx]))

theorem afterD_delims (ifs : List Char) : ∀ d : List MC, (∀ m ∈ d, isDelim ifs m = true) →
    isolated ifs .afterD d = false
  | [], _ => rfl
  | m :: d, h => by
    cases hw : isWs ifs m with
    | true =>
      rw [isolated_ws _ _ hw]
      exact afterD_delims ifs d (fun x hx => h x (by simp [hx]))
    | false => exact isolated_d_other .afterD d (by decide) hw (h m (by simp))

theorem iso_trailing (ifs : List Char) (st : Scan) : ∀ d : List MC,
    (∀ m ∈ d, isDelim ifs m = true) → isolated ifs st d = true → ∀ m ∈ d, isWs ifs m = true
  | [], _, _ => by simp
  | x :: d, h, hi => by
    have hd : ∀ m ∈ d, isDelim ifs m = true := fun y hy => h y (by simp [hy])
    cases hw : isWs ifs x with
    | true =>
      rw [isolated_ws _ _ hw] at hi
      have ih := iso_trailing ifs st d hd hi
      intro m hm
      simp only [List.mem_cons] at hm
      rcases hm with rfl | hm
      · exact hw
      · exact ih m hm
    | false =>
      have hx := h x (by simp)
      cases st with
      | afterC =>
        rw [isolated_d_afterC d hw hx, afterD_delims ifs d hd] at hi
        cases hi
      | start => rw [isolated_d_other .start d (by decide) hw hx] at hi; cases hi
      | afterD => rw [isolated_d_other .afterD d (by decide) hw hx] at hi; cases hi

theorem dropWhile_nd_head (ifs : List Char) : ∀ (s : List MC) (d0 : MC) (r1 : List MC),
    s.dropWhile (fun m => !isDelim ifs m) = d0 :: r1 → isDelim ifs d0 = true
  | [], _, _, h => by simp at h
  | x :: s, d0, r1, h => by
    cases hx : isDelim ifs x with
    | true =>
      simp only [List.dropWhile_cons, hx, Bool.not_true, Bool.false_eq_true, if_false,
        List.cons.injEq] at h
      rw [← h.1]; exact hx
    | false =>
      simp only [List.dropWhile_cons, hx, Bool.not_false, if_true] at h
      exact dropWhile_nd_head ifs s d0 r1 h

theorem mem_takeWhile_p {α} (p : α → Bool) (l : List α) : ∀ m ∈ l.takeWhile p, p m = true := by
  have h := @List.all_takeWhile _ p l
  rw [List.all_eq_true] at h
  exact h

theorem mem_takeWhile_nd (ifs : List Char) (s : List MC) :
    ∀ m ∈ s.takeWhile (fun m => !isDelim ifs m), isDelim ifs m = false := by
  intro m hm
  have := mem_takeWhile_p _ s m hm
  simpa using this

theorem mem_takeWhile_d (ifs : List Char) (s : List MC) :
    ∀ m ∈ s.takeWhile (isDelim ifs), isDelim ifs m = true :=
  mem_takeWhile_p _ s

/-- A nonempty field-start string is `word ++ delimiters ++ rest`; `getWord` returns the word
    and the rest, the rest is again a field-start string. -/
theorem decomp {ifs : List Char} {t : List MC} (hne : t ≠ []) (h : FS ifs t) :
    ∃ w d t', t = w ++ (d ++ t') ∧ w ≠ [] ∧ (∀ m ∈ w, isDelim ifs m = false) ∧
      (∀ m ∈ d, isDelim ifs m = true) ∧ FS ifs t' ∧ getWord ifs t = (w, t') ∧
      (t' = [] → ∀ m ∈ d, isWs ifs m = true) ∧ (d = [] → t' = []) := by
  cases t with
  | nil => exact absurd rfl hne
  | cons c t0 =>
    obtain ⟨hc, hiso⟩ := h
    have hw0 := mem_takeWhile_nd ifs t0
    have hsplit : t0.takeWhile (fun m => !isDelim ifs m) ++ t0.dropWhile (fun m => !isDelim ifs m)
        = t0 := List.takeWhile_append_dropWhile
    rw [← hsplit, iso_nd_prefix ifs _ _ hw0] at hiso
    have hgw : getWord ifs (c :: t0) = (c :: t0.takeWhile (fun m => !isDelim ifs m),
        gwRest ifs (t0.dropWhile (fun m => !isDelim ifs m))) := by
      rw [getWord_eq]
      simp [hc]
    have hwall : ∀ m ∈ c :: t0.takeWhile (fun m => !isDelim ifs m), isDelim ifs m = false := by
      intro m hm
      simp only [List.mem_cons] at hm
      rcases hm with rfl | hm
      · exact hc
      · exact hw0 m hm
    cases hu : t0.dropWhile (fun m => !isDelim ifs m) with
    | nil =>
      rw [hu] at hsplit hgw
      refine ⟨c :: t0.takeWhile (fun m => !isDelim ifs m), [], [], ?_, by simp, hwall,
        by simp, trivial, hgw, by simp, by simp⟩
      simp only [List.append_nil] at hsplit ⊢
      rw [hsplit]
    | cons d0 r1 =>
      rw [hu] at hsplit hgw hiso
      have hd0 := dropWhile_nd_head ifs t0 d0 r1 hu
      obtain ⟨e1, e2⟩ := delim_run hd0 hiso
      rw [e1] at hgw
      have hsp2 : (d0 :: r1).takeWhile (isDelim ifs) ++ (d0 :: r1).dropWhile (isDelim ifs)
          = d0 :: r1 := List.takeWhile_append_dropWhile
      refine ⟨c :: t0.takeWhile (fun m => !isDelim ifs m), (d0 :: r1).takeWhile (isDelim ifs),
        (d0 :: r1).dropWhile (isDelim ifs), ?_, by simp, hwall, mem_takeWhile_d ifs _, e2, hgw,
        ?_, ?_⟩
      · rw [hsp2, List.cons_append, hsplit]
      · intro he
        rw [he, List.append_nil] at hsp2
        rw [← hsp2] at hiso
        exact iso_trailing ifs .afterC _ (mem_takeWhile_d ifs _) hiso
      · intro he
        simp [hd0] at he

/-! ### Positions of a word decomposition -/

theorem posOf_some_nd (ifs : List Char) (a : Nat) (r : List MC) : ∀ (w : List MC) (off : Nat),
    (∀ m ∈ w, isDelim ifs m = false) →
    posOf ifs (some a) off (w ++ r) = posOf ifs (some a) (off + w.length) r
  | [], off, _ => rfl
  | m :: w, off, h => by
    have hm := h m (by simp)
    rw [List.cons_append, posOf]
    simp only [hm, Bool.false_eq_true, if_false]
    rw [posOf_some_nd ifs a r w (off + 1) (fun x hx => h x (by simp [hx]))]
    simp only [List.length_cons]
    congr 1
    omega

theorem posOf_none_d (ifs : List Char) (r : List MC) : ∀ (d : List MC) (off : Nat),
    (∀ m ∈ d, isDelim ifs m = true) →
    posOf ifs none off (d ++ r) = posOf ifs none (off + d.length) r
  | [], off, _ => rfl
  | m :: d, off, h => by
    have hm := h m (by simp)
    rw [List.cons_append, posOf]
    simp only [hm, if_true]
    rw [posOf_none_d ifs r d (off + 1) (fun x hx => h x (by simp [hx]))]
    simp only [List.length_cons]
    congr 1
    omega

theorem posOf_word (ifs : List Char) (w d t' : List MC) (off : Nat) (hw : w ≠ [])
    (hwa : ∀ m ∈ w, isDelim ifs m = false) (hda : ∀ m ∈ d, isDelim ifs m = true)
    (hdt : d = [] → t' = []) :
    posOf ifs none off (w ++ (d ++ t')) =
      ⟨off, ((off + w.length : Nat) : Int)⟩ :: posOf ifs none (off + w.length + d.length) t' := by
  cases w with
  | nil => exact absurd rfl hw
  | cons c w0 =>
    have hc := hwa c (by simp)
    rw [List.cons_append, posOf]
    simp only [hc, Bool.false_eq_true, if_false]
    rw [posOf_some_nd ifs off _ w0 (off + 1) (fun x hx => hwa x (by simp [hx]))]
    have e1 : off + 1 + w0.length = off + (c :: w0).length := by simp only [List.length_cons]; omega
    rw [e1]
    cases d with
    | nil =>
      rw [hdt rfl]
      simp [posOf]
    | cons d0 ds =>
      have hd0 := hda d0 (by simp)
      rw [List.cons_append, posOf]
      simp only [hd0, if_true]
      rw [posOf_none_d ifs t' ds _ (fun x hx => hda x (by simp [hx]))]
      simp only [List.length_cons]
      congr 2
      omega

/-! ### Slices, `assign`, `cut` -/

theorem chars_append (a b : List MC) : chars (a ++ b) = chars a ++ chars b := by
  simp [chars]

theorem chars_length (a : List MC) : (chars a).length = a.length := by
  simp [chars]

theorem slice_mid (X W Y : List Char) :
    sliceRunes (X ++ (W ++ Y)) ⟨X.length, ((X.length + W.length : Nat) : Int)⟩ = .ok W := by
  rw [sliceRunes_ok _ _ _ (by omega) (by simp only [List.length_append]; omega)]
  rw [List.drop_left]
  have : X.length + W.length - X.length = W.length := by omega
  rw [this, List.take_left]

theorem sliceAll_cons_ok {R : List Char} {p : Pos} {ps : List Pos} {f : List Char}
    {fs : List (List Char)} (h1 : sliceRunes R p = .ok f) (h2 : sliceAll R ps = .ok fs) :
    sliceAll R (p :: ps) = .ok (f :: fs) := by
  rw [sliceAll, h1, h2]

theorem assign_succ_cons {α} (k : Nat) (f : List α) (fs : List (List α)) :
    assign (k + 1) (f :: fs) = f :: assign k fs := by
  simp [assign, List.range_succ_eq_map, List.map_map, Function.comp_def]

theorem assign_succ_nil {α} (k : Nat) :
    assign (k + 1) ([] : List (List α)) = [] :: assign k [] := by
  simp [assign, List.range_succ_eq_map, List.map_map, Function.comp_def]

theorem assign_nil_spec (ifs : List Char) : ∀ k : Nat, assign k [] = specVars ifs k []
  | 0 => by simp [assign, specVars]
  | 1 => by simp [assign, specVars]
  | k + 2 => by
    rw [assign_succ_nil, assign_nil_spec ifs (k + 1)]
    simp [specVars]

def lastStop (P : List Pos) : Int :=
  match lastPos P with
  | some p => p.stop
  | none => 0

/-- The positions ReadFields keeps for `k ≥ 1` names. -/
def cut (k : Nat) (P : List Pos) : List Pos :=
  if k < P.length then (setEndAt P (k - 1) (lastStop P)).take k else P

theorem cut_nil (k : Nat) : cut k [] = [] := by simp [cut]

theorem lastStop_cons (p q : Pos) (qs : List Pos) : lastStop (p :: q :: qs) = lastStop (q :: qs) := by
  simp [lastStop, lastPos]

theorem cut_succ (k : Nat) (p : Pos) (P : List Pos) :
    cut (k + 2) (p :: P) = p :: cut (k + 1) P := by
  unfold cut
  by_cases h : k + 1 < P.length
  · have h' : k + 2 < (p :: P).length := by simp only [List.length_cons]; omega
    simp only [h, h', if_true]
    cases P with
    | nil => simp at h
    | cons q qs =>
      rw [lastStop_cons]
      simp [setEndAt, List.take_succ_cons]
  · have h' : ¬ k + 2 < (p :: P).length := by simp only [List.length_cons]; omega
    simp only [h, h', if_false]

theorem cut_one (p : Pos) (P : List Pos) : cut 1 (p :: P) = [⟨p.start, lastStop (p :: P)⟩] := by
  unfold cut
  cases P with
  | nil => simp [lastStop, lastPos]
  | cons q qs => simp [setEndAt]

theorem lastPos_cons_some (p : Pos) : ∀ ps : List Pos, ∃ pl, lastPos (p :: ps) = some pl
  | [] => ⟨p, rfl⟩
  | q :: qs => by
    obtain ⟨pl, h⟩ := lastPos_cons_some q qs
    exact ⟨pl, by rw [lastPos]; exact h⟩

/-! ### Trailing white space -/

theorem strip_eq (ifs : List Char) (bs : List MC) (cl : MC) (B : List MC)
    (hB : ∀ m ∈ B, isWs ifs m = true) (hcl : isWs ifs cl = false) :
    stripTrailingWs ifs (bs ++ cl :: B) = bs ++ [cl] := by
  unfold stripTrailingWs
  have e : (bs ++ cl :: B).reverse = B.reverse ++ (cl :: bs.reverse) := by simp
  rw [e, List.dropWhile_append_of_pos (by simpa using hB)]
  simp [hcl]

theorem snoc_of_ne_nil {α} : ∀ (w : List α), w ≠ [] → ∃ bs cl, w = bs ++ [cl] ∧ cl ∈ w := by
  intro w hw
  refine ⟨w.dropLast, w.getLast hw, (List.dropLast_concat_getLast hw).symm, List.getLast_mem hw⟩

/-- The last field of a nonempty field-start string ends where its trailing IFS white space
    begins. -/
theorem last_stop (ifs : List Char) : ∀ (n : Nat) (t : List MC), t.length ≤ n → t ≠ [] → FS ifs t →
    ∀ off : Nat, ∃ bs cl B a, t = bs ++ cl :: B ∧ isDelim ifs cl = false ∧
      (∀ m ∈ B, isWs ifs m = true) ∧
      lastPos (posOf ifs none off t) = some ⟨a, ((off + (bs.length + 1) : Nat) : Int)⟩
  | 0, t, hl, hne, _ => by
    cases t with
    | nil => exact absurd rfl hne
    | cons c t0 => simp at hl
  | n + 1, t, hl, hne, hfs => by
    intro off
    obtain ⟨w, d, t', e, hw, hwa, hda, hfs', _, hws, hdt⟩ := decomp hne hfs
    have hpos := posOf_word ifs w d t' off hw hwa hda hdt
    rw [← e] at hpos
    by_cases ht' : t' = []
    · obtain ⟨bs, cl, e2, hcl⟩ := snoc_of_ne_nil w hw
      refine ⟨bs, cl, d, off, ?_, hwa cl hcl, hws ht', ?_⟩
      · rw [e, ht', e2]; simp
      · rw [hpos, ht']
        simp only [posOf, lastPos, e2, List.length_append, List.length_cons, List.length_nil]
    · have hlen : t'.length ≤ n := by
        have : t.length = w.length + (d.length + t'.length) := by rw [e]; simp
        have : 0 < w.length := List.length_pos_iff.mpr hw
        omega
      obtain ⟨bs, cl, B, a, e2, hcl, hB, hlast⟩ :=
        last_stop ifs n t' hlen ht' hfs' (off + w.length + d.length)
      refine ⟨w ++ (d ++ bs), cl, B, a, ?_, hcl, hB, ?_⟩
      · rw [e, e2]; simp
      · rw [hpos]
        cases hp : posOf ifs none (off + w.length + d.length) t' with
        | nil => rw [hp] at hlast; simp [lastPos] at hlast
        | cons q qs =>
          rw [hp] at hlast
          rw [lastPos, hlast]
          simp only [List.length_append, Option.some.injEq, Pos.mk.injEq, true_and]
          congr 1
          omega

theorem posOf_head (ifs : List Char) {t : List MC} (hne : t ≠ []) (hfs : FS ifs t) (off : Nat) :
    ∃ e rest, posOf ifs none off t = ⟨off, e⟩ :: rest := by
  obtain ⟨w, d, t', e, hw, hwa, hda, _, _, _, hdt⟩ := decomp hne hfs
  have hpos := posOf_word ifs w d t' off hw hwa hda hdt
  rw [← e] at hpos
  exact ⟨_, _, hpos⟩

/-! ### Fields against `specAll` / `specVars` -/

theorem specAll_ok (ifs : List Char) : ∀ (fuel : Nat) (t : List MC) (X : List Char), FS ifs t →
    t.length < fuel →
    sliceAll (X ++ chars t) (posOf ifs none X.length t) = .ok (specAll ifs fuel t)
  | 0, _, _, _, hl => by omega
  | fuel + 1, t, X, hfs, hl => by
    by_cases hne : t = []
    · subst hne
      simp [posOf, sliceAll, specAll]
    · obtain ⟨w, d, t', e, hw, hwa, hda, hfs', hgw, _, hdt⟩ := decomp hne hfs
      have hpos := posOf_word ifs w d t' X.length hw hwa hda hdt
      rw [← e] at hpos
      have hlen : t'.length < fuel := by
        have : t.length = w.length + (d.length + t'.length) := by rw [e]; simp
        have : 0 < w.length := List.length_pos_iff.mpr hw
        omega
      have hspec : specAll ifs (fuel + 1) t = chars w :: specAll ifs fuel t' := by
        cases t with
        | nil => exact absurd rfl hne
        | cons c t0 => simp [specAll, hgw]
      have ih := specAll_ok ifs fuel t' (X ++ (chars w ++ chars d)) hfs' hlen
      have hX : (X ++ (chars w ++ chars d)).length = X.length + w.length + d.length := by
        simp [chars_length]; omega
      have hR : X ++ chars t = (X ++ (chars w ++ chars d)) ++ chars t' := by
        rw [e]; simp [chars_append]
      rw [hX, ← hR] at ih
      rw [hpos, hspec]
      refine sliceAll_cons_ok ?_ ih
      have hR2 : X ++ chars t = X ++ (chars w ++ chars (d ++ t')) := by
        rw [e]; simp [chars_append]
      rw [hR2, ← chars_length w]
      exact slice_mid X (chars w) _

theorem specVars_one (ifs : List Char) {t : List MC} (hne : t ≠ []) (hfs : FS ifs t) :
    specVars ifs 1 t = [chars (stripTrailingWs ifs t)] := by
  obtain ⟨w, d, t', e, hw, hwa, hda, hfs', hgw, hws, hdt⟩ := decomp hne hfs
  have h1 : specVars ifs 1 t =
      if t'.isEmpty then [chars w] else [chars (stripTrailingWs ifs t)] := by
    cases t with
    | nil => exact absurd rfl hne
    | cons c t0 => simp [specVars, hgw]
  rw [h1]
  by_cases ht' : t' = []
  · obtain ⟨bs, cl, e2, hcl⟩ := snoc_of_ne_nil w hw
    have e3 : t = bs ++ cl :: d := by rw [e, ht', e2]; simp
    rw [e3, strip_eq ifs bs cl d (hws ht') (not_isDelim_not_isWs (hwa cl hcl)), ht', ← e2]
    simp
  · have : t'.isEmpty = false := by cases t' <;> simp at ht' ⊢
    simp [this]

theorem specVars_ok (ifs : List Char) : ∀ (k : Nat) (t : List MC) (X : List Char), FS ifs t →
    ∃ fs, sliceAll (X ++ chars t) (cut (k + 1) (posOf ifs none X.length t)) = .ok fs ∧
      assign (k + 1) fs = specVars ifs (k + 1) t
  | 0, t, X, hfs => by
    by_cases hne : t = []
    · subst hne
      exact ⟨[], by simp [posOf, cut_nil, sliceAll], assign_nil_spec ifs 1⟩
    · obtain ⟨e0, rest, hhead⟩ := posOf_head ifs hne hfs X.length
      obtain ⟨bs, cl, B, a, e, hcl, hB, hlast⟩ :=
        last_stop ifs t.length t (Nat.le_refl _) hne hfs X.length
      rw [hhead] at hlast
      rw [hhead, cut_one]
      have hls : lastStop (⟨X.length, e0⟩ :: rest) = ((X.length + (bs.length + 1) : Nat) : Int) := by
        simp [lastStop, hlast]
      rw [hls, specVars_one ifs hne hfs]
      have hst : stripTrailingWs ifs t = bs ++ [cl] := by
        rw [e]; exact strip_eq ifs bs cl B hB (not_isDelim_not_isWs hcl)
      rw [hst]
      refine ⟨[chars (bs ++ [cl])], ?_, by simp [assign]⟩
      have hR : X ++ chars t = X ++ (chars (bs ++ [cl]) ++ chars B) := by
        rw [e]; simp [chars]
      have hl : bs.length + 1 = (chars (bs ++ [cl])).length := by simp [chars_length]
      rw [hR, hl]
      exact sliceAll_cons_ok (slice_mid X _ _) rfl
  | k + 1, t, X, hfs => by
    by_cases hne : t = []
    · subst hne
      exact ⟨[], by simp [posOf, cut_nil, sliceAll], assign_nil_spec ifs (k + 2)⟩
    · obtain ⟨w, d, t', e, hw, hwa, hda, hfs', hgw, _, hdt⟩ := decomp hne hfs
      have hpos := posOf_word ifs w d t' X.length hw hwa hda hdt
      rw [← e] at hpos
      have hspec : specVars ifs (k + 2) t = chars w :: specVars ifs (k + 1) t' := by
        cases t with
        | nil => exact absurd rfl hne
        | cons c t0 => simp [specVars, hgw]
      obtain ⟨fs, ih1, ih2⟩ := specVars_ok ifs k t' (X ++ (chars w ++ chars d)) hfs'
      have hX : (X ++ (chars w ++ chars d)).length = X.length + w.length + d.length := by
        simp [chars_length]; omega
      have hR : X ++ chars t = (X ++ (chars w ++ chars d)) ++ chars t' := by
        rw [e]; simp [chars_append]
      rw [hX, ← hR] at ih1
      rw [hpos, hspec, cut_succ]
      refine ⟨chars w :: fs, sliceAll_cons_ok ?_ ih1, ?_⟩
      · have hR2 : X ++ chars t = X ++ (chars w ++ chars (d ++ t')) := by
          rw [e]; simp [chars_append]
        rw [hR2, ← chars_length w]
        exact slice_mid X (chars w) _
      · rw [assign_succ_cons, ih2]

/-! ### `finishM` by cases on `n` -/

theorem finishM_neg (ifs : List Char) (P : List Pos) (R : List Char) :
    finishM ifs (-1) P R = sliceAll R P := by
  cases P with
  | nil => rfl
  | cons p ps =>
    obtain ⟨pl, h⟩ := lastPos_cons_some p ps
    unfold finishM
    simp only [h]
    rfl

theorem finishM_cut (ifs : List Char) (k : Nat) (hk : 2 ≤ k) (P : List Pos) (R : List Char) :
    finishM ifs (k : Int) P R = sliceAll R (cut k P) := by
  cases P with
  | nil => simp [finishM, cut_nil, sliceAll]
  | cons p ps =>
    obtain ⟨pl, h⟩ := lastPos_cons_some p ps
    unfold finishM cut lastStop
    simp only [h]
    have h1 : ((k : Int) == 1) = false := by
      rw [beq_eq_false_iff_ne]; omega
    have h2 : ((k : Int) != -1) = true := by
      rw [bne_iff_ne]; omega
    have h3 : ¬ ((k : Int) - 1 < 0) := by omega
    have h4 : ((k : Int) - 1).toNat = k - 1 := by omega
    simp only [h1, h2, h3, h4, Bool.false_eq_true, if_false, Bool.true_and, decide_eq_true_eq,
      Int.toNat_natCast, Int.ofNat_lt]
    split <;> rfl

theorem finishM_one (ifs : List Char) (p0 pl : Pos) (ps : List Pos) (R : List Char) (e : Nat)
    (hl : lastPos (p0 :: ps) = some pl) (he : pl.stop = (e : Int))
    (hlo : loLoop ifs R p0.start p0.start 0 = .ok p0.start)
    (hhi : hiLoop ifs R (e : Int) R.length = .ok e) :
    finishM ifs 1 (p0 :: ps) R = sliceAll R [⟨p0.start, (e : Int)⟩] := by
  unfold finishM
  simp only [hl, he, hlo, hhi, beq_self_eq_true, if_true]

theorem loLoop_prefix (ifs : List Char) (A B : List Char)
    (hA : ∀ r ∈ A, ifsWhitespace ifs r = true) : ∀ (fuel lo : Nat), lo ≤ A.length →
    A.length ≤ fuel + lo → loLoop ifs (A ++ B) A.length fuel lo = .ok A.length
  | 0, lo, h1, h2 => by
    have : lo = A.length := by omega
    rw [loLoop, this]
  | fuel + 1, lo, h1, h2 => by
    rw [loLoop]
    by_cases hlt : lo < A.length
    · simp only [hlt, if_true]
      rw [List.getElem?_append_left hlt, List.getElem?_eq_getElem hlt]
      simp only [hA _ (List.getElem_mem hlt), if_true]
      exact loLoop_prefix ifs A B hA fuel (lo + 1) (by omega) (by omega)
    · have : lo = A.length := by omega
      rw [if_neg hlt, this]

theorem hiLoop_stop (ifs : List Char) (R : List Char) (e : Nat) :
    hiLoop ifs R (e : Int) e = .ok e := by
  cases e with
  | zero => simp [hiLoop]
  | succ n => simp [hiLoop]

theorem hiLoop_suffix (ifs : List Char) (A B : List Char)
    (hB : ∀ r ∈ B, ifsWhitespace ifs r = true) : ∀ (j : Nat), j ≤ B.length →
    hiLoop ifs (A ++ B) (A.length : Int) (A.length + j) = .ok A.length
  | 0, _ => hiLoop_stop ifs _ _
  | j + 1, hj => by
    have e : A.length + (j + 1) = (A.length + j) + 1 := by omega
    rw [e, hiLoop]
    have hgt : ((A.length + j + 1 : Nat) : Int) > (A.length : Int) := by omega
    simp only [hgt, if_true]
    have hjl : j < B.length := by omega
    rw [List.getElem?_append_right (by omega)]
    have : A.length + j - A.length = j := by omega
    rw [this, List.getElem?_eq_getElem hjl]
    simp only [hB _ (List.getElem_mem hjl), if_true]
    exact hiLoop_suffix ifs A B hB j (by omega)

theorem start_FS (ifs : List Char) (s : List MC) (h : isolated ifs .start s = true) :
    FS ifs (skipWs ifs s) := by
  rw [← isolated_skipWs] at h
  cases hs : skipWs ifs s with
  | nil => trivial
  | cons m r =>
    rw [hs] at h
    have hw := skipWs_head ifs s m r hs
    cases hd : isDelim ifs m with
    | true => rw [isolated_d_other .start r (by decide) hw hd] at h; cases h
    | false =>
      rw [isolated_nd _ r hd] at h
      exact ⟨hd, h⟩

theorem split_ws (ifs : List Char) (s : List MC) (h : isolated ifs .start s = true) :
    ∃ A, FS ifs (skipWs ifs s) ∧ (∀ m ∈ A, isWs ifs m = true) ∧
      posOf ifs none 0 s = posOf ifs none (chars A).length (skipWs ifs s) ∧
      chars s = chars A ++ chars (skipWs ifs s) := by
  have hfs := start_FS ifs s h
  have hsplit : s.takeWhile (isWs ifs) ++ skipWs ifs s = s := List.takeWhile_append_dropWhile
  have hAws := mem_takeWhile_p (isWs ifs) s
  refine ⟨s.takeWhile (isWs ifs), hfs, hAws, ?_, ?_⟩
  · have := posOf_none_d ifs (skipWs ifs s) (s.takeWhile (isWs ifs)) 0
      (fun m hm => isWs_isDelim (hAws m hm))
    rw [hsplit] at this
    rw [this, chars_length]
    simp
  · rw [← chars_append, hsplit]

theorem chars_ws (ifs : List Char) (A : List MC) (hA : ∀ m ∈ A, isWs ifs m = true) :
    ∀ r ∈ chars A, ifsWhitespace ifs r = true := by
  intro r hr
  simp only [chars, List.mem_map] at hr
  obtain ⟨m, hm, rfl⟩ := hr
  exact isWs_ifsWhitespace (hA m hm)

/-- Layer C, assembled: `read -a`. -/
theorem finishM_spec_none (ifs : List Char) (s : List MC) (h : isolated ifs .start s = true) :
    finishM ifs (-1) (posOf ifs none 0 s) (chars s) =
      .ok (specAll ifs ((skipWs ifs s).length + 1) (skipWs ifs s)) := by
  obtain ⟨A, hfs, hAws, hP, hR⟩ := split_ws ifs s h
  rw [hP, hR, finishM_neg]
  exact specAll_ok ifs _ _ (chars A) hfs (Nat.lt_succ_self _)

/-- Layer C, assembled: `k ≥ 1` names. -/
theorem finishM_spec_some (ifs : List Char) (s : List MC) (k : Nat) (hk : 1 ≤ k)
    (h : isolated ifs .start s = true) :
    ∃ fs, finishM ifs (k : Int) (posOf ifs none 0 s) (chars s) = .ok fs ∧
      assign k fs = specVars ifs k (skipWs ifs s) := by
  obtain ⟨A, hfs, hAws, hP, hR⟩ := split_ws ifs s h
  rw [hP, hR]
  generalize skipWs ifs s = t at hfs
  cases k with
  | zero => omega
  | succ k =>
    cases k with
    | succ k =>
      rw [finishM_cut ifs (k + 1 + 1) (by omega)]
      exact specVars_ok ifs (k + 1) t (chars A) hfs
    | zero =>
      obtain ⟨fs, h1, h2⟩ := specVars_ok ifs 0 t (chars A) hfs
      refine ⟨fs, ?_, h2⟩
      rw [← h1]
      by_cases hne : t = []
      · subst hne
        simp [posOf, finishM, cut_nil, sliceAll]
      · obtain ⟨e0, rest, hhead⟩ := posOf_head ifs hne hfs (chars A).length
        obtain ⟨bs, cl, B, a, e, hcl, hB, hlast⟩ :=
          last_stop ifs t.length t (Nat.le_refl _) hne hfs (chars A).length
        rw [hhead] at hlast
        rw [hhead, cut_one]
        have hls : lastStop (⟨(chars A).length, e0⟩ :: rest) =
            (((chars A).length + (bs.length + 1) : Nat) : Int) := by
          simp [lastStop, hlast]
        rw [hls]
        have hRR : chars A ++ chars t = (chars A ++ chars (bs ++ [cl])) ++ chars B := by
          rw [e]; simp [chars]
        have hlenL : (chars A ++ chars (bs ++ [cl])).length = (chars A).length + (bs.length + 1) := by
          simp [chars]
        refine finishM_one ifs _ _ rest _ _ hlast rfl ?_ ?_
        · exact loLoop_prefix ifs (chars A) (chars t) (chars_ws ifs A hAws) (chars A).length 0
            (Nat.zero_le _) (by omega)
        · rw [hRR, ← hlenL]
          have hlen2 : ((chars A ++ chars (bs ++ [cl])) ++ chars B).length =
              (chars A ++ chars (bs ++ [cl])).length + (chars B).length := by
            simp only [List.length_append]
          rw [hlen2]
          exact hiLoop_suffix ifs _ (chars B) (chars_ws ifs B hB) (chars B).length (Nat.le_refl _)

/-- The result with the `match`es not generalised over `hk` (so that a statement written with
    `nOf` / `valuesOf` is closed by `exact`). -/
theorem readfields_spec_partial_plain (ifs line : List Char) (names : Option Nat) (raw : Bool)
    (hk : ∀ k, names = some k → 1 ≤ k) (hc : Clean ifs raw line) :
    ∃ fs, readFields ifs line
        (match (generalizing := false) names with | some k => (k : Int) | none => -1) raw = .ok fs ∧
      (match (generalizing := false) names with | some k => assign k fs | none => fs) =
        specRead ifs line names raw := by
  obtain ⟨h1, h2, h3⟩ := hc
  cases names with
  | none =>
    simp only
    rw [readFields_eq ifs line _ raw h1 h2]
    exact ⟨_, finishM_spec_none ifs _ h3, rfl⟩
  | some k =>
    simp only
    rw [readFields_eq ifs line _ raw h1 h2]
    exact finishM_spec_some ifs _ k (hk k rfl) h3

theorem readfields_spec_partial' (ifs line : List Char) (names : Option Nat) (raw : Bool)
    (hk : ∀ k, names = some k → 1 ≤ k) (hc : Clean ifs raw line) :
    ∃ fs, readFields ifs line (match names with | some k => (k : Int) | none => -1) raw = .ok fs ∧
      (match names with | some k => assign k fs | none => fs) = specRead ifs line names raw := by
  have h := readfields_spec_partial_plain ifs line names raw hk hc
  cases names <;> exact h

end ShVerif.C23
