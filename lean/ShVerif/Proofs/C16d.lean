import ShVerif.Model.C16
import ShVerif.Proofs.C16
import ShVerif.Proofs.C16b
/-
  C16 — `seqAgree` from SplitBraces' validity test: bash's `expand_seqterm` reads a sequence term
  `a..b[..c]` made of safe literals with the parameters `bracesSeqRec` computes.
-/
set_option linter.unusedSimpArgs false
set_option linter.unusedVariables false
namespace ShVerif.C16

theorem findDots_safe (a : Bytes) (ha : a.all safeByte = true) (r : Bytes) :
    findDots (a ++ cDot :: cDot :: r) = some (a, r) := by
  induction a with
  | nil => rw [findDots.eq_def]; simp
  | cons x a ih =>
    simp only [List.all_cons, Bool.and_eq_true] at ha
    have hx : x ≠ cDot := (safeByte_ne x ha.1).2.2.2.1
    have := ih ha.2
    cases a with
    | nil =>
      simp only [List.nil_append] at this ⊢
      rw [findDots.eq_def]
      simp [hx, this]
    | cons y a' =>
      simp only [List.cons_append] at this ⊢
      rw [findDots.eq_def]
      simp [hx, this]

theorem takeWhile_digits (ds ep : Bytes) (hds : ds.all isDigit = true)
    (hep : ep = [] ∨ ∃ c r, ep = c :: r ∧ isDigit c = false) :
    (ds ++ ep).takeWhile isDigit = ds ∧ (ds ++ ep).dropWhile isDigit = ep := by
  induction ds with
  | nil =>
    rcases hep with rfl | ⟨c, r, rfl, hc⟩
    · simp
    · simp [List.takeWhile, List.dropWhile, hc]
  | cons d ds ih =>
    simp only [List.all_cons, Bool.and_eq_true] at hds
    have := ih hds.2
    simp [List.takeWhile, List.dropWhile, hds.1, this.1, this.2]

theorem parseDigits_ok (neg : Bool) (ds : Bytes) (h : (parseDigits neg ds).2 = true) :
    ds ≠ [] ∧ ds.all isDigit = true ∧
    (parseDigits neg ds).1 = (if neg then -(digitsVal ds : Int) else (digitsVal ds : Int)) ∧
    inI64 (parseDigits neg ds).1 = true := by
  unfold parseDigits at h ⊢
  by_cases h1 : ds = []
  · simp [h1] at h
  · by_cases h2 : (!ds.all isDigit) = true
    · simp [h1, h2] at h
    · simp only [h1, h2, if_false] at h ⊢
      have hall : ds.all isDigit = true := by simpa using h2
      refine ⟨h1, hall, ?_⟩
      generalize (if neg = true then -(digitsVal ds : Int) else (digitsVal ds : Int)) = v at h ⊢
      by_cases h3 : v > maxI64
      · simp [h3] at h
      · by_cases h4 : v < minI64
        · simp [h3, h4] at h
        · simp only [h3, h4, if_false, Bool.false_eq_true, inI64, decide_eq_true_eq]
          exact ⟨trivial, by omega, by omega⟩

@[simp] theorem plus_ne_minus : (cPlus = cMinus) = False := by decide
@[simp] theorem minus_ne_plus : (cMinus = cPlus) = False := by decide
@[simp] theorem minus_ne_zero : (cMinus = cZero) = False := by decide
@[simp] theorem plus_ne_zero : (cPlus = cZero) = False := by decide

theorem digit_not_sign (c : UInt8) (h : isDigit c = true) : c ≠ cMinus ∧ c ≠ cPlus := by
  simp only [isDigit, decide_eq_true_eq] at h
  constructor <;> (intro hc; subst hc; exact absurd h (by decide))

theorem numPrefix_digits (neg : Bool) (ds ep : Bytes) (hne : ds ≠ []) (hds : ds.all isDigit = true)
    (hep : ep = [] ∨ ∃ c r, ep = c :: r ∧ isDigit c = false) :
    (if (ds ++ ep).takeWhile isDigit = [] then none
     else some ((if neg then -((digitsVal ((ds ++ ep).takeWhile isDigit) : Nat) : Int)
                 else ((digitsVal ((ds ++ ep).takeWhile isDigit) : Nat) : Int)),
                (ds ++ ep).dropWhile isDigit)) =
    some ((if neg then -(digitsVal ds : Int) else (digitsVal ds : Int)), ep) := by
  obtain ⟨h1, h2⟩ := takeWhile_digits ds ep hds hep
  rw [h1, h2, if_neg hne]

theorem numPrefix_of_parse (s ep : Bytes) (h : (parseInt s).2 = true)
    (hep : ep = [] ∨ ∃ c r, ep = c :: r ∧ isDigit c = false) :
    numPrefix (s ++ ep) = some ((parseInt s).1, ep) ∧ inI64 (parseInt s).1 = true := by
  unfold parseInt at h ⊢
  cases s with
  | nil => simp at h
  | cons c r =>
    simp only at h ⊢
    by_cases hp : c = cPlus
    · subst hp
      simp only [if_true] at h ⊢
      obtain ⟨hne, hds, hv, hin⟩ := parseDigits_ok false r h
      refine ⟨?_, hin⟩
      have := numPrefix_digits false r ep hne hds hep
      simp only [numPrefix, List.cons_append]
      simp only [Bool.false_eq_true, if_false] at this hv
      rw [hv]
      simpa using this
    · by_cases hm : c = cMinus
      · subst hm
        simp only [if_true, if_neg (by decide : ¬ cMinus = cPlus)] at h ⊢
        obtain ⟨hne, hds, hv, hin⟩ := parseDigits_ok true r h
        refine ⟨?_, hin⟩
        have := numPrefix_digits true r ep hne hds hep
        simp only [numPrefix, List.cons_append]
        simp only [if_true] at this hv
        rw [hv]
        simpa using this
      · simp only [hp, hm, if_false] at h ⊢
        obtain ⟨hne, hds, hv, hin⟩ := parseDigits_ok false (c :: r) h
        refine ⟨?_, hin⟩
        have := numPrefix_digits false (c :: r) ep hne hds hep
        simp only [numPrefix, List.cons_append, hp, hm, if_false]
        simp only [Bool.false_eq_true, if_false, List.cons_append] at this hv
        rw [hv]
        simpa using this

theorem letter_facts (x : UInt8) (h : asciiLetter x = true) :
    x ≠ cMinus ∧ x ≠ cPlus ∧ isDigit x = false := by
  simp only [asciiLetter, decide_eq_true_eq] at h
  refine ⟨?_, ?_, ?_⟩
  · intro hc; subst hc; exact absurd h (by decide)
  · intro hc; subst hc; exact absurd h (by decide)
  · simp only [isDigit, decide_eq_false_iff_not]; omega

theorem numPrefix_letter (x : UInt8) (ep : Bytes) (h : asciiLetter x = true) :
    numPrefix (x :: ep) = none := by
  obtain ⟨h1, h2, h3⟩ := letter_facts x h
  simp [numPrefix, h1, h2, List.takeWhile, h3]

theorem parse_letter_fails (x : UInt8) (h : asciiLetter x = true) : (parseInt [x]).2 = false := by
  obtain ⟨h1, h2, h3⟩ := letter_facts x h
  simp [parseInt, h1, h2, parseDigits, h3]

theorem zeroPadded_eq (s : Bytes) : zeroPadded s = hasLeadingZeros s := by
  unfold zeroPadded hasLeadingZeros
  match s with
  | [] => simp
  | [c] =>
    by_cases hc : c = cMinus <;> simp [hc]
  | c :: d :: rest =>
    by_cases hc : c = cMinus
    · subst hc
      cases rest with
      | nil => simp
      | cons e r => simp
    · simp [hc]

/-- What follows the second endpoint: nothing, or `..c` with a parsable increment. -/
def IncrTail (ep : Bytes) (inc : Int) : Prop :=
  (ep = [] ∧ inc = 1) ∨
  (∃ c, ep = cDot :: cDot :: c ∧ c ≠ [] ∧ numPrefix c = some (inc, []) ∧ inI64 inc = true)

theorem seqTerm_num (a b ep : Bytes) (va vb inc : Int) (ha : a.all safeByte = true)
    (hane : a ≠ []) (hbne : b ≠ [])
    (hna : numPrefix a = some (va, [])) (hia : inI64 va = true)
    (hnb : numPrefix (b ++ ep) = some (vb, ep)) (hib : inI64 vb = true)
    (hep : IncrTail ep inc) :
    seqTerm (a ++ (dots ++ (b ++ ep))) =
      some { chars := false, «from» := va, to := vb, step := idealStep inc,
             width := if (zeroPadded a || zeroPadded b) then max a.length b.length else 0 } := by
  have hfd : findDots (a ++ (dots ++ (b ++ ep))) = some (a, b ++ ep) := by
    simpa [dots] using findDots_safe a ha (b ++ ep)
  have hrne : b ++ ep ≠ [] := by simp [hbne]
  have hlen : (b ++ ep).length - ep.length = b.length := by simp
  have htake : (b ++ ep).take b.length = b := by simp
  unfold seqTerm
  rw [hfd]
  simp only [hane, hrne, or_self, if_false, hna, hia, if_true, hnb, hib]
  rcases hep with ⟨rfl, rfl⟩ | ⟨c, rfl, hcne, hnc, hic⟩
  · simp [htake]
  · simp [hcne, hnc, hic, hlen, htake]

theorem seqTerm_chr (x y : UInt8) (ep : Bytes) (inc : Int) (hxs : safeByte x = true)
    (hx : asciiLetter x = true) (hy : asciiLetter y = true) (hep : IncrTail ep inc) :
    seqTerm ([x] ++ (dots ++ ([y] ++ ep))) =
      some { chars := true, «from» := (x.toNat : Int), to := (y.toNat : Int),
             step := idealStep inc, width := 0 } := by
  have hfd : findDots ([x] ++ (dots ++ ([y] ++ ep))) = some ([x], [y] ++ ep) := by
    simpa [dots] using findDots_safe [x] (by simp [hxs]) ([y] ++ ep)
  unfold seqTerm
  rw [hfd]
  have h1 := numPrefix_letter x [] hx
  have h2 := numPrefix_letter y ep hy
  simp only [List.singleton_append] at h2 ⊢
  rcases hep with ⟨rfl, rfl⟩ | ⟨c, rfl, hcne, hnc, hic⟩
  · simp [h1, h2, hx, hy]
  · simp [h1, h2, hx, hy, hcne, hnc, hic]

@[simp] theorem litOf_single (v : Bytes) : litOf [.lit v] = v := by
  simp [litOf, Part.isLit, Part.litVal]

theorem seqValid_kinds (e0 e1 : Word) (more : List Word) (h : seqValid (e0 :: e1 :: more) = true) :
    ∃ k, endpointKind e0 = some k ∧ endpointKind e1 = some k := by
  unfold seqValid at h
  cases hk0 : endpointKind e0 with
  | none => simp [hk0] at h
  | some k0 =>
    cases hk1 : endpointKind e1 with
    | none => simp [hk0, hk1] at h
    | some k1 =>
      simp only [hk0, hk1, Bool.and_eq_true, beq_iff_eq] at h
      exact ⟨k0, rfl, by rw [h.2]⟩

theorem seqValid_third (e0 e1 e2 : Word) (h : seqValid [e0, e1, e2] = true) :
    (parseInt (litOf e2)).2 = true := by
  unfold seqValid at h
  cases hk0 : endpointKind e0 with
  | none => simp [hk0] at h
  | some k0 =>
    cases hk1 : endpointKind e1 with
    | none => simp [hk0, hk1] at h
    | some k1 =>
      simp only [hk0, hk1, Bool.and_eq_true] at h
      exact h.1

theorem dot_not_digit : isDigit cDot = false := by decide

/-- The shared computation: given the endpoint kinds, both sides read the same parameters. -/
theorem seqAgree_core (a b : Bytes) (more : List Word) (ep : Bytes)
    (ha : safeLit a = true) (hb : safeLit b = true)
    (hjoin : joinSep dots (renderElems ([.lit a] :: [.lit b] :: more)) = a ++ (dots ++ (b ++ ep)))
    (hep : IncrTail ep (seqRaw ([.lit a] :: [.lit b] :: more)))
    (hepd : ep = [] ∨ ∃ c r, ep = c :: r ∧ isDigit c = false)
    (k : Bool) (hk0 : endpointKind [.lit a] = some k) (hk1 : endpointKind [.lit b] = some k) :
    seqAgree ([.lit a] :: [.lit b] :: more) = true := by
  have hane := safeLit_ne_nil a ha
  have hbne := safeLit_ne_nil b hb
  unfold seqAgree
  rw [hjoin]
  rcases endpointKind_some _ k hk0 with ⟨rfl, p0⟩ | ⟨rfl, p0, x, hx, hxl⟩
  · rcases endpointKind_some _ false hk1 with ⟨_, p1⟩ | ⟨hk', _⟩
    · simp only [litOf_single] at p0 p1
      obtain ⟨na, ia⟩ := numPrefix_of_parse a [] p0 (Or.inl rfl)
      obtain ⟨nb, ib⟩ := numPrefix_of_parse b ep p1 hepd
      simp only [List.append_nil] at na
      rw [seqTerm_num a b ep _ _ _ (safeLit_all a ha) hane hbne na ia nb ib hep]
      simp [seqParams, p0, p1, zeroPadded_eq]
    · cases hk'
  · rcases endpointKind_some _ true hk1 with ⟨hk', _⟩ | ⟨_, p1, y, hy, hyl⟩
    · cases hk'
    · simp only [litOf_single] at p0 p1 hx hy
      subst hx hy
      have hxs : safeByte x = true := by
        have := safeLit_all [x] ha; simpa using this
      have := seqTerm_chr x y ep _ hxs hxl hyl hep
      simp only [List.singleton_append, List.cons_append, List.nil_append] at this ⊢
      rw [this]
      simp [seqParams, p0, p1]

theorem seqAgree_of_valid (elems : List Word) (hv : seqValid elems = true)
    (hs : seqShape elems = true) : seqAgree elems = true := by
  rcases seq_elems_cases elems hv hs with ⟨a, b, rfl, ha, hb⟩ | ⟨a, b, c, rfl, ha, hb, hc⟩
  · obtain ⟨k, hk0, hk1⟩ := seqValid_kinds _ _ _ hv
    apply seqAgree_core a b [] [] ha hb (by simp [joinSep]) (Or.inl ⟨rfl, by simp [seqRaw]⟩)
      (Or.inl rfl) k hk0 hk1
  · obtain ⟨k, hk0, hk1⟩ := seqValid_kinds _ _ _ hv
    have hpc := seqValid_third _ _ _ hv
    simp only [litOf_single] at hpc
    obtain ⟨nc, ic⟩ := numPrefix_of_parse c [] hpc (Or.inl rfl)
    simp only [List.append_nil] at nc
    apply seqAgree_core a b [[.lit c]] (cDot :: cDot :: c) ha hb (by simp [joinSep, dots])
      (Or.inr ⟨c, rfl, safeLit_ne_nil c hc, by simpa [seqRaw] using nc, by simpa [seqRaw] using ic⟩)
      (Or.inr ⟨cDot, cDot :: c, rfl, dot_not_digit⟩) k hk0 hk1

mutual
theorem seqsAgreePart_of_canon : ∀ (p : Part), canonPart p = true → seqsAgreePart p = true
  | .lit v, _ => by simp [seqsAgreePart]
  | .brace true elems, h => by
    simp only [canonPart, if_true, Bool.and_eq_true] at h
    simp only [seqsAgreePart, if_true]
    exact seqAgree_of_valid elems h.1 h.2
  | .brace false elems, h => by
    simp only [canonPart, Bool.false_eq_true, if_false, Bool.and_eq_true] at h
    simp only [seqsAgreePart, Bool.false_eq_true, if_false]
    exact seqsAgreeElems_of_canon elems h.2
theorem seqsAgree_of_canon : ∀ (u : List Part), canon u = true → seqsAgree u = true
  | [], _ => by simp [seqsAgree]
  | p :: ps, h => by
    obtain ⟨hp, hps, _⟩ := canon_cons p ps h
    simp [seqsAgree, seqsAgreePart_of_canon p hp, seqsAgree_of_canon ps hps]
theorem seqsAgreeElems_of_canon : ∀ (es : List (List Part)), canonElems es = true →
    seqsAgreeElems es = true
  | [], _ => by simp [seqsAgreeElems]
  | e :: es, h => by
    simp only [canonElems, Bool.and_eq_true] at h
    simp [seqsAgreeElems, seqsAgree_of_canon e h.1, seqsAgreeElems_of_canon es h.2]
end

end ShVerif.C16
