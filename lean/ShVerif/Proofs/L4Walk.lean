/-
  L4: the parser reads printed text back as a transcript (programs without subshells and blocks,
  no SingleLine) — the glue between `printFile_fix` (the printer is a fixpoint on transcripts) and
  the lexer/parser facts: `lexAll_pieces_lines` (where the tokens of printed text sit),
  `lexAll_ok3` (where a word ends), `parse_flatten` (the tree is the token stream), `parse_pk`
  (statement positions are first-token positions), `parse_WF`, and the round trip on norms.
-/
import ShVerif.Proofs.L4Fix
import ShVerif.Proofs.L4LexLines
import ShVerif.Proofs.L4PosFirst
import ShVerif.Proofs.L4PrintGen
namespace ShVerif.L4

/-- what the walk needs to know of a token: is it `;` or `&`, and its line -/
inductive TK
  | semi | amp | other
deriving DecidableEq, Repr

def tkOfOp (b : Bytes) : TK := if b = [59] then .semi else if b = [38] then .amp else .other

def tkOf : Tok → TK
  | .semi => .semi
  | .amp => .amp
  | _ => .other

def tinfo (tp : TokPos) : TK × Nat := (tkOf tp.1, tp.2.line)

/-- kinds and lines of the word and operator pieces, the first piece starting on line `L` -/
def pinfo (L : Nat) : List Piece → List (TK × Nat)
  | [] => []
  | .word parts :: r => (.other, L) :: pinfo (L + nls (wordBytes parts)) r
  | .op b :: r => (tkOfOp b, L) :: pinfo (L + nls b) r
  | .gap b :: r => pinfo (L + nls b) r

theorem pinfo_append (A B : List Piece) : ∀ L, pinfo L (A ++ B) = pinfo L A ++ pinfo (L + nls (render A)) B := by
  induction A with
  | nil => intro L; simp [pinfo, render, nls]
  | cons x r ih =>
    intro L
    cases x with
    | word parts => simp [pinfo, ih, render, nls_app, Piece.bytes, Nat.add_assoc]
    | op b => simp [pinfo, ih, render, nls_app, Piece.bytes, Nat.add_assoc]
    | gap b => simp [pinfo, ih, render, nls_app, Piece.bytes, Nat.add_assoc]

theorem opTok_kind {b : Bytes} {a : ATok} {t : Tok} (h : opTok b = some a) (hm : tokMatch a t) :
    tkOf t = tkOfOp b ∧ t ≠ .newl ∧ nls b = 0 := by
  unfold opTok at h
  repeat' split at h
  all_goals first
    | (cases h; done)
    | (simp only [Option.some.injEq] at h
       subst h
       simp only [tokMatch] at hm
       rename_i hb
       first
         | (subst hb; subst hm; simp_all [tkOf, tkOfOp, nls])
         | (subst hb; obtain ⟨w, hw⟩ := hm; subst hw; simp_all [tkOf, tkOfOp, nls]))

theorem lexChain_shape : ∀ ps : List Piece, lexChain ps = true → ∀ pc ∈ ps, pc.shapeOK = true
  | [], _, _, h => by cases h
  | x :: r, hc, pc, h => by
    simp only [lexChain, Bool.and_eq_true] at hc
    rcases List.mem_cons.mp h with rfl | h
    · exact hc.1.1
    · exact lexChain_shape r hc.2 pc h

theorem nls_blanks {b : Bytes} (h : b.all (· == 32) = true ∨ b.all (· == 9) = true) : nls b = 0 := by
  rcases h with h | h
  · rw [all_eq_replicate b 32 h]; simp [nls, List.count_replicate]
  · rw [all_eq_replicate b 9 h]; simp [nls, List.count_replicate]

/-- from the abstract tokens and the lines of the lexed text to kinds and lines of its pieces -/
theorem bridge : ∀ (ps : List Piece) (sk : Bool) (L : Nat) (toks : List TokPos),
    (∀ pc ∈ ps, pc.shapeOK = true) → toksMatch (expect sk ps) toks →
    toks.map (fun tp => tp.2.line) = expectLines sk L ps →
    ∃ Le, (dropNl toks).map tinfo = pinfo L ps ++ [(.other, Le)] := by
  intro ps
  induction ps with
  | nil =>
    intro sk L toks _ hm hl
    cases toks with
    | nil => simp [expect, toksMatch] at hm
    | cons tp ts =>
      obtain ⟨t, p⟩ := tp
      simp only [expect, toksMatch, tokMatch] at hm
      obtain ⟨rfl, hm2⟩ := hm
      cases ts with
      | nil => exact ⟨p.line, by simp [dropNl, tinfo, tkOf, pinfo]⟩
      | cons _ _ => simp [toksMatch] at hm2
  | cons pc rest ih =>
    intro sk L toks hsh hm hl
    have hrest : ∀ q ∈ rest, q.shapeOK = true := fun q hq => hsh q (by simp [hq])
    have hpc := hsh pc (by simp)
    cases pc with
    | word parts =>
      cases toks with
      | nil => simp [expect, toksMatch] at hm
      | cons tp ts =>
        obtain ⟨t, p⟩ := tp
        simp only [expect, toksMatch] at hm
        obtain ⟨⟨w, lit, rfl, _, _⟩, hm2⟩ := hm
        simp only [expectLines, List.map_cons, List.cons.injEq] at hl
        obtain ⟨Le, hh⟩ := ih false _ ts hrest hm2 hl.2
        refine ⟨Le, ?_⟩
        rw [dropNl_cons _ _ (by simp)]
        simp only [List.map_cons, pinfo, List.cons_append, hh, tinfo, tkOf, hl.1]
    | op b =>
      simp only [Piece.shapeOK, Option.isSome_iff_exists] at hpc
      obtain ⟨a, ha⟩ := hpc
      cases toks with
      | nil => simp [expect, toksMatch, ha] at hm
      | cons tp ts =>
        obtain ⟨t, p⟩ := tp
        simp only [expect, ha, List.singleton_append, toksMatch] at hm
        obtain ⟨hm1, hm2⟩ := hm
        obtain ⟨k1, k2, k3⟩ := opTok_kind ha hm1
        simp only [expectLines, ha, List.singleton_append, List.map_cons, List.cons.injEq] at hl
        obtain ⟨Le, hh⟩ := ih false L ts hrest hm2 hl.2
        refine ⟨Le, ?_⟩
        rw [dropNl_cons _ _ k2]
        simp only [List.map_cons, pinfo, List.cons_append, k3, Nat.add_zero, hh, tinfo, k1, hl.1]
    | gap b =>
      simp only [Piece.shapeOK] at hpc
      cases hgk : gapKind b with
      | none => simp [hgk] at hpc
      | some k =>
        cases k with
        | newline =>
          have hb := gapKind_newline hgk
          subst hb
          have hn : nls [10] = 1 := rfl
          cases sk with
          | true =>
            simp only [expect, hgk, ↓reduceIte] at hm
            simp only [expectLines, hgk, ↓reduceIte] at hl
            obtain ⟨Le, hh⟩ := ih true (L + 1) toks hrest hm hl
            exact ⟨Le, by simp only [pinfo, hn, hh]⟩
          | false =>
            simp only [expect, hgk, Bool.false_eq_true, ↓reduceIte] at hm
            simp only [expectLines, hgk, Bool.false_eq_true, ↓reduceIte] at hl
            cases toks with
            | nil => simp [toksMatch] at hm
            | cons tp ts =>
              obtain ⟨t, p⟩ := tp
              simp only [toksMatch, tokMatch] at hm
              obtain ⟨rfl, hm2⟩ := hm
              simp only [List.map_cons, List.cons.injEq] at hl
              obtain ⟨Le, hh⟩ := ih true (L + 1) ts hrest hm2 hl.2
              refine ⟨Le, ?_⟩
              have : dropNl ((Tok.newl, p) :: ts) = dropNl ts := by simp [dropNl]
              rw [this]
              simp only [pinfo, hn, hh]
        | bsnl =>
          have hb := gapKind_bsnl hgk
          subst hb
          have hn : nls [92, 10] = 1 := rfl
          simp only [expect, hgk] at hm
          simp only [expectLines, hgk] at hl
          obtain ⟨Le, hh⟩ := ih sk (L + 1) toks hrest hm hl
          exact ⟨Le, by simp only [pinfo, hn, hh]⟩
        | blanks =>
          obtain ⟨_, hall⟩ := gapKind_blanks hgk
          have hn := nls_blanks hall
          simp only [expect, hgk] at hm
          simp only [expectLines, hgk] at hl
          obtain ⟨Le, hh⟩ := ih sk L toks hrest hm hl
          exact ⟨Le, by simp only [pinfo, hn, Nat.add_zero, hh]⟩

/-! ## The tokens a printer run writes, with their lines -/

def P.tl (p : P) : List (TK × Nat) := pinfo 1 p.out.reverse

theorem tl_push (p p' : P) (x : Piece) (h : p'.out = x :: p.out) : p'.tl = p.tl ++ pinfo p.cur [x] := by
  unfold P.tl
  rw [h, List.reverse_cons, pinfo_append]
  rfl

theorem tl_gapw (p : P) (b : Bytes) : (p.gapw b).tl = p.tl := by
  rw [tl_push p (p.gapw b) (.gap b) rfl]; simp [pinfo]
theorem tl_tok (p : P) (b : Bytes) : (p.tok b).tl = p.tl ++ [(tkOfOp b, p.cur)] := by
  rw [tl_push p (p.tok b) (.op b) rfl]; simp [pinfo]
theorem tl_space (p : P) : p.space.tl = p.tl := tl_gapw p [32]
theorem tl_spacePad (p : P) : p.spacePad.tl = p.tl := by
  unfold P.spacePad
  split
  · exact tl_gapw p [32]
  · rfl
theorem tl_indent (p : P) : p.indent.tl = p.tl := by
  unfold P.indent
  split
  · rfl
  · simp only
    split
    · rfl
    · split
      · exact tl_gapw _ _
      · exact tl_gapw _ _
theorem tl_bslashNewl (p : P) : p.bslashNewl.tl = p.tl := by
  unfold P.bslashNewl
  simp only
  rw [tl_indent]
  show (P.gapw _ [92, 10]).tl = _
  rw [tl_gapw]
  split
  · exact tl_space p
  · rfl
theorem tl_incLevel (p : P) : p.incLevel.tl = p.tl := by
  unfold P.incLevel
  split
  · rfl
  · split <;> rfl
theorem tl_decLevel (p : P) : p.decLevel.tl = p.tl := by
  unfold P.decLevel
  split <;> rfl
theorem tl_advanceLine (p : P) (l : Nat) : (p.advanceLine l).tl = p.tl := rfl

theorem tl_spacedString (p : P) (s : Bytes) : (p.spacedString s).tl = p.tl ++ [(tkOfOp s, p.cur)] := by
  show (p.spacePad.tok s).tl = _
  rw [tl_tok, tl_spacePad, cur_spacePad]
theorem tl_spacedToken (p : P) (s : Bytes) : (p.spacedToken s).tl = p.tl ++ [(tkOfOp s, p.cur)] := by
  unfold P.spacedToken
  split
  · show (p.tok s).tl = _
    rw [tl_tok]
  · show (p.spacePad.tok s).tl = _
    rw [tl_tok, tl_spacePad, cur_spacePad]

theorem tl_preWord (p : P) (w : Word) : (p.preWord w).tl = p.tl := by
  unfold P.preWord
  split
  · rfl
  · split
    · exact tl_bslashNewl p
    · rfl

theorem tl_word (p : P) (w : Word) (hne : w.parts ≠ []) : (p.word w).tl = p.tl ++ [(.other, (p.preWord w).cur)] := by
  unfold P.word P.wordParts
  cases hw : w.parts with
  | nil => exact absurd hw hne
  | cons wp r =>
    simp only
    rw [wordPartsLoop_eq]
    have e : p.preWord w = (if (!p.o.singleLine && decide (wp.pos.line > p.line)) = true then p.bslashNewl else p) := by
      unfold P.preWord; rw [hw]
    rw [← e]
    show P.tl { (p.preWord w) with out := .word (wp :: r) :: (p.preWord w).out, line := _, wantSpace := _ } = _
    rw [tl_push (p.preWord w) _ (.word (wp :: r)) rfl, tl_preWord]
    simp [pinfo]

theorem tl_joinStep (p : P) (any : Bool) (pos : Pos) : (p.joinStep any pos).1.tl = p.tl := by
  unfold P.joinStep
  split
  · show (P.bslashNewl _).tl = _
    rw [tl_bslashNewl]
    split
    · exact tl_incLevel p
    · rfl
  · rfl

def argsD (p : P) (any : Bool) : List Word → List (TK × Nat)
  | [] => []
  | w :: rest =>
    match w.pos? with
    | none => []
    | some pos =>
      (.other, ((p.joinStep any pos).1.spacePad.preWord w).cur) ::
        argsD ((p.joinStep any pos).1.spacePad.word w) (p.joinStep any pos).2 rest

def wordsOK (ws : List Word) : Prop := ∀ w ∈ ws, w.parts ≠ []

theorem pos_of_parts {w : Word} (h : w.parts ≠ []) : ∃ pos, w.pos? = some pos := by
  cases hw : w.parts with
  | nil => exact absurd hw h
  | cons wp r => exact ⟨wp.pos, by simp [Word.pos?, hw]⟩

theorem tl_wordJoinLoop : ∀ (ws : List Word) (p : P) (any : Bool), wordsOK ws →
    (p.wordJoinLoop any ws).1.tl = p.tl ++ argsD p any ws
  | [], p, any, _ => by simp [P.wordJoinLoop, argsD]
  | w :: rest, p, any, h => by
    have hw := h w (by simp)
    obtain ⟨pos, hp⟩ := pos_of_parts hw
    rw [wordJoinLoop_cons p any w rest pos hp, tl_wordJoinLoop rest _ _ (fun x hx => h x (by simp [hx]))]
    rw [tl_word _ _ hw, tl_spacePad, tl_joinStep]
    simp [argsD, hp]

theorem tl_wordJoin (ws : List Word) (p : P) (h : wordsOK ws) : (p.wordJoin ws).tl = p.tl ++ argsD p false ws := by
  unfold P.wordJoin
  simp only
  split
  · rw [tl_decLevel]; exact tl_wordJoinLoop ws p false h
  · exact tl_wordJoinLoop ws p false h

def callD (p : P) : List Word → List (TK × Nat)
  | [] => []
  | w :: rest =>
    match w.pos? with
    | none => []
    | some pos =>
      argsD ((p.advanceLine pos.line).spacePad.incLevel.decLevel) false [w] ++
        argsD (((p.advanceLine pos.line).spacePad.incLevel.decLevel).wordJoin [w]) false rest

theorem tl_call (p : P) (args : List Word) (h : wordsOK args) (hne : args ≠ []) :
    (p.command (.call args)).tl = p.tl ++ callD p args := by
  cases args with
  | nil => exact absurd rfl hne
  | cons w rest =>
    obtain ⟨pos, hp⟩ := pos_of_parts (h w (by simp))
    rw [command_call p w rest pos hp]
    rw [tl_wordJoin rest _ (fun x hx => h x (by simp [hx])), tl_wordJoin [w] _ (fun x hx => h x (by simp only [List.mem_singleton] at hx; simp [hx]))]
    rw [tl_decLevel, tl_incLevel, tl_spacePad, tl_advanceLine]
    simp [callD, hp, List.append_assoc]

def semiD (p : P) (semi : Pos) (bg : Bool) : List (TK × Nat) :=
  if (semi.valid && decide (semi.line > p.line)) = true then [((if bg then TK.amp else TK.semi), p.cur + 1)]
  else if bg = true then [(TK.amp, p.cur)] else []

theorem tl_stmtPre (p : P) (neg : Bool) : (p.stmtPre neg).tl = p.tl ++ (if neg then [(TK.other, p.cur)] else []) := by
  unfold P.stmtPre
  cases neg
  · simp; rfl
  · simp only [↓reduceIte]
    rw [tl_spacedString]
    rfl

theorem tl_stmtEnd (p : P) (semi : Pos) (bg : Bool) (hsl : p.o.singleLine = false) :
    (p.stmtEnd semi bg).tl = p.tl ++ semiD p semi bg := by
  unfold P.stmtEnd
  simp only
  rw [tl_decLevel]
  have hl : p.incLevel.line = p.line := incLevel_line p
  have ho : p.incLevel.o = p.o := incLevel_o p
  have hc : p.incLevel.cur = p.cur := cur_incLevel p
  have ht : p.incLevel.tl = p.tl := tl_incLevel p
  generalize p.incLevel = p1 at hl ho hc ht
  simp only [ho, hsl, Bool.not_false, Bool.and_true, hl]
  unfold semiD
  by_cases c : (semi.valid && decide (semi.line > p.line)) = true
  · simp only [c, Bool.true_or, ↓reduceIte]
    cases bg
    · show (P.tok _ [59]).tl = _
      rw [tl_tok, tl_bslashNewl, cur_bslashNewl, ht, hc]; rfl
    · show (P.tok _ [38]).tl = _
      rw [tl_tok, tl_bslashNewl, cur_bslashNewl, ht, hc]; rfl
  · have c' : (semi.valid && decide (semi.line > p.line)) = false := by simpa using c
    simp only [c', Bool.false_or, Bool.false_eq_true, ↓reduceIte]
    cases bg
    · simp only [Bool.false_eq_true, ↓reduceIte, List.append_nil]
      exact ht
    · simp only [↓reduceIte]
      show (P.tok _ [38]).tl = _
      rw [tl_tok]
      split
      · rw [tl_space, cur_space, ht, hc]; rfl
      · rw [ht, hc]; rfl

theorem tkOfOp_opstr (op : BinOp) : tkOfOp op.str = .other := by cases op <;> decide

/-- the line on which the operator of a binary command is written -/
def opLine (p : P) (yLine : Nat) : Nat :=
  if (p.o.minify || p.o.singleLine || decide (yLine ≤ p.line)) = true then p.cur
  else if p.o.binNextLine then p.cur + 1 else p.cur

theorem tl_newline (p : P) (l : Nat) : (p.newline l).tl = p.tl := tl_gapw p [10]

theorem tl_opMulti (p : P) (opPos : Pos) (s : Bytes) (yLine : Nat) :
    (p.opMulti opPos s yLine).tl = p.tl ++ [(tkOfOp s, if p.o.binNextLine then p.cur + 1 else p.cur)] := by
  unfold P.opMulti
  rw [tl_advanceLine]
  split
  · rw [tl_spacedToken, tl_bslashNewl, cur_bslashNewl]
  · rw [tl_indent, tl_newline, tl_advanceLine, tl_spacedToken]

theorem tl_binaryOp (p : P) (opPos : Pos) (op : BinOp) (yLine : Nat) (yb : Bool) :
    (p.binaryOp opPos op yLine yb).1.tl = p.tl ++ [(.other, opLine p yLine)] := by
  rw [binaryOp_eq]
  unfold opLine
  split
  · show ((p.spacedToken op.str).advanceLine yLine).tl = _
    rw [tl_advanceLine, tl_spacedToken, tkOfOp_opstr]
  · show (P.opMulti _ opPos op.str yLine).tl = _
    rw [tl_opMulti, tkOfOp_opstr]
    cases p.nestedBinary
    · simp only [Bool.not_false, ↓reduceIte, tl_incLevel, cur_incLevel, incLevel_o]
    · simp only [Bool.not_true, Bool.false_eq_true, ↓reduceIte]

theorem tl_binaryEnd (p : P) (i m : Bool) : (p.binaryEnd i m).tl = p.tl := by
  unfold P.binaryEnd
  cases m
  · rfl
  · cases i
    · rfl
    · exact tl_decLevel p

theorem tl_nl (p : P) : p.nl.tl = p.tl := tl_gapw p [10]

theorem tl_newlines (p : P) (l : Nat) : (p.newlines l).tl = p.tl := by
  rw [newlines_eq]
  split
  · rfl
  · split
    · rfl
    · rw [tl_indent, tl_advanceLine]
      split
      · rw [tl_gapw, tl_nl]
      · exact tl_nl p

theorem tl_stmtSep (p : P) (first : Bool) (l : Nat) (hsl : p.o.singleLine = false) : (p.stmtSep first l).tl = p.tl := by
  unfold P.stmtSep
  simp only [hsl, Bool.false_and, Bool.and_false, Bool.false_eq_true, ↓reduceIte]
  rw [tl_advanceLine]
  split
  · exact tl_newlines p l
  · rfl

/-! ## No printer step changes the options -/

theorem indent_o (p : P) : p.indent.o = p.o := by
  unfold P.indent
  split
  · rfl
  · simp only
    split
    · rfl
    · split <;> rfl
theorem bslashNewl_o (p : P) : p.bslashNewl.o = p.o := by
  unfold P.bslashNewl
  simp only
  rw [indent_o]
  show (P.gapw _ [92, 10]).o = _
  split <;> rfl
theorem spacedString_o (p : P) (s : Bytes) : (p.spacedString s).o = p.o := spacePad_o p
theorem spacedToken_o (p : P) (s : Bytes) : (p.spacedToken s).o = p.o := by
  unfold P.spacedToken
  split
  · rfl
  · exact spacePad_o p
theorem word_o (p : P) (w : Word) : (p.word w).o = p.o := by
  unfold P.word P.wordParts
  split
  · rfl
  · rw [wordPartsLoop_eq]
    simp only
    split
    · exact bslashNewl_o p
    · rfl
theorem joinStep_o (p : P) (any : Bool) (pos : Pos) : (p.joinStep any pos).1.o = p.o := by
  unfold P.joinStep
  split
  · show (P.bslashNewl _).o = _
    rw [bslashNewl_o]
    split
    · exact incLevel_o p
    · rfl
  · rfl
theorem wordJoinLoop_o : ∀ (ws : List Word) (p : P) (any : Bool), (p.wordJoinLoop any ws).1.o = p.o
  | [], p, any => by simp [P.wordJoinLoop]
  | w :: rest, p, any => by
    cases hp : w.pos? with
    | none => rw [P.wordJoinLoop]; simp only [hp]; rfl
    | some pos =>
      rw [wordJoinLoop_cons p any w rest pos hp, wordJoinLoop_o rest, word_o, spacePad_o, joinStep_o]
theorem wordJoin_o (ws : List Word) (p : P) : (p.wordJoin ws).o = p.o := by
  unfold P.wordJoin
  simp only
  split
  · rw [decLevel_o]; exact wordJoinLoop_o ws p false
  · exact wordJoinLoop_o ws p false
theorem newlines_o (p : P) (l : Nat) : (p.newlines l).o = p.o := by
  rw [newlines_eq]
  split
  · rfl
  · split
    · rfl
    · rw [indent_o]
      show (if _ then _ else _ : P).o = _
      split <;> rfl
theorem stmtSep_o (p : P) (first : Bool) (l : Nat) : (p.stmtSep first l).o = p.o := by
  have h1 : ∀ q : P, (if (q.mustNewline || !q.o.minify || decide (q.wantSpace = .required)) = true
      then q.newlines l else q).o = q.o := by
    intro q
    split
    · exact newlines_o q l
    · rfl
  unfold P.stmtSep
  simp only
  show (if _ then _ else _ : P).o = _
  rw [h1]
  split <;> rfl
theorem stmtPre_o (p : P) (neg : Bool) : (p.stmtPre neg).o = p.o := by
  unfold P.stmtPre
  cases neg
  · rfl
  · exact spacedString_o _ _
theorem stmtEnd_o (p : P) (semi : Pos) (bg : Bool) : (p.stmtEnd semi bg).o = p.o := by
  unfold P.stmtEnd
  simp only
  rw [decLevel_o]
  split
  · show (if bg = true then P.tok _ [38] else P.tok _ [59] : P).o = _
    have : ∀ q : P, (if bg = true then q.tok [38] else q.tok [59]).o = q.o := by intro q; split <;> rfl
    rw [this]
    split
    · rw [bslashNewl_o, incLevel_o]
    · split
      · exact incLevel_o p
      · exact incLevel_o p
  · exact incLevel_o p
theorem opMulti_o (p : P) (opPos : Pos) (s : Bytes) (y : Nat) : (p.opMulti opPos s y).o = p.o := by
  unfold P.opMulti
  show (if _ then _ else _ : P).o = _
  split
  · rw [spacedToken_o, bslashNewl_o]
  · rw [indent_o]
    exact spacedToken_o p s
theorem binaryOp_o (p : P) (opPos : Pos) (op : BinOp) (y : Nat) (yb : Bool) : (p.binaryOp opPos op y yb).1.o = p.o := by
  rw [binaryOp_eq]
  split
  · exact spacedToken_o p _
  · show (P.opMulti _ opPos op.str y).o = _
    rw [opMulti_o]
    split
    · exact incLevel_o p
    · rfl
theorem binaryEnd_o (p : P) (i m : Bool) : (p.binaryEnd i m).o = p.o := by
  unfold P.binaryEnd
  cases m
  · rfl
  · cases i
    · rfl
    · exact decLevel_o p

mutual
theorem stmt_o : ∀ (s : Stmt) (p : P), s.lin = true → (p.stmt s).o = p.o
  | .mk _ semi neg bg cmd, p, h => by
    rw [P.stmt, stmtEnd_o, command_o cmd _ (by simpa [Stmt.lin] using h), stmtPre_o]
theorem command_o : ∀ (c : Cmd) (p : P), c.lin = true → (p.command c).o = p.o
  | .call args, p, _ => by
    cases args with
    | nil => simp [P.command, P.panic]
    | cons w rest =>
      cases hp : w.pos? with
      | none => simp [P.command, hp, P.panic]
      | some pos =>
        rw [command_call p w rest pos hp, wordJoin_o, wordJoin_o, decLevel_o, incLevel_o, spacePad_o]; rfl
  | .binary opPos op x y, p, h => by
    simp only [Cmd.lin, Bool.and_eq_true] at h
    rw [P.command, binaryEnd_o, stmt_o y _ h.2, binaryOp_o, stmt_o x _ h.1, spacePad_o]; rfl
  | .subshell _ _ _, _, h => by simp [Cmd.lin] at h
  | .block _ _ _, _, h => by simp [Cmd.lin] at h
end

/-! ## The tokens of a statement, a command, a list -/

mutual
def stmtD (p : P) : Stmt → List (TK × Nat)
  | .mk _ semi neg bg cmd =>
    (if neg then [(TK.other, p.cur)] else []) ++
      (cmdD (p.stmtPre neg) cmd ++ semiD ((p.stmtPre neg).command cmd) semi bg)
def cmdD (p : P) : Cmd → List (TK × Nat)
  | .call args => callD p args
  | .binary opPos op x y =>
    stmtD ((p.advanceLine x.pos.line).spacePad) x ++
      ((TK.other, opLine (((p.advanceLine x.pos.line).spacePad).stmt x) y.pos.line) ::
        stmtD ((((p.advanceLine x.pos.line).spacePad).stmt x).binaryOp opPos op y.pos.line y.isBinaryCmd).1 y)
  | .subshell _ _ _ => []
  | .block _ _ _ => []
end

theorem call_wordsOK {args : List Word} (h : (Cmd.call args).wf = true) : wordsOK args ∧ args ≠ [] := by
  cases args with
  | nil => simp [Cmd.wf] at h
  | cons w rest =>
    simp only [Cmd.wf, Bool.and_eq_true, List.all_eq_true] at h
    refine ⟨fun x hx => ?_, by simp⟩
    have := h.1 x hx
    simp only [Word.wf, Bool.and_eq_true, Bool.not_eq_true', List.isEmpty_eq_false_iff] at this
    exact this.1

mutual
theorem tl_stmt : ∀ (s : Stmt) (p : P), s.wf = true → s.lin = true → p.o.singleLine = false →
    (p.stmt s).tl = p.tl ++ stmtD p s
  | .mk _ semi neg bg cmd, p, hwf, hlin, hsl => by
    have hcw : cmd.wf = true := by
      simp only [Stmt.wf, Bool.and_eq_true] at hwf; exact hwf.1
    have hcl : cmd.lin = true := by simpa [Stmt.lin] using hlin
    have hsl1 : (p.stmtPre neg).o.singleLine = false := by rw [stmtPre_o]; exact hsl
    rw [P.stmt, tl_stmtEnd _ _ _ (by rw [command_o cmd _ hcl]; exact hsl1), tl_cmd cmd _ hcw hcl hsl1, tl_stmtPre]
    simp only [stmtD, List.append_assoc]
theorem tl_cmd : ∀ (c : Cmd) (p : P), c.wf = true → c.lin = true → p.o.singleLine = false →
    (p.command c).tl = p.tl ++ cmdD p c
  | .call args, p, hwf, _, _ => by
    obtain ⟨h1, h2⟩ := call_wordsOK hwf
    rw [tl_call p args h1 h2]
    simp only [cmdD]
  | .binary opPos op x y, p, hwf, hlin, hsl => by
    simp only [Cmd.lin, Bool.and_eq_true] at hlin
    have hxw : x.wf = true := by simp only [Cmd.wf, Bool.and_eq_true] at hwf; exact hwf.1.1.1.1
    have hyw : y.wf = true := by simp only [Cmd.wf, Bool.and_eq_true] at hwf; exact hwf.1.1.1.2
    have hsl0 : ((p.advanceLine x.pos.line).spacePad).o.singleLine = false := by rw [spacePad_o]; exact hsl
    have hsl1 : (((p.advanceLine x.pos.line).spacePad).stmt x).o.singleLine = false := by
      rw [stmt_o x _ hlin.1]; exact hsl0
    rw [P.command, tl_binaryEnd, tl_stmt y _ hyw hlin.2 (by rw [binaryOp_o]; exact hsl1), tl_binaryOp,
      tl_stmt x _ hxw hlin.1 hsl0, tl_spacePad, tl_advanceLine]
    simp only [cmdD, List.append_assoc, List.singleton_append]
  | .subshell _ _ _, _, _, h, _ => by simp [Cmd.lin] at h
  | .block _ _ _, _, _, h, _ => by simp [Cmd.lin] at h
end

def loopD (p : P) (first : Bool) : Stmts → List (TK × Nat)
  | .nil => []
  | .cons s rest =>
    stmtD (p.stmtSep first s.pos.line) s ++
      loopD { ((p.stmtSep first s.pos.line).stmt s) with wantNewline := true } false rest

theorem tl_loop : ∀ (ss : Stmts) (p : P) (first : Bool), ss.wf = true → ss.lin = true → p.o.singleLine = false →
    (p.stmtListLoop first ss).tl = p.tl ++ loopD p first ss
  | .nil, p, first, _, _, _ => by simp [P.stmtListLoop, loopD]
  | .cons s rest, p, first, hwf, hlin, hsl => by
    obtain ⟨hs, hr⟩ := Stmts.wf_cons hwf
    simp only [Stmts.lin, Bool.and_eq_true] at hlin
    have hsl1 : (p.stmtSep first s.pos.line).o.singleLine = false := by rw [stmtSep_o]; exact hsl
    rw [P.stmtListLoop, tl_loop rest _ false hr hlin.2 (by
      show ((p.stmtSep first s.pos.line).stmt s).o.singleLine = false
      rw [stmt_o s _ hlin.1]; exact hsl1)]
    show ((p.stmtSep first s.pos.line).stmt s).tl ++ _ = _
    rw [tl_stmt s _ hs hlin.1 hsl1, tl_stmtSep _ _ _ hsl]
    simp only [loopD, List.append_assoc]

end ShVerif.L4
