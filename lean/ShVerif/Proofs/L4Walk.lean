/-
  L4: the parser reads printed text back as a transcript (programs without subshells and blocks,
  no SingleLine) — the glue between `printFile_fix` (the printer is a fixpoint on transcripts) and
  the lexer/parser facts: `lexAll_pieces_lines` (where the tokens of printed text sit),
  `lexAll_ok3` (where a word ends), `parse_flatten` (the tree is the token stream), `parse_pk`
  (statement positions are first-token positions), `parse_WF`, and the round trip on norms.
-/
import ShVerif.Proofs.L4Fix
import ShVerif.Proofs.L4LexLines
import ShVerif.Proofs.L4PosFirst
import ShVerif.Proofs.L4PrintGen
namespace ShVerif.L4

/-- what the walk needs to know of a token: is it `;` or `&`, and its line -/
inductive TK
  | semi | amp | other
deriving DecidableEq, Repr

def tkOfOp (b : Bytes) : TK := if b = [59] then .semi else if b = [38] then .amp else .other

def tkOf : Tok → TK
  | .semi => .semi
  | .amp => .amp
  | _ => .other

def tinfo (tp : TokPos) : TK × Nat := (tkOf tp.1, tp.2.line)

/-- kinds and lines of the word and operator pieces, the first piece starting on line `L` -/
def pinfo (L : Nat) : List Piece → List (TK × Nat)
  | [] => []
  | .word parts :: r => (.other, L) :: pinfo (L + nls (wordBytes parts)) r
  | .op b :: r => (tkOfOp b, L) :: pinfo (L + nls b) r
  | .gap b :: r => pinfo (L + nls b) r

theorem pinfo_append (A B : List Piece) : ∀ L, pinfo L (A ++ B) = pinfo L A ++ pinfo (L + nls (render A)) B := by
  induction A with
  | nil => intro L; simp [pinfo, render, nls]
  | cons x r ih =>
    intro L
    cases x with
    | word parts => simp [pinfo, ih, render, nls_app, Piece.bytes, Nat.add_assoc]
    | op b => simp [pinfo, ih, render, nls_app, Piece.bytes, Nat.add_assoc]
    | gap b => simp [pinfo, ih, render, nls_app, Piece.bytes, Nat.add_assoc]

theorem opTok_kind {b : Bytes} {a : ATok} {t : Tok} (h : opTok b = some a) (hm : tokMatch a t) :
    tkOf t = tkOfOp b ∧ t ≠ .newl ∧ nls b = 0 := by
  unfold opTok at h
  repeat' split at h
  all_goals first
    | (cases h; done)
    | (simp only [Option.some.injEq] at h
       subst h
       simp only [tokMatch] at hm
       rename_i hb
       first
         | (subst hb; subst hm; simp_all [tkOf, tkOfOp, nls])
         | (subst hb; obtain ⟨w, hw⟩ := hm; subst hw; simp_all [tkOf, tkOfOp, nls]))

theorem lexChain_shape : ∀ ps : List Piece, lexChain ps = true → ∀ pc ∈ ps, pc.shapeOK = true
  | [], _, _, h => by cases h
  | x :: r, hc, pc, h => by
    simp only [lexChain, Bool.and_eq_true] at hc
    rcases List.mem_cons.mp h with rfl | h
    · exact hc.1.1
    · exact lexChain_shape r hc.2 pc h

theorem nls_blanks {b : Bytes} (h : b.all (· == 32) = true ∨ b.all (· == 9) = true) : nls b = 0 := by
  rcases h with h | h
  · rw [all_eq_replicate b 32 h]; simp [nls, List.count_replicate]
  · rw [all_eq_replicate b 9 h]; simp [nls, List.count_replicate]

/-- from the abstract tokens and the lines of the lexed text to kinds and lines of its pieces -/
theorem bridge : ∀ (ps : List Piece) (sk : Bool) (L : Nat) (toks : List TokPos),
    (∀ pc ∈ ps, pc.shapeOK = true) → toksMatch (expect sk ps) toks →
    toks.map (fun tp => tp.2.line) = expectLines sk L ps →
    ∃ Le, (dropNl toks).map tinfo = pinfo L ps ++ [(.other, Le)] := by
  intro ps
  induction ps with
  | nil =>
    intro sk L toks _ hm hl
    cases toks with
    | nil => simp [expect, toksMatch] at hm
    | cons tp ts =>
      obtain ⟨t, p⟩ := tp
      simp only [expect, toksMatch, tokMatch] at hm
      obtain ⟨rfl, hm2⟩ := hm
      cases ts with
      | nil => exact ⟨p.line, by simp [dropNl, tinfo, tkOf, pinfo]⟩
      | cons _ _ => simp [toksMatch] at hm2
  | cons pc rest ih =>
    intro sk L toks hsh hm hl
    have hrest : ∀ q ∈ rest, q.shapeOK = true := fun q hq => hsh q (by simp [hq])
    have hpc := hsh pc (by simp)
    cases pc with
    | word parts =>
      cases toks with
      | nil => simp [expect, toksMatch] at hm
      | cons tp ts =>
        obtain ⟨t, p⟩ := tp
        simp only [expect, toksMatch] at hm
        obtain ⟨⟨w, lit, rfl, _, _⟩, hm2⟩ := hm
        simp only [expectLines, List.map_cons, List.cons.injEq] at hl
        obtain ⟨Le, hh⟩ := ih false _ ts hrest hm2 hl.2
        refine ⟨Le, ?_⟩
        rw [dropNl_cons _ _ (by simp)]
        simp only [List.map_cons, pinfo, List.cons_append, hh, tinfo, tkOf, hl.1]
    | op b =>
      simp only [Piece.shapeOK, Option.isSome_iff_exists] at hpc
      obtain ⟨a, ha⟩ := hpc
      cases toks with
      | nil => simp [expect, toksMatch, ha] at hm
      | cons tp ts =>
        obtain ⟨t, p⟩ := tp
        simp only [expect, ha, List.singleton_append, toksMatch] at hm
        obtain ⟨hm1, hm2⟩ := hm
        obtain ⟨k1, k2, k3⟩ := opTok_kind ha hm1
        simp only [expectLines, ha, List.singleton_append, List.map_cons, List.cons.injEq] at hl
        obtain ⟨Le, hh⟩ := ih false L ts hrest hm2 hl.2
        refine ⟨Le, ?_⟩
        rw [dropNl_cons _ _ k2]
        simp only [List.map_cons, pinfo, List.cons_append, k3, Nat.add_zero, hh, tinfo, k1, hl.1]
    | gap b =>
      simp only [Piece.shapeOK] at hpc
      cases hgk : gapKind b with
      | none => simp [hgk] at hpc
      | some k =>
        cases k with
        | newline =>
          have hb := gapKind_newline hgk
          subst hb
          have hn : nls [10] = 1 := rfl
          cases sk with
          | true =>
            simp only [expect, hgk, ↓reduceIte] at hm
            simp only [expectLines, hgk, ↓reduceIte] at hl
            obtain ⟨Le, hh⟩ := ih true (L + 1) toks hrest hm hl
            exact ⟨Le, by simp only [pinfo, hn, hh]⟩
          | false =>
            simp only [expect, hgk, Bool.false_eq_true, ↓reduceIte] at hm
            simp only [expectLines, hgk, Bool.false_eq_true, ↓reduceIte] at hl
            cases toks with
            | nil => simp [toksMatch] at hm
            | cons tp ts =>
              obtain ⟨t, p⟩ := tp
              simp only [toksMatch, tokMatch] at hm
              obtain ⟨rfl, hm2⟩ := hm
              simp only [List.map_cons, List.cons.injEq] at hl
              obtain ⟨Le, hh⟩ := ih true (L + 1) ts hrest hm2 hl.2
              refine ⟨Le, ?_⟩
              have : dropNl ((Tok.newl, p) :: ts) = dropNl ts := by simp [dropNl]
              rw [this]
              simp only [pinfo, hn, hh]
        | bsnl =>
          have hb := gapKind_bsnl hgk
          subst hb
          have hn : nls [92, 10] = 1 := rfl
          simp only [expect, hgk] at hm
          simp only [expectLines, hgk] at hl
          obtain ⟨Le, hh⟩ := ih sk (L + 1) toks hrest hm hl
          exact ⟨Le, by simp only [pinfo, hn, hh]⟩
        | blanks =>
          obtain ⟨_, hall⟩ := gapKind_blanks hgk
          have hn := nls_blanks hall
          simp only [expect, hgk] at hm
          simp only [expectLines, hgk] at hl
          obtain ⟨Le, hh⟩ := ih sk L toks hrest hm hl
          exact ⟨Le, by simp only [pinfo, hn, Nat.add_zero, hh]⟩

/-! ## The tokens a printer run writes, with their lines -/

def P.tl (p : P) : List (TK × Nat) := pinfo 1 p.out.reverse

theorem tl_push (p p' : P) (x : Piece) (h : p'.out = x :: p.out) : p'.tl = p.tl ++ pinfo p.cur [x] := by
  unfold P.tl
  rw [h, List.reverse_cons, pinfo_append]
  rfl

theorem tl_gapw (p : P) (b : Bytes) : (p.gapw b).tl = p.tl := by
  rw [tl_push p (p.gapw b) (.gap b) rfl]; simp [pinfo]
theorem tl_tok (p : P) (b : Bytes) : (p.tok b).tl = p.tl ++ [(tkOfOp b, p.cur)] := by
  rw [tl_push p (p.tok b) (.op b) rfl]; simp [pinfo]
theorem tl_space (p : P) : p.space.tl = p.tl := tl_gapw p [32]
theorem tl_spacePad (p : P) : p.spacePad.tl = p.tl := by
  unfold P.spacePad
  split
  · exact tl_gapw p [32]
  · rfl
theorem tl_indent (p : P) : p.indent.tl = p.tl := by
  unfold P.indent
  split
  · rfl
  · simp only
    split
    · rfl
    · split
      · exact tl_gapw _ _
      · exact tl_gapw _ _
theorem tl_bslashNewl (p : P) : p.bslashNewl.tl = p.tl := by
  unfold P.bslashNewl
  simp only
  rw [tl_indent]
  show (P.gapw _ [92, 10]).tl = _
  rw [tl_gapw]
  split
  · exact tl_space p
  · rfl
theorem tl_incLevel (p : P) : p.incLevel.tl = p.tl := by
  unfold P.incLevel
  split
  · rfl
  · split <;> rfl
theorem tl_decLevel (p : P) : p.decLevel.tl = p.tl := by
  unfold P.decLevel
  split <;> rfl
theorem tl_advanceLine (p : P) (l : Nat) : (p.advanceLine l).tl = p.tl := rfl

theorem tl_spacedString (p : P) (s : Bytes) : (p.spacedString s).tl = p.tl ++ [(tkOfOp s, p.cur)] := by
  show (p.spacePad.tok s).tl = _
  rw [tl_tok, tl_spacePad, cur_spacePad]
theorem tl_spacedToken (p : P) (s : Bytes) : (p.spacedToken s).tl = p.tl ++ [(tkOfOp s, p.cur)] := by
  unfold P.spacedToken
  split
  · show (p.tok s).tl = _
    rw [tl_tok]
  · show (p.spacePad.tok s).tl = _
    rw [tl_tok, tl_spacePad, cur_spacePad]

theorem tl_preWord (p : P) (w : Word) : (p.preWord w).tl = p.tl := by
  unfold P.preWord
  split
  · rfl
  · split
    · exact tl_bslashNewl p
    · rfl

theorem tl_word (p : P) (w : Word) (hne : w.parts ≠ []) : (p.word w).tl = p.tl ++ [(.other, (p.preWord w).cur)] := by
  unfold P.word P.wordParts
  cases hw : w.parts with
  | nil => exact absurd hw hne
  | cons wp r =>
    simp only
    rw [wordPartsLoop_eq]
    have e : p.preWord w = (if (!p.o.singleLine && decide (wp.pos.line > p.line)) = true then p.bslashNewl else p) := by
      unfold P.preWord; rw [hw]
    rw [← e]
    show P.tl { (p.preWord w) with out := .word (wp :: r) :: (p.preWord w).out, line := _, wantSpace := _ } = _
    rw [tl_push (p.preWord w) _ (.word (wp :: r)) rfl, tl_preWord]
    simp [pinfo]

theorem tl_joinStep (p : P) (any : Bool) (pos : Pos) : (p.joinStep any pos).1.tl = p.tl := by
  unfold P.joinStep
  split
  · show (P.bslashNewl _).tl = _
    rw [tl_bslashNewl]
    split
    · exact tl_incLevel p
    · rfl
  · rfl

def argsD (p : P) (any : Bool) : List Word → List (TK × Nat)
  | [] => []
  | w :: rest =>
    match w.pos? with
    | none => []
    | some pos =>
      (.other, ((p.joinStep any pos).1.spacePad.preWord w).cur) ::
        argsD ((p.joinStep any pos).1.spacePad.word w) (p.joinStep any pos).2 rest

def wordsOK (ws : List Word) : Prop := ∀ w ∈ ws, w.parts ≠ []

theorem pos_of_parts {w : Word} (h : w.parts ≠ []) : ∃ pos, w.pos? = some pos := by
  cases hw : w.parts with
  | nil => exact absurd hw h
  | cons wp r => exact ⟨wp.pos, by simp [Word.pos?, hw]⟩

theorem tl_wordJoinLoop : ∀ (ws : List Word) (p : P) (any : Bool), wordsOK ws →
    (p.wordJoinLoop any ws).1.tl = p.tl ++ argsD p any ws
  | [], p, any, _ => by simp [P.wordJoinLoop, argsD]
  | w :: rest, p, any, h => by
    have hw := h w (by simp)
    obtain ⟨pos, hp⟩ := pos_of_parts hw
    rw [wordJoinLoop_cons p any w rest pos hp, tl_wordJoinLoop rest _ _ (fun x hx => h x (by simp [hx]))]
    rw [tl_word _ _ hw, tl_spacePad, tl_joinStep]
    simp [argsD, hp]

theorem tl_wordJoin (ws : List Word) (p : P) (h : wordsOK ws) : (p.wordJoin ws).tl = p.tl ++ argsD p false ws := by
  unfold P.wordJoin
  simp only
  split
  · rw [tl_decLevel]; exact tl_wordJoinLoop ws p false h
  · exact tl_wordJoinLoop ws p false h

def callD (p : P) : List Word → List (TK × Nat)
  | [] => []
  | w :: rest =>
    match w.pos? with
    | none => []
    | some pos =>
      argsD ((p.advanceLine pos.line).spacePad.incLevel.decLevel) false [w] ++
        argsD (((p.advanceLine pos.line).spacePad.incLevel.decLevel).wordJoin [w]) false rest

theorem tl_call (p : P) (args : List Word) (h : wordsOK args) (hne : args ≠ []) :
    (p.command (.call args)).tl = p.tl ++ callD p args := by
  cases args with
  | nil => exact absurd rfl hne
  | cons w rest =>
    obtain ⟨pos, hp⟩ := pos_of_parts (h w (by simp))
    rw [command_call p w rest pos hp]
    rw [tl_wordJoin rest _ (fun x hx => h x (by simp [hx])), tl_wordJoin [w] _ (fun x hx => h x (by simp only [List.mem_singleton] at hx; simp [hx]))]
    rw [tl_decLevel, tl_incLevel, tl_spacePad, tl_advanceLine]
    simp [callD, hp, List.append_assoc]

def semiD (p : P) (semi : Pos) (bg : Bool) : List (TK × Nat) :=
  if (semi.valid && decide (semi.line > p.line)) = true then [((if bg then TK.amp else TK.semi), p.cur + 1)]
  else if bg = true then [(TK.amp, p.cur)] else []

theorem tl_stmtPre (p : P) (neg : Bool) : (p.stmtPre neg).tl = p.tl ++ (if neg then [(TK.other, p.cur)] else []) := by
  unfold P.stmtPre
  cases neg
  · simp; rfl
  · simp only [↓reduceIte]
    rw [tl_spacedString]
    rfl

theorem tl_stmtEnd (p : P) (semi : Pos) (bg : Bool) (hsl : p.o.singleLine = false) :
    (p.stmtEnd semi bg).tl = p.tl ++ semiD p semi bg := by
  unfold P.stmtEnd
  simp only
  rw [tl_decLevel]
  have hl : p.incLevel.line = p.line := incLevel_line p
  have ho : p.incLevel.o = p.o := incLevel_o p
  have hc : p.incLevel.cur = p.cur := cur_incLevel p
  have ht : p.incLevel.tl = p.tl := tl_incLevel p
  generalize p.incLevel = p1 at hl ho hc ht
  simp only [ho, hsl, Bool.not_false, Bool.and_true, hl]
  unfold semiD
  by_cases c : (semi.valid && decide (semi.line > p.line)) = true
  · simp only [c, Bool.true_or, ↓reduceIte]
    cases bg
    · show (P.tok _ [59]).tl = _
      rw [tl_tok, tl_bslashNewl, cur_bslashNewl, ht, hc]; rfl
    · show (P.tok _ [38]).tl = _
      rw [tl_tok, tl_bslashNewl, cur_bslashNewl, ht, hc]; rfl
  · have c' : (semi.valid && decide (semi.line > p.line)) = false := by simpa using c
    simp only [c', Bool.false_or, Bool.false_eq_true, ↓reduceIte]
    cases bg
    · simp only [Bool.false_eq_true, ↓reduceIte, List.append_nil]
      exact ht
    · simp only [↓reduceIte]
      show (P.tok _ [38]).tl = _
      rw [tl_tok]
      split
      · rw [tl_space, cur_space, ht, hc]; rfl
      · rw [ht, hc]; rfl

theorem tkOfOp_opstr (op : BinOp) : tkOfOp op.str = .other := by cases op <;> decide

/-- the line on which the operator of a binary command is written -/
def opLine (p : P) (yLine : Nat) : Nat :=
  if (p.o.minify || p.o.singleLine || decide (yLine ≤ p.line)) = true then p.cur
  else if p.o.binNextLine then p.cur + 1 else p.cur

theorem tl_newline (p : P) (l : Nat) : (p.newline l).tl = p.tl := tl_gapw p [10]

theorem tl_opMulti (p : P) (opPos : Pos) (s : Bytes) (yLine : Nat) :
    (p.opMulti opPos s yLine).tl = p.tl ++ [(tkOfOp s, if p.o.binNextLine then p.cur + 1 else p.cur)] := by
  unfold P.opMulti
  rw [tl_advanceLine]
  split
  · rw [tl_spacedToken, tl_bslashNewl, cur_bslashNewl]
  · rw [tl_indent, tl_newline, tl_advanceLine, tl_spacedToken]

theorem tl_binaryOp (p : P) (opPos : Pos) (op : BinOp) (yLine : Nat) (yb : Bool) :
    (p.binaryOp opPos op yLine yb).1.tl = p.tl ++ [(.other, opLine p yLine)] := by
  rw [binaryOp_eq]
  unfold opLine
  split
  · show ((p.spacedToken op.str).advanceLine yLine).tl = _
    rw [tl_advanceLine, tl_spacedToken, tkOfOp_opstr]
  · show (P.opMulti _ opPos op.str yLine).tl = _
    rw [tl_opMulti, tkOfOp_opstr]
    cases p.nestedBinary
    · simp only [Bool.not_false, ↓reduceIte, tl_incLevel, cur_incLevel, incLevel_o]
    · simp only [Bool.not_true, Bool.false_eq_true, ↓reduceIte]

theorem tl_binaryEnd (p : P) (i m : Bool) : (p.binaryEnd i m).tl = p.tl := by
  unfold P.binaryEnd
  cases m
  · rfl
  · cases i
    · rfl
    · exact tl_decLevel p

theorem tl_nl (p : P) : p.nl.tl = p.tl := tl_gapw p [10]

theorem tl_newlines (p : P) (l : Nat) : (p.newlines l).tl = p.tl := by
  rw [newlines_eq]
  split
  · rfl
  · split
    · rfl
    · rw [tl_indent, tl_advanceLine]
      split
      · rw [tl_gapw, tl_nl]
      · exact tl_nl p

theorem tl_stmtSep (p : P) (first : Bool) (l : Nat) (hsl : p.o.singleLine = false) : (p.stmtSep first l).tl = p.tl := by
  unfold P.stmtSep
  simp only [hsl, Bool.false_and, Bool.and_false, Bool.false_eq_true, ↓reduceIte]
  rw [tl_advanceLine]
  split
  · exact tl_newlines p l
  · rfl

/-! ## No printer step changes the options -/

theorem indent_o (p : P) : p.indent.o = p.o := by
  unfold P.indent
  split
  · rfl
  · simp only
    split
    · rfl
    · split <;> rfl
theorem bslashNewl_o (p : P) : p.bslashNewl.o = p.o := by
  unfold P.bslashNewl
  simp only
  rw [indent_o]
  show (P.gapw _ [92, 10]).o = _
  split <;> rfl
theorem spacedString_o (p : P) (s : Bytes) : (p.spacedString s).o = p.o := spacePad_o p
theorem spacedToken_o (p : P) (s : Bytes) : (p.spacedToken s).o = p.o := by
  unfold P.spacedToken
  split
  · rfl
  · exact spacePad_o p
theorem word_o (p : P) (w : Word) : (p.word w).o = p.o := by
  unfold P.word P.wordParts
  split
  · rfl
  · rw [wordPartsLoop_eq]
    simp only
    split
    · exact bslashNewl_o p
    · rfl
theorem joinStep_o (p : P) (any : Bool) (pos : Pos) : (p.joinStep any pos).1.o = p.o := by
  unfold P.joinStep
  split
  · show (P.bslashNewl _).o = _
    rw [bslashNewl_o]
    split
    · exact incLevel_o p
    · rfl
  · rfl
theorem wordJoinLoop_o : ∀ (ws : List Word) (p : P) (any : Bool), (p.wordJoinLoop any ws).1.o = p.o
  | [], p, any => by simp [P.wordJoinLoop]
  | w :: rest, p, any => by
    cases hp : w.pos? with
    | none => rw [P.wordJoinLoop]; simp only [hp]; rfl
    | some pos =>
      rw [wordJoinLoop_cons p any w rest pos hp, wordJoinLoop_o rest, word_o, spacePad_o, joinStep_o]
theorem wordJoin_o (ws : List Word) (p : P) : (p.wordJoin ws).o = p.o := by
  unfold P.wordJoin
  simp only
  split
  · rw [decLevel_o]; exact wordJoinLoop_o ws p false
  · exact wordJoinLoop_o ws p false
theorem newlines_o (p : P) (l : Nat) : (p.newlines l).o = p.o := by
  rw [newlines_eq]
  split
  · rfl
  · split
    · rfl
    · rw [indent_o]
      show (if _ then _ else _ : P).o = _
      split <;> rfl
theorem stmtSep_o (p : P) (first : Bool) (l : Nat) : (p.stmtSep first l).o = p.o := by
  have h1 : ∀ q : P, (if (q.mustNewline || !q.o.minify || decide (q.wantSpace = .required)) = true
      then q.newlines l else q).o = q.o := by
    intro q
    split
    · exact newlines_o q l
    · rfl
  unfold P.stmtSep
  simp only
  show (if _ then _ else _ : P).o = _
  rw [h1]
  split <;> rfl
theorem stmtPre_o (p : P) (neg : Bool) : (p.stmtPre neg).o = p.o := by
  unfold P.stmtPre
  cases neg
  · rfl
  · exact spacedString_o _ _
theorem stmtEnd_o (p : P) (semi : Pos) (bg : Bool) : (p.stmtEnd semi bg).o = p.o := by
  unfold P.stmtEnd
  simp only
  rw [decLevel_o]
  split
  · show (if bg = true then P.tok _ [38] else P.tok _ [59] : P).o = _
    have : ∀ q : P, (if bg = true then q.tok [38] else q.tok [59]).o = q.o := by intro q; split <;> rfl
    rw [this]
    split
    · rw [bslashNewl_o, incLevel_o]
    · split
      · exact incLevel_o p
      · exact incLevel_o p
  · exact incLevel_o p
theorem opMulti_o (p : P) (opPos : Pos) (s : Bytes) (y : Nat) : (p.opMulti opPos s y).o = p.o := by
  unfold P.opMulti
  show (if _ then _ else _ : P).o = _
  split
  · rw [spacedToken_o, bslashNewl_o]
  · rw [indent_o]
    exact spacedToken_o p s
theorem binaryOp_o (p : P) (opPos : Pos) (op : BinOp) (y : Nat) (yb : Bool) : (p.binaryOp opPos op y yb).1.o = p.o := by
  rw [binaryOp_eq]
  split
  · exact spacedToken_o p _
  · show (P.opMulti _ opPos op.str y).o = _
    rw [opMulti_o]
    split
    · exact incLevel_o p
    · rfl
theorem binaryEnd_o (p : P) (i m : Bool) : (p.binaryEnd i m).o = p.o := by
  unfold P.binaryEnd
  cases m
  · rfl
  · cases i
    · rfl
    · exact decLevel_o p

mutual
theorem stmt_o : ∀ (s : Stmt) (p : P), s.lin = true → (p.stmt s).o = p.o
  | .mk _ semi neg bg cmd, p, h => by
    rw [P.stmt, stmtEnd_o, command_o cmd _ (by simpa [Stmt.lin] using h), stmtPre_o]
theorem command_o : ∀ (c : Cmd) (p : P), c.lin = true → (p.command c).o = p.o
  | .call args, p, _ => by
    cases args with
    | nil => simp [P.command, P.panic]
    | cons w rest =>
      cases hp : w.pos? with
      | none => simp [P.command, hp, P.panic]
      | some pos =>
        rw [command_call p w rest pos hp, wordJoin_o, wordJoin_o, decLevel_o, incLevel_o, spacePad_o]; rfl
  | .binary opPos op x y, p, h => by
    simp only [Cmd.lin, Bool.and_eq_true] at h
    rw [P.command, binaryEnd_o, stmt_o y _ h.2, binaryOp_o, stmt_o x _ h.1, spacePad_o]; rfl
  | .subshell _ _ _, _, h => by simp [Cmd.lin] at h
  | .block _ _ _, _, h => by simp [Cmd.lin] at h
end

/-! ## The tokens of a statement, a command, a list -/

mutual
def stmtD (p : P) : Stmt → List (TK × Nat)
  | .mk _ semi neg bg cmd =>
    (if neg then [(TK.other, p.cur)] else []) ++
      (cmdD (p.stmtPre neg) cmd ++ semiD ((p.stmtPre neg).command cmd) semi bg)
def cmdD (p : P) : Cmd → List (TK × Nat)
  | .call args => callD p args
  | .binary opPos op x y =>
    stmtD ((p.advanceLine x.pos.line).spacePad) x ++
      ((TK.other, opLine (((p.advanceLine x.pos.line).spacePad).stmt x) y.pos.line) ::
        stmtD ((((p.advanceLine x.pos.line).spacePad).stmt x).binaryOp opPos op y.pos.line y.isBinaryCmd).1 y)
  | .subshell _ _ _ => []
  | .block _ _ _ => []
end

theorem call_wordsOK {args : List Word} (h : (Cmd.call args).wf = true) : wordsOK args ∧ args ≠ [] := by
  cases args with
  | nil => simp [Cmd.wf] at h
  | cons w rest =>
    simp only [Cmd.wf, Bool.and_eq_true, List.all_eq_true] at h
    refine ⟨fun x hx => ?_, by simp⟩
    have := h.1 x hx
    simp only [Word.wf, Bool.and_eq_true, Bool.not_eq_true', List.isEmpty_eq_false_iff] at this
    exact this.1

mutual
theorem tl_stmt : ∀ (s : Stmt) (p : P), s.wf = true → s.lin = true → p.o.singleLine = false →
    (p.stmt s).tl = p.tl ++ stmtD p s
  | .mk _ semi neg bg cmd, p, hwf, hlin, hsl => by
    have hcw : cmd.wf = true := by
      simp only [Stmt.wf, Bool.and_eq_true] at hwf; exact hwf.1
    have hcl : cmd.lin = true := by simpa [Stmt.lin] using hlin
    have hsl1 : (p.stmtPre neg).o.singleLine = false := by rw [stmtPre_o]; exact hsl
    rw [P.stmt, tl_stmtEnd _ _ _ (by rw [command_o cmd _ hcl]; exact hsl1), tl_cmd cmd _ hcw hcl hsl1, tl_stmtPre]
    simp only [stmtD, List.append_assoc]
theorem tl_cmd : ∀ (c : Cmd) (p : P), c.wf = true → c.lin = true → p.o.singleLine = false →
    (p.command c).tl = p.tl ++ cmdD p c
  | .call args, p, hwf, _, _ => by
    obtain ⟨h1, h2⟩ := call_wordsOK hwf
    rw [tl_call p args h1 h2]
    simp only [cmdD]
  | .binary opPos op x y, p, hwf, hlin, hsl => by
    simp only [Cmd.lin, Bool.and_eq_true] at hlin
    have hxw : x.wf = true := by simp only [Cmd.wf, Bool.and_eq_true] at hwf; exact hwf.1.1.1.1
    have hyw : y.wf = true := by simp only [Cmd.wf, Bool.and_eq_true] at hwf; exact hwf.1.1.1.2
    have hsl0 : ((p.advanceLine x.pos.line).spacePad).o.singleLine = false := by rw [spacePad_o]; exact hsl
    have hsl1 : (((p.advanceLine x.pos.line).spacePad).stmt x).o.singleLine = false := by
      rw [stmt_o x _ hlin.1]; exact hsl0
    rw [P.command, tl_binaryEnd, tl_stmt y _ hyw hlin.2 (by rw [binaryOp_o]; exact hsl1), tl_binaryOp,
      tl_stmt x _ hxw hlin.1 hsl0, tl_spacePad, tl_advanceLine]
    simp only [cmdD, List.append_assoc, List.singleton_append]
  | .subshell _ _ _, _, _, h, _ => by simp [Cmd.lin] at h
  | .block _ _ _, _, _, h, _ => by simp [Cmd.lin] at h
end

def loopD (p : P) (first : Bool) : Stmts → List (TK × Nat)
  | .nil => []
  | .cons s rest =>
    stmtD (p.stmtSep first s.pos.line) s ++
      loopD { ((p.stmtSep first s.pos.line).stmt s) with wantNewline := true } false rest

theorem tl_loop : ∀ (ss : Stmts) (p : P) (first : Bool), ss.wf = true → ss.lin = true → p.o.singleLine = false →
    (p.stmtListLoop first ss).tl = p.tl ++ loopD p first ss
  | .nil, p, first, _, _, _ => by simp [P.stmtListLoop, loopD]
  | .cons s rest, p, first, hwf, hlin, hsl => by
    obtain ⟨hs, hr⟩ := Stmts.wf_cons hwf
    simp only [Stmts.lin, Bool.and_eq_true] at hlin
    have hsl1 : (p.stmtSep first s.pos.line).o.singleLine = false := by rw [stmtSep_o]; exact hsl
    rw [P.stmtListLoop, tl_loop rest _ false hr hlin.2 (by
      show ((p.stmtSep first s.pos.line).stmt s).o.singleLine = false
      rw [stmt_o s _ hlin.1]; exact hsl1)]
    show ((p.stmtSep first s.pos.line).stmt s).tl ++ _ = _
    rw [tl_stmt s _ hs hlin.1 hsl1, tl_stmtSep _ _ _ hsl]
    simp only [loopD, List.append_assoc]

/-! ## The walk: from token lines to transcripts -/

theorem safe_ne_bs' : ∀ b : UInt8, isSafe b = true → (b != 92) = true := by
  apply u8_forall; decide +kernel

theorem normParts_plain' : ∀ parts : List WordPart, (∀ p ∈ parts, p.wf = true) →
    (normParts parts).all NPart.plain = true
  | [], _ => rfl
  | .sgl l r v :: rest, h => by
    have ih := normParts_plain' rest (fun p hp => h p (by simp [hp]))
    simp only [normParts, List.all_cons, NPart.plain, Bool.true_and]
    exact ih
  | .lit a e v :: rest, h => by
    have ih := normParts_plain' rest (fun p hp => h p (by simp [hp]))
    have hv : v.all (· != 92) = true := by
      have := h (.lit a e v) (by simp)
      simp only [WordPart.wf, Bool.and_eq_true, List.all_eq_true] at this
      exact List.all_eq_true.mpr (fun b hb => safe_ne_bs' b (this.2 b hb))
    simp only [normParts]
    split
    · rename_i v' r hr
      rw [hr] at ih
      simp only [List.all_cons, NPart.plain, Bool.and_eq_true] at ih
      simp only [List.all_cons, NPart.plain, List.all_append, Bool.and_eq_true]
      exact ⟨⟨hv, ih.1⟩, ih.2⟩
    · simp only [List.all_cons, NPart.plain, Bool.and_eq_true]
      exact ⟨hv, ih⟩

theorem wordBytes_of_norm {w w' : Word} (hw : w.wf = true) (hw' : w'.wf = true) (hn : w'.norm = w.norm) :
    wordBytes w'.parts = wordBytes w.parts := by
  rw [wordBytes_norm _ (normParts_plain' _ (Word.wf_parts hw')), wordBytes_norm _ (normParts_plain' _ (Word.wf_parts hw))]
  unfold Word.norm at hn
  rw [hn]

/-- the line and kind of a word of the re-read tree -/
def wline (w : Word) : TK × Nat := (.other, ((w.pos?).getD Pos.zero).line)

/-- what the lexer guarantees about a word of the re-read tree -/
def wok3 (w : Word) : Prop := partsMax w.parts = ((w.pos?).getD Pos.zero).line + nls (wordBytes w.parts)

theorem wf_ne {w : Word} (h : w.wf = true) : w.parts ≠ [] := by
  intro e
  simp [Word.wf, e] at h

theorem glue_word (p : P) (w w' : Word) (hw : w.wf = true) (hw' : w'.wf = true) (hn : w'.norm = w.norm)
    (h3 : wok3 w') (hl : wline w' = (.other, (p.preWord w).cur)) : TrWord p w w' := by
  have hb := wordBytes_of_norm hw hw' hn
  have hl' : ((w'.pos?).getD Pos.zero).line = (p.preWord w).cur := by
    simpa [wline] using hl
  refine ⟨wf_ne hw, hb, ?_, ?_⟩
  · cases hp : w'.parts with
    | nil => exact absurd hp (wf_ne hw')
    | cons wp' r =>
      refine ⟨wp', r, rfl, ?_⟩
      rw [← hl']
      simp [Word.pos?, hp]
  · unfold wok3 at h3
    rw [h3, hl', hb]

theorem glue_args : ∀ (ws ws' : List Word) (p : P) (any : Bool), (∀ w ∈ ws, w.wf = true) →
    (∀ w ∈ ws', w.wf = true ∧ wok3 w) → ws'.map Word.norm = ws.map Word.norm →
    ws'.map wline = argsD p any ws → TrArgs p any ws ws'
  | [], [], _, _, _, _, _, _ => by simp [TrArgs]
  | [], _ :: _, _, _, _, _, hn, _ => by simp at hn
  | _ :: _, [], _, _, _, _, hn, _ => by simp at hn
  | w :: rest, w' :: rest', p, any, hw, hw', hn, hd => by
    simp only [List.map_cons, List.cons.injEq] at hn
    have hwf := hw w (by simp)
    obtain ⟨pos, hp⟩ := pos_of_parts (wf_ne hwf)
    simp only [argsD, hp, List.map_cons, List.cons.injEq] at hd
    simp only [TrArgs]
    refine ⟨pos, hp, ?_, ?_⟩
    · exact glue_word _ w w' hwf (hw' w' (by simp)).1 hn.1 (hw' w' (by simp)).2 hd.1
    · exact glue_args rest rest' _ _ (fun x hx => hw x (by simp [hx])) (fun x hx => hw' x (by simp [hx])) hn.2 hd.2

theorem argsD_length : ∀ (ws : List Word) (p : P) (any : Bool), wordsOK ws → (argsD p any ws).length = ws.length
  | [], _, _, _ => rfl
  | w :: rest, p, any, h => by
    obtain ⟨pos, hp⟩ := pos_of_parts (h w (by simp))
    simp only [argsD, hp, List.length_cons]
    rw [argsD_length rest _ _ (fun x hx => h x (by simp [hx]))]

theorem glue_call (p : P) (args args' : List Word) (K K' : List (TK × Nat)) (hwf : (Cmd.call args).wf = true)
    (hwf' : (Cmd.call args').wf = true) (h3 : ∀ w ∈ args', wok3 w)
    (hn : args'.map Word.norm = args.map Word.norm)
    (hd : args'.map wline ++ K' = callD p args ++ K) : TrCall p args args' ∧ K' = K := by
  obtain ⟨ho, hne⟩ := call_wordsOK hwf
  obtain ⟨ho', _⟩ := call_wordsOK hwf'
  have hallwf : ∀ w ∈ args, w.wf = true := by
    cases args with
    | nil => exact absurd rfl hne
    | cons a r =>
      simp only [Cmd.wf, Bool.and_eq_true, List.all_eq_true] at hwf
      exact hwf.1
  have hallwf' : ∀ w ∈ args', w.wf = true ∧ wok3 w := by
    intro w hw
    refine ⟨?_, h3 w hw⟩
    cases args' with
    | nil => cases hw
    | cons a r =>
      simp only [Cmd.wf, Bool.and_eq_true, List.all_eq_true] at hwf'
      exact hwf'.1 w hw
  cases args with
  | nil => exact absurd rfl hne
  | cons w rest =>
    cases args' with
    | nil => simp at hn
    | cons w' rest' =>
      obtain ⟨pos, hp⟩ := pos_of_parts (ho w (by simp))
      simp only [callD, hp] at hd
      have hlen : rest'.length = rest.length := by
        have := congrArg List.length hn
        simpa using this
      have horest : wordsOK rest := fun x hx => ho x (by simp [hx])
      have ho1 : wordsOK [w] := fun x hx => ho x (by simp only [List.mem_singleton] at hx; simp [hx])
      -- split the token list: the first word, the other words, the continuation
      have e1 : (List.map wline (w' :: rest') ++ K') = ([wline w'] ++ (rest'.map wline ++ K')) := by simp
      rw [e1, List.append_assoc] at hd
      obtain ⟨d1, d2⟩ := List.append_inj hd (by rw [argsD_length _ _ _ ho1]; rfl)
      obtain ⟨d3, d4⟩ := List.append_inj d2 (by rw [argsD_length _ _ _ horest, List.length_map, hlen])
      simp only [List.map_cons, List.cons.injEq] at hn
      refine ⟨?_, d4⟩
      simp only [TrCall]
      refine ⟨pos, hp, ?_, ?_⟩
      · exact glue_args [w] [w'] _ false (fun x hx => hallwf x (by simp only [List.mem_singleton] at hx; simp [hx]))
          (fun x hx => hallwf' x (by simp only [List.mem_singleton] at hx; simp [hx])) (by simp [hn.1]) (by simpa using d1)
      · exact glue_args rest rest' _ false (fun x hx => hallwf x (by simp [hx])) (fun x hx => hallwf' x (by simp [hx])) hn.2 d3

/-- the first word of a call is never moved to a continuation line -/
theorem first_word (p : P) (w : Word) (pos : Pos) (hp : w.pos? = some pos) :
    argsD ((p.advanceLine pos.line).spacePad.incLevel.decLevel) false [w] = [(.other, p.cur)] := by
  have hline : ((p.advanceLine pos.line).spacePad.incLevel.decLevel).line = max p.line pos.line := by
    rw [decLevel_line, incLevel_line, spacePad_line]; rfl
  have hcur : ((p.advanceLine pos.line).spacePad.incLevel.decLevel).cur = p.cur := by
    rw [cur_decLevel, cur_incLevel, cur_spacePad]; rfl
  have hj : ((p.advanceLine pos.line).spacePad.incLevel.decLevel).joinStep false pos =
      ((p.advanceLine pos.line).spacePad.incLevel.decLevel, false) := by
    unfold P.joinStep
    rw [hline]
    have : ¬ pos.line > max p.line pos.line := by omega
    simp [this]
  have hpw : (((p.advanceLine pos.line).spacePad.incLevel.decLevel).spacePad.preWord w).cur = p.cur := by
    unfold P.preWord
    cases hw : w.parts with
    | nil => simp [Word.pos?, hw] at hp
    | cons wp r =>
      have : wp.pos = pos := by simpa [Word.pos?, hw] using hp
      simp only [spacePad_line, hline, this]
      have : ¬ pos.line > max p.line pos.line := by omega
      simp only [this, decide_false, Bool.and_false, Bool.false_eq_true, ↓reduceIte, cur_spacePad, hcur]
  simp only [argsD, hp, hj, hpw]

theorem cur_stmtPre (p : P) (neg : Bool) : (p.stmtPre neg).cur = p.cur := by
  unfold P.stmtPre
  cases neg
  · rfl
  · show (P.tok _ [33]).cur = _
    rw [cur_tok, cur_spacePad]; rfl

mutual
theorem stmtD_head : ∀ (s : Stmt) (p : P), s.wf = true → s.lin = true → ∃ rest, stmtD p s = (TK.other, p.cur) :: rest
  | .mk _ semi neg bg cmd, p, hwf, hlin => by
    have hcw : cmd.wf = true := by
      simp only [Stmt.wf, Bool.and_eq_true] at hwf; exact hwf.1
    have hcl : cmd.lin = true := by simpa [Stmt.lin] using hlin
    cases neg with
    | true => exact ⟨_, by simp only [stmtD, ↓reduceIte, List.singleton_append]; rfl⟩
    | false =>
      obtain ⟨r, e⟩ := cmdD_head cmd (p.stmtPre false) hcw hcl
      exact ⟨_, by simp only [stmtD, Bool.false_eq_true, ↓reduceIte, List.nil_append, e, List.cons_append]; rw [cur_stmtPre]⟩
theorem cmdD_head : ∀ (c : Cmd) (p : P), c.wf = true → c.lin = true → ∃ rest, cmdD p c = (TK.other, p.cur) :: rest
  | .call args, p, hwf, _ => by
    obtain ⟨ho, hne⟩ := call_wordsOK hwf
    cases args with
    | nil => exact absurd rfl hne
    | cons w rest =>
      obtain ⟨pos, hp⟩ := pos_of_parts (ho w (by simp))
      exact ⟨_, by simp only [cmdD, callD, hp, first_word p w pos hp, List.singleton_append]; rfl⟩
  | .binary opPos op x y, p, hwf, hlin => by
    simp only [Cmd.lin, Bool.and_eq_true] at hlin
    have hxw : x.wf = true := by simp only [Cmd.wf, Bool.and_eq_true] at hwf; exact hwf.1.1.1.1
    obtain ⟨r, e⟩ := stmtD_head x ((p.advanceLine x.pos.line).spacePad) hxw hlin.1
    exact ⟨_, by simp only [cmdD, e, List.cons_append]; rw [cur_spacePad]; rfl⟩
  | .subshell _ _ _, _, _, h => by simp [Cmd.lin] at h
  | .block _ _ _, _, _, h => by simp [Cmd.lin] at h
end

/-- the head of a token list is not `;` or `&` -/
def NoSA (K : List (TK × Nat)) : Prop := ∀ x rest, K = x :: rest → x.1 = .other

/-- the terminator of the re-read statement -/
def semiToks (semi' : Pos) (bg : Bool) : List TokPos :=
  if semi'.valid then [((if bg then Tok.amp else Tok.semi), semi')] else []

theorem semi_glue (p : P) (semi semi' : Pos) (bg : Bool) (K K' : List (TK × Nat))
    (hd : (semiToks semi' bg).map tinfo ++ K' = semiD p semi bg ++ K)
    (hs : (NoSA K ∧ NoSA K') ∨ ((bg = false ∧ semi.valid = false) ∧ semi'.valid = false)) :
    TrSemiS p semi bg semi' ∧ K' = K := by
  rcases hs with ⟨hK, hK'⟩ | ⟨⟨hb, hv⟩, hv'⟩
  · unfold semiD at hd
    unfold semiToks at hd
    by_cases c : (semi.valid && decide (semi.line > p.line)) = true
    · simp only [c, ↓reduceIte] at hd
      cases hv' : semi'.valid with
      | true =>
        simp only [hv', ↓reduceIte, List.map_cons, List.map_nil, List.cons_append, List.nil_append, List.cons.injEq] at hd
        have hl : semi'.line = p.cur + 1 := by
          have := congrArg Prod.snd hd.1
          simpa [tinfo] using this
        refine ⟨⟨by rw [c, hv']; simp, fun _ _ => hl, fun hn _ => ?_⟩, hd.2⟩
        exfalso
        simp only [Bool.and_eq_true, decide_eq_true_eq] at c
        exact hn c
      | false =>
        simp only [hv', Bool.false_eq_true, ↓reduceIte, List.map_nil, List.nil_append, List.cons_append] at hd
        exfalso
        have := hK' _ _ hd
        cases bg <;> simp at this
    · have c' : (semi.valid && decide (semi.line > p.line)) = false := by simpa using c
      have hnc : ¬ (semi.valid = true ∧ semi.line > p.line) := by
        intro hh
        apply c
        simp [hh.1, hh.2]
      simp only [c', Bool.false_eq_true, ↓reduceIte] at hd
      cases bg with
      | true =>
        simp only [↓reduceIte] at hd
        cases hv' : semi'.valid with
        | true =>
          simp only [hv', ↓reduceIte, List.map_cons, List.map_nil, List.cons_append, List.nil_append, List.cons.injEq] at hd
          have hl : semi'.line = p.cur := by
            have := congrArg Prod.snd hd.1
            simpa [tinfo] using this
          exact ⟨⟨by rw [c', hv']; simp, fun h1 h2 => absurd ⟨h1, h2⟩ hnc, fun _ _ => hl⟩, hd.2⟩
        | false =>
          simp only [hv', Bool.false_eq_true, ↓reduceIte, List.map_nil, List.nil_append, List.cons_append] at hd
          exfalso
          have := hK' _ _ hd
          simp at this
      | false =>
        simp only [Bool.false_eq_true, ↓reduceIte, List.nil_append] at hd
        cases hv' : semi'.valid with
        | true =>
          simp only [hv', ↓reduceIte, List.map_cons, List.map_nil, List.cons_append, List.nil_append] at hd
          exfalso
          have := hK _ _ hd.symm
          simp [tinfo, tkOf] at this
        | false =>
          simp only [hv', Bool.false_eq_true, ↓reduceIte, List.map_nil, List.nil_append] at hd
          exact ⟨⟨by rw [c', hv']; simp, fun h1 h2 => absurd ⟨h1, h2⟩ hnc, fun _ hb => by cases hb⟩, hd⟩
  · subst hb
    have e1 : semiD p semi false = [] := by simp [semiD, hv]
    have e2 : semiToks semi' false = [] := by simp [semiToks, hv']
    rw [e1, e2] at hd
    simp only [List.map_nil, List.nil_append] at hd
    exact ⟨⟨by simp [hv, hv'], (fun h1 _ => by rw [hv] at h1; cases h1), (fun _ hb => by cases hb)⟩, hd⟩

/-- what is known of a statement of the re-read tree -/
structure OKs (s' : Stmt) : Prop where
  wf : s'.wf = true
  ok3 : ∀ tp ∈ s'.ftoks, tp.1.ok3 tp.2
  sorted : Sorted s'.lines
structure OKc (c' : Cmd) : Prop where
  wf : c'.wf = true
  ok3 : ∀ tp ∈ c'.ftoks, tp.1.ok3 tp.2
  sorted : Sorted c'.lines

theorem OKs.cmd {pos semi : Pos} {neg bg : Bool} {cmd : Cmd} (h : OKs (.mk pos semi neg bg cmd)) : OKc cmd := by
  refine ⟨?_, ?_, ?_⟩
  · have := h.wf
    simp only [Stmt.wf, Bool.and_eq_true] at this
    exact this.1
  · intro tp htp
    exact h.ok3 tp (by simp [Stmt.ftoks, htp])
  · have := h.sorted
    unfold Sorted at this ⊢
    simp only [Stmt.lines] at this
    exact (List.pairwise_append.mp (List.pairwise_cons.mp this).2).1

theorem OKc.binary {opPos : Pos} {op : BinOp} {x y : Stmt} (h : OKc (.binary opPos op x y)) :
    OKs x ∧ OKs y ∧ opPos.line ≤ y.pos.line ∧ x.bare = true ∧ y.bare = true := by
  have hw := h.wf
  simp only [Cmd.wf, Bool.and_eq_true] at hw
  have hs := h.sorted
  unfold Sorted at hs
  simp only [Cmd.lines] at hs
  obtain ⟨s1, s2, _⟩ := List.pairwise_append.mp hs
  obtain ⟨s3, s4⟩ := List.pairwise_cons.mp s2
  obtain ⟨t, ht⟩ := Stmt.lines_cons y
  refine ⟨⟨hw.1.1.1.1, fun tp htp => h.ok3 tp (by simp [Cmd.ftoks, htp]), s1⟩,
    ⟨hw.1.1.1.2, fun tp htp => h.ok3 tp (by simp [Cmd.ftoks, htp]), s4⟩, ?_, hw.1.1.2, hw.1.2⟩
  exact s3 _ (by rw [ht]; simp)

theorem OKc.call {args : List Word} (h : OKc (.call args)) : ∀ w ∈ args, wok3 w := by
  intro w hw
  have := h.ok3 (Tok.word w (litWord? w.parts), (w.pos?).getD Pos.zero) (by
    simp only [Cmd.ftoks, List.mem_map]
    exact ⟨w, hw, rfl⟩)
  exact this

theorem call_tinfo (args : List Word) : (Cmd.call args).ftoks.map tinfo = args.map wline := by
  simp [Cmd.ftoks, tinfo, tkOf, wline, Function.comp_def]

theorem bare_facts {pos semi : Pos} {neg bg : Bool} {cmd : Cmd} (h : (Stmt.mk pos semi neg bg cmd).bare = true) :
    bg = false ∧ semi.valid = false := by
  simpa [Stmt.bare, Stmt.bg, Stmt.semi] using h

/-- the context of the command of a statement -/
def ctxCmd (ctx : Option Pos) (neg : Bool) (pos : Pos) : Option Pos :=
  match ctx with
  | none => if neg then some pos else none
  | some bp => some bp

mutual
theorem glue_stmt : ∀ (s s' : Stmt) (p : P) (ctx : Option Pos) (K K' : List (TK × Nat)),
    s.wf = true → s.lin = true → p.o.singleLine = false → OKs s' → s'.norm = s.norm → s'.pk ctx →
    (∀ bp, ctx = some bp → bp.line = p.cur) →
    s'.ftoks.map tinfo ++ K' = stmtD p s ++ K →
    ((NoSA K ∧ NoSA K') ∨ (s.bare = true ∧ s'.bare = true)) →
    TrStmt p s s' ∧ K' = K
  | .mk pos semi neg bg cmd, .mk pos' semi' neg' bg' cmd', p, ctx, K, K', hwf, hlin, hsl, ok, hn, hpk, hctx, hd, hs => by
    simp only [Stmt.norm, NStmt.mk.injEq] at hn
    obtain ⟨rfl, rfl, hnc⟩ := hn
    have hcw : cmd.wf = true := by
      simp only [Stmt.wf, Bool.and_eq_true] at hwf; exact hwf.1
    have hcl : cmd.lin = true := by simpa [Stmt.lin] using hlin
    simp only [Stmt.pk] at hpk
    have hsl1 : (p.stmtPre neg').o.singleLine = false := by rw [stmtPre_o]; exact hsl
    have hc1 : (p.stmtPre neg').cur = p.cur := cur_stmtPre p neg'
    -- the position of the statement and the tokens after the optional `!`
    have key : pos'.line = p.cur ∧
        cmd'.ftoks.map tinfo ++ ((semiToks semi' bg').map tinfo ++ K') =
          cmdD (p.stmtPre neg') cmd ++ (semiD ((p.stmtPre neg').command cmd) semi bg' ++ K) := by
      simp only [Stmt.ftoks, stmtD] at hd
      cases neg' with
      | true =>
        simp only [↓reduceIte, List.map_cons, List.cons_append, List.cons.injEq,
          List.map_append, List.append_assoc] at hd
        refine ⟨?_, hd.2⟩
        have := congrArg Prod.snd hd.1
        simpa [tinfo, rsrvTok] using this
      | false =>
        simp only [Bool.false_eq_true, ↓reduceIte, List.nil_append, List.map_append, List.append_assoc] at hd
        refine ⟨?_, hd⟩
        cases ctx with
        | some bp =>
          simp only at hpk
          rw [hpk.1.1]
          exact hctx bp rfl
        | none =>
          simp only at hpk
          obtain ⟨tp, r, e1, e2⟩ := hpk.1 trivial
          obtain ⟨r2, e3⟩ := cmdD_head cmd (p.stmtPre false) hcw hcl
          rw [e1, e3] at hd
          simp only [List.map_cons, List.cons_append, List.cons.injEq] at hd
          have := congrArg Prod.snd hd.1
          simp only [tinfo] at this
          rw [← e2, this, hc1]
    obtain ⟨hpos, hd2⟩ := key
    -- the command
    have hck : cmd'.pk (ctxCmd ctx neg' pos') := by
      cases ctx <;> exact hpk.2
    have hctx1 : ∀ bp, ctxCmd ctx neg' pos' = some bp → bp.line = (p.stmtPre neg').cur := by
      intro bp e
      rw [hc1]
      cases ctx with
      | none =>
        simp only [ctxCmd] at e
        split at e
        · simp only [Option.some.injEq] at e
          rw [← e]; exact hpos
        · cases e
      | some b2 =>
        simp only [ctxCmd, Option.some.injEq] at e
        rw [← e]; exact hctx b2 rfl
    obtain ⟨tc, hd3⟩ := glue_cmd cmd cmd' (p.stmtPre neg') _ _ _ hcw hcl hsl1 ok.cmd hnc hck hctx1 hd2
    -- the terminator
    have hs' : (NoSA K ∧ NoSA K') ∨ ((bg' = false ∧ semi.valid = false) ∧ semi'.valid = false) := by
      rcases hs with h1 | ⟨h1, h2⟩
      · exact Or.inl h1
      · exact Or.inr ⟨bare_facts h1, (bare_facts h2).2⟩
    obtain ⟨ts, hk⟩ := semi_glue _ semi semi' bg' K K' hd3 hs'
    refine ⟨?_, hk⟩
    simp only [TrStmt]
    exact ⟨trivial, trivial, hpos, tc, ts.weak⟩
theorem glue_cmd : ∀ (c c' : Cmd) (p : P) (ctxc : Option Pos) (K K' : List (TK × Nat)),
    c.wf = true → c.lin = true → p.o.singleLine = false → OKc c' → c'.norm = c.norm → c'.pk ctxc →
    (∀ bp, ctxc = some bp → bp.line = p.cur) →
    c'.ftoks.map tinfo ++ K' = cmdD p c ++ K → TrCmd p c c' ∧ K' = K
  | .call args, c', p, ctxc, K, K', hwf, _, _, ok, hn, _, _, hd => by
    cases c' with
    | call args' =>
      simp only [Cmd.norm, NCmd.call.injEq] at hn
      rw [call_tinfo] at hd
      simp only [cmdD] at hd
      obtain ⟨t, hk⟩ := glue_call p args args' K K' hwf ok.wf ok.call hn hd
      refine ⟨?_, hk⟩
      simp only [TrCmd]
      exact t
    | subshell _ _ _ => simp [Cmd.norm] at hn
    | block _ _ _ => simp [Cmd.norm] at hn
    | binary _ _ _ _ => simp [Cmd.norm] at hn
  | .binary opPos op x y, c', p, ctxc, K, K', hwf, hlin, hsl, ok, hn, hpk, hctx, hd => by
    cases c' with
    | call _ => simp [Cmd.norm] at hn
    | subshell _ _ _ => simp [Cmd.norm] at hn
    | block _ _ _ => simp [Cmd.norm] at hn
    | binary opPos' op' x' y' =>
      simp only [Cmd.norm, NCmd.binary.injEq] at hn
      obtain ⟨rfl, hnx, hny⟩ := hn
      simp only [Cmd.lin, Bool.and_eq_true] at hlin
      have hw := hwf
      simp only [Cmd.wf, Bool.and_eq_true] at hw
      obtain ⟨okx, oky, hop, hbx', hby'⟩ := ok.binary
      simp only [Cmd.pk] at hpk
      have hsl0 : ((p.advanceLine x.pos.line).spacePad).o.singleLine = false := by rw [spacePad_o]; exact hsl
      have hsl1 : (((p.advanceLine x.pos.line).spacePad).stmt x).o.singleLine = false := by
        rw [stmt_o x _ hlin.1]; exact hsl0
      have hc0 : ((p.advanceLine x.pos.line).spacePad).cur = p.cur := by rw [cur_spacePad]; rfl
      simp only [Cmd.ftoks, cmdD, List.map_append, List.map_cons, List.append_assoc, List.cons_append] at hd
      have hpkx : x'.pk (if op' = BinOp.pipe then ctxc else none) := by
        split
        · rename_i e; simpa [e] using hpk.1
        · rename_i e; simpa [e] using hpk.1
      obtain ⟨tx, hd2⟩ := glue_stmt x x' _ (if op' = BinOp.pipe then ctxc else none) _ _ hw.1.1.1.1 hlin.1 hsl0 okx hnx hpkx
        (by
          intro bp e
          rw [hc0]
          split at e
          · exact hctx bp e
          · cases e) hd (Or.inr ⟨hw.1.1.2, hbx'⟩)
      simp only [List.cons.injEq] at hd2
      obtain ⟨ty, hk⟩ := glue_stmt y y' _ none K K' hw.1.1.1.2 hlin.2 (by rw [binaryOp_o]; exact hsl1) oky hny hpk.2
        (by intro bp e; cases e) hd2.2 (Or.inr ⟨hw.1.2, hby'⟩)
      refine ⟨?_, hk⟩
      simp only [TrCmd]
      exact ⟨trivial, tx, hop, ty⟩
  | .subshell _ _ _, _, _, _, _, _, _, h, _, _, _, _, _, _ => by simp [Cmd.lin] at h
  | .block _ _ _, _, _, _, _, _, _, h, _, _, _, _, _, _ => by simp [Cmd.lin] at h
end

/-- `print_in_Prints_gen` with the piece list named: the bytes printed are the rendering of the
    pieces of the final printer state, and these satisfy `lexChain` -/
theorem print_chain (o : Opts) (f : File) (b : Bytes) (hwf : f.wf = true) (hmono : posMono f)
    (hne : f.stmts ≠ .nil) (hp : printFile o f = .ok b) :
    b = render (((P.init o).stmtList f.stmts).newline 0).out.reverse ∧
      lexChain (((P.init o).stmtList f.stmts).newline 0).out.reverse = true := by
  unfold printFile at hp
  split at hp
  · cases hp
  · rename_i href
    have href' : refuse o = false := by simpa using href
    have hinv := ((Inv.init o).stmtList f.stmts hwf).newline 0
    rw [hinv.finish] at hp
    simp only [Except.ok.injEq] at hp
    subst hp
    obtain ⟨ss⟩ := f
    simp only at hwf hne
    unfold posMono at hmono
    simp only at hmono
    cases ss with
    | nil => exact absurd rfl hne
    | cons s rest =>
      obtain ⟨hswf, hrwf⟩ := Stmts.wf_cons hwf
      have hpre0 : Pre (P.init o) (s.lines ++ rest.lines) := by
        refine ⟨by simpa [Stmts.lines] using hmono, fun l _ => ?_⟩
        show 0 ≤ l
        exact Nat.zero_le l
      obtain ⟨s1, s2, s3, s4⟩ := stmtSep_first o s.pos.line
      have hw0 : W ((P.init o).stmtSep true s.pos.line) :=
        ⟨by simp [P.sum, s1, summarize], fun l hl _ => by simp [P.sum, s1, summarize] at hl⟩
      have hsum0 : ((P.init o).stmtSep true s.pos.line).sum.toks = [] := by simp [P.sum, s1, summarize]
      have hposle := Stmt.pos_le_lines hpre0
      have hpq : Pre ((P.init o).stmtSep true s.pos.line) s.lines :=
        ⟨(Pre.left hpre0).1, fun l hl => le_stmtSep true _ ((Pre.left hpre0).2 l hl) (hposle l hl)⟩
      have hprest : Pre ({ (((P.init o).stmtSep true s.pos.line).stmt s) with wantNewline := true } : P) rest.lines :=
        Pre.next hpre0 (fun M h1 h2 => le_stmt s M _ (le_stmtSep true _ h1 (h2 _ (Stmt.pos_mem_lines s))) h2)
      have hrq : refuse ((P.init o).stmtSep true s.pos.line).o = false := by rw [s4]; exact href'
      obtain ⟨ls, hs⟩ := gen_stmt s hswf _ hw0 s2 s3 hrq hpq (fun _ e => by simp [P.sum, s1, summarize] at e)
      obtain ⟨lt, hl⟩ := list_assemble hs s3 s2 rest
        (fun hne => gen_loop rest hrwf hne _ (postG_of_stmtOut hs s3 s2 hrq) hprest)
      have hunf : (P.init o).stmtListLoop true (.cons s rest) =
          P.stmtListLoop { (((P.init o).stmtSep true s.pos.line).stmt s) with wantNewline := true } false rest := by
        rw [P.stmtListLoop]
      rw [← hunf] at hl
      obtain ⟨pf, hpf⟩ : ∃ pf, pf = (P.init o).stmtListLoop true (.cons s rest) := ⟨_, rfl⟩
      rw [← hpf] at hl
      have ht : pf.sum.toks = lt.toks := by
        rw [hl.toks, hsum0]
        simp
      obtain ⟨f1, f2, f3⟩ := LStmts.withFinalNl_facts lt hl.fnl
      have hout : (((P.init o).stmtList (.cons s rest)).newline 0).out = .gap [10] :: pf.out := by
        have := (P.stmtListWith_out (P.init o) (.cons s rest) (fun q => q.stmtListLoop true (.cons s rest))).1
        unfold P.stmtList
        show Piece.gap [10] :: _ = _
        rw [this, hpf]
      have hsumF : summarize {} ((((P.init o).stmtList (.cons s rest)).newline 0).out.reverse) =
          pf.sum.step (.gap [10]) := by
        rw [hout]
        simp [P.sum, summarize, List.foldl_append]
      obtain ⟨c1, c2⟩ := lexChain_expect_init _ (by rw [hsumF, step_nl]; exact hl.w.ok) (by rw [hsumF, step_nl]; rfl)
      exact ⟨rfl, c1⟩

/-! ## Lists and files -/

mutual
/-- the first token of a well-formed statement is not `;` or `&` -/
theorem ftoks_head_s : ∀ s : Stmt, s.wf = true → ∃ tp r, s.ftoks = tp :: r ∧ tkOf tp.1 = .other
  | .mk pos semi neg bg cmd, h => by
    have hc : cmd.wf = true := by simp only [Stmt.wf, Bool.and_eq_true] at h; exact h.1
    cases neg with
    | true => exact ⟨_, _, by simp only [Stmt.ftoks, ↓reduceIte, List.singleton_append]; rfl, rfl⟩
    | false =>
      obtain ⟨tp, r, e, k⟩ := ftoks_head_c cmd hc
      exact ⟨tp, _, by simp only [Stmt.ftoks, Bool.false_eq_true, ↓reduceIte, List.nil_append, e, List.cons_append]; rfl, k⟩
theorem ftoks_head_c : ∀ c : Cmd, c.wf = true → ∃ tp r, c.ftoks = tp :: r ∧ tkOf tp.1 = .other
  | .call args, h => by
    cases args with
    | nil => simp [Cmd.wf] at h
    | cons w rest => exact ⟨_, _, by simp only [Cmd.ftoks, List.map_cons]; rfl, rfl⟩
  | .subshell lp rp ss, _ => ⟨_, _, by simp only [Cmd.ftoks]; rfl, rfl⟩
  | .block lb rb ss, _ => ⟨_, _, by simp only [Cmd.ftoks]; rfl, rfl⟩
  | .binary opPos op x y, h => by
    have hx : x.wf = true := by simp only [Cmd.wf, Bool.and_eq_true] at h; exact h.1.1.1.1
    obtain ⟨tp, r, e, k⟩ := ftoks_head_s x hx
    exact ⟨tp, _, by simp only [Cmd.ftoks, e, List.cons_append]; rfl, k⟩
end

structure OKS (ss' : Stmts) : Prop where
  wf : ss'.wf = true
  ok3 : ∀ tp ∈ ss'.ftoks, tp.1.ok3 tp.2
  sorted : Sorted ss'.lines
  pk : ss'.pkAll

theorem OKS.cons {s : Stmt} {r : Stmts} (h : OKS (.cons s r)) : OKs s ∧ s.pk none ∧ OKS r := by
  obtain ⟨w1, w2⟩ := Stmts.wf_cons h.wf
  have hs := h.sorted
  unfold Sorted at hs
  simp only [Stmts.lines] at hs
  obtain ⟨s1, s2, _⟩ := List.pairwise_append.mp hs
  have hp := h.pk
  simp only [Stmts.pkAll] at hp
  exact ⟨⟨w1, fun tp htp => h.ok3 tp (by simp [Stmts.ftoks, htp]), s1⟩, hp.1,
    ⟨w2, fun tp htp => h.ok3 tp (by simp [Stmts.ftoks, htp]), s2, hp.2⟩⟩

theorem glue_loop : ∀ (ss ss' : Stmts) (p : P) (first : Bool) (K K' : List (TK × Nat)),
    ss.wf = true → ss.lin = true → p.o.singleLine = false → OKS ss' → ss'.norm = ss.norm →
    ss'.ftoks.map tinfo ++ K' = loopD p first ss ++ K → NoSA K → NoSA K' →
    TrLoop p first ss ss' ∧ K' = K
  | .nil, .nil, p, first, K, K', _, _, _, _, _, hd, _, _ => by
    simp only [Stmts.ftoks, loopD, List.map_nil, List.nil_append] at hd
    exact ⟨by simp [TrLoop], hd⟩
  | .nil, .cons _ _, _, _, _, _, _, _, _, _, hn, _, _, _ => by simp [Stmts.norm] at hn
  | .cons _ _, .nil, _, _, _, _, _, _, _, _, hn, _, _, _ => by simp [Stmts.norm] at hn
  | .cons s rest, .cons s' rest', p, first, K, K', hwf, hlin, hsl, ok, hn, hd, hK, hK' => by
    obtain ⟨hs, hr⟩ := Stmts.wf_cons hwf
    simp only [Stmts.lin, Bool.and_eq_true] at hlin
    simp only [Stmts.norm, NStmts.cons.injEq] at hn
    obtain ⟨oks, pks, okr⟩ := ok.cons
    have hsl1 : (p.stmtSep first s.pos.line).o.singleLine = false := by rw [stmtSep_o]; exact hsl
    have hsl2 : ({ ((p.stmtSep first s.pos.line).stmt s) with wantNewline := true } : P).o.singleLine = false := by
      show ((p.stmtSep first s.pos.line).stmt s).o.singleLine = false
      rw [stmt_o s _ hlin.1]; exact hsl1
    simp only [Stmts.ftoks, loopD, List.map_append, List.append_assoc] at hd
    -- what follows the statement does not start with `;` or `&`
    have hK1 : NoSA (loopD { ((p.stmtSep first s.pos.line).stmt s) with wantNewline := true } false rest ++ K) := by
      cases rest with
      | nil => simpa [loopD] using hK
      | cons s2 r2 =>
        obtain ⟨hs2, _⟩ := Stmts.wf_cons hr
        have hl2 : s2.lin = true := by
          have := hlin.2
          simp only [Stmts.lin, Bool.and_eq_true] at this
          exact this.1
        obtain ⟨r, e⟩ := stmtD_head s2 (({ ((p.stmtSep first s.pos.line).stmt s) with wantNewline := true } : P).stmtSep false s2.pos.line) hs2 hl2
        intro x rr hx
        simp only [loopD, e, List.cons_append, List.cons.injEq] at hx
        rw [← hx.1]
    have hK1' : NoSA (rest'.ftoks.map tinfo ++ K') := by
      cases rest' with
      | nil => simpa [Stmts.ftoks] using hK'
      | cons s2 r2 =>
        obtain ⟨hs2, _⟩ := Stmts.wf_cons okr.wf
        obtain ⟨tp, r, e, k⟩ := ftoks_head_s s2 hs2
        intro x rr hx
        simp only [Stmts.ftoks, e, List.cons_append, List.map_cons, List.cons.injEq] at hx
        rw [← hx.1]
        exact k
    obtain ⟨ts, hd2⟩ := glue_stmt s s' _ none _ _ hs hlin.1 hsl1 oks hn.1 pks (by intro bp e; cases e) hd
      (Or.inl ⟨hK1, hK1'⟩)
    obtain ⟨tr, hk⟩ := glue_loop rest rest' _ false K K' hr hlin.2 hsl2 okr hn.2 hd2 hK hK'
    refine ⟨?_, hk⟩
    simp only [TrLoop]
    exact ⟨ts, tr⟩

theorem mem_dropNl {tp : TokPos} {l : List TokPos} (h : tp ∈ dropNl l) : tp ∈ l := by
  unfold dropNl at h
  exact (List.mem_filter.mp h).1

/-- **The parser reads printed text back as a transcript** (programs without subshells and
    blocks, every option set without SingleLine). -/
theorem transcript (o : Opts) (l : Lang) (src : Bytes) (f f' : File) (b : Bytes) (hsrc : parse l src = .ok f)
    (hlin : f.stmts.lin = true) (hne : f.stmts ≠ .nil) (hsl : o.singleLine = false)
    (hp : printFile o f = .ok b) (hq : parse l b = .ok f') : TrFile o f f' := by
  obtain ⟨hwf, hmono⟩ := parse_wf_posMono l src f hsrc
  obtain ⟨hwf', hmono'⟩ := parse_wf_posMono l b f' hq
  obtain ⟨f'', h1, hnorm⟩ := roundtrip_gen o l f b hwf hmono hne hp
  rw [hq] at h1
  simp only [Except.ok.injEq] at h1
  subst h1
  obtain ⟨hb, hc⟩ := print_chain o f b hwf hmono hne hp
  obtain ⟨pf, hpf⟩ : ∃ pf, pf = ((P.init o).stmtList f.stmts).newline 0 := ⟨_, rfl⟩
  rw [← hpf] at hb hc
  have hkinds := lexAll_pieces pf.out.reverse hc
  have hlines := lexAll_pieces_lines pf.out.reverse hc
  rw [← hb] at hkinds hlines
  obtain ⟨Le, hbr⟩ := bridge pf.out.reverse false 1 (lexAll b) (lexChain_shape _ hc) hkinds hlines
  -- the tokens of the printer run
  have htl : pinfo 1 pf.out.reverse = loopD (P.init o) true f.stmts := by
    have e1 : pf.tl = ((P.init o).stmtListLoop true f.stmts).tl := by
      rw [hpf]
      unfold P.tl
      have := (P.stmtListWith_out (P.init o) f.stmts (fun q => q.stmtListLoop true f.stmts)).1
      show pinfo 1 (Piece.gap [10] :: ((P.init o).stmtList f.stmts).out).reverse = _
      unfold P.stmtList
      rw [this, List.reverse_cons, pinfo_append]
      simp [pinfo]
    have e2 := tl_loop f.stmts (P.init o) true hwf hlin hsl
    have e3 : (P.init o).tl = [] := rfl
    rw [e3, List.nil_append] at e2
    exact e1.trans e2
  rw [htl] at hbr
  -- the tokens of the re-read tree
  obtain ⟨tail, hfl, htail⟩ := parse_flatten l b f' hq
  rw [hfl, List.map_append] at hbr
  have ok : OKS f'.stmts := by
    refine ⟨hwf', ?_, hmono', parse_pk l b f' hq⟩
    intro tp htp
    exact lexAll_ok3 b tp (mem_dropNl (by rw [hfl]; exact List.mem_append_left _ htp))
  have hK : NoSA [(TK.other, Le)] := by
    intro x rr e
    simp only [List.cons.injEq] at e
    rw [← e.1]
  have hK' : NoSA (tail.map tinfo) := by
    intro x rr e
    cases tail with
    | nil => simp at e
    | cons t0 tr =>
      simp only [List.map_cons, List.cons.injEq] at e
      have := htail t0 rfl
      rw [← e.1]
      simp [tinfo, this, tkOf]
  exact (glue_loop f.stmts f'.stmts (P.init o) true _ _ hwf hlin hsl ok hnorm hbr hK hK').1

/-- **Idempotence without SingleLine on programs without subshells and blocks.** -/
theorem idempotent_linear (o : Opts) (l : Lang) (src : Bytes) (f f' : File) (b : Bytes) (hsrc : parse l src = .ok f)
    (hlin : f.stmts.lin = true) (hne : f.stmts ≠ .nil) (hsl : o.singleLine = false)
    (hp : printFile o f = .ok b) (hq : parse l b = .ok f') : printFile o f' = .ok b := by
  rw [printFile_fix o f f' hsl (transcript o l src f f' b hsrc hlin hne hsl hp hq)]
  exact hp

end ShVerif.L4
