import ShVerif.Model.C05
/-
  Helper lemmas for C05: every primitive of the printer model preserves the ghost list
  `acc = emitted ++ pending` (or appends the comments handed to `comments`), and the two ghost
  counters; the comment-splitting loops agree with their filter specifications on well-formed
  comment lists.
-/
namespace ShVerif.C05

/-! ### primitives: fields they do not touch -/

@[simp] theorem advLine_emitted (l σ) : (advLine l σ).emitted = σ.emitted := rfl
@[simp] theorem advLine_pending (l σ) : (advLine l σ).pending = σ.pending := rfl
@[simp] theorem advLine_lossD (l σ) : (advLine l σ).lossD = σ.lossD := rfl
@[simp] theorem advLine_inlineN (l σ) : (advLine l σ).inlineN = σ.inlineN := rfl
@[simp] theorem advLine_hdocs (l σ) : (advLine l σ).hdocs = σ.hdocs := rfl
@[simp] theorem bslashNewl_emitted (σ) : (bslashNewl σ).emitted = σ.emitted := rfl
@[simp] theorem bslashNewl_pending (σ) : (bslashNewl σ).pending = σ.pending := rfl
@[simp] theorem bslashNewl_lossD (σ) : (bslashNewl σ).lossD = σ.lossD := rfl
@[simp] theorem bslashNewl_inlineN (σ) : (bslashNewl σ).inlineN = σ.inlineN := rfl

/-- The ghost part of a state that the line/newline bookkeeping never changes. -/
structure Same (σ τ : St) : Prop where
  emitted : τ.emitted = σ.emitted
  pending : τ.pending = σ.pending
  lossD : τ.lossD = σ.lossD
  inlineN : τ.inlineN = σ.inlineN

theorem Same.refl (σ : St) : Same σ σ := ⟨rfl, rfl, rfl, rfl⟩
theorem Same.trans {a b c : St} (h1 : Same a b) (h2 : Same b c) : Same a c :=
  ⟨h2.emitted.trans h1.emitted, h2.pending.trans h1.pending, h2.lossD.trans h1.lossD,
   h2.inlineN.trans h1.inlineN⟩

theorem runL_same (o x σ) : Same σ (runL o x σ) := by
  cases x <;> simp only [runL] <;> (try split) <;> exact ⟨rfl, rfl, rfl, rfl⟩

theorem runLs_same (o xs σ) : Same σ (runLs o xs σ) := by
  unfold runLs
  induction xs generalizing σ with
  | nil => exact Same.refl σ
  | cons x xs ih => exact (runL_same o x σ).trans (ih _)

theorem runHdoc_same (o σ h) : Same σ (runHdoc o σ h) := by
  have key : ∀ τ : St, Same τ (if (h.dash && o.tabIndent && !o.minify) = true then τ
      else if h.hasBody = true then runLs o h.body τ else τ) := by
    intro τ
    split
    · exact Same.refl _
    · split
      · exact runLs_same _ _ _
      · exact Same.refl _
  have fin : ∀ τ : St, Same τ (if h.hasBody = true then advLine h.endLine τ else τ) := by
    intro τ
    split
    · exact ⟨rfl, rfl, rfl, rfl⟩
    · exact Same.refl _
  have h0 : Same σ { σ with line := σ.line + 1, wantNewline := false, mustNewline := false } :=
    ⟨rfl, rfl, rfl, rfl⟩
  exact ((h0.trans (key _)).trans (runLs_same o h.wordU _)).trans (fin _)

theorem hdocBodies_same (o hs σ) : Same σ (hdocBodies o hs σ) := by
  unfold hdocBodies
  induction hs generalizing σ with
  | nil => exact Same.refl σ
  | cons h hs ih => exact (runHdoc_same o σ h).trans (ih _)

/-! ### `emitComs` -/

theorem emitComs_emitted (cs σ) : (emitComs cs σ).emitted = σ.emitted ++ cs := by
  unfold emitComs
  induction cs generalizing σ with
  | nil => simp
  | cons c cs ih => simp [List.foldl_cons, ih]

theorem emitComs_pending (cs σ) : (emitComs cs σ).pending = σ.pending := by
  unfold emitComs
  induction cs generalizing σ with
  | nil => simp
  | cons c cs ih => simp [List.foldl_cons, ih]

theorem emitComs_lossD (cs σ) : (emitComs cs σ).lossD = σ.lossD := by
  unfold emitComs
  induction cs generalizing σ with
  | nil => simp
  | cons c cs ih => simp [List.foldl_cons, ih]

theorem emitComs_inlineN (cs σ) : (emitComs cs σ).inlineN = σ.inlineN := by
  unfold emitComs
  induction cs generalizing σ with
  | nil => simp
  | cons c cs ih => simp [List.foldl_cons, ih]

theorem emitComs_hdocs (cs σ) : (emitComs cs σ).hdocs = σ.hdocs := by
  unfold emitComs
  induction cs generalizing σ with
  | nil => simp
  | cons c cs ih => simp [List.foldl_cons, ih]

/-- What the flushing primitives guarantee: the ghost list `acc` and the counters are unchanged. -/
structure Keeps (σ τ : St) : Prop where
  acc : τ.acc = σ.acc
  lossD : τ.lossD = σ.lossD
  inlineN : τ.inlineN = σ.inlineN

theorem Keeps.refl (σ : St) : Keeps σ σ := ⟨rfl, rfl, rfl⟩
theorem Keeps.trans {a b c : St} (h1 : Keeps a b) (h2 : Keeps b c) : Keeps a c :=
  ⟨h2.acc.trans h1.acc, h2.lossD.trans h1.lossD, h2.inlineN.trans h1.inlineN⟩
theorem Same.keeps {σ τ : St} (h : Same σ τ) : Keeps σ τ :=
  ⟨by simp [St.acc, h.emitted, h.pending], h.lossD, h.inlineN⟩

theorem flushHeredocs_keeps (o σ) : Keeps σ (flushHeredocs o σ) := by
  unfold flushHeredocs
  split
  · exact Keeps.refl σ
  · rename_i h hs heq
    simp only []
    split
    · rename_i c rest hp
      split
      · have := hdocBodies_same o (h :: hs) (emitComs [c] ({ σ with hdocs := [], pending := [], mustNewline := false } : St))
        exact ⟨by simp [St.acc, this.emitted, emitComs_emitted, hp],
               by simp [this.lossD, emitComs_lossD], by simp [this.inlineN, emitComs_inlineN]⟩
      · have := hdocBodies_same o (h :: hs) ({ σ with hdocs := [], pending := [] } : St)
        exact ⟨by simp [St.acc, this.emitted, hp], by simp [this.lossD], by simp [this.inlineN]⟩
    · rename_i hp
      have := hdocBodies_same o (h :: hs) ({ σ with hdocs := [], pending := [] } : St)
      exact ⟨by simp [St.acc, this.emitted, hp], by simp [this.lossD], by simp [this.inlineN]⟩

theorem flushComments_keeps (o σ) : Keeps σ (flushComments o σ) := by
  unfold flushComments
  have h1 : Keeps σ (if σ.pending.isEmpty = true then σ else flushHeredocs o σ) := by
    split
    · exact Keeps.refl σ
    · exact flushHeredocs_keeps o σ
  refine h1.trans ?_
  generalize (if σ.pending.isEmpty = true then σ else flushHeredocs o σ) = τ
  constructor
  · simp [St.acc, emitComs_emitted]
  · simp [emitComs_lossD]
  · simp [emitComs_inlineN]

theorem flushComments_pending (o σ) : (flushComments o σ).pending = [] := by
  unfold flushComments; rfl

theorem newline_keeps (o p σ) : Keeps σ (newline o p σ) := by
  unfold newline
  refine ((flushHeredocs_keeps o σ).trans (flushComments_keeps o _)).trans ?_
  exact ⟨rfl, rfl, rfl⟩

theorem newlines_keeps (o p σ) : Keeps σ (newlines o p σ) := by
  unfold newlines
  split
  · exact ⟨rfl, rfl, rfl⟩
  · split
    · exact Keeps.refl σ
    · refine ((flushHeredocs_keeps o σ).trans (flushComments_keeps o _)).trans ?_
      exact ⟨rfl, rfl, rfl⟩

theorem semiRsrv_keeps (o p σ) : Keeps σ (semiRsrv o p σ) := by
  unfold semiRsrv; split
  · exact newlines_keeps o p σ
  · exact Keeps.refl σ

theorem semiOrNewl_keeps (o p σ) : Keeps σ (semiOrNewl o p σ) := by
  unfold semiOrNewl; split
  · exact newline_keeps o p σ
  · exact ⟨rfl, rfl, rfl⟩

theorem rightParen_keeps (o p σ) : Keeps σ (rightParen o p σ) := by
  unfold rightParen; split
  · exact newlines_keeps o p σ
  · exact Keeps.refl σ

theorem nestedPre_keeps (n e c σ) : Keeps σ (nestedPre n e c σ) := by
  unfold nestedPre
  split
  · exact ⟨rfl, rfl, rfl⟩
  · split
    · exact ⟨rfl, rfl, rfl⟩
    · split
      · exact ⟨rfl, rfl, rfl⟩
      · exact Keeps.refl σ

theorem nestedPost_keeps (o c σ) : Keeps σ (nestedPost o c σ) := by
  unfold nestedPost; split
  · exact flushComments_keeps o σ
  · exact Keeps.refl σ

end ShVerif.C05

namespace ShVerif.C05

/-! ### `Step`: one piece of printing hands the comments `cs` to the printer, unless it took a lossy branch -/

/-- `τ` is reached from `σ`; the lossy-branch counter never decreases, and if it did not
    increase, exactly the comments `cs` were appended to `acc`. -/
def Step (σ τ : St) (cs : List Com) : Prop :=
  σ.lossD ≤ τ.lossD ∧ (τ.lossD = σ.lossD → τ.acc = σ.acc ++ cs)

theorem Step.refl (σ : St) : Step σ σ [] := ⟨Nat.le_refl _, fun _ => by simp⟩

theorem Step.seq {a b c : St} {cs1 cs2 cs : List Com} (h1 : Step a b cs1) (h2 : Step b c cs2)
    (e : cs = cs1 ++ cs2) : Step a c cs := by
  subst e
  refine ⟨Nat.le_trans h1.1 h2.1, fun h => ?_⟩
  have hb : b.lossD = a.lossD := Nat.le_antisymm (h ▸ h2.1) h1.1
  have hc : c.lossD = b.lossD := by omega
  rw [h2.2 hc, h1.2 hb, List.append_assoc]

theorem Keeps.step {σ τ : St} (h : Keeps σ τ) : Step σ τ [] :=
  ⟨Nat.le_of_eq h.lossD.symm, fun _ => by simp [h.acc]⟩

theorem Step.ite {σ a b : St} {cs : List Com} (c : Prop) [Decidable c]
    (h1 : c → Step σ a cs) (h2 : ¬c → Step σ b cs) : Step σ (if c then a else b) cs := by
  split
  · exact h1 ‹_›
  · exact h2 ‹_›

/-- a state reached after the lossy counter went up satisfies every `Step` -/
theorem Step.bump (σ : St) (cs : List Com) : Step σ { σ with lossD := σ.lossD + 1 } cs :=
  ⟨Nat.le_succ _, fun h => absurd h (by simp)⟩

theorem Step.congr {σ τ : St} {cs cs' : List Com} (h : Step σ τ cs) (e : cs' = cs) : Step σ τ cs' :=
  e ▸ h

theorem comments_step (o : Opts) (hm : o.minify = false) (cs σ) : Step σ (comments o cs σ) cs := by
  unfold comments
  simp only [hm]
  exact ⟨Nat.le_refl _, fun _ => by simp [St.acc]⟩

theorem advLine_step (l σ) : Step σ (advLine l σ) [] := Keeps.step ⟨rfl, rfl, rfl⟩
theorem bslashNewl_step (σ) : Step σ (bslashNewl σ) [] := Keeps.step ⟨rfl, rfl, rfl⟩
theorem runL_step (o x σ) : Step σ (runL o x σ) [] := (runL_same o x σ).keeps.step
theorem newline_step (o p σ) : Step σ (newline o p σ) [] := (newline_keeps o p σ).step
theorem newlines_step (o p σ) : Step σ (newlines o p σ) [] := (newlines_keeps o p σ).step
theorem semiRsrv_step (o p σ) : Step σ (semiRsrv o p σ) [] := (semiRsrv_keeps o p σ).step
theorem semiOrNewl_step (o p σ) : Step σ (semiOrNewl o p σ) [] := (semiOrNewl_keeps o p σ).step
theorem rightParen_step (o p σ) : Step σ (rightParen o p σ) [] := (rightParen_keeps o p σ).step
theorem nestedPre_step (n e c σ) : Step σ (nestedPre n e c σ) [] := (nestedPre_keeps n e c σ).step
theorem nestedPost_step (o c σ) : Step σ (nestedPost o c σ) [] := (nestedPost_keeps o c σ).step
theorem flushComments_step (o σ) : Step σ (flushComments o σ) [] := (flushComments_keeps o σ).step

theorem listPost_step (o : Opts) (hm : o.minify = false) (n sep last σ) :
    Step σ (listPost o n sep last σ) last := by
  unfold listPost
  have h1 : Step σ (if (decide (n = 1) && !sep) = true then { σ with wantNewline := false } else σ) [] := by
    split
    · exact Keeps.step ⟨rfl, rfl, rfl⟩
    · exact Step.refl σ
  exact Step.seq h1 (comments_step o hm last _) (by simp)

/-! ### the comment-splitting loops on well-formed lists -/

theorem classifyP_of_onlyLast (pe pa : Com → Bool) :
    ∀ cs : List Com, onlyLast pe cs = true →
      classifyP pe pa cs =
        (cs.filter (fun c => !pe c && !pa c), cs.filter (fun c => !pe c && pa c), cs.filter pe, [])
  | [], _ => by simp [classifyP]
  | [c], _ => by
    cases h : pe c <;> cases h2 : pa c <;> simp [classifyP, h, h2]
  | c :: d :: rest, hw => by
    simp only [onlyLast, Bool.and_eq_true, Bool.not_eq_true'] at hw
    have ih := classifyP_of_onlyLast pe pa (d :: rest) hw.2
    have h : pe c = false := hw.1
    rw [classifyP]
    simp only [h, Bool.false_eq_true, ↓reduceIte, ih]
    cases h2 : pa c <;> simp [h, h2, List.filter_cons]

theorem classify_of_onlyLast (pos cmdEnd : Pos) (hasCmd : Bool) (cs : List Com)
    (hw : onlyLast (isEndCom cmdEnd hasCmd) cs = true) :
    classify pos cmdEnd hasCmd cs =
      (beforeOf pos cmdEnd hasCmd cs, midOf pos cmdEnd hasCmd cs, endOf cmdEnd hasCmd cs, []) := by
  unfold classify beforeOf midOf endOf
  exact classifyP_of_onlyLast _ _ cs hw

theorem splitLeft_of_onlyLast (pos : Pos) :
    ∀ cs : List Com, onlyLast (fun c => c.pos.after pos) cs = true →
      splitLeft pos cs = (cs.filter (fun c => !c.pos.after pos), cs.filter (fun c => c.pos.after pos), [])
  | [], _ => by simp [splitLeft]
  | [c], _ => by
    by_cases h : c.pos.after pos = true <;> simp [splitLeft, h]
  | c :: d :: rest, hw => by
    simp only [onlyLast, Bool.and_eq_true, Bool.not_eq_true'] at hw
    have ih := splitLeft_of_onlyLast pos (d :: rest) hw.2
    rw [splitLeft]
    simp only [hw.1, Bool.false_eq_true, ↓reduceIte, ih]
    simp [List.filter_cons, hw.1]

theorem splitCase_of_monotone (pos : Pos) :
    ∀ cs : List Com, monotoneP (fun c => c.pos.after pos) cs = true →
      splitCase pos cs = (cs.filter (fun c => !c.pos.after pos), cs.filter (fun c => c.pos.after pos))
  | [], _ => by simp [splitCase]
  | c :: rest, hw => by
    simp only [monotoneP, Bool.and_eq_true] at hw
    rw [splitCase]
    by_cases h : c.pos.after pos = true
    · have hall : rest.all (fun c => c.pos.after pos) = true := by simpa [h] using hw.1
      have e1 : rest.filter (fun c => !c.pos.after pos) = [] := by
        rw [List.filter_eq_nil_iff]
        intro a ha
        have := List.all_eq_true.mp hall a ha
        simp [this]
      have e2 : rest.filter (fun c => c.pos.after pos) = rest := by
        rw [List.filter_eq_self]
        intro a ha
        exact List.all_eq_true.mp hall a ha
      simp [h, List.filter_cons, e1, e2]
    · have ih := splitCase_of_monotone pos rest hw.2
      simp [h, ih, List.filter_cons]

end ShVerif.C05
