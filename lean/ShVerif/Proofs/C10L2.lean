import ShVerif.Proofs.C07Pos
/-
  C10 on the byte-source layer, helper lemmas: the only primitive that raises an error by itself
  is `rune` ("invalid UTF-8 encoding", in `runeDecode`), and the offset it records is that of the
  invalid byte, which lies inside the input.  Everything else leaves `err` alone, or (`errPass` of
  the client) sets the client's own error.  Read-only use of C07's unchunked machine.
-/
namespace ShVerif.C07
open ShVerif ShVerif.L2
set_option linter.unusedSimpArgs false

/-- the offset recorded by an "invalid UTF-8 encoding" error lies within `n` input bytes -/
def U (n : Nat) (a : LSt) : Prop :=
  ∀ o l c, a.err = some (.utf8 o l c) → o ≤ (n : Int)

theorem U_of_err_eq {n a a'} (h : a'.err = a.err) (hu : U n a) : U n a' := by
  intro o l c he; exact hu o l c (h ▸ he)

theorem peek_err (a : LSt) : a.peek.2.err = a.err := by rw [peek_eq]; rfl

theorem peekTwo_err (a : LSt) : a.peekTwo.2.2.err = a.err := by rw [peekTwo_eq]; rfl

theorem runeTail_err (b : Byte) (bq : Nat) (a : LSt) : (LSt.runeTail b bq a).err = a.err := by
  unfold LSt.runeTail
  simp only
  split <;> simp [litPush_err]

theorem afterEsc_err (b : Byte) (bq : Nat) (a : LSt) : (LSt.runeAfterEsc b bq a).st.err = a.err := by
  unfold LSt.runeAfterEsc
  split
  · split
    · rfl
    · exact runeTail_err b bq a
  · exact runeTail_err b bq a

theorem backslash_err (b : Byte) (bq : Nat) (a : LSt) : (LSt.runeBackslash b bq a).st.err = a.err := by
  unfold LSt.runeBackslash
  split
  · simp only; rw [afterEsc_err, peek_err]
  · simp only
    split
    · simp [LSt.Step.st, consume_err, peek_err]
    · split
      · simp [LSt.Step.st, consumeN_err, peekTwo_err, peek_err]
      · rw [afterEsc_err, peekTwo_err, peek_err]

theorem ascii_err (b : Byte) (bq : Nat) (a : LSt) : (LSt.runeAscii b bq a).st.err = a.err := by
  unfold LSt.runeAscii
  simp only
  split
  · simp [LSt.Step.st, consume_err]
  · split
    · split
      · simp [LSt.Step.st, peek_err, consume_err]
      · simp [LSt.Step.st, runeTail_err, peek_err, consume_err]
    · split
      · rw [backslash_err, consume_err]
      · simp [LSt.Step.st, runeTail_err, consume_err]

theorem U_errPass_utf8 {n : Nat} {a : LSt} {o : Int} {l c : Nat} (hu : U n a)
    (ho : a.err = none → o ≤ (n : Int)) : U n (a.errPass (.utf8 o l c)) := by
  unfold LSt.errPass
  cases he : a.err with
  | some x => simpa [he] using hu
  | none =>
    intro o' l' c' h
    simp at h
    rw [← h.1]; exact ho he

theorem U_errPass_client {n : Nat} {a : LSt} (hu : U n a) : U n (a.errPass .client) := by
  unfold LSt.errPass
  cases he : a.err with
  | some x => simpa [he] using hu
  | none => intro o' l' c' h; simp at h

theorem U_decode {n a} (h : Inv1 n a) (hu : U n a) : U n (LSt.runeDecode a) := by
  unfold LSt.runeDecode
  rcases hd : decodeRune a.rest with ⟨r, w⟩
  simp only
  have h0 : Inv1 n { a with r := r } := h
  have h1 := inv1_consumeN w (inv1_litPush (a.rest.take w) h0)
  generalize hb : LSt.consumeN w (LSt.litPush { a with r := r } (List.take w a.rest)) = a1 at h1 ⊢
  have he1 : a1.err = a.err := by rw [← hb, consumeN_err, litPush_err]
  split
  · apply U_errPass_utf8
    · exact U_of_err_eq (a := a) he1 hu
    · intro he
      have := h1 he
      simp only [LSt.nextPos]
      omega
  · exact U_of_err_eq (a := a) he1 hu

theorem atEOF_err (a : LSt) : (LSt.runeAtEOF a).err = a.err := by
  unfold LSt.runeAtEOF; split <;> rfl

theorem U_step {n a} (bq : Nat) (h : Inv n a) (hu : U n a) : U n (LSt.runeStep bq a).st := by
  unfold LSt.runeStep
  simp only
  have h0 := inv_forget h
  have hu0 : U n a.forget := U_of_err_eq (a := a) rfl hu
  generalize a.forget = a0 at h0 hu0 ⊢
  cases hr : a0.rest with
  | nil => exact U_of_err_eq (a := a0) (by simp [LSt.Step.st, atEOF_err]) hu0
  | cons b t =>
    simp only
    have h1 : Inv1 n { a0 with look := max a0.look 1 } := h0.toInv1 (by simp [hr])
    have hu1 : U n { a0 with look := max a0.look 1 } := U_of_err_eq (a := a0) rfl hu0
    unfold LSt.runeBody
    simp only
    split
    · exact U_of_err_eq (a := a0) (by rw [ascii_err]) hu0
    · exact U_decode h1 hu1

theorem U_loop {n} (fuel : Nat) : ∀ (bq : Nat) {a : LSt}, Inv n a → U n a → U n (LSt.runeLoop fuel bq a) := by
  induction fuel with
  | zero => intro bq a _ hu; exact hu
  | succ fuel ih =>
    intro bq a h hu
    unfold LSt.runeLoop
    have hs := inv_step bq h
    have us := U_step bq h hu
    cases hst : LSt.runeStep bq a with
    | done a' => rw [hst] at us; exact us
    | retry bq' a' => rw [hst] at hs us; exact ih bq' hs us

theorem runePre_err (a : LSt) : a.runePre.err = a.err := by
  unfold LSt.runePre; simp only; split <;> rfl

theorem U_rune {n a} (h : Inv n a) (hu : U n a) : U n a.rune.2 := by
  unfold LSt.rune
  exact U_loop _ 0 (inv_runePre h) (U_of_err_eq (a := a) (runePre_err a) hu)

theorem stopAt_err (a : LSt) (r : Nat) : (a.stopAt r).2.err = a.err := by
  unfold LSt.stopAt
  simp only
  generalize (if r ≤ 0x10FFFF then encodeRune r else []) = enc
  split <;> rfl

theorem newLit_err (a : LSt) (r : Nat) : (a.newLit r).err = a.err := by
  unfold LSt.newLit
  split
  · rfl
  · split <;> rfl

theorem endLit_err (a : LSt) : a.endLit.2.err = a.err := by
  unfold LSt.endLit
  simp only
  split <;> rfl

/-- the invariant pair is kept by every client program -/
theorem U_specRun {n} {α : Type} (p : Prog α) : ∀ {a : LSt}, Inv n a → U n a →
    U n (specRun p a).2 := by
  induction p with
  | ret x => intro a _ hu; exact hu
  | rune k ih => intro a h hu; unfold specRun; exact ih _ (inv_rune h) (U_rune h hu)
  | peek k ih =>
    intro a h hu; unfold specRun
    exact ih _ (show Inv n a.peek.2 by rw [peek_eq]; exact h) (U_of_err_eq (a := a) (peek_err a) hu)
  | peekTwo k ih =>
    intro a h hu; unfold specRun
    exact ih _ _ (show Inv n a.peekTwo.2.2 by rw [peekTwo_eq]; exact h)
      (U_of_err_eq (a := a) (peekTwo_err a) hu)
  | zshNum k ih => intro a h hu; unfold specRun; exact ih _ h (U_of_err_eq (a := a) rfl hu)
  | stopAt r k ih =>
    intro a h hu; unfold specRun
    exact ih _ (inv_stopAt r h) (U_of_err_eq (a := a) (stopAt_err a r) hu)
  | newLit r k ih =>
    intro a h hu; unfold specRun
    exact ih (inv_newLit r h) (U_of_err_eq (a := a) (newLit_err a r) hu)
  | endLit k ih =>
    intro a h hu; unfold specRun
    exact ih _ (inv_endLit h) (U_of_err_eq (a := a) (endLit_err a) hu)
  | pos k ih => intro a h hu; unfold specRun; exact ih _ _ _ h (U_of_err_eq (a := a) rfl hu)
  | setBquotes o d k ih => intro a h hu; unfold specRun; exact ih h (U_of_err_eq (a := a) rfl hu)
  | getRW k ih => intro a h hu; unfold specRun; exact ih _ _ h hu
  | lastBq k ih => intro a h hu; unfold specRun; exact ih _ h hu
  | litGet k ih => intro a h hu; unfold specRun; exact ih _ h hu
  | litAppend bs k ih => intro a h hu; unfold specRun; exact ih h (U_of_err_eq (a := a) rfl hu)
  | litDrop k ih => intro a h hu; unfold specRun; exact ih h (U_of_err_eq (a := a) rfl hu)
  | errPass k ih => intro a h hu; unfold specRun; exact ih (inv_errPass _) (U_errPass_client hu)
  | errGet k ih => intro a h hu; unfold specRun; exact ih _ h hu

/-- on the schedule-free machine: whatever the client does, an "invalid UTF-8 encoding" error
    records an offset that is at most the number of input bytes -/
theorem utf8_err_offset_le {α : Type} (p : Prog α) (input stop : List Byte) (o : Int) (l c : Nat)
    (he : (specRun p (LSt.init input stop)).2.err = some (.utf8 o l c)) : o ≤ (input.length : Int) :=
  U_specRun (n := input.length) p (inv_init input stop) (by intro o l c h; simp [LSt.init] at h) o l c he

end ShVerif.C07
