/-
  L4: the tree the model parser builds *is* its token stream.  `ftoks` flattens a tree back into
  positioned tokens (`!`, words, operators, `( ) { }`, `;` / `&`); `parse_flatten` says that for
  every input the flattened tree equals the token stream of the lexer without its newline tokens
  and the final `eof` — no token is lost, invented, reordered or moved, and every position in the
  tree is the position of the token it came from.

  Part 1 strengthens the lexer invariant (`TokPos.ok2`): a word token sits at the position of its
  first part, `{ } !` tokens have exactly the shape the lexer gives them, positions are valid.
-/
import ShVerif.Proofs.L4ParseWF
namespace ShVerif.L4

def rsrvTok (b : UInt8) (p : Pos) : TokPos := (.word ⟨[.lit p (p.adv b) [b]]⟩ (some [b]), p)

def BinOp.tok : BinOp → Tok
  | .andStmt => .andAnd
  | .orStmt => .orOr
  | .pipe => .pipe

mutual
def Stmt.ftoks : Stmt → List TokPos
  | .mk pos semi neg bg cmd =>
    (if neg then [rsrvTok 33 pos] else []) ++ (cmd.ftoks ++ (if semi.valid then [((if bg then Tok.amp else Tok.semi), semi)] else []))
def Cmd.ftoks : Cmd → List TokPos
  | .call args => args.map (fun w => (Tok.word w (litWord? w.parts), (w.pos?).getD Pos.zero))
  | .subshell lp rp ss => (Tok.lparen, lp) :: (ss.ftoks ++ [(Tok.rparen, rp)])
  | .block lb rb ss => rsrvTok 123 lb :: (ss.ftoks ++ [rsrvTok 125 rb])
  | .binary opPos op x y => x.ftoks ++ ((op.tok, opPos) :: y.ftoks)
def Stmts.ftoks : Stmts → List TokPos
  | .nil => []
  | .cons s r => s.ftoks ++ r.ftoks
end

def dropNl (toks : List TokPos) : List TokPos := toks.filter (fun tp => tp.1 != .newl)

/-- the lexer's word tokens, with their positions -/
def Tok.okAt : Tok → Pos → Prop
  | .word w lit, p =>
    (w.wf = true ∧ lit = litWord? w.parts ∧ w.pos? = some p ∧ (∀ v, lit = some v → v ≠ [123] ∧ v ≠ [125] ∧ v ≠ [33])) ∨
    (∃ b : UInt8, (b = 123 ∨ b = 125 ∨ b = 33) ∧ (Tok.word w lit, p) = rsrvTok b p)
  | _, _ => True

def TokPos.ok2 (tp : TokPos) : Prop := tp.2.valid = true ∧ tp.1.okAt tp.2

/-! ## The lexer: a word starts where its first part starts -/

def modeStartPos : LexMode → Option Pos
  | .idle => none
  | .lit st _ => some st
  | .sgl l _ => some l

/-- the position of the first part of the word being read -/
def firstPos (mode : LexMode) (acc : List WordPart) : Option Pos :=
  match acc.reverse.head? with
  | some x => some x.pos
  | none => modeStartPos mode

theorem firstPos_cons_ne (mode mode' : LexMode) (x : WordPart) (acc : List WordPart) (h : acc ≠ []) :
    firstPos mode' (x :: acc) = firstPos mode acc := by
  unfold firstPos
  cases hr : acc.reverse with
  | nil => simp at hr; exact absurd hr h
  | cons y ys => simp [hr]

theorem lexWord_first : ∀ (src : Bytes) (pos : Pos) (mode : LexMode) (acc res : List WordPart) (stop : Pos) (r : Bytes)
    (fp : Pos), lexWord src pos mode acc = .done res stop r → firstPos mode acc = some fp →
    res.head?.map WordPart.pos = some fp := by
  intro src
  induction src with
  | nil =>
    intro pos mode acc res stop r fp h hf
    cases mode with
    | idle =>
      rw [lexWord] at h; cases h
      unfold firstPos at hf
      cases hr : acc.reverse with
      | nil => rw [hr] at hf; simp [modeStartPos] at hf
      | cons y ys => rw [hr] at hf; simpa using hf
    | lit st a =>
      rw [lexWord] at h; cases h
      unfold firstPos at hf
      cases hr : acc.reverse with
      | nil =>
        rw [hr] at hf
        simp only [List.head?_nil, modeStartPos, Option.some.injEq] at hf
        simp [hr, WordPart.pos, hf]
      | cons y ys => rw [hr] at hf; simpa [hr] using hf
    | sgl l a => rw [lexWord] at h; cases h
  | cons b rest ih =>
    intro pos mode acc res stop r fp h hf
    -- closing a part keeps the first position
    have hclose : ∀ (x : WordPart) (mode' : LexMode), x.pos = (modeStartPos mode).getD x.pos →
        (acc = [] → modeStartPos mode = some x.pos) → firstPos mode' (x :: acc) = some fp := by
      intro x mode' _ hx
      cases hacc : acc with
      | nil =>
        have := hx hacc
        rw [hacc] at hf
        simp only [firstPos, List.reverse_nil, List.head?_nil] at hf
        rw [this] at hf
        simpa [firstPos] using hf
      | cons y ys =>
        rw [← hacc, firstPos_cons_ne mode mode' x acc (by rw [hacc]; simp)]
        exact hf
    cases mode with
    | idle =>
      rw [lexWord] at h
      split at h
      · refine ih _ _ _ _ _ _ fp h ?_
        unfold firstPos at hf ⊢
        cases hr : acc.reverse with
        | nil => rw [hr] at hf; simp [modeStartPos] at hf
        | cons y ys => rw [hr] at hf; simpa using hf
      · split at h
        · refine ih _ _ _ _ _ _ fp h ?_
          unfold firstPos at hf ⊢
          cases hr : acc.reverse with
          | nil => rw [hr] at hf; simp [modeStartPos] at hf
          | cons y ys => rw [hr] at hf; simpa using hf
        · split at h
          · cases h
            unfold firstPos at hf
            cases hr : acc.reverse with
            | nil => rw [hr] at hf; simp [modeStartPos] at hf
            | cons y ys => rw [hr] at hf; simpa using hf
          · cases h
    | lit st a =>
      rw [lexWord] at h
      split at h
      · refine ih _ _ _ _ _ _ fp h ?_
        unfold firstPos at hf ⊢
        cases hr : acc.reverse with
        | nil => rw [hr] at hf; simpa [modeStartPos] using hf
        | cons y ys => rw [hr] at hf; simpa using hf
      · split at h
        · exact ih _ _ _ _ _ _ fp h (hclose (.lit st pos a.reverse) _ rfl (fun _ => rfl))
        · split at h
          · cases h
            have := hclose (.lit st pos a.reverse) .idle rfl (fun _ => rfl)
            unfold firstPos at this
            cases hr : (WordPart.lit st pos a.reverse :: acc).reverse with
            | nil => simp at hr
            | cons y ys => rw [hr] at this; simpa [hr] using this
          · cases h
    | sgl l a =>
      rw [lexWord] at h
      split at h
      · exact ih _ _ _ _ _ _ fp h (hclose (.sgl l pos a.reverse) _ rfl (fun _ => rfl))
      · split at h
        · refine ih _ _ _ _ _ _ fp h ?_
          unfold firstPos at hf ⊢
          cases hr : acc.reverse with
          | nil => rw [hr] at hf; simpa [modeStartPos] using hf
          | cons y ys => rw [hr] at hf; simpa using hf
        · cases h

theorem litWord_safe_ne {parts : List WordPart} {v : Bytes} (hwf : ∀ p ∈ parts, p.wf = true) (h : litWord? parts = some v) :
    v ≠ [123] ∧ v ≠ [125] ∧ v ≠ [33] := by
  unfold litWord? at h
  split at h
  · rename_i a e v'
    simp only [Option.some.injEq] at h
    subst h
    have := hwf (.lit a e v') (by simp)
    simp only [WordPart.wf, Bool.and_eq_true, List.all_eq_true] at this
    refine ⟨fun e => ?_, fun e => ?_, fun e => ?_⟩ <;> (subst e; have := this.2 _ (List.mem_singleton.mpr rfl); simp [isSafe] at this)
  · cases h

/-- a word read from its first byte: it starts at `p` -/
theorem lexWord_start_pos (b : UInt8) (rest : Bytes) (p : Pos) (parts : List WordPart) (stop : Pos) (r : Bytes)
    (hb : (isSafe b || b == 39) = true) (hl : lexWord (b :: rest) p .idle [] = .done parts stop r) :
    (Word.mk parts).pos? = some p := by
  have key : ∃ mode, lexWord rest (p.adv b) mode [] = .done parts stop r ∧ firstPos mode [] = some p := by
    cases hs : isSafe b with
    | true =>
      rw [lexWord_idle_safe b rest p [] hs] at hl
      exact ⟨.lit p [b], hl, rfl⟩
    | false =>
      have hq : b = 39 := by simpa [hs] using hb
      subst hq
      rw [lexWord_idle_quote rest p []] at hl
      exact ⟨.sgl p [], hl, rfl⟩
  obtain ⟨mode, h1, h2⟩ := key
  exact lexWord_first rest (p.adv b) mode [] parts stop r p h1 h2

theorem nextTok_ok2 (sk : Bool) (src : Bytes) (spos : Pos) (hv : spos.line ≥ 1) :
    TokPos.ok2 ((nextTok sk src spos).tok, (nextTok sk src spos).pos) := by
  have hl := (nextTok_line sk src spos).1
  have hvalid : (nextTok sk src spos).pos.valid = true := by
    unfold Pos.valid
    have : (nextTok sk src spos).pos.line ≠ 0 := by omega
    simp [this]
  refine ⟨hvalid, ?_⟩
  unfold nextTok
  cases hsk : skipSpace sk src spos with
  | mk r p =>
    cases r with
    | nil => exact trivial
    | cons b rest =>
      show Tok.okAt _ _
      simp only
      repeat' split
      all_goals first
        | trivial
        | (rename_i hb _; exact Or.inr ⟨b, by simpa [or_assoc] using hb, rfl⟩)
        | (rename_i hlw
           have hb : (isSafe b || b == 39) = true := ‹(isSafe b || b == 39) = true›
           obtain ⟨_, k2, _⟩ := lexWord_start_ok b rest p _ _ _ [] hb hlw (by simp [Sorted])
           exact Or.inl ⟨k2, rfl, lexWord_start_pos b rest p _ _ _ hb hlw,
             fun v hv => litWord_safe_ne (Word.wf_parts k2) hv⟩)

theorem lexAllF_ok2 : ∀ (fuel : Nat) (sk : Bool) (src : Bytes) (spos : Pos), spos.line ≥ 1 →
    ∀ tp ∈ lexAllF fuel sk src spos, tp.ok2 := by
  intro fuel
  induction fuel with
  | zero => intro sk src spos _ tp h; simp [lexAllF] at h
  | succ n ih =>
    intro sk src spos hv tp h
    have h1 := nextTok_ok2 sk src spos hv
    have h2 := (nextTok_line sk src spos).2
    rw [lexAllF] at h
    split at h
    · rename_i he; simp only [List.mem_singleton] at h; subst h; rw [← he]; exact h1
    · rename_i he; simp only [List.mem_singleton] at h; subst h; rw [← he]; exact h1
    · rename_i he; simp only [List.mem_singleton] at h; subst h; rw [← he]; exact h1
    · rcases List.mem_cons.mp h with rfl | h
      · exact h1
      · exact ih _ _ _ (by omega) tp h

theorem lexAll_ok2 (src : Bytes) : ∀ tp ∈ lexAll src, tp.ok2 :=
  lexAllF_ok2 _ _ _ _ (by simp)

/-! ## The parser: the flattened result is the consumed tokens -/

def AllOK2 (ps : PS) : Prop := ∀ tp ∈ ps.toks, tp.ok2

theorem AllOK2.of_toks {ps : PS} {tp : TokPos} {rest : List TokPos} (h : AllOK2 ps) (e : ps.toks = tp :: rest) :
    tp.ok2 ∧ AllOK2 ⟨rest⟩ :=
  ⟨h tp (by rw [e]; simp), fun x hx => h x (by rw [e]; exact List.mem_cons_of_mem _ hx)⟩

theorem AllOK2.next {ps : PS} (h : AllOK2 ps) : AllOK2 ps.next := fun tp htp => h tp (List.mem_of_mem_tail htp)

def wtok (w : Word) : TokPos := (Tok.word w (litWord? w.parts), (w.pos?).getD Pos.zero)
def sftoks (l : List Stmt) : List TokPos := l.flatMap Stmt.ftoks

theorem dropNl_cons (tp : TokPos) (rest : List TokPos) (h : tp.1 ≠ .newl) : dropNl (tp :: rest) = tp :: dropNl rest := by
  simp [dropNl, h]

theorem dropNl_gotNewl (ps : PS) : dropNl ps.gotNewl.2.toks = dropNl ps.toks ∧ (AllOK2 ps → AllOK2 ps.gotNewl.2) := by
  unfold PS.gotNewl
  split
  · rename_i h
    obtain ⟨p, rest, e1, _, e3⟩ := PS.tok_toks (by simpa using h : ps.tok = .newl) (by simp)
    rw [e3, e1]
    exact ⟨by simp [dropNl], fun hk => (hk.of_toks e1).2⟩
  · exact ⟨rfl, id⟩

theorem mkStmt_ftoks (pos : Pos) (neg : Bool) (c : Cmd) :
    (mkStmt pos neg c).ftoks = (if neg then [rsrvTok 33 pos] else []) ++ c.ftoks := by
  simp [mkStmt, Stmt.ftoks, Pos.zero, Pos.valid]

/-- a `{ } !` token, recognised by its literal -/
theorem ok2_rsrv {w : Word} {v : Bytes} {p : Pos} (h : TokPos.ok2 (Tok.word w (some v), p)) (b : UInt8)
    (hb : b = 123 ∨ b = 125 ∨ b = 33) (hv : v = [b]) : (Tok.word w (some v), p) = rsrvTok b p := by
  rcases h.2 with hk | ⟨b', hb', e⟩
  · exfalso
    obtain ⟨h1, h2, h3⟩ := hk.2.2.2 v rfl
    rcases hb with rfl | rfl | rfl
    · exact h1 hv
    · exact h2 hv
    · exact h3 hv
  · have e' := e
    simp only [rsrvTok, Prod.mk.injEq, Tok.word.injEq, Option.some.injEq, and_true] at e'
    have : b' = b := by
      have := e'.2
      rw [hv] at this
      simpa using this.symm
    subst this
    exact e

/-- an ordinary word token is `wtok` of its word -/
theorem ok2_word {w : Word} {lit : Option Bytes} {p : Pos} (h : TokPos.ok2 (Tok.word w lit, p))
    (hv : ∀ v, lit = some v → ¬ (v = [123] ∨ v = [125] ∨ v = [33])) : (Tok.word w lit, p) = wtok w := by
  rcases h.2 with hk | ⟨b, hb, e⟩
  · simp only [wtok, hk.2.1, hk.2.2.1, Option.getD_some]
  · exfalso
    simp only [rsrvTok, Prod.mk.injEq, Tok.word.injEq, and_true] at e
    refine hv [b] e.2 ?_
    rcases hb with rfl | rfl | rfl <;> simp

theorem callArgs_flat : ∀ (fuel : Nat) (inSub : Bool) (ps : PS) (acc args : List Word) (ps' : PS),
    callArgs fuel inSub ps acc = .ok (args, ps') → AllOK2 ps →
    AllOK2 ps' ∧ ∃ more, args = acc.reverse ++ more ∧ dropNl ps.toks = more.map wtok ++ dropNl ps'.toks := by
  intro fuel
  induction fuel with
  | zero => intro inSub ps acc args ps' h; simp [callArgs] at h
  | succ n ih =>
    intro inSub ps acc args ps' h hok
    have hstop : (.ok (acc.reverse, ps) : Except ParseErr (List Word × PS)) = .ok (args, ps') →
        AllOK2 ps' ∧ ∃ more, args = acc.reverse ++ more ∧ dropNl ps.toks = more.map wtok ++ dropNl ps'.toks := by
      intro e
      simp only [Except.ok.injEq, Prod.mk.injEq] at e
      obtain ⟨rfl, rfl⟩ := e
      exact ⟨hok, [], by simp, by simp⟩
    obtain ⟨toks⟩ := ps
    cases toks with
    | nil => simp only [callArgs, PS.tok] at h; exact hstop h
    | cons tp rest =>
      obtain ⟨t, p⟩ := tp
      obtain ⟨htok, hrestok⟩ := hok.of_toks (rfl : (PS.mk ((t, p) :: rest)).toks = (t, p) :: rest)
      cases t with
      | word w lit =>
        have hrec : callArgs n inSub ⟨rest⟩ (w :: acc) = .ok (args, ps') →
            (∀ v, lit = some v → ¬ (v = [123] ∨ v = [125] ∨ v = [33])) →
            AllOK2 ps' ∧ ∃ more, args = acc.reverse ++ more ∧
              dropNl ((Tok.word w lit, p) :: rest) = more.map wtok ++ dropNl ps'.toks := by
          intro e hv
          obtain ⟨r1, more, r2, r3⟩ := ih inSub ⟨rest⟩ (w :: acc) args ps' e hrestok
          refine ⟨r1, w :: more, by rw [r2]; simp, ?_⟩
          rw [dropNl_cons _ _ (by simp), ok2_word htok hv, r3]
          simp
        cases lit with
        | none =>
          simp only [callArgs, PS.tok_cons, PS.next_cons] at h
          exact hrec h (fun v hv => by cases hv)
        | some v =>
          simp only [callArgs, PS.tok_cons, PS.next_cons] at h
          split at h
          · cases h
          · rename_i hv
            simp only [Bool.or_eq_true, beq_iff_eq, not_or] at hv
            exact hrec h (fun v' hv' => by
              simp only [Option.some.injEq] at hv'
              subst hv'
              intro hc
              rcases hc with hc | hc | hc
              · exact hv.1.1 hc
              · exact hv.1.2 hc
              · exact hv.2 hc)
      | rparen =>
        simp only [callArgs, PS.tok_cons] at h
        split at h
        · exact hstop h
        · cases h
      | eof => simp only [callArgs, PS.tok_cons] at h; exact hstop h
      | newl => simp only [callArgs, PS.tok_cons] at h; exact hstop h
      | semi => simp only [callArgs, PS.tok_cons] at h; exact hstop h
      | amp => simp only [callArgs, PS.tok_cons] at h; exact hstop h
      | andAnd => simp only [callArgs, PS.tok_cons] at h; exact hstop h
      | orOr => simp only [callArgs, PS.tok_cons] at h; exact hstop h
      | pipe => simp only [callArgs, PS.tok_cons] at h; exact hstop h
      | lparen => simp [callArgs, PS.tok_cons] at h
      | outside => simp [callArgs, PS.tok_cons] at h
      | unclosedQuote => simp [callArgs, PS.tok_cons] at h

def TFirst (n : Nat) : Prop :=
  ∀ (inSub : Bool) (pos : Pos) (neg : Bool) (ps : PS) (s : Stmt) (ps' : PS),
    firstCmdF n inSub pos neg ps = .ok (some s, ps') → AllOK2 ps →
    AllOK2 ps' ∧ dropNl ps.toks = s.cmd.ftoks ++ dropNl ps'.toks ∧ s = mkStmt pos neg s.cmd
def TGot (n : Nat) : Prop :=
  ∀ (inSub : Bool) (pos : Pos) (neg binCmd : Bool) (ps : PS) (s : Stmt) (ps' : PS),
    gotStmtPipeF n inSub pos neg binCmd ps = .ok (some s, ps') → AllOK2 ps →
    AllOK2 ps' ∧ dropNl ps.toks = s.cmd.ftoks ++ dropNl ps'.toks ∧ s = mkStmt pos neg s.cmd
def TPipe (n : Nat) : Prop :=
  ∀ (inSub binCmd : Bool) (s : Stmt) (ps : PS) (s' : Stmt) (ps' : PS),
    pipeF n inSub binCmd s ps = .ok (s', ps') → AllOK2 ps → s = mkStmt s.pos s.negated s.cmd →
    AllOK2 ps' ∧ ∃ X, dropNl ps.toks = X ++ dropNl ps'.toks ∧ s'.cmd.ftoks = s.cmd.ftoks ++ X ∧
      s' = mkStmt s.pos s.negated s'.cmd
def TGet (n : Nat) : Prop :=
  ∀ (inSub readEnd binCmd : Bool) (ps : PS) (s : Stmt) (ps' : PS),
    getStmtF n inSub readEnd binCmd ps = .ok (some s, ps') → AllOK2 ps →
    AllOK2 ps' ∧ dropNl ps.toks = s.ftoks ++ dropNl ps'.toks ∧ (readEnd = false → s.semi.valid = false)
def TAndOr (n : Nat) : Prop :=
  ∀ (inSub binCmd : Bool) (s : Stmt) (ps : PS) (s' : Stmt) (ps' : PS),
    andOrF n inSub binCmd s ps = .ok (s', ps') → AllOK2 ps → s.semi.valid = false →
    AllOK2 ps' ∧ ∃ X, dropNl ps.toks = X ++ dropNl ps'.toks ∧ s'.ftoks = s.ftoks ++ X ∧ s'.semi.valid = false
def TStmts (n : Nat) : Prop :=
  ∀ (inSub stopBrace gotEnd : Bool) (ps : PS) (acc ss : List Stmt) (ps' : PS),
    stmtsF n inSub stopBrace gotEnd ps acc = .ok (ss, ps') → AllOK2 ps →
    AllOK2 ps' ∧ ∃ new, ss = acc.reverse ++ new ∧ dropNl ps.toks = sftoks new ++ dropNl ps'.toks

theorem ofList_ftoks : ∀ l : List Stmt, (Stmts.ofList l).ftoks = sftoks l
  | [] => by simp [Stmts.ofList, Stmts.ftoks, sftoks]
  | s :: r => by simp [Stmts.ofList, Stmts.ftoks, sftoks, ofList_ftoks r]

theorem mkStmt_cmd (pos : Pos) (neg : Bool) (c : Cmd) : (mkStmt pos neg c).cmd = c := rfl
theorem mkStmt_pos (pos : Pos) (neg : Bool) (c : Cmd) : (mkStmt pos neg c).pos = pos := rfl
theorem mkStmt_negated (pos : Pos) (neg : Bool) (c : Cmd) : (mkStmt pos neg c).negated = neg := rfl

theorem t_first (n : Nat) (hS : TStmts n) : TFirst (n + 1) := by
  intro inSub pos neg ps s ps' h hok
  obtain ⟨toks⟩ := ps
  cases toks with
  | nil => simp [firstCmdF, PS.tok] at h
  | cons tp rest =>
    obtain ⟨t, p⟩ := tp
    obtain ⟨htok, hrestok⟩ := hok.of_toks (rfl : (PS.mk ((t, p) :: rest)).toks = (t, p) :: rest)
    cases t with
    | word w lit =>
      have hcall : (∀ v, lit = some v → ¬ (v = [123] ∨ v = [125] ∨ v = [33])) →
          (match callArgs (n + 1) inSub ⟨rest⟩ [w] with
            | .error e => (.error e : Except ParseErr (Option Stmt × PS))
            | .ok (args, ps) => .ok (some (mkStmt pos neg (.call args)), ps)) = .ok (some s, ps') →
          AllOK2 ps' ∧ dropNl ((Tok.word w lit, p) :: rest) = s.cmd.ftoks ++ dropNl ps'.toks ∧ s = mkStmt pos neg s.cmd := by
        intro hv e
        split at e
        · cases e
        · rename_i args q hca
          simp only [Except.ok.injEq, Prod.mk.injEq, Option.some.injEq] at e
          obtain ⟨rfl, rfl⟩ := e
          obtain ⟨r1, more, r2, r3⟩ := callArgs_flat (n + 1) inSub ⟨rest⟩ [w] args q hca hrestok
          refine ⟨r1, ?_, rfl⟩
          rw [dropNl_cons _ _ (by simp), ok2_word htok hv, r3, mkStmt_cmd, r2]
          simp [Cmd.ftoks, wtok]
      cases lit with
      | none =>
        simp only [firstCmdF, PS.tok_cons, PS.next_cons] at h
        exact hcall (fun v hv => by cases hv) h
      | some v =>
        simp only [firstCmdF, PS.tok_cons, PS.pos_cons, PS.next_cons] at h
        split at h
        · rename_i h123
          cases hsemi : ((PS.mk rest).tok == Tok.semi) with
          | true => simp [hsemi] at h
          | false =>
            simp only [hsemi, Bool.false_eq_true, ↓reduceIte] at h
            split at h
            · cases h
            · rename_i ss q hst
              split at h
              · cases h
              · split at h
                · rename_i hclose
                  obtain ⟨w2, p2, rest2, e1, e2, e3⟩ := PS.isLit_toks hclose
                  simp only [Except.ok.injEq, Prod.mk.injEq, Option.some.injEq] at h
                  obtain ⟨rfl, rfl⟩ := h
                  obtain ⟨r1, new, r2, r3⟩ := hS inSub true true ⟨rest⟩ [] ss q hst hrestok
                  obtain ⟨hk2, hrest2⟩ := r1.of_toks e1
                  refine ⟨by rw [e3]; exact hrest2, ?_, rfl⟩
                  rw [dropNl_cons _ _ (by simp), ok2_rsrv htok 123 (Or.inl rfl) (by simpa using h123), r3, e1,
                    dropNl_cons _ _ (by simp), ok2_rsrv hk2 125 (Or.inr (Or.inl rfl)) rfl, mkStmt_cmd, e3, e2]
                  simp only [List.reverse_nil, List.nil_append] at r2
                  subst r2
                  simp [Cmd.ftoks, ofList_ftoks, List.append_assoc]
                · split at h <;> cases h
        · split at h
          · cases h
          · split at h
            · split at h <;> cases h
            · split at h
              · cases h
              · rename_i h123 h125 h33 hkw
                exact hcall (fun v' hv' => by
                  simp only [Option.some.injEq] at hv'
                  subst hv'
                  intro hc
                  rcases hc with hc | hc | hc
                  · simp [hc] at h123
                  · simp [hc] at h125
                  · simp [hc] at h33) h
    | lparen =>
      simp only [firstCmdF, PS.tok_cons, PS.pos_cons, PS.next_cons] at h
      cases hsemi : ((PS.mk rest).tok == Tok.semi) with
      | true => simp [hsemi] at h
      | false =>
        simp only [hsemi, Bool.false_eq_true, ↓reduceIte] at h
        split at h
        · cases h
        · rename_i ss q hst
          split at h
          · cases h
          · split at h
            · rename_i hclose
              obtain ⟨p2, rest2, e1, e2, e3⟩ := PS.tok_toks hclose (by simp)
              simp only [Except.ok.injEq, Prod.mk.injEq, Option.some.injEq] at h
              obtain ⟨rfl, rfl⟩ := h
              obtain ⟨r1, new, r2, r3⟩ := hS true false true ⟨rest⟩ [] ss q hst hrestok
              refine ⟨by rw [e3]; exact (r1.of_toks e1).2, ?_, rfl⟩
              rw [dropNl_cons _ _ (by simp), r3, e1, dropNl_cons _ _ (by simp), mkStmt_cmd, e3, e2]
              simp only [List.reverse_nil, List.nil_append] at r2
              subst r2
              simp [Cmd.ftoks, ofList_ftoks, List.append_assoc]
            · cases h
            · cases h
    | eof => simp [firstCmdF, PS.tok_cons] at h
    | newl => simp [firstCmdF, PS.tok_cons] at h
    | semi => simp [firstCmdF, PS.tok_cons] at h
    | amp => simp [firstCmdF, PS.tok_cons] at h
    | andAnd => simp [firstCmdF, PS.tok_cons] at h
    | orOr => simp [firstCmdF, PS.tok_cons] at h
    | pipe => simp [firstCmdF, PS.tok_cons] at h
    | rparen => simp [firstCmdF, PS.tok_cons] at h
    | outside => simp [firstCmdF, PS.tok_cons] at h
    | unclosedQuote => simp [firstCmdF, PS.tok_cons] at h

theorem t_got (n : Nat) (hF : TFirst n) (hP : TPipe n) : TGot (n + 1) := by
  intro inSub pos neg binCmd ps s ps' h hok
  rw [gotStmtPipeF_eq] at h
  split at h
  · cases h
  · simp at h
  · rename_i s1 ps1 hf
    unfold pipeWrap at h
    split at h
    · cases h
    · rename_i s2 ps2 hp
      simp only [Except.ok.injEq, Prod.mk.injEq, Option.some.injEq] at h
      obtain ⟨rfl, rfl⟩ := h
      obtain ⟨f1, f2, f3⟩ := hF _ _ _ _ _ _ hf hok
      have hs1 : s1 = mkStmt s1.pos s1.negated s1.cmd := by
        rw [f3]; rfl
      obtain ⟨p1, X, p2, p3, p4⟩ := hP _ _ _ _ _ _ hp f1 hs1
      have hpos : s1.pos = pos := by rw [f3]; rfl
      have hneg : s1.negated = neg := by rw [f3]; rfl
      refine ⟨p1, ?_, by rw [p4, hpos, hneg]; rfl⟩
      rw [f2, p2, p3, List.append_assoc]

theorem setNeg_ftoks (s : Stmt) (h : s = mkStmt s.pos s.negated s.cmd) : (s.setNeg false).ftoks = s.cmd.ftoks := by
  rw [h]
  simp [mkStmt, Stmt.setNeg, Stmt.ftoks, Pos.zero, Pos.valid, Stmt.cmd]

theorem t_pipe (n : Nat) (hG : TGot n) (hP : TPipe n) : TPipe (n + 1) := by
  intro inSub binCmd s ps s' ps' h hok hst
  rw [pipeF_eq] at h
  have hstop : (.ok (s, ps) : Except ParseErr (Stmt × PS)) = .ok (s', ps') →
      AllOK2 ps' ∧ ∃ X, dropNl ps.toks = X ++ dropNl ps'.toks ∧ s'.cmd.ftoks = s.cmd.ftoks ++ X ∧
        s' = mkStmt s.pos s.negated s'.cmd := by
    intro e
    simp only [Except.ok.injEq, Prod.mk.injEq] at e
    obtain ⟨rfl, rfl⟩ := e
    exact ⟨hok, [], by simp, by simp, hst⟩
  split at h
  · rename_i hpipe
    split at h
    · exact hstop h
    · obtain ⟨q, rest, e1, e2, e3⟩ := PS.tok_toks (by simpa using hpipe : ps.tok = .pipe) (by simp)
      simp only at h
      rw [e3, e2] at h
      obtain ⟨g1, g2⟩ := dropNl_gotNewl ⟨rest⟩
      have hrestok : AllOK2 ⟨rest⟩ := (hok.of_toks e1).2
      split at h
      · cases h
      · split at h <;> cases h
      · rename_i y ps2 hy
        obtain ⟨y1, y2, y3⟩ := hG _ _ _ _ _ _ _ hy (g2 hrestok)
        have hnew : mkStmt s.pos s.negated (.binary q .pipe (s.setNeg false) y) =
            mkStmt (mkStmt s.pos s.negated (.binary q .pipe (s.setNeg false) y)).pos
              (mkStmt s.pos s.negated (.binary q .pipe (s.setNeg false) y)).negated
              (mkStmt s.pos s.negated (.binary q .pipe (s.setNeg false) y)).cmd := rfl
        obtain ⟨r1, X, r2, r3, r4⟩ := hP _ _ _ _ _ _ h y1 hnew
        refine ⟨r1, (Tok.pipe, q) :: (y.cmd.ftoks ++ X), ?_, ?_, ?_⟩
        · rw [e1, dropNl_cons _ _ (by simp), ← g1, y2, r2]
          simp [List.append_assoc]
        · rw [r3, mkStmt_cmd]
          have hyf : y.ftoks = y.cmd.ftoks := by
            rw [y3, mkStmt_ftoks]; simp [mkStmt_cmd]
          simp only [Cmd.ftoks, setNeg_ftoks s hst, hyf, BinOp.tok]
          simp [List.append_assoc]
        · rw [r4]; rfl
  · exact hstop h

theorem setEnd_ftoks (s : Stmt) (q : Pos) (bg : Bool) (hs : s.semi.valid = false) (hq : q.valid = true) :
    (s.setEnd q bg).ftoks = s.ftoks ++ [((if bg then Tok.amp else Tok.semi), q)] := by
  obtain ⟨p, sm, n, b, c⟩ := s
  simp only [Stmt.semi] at hs
  simp [Stmt.setEnd, Stmt.ftoks, hs, hq, List.append_assoc]

theorem t_andor_core (n : Nat) (hGet : TGet n) (hA : TAndOr n) (inSub binCmd : Bool) (s : Stmt) (op : BinOp)
    (q : Pos) (rest : List TokPos) (s' : Stmt) (ps' : PS)
    (h : (match getStmtF n inSub false true (PS.mk rest).gotNewl.2 with
        | .error e => (.error e : Except ParseErr (Stmt × PS))
        | .ok (none, ps') =>
          match ps'.tok with
          | .outside => .error .outside
          | _ => .error (.syntax "must be followed by a statement")
        | .ok (some y, ps') => andOrF n inSub binCmd (mkStmt s.pos false (.binary q op s y)) ps') = .ok (s', ps'))
    (hrestok : AllOK2 ⟨rest⟩) :
    AllOK2 ps' ∧ ∃ X, (op.tok, q) :: dropNl rest = X ++ dropNl ps'.toks ∧ s'.ftoks = s.ftoks ++ X ∧
      s'.semi.valid = false := by
  obtain ⟨g1, g2⟩ := dropNl_gotNewl ⟨rest⟩
  split at h
  · cases h
  · split at h <;> cases h
  · rename_i y ps2 hy
    obtain ⟨y1, y2, _⟩ := hGet _ _ _ _ _ _ hy (g2 hrestok)
    obtain ⟨r1, X, r2, r3, r4⟩ := hA _ _ _ _ _ _ h y1 (by simp [mkStmt, Stmt.semi, Pos.zero, Pos.valid])
    refine ⟨r1, (op.tok, q) :: (y.ftoks ++ X), ?_, ?_, r4⟩
    · rw [← g1, y2, r2]
      simp [List.append_assoc]
    · rw [r3, mkStmt_ftoks]
      simp [Cmd.ftoks, List.append_assoc]

theorem t_andor (n : Nat) (hGet : TGet n) (hA : TAndOr n) : TAndOr (n + 1) := by
  intro inSub binCmd s ps s' ps' h hok hsv
  rw [andOrF_eq] at h
  have hstop : (.ok (s, ps) : Except ParseErr (Stmt × PS)) = .ok (s', ps') →
      AllOK2 ps' ∧ ∃ X, dropNl ps.toks = X ++ dropNl ps'.toks ∧ s'.ftoks = s.ftoks ++ X ∧ s'.semi.valid = false := by
    intro e
    simp only [Except.ok.injEq, Prod.mk.injEq] at e
    obtain ⟨rfl, rfl⟩ := e
    exact ⟨hok, [], by simp, by simp, hsv⟩
  obtain ⟨toks⟩ := ps
  cases toks with
  | nil => simp only [PS.tok] at h; exact hstop h
  | cons tp rest =>
    obtain ⟨t, q⟩ := tp
    have hrestok : AllOK2 ⟨rest⟩ := (hok.of_toks rfl).2
    cases t with
    | andAnd =>
      simp only [PS.tok_cons, PS.pos_cons, PS.next_cons] at h
      cases hbin : binCmd with
      | true => simp only [hbin, ↓reduceIte] at h; exact hstop h
      | false =>
        simp only [hbin, Bool.false_eq_true, ↓reduceIte] at h
        have := t_andor_core n hGet hA inSub false s .andStmt q rest s' ps' h hrestok
        simpa [dropNl_cons, BinOp.tok] using this
    | orOr =>
      simp only [PS.tok_cons, PS.pos_cons, PS.next_cons] at h
      cases hbin : binCmd with
      | true => simp only [hbin, ↓reduceIte] at h; exact hstop h
      | false =>
        simp only [hbin, Bool.false_eq_true, ↓reduceIte] at h
        have := t_andor_core n hGet hA inSub false s .orStmt q rest s' ps' h hrestok
        simpa [dropNl_cons, BinOp.tok] using this
    | eof => simp only [PS.tok_cons] at h; exact hstop h
    | newl => simp only [PS.tok_cons] at h; exact hstop h
    | semi => simp only [PS.tok_cons] at h; exact hstop h
    | amp => simp only [PS.tok_cons] at h; exact hstop h
    | pipe => simp only [PS.tok_cons] at h; exact hstop h
    | lparen => simp only [PS.tok_cons] at h; exact hstop h
    | rparen => simp only [PS.tok_cons] at h; exact hstop h
    | word w lit => simp only [PS.tok_cons] at h; exact hstop h
    | outside => simp only [PS.tok_cons] at h; exact hstop h
    | unclosedQuote => simp only [PS.tok_cons] at h; exact hstop h

theorem t_get (n : Nat) (hG : TGot n) (hA : TAndOr n) : TGet (n + 1) := by
  intro inSub readEnd binCmd ps s ps' h hok
  rw [getStmtF_eq] at h
  simp only at h
  -- the optional `!`
  have hstart : AllOK2 (if ps.tok.isLit [33] = true then ps.next else ps) ∧
      dropNl ps.toks = (if ps.tok.isLit [33] = true then [rsrvTok 33 ps.pos] else []) ++
        dropNl (if ps.tok.isLit [33] = true then ps.next else ps).toks := by
    cases hneg : ps.tok.isLit [33] with
    | true =>
      simp only [↓reduceIte]
      obtain ⟨w, p, rest, e1, e2, e3⟩ := PS.isLit_toks hneg
      obtain ⟨hk, hrest⟩ := hok.of_toks e1
      refine ⟨hok.next, ?_⟩
      rw [e1, dropNl_cons _ _ (by simp), ok2_rsrv hk 33 (Or.inr (Or.inr rfl)) rfl, e3, e2]
      rfl
    | false =>
      simp only [Bool.false_eq_true, ↓reduceIte, List.nil_append]
      exact ⟨hok, trivial⟩
  obtain ⟨ps1, hps1⟩ : ∃ ps1, ps1 = (if ps.tok.isLit [33] = true then ps.next else ps) := ⟨_, rfl⟩
  rw [← hps1] at h hstart
  obtain ⟨hok1, hd1⟩ := hstart
  split at h
  · cases h
  · split at h
    · cases h
    · split at h
      · cases h
      · simp at h
      · rename_i s1 ps2 hg
        obtain ⟨g1, g2, g3⟩ := hG _ _ _ _ _ _ _ hg hok1
        have hs1f : s1.ftoks = (if ps.tok.isLit [33] = true then [rsrvTok 33 ps.pos] else []) ++ s1.cmd.ftoks := by
          rw [g3, mkStmt_ftoks]; rfl
        have hs1v : s1.semi.valid = false := by
          rw [g3]; simp [mkStmt, Stmt.semi, Pos.zero, Pos.valid]
        unfold endWrap at h
        split at h
        · cases h
        · rename_i s2 ps3 ha
          obtain ⟨a1, X, a2, a3, a4⟩ := hA _ _ _ _ _ _ ha g1 hs1v
          have hd : dropNl ps.toks = s2.ftoks ++ dropNl ps3.toks := by
            rw [hd1, g2, a2, a3, hs1f]
            simp [List.append_assoc]
          have hkeep : (.ok (some s2, ps3) : Except ParseErr (Option Stmt × PS)) = .ok (some s, ps') →
              AllOK2 ps' ∧ dropNl ps.toks = s.ftoks ++ dropNl ps'.toks ∧ (readEnd = false → s.semi.valid = false) := by
            intro e
            simp only [Except.ok.injEq, Prod.mk.injEq, Option.some.injEq] at e
            obtain ⟨rfl, rfl⟩ := e
            exact ⟨a1, hd, fun _ => a4⟩
          have hend : ∀ (t : Tok) (bg : Bool), ps3.tok = t → t = (if bg then Tok.amp else Tok.semi) →
              (.ok (some (s2.setEnd ps3.pos bg), ps3.next) : Except ParseErr (Option Stmt × PS)) = .ok (some s, ps') →
              readEnd = true →
              AllOK2 ps' ∧ dropNl ps.toks = s.ftoks ++ dropNl ps'.toks ∧ (readEnd = false → s.semi.valid = false) := by
            intro t bg ht htb e hre
            simp only [Except.ok.injEq, Prod.mk.injEq, Option.some.injEq] at e
            obtain ⟨rfl, rfl⟩ := e
            obtain ⟨q, rest, e1, e2, e3⟩ := PS.tok_toks ht (by rw [htb]; cases bg <;> simp)
            obtain ⟨hk, _⟩ := a1.of_toks e1
            refine ⟨a1.next, ?_, fun hf => by rw [hre] at hf; cases hf⟩
            rw [hd, e1, dropNl_cons _ _ (by rw [htb]; cases bg <;> simp), e2, setEnd_ftoks s2 q bg a4 hk.1, e3, htb]
            simp [List.append_assoc]
          cases hre : readEnd with
          | false =>
            simp only [hre, Bool.false_eq_true, ↓reduceIte] at h
            rw [hre] at hkeep
            exact hkeep h
          | true =>
            simp only [hre, ↓reduceIte] at h
            rw [hre] at hkeep hend
            split at h
            · rename_i ht
              exact hend .semi false ht rfl h rfl
            · rename_i ht
              exact hend .amp true ht rfl h rfl
            · exact hkeep h

theorem sftoks_append (a b : List Stmt) : sftoks (a ++ b) = sftoks a ++ sftoks b := by
  simp [sftoks, List.flatMap_append]

theorem t_stmts (n : Nat) (hGet : TGet n) (hS : TStmts n) : TStmts (n + 1) := by
  intro inSub stopBrace gotEnd ps acc ss ps' h hok
  rw [stmtsF_eq] at h
  have hstop : ∀ q : PS, AllOK2 q → dropNl q.toks = dropNl ps.toks →
      (.ok (acc.reverse, q) : Except ParseErr (List Stmt × PS)) = .ok (ss, ps') →
      AllOK2 ps' ∧ ∃ new, ss = acc.reverse ++ new ∧ dropNl ps.toks = sftoks new ++ dropNl ps'.toks := by
    intro q hq hd e
    simp only [Except.ok.injEq, Prod.mk.injEq] at e
    obtain ⟨rfl, rfl⟩ := e
    exact ⟨hq, [], by simp, by simp [sftoks, hd]⟩
  split at h
  · exact hstop ps hok rfl h
  · obtain ⟨g1, g2⟩ := dropNl_gotNewl ps
    cases hq : ps.gotNewl with
    | mk nl ps1 =>
      have e2 : ps.gotNewl.2 = ps1 := by rw [hq]
      rw [e2] at g1 g2
      rw [hq] at h
      simp only at h
      have hok1 := g2 hok
      split at h
      · split at h
        · exact hstop ps1 hok1 g1 h
        · cases h
      · split at h
        · exact hstop ps1 hok1 g1 h
        · split at h
          · cases h
          · split at h
            · exact hstop ps1 hok1 g1 h
            · split at h
              · cases h
              · split at h <;> cases h
              · rename_i s ps2 hg
                obtain ⟨r1, r2, _⟩ := hGet _ _ _ _ _ _ hg hok1
                obtain ⟨k1, new, k2, k3⟩ := hS _ _ _ _ _ _ _ h r1
                refine ⟨k1, s :: new, by rw [k2]; simp, ?_⟩
                rw [← g1, r2, k3]
                simp [sftoks, List.append_assoc]

theorem t_all : ∀ n : Nat, TFirst n ∧ TGot n ∧ TPipe n ∧ TGet n ∧ TAndOr n ∧ TStmts n
  | 0 => by
    refine ⟨?_, ?_, ?_, ?_, ?_, ?_⟩
    · intro inSub pos neg ps s ps' h; simp [firstCmdF] at h
    · intro inSub pos neg binCmd ps s ps' h; simp [gotStmtPipeF] at h
    · intro inSub binCmd s ps s' ps' h; simp [pipeF] at h
    · intro inSub readEnd binCmd ps s ps' h; simp [getStmtF] at h
    · intro inSub binCmd s ps s' ps' h; simp [andOrF] at h
    · intro inSub stopBrace gotEnd ps acc ss ps' h; simp [stmtsF] at h
  | n + 1 => by
    obtain ⟨hF, hG, hP, hGet, hA, hS⟩ := t_all n
    exact ⟨t_first n hS, t_got n hF hP, t_pipe n hG hP, t_get n hG hA, t_andor n hGet hA, t_stmts n hGet hS⟩

/-- **The tree is its token stream**: for every input the parser accepts, flattening the tree
    gives back the lexer's tokens (newline tokens dropped), in order, each at its own position,
    up to the final `eof`. -/
theorem parse_flatten (l : Lang) (src : Bytes) (f : File) (h : parse l src = .ok f) :
    ∃ tail, dropNl (lexAll src) = f.stmts.ftoks ++ tail ∧ ∀ tp, tail.head? = some tp → tp.1 = .eof := by
  unfold parse parseToks parseToksF at h
  split at h
  · cases h
  · rename_i ss ps hst
    obtain ⟨_, new, r2, r3⟩ := (t_all _).2.2.2.2.2 false false true ⟨lexAll src⟩ [] ss ps hst (lexAll_ok2 src)
    simp only [List.reverse_nil, List.nil_append] at r2
    subst r2
    split at h
    · rename_i heof
      simp only [Except.ok.injEq] at h
      subst h
      refine ⟨dropNl ps.toks, by rw [ofList_ftoks]; exact r3, ?_⟩
      intro tp htp
      obtain ⟨toks⟩ := ps
      cases toks with
      | nil => simp [dropNl] at htp
      | cons x rest =>
        simp only [PS.tok] at heof
        have hx : x.1 ≠ .newl := by rw [heof]; simp
        rw [dropNl_cons _ _ hx] at htp
        simp only [List.head?_cons, Option.some.injEq] at htp
        rw [← htp]; exact heof
    · cases h
    · cases h

end ShVerif.L4
