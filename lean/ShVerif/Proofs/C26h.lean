import ShVerif.Proofs.C26g
/-
  C26 — simulation: pipelines (left side in a subshell, right side — a simple command — in the
  runner itself / in a subshell).
-/
namespace ShVerif.C26
open ShVerif.L5 ShVerif.L5.Bash

/-- Status and output of a last-stage command. -/
def pureEff (vars : List (Str × Str)) (last : Nat) : Cmd → Nat × Str
  | .fls => (1, [])
  | .echo w => (0, expandWord vars last w ++ [10])
  | .test x neg v => (if (lookupVar vars x == v) != neg then 0 else 1, [])
  | _ => (0, [])

theorem run_stmt_ge2 {n : Nat} {st : Stmt} {s s' : St} (h : run n (.stmt st) s = some s')
    (hs : stop s = false) : 2 ≤ n := by
  cases n with
  | zero => simp [run] at h
  | succ m =>
    cases m with
    | zero =>
      cases st with
      | mk neg c => simp [run, hs] at h
    | succ k => omega

theorem sem_stmt_ge2 {n : Nat} {k : Ctx} {st : Stmt} {e : Env} {r : Flow × Env}
    (h : sem n k (.stmt st) e = some r) : 2 ≤ n := by
  cases n with
  | zero => simp [sem] at h
  | succ m =>
    cases m with
    | zero =>
      cases st with
      | mk neg c => simp [sem] at h
    | succ k => omega

/-- The runner after a last-stage command run as a statement. -/
def afterPure (c : Cmd) (s : St) : St :=
  let r := pureEff s.vars s.lastExit.code c
  let fire := decide (r.1 ≠ 0) && !s.noErrExit && s.errexit
  { s with lastExpandExit := {}, exit := { code := r.1, exiting := fire },
           lastExit := { code := r.1, exiting := fire }, out := s.out ++ r.2 }

theorem run_pure_stmt (m : Nat) (c : Cmd) (hc : pipeRCmd c = true) (s : St) (hs : NoFlags s)
    (hce : s.callbackErr = .nil) :
    run (m+2) (.stmt (.mk false c)) s = some (afterPure c s) := by
  have hns := not_stop hs
  rw [run_stmt_nonneg (m+1) c s hns]
  cases c <;> simp [pipeRCmd] at hc
  case tru =>
    simp [run, stop, mwrap, Cmd.isAndOr, Exit.ok, afterPure, pureEff]
  case fls =>
    by_cases h1 : s.noErrExit = true
    · simp [run, stop, mwrap, Cmd.isAndOr, Exit.ok, afterPure, pureEff, h1]
    · have h1' : s.noErrExit = false := by simpa using h1
      by_cases h2 : s.errexit = true
      · simp [run, stop, mwrap, Cmd.isAndOr, Exit.ok, afterPure, pureEff, h1', h2, hce, Prog.isNil]
      · have h2' : s.errexit = false := by simpa using h2
        simp [run, stop, mwrap, Cmd.isAndOr, Exit.ok, afterPure, pureEff, h1', h2', hce, Prog.isNil]
  case echo w =>
    simp [run, stop, mwrap, Cmd.isAndOr, Exit.ok, afterPure, pureEff]
  case test x neg v =>
    by_cases h0 : ((lookupVar s.vars x == v) != neg) = true
    · simp [run, stop, mwrap, Cmd.isAndOr, Exit.ok, afterPure, pureEff, h0]
    · have h0' : ((lookupVar s.vars x == v) != neg) = false := by simpa using h0
      by_cases h1 : s.noErrExit = true
      · simp [run, stop, mwrap, Cmd.isAndOr, Exit.ok, afterPure, pureEff, h0', h1]
      · have h1' : s.noErrExit = false := by simpa using h1
        by_cases h2 : s.errexit = true
        · simp [run, stop, mwrap, Cmd.isAndOr, Exit.ok, afterPure, pureEff, h0', h1', h2, hce, Prog.isNil]
        · have h2' : s.errexit = false := by simpa using h2
          simp [run, stop, mwrap, Cmd.isAndOr, Exit.ok, afterPure, pureEff, h0', h1', h2', hce, Prog.isNil]

theorem sem_pure_stmt (m : Nat) (k : Ctx) (c : Cmd) (hc : pipeRCmd c = true) (e : Env)
    (hte : e.trapErr = .nil) :
    sem (m+2) k (.stmt (.mk false c)) e =
      some (if (decide ((pureEff e.vars e.status c).1 ≠ 0) && !k.ign && e.errexit) = true
              then Flow.exit else Flow.norm,
            { e with status := (pureEff e.vars e.status c).1,
                     out := e.out ++ (pureEff e.vars e.status c).2 }) := by
  rw [sem_stmt_nonneg (m+1) k c e]
  cases c <;> simp [pipeRCmd] at hc
  case tru =>
    simp [sem, swrap, isChecked, pureEff]
  case fls =>
    by_cases h1 : k.ign = true
    · simp [sem, swrap, isChecked, pureEff, h1]
    · have h1' : k.ign = false := by simpa using h1
      by_cases h2 : e.errexit = true
      · simp [sem, swrap, isChecked, pureEff, h1', h2, hte, Prog.isNil]
      · have h2' : e.errexit = false := by simpa using h2
        simp [sem, swrap, isChecked, pureEff, h1', h2', hte, Prog.isNil]
  case echo w =>
    simp [sem, swrap, isChecked, pureEff]
  case test x neg v =>
    by_cases h0 : ((lookupVar e.vars x == v) != neg) = true
    · simp [sem, swrap, isChecked, pureEff, h0]
    · have h0' : ((lookupVar e.vars x == v) != neg) = false := by simpa using h0
      by_cases h1 : k.ign = true
      · simp [sem, swrap, isChecked, pureEff, h0', h1]
      · have h1' : k.ign = false := by simpa using h1
        by_cases h2 : e.errexit = true
        · simp [sem, swrap, isChecked, pureEff, h0', h1', h2, hte, Prog.isNil]
        · have h2' : e.errexit = false := by simpa using h2
          simp [sem, swrap, isChecked, pureEff, h0', h1', h2', hte, Prog.isNil]

end ShVerif.C26
