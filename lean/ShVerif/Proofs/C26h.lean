import ShVerif.Proofs.C26g
/-
  C26 — simulation: pipelines (left side in a subshell, right side — a simple command — in the
  runner itself / in a subshell).
-/
namespace ShVerif.C26
open ShVerif.L5 ShVerif.L5.Bash

/-- Status and output of a last-stage command. -/
def pureEff (vars : List (Str × Str)) (last : Nat) : Cmd → Nat × Str
  | .fls => (1, [])
  | .echo w => (0, expandWord vars last w ++ [10])
  | .test x neg v => (if (lookupVar vars x == v) != neg then 0 else 1, [])
  | _ => (0, [])

theorem run_stmt_ge2 {n : Nat} {st : Stmt} {s s' : St} (h : run n (.stmt st) s = some s')
    (hs : stop s = false) : 2 ≤ n := by
  cases n with
  | zero => simp [run] at h
  | succ m =>
    cases m with
    | zero =>
      cases st with
      | mk neg c => simp [run, hs] at h
    | succ k => omega

theorem sem_stmt_ge2 {n : Nat} {k : Ctx} {st : Stmt} {e : Env} {r : Flow × Env}
    (h : sem n k (.stmt st) e = some r) : 2 ≤ n := by
  cases n with
  | zero => simp [sem] at h
  | succ m =>
    cases m with
    | zero =>
      cases st with
      | mk neg c => simp [sem] at h
    | succ k => omega

/-- The runner after a last-stage command run as a statement. -/
def afterPure (c : Cmd) (s : St) : St :=
  let r := pureEff s.vars s.lastExit.code c
  let fire := decide (r.1 ≠ 0) && !s.noErrExit && s.errexit
  { s with lastExpandExit := {}, exit := { code := r.1, exiting := fire },
           lastExit := { code := r.1, exiting := fire }, out := s.out ++ r.2 }

theorem run_pure_stmt (m : Nat) (c : Cmd) (hc : pipeRCmd c = true) (s : St) (hs : NoFlags s)
    (hce : s.callbackErr = .nil) :
    run (m+2) (.stmt (.mk false c)) s = some (afterPure c s) := by
  have hns := not_stop hs
  rw [run_stmt_nonneg (m+1) c s hns]
  cases c <;> simp [pipeRCmd] at hc
  case tru =>
    simp [run, stop, mwrap, Cmd.isAndOr, Exit.ok, afterPure, pureEff]
  case fls =>
    by_cases h1 : s.noErrExit = true
    · simp [run, stop, mwrap, Cmd.isAndOr, Exit.ok, afterPure, pureEff, h1]
    · have h1' : s.noErrExit = false := by simpa using h1
      by_cases h2 : s.errexit = true
      · simp [run, stop, mwrap, Cmd.isAndOr, Exit.ok, afterPure, pureEff, h1', h2, hce, Prog.isNil]
      · have h2' : s.errexit = false := by simpa using h2
        simp [run, stop, mwrap, Cmd.isAndOr, Exit.ok, afterPure, pureEff, h1', h2', hce, Prog.isNil]
  case echo w =>
    simp [run, stop, mwrap, Cmd.isAndOr, Exit.ok, afterPure, pureEff]
  case test x neg v =>
    by_cases h0 : ((lookupVar s.vars x == v) != neg) = true
    · simp [run, stop, mwrap, Cmd.isAndOr, Exit.ok, afterPure, pureEff, h0]
    · have h0' : ((lookupVar s.vars x == v) != neg) = false := by simpa using h0
      by_cases h1 : s.noErrExit = true
      · simp [run, stop, mwrap, Cmd.isAndOr, Exit.ok, afterPure, pureEff, h0', h1]
      · have h1' : s.noErrExit = false := by simpa using h1
        by_cases h2 : s.errexit = true
        · simp [run, stop, mwrap, Cmd.isAndOr, Exit.ok, afterPure, pureEff, h0', h1', h2, hce, Prog.isNil]
        · have h2' : s.errexit = false := by simpa using h2
          simp [run, stop, mwrap, Cmd.isAndOr, Exit.ok, afterPure, pureEff, h0', h1', h2', hce, Prog.isNil]

theorem sem_pure_stmt (m : Nat) (k : Ctx) (c : Cmd) (hc : pipeRCmd c = true) (e : Env)
    (hte : e.trapErr = .nil) :
    sem (m+2) k (.stmt (.mk false c)) e =
      some (if (decide ((pureEff e.vars e.status c).1 ≠ 0) && !k.ign && e.errexit) = true
              then Flow.exit else Flow.norm,
            { e with status := (pureEff e.vars e.status c).1,
                     out := e.out ++ (pureEff e.vars e.status c).2 }) := by
  rw [sem_stmt_nonneg (m+1) k c e]
  cases c <;> simp [pipeRCmd] at hc
  case tru =>
    simp [sem, swrap, isChecked, pureEff]
  case fls =>
    by_cases h1 : k.ign = true
    · simp [sem, swrap, isChecked, pureEff, h1]
    · have h1' : k.ign = false := by simpa using h1
      by_cases h2 : e.errexit = true
      · simp [sem, swrap, isChecked, pureEff, h1', h2, hte, Prog.isNil, errAction]
      · have h2' : e.errexit = false := by simpa using h2
        simp [sem, swrap, isChecked, pureEff, h1', h2', hte, Prog.isNil, errAction]
  case echo w =>
    simp [sem, swrap, isChecked, pureEff]
  case test x neg v =>
    by_cases h0 : ((lookupVar e.vars x == v) != neg) = true
    · simp [sem, swrap, isChecked, pureEff, h0]
    · have h0' : ((lookupVar e.vars x == v) != neg) = false := by simpa using h0
      by_cases h1 : k.ign = true
      · simp [sem, swrap, isChecked, pureEff, h0', h1]
      · have h1' : k.ign = false := by simpa using h1
        by_cases h2 : e.errexit = true
        · simp [sem, swrap, isChecked, pureEff, h0', h1', h2, hte, Prog.isNil, errAction]
        · have h2' : e.errexit = false := by simpa using h2
          simp [sem, swrap, isChecked, pureEff, h0', h1', h2', hte, Prog.isNil, errAction]

theorem foldStmts_single (f : Stmt → St → Option St) (x : Stmt) (s : St) :
    foldStmts f (.cons x .nil) s = f x s := by
  rw [foldStmts]
  cases f x s with
  | none => rfl
  | some s1 => rfl

theorem run_pipe (n : Nat) (x y : Stmt) (s : St) (hs : stop s = false) :
    run (n+1) (.cmd (.pipe x y)) s =
      match run n (.stmt x) (subshellOf s []) with
      | none => none
      | some r2 =>
        match run n (.stmt y) s with
        | none => none
        | some s1 =>
          if s1.pipefail && r2.exit.code != 0 && s1.exit.ok then
            some { s1 with exit := { r2.exit with exiting := false } }
          else some s1 := by
  rw [run]; simp only [hs, Bool.false_eq_true, ↓reduceIte]; rfl

theorem sem_pipe (n : Nat) (k : Ctx) (x y : Stmt) (e : Env) :
    sem (n+1) k (.cmd (.pipe x y)) e =
      match subRun (fun st => sem n { k with depth := 0 } (.stmt st))
          (fun a e' => sem n { k with depth := 0, exitTrap := true } (.trap a) e') (.cons x .nil) (subEnv e []) with
      | none => none
      | some (_, e1) =>
        match subRun (fun st => sem n { k with depth := 0 } (.stmt st))
            (fun a e' => sem n { k with depth := 0, exitTrap := true } (.trap a) e') (.cons y .nil) (subEnv e e.out) with
        | none => none
        | some (_, e2) =>
          some (.norm, { e with status := if e.pipefail && e2.status = 0 then e1.status else e2.status,
                                out := e2.out }) := by
  rw [sem]; rfl

theorem sim_pipe {n : Nat} (hS : SimS n) {K : SCtx} {k : Ctx} {sub : Bool} {s : St} (x y : Stmt)
    (hst : Stat K k sub) (hs : supCmd K (.pipe x y) = true) (hd : Dyn K k sub s) (hl : LastOk s)
    (hp : NoPending s) (hx : s.exit = {}) :
    Rel (PostC K k sub (.pipe x y) s) (run (n+1) (.cmd (.pipe x y)) s)
      (sem (n+1) k (.cmd (.pipe x y)) (absEnv s)) := by
  simp only [supCmd, Bool.and_eq_true, Bool.not_eq_eq_eq_not, Bool.not_true] at hs
  obtain ⟨⟨hne, hsx⟩, hsy⟩ := hs
  have hne' := subNe_of (K := K) hne
  obtain ⟨nx, cx⟩ := x
  obtain ⟨ny, cy⟩ := y
  cases nx with
  | true => simp [supPipeL] at hsx
  | false =>
  cases ny with
  | true => simp [supPipeR] at hsy
  | false =>
  have hcy : pipeRCmd cy = true := by simpa [supPipeR] using hsy
  have hsupx : supProg (subK K.e) false (.cons (.mk false cx) .nil) = true := by
    simp only [supPipeL, subCtx_eq] at hsx
    simp [supProg, supStmt, hsx]
  have h0 := sim_subrun hS (.cons (.mk false cx) .nil) [] 0 hst hne' rfl hsupx hd hl hx
  rw [foldStmts_single] at h0
  rw [run_pipe n _ _ s (stop_false_of_exit hx), sem_pipe]
  cases hr : run n (.stmt (.mk false cx)) (subshellOf s []) with
  | none => rw [hr] at h0; rw [SubRel_none h0]; trivial
  | some r2 =>
    rw [hr] at h0
    obtain ⟨e1, he, h1, _, h3⟩ := SubRel_some h0
    rw [he]
    have hn2 : 2 ≤ n := run_stmt_ge2 hr (by simp [stop, subshellOf, hx])
    obtain ⟨m, rfl⟩ : ∃ m, n = m + 2 := ⟨n - 2, by omega⟩
    -- the last stage
    have hy := run_pure_stmt m cy hcy s (noFlags_of_exit hx) hd.cerr
    obtain ⟨fl2, hys⟩ : ∃ fl2, sem (m+2) { k with depth := 0 } (.stmt (.mk false cy))
        (subEnv (absEnv s) (absEnv s).out) = some (fl2,
          { subEnv (absEnv s) (absEnv s).out with
            status := (pureEff s.vars s.lastExit.code cy).1,
            out := s.out ++ (pureEff s.vars s.lastExit.code cy).2 }) :=
      ⟨_, sem_pure_stmt m { k with depth := 0 } cy hcy (subEnv (absEnv s) (absEnv s).out) rfl⟩
    have hsub2 : subRun (fun st => sem (m+2) { k with depth := 0 } (.stmt st))
        (fun a e' => sem (m+2) { k with depth := 0, exitTrap := true } (.trap a) e') (.cons (.mk false cy) .nil)
        (subEnv (absEnv s) (absEnv s).out) =
        some (.norm, { subEnv (absEnv s) (absEnv s).out with
          status := (pureEff s.vars s.lastExit.code cy).1,
          out := s.out ++ (pureEff s.vars s.lastExit.code cy).2 }) := by
      unfold subRun
      rw [seqList, hys]
      cases fl2 <;> simp [seqList, sem_trap_nil, subEnv]
    rw [hy, hsub2]
    simp only
    -- combine
    have hpf : (afterPure cy s).pipefail = s.pipefail := rfl
    have hcode : (afterPure cy s).exit.code = (pureEff s.vars s.lastExit.code cy).1 := rfl
    have hdyn : Dyn K k sub (afterPure cy s) := hd.congr rfl rfl rfl rfl rfl rfl rfl rfl
    have hpend : NoPending (afterPure cy s) := hp
    generalize hcd : (pureEff s.vars s.lastExit.code cy).1 = code at *
    generalize hod : (pureEff s.vars s.lastExit.code cy).2 = o at *
    by_cases hc1 : (s.pipefail && r2.exit.code != 0 && (afterPure cy s).exit.ok) = true
    · -- pipefail takes the status of the left side
      rw [hpf, if_pos hc1]
      simp only [Bool.and_eq_true, bne_iff_ne, ne_eq] at hc1
      obtain ⟨⟨hpf1, hr2⟩, hok⟩ := hc1
      have hc0 : code = 0 := by simpa [Exit.ok, hcode] using hok
      left
      simp only [Post]
      refine ⟨?_, hd.congr rfl rfl rfl rfl rfl rfl rfl rfl, ⟨rfl, rfl, rfl⟩, ⟨h3, rfl⟩, hp,
        fun h => h.elim, fun h => by simp [isChecked] at h⟩
      simp [absEnv, absEnvC, afterPure, hcd, hod, hc0, hpf1, h1]
    · rw [hpf, if_neg hc1]
      have hstat : (if ((absEnv s).pipefail && decide (code = 0)) = true then e1.status else code) = code := by
        split
        · rename_i h
          simp only [Bool.and_eq_true, decide_eq_true_eq] at h
          have hpf1 : s.pipefail = true := h.1
          have hc0 : code = 0 := h.2
          have hok : (afterPure cy s).exit.ok = true := by simp [Exit.ok, hcode, hc0]
          have : r2.exit.code = 0 := by
            simp only [hpf1, hok, Bool.true_and, Bool.and_true, bne_iff_ne, ne_eq, Decidable.not_not] at hc1
            exact hc1
          rw [h1, this, hc0]
        · rfl
      by_cases hfire : (afterPure cy s).exit.exiting = true
      · -- the last stage failed under errexit, in the runner itself
        right
        have hf : (decide (code ≠ 0) && !s.noErrExit && s.errexit) = true := by
          have : (afterPure cy s).exit.exiting = (decide (code ≠ 0) && !s.noErrExit && s.errexit) := by
            simp [afterPure, hcd]
          rw [← this]; exact hfire
        simp only [Bool.and_eq_true, decide_eq_true_eq, Bool.not_eq_eq_eq_not, Bool.not_true] at hf
        refine ⟨rfl, rfl, ?_, hdyn, ⟨rfl, rfl, rfl⟩, hpend, rfl, hfire, hf.2, hf.1.2, ?_⟩
        · simp only [hstat]
          simp [absEnv, absEnvC, afterPure, hcd, hod]
        · rw [hcode]; exact hf.1.1
      · left
        simp only [Post]
        refine ⟨?_, hdyn, ⟨rfl, rfl, rfl⟩, ⟨rfl, by simpa using hfire⟩, hpend,
          fun h => h.elim, fun h => by simp [isChecked] at h⟩
        simp only [hstat]
        simp [absEnv, absEnvC, afterPure, hcd, hod]

end ShVerif.C26
