/-
  C07 — the remaining primitives and client programs.
-/
import ShVerif.Proofs.C07Look
namespace ShVerif.C07
open ShVerif ShVerif.L2
set_option linter.unusedSimpArgs false

theorem R.setLit {s a} (h : R s a) (x : Option (List Byte)) :
    R { s with lit := x } { a with lit := x } := by
  destruct_R h
  constructor <;> simp_all <;> assumption

theorem R.setBq {s a} (h : R s a) (o d : Nat) :
    R { s with openBq := o, openBqDbl := d } { a with openBq := o, openBqDbl := d } := by
  destruct_R h
  constructor <;> simp_all <;> assumption

theorem newLit_refines {s a} (h : R s a) (r : Nat) :
    ∃ s', s.newLit r = .ok s' ∧ R s' (a.newLit r) := by
  unfold LSt.newLit St.newLit
  split
  · exact ⟨_, rfl, h.setLit _⟩
  · split
    · exact ⟨_, rfl, h.setLit _⟩
    · exact ⟨_, rfl, h.setLit _⟩

theorem endLit_refines {s a} (h : R s a) (hok : a.endLit.2.ok = true) :
    ∃ s', s.endLit = .ok (a.endLit.1, s') ∧ R s' a.endLit.2 := by
  unfold LSt.endLit at hok ⊢
  unfold St.endLit
  have hr := h.f_r
  have hw := h.f_w
  have hl := h.f_lit
  by_cases h1 : (a.r == runeEOF || a.r == escNewl) = true
  · have h1' : (s.r == runeEOF || s.r == escNewl) = true := by rw [← hr]; exact h1
    simp only [h1, h1', if_true]
    exact ⟨_, by rw [hl]; rfl, h.setLit none⟩
  · have e1 : (a.r == runeEOF || a.r == escNewl) = false := by simpa using h1
    have e1' : (s.r == runeEOF || s.r == escNewl) = false := by rw [← hr]; exact e1
    simp only [e1, e1', Bool.false_eq_true, if_false] at hok ⊢
    simp at hok
    have : ¬ s.w > (s.lit.getD []).length := by rw [← hw, ← hl]; omega
    simp only [this, if_false]
    exact ⟨_, by rw [hl, hw]; rfl, (h.setLit none).setOk _⟩

theorem pos_refines {s a} (h : R s a) (hok : a.pos.2.ok = true) :
    s.nextPos = a.pos.1 ∧ R s a.pos.2 := by
  unfold LSt.pos at hok ⊢
  simp at hok
  exact ⟨nextPos_eq h (by simpa using hok.2), h.setOk _⟩

/-! ### `ok` only ever goes down -/

theorem runePre_ok (a : LSt) : a.runePre.ok = a.ok := by
  unfold LSt.runePre; simp only; split <;> rfl

theorem rune_ok_le (a : LSt) (h : a.rune.2.ok = true) : a.ok = true := by
  unfold LSt.rune at h
  simp only at h
  rw [← runePre_ok]
  exact loop_ok_le _ _ _ h

theorem newLit_ok (a : LSt) (r : Nat) : (a.newLit r).ok = a.ok := by
  unfold LSt.newLit
  split
  · rfl
  · split <;> rfl

theorem newLit_ok_le (a : LSt) (r : Nat) (h : (a.newLit r).ok = true) : a.ok = true := by
  rw [newLit_ok] at h; exact h

theorem endLit_ok_le (a : LSt) (h : a.endLit.2.ok = true) : a.ok = true := by
  unfold LSt.endLit at h
  simp only at h
  split at h
  · exact h
  · simp at h; exact h.1

theorem pos_ok_le (a : LSt) (h : a.pos.2.ok = true) : a.ok = true := by
  unfold LSt.pos at h; simp at h; exact h.1

theorem zshNum_ok_le (a : LSt) (h : a.zshNum.2.ok = true) : a.ok = true :=
  ((zshNum_ok_iff a).mp h).1

theorem stopAt_ok_le' (a : LSt) (r : Nat) (h : (a.stopAt r).2.ok = true) : a.ok = true :=
  forget_ok_le (stopAt_ok_le a r h)

theorem peek_ok_le' (a : LSt) (h : a.peek.2.ok = true) : a.ok = true := peek_ok_le a h

theorem specRun_ok_le {α : Type} (p : Prog α) : ∀ (a : LSt), (specRun p a).2.ok = true → a.ok = true := by
  induction p with
  | ret x => intro a h; exact h
  | rune k ih => intro a h; unfold specRun at h; exact rune_ok_le a (ih _ _ h)
  | peek k ih => intro a h; unfold specRun at h; exact peek_ok_le a (ih _ _ h)
  | peekTwo k ih => intro a h; unfold specRun at h; exact peekTwo_ok_le a (ih _ _ _ h)
  | zshNum k ih => intro a h; unfold specRun at h; exact zshNum_ok_le a (ih _ _ h)
  | stopAt r k ih => intro a h; unfold specRun at h; exact stopAt_ok_le' a r (ih _ _ h)
  | newLit r k ih => intro a h; unfold specRun at h; exact newLit_ok_le a r (ih _ h)
  | endLit k ih => intro a h; unfold specRun at h; exact endLit_ok_le a (ih _ _ h)
  | pos k ih => intro a h; unfold specRun at h; exact pos_ok_le a (ih _ _ _ _ h)
  | setBquotes o d k ih => intro a h; unfold specRun at h; exact ih { a with openBq := o, openBqDbl := d } h
  | getRW k ih => intro a h; unfold specRun at h; exact ih _ _ _ h
  | lastBq k ih => intro a h; unfold specRun at h; exact ih _ _ h
  | litGet k ih => intro a h; unfold specRun at h; exact ih _ _ h
  | litAppend bs k ih => intro a h; unfold specRun at h; exact ih { a with lit := some (bs.reverse ++ a.lit.getD []) } h
  | litDrop k ih => intro a h; unfold specRun at h; exact ih { a with lit := none } h
  | errPass k ih => intro a h; unfold specRun at h; have := ih _ h; simpa using this
  | errGet k ih => intro a h; unfold specRun at h; exact ih _ _ h

/-- **Refinement for client programs**: a client that stays inside the protocol gets, from the
    chunked byte source under any schedule, exactly the results of the unchunked one — and no
    Go run-time panic. -/
theorem client_refines {α : Type} (p : Prog α) : ∀ {s : St} {a : LSt}, R s a →
    (specRun p a).2.ok = true →
    ∃ s', p.run s = .ok ((specRun p a).1, s') ∧ R s' (specRun p a).2 := by
  induction p with
  | ret x => intro s a h _; exact ⟨s, rfl, h⟩
  | rune k ih =>
    intro s a h hok
    unfold specRun at hok ⊢
    unfold Prog.run
    obtain ⟨s1, h1, hR1⟩ := rune_refines h (specRun_ok_le _ _ hok)
    simp only [h1, bind_ok]
    exact ih _ hR1 hok
  | peek k ih =>
    intro s a h hok
    unfold specRun at hok ⊢
    unfold Prog.run
    obtain ⟨s1, h1, hR1⟩ := peek_refines h (specRun_ok_le _ _ hok)
    simp only [h1, bind_ok]
    exact ih _ hR1 hok
  | peekTwo k ih =>
    intro s a h hok
    unfold specRun at hok ⊢
    unfold Prog.run
    obtain ⟨s1, h1, hR1⟩ := peekTwo_refines h (specRun_ok_le _ _ hok)
    simp only [h1, bind_ok]
    exact ih _ _ hR1 hok
  | zshNum k ih =>
    intro s a h hok
    unfold specRun at hok ⊢
    unfold Prog.run
    obtain ⟨s1, h1, hR1⟩ := zshNum_refines h (specRun_ok_le _ _ hok)
    simp only [h1, bind_ok]
    exact ih _ hR1 hok
  | stopAt r k ih =>
    intro s a h hok
    unfold specRun at hok ⊢
    unfold Prog.run
    obtain ⟨s1, h1, hR1⟩ := stopAt_refines h r (specRun_ok_le _ _ hok)
    simp only [h1, bind_ok]
    exact ih _ hR1 hok
  | newLit r k ih =>
    intro s a h hok
    unfold specRun at hok ⊢
    unfold Prog.run
    obtain ⟨s1, h1, hR1⟩ := newLit_refines h r
    simp only [h1, bind_ok]
    exact ih hR1 hok
  | endLit k ih =>
    intro s a h hok
    unfold specRun at hok ⊢
    unfold Prog.run
    obtain ⟨s1, h1, hR1⟩ := endLit_refines h (specRun_ok_le _ _ hok)
    simp only [h1, bind_ok]
    exact ih _ hR1 hok
  | pos k ih =>
    intro s a h hok
    unfold specRun at hok ⊢
    unfold Prog.run
    obtain ⟨h1, hR1⟩ := pos_refines h (specRun_ok_le _ _ hok)
    rw [h1]
    exact ih _ _ _ hR1 hok
  | setBquotes o d k ih =>
    intro s a h hok
    unfold specRun at hok ⊢
    unfold Prog.run
    exact ih (h.setBq o d) hok
  | getRW k ih =>
    intro s a h hok
    unfold specRun at hok ⊢
    unfold Prog.run
    rw [← h.f_r, ← h.f_w]
    exact ih _ _ h hok
  | lastBq k ih =>
    intro s a h hok
    unfold specRun at hok ⊢
    unfold Prog.run
    rw [← h.f_lastBqEsc]
    exact ih _ h hok
  | litGet k ih =>
    intro s a h hok
    unfold specRun at hok ⊢
    unfold Prog.run
    rw [← h.f_lit]
    exact ih _ h hok
  | litAppend bs k ih =>
    intro s a h hok
    unfold specRun at hok ⊢
    unfold Prog.run
    rw [← h.f_lit]
    exact ih (h.setLit _) hok
  | litDrop k ih =>
    intro s a h hok
    unfold specRun at hok ⊢
    unfold Prog.run
    exact ih (h.setLit none) hok
  | errPass k ih =>
    intro s a h hok
    unfold specRun at hok ⊢
    unfold Prog.run
    exact ih (errPass_refines h .client) hok
  | errGet k ih =>
    intro s a h hok
    unfold specRun at hok ⊢
    unfold Prog.run
    rw [← h.f_err]
    exact ih _ h hok

theorem R_init (input : List Byte) (sched : List Nat) (eofWith : Bool) (stopPat : List Byte)
    (hs : stopPat.length ≤ 4) :
    R (init input sched eofWith stopPat) (LSt.init input stopPat) := by
  unfold init LSt.init
  constructor <;> simp [runeEOF, hs]

end ShVerif.C07
