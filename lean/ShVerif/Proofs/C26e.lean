import ShVerif.Proofs.C26d
/-
  C26 — simulation: statement lists (`Runner.stmts` against sequential execution in `BashSem`).
-/
namespace ShVerif.C26
open ShVerif.L5 ShVerif.L5.Bash

theorem Post.frame_trans {K : SCtx} {k : Ctx} {sub : Bool} {le q : Prop} {s s1 s' : St} {fl : Flow}
    {e' : Env} (hf : Frame s s1) (h : Post K k sub le q s1 s' fl e') :
    Post K k sub le q s s' fl e' := by
  cases fl with
  | norm =>
    obtain ⟨h1, h2, h3, h4⟩ := h
    exact ⟨h1, h2, hf.trans h3, h4⟩
  | brk m =>
    obtain ⟨h1, h2, h3, h4⟩ := h
    exact ⟨h1, h2, hf.trans h3, h4⟩
  | cont m =>
    obtain ⟨h1, h2, h3, h4⟩ := h
    exact ⟨h1, h2, hf.trans h3, h4⟩
  | ret =>
    obtain ⟨h1, h2, h3, h4⟩ := h
    exact ⟨h1, h2, hf.trans h3, h4⟩
  | exit => exact h

theorem Stat.toHF {K : SCtx} {k : Ctx} {sub : Bool} (h : Stat K k sub) :
    Stat { K with tl := headFalse K.tl } k sub :=
  ⟨h.kt, h.kign, h.knign, h.kfn, by simpa [headFalse_length] using h.depth, h.top⟩

theorem Dyn.toHF {K : SCtx} {k : Ctx} {sub : Bool} {s : St} (h : Dyn K k sub s) :
    Dyn { K with tl := headFalse K.tl } k sub s :=
  ⟨h.cerr, h.csub, h.fok, h.ht, h.eign, h.noe, h.sfn,
    fun hne => h.inl ((headFalse_ne_nil K.tl).1 hne)⟩

theorem Dyn.ofHF {K : SCtx} {k : Ctx} {sub : Bool} {s : St}
    (h : Dyn { K with tl := headFalse K.tl } k sub s) : Dyn K k sub s :=
  ⟨h.cerr, h.csub, h.fok, h.ht, h.eign, h.noe, h.sfn,
    fun hne => h.inl ((headFalse_ne_nil K.tl).2 hne)⟩

/-- A completion at a non-tail position, seen from the enclosing position: no `break`/`continue`
    can have come out of it. -/
theorem Post.ofHF {K : SCtx} {k : Ctx} {sub : Bool} {le q : Prop} {s s' : St} {fl : Flow}
    {e' : Env} (h : Post { K with tl := headFalse K.tl } k sub le q s s' fl e') :
    Post K k sub le q s s' fl e' ∧ (∀ m, fl ≠ .brk m) ∧ (∀ m, fl ≠ .cont m) := by
  cases fl with
  | norm =>
    obtain ⟨h1, h2, h3⟩ := h
    exact ⟨⟨h1, h2.ofHF, h3⟩, by simp, by simp⟩
  | brk m =>
    obtain ⟨_, _, _, _, _, _, hl, _⟩ := h
    exact absurd hl (not_levels_headFalse K m)
  | cont m =>
    obtain ⟨_, _, _, _, _, _, hl, _⟩ := h
    exact absurd hl (not_levels_headFalse K m)
  | ret =>
    obtain ⟨h1, h2, h3⟩ := h
    exact ⟨⟨h1, h2.ofHF, h3⟩, by simp, by simp⟩
  | exit => exact ⟨h, by simp, by simp⟩

/-- After an abnormal completion that stops the runner, the rest of a list is skipped. -/
theorem Post.stopped {K : SCtx} {k : Ctx} {sub : Bool} {le q : Prop} {s s' : St} {fl : Flow}
    {e' : Env} (h : Post K k sub le q s s' fl e') (h1 : fl = .ret ∨ fl = .exit) : stop s' = true := by
  rcases h1 with h1 | h1 <;> subst h1
  · obtain ⟨_, hd, _, _, hr, _⟩ := h
    exact stop_of_returning hr hd.ht
  · obtain ⟨hx, _, _, _, _, _, hht, _, _, _⟩ := h
    exact stop_of_exiting hx hht

theorem Post.change_q_abnormal {K : SCtx} {k : Ctx} {sub : Bool} {le q q' : Prop} {s s' : St}
    {fl : Flow} {e' : Env} (h : Post K k sub le q s s' fl e') (hfl : fl ≠ .norm) :
    Post K k sub le q' s s' fl e' := by
  cases fl with
  | norm => exact absurd rfl hfl
  | brk m => exact h
  | cont m => exact h
  | ret => exact h
  | exit => exact h

/-- The errexit test does nothing where `-e` is off or ignored. -/
theorem quiet_of_tail {K : SCtx} {k : Ctx} {sub : Bool} {s' : St} (hst : Stat K k sub)
    (hd : Dyn K k sub s') (h : K.e = false ∨ K.ign = true) : Quiet s' := by
  intro _ hne
  cases hk : K.e with
  | false => exact hd.noe hk
  | true =>
    rcases h with h | h
    · rw [hk] at h; cases h
    · have := hd.eign hk
      rw [hst.kign h] at this
      rw [this] at hne; cases hne

theorem sim_list (n : Nat) (hS : SimS n) :
    ∀ (p : Prog) (K : SCtx) (tailRule : Bool) (k : Ctx) (sub : Bool) (s : St),
      p.isNil = false → Stat K k sub → supProg K tailRule p = true → Dyn K k sub s → LastOk s →
      NoFlags s → NoPending s →
      Rel (Post K k sub True (tailRule = true) s)
        (foldStmts (fun st => run n (.stmt st)) p s)
        (seqList (fun st => sem n k (.stmt st)) p (absEnv s))
  | .nil, _, _, _, _, _, hnil, _, _, _, _, _, _ => by simp [Prog.isNil] at hnil
  | .cons st .nil, K, tailRule, k, sub, s, _, hst, hsup, hd, hl, hnf, hnp => by
    simp only [supProg, Bool.and_eq_true, Bool.or_eq_true, Bool.not_eq_eq_eq_not, Bool.not_true] at hsup
    obtain ⟨hs1, htail⟩ := hsup
    have h0 := hS K k sub st s hst hs1 hd hl hnf hnp
    simp only [foldStmts, seqList]
    cases hr : run n (.stmt st) s with
    | none => rw [hr] at h0; rw [Rel_none h0]; trivial
    | some s1 =>
      rw [hr] at h0
      obtain ⟨fl, e1, he, hp⟩ := Rel_some h0
      rw [he]
      cases fl with
      | norm =>
        obtain ⟨h1, h2, h3, h4, h5, h6, h7⟩ := hp
        subst h1
        simp only [Rel, Post]
        refine ⟨by triv, h2, h3, h4, h5, h6, ?_⟩
        intro ht
        rcases htail with ((hx | hx) | hx) | hx
        · rw [ht] at hx; cases hx
        · exact quiet_of_tail hst h2 (Or.inl hx)
        · exact quiet_of_tail hst h2 (Or.inr hx)
        · exact h7 hx
      | brk m => exact hp
      | cont m => exact hp
      | ret => exact hp
      | exit => exact hp
  | .cons st (.cons st2 rest), K, tailRule, k, sub, s, _, hst, hsup, hd, hl, hnf, hnp => by
    simp only [supProg, Bool.and_eq_true] at hsup
    obtain ⟨hs1, hrest⟩ := hsup
    have h0 := hS _ k sub st s hst.toHF hs1 hd.toHF hl hnf hnp
    rw [foldStmts, seqList]
    cases hr : run n (.stmt st) s with
    | none => rw [hr] at h0; rw [Rel_none h0]; trivial
    | some s1 =>
      rw [hr] at h0
      obtain ⟨fl, e1, he, hp⟩ := Rel_some h0
      rw [he]
      obtain ⟨hp', hnb, hnc⟩ := hp.ofHF
      have hn1 : 1 ≤ n := run_pos hr
      cases fl with
      | norm =>
        obtain ⟨h1, h2, h3, h4, h5, h6, _⟩ := hp'
        subst h1
        have hle : s1.lastExit = s1.exit := h6 trivial
        have hae : absEnvC s1 = absEnv s1 := by simp [absEnv, absEnvC, hle]
        have ih := sim_list n hS (.cons st2 rest) K tailRule k sub s1 rfl hst hrest h2
          (LastOk_of_le hle h4) h4 h5
        simp only
        rw [hae]
        exact Rel_mono (fun _ _ _ h => h.frame_trans h3) ih
      | brk m => exact absurd rfl (hnb m)
      | cont m => exact absurd rfl (hnc m)
      | ret =>
        have hs := hp'.stopped (Or.inl rfl)
        simp only
        rw [foldStmts_stopped hn1 _ s1 hs]
        exact (hp'.change_q_abnormal (q' := tailRule = true) (by simp) :)
      | exit =>
        have hs := hp'.stopped (Or.inr rfl)
        simp only
        rw [foldStmts_stopped hn1 _ s1 hs]
        exact (hp'.change_q_abnormal (q' := tailRule = true) (by simp) :)

end ShVerif.C26
