import ShVerif.Proofs.C26h
/-
  C26 — simulation: `if`/`elif`/`else`.
-/
namespace ShVerif.C26
open ShVerif.L5 ShVerif.L5.Bash

/-- `else p`: the runner runs an `IfClause` with an empty condition, `BashSem` a group. -/
def SimE (n : Nat) : Prop :=
  ∀ (K : SCtx) (k : Ctx) (sub : Bool) (p : Prog) (s : St),
    Stat K k sub → p.isNil = false → supProg K true p = true → Dyn K k sub s → LastOk s →
    NoPending s → s.exit = {} →
    Rel (Post K k sub False True s) (run n (.cmd (.ifc .nil p .none)) s)
      (sem n k (.cmd (.block p)) (absEnv s))

theorem St.noErrExit_roundtrip (s : St) :
    ({ { s with noErrExit := true } with noErrExit := s.noErrExit } : St) = s := by
  cases s; rfl

theorem simE_step (n : Nat) (hS : SimS n) : SimE (n+1) := by
  intro K k sub p s hst hp0 hsup hd hl hp hx
  have hrun : run (n+1) (.cmd (.ifc .nil p .none)) s = foldStmts (fun st => run n (.stmt st)) p s := by
    rw [run]
    simp only [stop_false_of_exit hx, Bool.false_eq_true, ↓reduceIte, foldStmts]
    simp only [hx]
    simp only [Exit.ok, beq_self_eq_true, ↓reduceIte]
    congr 1
    cases s
    simp only at hx
    subst hx
    rfl
  have hsem : sem (n+1) k (.cmd (.block p)) (absEnv s) =
      seqList (fun st => sem n k (.stmt st)) p (absEnv s) := by
    rw [sem]
  rw [hrun, hsem]
  have h := sim_list n hS p K true k sub s hp0 hst hsup hd hl (noFlags_of_exit hx) hp
  exact Rel_mono (fun _ _ _ h => (h.mono_q (fun _ => rfl)).weaken_le) h

theorem run_ifc (n : Nat) (c t : Prog) (e : Else) (s : St) (hs : stop s = false) :
    run (n+1) (.cmd (.ifc c t e)) s =
      match foldStmts (fun st => run n (.stmt st)) c { s with noErrExit := true } with
      | none => none
      | some s1 =>
        if s1.exit.ok then
          foldStmts (fun st => run n (.stmt st)) t { s1 with noErrExit := s.noErrExit }
        else
          match e with
          | .none => some { s1 with noErrExit := s.noErrExit, exit := s1.exit.clear }
          | .els p => run n (.cmd (.ifc .nil p .none))
              { s1 with noErrExit := s.noErrExit, exit := s1.exit.clear }
          | .elif c2 t2 e2 => run n (.cmd (.ifc c2 t2 e2))
              { s1 with noErrExit := s.noErrExit, exit := s1.exit.clear } := by
  rw [run]; simp only [hs, Bool.false_eq_true, ↓reduceIte]
  cases foldStmts (fun st => run n (.stmt st)) c { s with noErrExit := true } with
  | none => rfl
  | some s1 => cases e <;> rfl

theorem sem_ifc (n : Nat) (k : Ctx) (c t : Prog) (el : Else) (e : Env) :
    sem (n+1) k (.cmd (.ifc c t el)) e =
      match seqList (fun st => sem n { k with ign := true } (.stmt st)) c e with
      | none => none
      | some (.norm, e1) =>
        if e1.status = 0 then seqList (fun st => sem n k (.stmt st)) t e1
        else
          match el with
          | .none => some (.norm, { e1 with status := 0 })
          | .els p => sem n k (.cmd (.block p)) e1
          | .elif c2 t2 e2 => sem n k (.cmd (.ifc c2 t2 e2)) e1
      | some r => some r := by
  rw [sem]; rfl

theorem clear_of_noFlags {x : Exit} (h1 : x.returning = false) (h2 : x.exiting = false) :
    x.clear = {} := by
  cases x
  simp only at h1 h2
  subst h1; subst h2
  simp [Exit.clear]

theorem clear_of_flag {x : Exit} (h : x.returning = true ∨ x.exiting = true) : x.clear = x := by
  rcases h with h | h <;> simp [Exit.clear, h]

theorem sim_ifc {n : Nat} (hS : SimS n) (hC : SimC n) (hE : SimE n) {K : SCtx} {k : Ctx}
    {sub : Bool} {s : St} (c t : Prog) (e : Else) (hst : Stat K k sub)
    (hs : supCmd K (.ifc c t e) = true) (hd : Dyn K k sub s) (hl : LastOk s) (hp : NoPending s)
    (hx : s.exit = {}) :
    Rel (Post K k sub False True s) (run (n+1) (.cmd (.ifc c t e)) s)
      (sem (n+1) k (.cmd (.ifc c t e)) (absEnv s)) := by
  simp only [supCmd, Bool.and_eq_true, Bool.not_eq_eq_eq_not, Bool.not_true] at hs
  obtain ⟨⟨⟨⟨hc0, hsc⟩, ht0⟩, hsT⟩, hse⟩ := hs
  rw [run_ifc n c t e s (stop_false_of_exit hx), sem_ifc]
  have h0 := sim_list n hS c (condK K) false { k with ign := true } sub { s with noErrExit := true }
    hc0 hst.cond hsc hd.cond hl (noFlags_of_exit hx) hp
  have hae : absEnv { s with noErrExit := true } = absEnv s := rfl
  rw [hae] at h0
  cases hr : foldStmts (fun st => run n (.stmt st)) c { s with noErrExit := true } with
  | none => rw [hr] at h0; rw [Rel_none h0]; trivial
  | some s1 =>
    rw [hr] at h0
    obtain ⟨fl, e1, he, hpc⟩ := Rel_some h0
    rw [he]
    have hn1 : 1 ≤ n := foldStmts_pos hc0 hr
    cases fl with
    | norm =>
      obtain ⟨h1, h2, h3, h4, h5, h6, _⟩ := hpc
      subst h1
      have hle : s1.lastExit = s1.exit := h6 trivial
      have hd2 : Dyn K k sub { s1 with noErrExit := s.noErrExit } := hd.uncond h2
      have hae2 : absEnvC s1 = absEnv { s1 with noErrExit := s.noErrExit } := by
        simp [absEnv, absEnvC, hle]
      simp only
      by_cases hok : s1.exit.ok = true
      · have hst0 : (absEnvC s1).status = 0 := by simpa [Exit.ok, absEnvC] using hok
        rw [if_pos hok, if_pos hst0, hae2]
        have ht := sim_list n hS t K true k sub { s1 with noErrExit := s.noErrExit } ht0 hst hsT hd2
          (LastOk_of_le hle h4) h4 h5
        exact Rel_mono (fun _ _ _ h => ((h.frame_trans h3.uncond).mono_q (fun _ => rfl)).weaken_le) ht
      · have hst0 : ¬ (absEnvC s1).status = 0 := by simpa [Exit.ok, absEnvC] using hok
        rw [if_neg hok, if_neg hst0]
        have hcl : s1.exit.clear = {} := clear_of_noFlags h4.1 h4.2
        have hd3 : Dyn K k sub { s1 with noErrExit := s.noErrExit, exit := s1.exit.clear } :=
          hd2.congr rfl rfl rfl rfl rfl rfl rfl rfl
        have hl1 : LastOk s1 := LastOk_of_le hle h4
        have hl3 : LastOk { s1 with noErrExit := s.noErrExit, exit := s1.exit.clear } := hl1
        have hf3 : Frame s { s1 with noErrExit := s.noErrExit, exit := s1.exit.clear } :=
          ⟨rfl, h3.il, h3.inf⟩
        have hae3 : absEnvC s1 = absEnv { s1 with noErrExit := s.noErrExit, exit := s1.exit.clear } :=
          hae2
        cases e with
        | none =>
          simp only [Rel, Post]
          refine ⟨?_, hd3, hf3, ?_, h5, fun h => h.elim, fun _ => ?_⟩
          · simp [absEnvC, hcl]
          · simp [NoFlags, hcl]
          · intro hne; simp [hcl] at hne
        | els p =>
          simp only [supElse, Bool.and_eq_true, Bool.not_eq_eq_eq_not, Bool.not_true] at hse
          rw [hae3]
          have := hE K k sub p _ hst hse.1 hse.2 hd3 hl3 h5 (by simp [hcl])
          exact Rel_mono (fun _ _ _ h => h.frame_trans hf3) this
        | elif c2 t2 e2 =>
          have hsup2 : supCmd K (.ifc c2 t2 e2) = true := by
            simp only [supElse] at hse
            simp only [supCmd]
            exact hse
          rw [hae3]
          have := hC K k sub (.ifc c2 t2 e2) _ hst hsup2 hd3 hl3 h5 (by simp [hcl])
          refine Rel_mono (fun _ _ _ h => ?_) this
          rcases h with h | h
          · exact (h.frame_trans hf3).mono_q (fun _ => ⟨rfl, rfl⟩)
          · exact absurd h.2.1 (by simp [softCmd])
    | brk m =>
      obtain ⟨_, _, _, _, _, _, hlv, _⟩ := hpc
      exact absurd hlv (not_levels_headFalse K m)
    | cont m =>
      obtain ⟨_, _, _, _, _, _, hlv, _⟩ := hpc
      exact absurd hlv (not_levels_headFalse K m)
    | ret =>
      have hs1 : stop s1 = true := hpc.stopped (Or.inl rfl)
      have hs2 : stop { s1 with noErrExit := s.noErrExit } = true := hs1
      have hpost := hpc.uncond (q' := True) hd (by simp)
      have hfl : s1.exit.returning = true := hpc.2.2.2.2.1
      simp only
      by_cases hok : s1.exit.ok = true
      · rw [if_pos hok, foldStmts_stopped hn1 t _ hs2]
        exact hpost
      · rw [if_neg hok, clear_of_flag (Or.inl hfl)]
        cases e with
        | none => exact hpost
        | els p => simp only; rw [run_cmd_stopped hn1 _ _ hs2]; exact hpost
        | elif c2 t2 e2 => simp only; rw [run_cmd_stopped hn1 _ _ hs2]; exact hpost
    | exit =>
      have hs1 : stop s1 = true := hpc.stopped (Or.inr rfl)
      have hs2 : stop { s1 with noErrExit := s.noErrExit } = true := hs1
      have hpost := hpc.uncond (q' := True) hd (by simp)
      have hfl : s1.exit.exiting = true := hpc.1
      simp only
      by_cases hok : s1.exit.ok = true
      · rw [if_pos hok, foldStmts_stopped hn1 t _ hs2]
        exact hpost
      · rw [if_neg hok, clear_of_flag (Or.inr hfl)]
        cases e with
        | none => exact hpost
        | els p => simp only; rw [run_cmd_stopped hn1 _ _ hs2]; exact hpost
        | elif c2 t2 e2 => simp only; rw [run_cmd_stopped hn1 _ _ hs2]; exact hpost

end ShVerif.C26
