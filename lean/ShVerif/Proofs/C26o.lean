import ShVerif.Proofs.C26n
/-
  C26 — simulation: the command step and the induction on the fuel.
-/
namespace ShVerif.C26
open ShVerif.L5 ShVerif.L5.Bash

theorem Rel.inl {K : SCtx} {k : Ctx} {sub : Bool} {c : Cmd} {s : St} {a : Option St} {r : Res}
    (h : Rel (Post K k sub False (isChecked c = false ∧ tailOkC c = true) s) a r) :
    Rel (PostC K k sub c s) a r :=
  Rel_mono (fun _ _ _ h => Or.inl h) h

theorem simC_step (n : Nat) (hS : SimS n) (hC : SimC n) (hW : SimW n) (hE : SimE n) :
    SimC (n+1) := by
  intro K k sub c s hst hs hd hl hp hx
  cases c with
  | tru => exact (sim_tru hd hp hx _).inl
  | fls => exact (sim_fls hd hp hx _ (by simp [isChecked])).inl
  | exit m => exact (sim_exit m hst hd hl hp hx _ _).inl
  | ret m => exact (sim_ret m hst hs hd hp hx _).inl
  | brk m => exact (sim_brk m hst hs hd hp hx _).inl
  | cont m => exact (sim_cont m hst hs hd hp hx _).inl
  | setE on => exact (sim_setE on hs hd hp hx _).inl
  | setPF on => exact (sim_setPF on hd hp hx _).inl
  | trapExit b => exact (sim_trapExit b hst hs hd hp hx _).inl
  | trapErr b => exact (sim_trapErr b hs hd hp hx _).inl
  | echo w => exact (sim_echo w hd hp hx _).inl
  | test x neg v => exact (sim_test x neg v hd hp hx _ (by simp [isChecked])).inl
  | assign x w => exact (sim_assign x w hd hp hx _).inl
  | assignSub x p => exact (sim_assignSub hS x p hst hs hd hl hp hx _ (by simp [isChecked])).inl
  | echoSub w1 p w2 => exact (sim_echoSub hS w1 p w2 hst hs hd hl hp hx _).inl
  | call f =>
    cases hf : lookupFn s.funcs f with
    | none => exact (sim_call_none f hf hd hp hx _ (by simp [isChecked])).inl
    | some body => exact sim_call hS f body hf hst hd hl hp hx
  | block p => exact (sim_block hS p hst hs hd hl hp hx _).inl
  | subsh p => exact (sim_subsh hS p hst hs hd hl hp hx _ (by simp [isChecked])).inl
  | and x y =>
    simp only [supCmd, Bool.and_eq_true] at hs
    have h := sim_andor hS true x y hst hs.1 hs.2 hd hl hp hx
    rw [run_and n x y s (stop_false_of_exit hx), sem_and]
    exact Rel.inl (Rel_mono (fun _ _ _ h' => Post.mono_q (fun hq => by simp [tailOkC] at hq) h') h)
  | or x y =>
    simp only [supCmd, Bool.and_eq_true] at hs
    have h := sim_andor hS false x y hst hs.1 hs.2 hd hl hp hx
    rw [run_or n x y s (stop_false_of_exit hx), sem_or]
    exact Rel.inl (Rel_mono (fun _ _ _ h' => Post.mono_q (fun hq => ⟨rfl, by simpa [tailOkC] using hq.2⟩) h') h)
  | pipe x y => exact sim_pipe hS x y hst hs hd hl hp hx
  | ifc c t e =>
    exact (Rel_mono (fun _ _ _ h => h.mono_q (fun _ => trivial)) (sim_ifc hS hC hE c t e hst hs hd hl hp hx)).inl
  | whl u c b =>
    have hrun : run (n+1) (.cmd (.whl u c b)) s = run n (.whl u c b) s := by
      rw [run]; simp only [stop_false_of_exit hx, Bool.false_eq_true, ↓reduceIte]
    have hsem : sem (n+1) k (.cmd (.whl u c b)) (absEnv s) = sem n k (.loop u c b 0) (absEnv s) := by
      rw [sem]
    rw [hrun, hsem]
    exact (Rel_mono (fun _ _ _ h => h.mono_q (fun _ => trivial))
      (hW K k sub u c b s hst hs hd hl (noFlags_of_exit hx) hp)).inl
  | forc x items b =>
    simp only [supCmd, Bool.and_eq_true, Bool.or_eq_true, Bool.not_eq_eq_eq_not, Bool.not_true] at hs
    obtain ⟨⟨hb0, hsb⟩, htail⟩ := hs
    have hrun : run (n+1) (.cmd (.forc x items b)) s =
        forLoop (fun st => run n (.stmt st)) x b items s := by
      rw [run]; simp only [stop_false_of_exit hx, Bool.false_eq_true, ↓reduceIte]
    have hsem : sem (n+1) k (.cmd (.forc x items b)) (absEnv s) =
        if items.isEmpty then some (.norm, { absEnv s with status := 0 })
        else forItems (fun st => sem n { k with depth := k.depth + 1 } (.stmt st)) x b items (absEnv s) := by
      rw [sem]
    rw [hrun, hsem]
    cases items with
    | nil =>
      simp only [forLoop, List.isEmpty_nil, ↓reduceIte, Rel, PostC, Post]
      left
      refine ⟨?_, hd, ⟨rfl, rfl, rfl⟩, noFlags_of_exit hx, hp, fun h => h.elim, fun _ => ?_⟩
      · simp [absEnvC, absEnv, hx]
      · exact quiet_of_zero (by simp [hx])
    | cons it rest =>
      simp only [List.isEmpty_cons, Bool.false_eq_true, ↓reduceIte]
      have hsb' : supBody (bodyK K) b = true := hsb
      have h := sim_forLoop hS x b (tailOk b = true) hst hb0 hsb' (fun h => h) (it :: rest) s hd hl
        (noFlags_of_exit hx) hp (fun h => by cases h)
      refine Rel.inl (Rel_mono (fun s' fl e' h' => ?_) h)
      cases fl with
      | norm =>
        obtain ⟨h1, h2, h3, h4, h5, h6, h7⟩ := h'
        refine ⟨h1, h2, h3, h4, h5, h6, fun _ => ?_⟩
        rcases htail with (hx' | hx') | hx'
        · exact quiet_of_tail hst h2 (Or.inl hx')
        · exact quiet_of_tail hst h2 (Or.inr hx')
        · exact h7 hx'
      | brk m => exact h'
      | cont m => exact h'
      | ret => exact h'
      | exit => exact h'
  | case w is =>
    have hrun : run (n+1) (.cmd (.case w is)) s =
        caseLoop (fun st => run n (.stmt st)) (expandWord s.vars s.lastExit.code w) false is s := by
      rw [run]; simp only [stop_false_of_exit hx, Bool.false_eq_true, ↓reduceIte]
    have hsem : sem (n+1) k (.cmd (.case w is)) (absEnv s) =
        caseItems (fun st => sem n k (.stmt st)) (expandWord s.vars s.lastExit.code w) false false is
          (absEnv s) := by
      rw [sem]; rfl
    rw [hrun, hsem]
    have hs' : supItems K false is = true := by simpa [supCmd] using hs
    have h := sim_caseLoop hS (expandWord s.vars s.lastExit.code w) hst s is false false false s hs' hd hl
      (noFlags_of_exit hx) hp ⟨rfl, rfl, rfl⟩ (fun h => by cases h) (fun _ => hx)
      (quiet_of_zero (by simp [hx]))
    exact Rel.inl (Rel_mono (fun _ _ _ h' => h'.mono_q (fun _ => trivial)) h)
  | fn f b => exact (sim_fn f b hs hd hp hx _).inl

/-- The simulation holds at every fuel. -/
theorem sim_all : ∀ n : Nat, SimS n ∧ SimC n ∧ SimW n ∧ SimE n
  | 0 => by
    refine ⟨?_, ?_, ?_, ?_⟩
    · intro K k sub st s _ _ _ _ _ _; simp [run, sem, Rel]
    · intro K k sub c s _ _ _ _ _ _; simp [run, sem, Rel]
    · intro K k sub u c b s _ _ _ _ _ _; simp [run, sem, Rel]
    · intro K k sub p s _ _ _ _ _ _ _; simp [run, sem, Rel]
  | n + 1 => by
    obtain ⟨hS, hC, hW, hE⟩ := sim_all n
    exact ⟨simS_step n hC, simC_step n hS hC hW hE, simW_step n hS hW, simE_step n hS⟩

end ShVerif.C26
