import ShVerif.Model.C32
/-
  Hand-written expectation for the regenerated tables of C32 (`Gen/C32.lean`): the meaning of every
  Runner field with respect to `Runner.subshell` when parent and copy run on different goroutines,
  the places that touch `r.bgProcs`, the goroutine start sites, the writes of `r.Params`, and the
  order of the four steps of the wait protocol.
-/
namespace ShVerif.Expect.C32
open ShVerif.C32

/-- How a field of the copy relates to the parent's. -/
inductive Class
  | byValue            -- a value type copied by the literal: the two Runners have separate cells
  | deepCopied         -- a reference type, the copy gets new storage (clone / new map / copied slice)
  | rebuilt            -- made anew for the copy from values the parent goroutine read before the start
  | sharedImmutable    -- a reference both may use: never written through after construction
  | sharedSync         -- a reference both may use, whose implementation must be safe for concurrent
                       -- use (documented on Runner for Stdout/Stderr; *os.File for stdin)
  | sharedSliceNoElemWrites   -- a slice header copied, same backing array: no element is ever written
                       -- (`params_writes` below: only whole-slice assignments and reslices)
  | zero               -- not copied: the copy starts with the zero value (never reaches parent storage)
deriving DecidableEq, Repr

structure Entry where
  field : FieldFact
  cls : Class
  why : String
deriving Repr

/-- types whose values carry no reference to mutable storage -/
def valueTypes : List String := ["string", "bool", "int", "runnerOpts", "exitStatus", "getopts", "[1]string"]

/-- function types of the handlers -/
def handlerTypes : List String :=
  ["CallHandlerFunc", "ExecHandlerFunc", "OpenHandlerFunc", "ReadDirHandlerFunc2", "StatHandlerFunc", "AccessHandlerFunc"]

/-- the class must fit the field's type and the way subshell() fills it -/
def classOK (e : Entry) : Bool :=
  let f := e.field
  match e.cls with
  | .byValue => valueTypes.contains f.type && f.how == "literal:r." ++ f.name
  | .deepCopied =>
    f.how == "assign:maps.Clone(r." ++ f.name ++ ")" ||
    f.how == "assign:make(" ++ f.type ++ ")" ||
    (f.name == "dirStack" && f.how == "assign:append(r2.dirBootstrap[:0], r.dirStack...)") ||
    (f.name == "writeEnv" && f.how == "assign:newOverlayEnviron(r.writeEnv, background)")
  | .rebuilt => f.how == "call:fillExpandConfig(r.ectx)" || (f.name == "didReset" && f.how == "assign:true")
  | .sharedImmutable => handlerTypes.contains f.type && f.how == "literal:r." ++ f.name
  | .sharedSync =>
    (f.type == "io.Writer" || f.type == "stdinFile") && (f.how == "literal:r." ++ f.name)
  | .sharedSliceNoElemWrites => f.name == "Params" && f.type == "[]string" && f.how == "literal:r.Params"
  | .zero => f.how == "zero"

def expected : List Entry := [
  { field := { name := "Env", type := "expand.Environ", how := "zero" }, cls := .zero,
    why := "only Reset reads r.Env; the copy is marked didReset and never resets" },
  { field := { name := "writeEnv", type := "expand.WriteEnviron", how := "assign:newOverlayEnviron(r.writeEnv, background)" }, cls := .deepCopied,
    why := "background: a parentless overlay with a new values map filled by Set from parent.Each, in the parent goroutine; the Variable values share List/Indexes/Map storage — bg_separation" },
  { field := { name := "Dir", type := "string", how := "literal:r.Dir" }, cls := .byValue, why := "" },
  { field := { name := "tempDir", type := "string", how := "literal:r.tempDir" }, cls := .byValue, why := "" },
  { field := { name := "Params", type := "[]string", how := "literal:r.Params" }, cls := .sharedSliceNoElemWrites,
    why := "shift reslices, set/functions/source replace the slice; no element write anywhere (params_writes)" },
  { field := { name := "Vars", type := "map[string]expand.Variable", how := "assign:make(map[string]expand.Variable)" }, cls := .deepCopied,
    why := "a new empty map; Run fills it from the copy's own writeEnv" },
  { field := { name := "Funcs", type := "map[string]*syntax.Stmt", how := "assign:maps.Clone(r.Funcs)" }, cls := .deepCopied,
    why := "the bodies are nodes of the tree, which nobody writes (C29)" },
  { field := { name := "alias", type := "map[string]alias", how := "assign:maps.Clone(r.alias)" }, cls := .deepCopied,
    why := "the alias words are only read (alias_frame of C29)" },
  { field := { name := "callHandler", type := "CallHandlerFunc", how := "literal:r.callHandler" }, cls := .sharedImmutable, why := "handler function value" },
  { field := { name := "execHandler", type := "ExecHandlerFunc", how := "literal:r.execHandler" }, cls := .sharedImmutable, why := "handler function value" },
  { field := { name := "execMiddlewares", type := "[]func(ExecHandlerFunc) ExecHandlerFunc", how := "zero" }, cls := .zero,
    why := "folded into execHandler by the parent's first Reset" },
  { field := { name := "openHandler", type := "OpenHandlerFunc", how := "literal:r.openHandler" }, cls := .sharedImmutable, why := "handler function value" },
  { field := { name := "readDirHandler", type := "ReadDirHandlerFunc2", how := "literal:r.readDirHandler" }, cls := .sharedImmutable, why := "handler function value" },
  { field := { name := "statHandler", type := "StatHandlerFunc", how := "literal:r.statHandler" }, cls := .sharedImmutable, why := "handler function value" },
  { field := { name := "accessHandler", type := "AccessHandlerFunc", how := "literal:r.accessHandler" }, cls := .sharedImmutable, why := "handler function value" },
  { field := { name := "stdin", type := "stdinFile", how := "literal:r.stdin" }, cls := .sharedSync,
    why := "an *os.File (safe for concurrent use); redirections replace the field of one Runner only" },
  { field := { name := "stdout", type := "io.Writer", how := "literal:r.stdout" }, cls := .sharedSync,
    why := "documented on Runner: writes to Stdout and Stderr may be concurrent with background commands" },
  { field := { name := "stderr", type := "io.Writer", how := "literal:r.stderr" }, cls := .sharedSync, why := "same" },
  { field := { name := "ecfg", type := "*expand.Config", how := "call:fillExpandConfig(r.ectx)" }, cls := .rebuilt,
    why := "a new expand.Config whose closures capture the copy" },
  { field := { name := "ectx", type := "context.Context", how := "call:fillExpandConfig(r.ectx)" }, cls := .rebuilt,
    why := "the parent's context value (immutable), read by the parent goroutine" },
  { field := { name := "didReset", type := "bool", how := "assign:true" }, cls := .rebuilt, why := "" },
  { field := { name := "usedNew", type := "bool", how := "literal:r.usedNew" }, cls := .byValue, why := "" },
  { field := { name := "filename", type := "string", how := "literal:r.filename" }, cls := .byValue, why := "" },
  { field := { name := "breakEnclosing", type := "int", how := "zero" }, cls := .zero, why := "transient" },
  { field := { name := "contnEnclosing", type := "int", how := "zero" }, cls := .zero, why := "transient" },
  { field := { name := "inLoop", type := "bool", how := "zero" }, cls := .zero, why := "transient" },
  { field := { name := "inFunc", type := "bool", how := "zero" }, cls := .zero, why := "transient" },
  { field := { name := "inSource", type := "bool", how := "zero" }, cls := .zero, why := "transient" },
  { field := { name := "handlingTrap", type := "bool", how := "zero" }, cls := .zero, why := "transient" },
  { field := { name := "sourceSetParams", type := "bool", how := "zero" }, cls := .zero, why := "transient" },
  { field := { name := "noErrExit", type := "bool", how := "zero" }, cls := .zero, why := "transient" },
  { field := { name := "exit", type := "exitStatus", how := "literal:r.exit" }, cls := .byValue,
    why := "a struct of scalars and an error value" },
  { field := { name := "lastExit", type := "exitStatus", how := "literal:r.lastExit" }, cls := .byValue, why := "same" },
  { field := { name := "lastExpandExit", type := "exitStatus", how := "zero" }, cls := .zero, why := "transient" },
  { field := { name := "expandFailed", type := "bool", how := "zero" }, cls := .zero,
    why := "transient: set by expandErr and consumed by the command being expanded, on the Runner's own goroutine" },
  { field := { name := "bgProcs", type := "[]bgProc", how := "zero" }, cls := .zero,
    why := "each shell tracks only its own children" },
  { field := { name := "opts", type := "runnerOpts", how := "literal:r.opts" }, cls := .byValue, why := "an array of bools" },
  { field := { name := "origDir", type := "string", how := "zero" }, cls := .zero, why := "only Reset uses the orig* fields" },
  { field := { name := "origParams", type := "[]string", how := "zero" }, cls := .zero, why := "same" },
  { field := { name := "origOpts", type := "runnerOpts", how := "zero" }, cls := .zero, why := "same" },
  { field := { name := "origStdin", type := "stdinFile", how := "zero" }, cls := .zero, why := "same" },
  { field := { name := "origStdout", type := "io.Writer", how := "literal:r.origStdout" }, cls := .sharedSync,
    why := "used for >( ) process substitutions; a writer like stdout" },
  { field := { name := "origStderr", type := "io.Writer", how := "zero" }, cls := .zero, why := "same as origDir" },
  { field := { name := "dirStack", type := "[]string", how := "assign:append(r2.dirBootstrap[:0], r.dirStack...)" }, cls := .deepCopied,
    why := "copied into the copy's own dirBootstrap array (pushd/popd write dirStack elements in place)" },
  { field := { name := "dirBootstrap", type := "[1]string", how := "zero" }, cls := .zero, why := "the copy's own array" },
  { field := { name := "optState", type := "getopts", how := "zero" }, cls := .zero, why := "getopts cursor" },
  { field := { name := "keepRedirs", type := "bool", how := "zero" }, cls := .zero, why := "transient" },
  { field := { name := "callbackErr", type := "string", how := "zero" }, cls := .zero, why := "traps are not inherited" },
  { field := { name := "callbackExit", type := "string", how := "zero" }, cls := .zero, why := "traps are not inherited" }
]

def expectedSubshellOther : List String := ["if !r.didReset "]
def expectedFillAssigns : List String := ["ectx", "ecfg"]

/-- `r.bgProcs` is written by: the two places that start a job (both append, in the goroutine that
    owns the Runner, before the `go` statement), and Reset. -/
def expectedBgProcsWrites : List Site := [
  { func := "Runner.Reset", kind := "clear", expr := "clear(r.bgProcs)", inGo := false },
  { func := "Runner.Reset", kind := "reslice", expr := "r.bgProcs = r.bgProcs[:0]", inGo := false },
  { func := "Runner.fillExpandConfig", kind := "append", expr := "r.bgProcs = append(r.bgProcs, bg)", inGo := false },
  { func := "Runner.stmt", kind := "append", expr := "r.bgProcs = append(r.bgProcs, bg)", inGo := false }
]

def expectedBgProcsReaders : List (String × Bool) := [
  ("Runner.Reset", false), ("Runner.builtin", false), ("Runner.fillExpandConfig", false), ("Runner.stmt", false),
  ("Runner.lookupVar", false)
]

/-- The goroutine start sites.  `parentUses`: selectors of the *spawning* Runner used inside the
    new goroutine — none (the process substitution's error paths used `r.errf` until commit f9b9e42,
    finding C32-procsubst-errf; they now report through the subshell's own `r2.errf`). -/
def expectedSpawns : List Spawn := [
  { func := "Runner.fillExpandConfig", form := "go", parentUses := [], captures := ["bg", "ctx", "path", "ps", "r2", "stdout"] },
  { func := "Runner.stmt", form := "go", parentUses := [], captures := ["bg", "ctx", "r2", "st2"] },
  { func := "Runner.cmd", form := "wg.Go", parentUses := [], captures := ["cm", "ctx", "pw", "r2"] },
  { func := "Runner.hdocReader", form := "go", parentUses := [], captures := ["hdoc", "pw"] },
  { func := "Runner.redir", form := "go", parentUses := [], captures := ["arg", "pw"] },
  { func := "newStdinFile", form := "go", parentUses := [], captures := ["pw", "r"] }
]

/-- kinds of `.Params` writes that never write an element of the shared backing array -/
def safeParamsKinds : List String := ["assign", "reslice"]

/-- The wait protocol in the code: in both job goroutines the status is written before the channel
    is closed; `wait` receives before it reads. -/
def expectedChanOps : List Site := [
  { func := "Runner.builtin", kind := "recv-done", expr := "<-bg.done", inGo := false },
  { func := "Runner.builtin", kind := "recv-done", expr := "<-bg.done", inGo := false },
  { func := "Runner.builtin", kind := "read-exit", expr := "exit = *bg.exit", inGo := false },
  { func := "Runner.fillExpandConfig", kind := "write-exit", expr := "*bg.exit = r2.exit", inGo := true },
  { func := "Runner.fillExpandConfig", kind := "close-done", expr := "close(bg.done)", inGo := true },
  { func := "Runner.stmt", kind := "write-exit", expr := "*bg.exit = r2.exit", inGo := true },
  { func := "Runner.stmt", kind := "close-done", expr := "close(bg.done)", inGo := true }
]

end ShVerif.Expect.C32
