import ShVerif.Model.C09
/-
  C09 — HAND-WRITTEN expectation for every node type's Pos()/End():
  "Pos is the start of the node's first token, End is one past its last token".
  Token lengths are written as the token text (`tokEnd "FiPos" "fi"` = FiPos + |fi|), so a changed
  offset constant in nodes.go, a swapped field or a forgotten case breaks `posend_table`
  (Props/C09.lean compares this file with the regenerated ShVerif/Gen/C09.lean by `decide`).
  Comments are outside every node but File (documented on syntax.Node).
-/
namespace ShVerif.Expect.C09
open ShVerif.C09

/-- field `n` of the receiver -/
def F (n : String) : Ref := .fld .self n
/-- the position stored in field `n` -/
def at_ (n : String) : PExpr := .atom (.ref (F n))
/-- one past the token `tok` whose first byte is at field `n` -/
def tokEnd (n tok : String) : PExpr := .addCol (at_ n) (.lenTok tok)
/-- start / end of the child in field `n` -/
def posOf (n : String) : PExpr := .atom (.pos (F n))
def endOf (n : String) : PExpr := .atom (.end_ (F n))
/-- start of the first / end of the last element of list field `n` -/
def firstPos (n : String) : PExpr := .atom (.pos (.first (F n)))
def lastEnd (n : String) : PExpr := .atom (.end_ (.last (F n)))
/-- one past the token `tok` that follows the child in field `n` -/
def afterChild (n tok : String) : PExpr := .addCol (endOf n) (.lenTok tok)

/-- `Stmt.End` without a terminator: the end of the command — or of the `!`, or nothing at all
    (`>f` alone) — … -/
def stmtBase : PExpr :=
  .ite (.nonNil (F "Cmd")) (endOf "Cmd")
    (.ite (.flag (F "Negated")) (tokEnd "Position" "!") (at_ "Position"))

def table : List Entry := [
  { name := "ArithmCmd", pos := at_ "Left", end_ := tokEnd "Right" "))" },
  { name := "ArithmExp", pos := at_ "Left",
    end_ := .ite (.flag (F "Bracket")) (tokEnd "Right" "]") (tokEnd "Right" "))") },
  { name := "ArrayElem",
    pos := .ite (.nonNil (F "Index")) (posOf "Index") (posOf "Value"),   -- `[i]=v`: see note (a)
    end_ := .ite (.nonNil (F "Value")) (endOf "Value") (afterChild "Index" "]=") },
  { name := "ArrayExpr", pos := at_ "Lparen", end_ := tokEnd "Rparen" ")" },
  { name := "Assign",
    pos := .ite (.isNil (F "Name")) (posOf "Value") (posOf "Name"),
    end_ := .ite (.nonNil (F "Value")) (endOf "Value")
      (.ite (.nonNil (F "Array")) (endOf "Array")
        (.ite (.nonNil (F "Index"))
          (.ite (.flag (F "Naked")) (afterChild "Index" "]") (afterChild "Index" "]="))
          (.ite (.flag (F "Naked")) (endOf "Name") (afterChild "Name" "=")))) },
  { name := "BinaryArithm", pos := posOf "X", end_ := endOf "Y" },
  { name := "BinaryCmd", pos := posOf "X", end_ := endOf "Y" },
  { name := "BinaryTest", pos := posOf "X", end_ := endOf "Y" },
  { name := "Block", pos := at_ "Lbrace", end_ := tokEnd "Rbrace" "}" },
  { name := "BraceExp",   -- `{` before the first element, `}` after the last
    pos := .addCol (firstPos "Elems") (.const (-("{".length : Int))),
    end_ := .addCol (.call "wordLastEnd" [F "Elems"]) (.lenTok "}") },
  { name := "CStyleLoop", pos := at_ "Lparen", end_ := tokEnd "Rparen" "))" },
  { name := "CallExpr",
    pos := .ite (.nonEmpty (F "Assigns")) (firstPos "Assigns") (firstPos "Args"),
    end_ := .ite (.empty (F "Args")) (lastEnd "Assigns") (lastEnd "Args") },
  { name := "CaseClause", pos := at_ "Case",
    end_ := .ite (.flag (F "Braces")) (tokEnd "Esac" "}") (tokEnd "Esac" "esac") },
  { name := "CaseItem", pos := firstPos "Patterns",
    end_ := .ite (.valid (.ref (F "OpPos")))
      (.addCol (at_ "OpPos") (.lenOp (F "Op")))
      (.call "stmtsEnd" [F "Stmts", F "Last"]) },
  { name := "CmdSubst", pos := at_ "Left", end_ := tokEnd "Right" ")" },   -- `)`, `` ` `` or `}`: one byte
  { name := "Comment", pos := at_ "Hash",
    end_ := .addCol (at_ "Hash") (.add (.lenTok "#") (.lenField (F "Text"))) },
  { name := "CoprocClause", pos := at_ "Coproc", end_ := endOf "Stmt" },
  { name := "DblQuoted", pos := at_ "Left", end_ := tokEnd "Right" "\"" },
  { name := "DeclClause", pos := posOf "Variant",
    end_ := .ite (.nonEmpty (F "Args")) (lastEnd "Args") (endOf "Variant") },
  { name := "ExtGlob", pos := at_ "OpPos", end_ := afterChild "Pattern" ")" },
  { name := "File",
    pos := .call "stmtsPos" [F "Stmts", F "Last"],
    end_ := .call "stmtsEnd" [F "Stmts", F "Last"] },
  { name := "FlagsArithm",   -- `(flags)expr`
    pos := .addCol (posOf "Flags") (.const (-("(".length : Int))),
    end_ := .ite (.nonNil (F "X")) (endOf "X") (afterChild "Flags" ")") },
  { name := "ForClause", pos := at_ "ForPos",
    end_ := .ite (.flag (F "Braces")) (tokEnd "DonePos" "}") (tokEnd "DonePos" "done") },
  { name := "FuncDecl", pos := at_ "Position", end_ := endOf "Body" },
  { name := "IfClause", pos := at_ "Position", end_ := tokEnd "FiPos" "fi" },
  { name := "LetClause", pos := at_ "Let", end_ := lastEnd "Exprs" },
  { name := "Lit", pos := at_ "ValuePos", end_ := at_ "ValueEnd" },
  { name := "ParamExp",
    pos := .ite (.valid (.ref (F "Dollar"))) (at_ "Dollar") (posOf "Param"),
    end_ := .ite (.not (.flag (F "Short"))) (tokEnd "Rbrace" "}")
      (.ite (.nonNil (F "Index")) (afterChild "Index" "]") (endOf "Param")) },
  { name := "ParenArithm", pos := at_ "Lparen", end_ := tokEnd "Rparen" ")" },
  { name := "ParenTest", pos := at_ "Lparen", end_ := tokEnd "Rparen" ")" },
  { name := "ProcSubst", pos := at_ "OpPos", end_ := tokEnd "Rparen" ")" },
  { name := "Redirect",
    pos := .ite (.nonNil (F "N")) (posOf "N") (at_ "OpPos"),
    end_ := .ite (.nonNil (F "Hdoc")) (endOf "Hdoc") (endOf "Word") },
  { name := "SglQuoted", pos := at_ "Left", end_ := tokEnd "Right" "'" },
  { name := "Stmt", pos := at_ "Position",
    end_ := .ite (.valid (.ref (F "Semicolon")))
      -- `;` or `&`, two bytes for `|&`, `&|`, `&!`
      (.ite (.or (.flag (F "Coprocess")) (.flag (F "Disown")))
        (.addCol (tokEnd "Semicolon" "&") (.lenTok "|"))
        (tokEnd "Semicolon" ";"))
      -- … or the end of the last redirection if that is further
      (.ite (.nonEmpty (F "Redirs")) (.max stmtBase (lastEnd "Redirs")) stmtBase) },
  { name := "Subshell", pos := at_ "Lparen", end_ := tokEnd "Rparen" ")" },
  { name := "TestClause", pos := at_ "Left", end_ := tokEnd "Right" "]]" },
  { name := "TestDecl", pos := at_ "Position", end_ := endOf "Body" },
  { name := "TimeClause", pos := at_ "Time",
    end_ := .ite (.isNil (F "Stmt")) (tokEnd "Time" "time") (endOf "Stmt") },
  { name := "UnaryArithm",
    pos := .ite (.flag (F "Post")) (posOf "X") (at_ "OpPos"),
    end_ := .ite (.flag (F "Post")) (tokEnd "OpPos" "++") (endOf "X") },
  { name := "UnaryTest", pos := at_ "OpPos", end_ := endOf "X" },
  { name := "WhileClause", pos := at_ "WhilePos", end_ := tokEnd "DonePos" "done" },
  { name := "Word", pos := firstPos "Parts", end_ := lastEnd "Parts" },
  { name := "WordIter", pos := posOf "Name",
    end_ := .ite (.nonEmpty (F "Items")) (.call "wordLastEnd" [F "Items"])
      (.max (endOf "Name") (tokEnd "InPos" "in")) }
]

/-- start of the first statement or of its first comment, whichever is earlier; else the first
    trailing comment; else the zero Pos -/
def stmtsPos : Helper :=
  let s : Ref := .first (.param "stmts")
  let c : Ref := .first (.fld s "Comments")
  { name := "stmtsPos", params := ["stmts", "last"],
    body := .ite (.nonEmpty (.param "stmts"))
      (.ite (.nonEmpty (.fld s "Comments"))
        (.ite (.after (.pos s) (.pos c)) (.atom (.pos c)) (.atom (.pos s)))
        (.atom (.pos s)))
      (.ite (.nonEmpty (.param "last")) (.atom (.pos (.first (.param "last")))) .zero) }

/-- end of the last trailing comment; else end of the last statement or of its last comment,
    whichever is later; else the zero Pos -/
def stmtsEnd : Helper :=
  let s : Ref := .last (.param "stmts")
  let c : Ref := .last (.fld s "Comments")
  { name := "stmtsEnd", params := ["stmts", "last"],
    body := .ite (.nonEmpty (.param "last")) (.atom (.end_ (.last (.param "last"))))
      (.ite (.nonEmpty (.param "stmts"))
        (.ite (.nonEmpty (.fld s "Comments"))
          (.ite (.after (.end_ c) (.end_ s)) (.atom (.end_ c)) (.atom (.end_ s)))
          (.atom (.end_ s)))
        .zero) }

def wordLastEnd : Helper :=
  { name := "wordLastEnd", params := ["ws"],
    body := .ite (.empty (.param "ws")) .zero (.atom (.end_ (.last (.param "ws")))) }

def helpers : List Helper := [stmtsEnd, stmtsPos, wordLastEnd]

/-! The Pos model in Model/C09.lean is hand-written after these source texts; if one of them
    changes, the model has to be re-read against the code (and this quote updated). -/

def consts : List (String × String) := [
  ("colBitMask", "colMax"), ("colBitSize", "32 - lineBitSize"), ("colMax", "(1 << colBitSize) - 1"),
  ("lineBitSize", "18"), ("lineMax", "(1 << lineBitSize) - 1"),
  ("offsetMax", "math.MaxUint32 - 11"), ("offsetRecovered", "math.MaxUint32 - 10")]

def funcs : List (String × String) := [
  ("NewPos", "{ offset = min(offset, offsetMax) if line > lineMax { line = 0 } if column > colMax { column = 0 } return Pos{ offs: uint32(offset), lineCol: (uint32(line) << colBitSize) | uint32(column), } }"),
  ("Pos.After", "{ if !p.IsValid() { return false } return p.offs > p2.offs }"),
  ("Pos.Col", "{ return uint(p.lineCol & colBitMask) }"),
  ("Pos.IsRecovered", "{ return p == recoveredPos }"),
  ("Pos.IsValid", "{ return p.offs <= offsetMax && p.lineCol != 0 }"),
  ("Pos.Line", "{ return uint(p.lineCol >> colBitSize) }"),
  ("Pos.Offset", "{ if p.offs > offsetMax { return 0 } return uint(p.offs) }"),
  ("posAddCol", "{ if !p.IsValid() { return p } offs := min(max(int64(p.offs)+int64(n), 0), offsetMax) col := int64(p.Col()) if col > 0 { if col += int64(n); col < 1 || col > colMax { col = 0 } } p.offs = uint32(offs) p.lineCol = (p.lineCol &^ colBitMask) | uint32(col) return p }"),
  ("posMax", "{ if p2.After(p1) { return p2 } return p1 }")]

/-- functions of the regenerated list that the model does not cover -/
def unmodelled : List String := ["Pos.String"]

end ShVerif.Expect.C09
