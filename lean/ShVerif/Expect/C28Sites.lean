import ShVerif.Model.C28Site
/-
  C28 — the reviewed expectation for the panic-site table: every explicit `panic(` call, every
  unchecked type assertion and every shift with a count that is not syntactically non-negative (none
  today: all counts are literals or `uint(…)` conversions) in packages interp and expand (non-test,
  non-hook files), each with the
  reason why it cannot be reached from a parsed program run through `Runner.Run` with options
  accepted by `New` — or, where it *can* be reached today, the id of the open known finding.
  `ShVerif.C28.panic_sites_expected` (Props/C28.lean) compares this list with the table regenerated
  from the working tree on every run: a new `panic(`, a new unchecked assertion, or a site that
  moves to another function breaks the obligation and has to be reviewed here.

  Tags at the start of a reason:  UNREACHABLE-PARSER (a guarantee of syntax.Parser, exercised by the
  search leg only) · UNREACHABLE-INTERNAL (an invariant of the package) · API-MISUSE (documented
  misuse by the embedding Go program; excluded from the option generator) · PROVED (a Lean theorem)
  · REACHABLE (open known finding).
-/
namespace ShVerif.Expect.C28Sites
open ShVerif.C28

structure Expected where
  site : Site
  reason : String

def expected : List Expected := [
  ⟨⟨"expand", "arith.go", "Arithm", "assert", "expr.Y.(*syntax.BinaryArithm)", 1⟩,
    "UNREACHABLE-PARSER: a TernQuest node is only built with a TernColon BinaryArithm as Y ('ternary operator missing :' otherwise)"⟩,
  ⟨⟨"expand", "arith.go", "Arithm", "panic", "\"unexpected arithm expr: %T\"", 1⟩,
    "UNREACHABLE-PARSER: the switch covers all five ArithmExpr implementers (Word, ParenArithm, UnaryArithm, BinaryArithm, FlagsArithm) and the parser rejects empty expressions ('must be followed by an expression'); a nil expression is guarded by every caller (Slice.Offset/Length, CStyleLoop fields, Index)"⟩,
  ⟨⟨"expand", "environ.go", "listEnviron.Each", "panic", "\"expand.listEnviron: did not expect malformed name-value pair: \" + pair", 1⟩,
    "PROVED: property C34 (each_spec): every pair kept by listEnviron_ contains '='"⟩,
  ⟨⟨"expand", "expand.go", "*Config.wordField", "panic", "\"unhandled word part: %T\"", 1⟩,
    "UNREACHABLE-PARSER: the switch covers Lit, SglQuoted, DblQuoted, ParamExp, CmdSubst, ArithmExp, ProcSubst, ExtGlob; the ninth WordPart, BraceExp, is only created by syntax.SplitBraces inside expand.Fields on a copy of the word and consumed by expandBraces before wordField runs"⟩,
  ⟨⟨"expand", "expand.go", "*Config.wordFields", "panic", "\"unhandled word part: %T\"", 1⟩,
    "UNREACHABLE-PARSER: same coverage as wordField; BraceExp parts are expanded away by Fields before wordFields runs"⟩,
  ⟨⟨"expand", "param.go", "*Config.paramExp", "panic", "\"unexpected @%s param expansion\"", 1⟩,
    "UNREACHABLE-PARSER: the parser only accepts the @ operators Q E P A a U u L K k ('invalid @ expansion operator' otherwise), all of which have a case"⟩,
  ⟨⟨"interp", "api.go", "*Runner.Reset", "panic", "\"interp.ExecHandler should be replaced with interp.ExecHandlers, not mixed\"", 1⟩,
    "API-MISUSE: deliberate guard against passing both the deprecated ExecHandler and ExecHandlers to New; the option generator never mixes them (documented assumption of C28)"⟩,
  ⟨⟨"interp", "api.go", "*Runner.Reset", "panic", "\"use interp.New to construct a Runner\"", 1⟩,
    "API-MISUSE: only for a Runner literal not made by New; every Runner in scope of the property comes from New (usedNew = true, copied by subshell)"⟩,
  ⟨⟨"interp", "api.go", "*Runner.Run", "panic", "\"ended up with a non-nil exitStatus.err but a zero exitStatus.code\"", 1⟩,
    "UNREACHABLE-INTERNAL: exitStatus.err is only set together with a non-zero code (fatal: code 1 if zero; fromHandlerError: ExitStatus is non-zero by its documentation) and clear() resets both; a handler returning ExitStatus(0) as an *error* would break it — API-MISUSE, excluded"⟩,
  ⟨⟨"interp", "handler.go", "HandlerCtx", "panic", "\"interp.HandlerCtx: no HandlerContext in ctx\"", 1⟩,
    "API-MISUSE: documented ('It panics if ctx has no HandlerContext stored'); the interpreter itself always passes r.handlerCtx(...)"⟩,
  ⟨⟨"interp", "handler.go", "lookPathDir", "panic", "\"no find function found\"", 1⟩,
    "UNREACHABLE-INTERNAL: both callers (LookPathDir, scriptFromPathDir) pass a non-nil function constant"⟩,
  ⟨⟨"interp", "os_unix.go", "*Runner.unTestOwnOrGrp", "assert", "info.Sys().(*syscall.Stat_t)", 1⟩,
    "UNREACHABLE-INTERNAL with the default StatHandler (os.Stat/Lstat on unix always carry *syscall.Stat_t); a custom StatHandler returning a foreign FileInfo is excluded from the option generator (documented assumption)"⟩,
  ⟨⟨"interp", "os_unix.go", "*Runner.unTestOwnOrGrp", "assert", "info.Sys().(*syscall.Stat_t)", 2⟩,
    "as the first occurrence (the -G branch)"⟩,
  ⟨⟨"interp", "runner.go", "*Runner.fillExpandConfig", "panic", "\"unexpected process substitution operator: %q\"", 1⟩,
    "UNREACHABLE-PARSER: ProcSubst.Op is CmdIn, CmdOut or CmdInTemp; CmdInTemp returns 'unsupported' before the goroutine starts"⟩,
  ⟨⟨"interp", "test.go", "*Runner.binTest", "panic", "\"unexpected binary test operator: %q\"", 1⟩,
    "UNREACHABLE-PARSER: every BinTestOperator the two test parsers produce has a case (explored by the search leg's test/[[ generators)"⟩,
  ⟨⟨"interp", "test.go", "*Runner.unTest", "panic", "\"unexpected unary test op: %v\"", 1⟩,
    "UNREACHABLE-PARSER: every UnTestOperator of testUnaryOp / the syntax parser has a case; TsParen never reaches unTest (ParenTest node)"⟩,
  ⟨⟨"interp", "trace.go", "*tracer.expr", "panic", "err", 1⟩,
    "UNREACHABLE-INTERNAL: printer.Print on a node of a parsed program into a bytes.Buffer; its errors are write errors or unsupported nodes, neither possible here"⟩,
  ⟨⟨"interp", "vars.go", "*Runner.assignVal", "panic", "\"unexpected conversion of kind %d\"", 1⟩,
    "UNREACHABLE-INTERNAL, by the model's invariants: the switch has an arm for every kind a stored variable can have, NameRef included (a nameref that did not resolve, e.g. an empty target, fix 3a8d3f5); a resolved variable is never a nameref (theorem resolve_never_nameref, tied by the `resolve` stream and probed on the variables left by every search program); KeepValue is never stored (theorem append_kind_safe)"⟩,
  ⟨⟨"interp", "vars.go", "*overlayEnviron.Set", "assert", "o.parent.(expand.WriteEnviron)", 1⟩,
    "UNREACHABLE-INTERNAL: the branch is taken only for funcScope overlays, which Runner.call creates with r.writeEnv (always a WriteEnviron) as parent"⟩
]

end ShVerif.Expect.C28Sites
