import ShVerif.Model.C08
/-
  Hand-written classification of every field of syntax.Parser and syntax.Printer with respect to
  reuse (`reset()` at the start of every entry point).  Never compared with source text:
  `Props/C08.lean` checks by `decide` that the tables regenerated from /repo treat each field as
  its class demands.  A new field that is missing here, a deleted line of reset(), or a new write
  of a configuration field breaks an obligation.

  The `.scratch` entries are the fields reset() does NOT assign; each carries the reason — found by
  reading every read site — why a stale value from an earlier use can never be observed.
-/
namespace ShVerif.Expect.C08
open ShVerif.C08

/-- canonical values (as printed by the hook /repo/syntax/verif_c08.go) of the constant
    right-hand sides of the two reset() functions; checked against the real objects by the
    `psnap` correspondence stream -/
def consts : List (String × String) := [
  ("illegalTok", "0"), ("noState", "1"), ("spaceWritten", "2"),
  ("\"\"", "\"\""), ("0", "0"), ("1", "1"), ("nil", "nil"), ("false", "false"), ("true", "true")
]

def parser : Expect := {
  classes := [
    ("src",          .entry),
    ("bs",           .reset),
    ("bsp",          .reset),
    ("r",            .reset),
    ("w",            .reset),
    ("f",            .entry),
    ("spaced",       .scratch "next() writes `p.spaced = false` before anything else unless p.r == runeEOF on entry; every entry point calls rune(); next() right after reset(), so it stays stale only when the input is empty (or the first read fails). All reads are inside next() after that write (stopAt test, `#` continuation, `[` in arrayElems, regexp mode), or after a non-EOF token was produced in this parse (wordParts after a non-nil part, getAssign, callExpr/funcDecl in zsh, `compact && p.spaced` in arithmetic where compact is only true inside a `let` clause), and a non-EOF token can only come from a next() that passed the write"),
    ("err",          .reset),
    ("readErr",      .reset),
    ("readEOF",      .reset),
    ("tok",          .reset),
    ("val",          .reset),
    ("offs",         .reset),
    ("line",         .reset),
    ("col",          .reset),
    ("pos",          .scratch "next()/nextKeepSpaces() write `p.pos = p.nextPos()` before producing every token except _Newl and _EOF (early returns). It can therefore be stale from an earlier parse only while every token so far in this parse was _Newl/_EOF. In that state Parse/StmtsSeq (stmts: got(_Newl), loop ends at _EOF; stmtList reads p.pos only when tok == _LitWord), WordsSeq (getWord nil at _EOF, error only for a real token), Document (nextKeepSpaces writes pos unless the input is empty, then getWord is nil) and Arithmetic (arithmExprUnary: got(_Newl), arithmExprValue default: getWord → wordPart default → nil) raise no error and build no node, and p.pos is read only by error sites and node constructors"),
    ("quote",        .reset),
    ("eqlOffs",      .reset),
    ("keepComments", .config),
    ("lang",         .config),
    ("stopAt",       .config),
    ("recoveredErrors",  .reset),
    ("recoverErrorsMax", .config),
    ("forbidNested", .reset),
    ("buriedHdocs",  .reset),
    ("heredocs",     .truncated),
    ("hdocStops",    .reset),
    ("parsingDoc",   .reset),
    ("openNodes",    .reset),
    ("openBquotes",  .reset),
    ("openBquoteDbls", .reset),
    ("lastBquoteEsc", .scratch "rune() writes it every time it returns a '`' byte (always through the ASCII path). It is read only by backquoteEnd() and by wordPart's bckQuote case; backquoteEnd() is called when the rune just read is '`' (comment loop, heredoc and other literal loops) or when p.tok == bckQuote (stmts, wordPart, stopToken, gotStmtPipe, callExpr), and a bckQuote token is only produced from a '`' rune read in this parse"),
    ("rxOpenParens", .scratch "testExprBinary assigns 0 immediately before switching to quote state testExprRegexp (its only entry); read/updated only by next() and advanceLitRe under that state"),
    ("rxFirstPart",  .scratch "testExprBinary assigns true immediately before switching to quote state testExprRegexp; read only by next() under that state"),
    ("accComs",      .reset),
    ("curComs",      .reset),
    ("litBatch",     .reset),
    ("wordBatch",    .reset),
    ("readBuf",      .scratch "byte buffer: only reached through p.bs (reset to nil, bsp 0); fill() copies `left = len(bs)-bsp = 0` old bytes and overwrites the rest from the reader before p.bs is re-pointed at it"),
    ("litBuf",       .scratch "byte buffer: only reached through p.litBs (reset to nil); newLit re-slices it from length 0/1 and writes before reading"),
    ("litBs",        .reset)
  ],
  entryInit := [("src", .assign), ("f", .assign)],
  transientConfigWrites := [],
  constructors := ["NewParser"],
  consts := consts
}

def printer : Expect := {
  classes := [
    ("w",              .entry),
    ("tabWriter",      .entry),
    ("cols",           .scratch "the column counter is only written through p.w, and p.w is &p.cols only while keepPadding is on; then Print's `p.w.Reset(w)` is colCounter.Reset, which re-initialises column, lineStart and the inner bufio.Writer; KeepPadding(false) zeroes the struct"),
    ("indentSpaces",   .config),
    ("binNextLine",    .config),
    ("swtCaseIndent",  .config),
    ("spaceRedirects", .config),
    ("keepPadding",    .config),
    ("minify",         .config),
    ("singleLine",     .config),
    ("funcNextLine",   .config),
    ("wantSpace",      .reset),
    ("wantNewline",    .reset),
    ("mustNewline",    .reset),
    ("wroteSemi",      .reset),   -- was finding C08-printer-stale-wrotesemi until reset() got `p.wroteSemi = false`
    ("pendingComments", .truncated),
    ("firstLine",      .reset),
    ("line",           .reset),
    ("lastLevel",      .reset),
    ("level",          .reset),
    ("levelIncs",      .truncated),
    ("nestedBinary",   .reset),
    ("pendingHdocs",   .truncated),
    -- the nested printer for tab-indented `<<-` bodies: flushHeredocs assigns `&Printer{…}` right
    -- before its only use; were it kept across heredocs, its lastLevel/level/pending lists would
    -- survive (they are reset only by the outer reset()) — the obligation forbids that
    ("tabsPrinter",    .fresh)
  ],
  entryInit := [("w", .call "Reset"), ("tabWriter", .call "Init")],
  -- paramExp: `saved := p.minify; p.minify = false; p.wordPart(pe.NestedParam, nil); p.minify = saved`
  transientConfigWrites := [("Printer.paramExp", "minify")],
  constructors := ["NewPrinter", "Printer.flushHeredocs"],
  consts := consts
}

/-- fields that are NOT covered (recorded findings); `Props/C08.lean` proves that each of them is
    really uncovered in the regenerated table, so a fix in /repo shows up as a broken obligation -/
def printerOpen : List String := []
def parserOpen : List String := []

/-- What `Parser.Incomplete()` depends on (`openNodes > 0 || len(litBs) > 0`) and when those fields
    must be idle.  Probed on the real parser after every statement event and at every blocked Read
    (i.e. after every line fed to InteractiveSeq), with and without KeepComments. -/
def parserInvariants : List Invariant := [
  { field := "openNodes",
    idle := "0 whenever no statement or word is being parsed: at every StmtsSeq yield and at every blocked Read between statements",
    probedBy := "streams glue/axioms (A0 at statement events, A2 at blocked reads) + search legs inter/incl (Incomplete() after every line vs the sentinel-line oracle)" },
  { field := "litBs",
    idle := "empty (len 0) between tokens/statements when no literal is open: at every StmtsSeq yield and at every blocked Read between statements — in particular after a comment, also one ending in backslash-newline, whether or not comments are kept",
    probedBy := "streams glue/axioms (A0, A2: len(litBs) is part of every event) + search legs inter/incl" }
]

/-- expected call structure of the statement entry points: (callee, enclosing if-condition, args) -/
def parseSkeleton : List (String × String × List String) :=
  [("reset", "", []), ("rune", "", []), ("next", "", []), ("stmtList", "", []), ("doHeredocs", "p.err == nil", [])]
def stmtsSeqSkeleton : List (String × String × List String) :=
  [("reset", "", []), ("rune", "", []), ("next", "", []), ("stmts", "", ["yieldStmt"]), ("doHeredocs", "p.err == nil", [])]
def stmtListSkeleton : List (String × String × List String) :=
  [("stmts", "", ["fn", "stops..."])]
/-- stmtList's collector never stops the loop; StmtsSeq's wrapper stops exactly when the consumer does -/
def stmtListClosures : List (String × List String) := [("fn", ["true"])]
def stmtsSeqClosures : List (String × List String) := [("yieldStmt", ["!stopped"])]

end ShVerif.Expect.C08
