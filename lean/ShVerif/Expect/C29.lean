import ShVerif.Model.C29
/-
  Hand-written expectation for the regenerated tables of C29 (`Gen/C29.lean`).

  `expected`: every syntactic write next to a syntax node in packages interp and expand, each with
  the reason why it cannot write the tree that `Run` was given.  A new write site, or a site whose
  base changes (for example `SplitBraces(&word)` called on the ranged-over word instead of the local
  copy, or `append(args[:i], …)` on the slice taken from `cm.Args`), is not in this list and breaks
  `ast_write_sites`.
-/
namespace ShVerif.Expect.C29
open ShVerif.C29

/-- Why a site is harmless. -/
inductive Class
  | modelled (thm : String)   -- the function is modelled on the L1 heap and the named theorem proves its frame
  | freshObject               -- the object written was created by a composite literal in the same function
  | localCopy                 -- a field of a struct copy `x := *node` (the copy's own header)
  | localSlice                -- a slice variable that starts nil and only ever holds arrays allocated by its own appends
  | freshByConstruction       -- reviewed: every value that reaches the target is created by the same function
  | notANode                  -- the field name collides with a node field, the object is not a syntax node
deriving DecidableEq, Repr

structure Entry where
  site : WriteSite
  cls : Class
  why : String
deriving Repr

/-- frame theorems of `Props/C29.lean` that `modelled` may refer to -/
def frameTheorems : List String :=
  ["splitbraces_frame", "fieldsseq_frame", "alias_frame", "flatten_frame", "hdoc_frame", "bgstmt_frame", "bracesseq_frame"]

/-- the class must fit the syntactic provenance of the target's root identifier -/
def classOK (e : Entry) : Bool :=
  match e.site.base, e.cls with
  | "fresh-literal", .freshObject => true
  | "fresh-literal", .modelled t => frameTheorems.contains t
  | "local-copy", .localCopy => true
  | "local-copy", .modelled t => frameTheorems.contains t
  | "var-decl", .localSlice => true
  | "var-decl", .modelled t => frameTheorems.contains t
  | "local", .notANode => true
  -- anything that may alias the tree (a parameter, a value derived from a node field, a range
  -- variable) has to be covered by a frame theorem
  | "param", .modelled t => frameTheorems.contains t
  | "derived", .modelled t => frameTheorems.contains t
  | "range", .modelled t => frameTheorems.contains t
  | _, _ => false

def expected : List Entry := [
  { site := { pkg := "expand", func := "Braces", kind := "append", target := "all", base := "var-decl" },
    cls := .localSlice, why := "result list of the deprecated Braces API" },
  { site := { pkg := "expand", func := "FieldsSeq", kind := "call-SplitBraces", target := "&word", base := "local-copy" },
    cls := .modelled "fieldsseq_frame", why := "`word := *word` first: SplitBraces rewrites the copy's header only" },
  { site := { pkg := "expand", func := "bracesSeqRec", kind := "append", target := "left", base := "var-decl" },
    cls := .modelled "bracesseq_frame", why := "`var left`: starts nil, grows by its own appends" },
  { site := { pkg := "expand", func := "bracesSeqRec", kind := "assign", target := "lit.Value", base := "fresh-literal" },
    cls := .freshObject, why := "`lit := &syntax.Lit{}` of a sequence element" },
  { site := { pkg := "expand", func := "bracesSeqRec", kind := "assign", target := "lit.Value", base := "fresh-literal" },
    cls := .freshObject, why := "same" },
  { site := { pkg := "expand", func := "bracesSeqRec", kind := "assign", target := "lit.Value", base := "fresh-literal" },
    cls := .freshObject, why := "same" },
  { site := { pkg := "expand", func := "bracesSeqRec", kind := "assign", target := "next.Parts", base := "local-copy" },
    cls := .modelled "bracesseq_frame", why := "`next := *word`; the new Parts is `append([]WordPart{lit}, rest...)`" },
  { site := { pkg := "expand", func := "bracesSeqRec", kind := "assign", target := "next.Parts", base := "local-copy" },
    cls := .modelled "bracesseq_frame", why := "`next := *word`; the new Parts is `slices.Concat(elem.Parts, rest)`" },
  { site := { pkg := "expand", func := "bracesSeqRec", kind := "assign", target := "w.Parts", base := "param" },
    cls := .modelled "bracesseq_frame", why := "w is always a word yielded by a deeper bracesSeqRec: `&syntax.Word{Parts: left}`" },
  { site := { pkg := "interp", func := "DefaultExecHandler", kind := "assign", target := "cmd.Args", base := "local" },
    cls := .notANode, why := "os/exec.Cmd" },
  { site := { pkg := "interp", func := "Runner.builtin", kind := "append", target := "words", base := "var-decl" },
    cls := .localSlice, why := "alias builtin: words parsed from the alias text by a new parser" },
  { site := { pkg := "interp", func := "Runner.flattenAssigns", kind := "assign", target := "as.Naked", base := "fresh-literal" },
    cls := .modelled "flatten_frame", why := "`as := &syntax.Assign{}` shadows the ranged-over assignment" },
  { site := { pkg := "interp", func := "Runner.flattenAssigns", kind := "assign", target := "as.Name", base := "fresh-literal" },
    cls := .modelled "flatten_frame", why := "same" },
  { site := { pkg := "interp", func := "Runner.flattenAssigns", kind := "assign", target := "as.Value", base := "fresh-literal" },
    cls := .modelled "flatten_frame", why := "same" },
  { site := { pkg := "interp", func := "Runner.hdocString", kind := "append", target := "cur", base := "var-decl" },
    cls := .modelled "hdoc_frame", why := "`var cur`: starts nil; `cur = cur[:0]` reuses its own array" },
  { site := { pkg := "interp", func := "Runner.hdocString", kind := "append", target := "cur", base := "var-decl" },
    cls := .modelled "hdoc_frame", why := "same" },
  { site := { pkg := "interp", func := "Runner.stmt", kind := "assign", target := "st2.Background", base := "local-copy" },
    cls := .modelled "bgstmt_frame", why := "`st2 := *st`" },
  { site := { pkg := "interp", func := "Runner.stmt", kind := "assign", target := "st2.Disown", base := "local-copy" },
    cls := .modelled "bgstmt_frame", why := "`st2 := *st`" },
  { site := { pkg := "interp", func := "testParser.classicTest", kind := "assign", target := "b.Y", base := "fresh-literal" },
    cls := .freshObject, why := "test expression built from the argument strings of `test`/`[`" },
  { site := { pkg := "interp", func := "testParser.classicTest", kind := "assign", target := "b.Y", base := "fresh-literal" },
    cls := .freshObject, why := "same" },
  { site := { pkg := "interp", func := "testParser.testExprBase", kind := "assign", target := "pe.X", base := "fresh-literal" },
    cls := .freshObject, why := "same" },
  { site := { pkg := "interp", func := "testParser.testExprBase", kind := "assign", target := "u.X", base := "fresh-literal" },
    cls := .freshObject, why := "same" },
  { site := { pkg := "interp", func := "testParser.testExprBase", kind := "assign", target := "u.X", base := "fresh-literal" },
    cls := .freshObject, why := "same" }
]

/-! ### overlay environments -/

/-- Every place that creates an overlay, with the chain-building step of the model it is. -/
def expectedOverlays : List (OverlaySite × String) := [
  ({ func := "Runner.Reset", form := "literal", parent := "r.Env", funcScope := "false" }, "EOp.reset"),
  ({ func := "Runner.subshell", form := "newOverlayEnviron", parent := "r.writeEnv", funcScope := "false" }, "EOp.subshell"),
  ({ func := "Runner.handlerCtx", form := "literal", parent := "r.writeEnv", funcScope := "false" }, "EOp.handler"),
  ({ func := "Runner.call", form := "literal", parent := "r.writeEnv", funcScope := "true" }, "EOp.call"),
  ({ func := "newOverlayEnviron", form := "literal", parent := "", funcScope := "false" }, "newOverlay"),
  ({ func := "newOverlayEnviron", form := "field-write:parent", parent := "oenv.parent", funcScope := "parent" }, "newOverlay (foreground)")
]

/-- `r.writeEnv` only ever holds an overlay: the right-hand sides of its assignments. -/
def allowedWriteEnvRhs : List String := ["overlay-literal", "newOverlayEnviron", "saved-writeEnv"]

def expectedWriteEnvAssigns : List WriteEnvAssign := [
  { func := "Runner.Reset", rhs := "overlay-literal" },
  { func := "Runner.subshell", rhs := "newOverlayEnviron" },
  { func := "Runner.call", rhs := "overlay-literal" },
  { func := "Runner.call", rhs := "saved-writeEnv" }
]

/-- How package interp uses `Runner.Env` (and the `Env` field of HandlerContext / exec.Cmd, which
    share the selector name): it is compared with nil, assigned by the option, read with Get, copied
    into the new Runner value, and made the parent of the first overlay.  No method other than Get
    is called on it directly; everything else goes through overlays. -/
def expectedEnvUses : List (String × String × String) := [
  ("New", "r.Env", "compare:=="),
  ("Env", "r.Env", "assigned"),
  ("Runner.Reset", "r.Env", "method:Get"),
  ("Runner.Reset", "Env:", "literal-key=r.Env"),
  ("Runner.Reset", "r.Env", "literal-value:Env"),
  ("Runner.Reset", "r.Env", "literal-value:parent"),
  ("DefaultExecHandler", "hc.Env", "arg-of:LookPathDir"),
  ("DefaultExecHandler", "cmd.Env", "assigned"),
  ("DefaultExecHandler", "hc.Env", "arg-of:execEnv"),
  ("runScriptENOEXEC", "hc.Env", "arg-of:execEnv"),
  ("Runner.fillExpandConfig", "Env:", "literal-key=expandEnv{r}"),
  ("Runner.handlerCtx", "Env:", "literal-key=&overlayEnviron{parent: r.writeEnv}")
]

/-- The only place where a Set is passed on to another Environ. -/
def expectedForwards : List (String × String) := [("overlayEnviron.Set", "o.parent.(expand.WriteEnviron)")]

end ShVerif.Expect.C29
