import ShVerif.Model.C30
/-
  Hand-written expectation about the *meaning* of every field of interp.Runner with respect to
  `Runner.Reset` (never compared with source text: `Props/C30.lean` checks, by `decide`, that the
  table regenerated from /repo treats each field as its class demands).

  A new Runner field that is missing here, or a field whose treatment in Reset changes, breaks
  `reset_fields`; a new place that writes a configuration field breaks `orig_stable`.
-/
namespace ShVerif.Expect.C30
open ShVerif.C30

def expect : List (String × Class × String) := [
  ("Env",            .config, "initial environment; immutable, set only by the Env option"),
  ("writeEnv",       .rebuilt, "fresh overlay over Env; HOME/UID/EUID/GID/PWD/IFS/OPTIND re-seeded by setVar calls"),
  ("Dir",            .restoredFromOrig "origDir", "cd changes it; restored to the constructor's directory"),
  ("tempDir",        .config, "computed once from Env's TMPDIR under !didReset"),
  ("Params",         .restoredFromOrig "origParams", "set/shift/function calls replace the slice (never write its elements)"),
  ("Vars",           .clearedBacking, "map reused but cleared (made when nil); refilled by Run from writeEnv"),
  ("Funcs",          .zeroed, "function table starts empty"),
  ("alias",          .zeroed, "alias table starts empty"),
  ("callHandler",    .config, "handler; option only"),
  ("execHandler",    .config, "handler; option, default + middlewares folded in once under !didReset"),
  ("execMiddlewares", .zeroed, "consumed into execHandler by the first Reset; never read again"),
  ("openHandler",    .config, "handler; option or New's default"),
  ("readDirHandler", .config, "handler; option or New's default"),
  ("statHandler",    .config, "handler; option or New's default"),
  ("accessHandler",  .config, "handler; option or New's default"),
  ("stdin",          .restoredFromOrig "origStdin", "redirections/exec replace it"),
  ("stdout",         .restoredFromOrig "origStdout", "redirections/exec replace it"),
  ("stderr",         .restoredFromOrig "origStderr", "redirections/exec replace it"),
  ("ecfg",           .zeroed, "refilled by every Run (fillExpandConfig)"),
  ("ectx",           .zeroed, "refilled by every Run (fillExpandConfig)"),
  ("didReset",       .rebuilt, "set to true at the end of Reset"),
  ("usedNew",        .config, "constructor marker"),
  ("filename",       .zeroed, "set by every Run"),
  ("breakEnclosing", .zeroed, "transient loop control"),
  ("contnEnclosing", .zeroed, "transient loop control"),
  ("inLoop",         .zeroed, "transient"),
  ("inFunc",         .zeroed, "transient"),
  ("inSource",       .zeroed, "transient"),
  ("handlingTrap",   .zeroed, "transient"),
  ("sourceSetParams", .zeroed, "transient"),
  ("noErrExit",      .zeroed, "transient"),
  ("exit",           .zeroed, "status of the current statement; Run zeroes it too"),
  ("lastExit",       .zeroed, "$? starts at 0"),
  ("lastExpandExit", .zeroed, "transient"),
  ("expandFailed",   .zeroed, "transient (1704f80): set by expandErr, cleared at the start of every simple command"),
  ("bgProcs",        .zeroed, "not in the literal, so nil; the following clear/[:0] act on nil (no reuse, harmless)"),
  ("opts",           .restoredFromOrig "origOpts", "set/shopt change it; array copied by value"),
  ("origDir",        .config, "captured once under !didReset"),
  ("origParams",     .config, "captured once under !didReset"),
  ("origOpts",       .config, "captured once under !didReset"),
  ("origStdin",      .config, "captured once under !didReset"),
  ("origStdout",     .config, "captured once under !didReset"),
  ("origStderr",     .config, "captured once under !didReset"),
  ("dirStack",       .clearedBacking, "sliced to length 0, then Dir appended (pushd/popd/cd modify it)"),
  ("dirBootstrap",   .zeroed, "backing array of dirStack's first element"),
  ("optState",       .zeroed, "getopts cursor"),
  ("keepRedirs",     .zeroed, "transient (exec)"),
  ("callbackErr",    .zeroed, "ERR trap starts unset"),
  ("callbackExit",   .zeroed, "EXIT trap starts unset")
]

/-- methods Reset may call on the runner after the literal (they only write variables into the
    fresh writeEnv, from Env, Dir and the process's uid/gid/home) -/
def allowedPostCalls : List String := ["setVar", "setVarString"]

/-- functions that build a Runner from a composite literal -/
def constructors : List String := ["New", "Runner.Reset", "Runner.subshell"]

/-- RunnerOption constructors: (function, the stable field its closure assigns).  Options must not
    be applied once Run or Reset have been called (documented on RunnerOption). -/
def optionSetters : List (String × String) := [
  ("Env", "Env"),
  ("CallHandler", "callHandler"),
  ("ExecHandler", "execHandler"),
  ("OpenHandler", "openHandler"),
  ("ReadDirHandler", "readDirHandler"),
  ("ReadDirHandler2", "readDirHandler"),
  ("StatHandler", "statHandler"),
  ("AccessHandler", "accessHandler")
]

/-- assignments `x.F = …` whose base the syntactic scan cannot type and that are known not to be
    Runners: `cmd.Env` of an exec.Cmd -/
def foreignWrites : List (String × String) := [("DefaultExecHandler", "Env")]

/-- restored fields of reference type whose *elements* must never be written in place (the orig
    field shares the backing array) -/
def aliasedRestored : List String := ["Params", "origParams"]

/-- The fields `Runner.Run` itself writes on every call, with the reason why a whole-file run (which
    keeps the Runner untouched between two top-level statements) is not affected.  A new per-call
    write — e.g. resetting `breakEnclosing` in Run's prologue, which a whole-file run keeps between
    statements — breaks `run_prologue`. -/
def runWritesExpected : List (String × String) := [
  ("exit",     "zeroed per call; `stmt` zeroes it at the start of every statement anyway (Proofs.C30.stmt_pro)"),
  ("filename", "set per call: the `$0` divergence, known finding C30-arg0-stmt-at-a-time"),
  ("lastExit", "`= r.exit` at the end of the call, exactly what `stmt` does after every statement")
]

/-- methods `Run` calls on the runner: `Reset` only under `!r.didReset`; `fillExpandConfig` rebuilds
    `ecfg`/`ectx` (no shell state); the rest runs the node and the EXIT trap -/
def runCallsExpected : List String := ["Reset", "fillExpandConfig", "stmts", "stmt", "cmd", "trapCallback"]

end ShVerif.Expect.C30
