import ShVerif.Model.C31
/-
  Hand-written expectation for C31: every blocking operation of package interp (as found by the
  go/ast scan, keyed by function | kind | operand), who executes it, and why it is released once the
  context is cancelled.  `Props/C31.lean` compares this with the regenerated table by `decide`:
  a new blocking operation, or one that moves, breaks `blocking_sites`.
-/
namespace ShVerif.Expect.C31
open ShVerif.C31

def expected : List Expected := [
  -- builtin.go
  { func := "Runner.builtin", kind := "chan-recv", operand := "bg.done", owner := "interp",
    rel := .peer ["bgjob"],
    why := "wait: plain receive, not context-aware; ends when the background job (stmt & goroutine or process-substitution goroutine) ends" },
  { func := "Runner.builtin", kind := "parse", operand := "f", owner := "interp",
    rel := .external, why := "source: reads the file named by the script (a regular file; a FIFO named by the script is the script's business)" },
  { func := "Runner.builtin", kind := "readpassword", operand := "", owner := "interp",
    rel := .external, why := "read -s on a terminal only" },
  { func := "Runner.builtin", kind := "scan", operand := "scanner", owner := "interp",
    rel := .deadline, why := "mapfile/readarray: since 5c04a9d the same context.AfterFunc + SetReadDeadline as readLine is armed around the scanner loop" },
  { func := "Runner.builtin", kind := "chan-recv", operand := "stopc", owner := "interp",
    rel := .peer ["afterfunc"], why := "mapfile: only when the AfterFunc has started; it closes stopc right after SetReadDeadline" },
  { func := "Runner.readLine+closure", kind := "chan-recv", operand := "stopc", owner := "interp",
    rel := .peer ["afterfunc"], why := "only when the AfterFunc has started; it closes stopc right after SetReadDeadline" },
  { func := "Runner.readLine", kind := "read", operand := "r.stdin", owner := "interp",
    rel := .deadline, why := "context.AfterFunc sets the read deadline of the *os.File to now" },
  -- handler.go
  { func := "DefaultExecHandler+closure", kind := "write", operand := "hc.Stderr", owner := "interp",
    rel := .external, why := "diagnostic to the runner's stderr" },
  { func := "DefaultExecHandler+closure", kind := "wait", operand := "cmd", owner := "interp",
    rel := .context, why := "exec.CommandContext: Cancel sends SIGINT, WaitDelay = killTimeout kills and closes the pipes" },
  { func := "runScriptENOEXEC", kind := "read", operand := "os.ReadFile:path", owner := "interp",
    rel := .external, why := "reads the script file the kernel refused to execute" },
  { func := "runScriptENOEXEC", kind := "write", operand := "hc.Stderr", owner := "interp",
    rel := .external, why := "diagnostic to the runner's stderr" },
  { func := "DefaultOpenHandler+closure", kind := "openfile", operand := "path,flag", owner := "interp",
    rel := .external, why := "opens the file named by the script (redirections, source)" },
  -- runner.go
  { func := "Runner.fillExpandConfig+closure", kind := "copy", operand := "w<-f", owner := "interp",
    rel := .external, why := "$(<file): copies the file named by the script" },
  { func := "Runner.fillExpandConfig+go", kind := "openfile", operand := "path,os.O_WRONLY", owner := "procsubst",
    rel := .unreleased, why := "<(…): opening the FIFO blocks until the consumer opens the other end; neither deadline nor context (known finding C31-procsubst-fifo-open)" },
  { func := "Runner.fillExpandConfig+go", kind := "openfile", operand := "path,os.O_RDONLY", owner := "procsubst",
    rel := .unreleased, why := ">(…): same, reading side" },
  { func := "lockedWriter.Write", kind := "other:Lock", operand := "l.mu", owner := "interp",
    rel := .peer ["memwrite"], why := "command substitution output (99867da): the mutex is only held across a write into the in-memory buffer" },
  { func := "lockedWriter.Write", kind := "write", operand := "l.w", owner := "interp",
    rel := .external, why := "the substitution's in-memory buffer (strings.Builder); does not block" },
  { func := "lockedWriter.close", kind := "other:Lock", operand := "l.mu", owner := "interp",
    rel := .peer ["memwrite"], why := "as lockedWriter.Write" },
  { func := "Runner.expandErr", kind := "write", operand := "r.stderr", owner := "interp",
    rel := .external, why := "stderr writer supplied by the embedder (or a pipe closed by the parent)" },
  { func := "Runner.out", kind := "write", operand := "r.stdout", owner := "interp",
    rel := .external, why := "stdout writer supplied by the embedder; for a pipeline's left side the parent closes the read end when its right side ends (EPIPE)" },
  { func := "Runner.outf", kind := "write", operand := "r.stdout", owner := "interp",
    rel := .external, why := "as Runner.out" },
  { func := "Runner.errf", kind := "write", operand := "r.stderr", owner := "interp",
    rel := .external, why := "as Runner.expandErr" },
  { func := "Runner.cmd", kind := "wait", operand := "wg", owner := "interp",
    rel := .peer ["interp"], why := "pipeline: waits for the left-hand side, an interpreter on the same context" },
  { func := "Runner.hdocReader+go", kind := "write", operand := "pw", owner := "hdoc-writer",
    rel := .peer ["interp"], why := "here-document writer: the statement closes the read end when it ends (EPIPE)" },
  { func := "Runner.redir+go", kind := "write", operand := "pw", owner := "hdoc-writer",
    rel := .peer ["interp"], why := "here-string writer: same" },
  { func := "Runner.open", kind := "openfile", operand := "path,flags", owner := "interp",
    rel := .peer ["procsubst-arrives"], why := "consumer side of a process-substitution FIFO: the goroutine opening the other end has already been started" },
  -- stdin_os.go
  { func := "newStdinFile+go", kind := "copy", operand := "pw<-r", owner := "stdin-copier",
    rel := .external, why := "copies the embedder's non-file stdin into a pipe; nobody waits for it" },
  -- trace.go
  { func := "tracer.flush", kind := "write", operand := "t.output", owner := "interp",
    rel := .external, why := "xtrace to stderr" },
  -- vars.go
  { func := "Runner.lookupVar", kind := "read", operand := "cryptorand", owner := "interp",
    rel := .external, why := "$SRANDOM: kernel random source, does not block" }
]

/-- activities of the wait-for graph -/
def peers : List Peer := [
  { name := "interp", alsoNeeds := [] },                         -- any Runner/subshell running statements on the shared context; polls stop()
  { name := "bgjob", alsoNeeds := ["interp", "procsubst"] },     -- an entry of r.bgProcs: `stmt &` goroutine or process-substitution goroutine
  { name := "procsubst", alsoNeeds := ["interp"] },              -- opens the FIFO, then runs the statements
  { name := "procsubst-arrives", alsoNeeds := [] },              -- the goroutine reaching its OpenFile: unconditional
  { name := "afterfunc", alsoNeeds := [] },                      -- SetReadDeadline; close(stopc)
  { name := "hdoc-writer", alsoNeeds := [] },
  { name := "memwrite", alsoNeeds := [] },                       -- a write into an in-memory buffer under lockedWriter's mutex
  { name := "stdin-copier", alsoNeeds := [] }
]

/-- the operations nothing releases (the open known finding C31-procsubst-fifo-open) -/
def unreleasedKeys : List String := [
  "Runner.fillExpandConfig+go|openfile|path,os.O_WRONLY",
  "Runner.fillExpandConfig+go|openfile|path,os.O_RDONLY"
]

/-- where `Runner.stop` is consulted: the placement the skeleton model mirrors (stmt; cmd entry, the
    while-loop head and — since 7ead8d8 — the top of every word-list `for` iteration; call) — not in
    `stmts`, `loopStmtsBroken`, nor in the C-style `for` loop -/
def stopCalls : List (String × String × Nat) := [
  ("Runner.stmt", "stop-call", 1),
  ("Runner.cmd", "stop-call", 3),
  ("Runner.call", "stop-call", 1)
]

/-- the only places that look at the context or arm a deadline -/
def ctxUses : List (String × String × Nat) := [
  ("Runner.stop", "ctx.Err", 1),
  ("Runner.Run", "ctx.Err", 1),                     -- 7cff692: a cancelled Run never reports success
  ("Runner.builtin", "AfterFunc", 1),               -- 5c04a9d: mapfile
  ("Runner.builtin+closure", "SetReadDeadline", 1),
  ("Runner.builtin", "SetReadDeadline", 1),
  ("Runner.readLine", "AfterFunc", 1),
  ("Runner.readLine+closure", "SetReadDeadline", 2),
  ("DefaultExecHandler+closure", "CommandContext", 1),
  ("DefaultExecHandler+closure", "ctx.Err", 2),
  -- places that call (*os.File).Fd on, or hand to os/exec, a file that may be the runner's stdin:
  -- Fd() switches the file to blocking mode, after which SetReadDeadline no longer interrupts a
  -- read — the `deadline` class of readLine/mapfile holds only while none of these has touched the
  -- same file (open known findings C31-read-after-fd-exec/-mapfile: the exec path)
  ("DefaultExecHandler+closure", "exec-stdin", 1),
  ("stdinTerminal", "Fd-call:chardev-only", 1),     -- only reached for character devices
  ("Runner.unTest", "Fd-call:chardev-only", 1)      -- `test -t N`: since d41cde1 only for character devices
]

end ShVerif.Expect.C31
