/-
  C01 — Formatting preserves program structure: property theorems on the L4 model, fragment F0
  (literal words over a safe alphabet, single quotes, simple commands, lists, `&&` `||` `|` `!`
  `&`, subshell, block), every printer option except KeepPadding.
-/
import ShVerif.Proofs.L4PrintGen
import ShVerif.Proofs.L4ParseWF
import ShVerif.Proofs.L4Fuel
import ShVerif.Proofs.L4Flat
import ShVerif.Proofs.L4PosFirst
import ShVerif.Proofs.L4LexLines
namespace ShVerif.Props.C01
open ShVerif ShVerif.L4

deriving instance DecidableEq for Except

/-- The documented refusal: Minify together with SingleLine is an error, for every node kind. -/
theorem print_refuses (o : Opts) (h : o.minify = true ∧ o.singleLine = true) (f : File) (s : Stmt) (c : Cmd) (w : Word) :
    printFile o f = .error .minifySingleLine ∧ printStmt o s = .error .minifySingleLine ∧
    printCmd o c = .error .minifySingleLine ∧ printWord o w = .error .minifySingleLine := by
  have hr : refuse o = true := by simp [refuse, h.1, h.2]
  refine ⟨?_, ?_, ?_, ?_⟩
  · unfold printFile; rw [if_pos hr]
  · unfold printStmt; rw [if_pos hr]
  · unfold printCmd; rw [if_pos hr]
  · unfold printWord; rw [if_pos hr]

/-- Printing a well-formed fragment tree never fails (no Go panic: `levelIncs` stays balanced,
    no empty word or call is indexed) unless the documented refusal applies; for every option
    set and every assignment of positions. -/
theorem print_total (o : Opts) (hr : refuse o = false) (f : File) (hw : f.wf = true) :
    ∃ b, printFile o f = .ok b := by
  unfold printFile
  simp only [hr, Bool.false_eq_true, ↓reduceIte]
  exact ⟨_, (((Inv.init o).stmtList f.stmts hw).newline 0).finish⟩

/-- The same for a statement printed on its own. -/
theorem print_total_stmt (o : Opts) (hr : refuse o = false) (s : Stmt) (hw : s.wf = true) :
    ∃ b, printStmt o s = .ok b := by
  unfold printStmt
  simp only [hr, Bool.false_eq_true, ↓reduceIte]
  have : (Stmts.cons s .nil).wf = true := by unfold Stmts.wf; simp [hw, Stmts.wf]
  exact ⟨_, ((Inv.init o).stmtList _ this).finish⟩

/-- The same for a command printed on its own. -/
theorem print_total_cmd (o : Opts) (hr : refuse o = false) (c : Cmd) (hw : c.wf = true) :
    ∃ b, printCmd o c = .ok b := by
  unfold printCmd
  simp only [hr, Bool.false_eq_true, ↓reduceIte]
  exact ⟨_, (Inv.command c 0 _ (⟨rfl, rfl⟩ : Inv 0 { (P.init o) with firstLine := false }) hw).finish⟩

/-- The same for a word printed on its own. -/
theorem print_total_word (o : Opts) (hr : refuse o = false) (w : Word) (hw : w.wf = true) :
    ∃ b, printWord o w = .ok b := by
  unfold printWord
  simp only [hr, Bool.false_eq_true, ↓reduceIte]
  obtain ⟨pos, hpos⟩ := Word.wf_pos hw
  rw [hpos]
  exact ⟨_, (Inv.word (n := 0) (p := { (P.init o) with line := pos.line }) ⟨rfl, rfl⟩ w hw).finish⟩

/-! ## Round trip -/

/-- The full statement: every option set (KeepPadding is not in the model), every assignment of
    positions.  It is false of the model: with positions no parser assigns the printer glues two
    parentheses (see `roundtrip_fails_positions`), so it stays a definition; the theorems below
    give the parts that hold.  (The SingleLine defect that used to refute it for parser-assigned
    positions — `{ a & }` NEWLINE `b` printed `{ a & } b`, known finding
    C01-single-missing-semicolon — is repaired in the code and in the model: `singleLine_repaired`.) -/
def roundtrip_statement : Prop :=
  ∀ (o : Opts) (l : Lang) (f : File) (b : Bytes), f.wf = true → printFile o f = .ok b →
    ∃ f', parse l b = .ok f' ∧ f'.norm = f.norm

private def w1 (line : Nat) (s : String) : Word := ⟨[.lit ⟨0, line, 1⟩ ⟨1, line, 2⟩ (bytesOfString s)]⟩

/-! ### The repaired SingleLine defect (fixed finding C01-single-missing-semicolon) -/

/-- `{ a & }` NEWLINE `b` -/
def singleLineWitness : File :=
  ⟨.cons (.mk ⟨0, 1, 1⟩ Pos.zero false false
      (.block ⟨0, 1, 1⟩ ⟨6, 1, 7⟩ (.cons (.mk ⟨2, 1, 3⟩ ⟨4, 1, 5⟩ false true (.call [w1 1 "a"])) .nil)))
    (.cons (.mk ⟨8, 2, 1⟩ Pos.zero false false (.call [w1 2 "b"])) .nil)⟩

/-- SingleLine now prints `{ a & }; b`: `stmtEnd` clears `wroteSemi` when the statement itself
    writes no terminator, so the `&` inside the block no longer suppresses the `;`. -/
theorem singleLine_repaired :
    printFile { singleLine := true } singleLineWitness = .ok (bytesOfString "{ a & }; b\n") := by
  decide +kernel

/-- … and that output parses back to the same tree -/
theorem singleLine_repaired_roundtrip :
    (match parse .bash (bytesOfString "{ a & }; b\n") with
      | .ok f => f.norm.beq singleLineWitness.norm
      | .error _ => false) = true := by
  decide +kernel

/-- the parser answers with a syntax error -/
def isSyntaxError : Except ParseErr File → Bool
  | .error (.syntax _) => true
  | _ => false

/-! ### Arbitrary positions: the all-positions statement is false -/

/-- `( (a) )` whose outer parenthesis claims line 5 and whose inner statement claims line 3 -/
def scrambledWitness : File :=
  ⟨.cons (.mk ⟨0, 5, 1⟩ Pos.zero false false
      (.subshell ⟨0, 5, 1⟩ ⟨6, 5, 7⟩ (.cons (.mk ⟨2, 3, 3⟩ Pos.zero false false
         (.subshell ⟨2, 3, 3⟩ ⟨4, 3, 5⟩ (.cons (.mk ⟨3, 3, 4⟩ Pos.zero false false (.call [w1 3 "a"])) .nil))) .nil))) .nil⟩

/-- The printer writes `((a) )`: `subshellOpen` sees the inner statement on another line than
    `(` and counts on a line break, which `newlines` does not make because the line is earlier. -/
theorem scrambled_output : printFile {} scrambledWitness = .ok (bytesOfString "((a) )\n") := by
  decide +kernel

def isOk : Except ParseErr File → Bool
  | .ok _ => true
  | _ => false

/-- `((` starts an arithmetic command in Bash; the model parser leaves the fragment -/
theorem scrambled_output_rejected : isOk (parse .bash (bytesOfString "((a) )\n")) = false := by
  decide +kernel

/-- Hence the all-positions statement is false; `posMono` below is the hypothesis that excludes
    such trees (the parser never builds them). -/
theorem roundtrip_fails_positions : ¬ roundtrip_statement := by
  intro h
  obtain ⟨f', hf', _⟩ := h {} .bash scrambledWitness _ (by decide +kernel) scrambled_output
  have := scrambled_output_rejected
  rw [hf'] at this
  cases this


/-! ## `Prints`: the concrete syntaxes of a tree, and the parser on them

  `Prints t b` says that `b` is *a* concrete syntax of the tree `t`: `b` is the rendering of a list
  of pieces (words, operators, layout) in which no piece glues with its neighbour (`lexChain`),
  and whose token sequence is that of a valid layout of a tree with the same norm as `t` — any
  choice of `;` / newline separators, blanks, tabs, escaped newlines, blank lines, optional
  newlines after `(`, `{`, `&&`, `||`, `|`.  It does not mention the printer or its options. -/

def Prints (t : File) (b : Bytes) : Prop :=
  ∃ (ps : List Piece) (nl0 : Bool) (lt : LStmts),
    b = render ps ∧ lexChain ps = true ∧ lt.valid = true ∧
    expect false ps = nlT nl0 ++ (lt.toks ++ [.eof]) ∧ lt.norm = t.norm

/-- The parser half of the round trip, for every language variant: any concrete syntax of `t`
    (not only the layouts today's printer chooses) parses to a tree with the same norm. -/
theorem parse_of_Prints (l : Lang) (t : File) (b : Bytes) (h : Prints t b) :
    ∃ t', parse l b = .ok t' ∧ t'.norm = t.norm := by
  obtain ⟨ps, nl0, lt, rfl, hc, hv, he, hn⟩ := h
  have hm := lexAll_pieces ps hc
  rw [he] at hm
  obtain ⟨f, h1, h2⟩ := parseToks_layout lt hv nl0 (lexAll (render ps)) (lexAll_line _) hm
  exact ⟨f, h1, by rw [h2, hn]⟩

/-- Lexing a well-formed word printed on its own gives the word back (positions aside, adjacent
    literals merged): the word case of "any word used as a command argument printed on its own",
    for every option set. -/
theorem roundtrip_word (o : Opts) (w : Word) (hw : w.wf = true) (b : Bytes) (hp : printWord o w = .ok b) :
    ∃ parts stop, lexWord b ⟨0, 1, 1⟩ .idle [] = .done parts stop [] ∧ normParts parts = w.norm := by
  obtain ⟨pos, hpos⟩ := Word.wf_pos hw
  have hne := Word.wf_parts_ne hw
  unfold printWord at hp
  split at hp
  · cases hp
  · rw [hpos] at hp
    simp only at hp
    have hb : b = wordBytes w.parts := by
      cases hparts : w.parts with
      | nil => exact absurd hparts hne
      | cons wp rest =>
        have hpl : wp.pos.line = pos.line := by
          simp only [Word.pos?, hparts, List.head?_cons, Option.map_some, Option.some.injEq] at hpos
          rw [← hpos]
        have hI : Inv 0 (({ (P.init o) with line := pos.line } : P).word w) :=
          Inv.word (n := 0) (p := { (P.init o) with line := pos.line }) ⟨rfl, rfl⟩ w hw
        rw [hI.finish] at hp
        simp only [Except.ok.injEq] at hp
        rw [← hp]
        simp only [P.word, P.wordParts, hparts, hpl, Nat.lt_irrefl, decide_false, Bool.and_false, Bool.false_eq_true,
          ↓reduceIte]
        have hout : ∀ (q : P) (wps : List WordPart), (q.wordPartsLoop wps).out = q.out := by
          intro q wps
          induction wps generalizing q with
          | nil => rfl
          | cons x xs ih =>
            unfold P.wordPartsLoop
            rw [ih]
            cases x <;> rfl
        simp [hout, P.init, render, Piece.bytes]
    subst hb
    obtain ⟨res, stop, h1, h2⟩ := lexWord_parts w.parts (Word.wf_parts hw) [] rfl ⟨0, 1, 1⟩ .idle [] (by simp [LexMode.notSgl])
    refine ⟨res, stop, by simpa using h1, ?_⟩
    rw [normParts_eq, h2]
    simp [pend, Word.norm, normParts_eq]


/-! ## The round trip for programs made of simple commands

  `flat`: every statement of the file is a simple command (with `!`, `&`, `;` and any layout of
  the source: line continuations, blank lines, a `;` on a later line).  For these programs both
  halves are proved, for **every** option set (Indent, BinaryNextLine, SwitchCaseIndent,
  SpaceRedirects, FunctionNextLine, Minify, SingleLine; KeepPadding is not in the model) and
  **every** assignment of positions. -/

/-- printer half on flat programs -/
theorem print_in_Prints_flat (o : Opts) (f : File) (b : Bytes) (hwf : f.wf = true) (hflat : f.stmts.flat = true)
    (hne : f.stmts ≠ .nil) (hp : printFile o f = .ok b) : Prints f b := by
  obtain ⟨ps, lt, h1, h2, h3, h4, h5⟩ := L4.print_in_Prints_flat o f b hwf hflat hne hp
  exact ⟨ps, false, lt, h1, h2, h3, h4, h5⟩

/-- **Round trip, simple-command programs**: whatever the options and the positions, the printed
    bytes parse again, in every variant, to a tree with the same norm. -/
theorem roundtrip_flat (o : Opts) (l : Lang) (f : File) (b : Bytes) (hwf : f.wf = true) (hflat : f.stmts.flat = true)
    (hne : f.stmts ≠ .nil) (hp : printFile o f = .ok b) : ∃ f', parse l b = .ok f' ∧ f'.norm = f.norm :=
  parse_of_Prints l f b (print_in_Prints_flat o f b hwf hflat hne hp)

/-- … and printing does succeed unless refused, so the statement is not vacuous. -/
theorem roundtrip_flat_total (o : Opts) (hr : refuse o = false) (l : Lang) (f : File) (hwf : f.wf = true)
    (hflat : f.stmts.flat = true) (hne : f.stmts ≠ .nil) :
    ∃ b f', printFile o f = .ok b ∧ parse l b = .ok f' ∧ f'.norm = f.norm := by
  obtain ⟨b, hb⟩ := print_total o hr f hwf
  obtain ⟨f', h1, h2⟩ := roundtrip_flat o l f b hwf hflat hne hb
  exact ⟨b, f', hb, h1, h2⟩

/-! ## The round trip for programs without subshells and blocks

  `lin`: every statement is built from simple commands with `&&`, `||`, `|` (any nesting the
  grammar allows), `!`, `&`, `;`.  Both halves are proved for every option set — including
  BinaryNextLine, Minify and SingleLine — and every assignment of positions. -/

/-- printer half on programs without subshells and blocks -/
theorem print_in_Prints_lin (o : Opts) (f : File) (b : Bytes) (hwf : f.wf = true) (hlin : f.stmts.lin = true)
    (hne : f.stmts ≠ .nil) (hp : printFile o f = .ok b) : Prints f b := by
  obtain ⟨ps, lt, h1, h2, h3, h4, h5⟩ := L4.print_in_Prints_lin o f b hwf hlin hne hp
  exact ⟨ps, false, lt, h1, h2, h3, h4, h5⟩

/-- **Round trip, programs of simple commands, pipelines and and-or lists**: whatever the options
    and the positions, the printed bytes parse again, in every variant, to a tree with the same norm. -/
theorem roundtrip_lin (o : Opts) (l : Lang) (f : File) (b : Bytes) (hwf : f.wf = true) (hlin : f.stmts.lin = true)
    (hne : f.stmts ≠ .nil) (hp : printFile o f = .ok b) : ∃ f', parse l b = .ok f' ∧ f'.norm = f.norm :=
  parse_of_Prints l f b (print_in_Prints_lin o f b hwf hlin hne hp)

/-- … and printing succeeds unless refused. -/
theorem roundtrip_lin_total (o : Opts) (hr : refuse o = false) (l : Lang) (f : File) (hwf : f.wf = true)
    (hlin : f.stmts.lin = true) (hne : f.stmts ≠ .nil) :
    ∃ b f', printFile o f = .ok b ∧ parse l b = .ok f' ∧ f'.norm = f.norm := by
  obtain ⟨b, hb⟩ := print_total o hr f hwf
  obtain ⟨f', h1, h2⟩ := roundtrip_lin o l f b hwf hlin hne hb
  exact ⟨b, f', hb, h1, h2⟩

/-- a well-formed `lin` file: `! a | b && c &` NEWLINE `d` -/
example : ∃ f : File, f.wf = true ∧ f.stmts.lin = true ∧ f.stmts ≠ .nil :=
  ⟨⟨.cons (.mk ⟨0, 1, 1⟩ ⟨14, 1, 15⟩ false true
        (.binary ⟨8, 1, 9⟩ .andStmt
          (.mk ⟨0, 1, 1⟩ Pos.zero true false
            (.binary ⟨4, 1, 5⟩ .pipe (.mk ⟨2, 1, 3⟩ Pos.zero false false (.call [w1 1 "a"]))
              (.mk ⟨6, 1, 7⟩ Pos.zero false false (.call [w1 1 "b"]))))
          (.mk ⟨11, 1, 12⟩ Pos.zero false false (.call [w1 1 "c"]))))
      (.cons (.mk ⟨16, 2, 1⟩ Pos.zero false false (.call [w1 2 "d"])) .nil)⟩,
    by decide +kernel, by decide +kernel, by simp⟩

/-- a flat well-formed file: `! a 'x y' &` NEWLINE NEWLINE `b c` with `c` on a later line -/
example : ∃ f : File, f.wf = true ∧ f.stmts.flat = true ∧ f.stmts ≠ .nil :=
  ⟨⟨.cons (.mk ⟨0, 1, 1⟩ ⟨10, 1, 11⟩ true true (.call [w1 1 "a", ⟨[.sgl ⟨4, 1, 5⟩ ⟨8, 1, 9⟩ (bytesOfString "x y")]⟩]))
      (.cons (.mk ⟨13, 3, 1⟩ Pos.zero false false (.call [w1 3 "b", w1 5 "c"])) .nil)⟩,
    by decide +kernel, by decide +kernel, by simp⟩

/-! ## The round trip for all of fragment F0

  Subshells `( )` and blocks `{ }` included.  The printer half needs one hypothesis about the
  positions: line numbers never decrease in source order (`posMono`) — which is what any parser
  assigns; `roundtrip_fails_positions` shows that it cannot be dropped.  With it both halves are
  proved for **every** option set (Indent, BinaryNextLine, SwitchCaseIndent, SpaceRedirects,
  FunctionNextLine, Minify, SingleLine; KeepPadding is not in the model).  The second side
  condition the statement used to carry (`noStale`, about the `wroteSemi` flag under SingleLine)
  went away with the repair of C01-single-missing-semicolon: `stmtEnd` now clears the flag. -/

/-- the printer half: what today's printer writes is a concrete syntax of the tree -/
theorem print_in_Prints (o : Opts) (f : File) (b : Bytes) (hwf : f.wf = true) (hmono : posMono f)
    (hne : f.stmts ≠ .nil) (hp : printFile o f = .ok b) : Prints f b := by
  obtain ⟨ps, lt, h1, h2, h3, h4, h5⟩ := L4.print_in_Prints_gen o f b hwf hmono hne hp
  exact ⟨ps, false, lt, h1, h2, h3, h4, h5⟩

/-- **Round trip, fragment F0**: for every option set and every tree with monotone line numbers,
    the printed bytes parse again, in every variant, to a tree with the same norm. -/
theorem roundtrip_partial (o : Opts) (l : Lang) (f : File) (b : Bytes) (hwf : f.wf = true) (hmono : posMono f)
    (hne : f.stmts ≠ .nil) (hp : printFile o f = .ok b) : ∃ f', parse l b = .ok f' ∧ f'.norm = f.norm :=
  parse_of_Prints l f b (print_in_Prints o f b hwf hmono hne hp)

/-- … and printing succeeds unless refused. -/
theorem roundtrip_partial_total (o : Opts) (hr : refuse o = false) (l : Lang) (f : File) (hwf : f.wf = true)
    (hmono : posMono f) (hne : f.stmts ≠ .nil) :
    ∃ b f', printFile o f = .ok b ∧ parse l b = .ok f' ∧ f'.norm = f.norm := by
  obtain ⟨b, hb⟩ := print_total o hr f hwf
  obtain ⟨f', h1, h2⟩ := roundtrip_partial o l f b hwf hmono hne hb
  exact ⟨b, f', hb, h1, h2⟩

/-- the empty file prints as one newline, which parses to the empty file -/
theorem roundtrip_empty :
    printFile {} ⟨.nil⟩ = .ok [10] ∧
    (match parse .bash [10] with | .ok f => f.norm.beq (File.mk .nil).norm | .error _ => false) = true := by
  constructor <;> decide +kernel

/-- the scrambled witness is excluded by `posMono`, as it must be -/
example : ¬ posMono scrambledWitness := by
  unfold posMono
  decide +kernel

/-! ## From source text: no hypothesis on the tree

  `parse_WF` (`Proofs/L4ParseWF.lean`): whatever the model parser accepts is well formed and has
  non-decreasing line numbers — the lexer only produces positions by `Pos.adv` along the input
  (`lexAll_ok`: the flattened lines of the token stream are sorted, every word token is a
  well-formed word), and the parser only copies token positions into the tree, in order, with the
  constructors `wf` describes (`all_claims`: one invariant per parser function, by induction on
  the fuel).  Hence the round trip holds for every tree that comes from source text. -/

/-- the parser only builds well-formed trees with non-decreasing lines -/
def parse_WF_statement : Prop :=
  ∀ (l : Lang) (b : Bytes) (f : File), parse l b = .ok f → f.wf = true ∧ posMono f

theorem parse_WF : parse_WF_statement := fun l b f h => L4.parse_wf_posMono l b f h

/-- the empty file prints as one newline under every option set that is not refused -/
theorem printFile_nil (o : Opts) (hr : refuse o = false) : printFile o ⟨.nil⟩ = .ok [10] := by
  unfold printFile
  simp [hr, P.stmtList, P.stmtListWith, P.stmtListLoop, P.newline, P.finish, P.init, P.gapw, P.advanceLine, render,
    Piece.bytes]

theorem parse_newline (l : Lang) : (match parse l [10] with | .ok f => f.norm.beq NStmts.nil | .error _ => false) = true := by
  cases l <;> decide +kernel

/-- **Round trip from source text** (fragment F0, every option set, every variant): if `src`
    parses to `f` and `f` prints as `b`, then `b` parses to a tree with the same norm.  No
    hypothesis on `f`: well-formedness and monotone positions come from `parse_WF`, and the empty
    file (the only case `f.stmts = .nil`) is handled directly. -/
theorem roundtrip_src (o : Opts) (l : Lang) (src : Bytes) (f : File) (b : Bytes) (hsrc : parse l src = .ok f)
    (hp : printFile o f = .ok b) : ∃ f', parse l b = .ok f' ∧ f'.norm = f.norm := by
  obtain ⟨hwf, hmono⟩ := parse_WF l src f hsrc
  by_cases hne : f.stmts = .nil
  · obtain ⟨ss⟩ := f
    simp only at hne
    subst hne
    have hr : refuse o = false := by
      cases h : refuse o with
      | false => rfl
      | true => unfold printFile at hp; simp [h] at hp
    rw [printFile_nil o hr] at hp
    cases hp
    have := parse_newline l
    cases hq : parse l [10] with
    | error e => rw [hq] at this; cases this
    | ok f' =>
      rw [hq] at this
      refine ⟨f', rfl, ?_⟩
      simp only [File.norm, Stmts.norm] at this ⊢
      cases hn : f'.stmts.norm with
      | nil => rfl
      | cons s r => rw [hn] at this; simp [NStmts.beq] at this
  · exact roundtrip_partial o l f b hwf hmono hne hp

/-- … and printing succeeds unless refused. -/
theorem roundtrip_src_total (o : Opts) (hr : refuse o = false) (l : Lang) (src : Bytes) (f : File)
    (hsrc : parse l src = .ok f) : ∃ b f', printFile o f = .ok b ∧ parse l b = .ok f' ∧ f'.norm = f.norm := by
  obtain ⟨b, hb⟩ := print_total o hr f (parse_WF l src f hsrc).1
  obtain ⟨f', h1, h2⟩ := roundtrip_src o l src f b hsrc hb
  exact ⟨b, f', hb, h1, h2⟩

/-- `f.stmts ≠ .nil` can fail for a parsed tree: the empty input (and any input of blank lines)
    parses to the empty file -/
example : (match parse .bash [] with | .ok f => f.norm.beq NStmts.nil | .error _ => false) = true := by
  decide +kernel

/-- **`fuel_sufficient`**: the model parser never runs out of the fuel it gives itself
    (`6·|tokens| + 8`): its answer is always a tree, a syntax error or `outside`, so "parses" in the
    `_src` theorems means what the parser answers, never an artefact of the fuel
    (`Proofs/L4Fuel.lean`: each parser function needs at most `6·|unread tokens| + c` fuel). -/
theorem fuel_sufficient (l : Lang) (src : Bytes) : parse l src ≠ .error .outOfFuel := L4.parse_fuel l src

/-- on token lists -/
theorem fuel_sufficient_toks (toks : List TokPos) : parseToks toks ≠ .error .outOfFuel := L4.parseToks_fuel toks

/-- **The tree the parser builds is its token stream**: flattening the tree (`ftoks`: `!`, words,
    operators, `( ) { }`, `;`/`&`, each with the position stored in the tree) gives back the
    lexer's tokens without the newline tokens, in order, each at its own position, up to the final
    `eof` — the parser loses, invents, reorders or moves no token, and every position in the tree
    is the position of the token it came from (`Proofs/L4Flat.lean`). -/
theorem parse_tokens (l : Lang) (src : Bytes) (f : File) (h : parse l src = .ok f) :
    ∃ tail, dropNl (lexAll src) = f.stmts.ftoks ++ tail ∧ ∀ tp, tail.head? = some tp → tp.1 = .eof :=
  L4.parse_flatten l src f h

/-- every token of the lexer sits at a valid position, a word token at the position of its first
    part -/
theorem lex_positions (src : Bytes) : ∀ tp ∈ lexAll src, tp.ok2 := L4.lexAll_ok2 src

/-- **Statement positions are first-token positions**: in every tree the parser builds, the
    position of a statement is the position of its first token (`!` included); the left operand of
    a negated pipeline (`! a | b`: the `!` belongs to the pipeline) keeps the position of the `!`
    (`Stmt.pk`, inside subshells and blocks as well; `Proofs/L4PosFirst.lean`). -/
theorem stmt_positions (l : Lang) (src : Bytes) (f : File) (h : parse l src = .ok f) : f.stmts.pkAll :=
  L4.parse_pk l src f h

/-- a word token that starts on line `n` ends on line `n` + the newlines in its bytes, and that is
    the largest line number of its parts -/
theorem word_end_lines (src : Bytes) : ∀ tp ∈ lexAll src, tp.1.ok3 tp.2 := L4.lexAll_ok3 src

/-- where the tokens of printed text sit: the k-th token of `render ps` is on line 1 + the newlines
    written before the k-th word/operator piece (`expectLines`), whenever no piece glues with the
    next (`lexChain`, which the printer guarantees: `print_in_Prints`) -/
theorem printed_token_lines (ps : List Piece) (h : lexChain ps = true) :
    (lexAll (render ps)).map (fun tp => tp.2.line) = expectLines false 1 ps :=
  L4.lexAll_pieces_lines ps h

/-! ## Stated, not proved

  The remaining half of the fuel statement: that *more* fuel gives the same answer (monotonicity).
  A definition, not a theorem; its second conjunct is `fuel_sufficient_toks`. -/

/-- fuel `|tokens|·6 + 8` is never used up, and any larger fuel gives the same answer -/
def fuel_sufficient_statement : Prop :=
  ∀ (toks : List TokPos) (fuel : Nat), fuel ≥ parseFuelFor toks →
    parseToksF fuel toks = parseToks toks ∧ parseToks toks ≠ .error .outOfFuel

/-- the hypotheses of the round trip are satisfiable: the tree the parser builds for
    `a b; ( c && d ) |` NEWLINE `{ e; }` NEWLINE `! 'x y' &` is well-formed, has monotone lines and
    is not empty -/
example : ∃ f, parse .bash (bytesOfString "a b; ( c && d ) |\n{ e; }\n! 'x y' &\n") = .ok f ∧ f.wf = true ∧
    posMono f ∧ f.stmts ≠ .nil := by
  cases h : parse .bash (bytesOfString "a b; ( c && d ) |\n{ e; }\n! 'x y' &\n") with
  | error e =>
    have : (match parse .bash (bytesOfString "a b; ( c && d ) |\n{ e; }\n! 'x y' &\n") with | .ok _ => true | _ => false) = true := by
      decide +kernel
    rw [h] at this
    exact absurd this (by simp)
  | ok f =>
    refine ⟨f, rfl, ?_⟩
    have : (match parse .bash (bytesOfString "a b; ( c && d ) |\n{ e; }\n! 'x y' &\n") with
        | .ok f => f.wf && decide (f.stmts.lines.Pairwise (· ≤ ·)) && decide (f.stmts.length > 0) | _ => false) = true := by
      decide +kernel
    rw [h] at this
    simp only [Bool.and_eq_true, decide_eq_true_eq] at this
    refine ⟨this.1.1, this.1.2, ?_⟩
    intro e
    rw [e] at this
    simp [Stmts.length] at this

end ShVerif.Props.C01
