/-
  C01 — Formatting preserves program structure: property theorems on the L4 model, fragment F0
  (literal words over a safe alphabet, single quotes, simple commands, lists, `&&` `||` `|` `!`
  `&`, subshell, block), every printer option except KeepPadding.
-/
import ShVerif.Proofs.L4
namespace ShVerif.Props.C01
open ShVerif ShVerif.L4

deriving instance DecidableEq for Except

/-- The documented refusal: Minify together with SingleLine is an error, for every node kind. -/
theorem print_refuses (o : Opts) (h : o.minify = true ∧ o.singleLine = true) (f : File) (s : Stmt) (c : Cmd) (w : Word) :
    printFile o f = .error .minifySingleLine ∧ printStmt o s = .error .minifySingleLine ∧
    printCmd o c = .error .minifySingleLine ∧ printWord o w = .error .minifySingleLine := by
  have hr : refuse o = true := by simp [refuse, h.1, h.2]
  refine ⟨?_, ?_, ?_, ?_⟩
  · unfold printFile; rw [if_pos hr]
  · unfold printStmt; rw [if_pos hr]
  · unfold printCmd; rw [if_pos hr]
  · unfold printWord; rw [if_pos hr]

/-- Printing a well-formed fragment tree never fails (no Go panic: `levelIncs` stays balanced,
    no empty word or call is indexed) unless the documented refusal applies; for every option
    set and every assignment of positions. -/
theorem print_total (o : Opts) (hr : refuse o = false) (f : File) (hw : f.wf = true) :
    ∃ b, printFile o f = .ok b := by
  unfold printFile
  simp only [hr, Bool.false_eq_true, ↓reduceIte]
  exact ⟨_, (((Inv.init o).stmtList f.stmts hw).newline 0).finish⟩

/-- The same for a statement printed on its own. -/
theorem print_total_stmt (o : Opts) (hr : refuse o = false) (s : Stmt) (hw : s.wf = true) :
    ∃ b, printStmt o s = .ok b := by
  unfold printStmt
  simp only [hr, Bool.false_eq_true, ↓reduceIte]
  have : (Stmts.cons s .nil).wf = true := by unfold Stmts.wf; simp [hw, Stmts.wf]
  exact ⟨_, ((Inv.init o).stmtList _ this).finish⟩

/-- The same for a command printed on its own. -/
theorem print_total_cmd (o : Opts) (hr : refuse o = false) (c : Cmd) (hw : c.wf = true) :
    ∃ b, printCmd o c = .ok b := by
  unfold printCmd
  simp only [hr, Bool.false_eq_true, ↓reduceIte]
  exact ⟨_, (Inv.command c 0 _ (Inv.init o) hw).finish⟩

/-- The same for a word printed on its own. -/
theorem print_total_word (o : Opts) (hr : refuse o = false) (w : Word) (hw : w.wf = true) :
    ∃ b, printWord o w = .ok b := by
  unfold printWord
  simp only [hr, Bool.false_eq_true, ↓reduceIte]
  obtain ⟨pos, hpos⟩ := Word.wf_pos hw
  rw [hpos]
  exact ⟨_, (Inv.word (n := 0) (p := { (P.init o) with line := pos.line }) ⟨rfl, rfl⟩ w hw).finish⟩

/-! ## Round trip -/

/-- The full statement: every option set (KeepPadding is not in the model), every assignment of
    positions.  It is false of the model and of the code (see `roundtrip_fails_singleLine`), so
    it stays a definition; the theorems below give the parts that hold. -/
def roundtrip_statement : Prop :=
  ∀ (o : Opts) (l : Lang) (f : File) (b : Bytes), f.wf = true → printFile o f = .ok b →
    ∃ f', parse l b = .ok f' ∧ f'.norm = f.norm

/-! ### The recorded SingleLine defect, on the model (known finding C01-single-missing-semicolon) -/

private def w1 (line : Nat) (s : String) : Word := ⟨[.lit ⟨0, line, 1⟩ ⟨1, line, 2⟩ (bytesOfString s)]⟩

/-- `{ a & }` NEWLINE `b` -/
def singleLineWitness : File :=
  ⟨.cons (.mk ⟨0, 1, 1⟩ Pos.zero false false
      (.block ⟨0, 1, 1⟩ ⟨6, 1, 7⟩ (.cons (.mk ⟨2, 1, 3⟩ ⟨4, 1, 5⟩ false true (.call [w1 1 "a"])) .nil)))
    (.cons (.mk ⟨8, 2, 1⟩ Pos.zero false false (.call [w1 2 "b"])) .nil)⟩

/-- SingleLine prints `{ a & } b`: no separator before `b`, because `wroteSemi` is still set by
    the `&` inside the block. -/
theorem singleLine_output :
    printFile { singleLine := true } singleLineWitness = .ok (bytesOfString "{ a & } b\n") := by
  decide +kernel

/-- the parser answers with a syntax error -/
def isSyntaxError : Except ParseErr File → Bool
  | .error (.syntax _) => true
  | _ => false

/-- … and that output is a syntax error for the model parser as for the Go parser. -/
theorem singleLine_output_rejected :
    isSyntaxError (parse .bash (bytesOfString "{ a & } b\n")) = true := by
  decide +kernel

/-- Hence the full statement is false: the witness is well-formed, prints, and does not re-parse. -/
theorem roundtrip_fails_singleLine : ¬ roundtrip_statement := by
  intro h
  obtain ⟨f', hf', _⟩ := h { singleLine := true } .bash singleLineWitness _ (by decide +kernel) singleLine_output
  have := singleLine_output_rejected
  rw [hf'] at this
  cases this

end ShVerif.Props.C01
