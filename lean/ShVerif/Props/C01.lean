/-
  C01 — Formatting preserves program structure: property theorems on the L4 model, fragment F0.
-/
import ShVerif.Model.L4Syntax
namespace ShVerif.Props.C01
open ShVerif ShVerif.L4

/-- The documented refusal: Minify together with SingleLine is an error, for every node kind. -/
theorem print_refuses (o : Opts) (h : o.minify = true ∧ o.singleLine = true) (f : File) (s : Stmt) (c : Cmd) (w : Word) :
    printFile o f = .error .minifySingleLine ∧ printStmt o s = .error .minifySingleLine ∧
    printCmd o c = .error .minifySingleLine ∧ printWord o w = .error .minifySingleLine := by
  simp [printFile, printStmt, printCmd, printWord, refuse, h.1, h.2]

end ShVerif.Props.C01
