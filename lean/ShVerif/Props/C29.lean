import ShVerif.Model.C29
import ShVerif.Proofs.C29
import ShVerif.Gen.C29
import ShVerif.Expect.C29
/-
  C29 — Running a program leaves the tree and Env untouched.  Property theorems.

  Env part: `env_never_written` (the root Environ receives no Set in any chain the interpreter
  builds), `env_sites` (the chain-building vocabulary and the uses of Runner.Env, regenerated).

  Tree part: frame theorems for every place in packages interp and expand that writes next to the
  tree (`splitbraces_frame`, `fieldsseq_frame`, `bracesseq_frame`, `alias_frame`, `flatten_frame`,
  `hdoc_frame`, `bgstmt_frame`), and `ast_write_sites`: the regenerated list of all such places is
  the reviewed list, each covered by one of these theorems or writing an object that the same
  function created.
-/
namespace ShVerif.C29
open ShVerif ShVerif.L1

/-- every object of the list `l` is still at its place, unchanged, in `l'` -/
def Untouched {α : Type} (l l' : List α) : Prop := ∀ i, i < l.length → l'[i]? = l[i]?

theorem untouched_of_listFr {α : Type} {l l' : List α} (f : ListFr l.length l l') : Untouched l l' :=
  fun _ hi => f.getElem? hi

/-! ## Env -/

/-- **Run never writes the Environ given to `interp.Env`.**  Start from `interp.New(Env(base))` +
    the first `Reset`; let the program make the interpreter perform any sequence of: `Reset`,
    function calls and returns, foreground and background subshells (and leaving them), handler
    calls whose handler writes the `HandlerContext.Env` it was given, and `Set`s of arbitrary
    variables (local or not, set, unset, attribute-only, read-only) on the current `writeEnv`.
    Whether or not the root Environ is a `WriteEnviron`: the run completes (no type assertion
    `o.parent.(expand.WriteEnviron)` fails), the root has received no `Set`, and its variables are
    what they were. -/
theorem env_never_written (rootWritable : Bool) (base : List (Bytes × Var)) (ops : List EOp) :
    ∃ st, erun rootWritable (einit base) ops = some st ∧ st.h.rootSets = [] ∧ st.h.base = base := by
  obtain ⟨st, e, ok⟩ := erun_ok rootWritable ops (einit base) (einit_ok base)
  exact ⟨st, e, ok.2.2.1, ok.2.2.2⟩

/-- The invariant behind it: at every moment a `funcScope` overlay's parent is an overlay (so a
    forwarded `Set` stays inside the interpreter's own overlays), and a parent is older than its
    child (so forwarding terminates). -/
theorem env_chain_invariant (rootWritable : Bool) (base : List (Bytes × Var)) (ops : List EOp) (st : EState)
    (e : erun rootWritable (einit base) ops = some st) :
    ∀ (o : Nat) (s : Scope), st.h.scopes[o]? = some s →
      (∀ p, s.parent = .ov p → p < o) ∧ (s.funcScope = true → ∃ p, s.parent = .ov p) := by
  obtain ⟨st', e', ok⟩ := erun_ok rootWritable ops (einit base) (einit_ok base)
  rw [e] at e'
  cases e'
  exact ok.1

/-- Non-vacuity: the hypothesis-free statement is about runs that really forward: in a function,
    `x=1` on a global goes through the funcScope overlay to the overlay below. -/
example : (erun false (einit [([69], { set := true, kind := 1, val := [101] })])
      [.call, .set [120] { set := true, kind := 1, val := [49] }, .ret]).map
        (fun st => (envGet st.h st.cur.writeEnv [120]).val) = some [49] := by decide

/-- … and the model can express the violation: a funcScope overlay directly over the root forwards
    to the root (this is the shape the invariant excludes). -/
example : (envSetTop true { scopes := [{ parent := .base, funcScope := true }] } 0 [120] { set := true, kind := 1 }) =
    .ok { scopes := [{ parent := .base, funcScope := true }], rootSets := [[120]] } := by decide

example : (envSetTop false { scopes := [{ parent := .base, funcScope := true }] } 0 [120] { set := true, kind := 1 }) =
    .panic := by decide

/-- The chain-building vocabulary is the code's (regenerated): the overlay literals and
    `newOverlayEnviron` calls of package interp are exactly Reset / subshell / handlerCtx / call /
    newOverlayEnviron itself; the only `funcScope: true` overlay is built over `r.writeEnv`;
    `r.writeEnv` is only ever assigned a new overlay or a saved `writeEnv`; the only place that
    forwards a `Set` is `overlayEnviron.Set`; and `Runner.Env` is only compared with nil, assigned by
    the option, read with `Get`, copied into the Runner value and made the parent of the first
    overlay. -/
theorem env_sites :
    ShVerif.Gen.C29.overlaySites = ShVerif.Expect.C29.expectedOverlays.map (·.1) ∧
    (ShVerif.Gen.C29.overlaySites.all fun o => o.funcScope != "true" || (o.form == "literal" && o.parent == "r.writeEnv")) = true ∧
    ShVerif.Gen.C29.writeEnvAssigns = ShVerif.Expect.C29.expectedWriteEnvAssigns ∧
    (ShVerif.Gen.C29.writeEnvAssigns.all fun a => ShVerif.Expect.C29.allowedWriteEnvRhs.contains a.rhs) = true ∧
    ShVerif.Gen.C29.envUses = ShVerif.Expect.C29.expectedEnvUses ∧
    ShVerif.Gen.C29.forwards = ShVerif.Expect.C29.expectedForwards := by
  decide +kernel

/-! ## Tree: SplitBraces and bracesSeqRec -/

/-- `syntax.SplitBraces(word)` writes only objects it allocated itself and the one `Word` header
    it was given: every other `Word` header, every `BraceExp` and every backing array that existed
    — in particular the array behind `word.Parts`, spare capacity included — is unchanged, for
    every growth policy of `append`.  When it returns false the given header is unchanged too. -/
theorem splitbraces_frame (g : Grow) (h : Heap) (w : Nat) (h' : Heap) (b : Bool)
    (e : splitBraces g h w = some (h', b)) :
    (∀ i, i < h.words.length → i ≠ w → h'.words[i]? = h.words[i]?) ∧
    Untouched h.braces h'.braces ∧ Untouched h.parr h'.parr ∧ (b = false → Untouched h.words h'.words) := by
  have r := splitBraces_good g h w e
  refine ⟨r.1.words, untouched_of_listFr r.1.braces, untouched_of_listFr r.1.parr, ?_⟩
  intro hb i hi
  by_cases hiw : i = w
  · subst hiw
    rcases r.2 hb with h1 | h1
    · exact h1
    · omega
  · exact r.1.words i hi hiw

/-- `expand.FieldsSeq` copies the header first (`word := *word`), so for a word of the tree nothing
    that existed is written: the tree's `Word`, its `Parts` array and everything else is unchanged;
    the rewritten header is the new copy. -/
theorem fieldsseq_frame (g : Grow) (h : Heap) (w : Nat) (h' : Heap) (c : Nat) (b : Bool)
    (e : fieldsSeqSplit g h w = some (h', c, b)) :
    Untouched h.words h'.words ∧ Untouched h.braces h'.braces ∧ Untouched h.parr h'.parr ∧ c = h.words.length := by
  have r := fieldsSeqSplit_fr g h w e
  exact ⟨untouched_of_listFr r.1.words, untouched_of_listFr r.1.braces, untouched_of_listFr r.1.parr, r.2⟩

/-- `expand.bracesSeqRec` (through `BracesSeq`): whatever word it is started on, it writes only
    words and arrays it allocated itself (`left`, the copies `next`, the yielded words whose
    `Parts` it replaces), and every word it yields is one it created. -/
theorem bracesseq_frame (g : Grow) (fuel : Nat) (h : Heap) (w : Nat) (h' : Heap) (ws : List Nat)
    (e : bracesRec g fuel h w = some (h', ws)) :
    Untouched h.words h'.words ∧ Untouched h.braces h'.braces ∧ Untouched h.parr h'.parr ∧
    ∀ x ∈ ws, h.words.length ≤ x := by
  have r := good_bracesRec g fuel h w h' ws (good_self h) e
  exact ⟨untouched_of_listFr r.1.fr.words, untouched_of_listFr r.1.fr.braces, untouched_of_listFr r.1.fr.parr, r.2⟩

/-- The brace part of `FieldsSeq` as a whole (copy, SplitBraces, BracesSeq) for a word of the
    tree: nothing that existed is changed and the words handed on to expansion are new ones. -/
theorem fieldsseq_words_frame (g : Grow) (fuel : Nat) (h : Heap) (w : Nat) (h' : Heap) (ws : List Nat)
    (e : fieldsSeqWords g fuel h w = some (h', ws)) :
    Untouched h.words h'.words ∧ Untouched h.braces h'.braces ∧ Untouched h.parr h'.parr ∧
    ∀ x ∈ ws, h.words.length ≤ x := by
  unfold fieldsSeqWords at e
  split at e
  · cases e
  · next h1 c hs =>
    simp only [Option.some.injEq, Prod.mk.injEq] at e
    have r := fieldsSeqSplit_fr g h w hs
    rw [← e.1, ← e.2]
    refine ⟨untouched_of_listFr r.1.words, untouched_of_listFr r.1.braces, untouched_of_listFr r.1.parr, ?_⟩
    intro x hx
    simp only [List.mem_singleton] at hx
    rw [hx, r.2]
    exact Nat.le_refl _
  · next h1 c hs =>
    have r := fieldsSeqSplit_fr g h w hs
    -- frame of the recursion relative to the heap after the split, weakened to the heap before it
    have q := good_bracesRec g fuel h1 c h' ws (good_self h1) e
    have lw : h.words.length ≤ h1.words.length := r.1.words.1
    have lb : h.braces.length ≤ h1.braces.length := r.1.braces.1
    have la : h.parr.length ≤ h1.parr.length := r.1.parr.1
    refine ⟨untouched_of_listFr (r.1.words.trans (listFr_weaken lw q.1.fr.words)),
      untouched_of_listFr (r.1.braces.trans (listFr_weaken lb q.1.fr.braces)),
      untouched_of_listFr (r.1.parr.trans (listFr_weaken la q.1.fr.parr)), ?_⟩
    intro x hx
    have := q.2 x hx
    simp only [sizesOf] at this
    omega

/-! ## Tree: the small sites -/

/-- The alias loop of `Runner.cmd` (`args = slices.Concat(args[:i], als.args, args[i+1:])`):
    no array that existed — the CallExpr's `Args`, the alias table's slices — is written. -/
theorem alias_frame (tbl : List (Nat × Slice × Bool)) (fuel : Nat) (h : IdHeap) (args : Slice) (i : Nat)
    (h' : IdHeap) (args' : Slice) (e : aliasLoop tbl fuel h args i = some (h', args')) : Untouched h h' :=
  untouched_of_listFr (aliasLoop_fr tbl fuel h args i h' args' (Nat.le_refl _) e)

/-- `Runner.flattenAssigns`: the assignments of the DeclClause are not written; what it yields
    is an argument of the clause itself or an `Assign` it created. -/
theorem flatten_frame (fields : Nat → List Bool) (h : AHeap) (args : List Nat) :
    Untouched h.assigns (flattenAssigns fields h args).1.assigns ∧
    ∀ x ∈ (flattenAssigns fields h args).2, x ∈ args ∨ h.assigns.length ≤ x := by
  have r := flattenAssigns_fr fields args h (Nat.le_refl _)
  exact ⟨untouched_of_listFr r.1, r.2⟩

/-- The `<<-` splitter of `Runner.hdocString`: `cur` starts nil, so its appends and the reuse
    `cur = cur[:0]` only ever touch arrays allocated by the splitter: no existing array (the
    here-document word's `Parts`) is written. -/
theorem hdoc_frame (g : Grow) (h : IdHeap) (parts : List (Nat × Nat)) :
    Untouched h (hdocSplit g h Slice.nil [] parts).1 :=
  untouched_of_listFr (hdocSplit_fr g parts h Slice.nil [] (Nat.le_refl _) (Owned.nil _)).1

/-- The background statement copy `st2 := *st; st2.Background = false; st2.Disown = false`:
    the statement of the tree is not written; the flags are cleared on the new copy. -/
theorem bgstmt_frame (h : List StmtObj) (st : Nat) :
    Untouched h (bgStmtCopy h st).1 ∧ (bgStmtCopy h st).2 = h.length ∧
    ((bgStmtCopy h st).1.getD (bgStmtCopy h st).2 {}).background = false := by
  have r := bgStmtCopy_fr h st
  refine ⟨untouched_of_listFr r.1, r.2, ?_⟩
  simp [bgStmtCopy]

/-! ## The write-site table -/

/-- Every syntactic write next to a syntax node in packages interp and expand — assignment,
    op-assignment, inc/dec through a selector/index/star, `append`, `copy`, `clear`,
    `slices.Insert/Delete/Sort*/Reverse`, `sort.*`, and every call of `syntax.SplitBraces`, whose
    target mentions a node field or is rooted at an identifier that may hold a node, regenerated
    from the working tree on every run — is one of the reviewed sites, and each reviewed site's
    justification fits the provenance the extractor found: a site whose target may alias the tree
    (parameter, derived from a node field, range variable) must be covered by a frame theorem. -/
theorem ast_write_sites :
    ShVerif.Gen.C29.writeSites = ShVerif.Expect.C29.expected.map (·.site) ∧
    (ShVerif.Expect.C29.expected.all ShVerif.Expect.C29.classOK) = true := by
  decide +kernel

/-! ## Non-vacuity -/

def exGrow : Grow := fun _ _ need => need

/-- the word `a{b,c}` whose Parts array has one spare cell -/
def exHeap : Heap :=
  { words := [{ arr := 0, off := 0, len := 1, cap := 2 }],
    parr := [[.lit [97, 123, 98, 44, 99, 125], .nilp]] }

/-- SplitBraces really splits it (result true, a BraceExp with two elements is created) … -/
example : (fieldsSeqSplit exGrow exHeap 0).map (fun r => (r.2.2, r.1.braces.length, r.2.1)) = some (true, 1, 1) := by
  decide

/-- … and bracesSeqRec yields two new words. -/
example : (fieldsSeqWords exGrow 8 exHeap 0).map (fun r => r.2.length) = some 2 := by decide

/-- Calling SplitBraces on the tree's own word — what FieldsSeq avoids — does rewrite its header:
    the exception `i ≠ w` of `splitbraces_frame` is needed. -/
example : ((splitBraces exGrow exHeap 0).map fun r => decide (r.1.words[0]? = exHeap.words[0]?)) = some false := by
  decide

/-- The alias model can splice: `a0 x` with `alias a0='y z '`. -/
example : (aliasLoop [(0, { arr := 1, len := 2, cap := 2 }, true)] 8 [[0, 4], [5, 6]] { arr := 0, len := 2, cap := 2 } 0).map
    (fun r => cells r.1 r.2) = some [5, 6, 4] := by decide

end ShVerif.C29
