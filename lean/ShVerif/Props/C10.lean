import ShVerif.Proofs.C10
import ShVerif.Gen.C10
/-
  C10 — parse errors are well-formed and incompleteness is reported.

  Proved here (about the model of posErr / Parser.Incomplete / doHeredocs / Parser.next that the
  harness ties to the parser, and about tables regenerated from the source on every run):
   * the decision: an error is Incomplete iff it is raised at EOF while a statement/word bracket is
     open or a literal is being collected;
   * here-document bodies: every cut inside a body read from within a statement is Incomplete, for
     all delimiter forms; bodies with their stop line close;
   * scheduling: the newline ending the `<<` line reads the bodies iff it is lexed outside every
     preNested region entered after the `<<` — otherwise (`[[ … ]]`, `let …` at the end of the line)
     a cut right after that line is reported as a hard error: the full statement is FALSE of the
     model and of the code (counter-example theorems; known finding C10-heredoc-buried-newline);
   * error_sites: every call that creates a ParseError/LangError takes its position from the
     token position, `nextPos()`, a node's Pos()/End(), a Pos field of a node, or a parameter that
     every caller fills in the same way.
  The all-programs statement (every construct, every cut, every error offset) is the harness's
  search leg.
-/
namespace ShVerif.C10

/-! ### the decision -/

theorem err_incomplete_iff (s : PState) :
    s.errIncomplete = true ↔ s.tok = .eof ∧ (s.openNodes > 0 ∨ s.litLen > 0) := by
  cases s with
  | mk tok o l => cases tok <;> simp [PState.errIncomplete, PState.incomplete]

/-- An error raised at EOF anywhere inside a `stmts`/`wordParts` bracket is Incomplete. -/
theorem bracket_eof_incomplete (depth lit : Nat) (h : depth > 0) :
    (inBrackets .eof depth lit).errIncomplete = true := by
  simp [inBrackets, PState.errIncomplete, PState.incomplete]; omega

/-- An error raised at EOF while a literal is being collected is Incomplete. -/
theorem literal_eof_incomplete (depth lit : Nat) (h : lit > 0) :
    (inBrackets .eof depth lit).errIncomplete = true := by
  simp [inBrackets, PState.errIncomplete, PState.incomplete]; omega

/-- An error raised at any token other than EOF is never Incomplete. -/
theorem not_eof_not_incomplete (s : PState) (h : s.tok ≠ .eof) : s.errIncomplete = false := by
  cases s with
  | mk tok o l => cases tok <;> simp_all [PState.errIncomplete]

/-- … and neither is one raised at EOF by the entry point itself, after `stmts` has returned. -/
theorem toplevel_eof_not_incomplete : (inBrackets .eof 0 0).errIncomplete = false := by decide

/-! ### one here-document body -/

/-- Every prefix of a here-document body that does not contain the stop line, read from inside a
    statement (or any other open bracket), is reported as an *incomplete* error — all delimiter
    forms. -/
theorem heredoc_prefix_incomplete (quoted tabs : Bool) (stop : Bytes) (s : PState)
    (lines : List Bytes) (h : ∀ l ∈ lines, (if tabs then stripTabs l else l) ≠ stop)
    (hctx : s.openNodes > 0) :
    scan true quoted tabs stop s lines = .unclosedErr true := by
  unfold scan
  cases quoted
  · simp [scanUnquoted_unclosed tabs stop s lines [] h, hctx]
  · simp [scanQuoted_unclosed tabs stop s lines [] h, hctx]

/-- A quoted body of which at least one line has been read is incomplete whoever the caller is
    (the unterminated literal keeps `len(litBs) > 0`). -/
theorem quoted_body_incomplete (tabs : Bool) (stop : Bytes) (s : PState) (l : Bytes)
    (lines : List Bytes) (h : ∀ x ∈ l :: lines, (if tabs then stripTabs x else x) ≠ stop) :
    scan true true tabs stop s (l :: lines) = .unclosedErr true := by
  unfold scan
  simp only [if_true]
  rw [scanQuoted_unclosed tabs stop s (l :: lines) [] h]
  simp [litBytes]
  omega

/-- The same statement without the context hypothesis — what the property asks for. -/
def heredoc_prefix_incomplete_statement : Prop :=
  ∀ (quoted tabs : Bool) (stop : Bytes) (s : PState) (lines : List Bytes),
    (∀ l ∈ lines, (if tabs then stripTabs l else l) ≠ stop) →
    scan true quoted tabs stop s lines = .unclosedErr true

/-- It is false: a body read by `Parse` itself at the end of the input (no bracket open, nothing
    read) gives an error that is not incomplete. -/
theorem heredoc_prefix_incomplete_fails : ¬ heredoc_prefix_incomplete_statement := by
  intro h
  have := h false false [69] (inBrackets .eof 0 0) [] (by simp)
  revert this
  decide

/-- A body containing its stop line closes, and the lines before it are the body. -/
theorem heredoc_closes (quoted tabs : Bool) (stop : Bytes) (s : PState) (pre post : List Bytes)
    (stopLine : Bytes) (hs : (if tabs then stripTabs stopLine else stopLine) = stop)
    (h : ∀ l ∈ pre, (if tabs then stripTabs l else l) ≠ stop) :
    ∃ body, scan true quoted tabs stop s (pre ++ stopLine :: post) = .closed body ∧ body.length = pre.length := by
  unfold scan
  have gen : ∀ (acc : List Bytes),
      (scanQuoted true tabs stop s (pre ++ stopLine :: post) acc
        = .closed (acc.reverse ++ pre.map (fun l => if tabs then stripTabs l else l))) ∧
      (scanUnquoted tabs stop s (pre ++ stopLine :: post) acc
        = .closed (acc.reverse ++ pre.map (fun l => if tabs then stripTabs l else l))) := by
    induction pre with
    | nil => intro acc; simp [scanQuoted, scanUnquoted, hs]
    | cons l ls ih =>
      intro acc
      have hl := h l (by simp)
      have hls : ∀ x ∈ ls, (if tabs then stripTabs x else x) ≠ stop := fun x hx => h x (by simp [hx])
      have := ih hls ((if tabs then stripTabs l else l) :: acc)
      simp only [List.cons_append, scanQuoted, scanUnquoted]
      rw [if_neg hl, if_neg hl]
      simpa using this
  cases quoted
  · exact ⟨_, by simpa using (gen []).2, by simp⟩
  · exact ⟨_, by simpa using (gen []).1, by simp⟩

/-- The pinned code (before fix d47bd94): a quoted here-document cut inside its body gave an error
    that was NOT incomplete — `cat <<'EOF'` + `foo`, read from inside the statement. -/
theorem pinned_quoted_heredoc_not_incomplete :
    scan false true false [69, 79, 70] (inBrackets .newl 1 0) [[102, 111, 111]] = .unclosedErr false := by
  decide

/-! ### which newline reads the bodies -/

theorem newline_fires_iff (s : LSt) : (step s .newl).fired = true ↔ (s.fired = true ∨ s.pending > s.buried) := by
  simp only [step, LSt.newlineFires]
  by_cases h : s.pending > s.buried <;> simp [h]

/-- items that neither open nor close a preNested region nor end the line -/
def flat : Item → Bool
  | .hdoc | .tok => true
  | _ => false

theorem flat_keeps (s : LSt) (post : List Item) (hp : post.all flat = true) (h : s.pending > s.buried) :
    (post.foldl step s).pending > (post.foldl step s).buried ∧ (post.foldl step s).buried = s.buried := by
  induction post generalizing s with
  | nil => exact ⟨h, rfl⟩
  | cons i is ih =>
    rw [List.all_cons, Bool.and_eq_true] at hp
    obtain ⟨hi, his⟩ := hp
    cases i with
    | hdoc =>
      have := ih (step s .hdoc) his (by simp [step]; omega)
      simpa [step] using this
    | tok =>
      have := ih (step s .tok) his (by simpa [step] using h)
      simpa [step] using this
    | enter => simp [flat] at hi
    | leave => simp [flat] at hi
    | newl => simp [flat] at hi

/-- A line whose `<<` is followed only by ordinary tokens (and further `<<`) up to its newline reads
    its bodies at that newline, whatever came before the `<<` (inside `$(`, `{`, `if` …). -/
theorem flat_tail_fires (pre post : List Item) (hp : post.all flat = true) :
    lineFires (pre ++ .hdoc :: post ++ [.newl]) = true := by
  unfold lineFires runLine
  rw [List.foldl_append, List.foldl_append, List.foldl_cons]
  have hwf := (foldl_wf pre _ init_wf).1
  generalize pre.foldl step LSt.init = s0 at hwf ⊢
  have hk := flat_keeps (step s0 .hdoc) post hp (by simp [step]; omega)
  have hf : (post.foldl step (step s0 .hdoc)).newlineFires = true := by
    simpa [LSt.newlineFires] using hk.1
  show (step (post.foldl step (step s0 .hdoc)) .newl).fired = true
  generalize post.foldl step (step s0 .hdoc) = s1 at hf
  simp [step, hf]

/-- The cut right after the `<<` line, when that line's newline reads the bodies: incomplete for
    every delimiter form and every number of body lines already present. -/
theorem heredoc_cut_incomplete_partial (items : List Item) (quoted : Bool) (stop : Bytes)
    (body : List Bytes) (hb : ∀ l ∈ body, l ≠ stop) (hf : lineFires items = true) :
    prefixFlag items quoted stop body = some true := by
  unfold lineFires at hf
  have h := heredoc_prefix_incomplete quoted false stop (inBrackets .newl 1 0) body
    (by simpa using hb) (by simp [inBrackets])
  simp [prefixFlag, hf, h]

/-- When it does not, a cut after at least one further line is still incomplete (that line's own
    newline reads the bodies, from inside its statement). -/
theorem heredoc_cut_deferred_body (items : List Item) (quoted : Bool) (stop : Bytes)
    (l : Bytes) (rest : List Bytes) (hb : ∀ x ∈ rest, x ≠ stop)
    (hf : lineFires items = false) (hp : (runLine items).pending ≠ 0) :
    prefixFlag items quoted stop (l :: rest) = some true := by
  unfold lineFires at hf
  have h := heredoc_prefix_incomplete quoted false stop (inBrackets .newl 1 0) rest
    (by simpa using hb) (by simp [inBrackets])
  simp [prefixFlag, hf, hp, h]

/-- The property's own demand on this mechanism: every cut after a line holding a `<<` whose
    body has not ended is reported as incomplete. -/
def heredoc_cut_incomplete_statement : Prop :=
  ∀ (items : List Item) (quoted : Bool) (stop : Bytes) (body : List Bytes),
    (∀ l ∈ body, l ≠ stop) → (∃ b, prefixFlag items quoted stop body = some b) →
    prefixFlag items quoted stop body = some true

/-- It is false of the model (and of the code, see the harness's `sched` tie and corpus/C10-known.txt):
    `cat <<E; [[ a = b ]]` + newline + EOF.  The newline token is lexed by `gotRsrv("]]")` before
    `postNested` un-buries the pending here-document; `Parse` then reads the body itself. -/
theorem buried_newline_not_incomplete :
    prefixFlag [.tok, .hdoc, .tok, .enter, .tok, .tok, .tok, .tok, .newl, .leave] false [69] [] = some false := by
  decide

theorem heredoc_cut_incomplete_fails : ¬ heredoc_cut_incomplete_statement := by
  intro h
  have := h [.tok, .hdoc, .tok, .enter, .tok, .tok, .tok, .tok, .newl, .leave] false [69] [] (by simp)
    ⟨false, by decide⟩
  revert this
  decide

/-- non-vacuity: the ordinary `cat <<E` + newline, cut before the body, and `<<-'E'` with a body -/
example : prefixFlag [.tok, .hdoc, .newl] false [69] [] = some true := by decide
example : prefixFlag [.tok, .hdoc, .tok, .enter, .tok, .leave, .newl] true [69] [[9, 120]] = some true := by decide
example : scan true true true [69] (inBrackets .newl 1 0) [[9, 120], [9, 9, 121]] = .unclosedErr true := by decide

/-! ### error_sites: where error positions come from (regenerated table) -/

open ShVerif.Gen.C10 in
/-- position sources that are lexer or node positions by themselves -/
def basicOK : Gen.C10.Origin → Bool
  | ("sel", "p", "pos") => true                       -- position of the current token
  | ("pcall", _, "nextPos") => true                   -- position of the next rune
  | ("method", _, n) => n == "Pos" || n == "End"      -- a node's position
  | ("sel", _, f) => Gen.C10.posFields.contains f     -- a Pos field of a node (or the parser's own `pos`)
  | ("zero", _, _) => true                            -- Pos{}: invalid, never inside-or-outside anything
  | ("global", _, "recoveredPos") => true             -- the RecoverErrors marker, invalid as well
  | _ => false

/-- a Pos-returning Parser method all of whose returns are basic (or results of such a method) -/
def resultOK (fuel : Nat) (name idx : String) : Bool :=
  match fuel with
  | 0 => false
  | fuel + 1 =>
    match Gen.C10.returns.find? (fun r => r.1 == name && toString r.2.1 == idx) with
    | none => false
    | some (_, _, os) =>
      !os.isEmpty && os.all fun o =>
        basicOK o || (match o with
          | ("result", i, n) => resultOK fuel n i
          | _ => false)

def originOK (fn : String) (o : Gen.C10.Origin) : Bool :=
  basicOK o ||
  (match o with
   | ("param", _, n) => Gen.C10.forwarders.contains (fn, n)   -- handed on: every call of `fn` is a site itself
   | ("result", i, n) => resultOK 3 n i
   | _ => false)

/-- Every call that creates (or forwards to the creation of) a ParseError/LangError takes its
    position from the current token, `nextPos()`, a node, a Pos field, or a parameter of a function
    all of whose calls are sites of this table; and there is no other way to create one:
    the two composite literals live in posErr/checkLang and use their position parameter,
    `errPass` is called by those two only, `p.err` is otherwise assigned by fill (read errors),
    reset and errPass. -/
theorem error_sites :
    Gen.C10.sites.all (fun s => !s.2.2.2.isEmpty && s.2.2.2.all (originOK s.1)) = true
    ∧ Gen.C10.creators = [("Parser.posErr", "ParseError", 0), ("Parser.checkLang", "LangError", 0)]
    ∧ Gen.C10.errPassCallers = ["Parser.posErr", "Parser.checkLang"]
    ∧ Gen.C10.errAssigns.all (fun f => ["Parser.fill", "Parser.reset", "Parser.errPass"].contains f) = true := by
  decide +kernel

/-- non-vacuity: the table is not empty and uses every kind of source -/
theorem error_sites_nonvacuous :
    Gen.C10.sites.length ≥ 100
    ∧ ["sel", "pcall", "method", "param", "result"].all (fun k =>
        Gen.C10.sites.any fun s => s.2.2.2.any fun o => o.1 == k) = true := by
  decide +kernel

/-- Stated only — owned by the byte-source layer L2 (lean/ShVerif/Model/L2ByteSrc.lean, properties
    C07/C09, still being proved when this package was written, hence not imported): for the relation
    `handsOut input off` = "some run of the lexer primitives over `input` (any read schedule, any
    client respecting the newLit/endLit protocol) makes `p.pos` or `nextPos()` have offset `off`",
    every such offset is at most the number of input bytes.  Together with `error_sites` (every
    error position is such a position, a node position built from them, or invalid) this is the
    position clause of C10; in this package the clause is executed on the implementation by the
    search leg (`errpos` witnesses). -/
def error_pos_in_input_statement (handsOut : List UInt8 → Nat → Prop) : Prop :=
  ∀ (input : List UInt8) (off : Nat), handsOut input off → off ≤ input.length

end ShVerif.C10
