import ShVerif.Proofs.C10
import ShVerif.Gen.C10
/-
  C10 — parse errors are well-formed and incompleteness is reported.

  Proved here (about the model of posErr / Parser.Incomplete / doHeredocs / Parser.next /
  postNested that the harness ties to the parser, and about tables regenerated from the source on
  every run):
   * the decision: an error is Incomplete iff it is raised at EOF while a statement/word bracket is
     open or a literal is being collected;
   * here-document bodies: every cut inside a body is Incomplete, for all delimiter forms and
     whoever calls doHeredocs (it brackets itself since a243c26); bodies with their stop line close;
   * scheduling: the bodies are read at the newline ending the `<<` line or, when that newline was
     lexed inside a preNested region (`[[ … ]]`, `let …`), at the postNested that follows it; every
     cut after a line with a pending here-document is Incomplete (`heredoc_cut_incomplete`, the
     full statement, which was refuted before a243c26);
   * error_sites: every call that creates a ParseError/LangError takes its position from the
     token position, `nextPos()`, a node's Pos()/End(), a Pos field of a node, or a parameter that
     every caller fills in the same way.
  The all-programs statement (every construct, every cut, every error offset) is the harness's
  search leg.
-/
namespace ShVerif.C10

/-! ### the decision -/

theorem err_incomplete_iff (s : PState) :
    s.errIncomplete = true ↔ s.tok = .eof ∧ (s.openNodes > 0 ∨ s.litLen > 0) := by
  cases s with
  | mk tok o l => cases tok <;> simp [PState.errIncomplete, PState.incomplete]

/-- An error raised at EOF anywhere inside a `stmts`/`wordParts` bracket is Incomplete. -/
theorem bracket_eof_incomplete (depth lit : Nat) (h : depth > 0) :
    (inBrackets .eof depth lit).errIncomplete = true := by
  simp [inBrackets, PState.errIncomplete, PState.incomplete]; omega

/-- An error raised at EOF while a literal is being collected is Incomplete. -/
theorem literal_eof_incomplete (depth lit : Nat) (h : lit > 0) :
    (inBrackets .eof depth lit).errIncomplete = true := by
  simp [inBrackets, PState.errIncomplete, PState.incomplete]; omega

/-- An error raised at any token other than EOF is never Incomplete. -/
theorem not_eof_not_incomplete (s : PState) (h : s.tok ≠ .eof) : s.errIncomplete = false := by
  cases s with
  | mk tok o l => cases tok <;> simp_all [PState.errIncomplete]

/-- … and neither is one raised at EOF by the entry point itself, after `stmts` has returned. -/
theorem toplevel_eof_not_incomplete : (inBrackets .eof 0 0).errIncomplete = false := by decide

/-! ### one here-document body -/

/-- The scanners alone: a body prefix without the stop line, scanned from a state with an open
    bracket, is reported as an *incomplete* error — all delimiter forms. -/
theorem scan_prefix_incomplete (quoted tabs : Bool) (stop : Bytes) (s : PState)
    (lines : List Bytes) (h : ∀ l ∈ lines, (if tabs then stripTabs l else l) ≠ stop)
    (hctx : s.openNodes > 0) :
    scan true quoted tabs stop s lines = .unclosedErr true := by
  unfold scan
  cases quoted
  · simp [scanUnquoted_unclosed tabs stop s lines [] h, hctx]
  · simp [scanQuoted_unclosed tabs stop s lines [] h, hctx]

/-- The property's demand on this mechanism, at full strength: every prefix of a here-document
    body that does not contain the stop line is reported by doHeredocs as an *incomplete* error —
    any delimiter quoting, with or without tab stripping, ANY caller state (inside a statement, or
    the entry point after the last statement). -/
theorem heredoc_prefix_incomplete (quoted tabs : Bool) (stop : Bytes) (s : PState)
    (lines : List Bytes) (h : ∀ l ∈ lines, (if tabs then stripTabs l else l) ≠ stop) :
    readBody quoted tabs stop s lines = .unclosedErr true := by
  unfold readBody
  exact scan_prefix_incomplete quoted tabs stop _ lines h (by simp)

/-- A quoted body of which at least one line has been read is incomplete already by the
    unterminated literal (`len(litBs) > 0`), whatever the brackets. -/
theorem quoted_body_incomplete (tabs : Bool) (stop : Bytes) (s : PState) (l : Bytes)
    (lines : List Bytes) (h : ∀ x ∈ l :: lines, (if tabs then stripTabs x else x) ≠ stop) :
    scan true true tabs stop s (l :: lines) = .unclosedErr true := by
  unfold scan
  simp only [if_true]
  rw [scanQuoted_unclosed tabs stop s (l :: lines) [] h]
  simp [litBytes]
  omega

/-- Before a243c26 doHeredocs did not bracket itself: a body read by `Parse` itself at the end of
    the input (no bracket open, nothing read) gave an error that was NOT incomplete — `cat <<E \`
    NEWLINE, `cat <<E; [[ a ]]` NEWLINE (regression theorem about the bare scanners). -/
theorem pinned_toplevel_heredoc_not_incomplete :
    scan true false false [69] (inBrackets .eof 0 0) [] = .unclosedErr false := by
  decide

/-- … and is incomplete now: the entry point's own call, nothing read, any delimiter form. -/
theorem entry_point_heredoc_incomplete (quoted tabs : Bool) (stop : Bytes) :
    readBody quoted tabs stop (inBrackets .eof 0 0) [] = .unclosedErr true :=
  heredoc_prefix_incomplete quoted tabs stop _ [] (by simp)

/-- A body containing its stop line closes, and the lines before it are the body. -/
theorem heredoc_closes (quoted tabs : Bool) (stop : Bytes) (s : PState) (pre post : List Bytes)
    (stopLine : Bytes) (hs : (if tabs then stripTabs stopLine else stopLine) = stop)
    (h : ∀ l ∈ pre, (if tabs then stripTabs l else l) ≠ stop) :
    ∃ body, scan true quoted tabs stop s (pre ++ stopLine :: post) = .closed body ∧ body.length = pre.length := by
  unfold scan
  have gen : ∀ (acc : List Bytes),
      (scanQuoted true tabs stop s (pre ++ stopLine :: post) acc
        = .closed (acc.reverse ++ pre.map (fun l => if tabs then stripTabs l else l))) ∧
      (scanUnquoted tabs stop s (pre ++ stopLine :: post) acc
        = .closed (acc.reverse ++ pre.map (fun l => if tabs then stripTabs l else l))) := by
    induction pre with
    | nil => intro acc; simp [scanQuoted, scanUnquoted, hs]
    | cons l ls ih =>
      intro acc
      have hl := h l (by simp)
      have hls : ∀ x ∈ ls, (if tabs then stripTabs x else x) ≠ stop := fun x hx => h x (by simp [hx])
      have := ih hls ((if tabs then stripTabs l else l) :: acc)
      simp only [List.cons_append, scanQuoted, scanUnquoted]
      rw [if_neg hl, if_neg hl]
      simpa using this
  cases quoted
  · exact ⟨_, by simpa using (gen []).2, by simp⟩
  · exact ⟨_, by simpa using (gen []).1, by simp⟩

/-- The pinned code (before fix d47bd94): a quoted here-document cut inside its body gave an error
    that was NOT incomplete — `cat <<'EOF'` + `foo`, read from inside the statement. -/
theorem pinned_quoted_heredoc_not_incomplete :
    scan false true false [69, 79, 70] (inBrackets .newl 1 0) [[102, 111, 111]] = .unclosedErr false := by
  decide

/-! ### which token reads the bodies -/

theorem newline_fires_iff (s : LSt) : (step s .newl).fired = true ↔ (s.fired = true ∨ s.pending > s.buried) := by
  simp only [step, LSt.newlineFires]
  by_cases h : s.pending > s.buried <;> simp [h]

/-- postNested right after a newline token that was lexed while the here-documents were buried
    reads the bodies (`cat <<E; [[ a ]]` NEWLINE: testClause lexes the newline, then postNested). -/
theorem leave_after_buried_newline_fires (s : LSt) (b : Nat) (r : List Nat)
    (hs : s.saved = b :: r) (hp : s.pending > b) :
    (step (step s .newl) .leave).fired = true := by
  by_cases h : s.pending > s.buried
  · simp [step, LSt.newlineFires, h, hs]
    split <;> simp
  · simp [step, LSt.newlineFires, h, hs, hp]

/-- items that neither open nor close a preNested region nor end the line -/
def flat : Item → Bool
  | .hdoc | .tok => true
  | _ => false

theorem flat_keeps (s : LSt) (post : List Item) (hp : post.all flat = true) (h : s.pending > s.buried) :
    (post.foldl step s).pending > (post.foldl step s).buried ∧ (post.foldl step s).buried = s.buried := by
  induction post generalizing s with
  | nil => exact ⟨h, rfl⟩
  | cons i is ih =>
    rw [List.all_cons, Bool.and_eq_true] at hp
    obtain ⟨hi, his⟩ := hp
    cases i with
    | hdoc =>
      have := ih (step s .hdoc) his (by simp [step]; omega)
      simpa [step] using this
    | tok =>
      have := ih (step s .tok) his (by simpa [step] using h)
      simpa [step] using this
    | enter => simp [flat] at hi
    | leave => simp [flat] at hi
    | newl => simp [flat] at hi

/-- A line whose `<<` is followed only by ordinary tokens (and further `<<`) up to its newline reads
    its bodies at that newline, whatever came before the `<<` (inside `$(`, `{`, `if` …). -/
theorem flat_tail_fires (pre post : List Item) (hp : post.all flat = true) :
    lineFires (pre ++ .hdoc :: post ++ [.newl]) = true := by
  unfold lineFires runLine
  rw [List.foldl_append, List.foldl_append, List.foldl_cons]
  have hwf := (foldl_wf pre _ init_wf).1
  generalize pre.foldl step LSt.init = s0 at hwf ⊢
  have hk := flat_keeps (step s0 .hdoc) post hp (by simp [step]; omega)
  have hf : (post.foldl step (step s0 .hdoc)).newlineFires = true := by
    simpa [LSt.newlineFires] using hk.1
  show (step (post.foldl step (step s0 .hdoc)) .newl).fired = true
  generalize post.foldl step (step s0 .hdoc) = s1 at hf
  simp [step, hf]

/-- The property's demand on this mechanism, at full strength (refuted by
    `cat <<E; [[ a = b ]]` NEWLINE before a243c26): every cut after a line holding a `<<` whose
    body has not ended — right after that line or after any number of further lines — is reported
    as incomplete, for every shape of the line. -/
theorem heredoc_cut_incomplete (items : List Item) (quoted : Bool) (stop : Bytes) (body : List Bytes)
    (hb : ∀ l ∈ body, l ≠ stop) (hd : ∃ b, prefixFlag items quoted stop body = some b) :
    prefixFlag items quoted stop body = some true := by
  have key : ∀ (s : PState) (ls : List Bytes), (∀ l ∈ ls, l ≠ stop) →
      readBody quoted false stop s ls = .unclosedErr true :=
    fun s ls h => heredoc_prefix_incomplete quoted false stop s ls (by simpa using h)
  obtain ⟨b0, hd⟩ := hd
  unfold prefixFlag at hd ⊢
  by_cases hf : (runLine items).fired = true
  · simp [hf, key _ body hb]
  · by_cases hp : (runLine items).pending = 0
    · simp [hf, hp] at hd
    · cases body with
      | nil => simp [hf, hp, key _ [] (by simp)]
      | cons l rest =>
        have hr : ∀ x ∈ rest, x ≠ stop := fun x hx => hb x (by simp [hx])
        simp [hf, hp, key _ rest hr]

/-- `cat <<E; [[ a = b ]]` + newline + EOF: the newline token is lexed by `gotRsrv("]]")` while the
    here-document is buried; the postNested that follows reads the body — incomplete (it was a hard
    error before a243c26: finding C10-heredoc-buried-newline, fixed). -/
theorem buried_newline_incomplete :
    lineFires [.tok, .hdoc, .tok, .enter, .tok, .tok, .tok, .tok, .newl, .leave] = true
    ∧ prefixFlag [.tok, .hdoc, .tok, .enter, .tok, .tok, .tok, .tok, .newl, .leave] false [69] [] = some true := by
  decide

/-- non-vacuity: the ordinary `cat <<E` + newline, cut before the body; `<<-'E'` with a body; a
    line with a pending here-document whose buried newline is not followed by postNested -/
example : prefixFlag [.tok, .hdoc, .newl] false [69] [] = some true := by decide
example : prefixFlag [.tok, .hdoc, .tok, .enter, .tok, .leave, .newl] true [69] [[9, 120]] = some true := by decide
example : prefixFlag [.tok, .hdoc, .tok, .enter, .tok, .newl] false [69] [] = some true := by decide
example : readBody true true [69] (inBrackets .newl 1 0) [[9, 120], [9, 9, 121]] = .unclosedErr true := by decide

/-! ### error_sites: where error positions come from (regenerated table) -/

open ShVerif.Gen.C10 in
/-- position sources that are lexer or node positions by themselves -/
def basicOK : Gen.C10.Origin → Bool
  | ("sel", "p", "pos") => true                       -- position of the current token
  | ("pcall", _, "nextPos") => true                   -- position of the next rune
  | ("method", _, n) => n == "Pos" || n == "End"      -- a node's position
  | ("sel", _, f) => Gen.C10.posFields.contains f     -- a Pos field of a node (or the parser's own `pos`)
  | ("zero", _, _) => true                            -- Pos{}: invalid, never inside-or-outside anything
  | ("global", _, "recoveredPos") => true             -- the RecoverErrors marker, invalid as well
  | _ => false

/-- a Pos-returning Parser method all of whose returns are basic (or results of such a method) -/
def resultOK (fuel : Nat) (name idx : String) : Bool :=
  match fuel with
  | 0 => false
  | fuel + 1 =>
    match Gen.C10.returns.find? (fun r => r.1 == name && toString r.2.1 == idx) with
    | none => false
    | some (_, _, os) =>
      !os.isEmpty && os.all fun o =>
        basicOK o || (match o with
          | ("result", i, n) => resultOK fuel n i
          | _ => false)

def originOK (fn : String) (o : Gen.C10.Origin) : Bool :=
  basicOK o ||
  (match o with
   | ("param", _, n) => Gen.C10.forwarders.contains (fn, n)   -- handed on: every call of `fn` is a site itself
   | ("result", i, n) => resultOK 3 n i
   | _ => false)

/-- Every call that creates (or forwards to the creation of) a ParseError/LangError takes its
    position from the current token, `nextPos()`, a node, a Pos field, or a parameter of a function
    all of whose calls are sites of this table; and there is no other way to create one:
    the two composite literals live in posErr/checkLang and use their position parameter,
    `errPass` is called by those two only, `p.err` is otherwise assigned by fill (read errors),
    reset and errPass. -/
theorem error_sites :
    Gen.C10.sites.all (fun s => !s.2.2.2.isEmpty && s.2.2.2.all (originOK s.1)) = true
    ∧ Gen.C10.creators = [("Parser.posErr", "ParseError", 0), ("Parser.checkLang", "LangError", 0)]
    ∧ Gen.C10.errPassCallers = ["Parser.posErr", "Parser.checkLang"]
    ∧ Gen.C10.errAssigns.all (fun f => ["Parser.fill", "Parser.reset", "Parser.errPass"].contains f) = true := by
  decide +kernel

/-- non-vacuity: the table is not empty and uses every kind of source -/
theorem error_sites_nonvacuous :
    Gen.C10.sites.length ≥ 100
    ∧ ["sel", "pcall", "method", "param", "result"].all (fun k =>
        Gen.C10.sites.any fun s => s.2.2.2.any fun o => o.1 == k) = true := by
  decide +kernel

/-- The obligation of the byte-source layer L2, stated here without importing anything, for an
    abstract relation `handsOut input off` = "some run of the lexer primitives over `input` (any
    read schedule, any client respecting the protocol) yields a position with offset `off`": every
    such offset is at most the number of input bytes.  Together with `error_sites` (every error
    position is such a position, a node position built from them, or invalid) this is the position
    clause of C10.  Props/C10L2.lean instantiates it with C07's model and proves it:
    `error_pos_in_input` (positions taken by the client: `l2HandsOut`) and `error_pos_in_input_all`
    (those plus the offset of the "invalid UTF-8 encoding" error raised inside `rune`). -/
def error_pos_in_input_statement (handsOut : List UInt8 → Nat → Prop) : Prop :=
  ∀ (input : List UInt8) (off : Nat), handsOut input off → off ≤ input.length

end ShVerif.C10
