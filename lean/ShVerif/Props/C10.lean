import ShVerif.Model.C10
/-
  C10 — incompleteness is reported: for every here-document body that ends before its stop word
  (any cut of a valid program inside a here-document), the error is marked Incomplete, for quoted
  and unquoted delimiters, with and without `<<-`.  The pinned tree violated this for quoted
  delimiters (counter-example theorem below); the `fix:` commit repaired it.
-/
namespace ShVerif.C10

theorem scanQuoted_unclosed (tabs : Bool) (stop : Bytes) (s : PState) (lines acc : List Bytes)
    (h : ∀ l ∈ lines, (if tabs then stripTabs l else l) ≠ stop) :
    scanQuoted true tabs stop s lines acc = .unclosedErr true := by
  induction lines generalizing acc with
  | nil => simp [scanQuoted, PState.incomplete]
  | cons l ls ih =>
    have hl := h l (by simp)
    have hls : ∀ x ∈ ls, (if tabs then stripTabs x else x) ≠ stop := fun x hx => h x (by simp [hx])
    simp only [scanQuoted]
    rw [if_neg hl]
    exact ih _ hls

theorem scanUnquoted_unclosed (tabs : Bool) (stop : Bytes) (s : PState) (lines acc : List Bytes)
    (h : ∀ l ∈ lines, (if tabs then stripTabs l else l) ≠ stop) :
    scanUnquoted tabs stop s lines acc = .unclosedErr true := by
  induction lines generalizing acc with
  | nil => simp [scanUnquoted, PState.incomplete]
  | cons l ls ih =>
    have hl := h l (by simp)
    have hls : ∀ x ∈ ls, (if tabs then stripTabs x else x) ≠ stop := fun x hx => h x (by simp [hx])
    simp only [scanUnquoted]
    rw [if_neg hl]
    exact ih _ hls

/-- Every prefix of a here-document body that does not contain the stop line is reported as an
    *incomplete* error — all delimiter forms, any parser state at the start of the body. -/
theorem heredoc_prefix_incomplete (quoted tabs : Bool) (stop : Bytes) (s : PState)
    (lines : List Bytes) (h : ∀ l ∈ lines, (if tabs then stripTabs l else l) ≠ stop) :
    scan true quoted tabs stop s lines = .unclosedErr true := by
  unfold scan
  cases quoted
  · simpa using scanUnquoted_unclosed tabs stop s lines [] h
  · simpa using scanQuoted_unclosed tabs stop s lines [] h

/-- A body containing its stop line closes, and the lines before it are the body. -/
theorem heredoc_closes (quoted tabs : Bool) (stop : Bytes) (s : PState) (pre post : List Bytes)
    (stopLine : Bytes) (hs : (if tabs then stripTabs stopLine else stopLine) = stop)
    (h : ∀ l ∈ pre, (if tabs then stripTabs l else l) ≠ stop) :
    ∃ body, scan true quoted tabs stop s (pre ++ stopLine :: post) = .closed body ∧ body.length = pre.length := by
  unfold scan
  have gen : ∀ (acc : List Bytes),
      (scanQuoted true tabs stop s (pre ++ stopLine :: post) acc
        = .closed (acc.reverse ++ pre.map (fun l => if tabs then stripTabs l else l))) ∧
      (scanUnquoted tabs stop s (pre ++ stopLine :: post) acc
        = .closed (acc.reverse ++ pre.map (fun l => if tabs then stripTabs l else l))) := by
    induction pre with
    | nil => intro acc; simp [scanQuoted, scanUnquoted, hs]
    | cons l ls ih =>
      intro acc
      have hl := h l (by simp)
      have hls : ∀ x ∈ ls, (if tabs then stripTabs x else x) ≠ stop := fun x hx => h x (by simp [hx])
      have := ih hls ((if tabs then stripTabs l else l) :: acc)
      simp only [List.cons_append, scanQuoted, scanUnquoted]
      rw [if_neg hl, if_neg hl]
      simpa using this
  cases quoted
  · exact ⟨_, by simpa using (gen []).2, by simp⟩
  · exact ⟨_, by simpa using (gen []).1, by simp⟩

/-- The pinned code (before the fix): a quoted here-document cut inside its body gave an error
    that was NOT incomplete — `cat <<'EOF'` + `foo` at top level. -/
theorem pinned_quoted_heredoc_not_incomplete :
    scan false true false [69, 79, 70] { tok := .newl, openNodes := 0, litLen := 0 } [[102, 111, 111]]
      = .unclosedErr false := by
  decide

/-- non-vacuity: a concrete unfinished `<<-'E'` body -/
example : scan true true true [69] { tok := .newl, openNodes := 1, litLen := 0 } [[9, 120], [9, 9, 121]]
    = .unclosedErr true := by decide

end ShVerif.C10
