import ShVerif.Model.C22
import ShVerif.Proofs.C22At
import ShVerif.Proofs.C22
/-
  C22 — Field splitting and quote removal match bash.  Property theorems
  (helper lemmas: Proofs/C22.lean, Proofs/C22At.lean).
-/
namespace ShVerif.C22

/-! ## `split_spec` -/

private def c (ch : Char) : Sym := ⟨ch, String.utf8EncodeChar ch⟩
private def colonEnv : Env := ⟨[c ':'], []⟩
private def dfltEnv (params : List Str) : Env := ⟨[c ' ', c '\t', c '\n'], params⟩

/-- Field splitting and quote removal: for every IFS (unset, empty, white space, non-white-space,
    mixed, multi-byte), all positional parameters and every word whose parts are `partOk` — `$@`
    stands alone in its double quotes (the open finding C22-at-in-dquotes, see
    `at_in_dquotes_statement` below) and double-quoted literal text has no NUL byte — the fields of
    `wordFields` are exactly those of the specification: POSIX 2.6.5 field splitting (IFS white
    space runs collapse, every other IFS character delimits a field, empty ones included) with
    quote removal, unquoted `$@`/`$*` joined by the first IFS character before splitting as bash
    does.  (Since fe5aeee, d04d00a, 51168a7 no further hypothesis is needed.) -/
theorem split_spec (env : Env) (parts : List Part) (hok : parts.all partOk = true) :
    wordFields env parts = posixFields env parts :=
  split_spec' env parts hok

/-! Pinned: the witnesses of the findings repaired by d04d00a, fe5aeee and 51168a7 now give
    bash's answer on the model (and, by the tie, on the code). -/

/-- `IFS=:; y=a::b; $y` is `<a><><b>`. -/
theorem pinned_adjacent_delims :
    wordFields colonEnv [.exp [c 'a', c ':', c ':', c 'b']] = [[97], [], [98]] := by decide
/-- `IFS=:; y=:a; $y` is `<><a>`; `y=a::` is `<a><>`. -/
theorem pinned_leading_trailing_delims :
    wordFields colonEnv [.exp [c ':', c 'a']] = [[], [97]] ∧
    wordFields colonEnv [.exp [c 'a', c ':', c ':']] = [[97], []] := by decide
/-- `IFS=' :'; y='a : b'; $y` is `<a><b>`: white space and one other IFS character are one delimiter. -/
theorem pinned_mixed_delim :
    wordFields ⟨[c ' ', c ':'], []⟩ [.exp [c 'a', c ' ', c ':', c ' ', c 'b']] = [[97], [98]] := by decide
/-- `x=' a'; ""$x` is `<><a>`. -/
theorem pinned_empty_dquotes :
    wordFields (dfltEnv []) [.dbl [], .exp [c ' ', c 'a']] = [[], [97]] := by decide
/-- `{,x}`: the empty literal left by brace expansion makes no field. -/
theorem pinned_empty_literal : wordFields (dfltEnv []) [.lit []] = [] := by decide
/-- `set -- x '' y; IFS=:; $@` is `<x><><y>` (the elements are joined by the first IFS character). -/
theorem pinned_unquoted_at_rejoin :
    wordFields ⟨[c ':'], [[c 'x'], [], [c 'y']]⟩ [.at] = [[120], [], [121]] := by decide

/-- Quoted text is never split: a word made of literals, single quotes and double quotes (without
    `$@`) — not consisting of empty unquoted literals only — is exactly one field, the
    concatenation of its quote-removed parts, whatever IFS is and whatever IFS characters the
    quoted values contain. -/
theorem quoted_never_split (env : Env) (parts : List Part)
    (hne : ∃ p ∈ parts, p ≠ Part.lit [])
    (hp : parts.all plain = true) (hok : parts.all partOk = true) :
    wordFields env parts = [(parts.map (posixLiteralVal env)).flatten] :=
  plain_one_field env parts hne hp hok

/-- Quoted empty strings are kept: a word consisting only of `''`, `""` and `"$e"` with empty
    values yields exactly one empty field. -/
theorem empty_quoted_kept (env : Env) (parts : List Part) (hne : parts ≠ [])
    (he : ∀ p ∈ parts, p = .sgl [] ∨ p = .dbl [] ∨ p = .dbl [.exp []]) :
    wordFields env parts = [[]] := by
  have hp : parts.all plain = true := by
    rw [List.all_eq_true]; intro p hp
    rcases he p hp with h | h | h <;> subst h <;> decide
  have hok : parts.all partOk = true := by
    rw [List.all_eq_true]; intro p hp
    rcases he p hp with h | h | h <;> subst h <;> decide
  have hne' : ∃ p ∈ parts, p ≠ Part.lit [] := by
    cases parts with
    | nil => exact absurd rfl hne
    | cons a t =>
      refine ⟨a, List.mem_cons_self .., ?_⟩
      rcases he a (List.mem_cons_self ..) with h | h | h <;> subst h <;> decide
  rw [plain_one_field env parts hne' hp hok]
  have : ∀ (l : List Part), (∀ p ∈ l, p = .sgl [] ∨ p = .dbl [] ∨ p = .dbl [.exp []]) →
      (l.map (posixLiteralVal env)).flatten = [] := by
    intro l hl
    induction l with
    | nil => rfl
    | cons a t ih =>
      have ha : posixLiteralVal env a = [] := by
        rcases hl a (List.mem_cons_self ..) with h | h | h <;> subst h <;>
          simp [posixLiteralVal, strBytes]
      simp only [List.map_cons, List.flatten_cons, ha, List.nil_append]
      exact ih (fun p hp => hl p (List.mem_cons_of_mem _ hp))
  rw [this parts he]

/-! ## `at_star_rules` -/

/-- `"$@"` alone: one field per positional parameter, empty ones included, none when there are
    no parameters — for every IFS. -/
theorem at_quoted (env : Env) : wordFields env [.dbl [.at]] = env.params.map strBytes :=
  at_quoted' env

/-- `"$*"` alone: always exactly one field, the parameters joined with the first character of IFS
    (nothing when IFS is empty, a space when it is unset). -/
theorem star_quoted (env : Env) :
    wordFields env [.dbl [.star]] = [joinBytes (ifsSep env.ifs) (env.params.map strBytes)] :=
  star_quoted' env

/-- Unquoted `$*` behaves as unquoted `$@` anywhere in a word (each parameter split on its own,
    also when IFS is empty). -/
theorem star_unquoted_as_at (env : Env) (pre post : List Part) :
    wordFields env (pre ++ .at :: post) = wordFields env (pre ++ .star :: post) := by
  unfold wordFields
  rw [partsLoop_at_star]

/-- The three rules together. -/
theorem at_star_rules (env : Env) :
    wordFields env [.dbl [.at]] = env.params.map strBytes ∧
    wordFields env [.dbl [.star]] = [joinBytes (ifsSep env.ifs) (env.params.map strBytes)] ∧
    ∀ pre post, wordFields env (pre ++ .at :: post) = wordFields env (pre ++ .star :: post) :=
  ⟨at_quoted env, star_quoted env, star_unquoted_as_at env⟩

/-- The rule for `$@` inside double quotes together with other text (`"a$@b"`): the first parameter
    joins the text before, the last the text after, the others are fields of their own. -/
def at_in_dquotes_statement : Prop :=
  ∀ (env : Env) (ps : List DPart), containsAt ps = true →
    wordFields env [.dbl ps] = posixFields env [.dbl ps]

/-- … not met: `set -- x 'y z'; "a$@b"` — model `<ax y zb>`, spec `<ax><y zb>`. -/
theorem at_in_dquotes_counterexample : ¬ at_in_dquotes_statement := by
  intro h
  have := h (dfltEnv [[c 'x'], [c 'y', c ' ', c 'z']]) [.lit [97], .at, .lit [98]] (by decide)
  revert this
  decide

/-- … and with no parameters `"$e$@"` gives one empty field where the spec (and bash) give none. -/
theorem counterexample_at_no_params :
    wordFields (dfltEnv []) [.dbl [.exp [], .at]] = [[]] ∧
    posixFields (dfltEnv []) [.dbl [.exp [], .at]] = [] := by decide

/-! ## Assignment context (`expand.Literal`) -/


/-- Quote removal in assignment context (`expand.Literal`, since 532994e): for every environment and
    every word (source text without NUL bytes), the value is the concatenation of the quote-removed
    parts — `\c` → `c` in unquoted literals, `\"` `\\` `\$` `` \` `` inside double quotes, `$@` joined with
    spaces and `$*` with the first IFS character, nothing split. -/
theorem literal_spec (env : Env) (parts : List Part)
    (h : ∀ p ∈ parts, (∀ s, p = .lit s → s.contains 0 = false) ∧
                      (∀ ps, p = .dbl ps → ps.all dpartOk = true)) :
    literal env parts = posixLiteral env parts :=
  literal_spec' env parts h

/-- The unexported `literalKeepEscapes` (words inside `${v:-word}`, `${v/p/repl}`, arithmetic) only
    differs by keeping the backslashes of unquoted literals. -/
theorem literalKeepEscapes_spec (env : Env) (parts : List Part)
    (h : ∀ p ∈ parts, (∀ s, p = .lit s → s.contains 92 = false ∧ s.contains 0 = false) ∧
                      (∀ ps, p = .dbl ps → ps.all dpartOk = true)) :
    literalKeepEscapes env parts = posixLiteral env parts :=
  literalKeepEscapes_spec' env parts h

/-- Pinned (532994e): `r=a\ b` assigns `a b`; `literalKeepEscapes` keeps `a\ b`. -/
theorem pinned_assign_backslash :
    literal (dfltEnv []) [.lit [97, 92, 32, 98]] = [97, 32, 98] ∧
    literalKeepEscapes (dfltEnv []) [.lit [97, 92, 32, 98]] = [97, 92, 32, 98] := by decide

/-! Non-vacuity of the hypothesis of `split_spec`. -/
example : [Part.lit [120], .exp [c ':', c 'a', c ':', c ':'], .dbl [], .dbl [.at], .sgl [], .at].all partOk = true := by
  decide
example : [Part.dbl [.lit [97], .at]].all partOk = false := by decide

end ShVerif.C22
