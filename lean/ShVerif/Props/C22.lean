import ShVerif.Model.C22
import ShVerif.Proofs.C22At
import ShVerif.Proofs.C22
/-
  C22 — Field splitting and quote removal match bash.  Property theorems
  (helper lemmas: Proofs/C22.lean, Proofs/C22At.lean).
-/
namespace ShVerif.C22

/-! ## `split_spec` -/

/-- The property at full strength: for every IFS, positional parameters and word, the fields of
    `wordFields` are those of POSIX field splitting and quote removal. -/
def split_spec_statement : Prop :=
  ∀ (env : Env) (parts : List Part), wordFields env parts = posixFields env parts

private def c (ch : Char) : Sym := ⟨ch, String.utf8EncodeChar ch⟩
private def colonEnv : Env := ⟨[c ':'], []⟩
private def dfltEnv (params : List Str) : Env := ⟨[c ' ', c '\t', c '\n'], params⟩

/-- … which the code does not meet: `IFS=:; y=a::b; $y` (bash `<a><><b>`). -/
theorem split_spec_counterexample : ¬ split_spec_statement := by
  intro h
  have := h colonEnv [.exp [c 'a', c ':', c ':', c 'b']]
  revert this
  decide

/-- `IFS=:; y=a::b; $y` — model `<a><b>`, spec `<a><><b>`. -/
theorem counterexample_adjacent_delims :
    wordFields colonEnv [.exp [c 'a', c ':', c ':', c 'b']] = [[97], [98]] ∧
    posixFields colonEnv [.exp [c 'a', c ':', c ':', c 'b']] = [[97], [], [98]] := by decide
/-- `IFS=:; y=:a; $y` — model `<a>`, spec `<><a>`. -/
theorem counterexample_leading_delim :
    wordFields colonEnv [.exp [c ':', c 'a']] = [[97]] ∧
    posixFields colonEnv [.exp [c ':', c 'a']] = [[], [97]] := by decide
/-- `IFS=:; y=a::; $y` — model `<a>`, spec `<a><>`. -/
theorem counterexample_trailing_delims :
    wordFields colonEnv [.exp [c 'a', c ':', c ':']] = [[97]] ∧
    posixFields colonEnv [.exp [c 'a', c ':', c ':']] = [[97], []] := by decide
/-- `x=' a'; ""$x` — model `<a>`, spec `<><a>`: the empty `""` is lost. -/
theorem counterexample_empty_dquotes :
    wordFields (dfltEnv []) [.dbl [], .exp [c ' ', c 'a']] = [[97]] ∧
    posixFields (dfltEnv []) [.dbl [], .exp [c ' ', c 'a']] = [[], [97]] := by decide
/-- `{,x}`: the empty literal left by brace expansion — model `<>`, spec no field. -/
theorem counterexample_empty_literal :
    wordFields (dfltEnv []) [.lit []] = [[]] ∧ posixFields (dfltEnv []) [.lit []] = [] := by decide

/-- The splitting theorem on the region the code gets right: for every IFS (unset, empty, white
    space, non-white-space, mixed, multi-byte), all positional parameters and every `Clean` word —
    no empty unquoted literal, `$@` alone in its double quotes, an empty `""` only among literals
    and quotes, and no non-white-space IFS character of an unquoted expansion delimiting an empty
    field — the fields are exactly those of POSIX field splitting and quote removal. -/
theorem split_spec_partial (env : Env) (parts : List Part) (hc : Clean env parts) :
    wordFields env parts = posixFields env parts :=
  split_spec_partial' env parts hc

/-- IFS made of white space only (unset and empty IFS included): no delimiter condition. -/
theorem split_spec_ws (env : Env) (parts : List Part)
    (hws : ∀ s ∈ env.ifs, wsRune s.r = true)
    (hok : parts.all partOk = true)
    (hq : parts.contains (.dbl []) = true → parts.all plain = true) :
    wordFields env parts = posixFields env parts :=
  split_spec_partial env parts ⟨hok, hq, noEmptyDelim_of_ws env.ifs hws _ _⟩


/-- Quoted text is never split: a word made of literals, single quotes and double quotes (without
    `$@`) is exactly one field — the concatenation of its quote-removed parts — whatever IFS is
    and whatever IFS characters the quoted values contain. -/
theorem quoted_never_split (env : Env) (parts : List Part) (hne : parts ≠ [])
    (hp : parts.all plain = true) (hok : parts.all partOk = true) :
    wordFields env parts = [(parts.map (posixLiteralVal env)).flatten] :=
  plain_one_field env parts hne hp hok

/-- Quoted empty strings are kept: a word consisting only of `''`, `""` and `"$e"` with empty
    values yields exactly one empty field. -/
theorem empty_quoted_kept (env : Env) (parts : List Part) (hne : parts ≠ [])
    (he : ∀ p ∈ parts, p = .sgl [] ∨ p = .dbl [] ∨ p = .dbl [.exp []]) :
    wordFields env parts = [[]] := by
  have hp : parts.all plain = true := by
    rw [List.all_eq_true]; intro p hp
    rcases he p hp with h | h | h <;> subst h <;> decide
  have hok : parts.all partOk = true := by
    rw [List.all_eq_true]; intro p hp
    rcases he p hp with h | h | h <;> subst h <;> decide
  rw [plain_one_field env parts hne hp hok]
  have : ∀ (l : List Part), (∀ p ∈ l, p = .sgl [] ∨ p = .dbl [] ∨ p = .dbl [.exp []]) →
      (l.map (posixLiteralVal env)).flatten = [] := by
    intro l hl
    induction l with
    | nil => rfl
    | cons a t ih =>
      have ha : posixLiteralVal env a = [] := by
        rcases hl a (List.mem_cons_self ..) with h | h | h <;> subst h <;>
          simp [posixLiteralVal, strBytes]
      simp only [List.map_cons, List.flatten_cons, ha, List.nil_append]
      exact ih (fun p hp => hl p (List.mem_cons_of_mem _ hp))
  rw [this parts he]

/-! ## `at_star_rules` -/

/-- `"$@"` alone: one field per positional parameter, empty ones included, none when there are
    no parameters — for every IFS. -/
theorem at_quoted (env : Env) : wordFields env [.dbl [.at]] = env.params.map strBytes :=
  at_quoted' env

/-- `"$*"` alone: always exactly one field, the parameters joined with the first character of IFS
    (nothing when IFS is empty, a space when it is unset). -/
theorem star_quoted (env : Env) :
    wordFields env [.dbl [.star]] = [joinBytes (ifsSep env.ifs) (env.params.map strBytes)] :=
  star_quoted' env

/-- Unquoted `$*` behaves as unquoted `$@` anywhere in a word (each parameter split on its own,
    also when IFS is empty). -/
theorem star_unquoted_as_at (env : Env) (pre post : List Part) :
    wordFields env (pre ++ .at :: post) = wordFields env (pre ++ .star :: post) := by
  unfold wordFields
  rw [partsLoop_at_star]

/-- The three rules together. -/
theorem at_star_rules (env : Env) :
    wordFields env [.dbl [.at]] = env.params.map strBytes ∧
    wordFields env [.dbl [.star]] = [joinBytes (ifsSep env.ifs) (env.params.map strBytes)] ∧
    ∀ pre post, wordFields env (pre ++ .at :: post) = wordFields env (pre ++ .star :: post) :=
  ⟨at_quoted env, star_quoted env, star_unquoted_as_at env⟩

/-- The rule for `$@` inside double quotes together with other text (`"a$@b"`): the first parameter
    joins the text before, the last the text after, the others are fields of their own. -/
def at_in_dquotes_statement : Prop :=
  ∀ (env : Env) (ps : List DPart), containsAt ps = true →
    wordFields env [.dbl ps] = posixFields env [.dbl ps]

/-- … not met: `set -- x 'y z'; "a$@b"` — model `<ax y zb>`, spec `<ax><y zb>`. -/
theorem at_in_dquotes_counterexample : ¬ at_in_dquotes_statement := by
  intro h
  have := h (dfltEnv [[c 'x'], [c 'y', c ' ', c 'z']]) [.lit [97], .at, .lit [98]] (by decide)
  revert this
  decide

/-- … and with no parameters `"$e$@"` gives one empty field where the spec (and bash) give none. -/
theorem counterexample_at_no_params :
    wordFields (dfltEnv []) [.dbl [.exp [], .at]] = [[]] ∧
    posixFields (dfltEnv []) [.dbl [.exp [], .at]] = [] := by decide

/-! ## Assignment context (`expand.Literal`) -/

def literal_spec_statement : Prop :=
  ∀ (env : Env) (parts : List Part), literal env parts = posixLiteral env parts

/-- `r=a\ b`: the model (like the code) keeps the backslash. -/
theorem literal_spec_counterexample : ¬ literal_spec_statement := by
  intro h
  have := h (dfltEnv []) [.lit [97, 92, 32, 98]]
  revert this
  decide

/-- Quote removal in assignment context is right whenever no unquoted literal contains a backslash
    (or NUL): everything else — quotes, `\"` `\\` `\$` inside double quotes, `$@`/`$*` joining — is as
    POSIX says. -/
theorem literal_spec_partial (env : Env) (parts : List Part)
    (h : ∀ p ∈ parts, (∀ s, p = .lit s → s.contains 92 = false ∧ s.contains 0 = false) ∧
                      (∀ ps, p = .dbl ps → ps.all dpartOk = true)) :
    literal env parts = posixLiteral env parts :=
  literal_spec_partial' env parts h

/-! Non-vacuity of `Clean`. -/
example : Clean ⟨[c ':', c ' '], [[c 'p']]⟩
    [.lit [120], .exp [c ' ', c 'a', c ' ', c ':', c ' ', c 'b'], .dbl [.at], .sgl []] := by decide
example : ¬ Clean colonEnv [.exp [c 'a', c ':', c ':', c 'b']] := by decide

end ShVerif.C22
