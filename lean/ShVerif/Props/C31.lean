import ShVerif.Model.C31
import ShVerif.Gen.C31
import ShVerif.Expect.C31
import ShVerif.Proofs.C31
/-
  C31 — Cancelling the context stops any program promptly.

  Part A: the logical part on the skeleton model: once the context is cancelled no further atomic
          command starts, every program (infinite loops included) ends, and the work still done is
          bounded by the size of the program, however many iterations its loops have left.  For every program, every oracle and every
          cancellation schedule (after any number of model steps, or while any atom runs).
  Part B: obligations about the tables regenerated from /repo/interp on every run: every blocking
          operation of the package is classified, the unreleased ones are exactly the known
          findings, the wait-for closure; where stop() and the context are consulted.
  Wall-clock latency is measured by the harness, not proved.
-/
namespace ShVerif.Props.C31
open ShVerif.C31 ShVerif.Gen.C31 ShVerif.Expect.C31

/-! ### Part A — skeleton model -/

/-- Once `cancelled` holds, `stmt`/`cmd`/`call` return without executing another atomic command:
    whatever the program, it leaves the log of executed atoms unchanged (and the context stays
    cancelled). -/
theorem no_atom_after_cancel (e : Env) (f : Nat) (sk : Sk) (st st' : St)
    (hc : cancelled e st = true) (h : exec e f sk st = some st') :
    st'.log = st.log ∧ cancelled e st' = true :=
  let ⟨c, l, _⟩ := exec_cancelled e f sk st st' hc h
  ⟨l, c⟩

/-- The first stop check after cancellation records the fatal error (`r.exit.fatal(ctx.Err())`),
    and nothing later clears it: `Run` returns the context's error. -/
theorem cancel_is_recorded (e : Env) (f : Nat) (sk : Sk) (st st' : St)
    (hu : userLevel sk = true) (hc : cancelled e st = true) (h : exec e f sk st = some st') :
    st'.fatal = true ∧ st'.ok = false :=
  let ⟨_, _, d⟩ := exec_cancelled e f sk st st' hc h
  let hd := d (Or.inl (userLevel_wf sk hu).2)
  ⟨hd.2, hd.1⟩

/-- A cancelled run never reports success (7cff692): if the context is cancelled when the program
    ends, `Run` returns the context's error unless the last command itself failed (then that
    failure status is returned) — also when the cancellation struck during the very last command,
    after which no stop check follows. -/
theorem cancel_never_success (e : Env) (st' : St) (hc : cancelled e st' = true) :
    reported e st' = true ∨ st'.ok = false := by
  cases h : st'.ok <;> simp [reported, hc, h]

/-- Bounded unwind: for every program, oracle and schedule — cancellation may strike anywhere in
    the run — the number of model steps taken while the context is cancelled is at most `unwind sk`,
    which no longer depends on how many iterations any loop has left: every loop contributes its
    body once plus a constant (`while`/`until` leave at the loop head, the word-list `for` at the
    top of its next iteration since 7ead8d8, the C-style `for` through `!r.exit.ok()`), plus one
    step per enclosing construct.  (Before 7ead8d8 the bound had the term Σ remaining word-list
    items × body: the loop walked through everything that was left.) -/
theorem bounded_unwind (e : Env) (f : Nat) (sk : Sk) (st st' : St)
    (hw : wf sk = true) (h : exec e f sk st = some st') :
    st'.after ≤ st.after + unwind sk :=
  exec_after_bound e f sk st st' hw h

/-- Once cancelled, every program ends: `depth sk` levels of recursion suffice, although the same
    program may run forever (exhaust any fuel) without cancellation. -/
theorem cancel_terminates (e : Env) (sk : Sk) (st : St) (f : Nat)
    (hw : wf sk = true) (hc : cancelled e st = true) (hf : depth sk ≤ f) :
    ∃ st', exec e f sk st = some st' ∧ st'.log = st.log ∧ st'.after ≤ st.after + unwind sk := by
  obtain ⟨st', h⟩ := exec_terminates e f sk st hw hc hf
  exact ⟨st', h, (exec_cancelled e f sk st st' hc h).2.1, exec_after_bound e f sk st st' hw h⟩

/-- what the harness generates is well formed -/
theorem user_programs_wf (sk : Sk) (h : userLevel sk = true) : wf sk = true :=
  (userLevel_wf sk h).1

/-! non-vacuity: an infinite loop runs out of any fuel we try, is stopped by cancellation, and a
    word-list `for` stops at the top of its next iteration -/

def spin : Sk := .whileL false (.atom 1) (.atom 2)
def never : Env := { cancelAt := 1000000, cancelAtom := 1000000, oracle := fun _ => true }
def atThird : Env := { never with cancelAtom := 3 }

example : exec never 200 spin St.init = none := by decide +kernel
example : (exec atThird 200 spin St.init).map (·.log.reverse) = some [1, 2, 1] := by decide +kernel
example : (exec atThird 200 (.forW 5 (.atom 7)) St.init).map (fun s => (s.log.reverse, s.items, s.after))
    = some ([7, 7, 7], 3, 2) := by decide +kernel
/-- the bound does not grow with the number of items -/
example : userLevel spin = true ∧ unwind (.forW 5 (.atom 7)) = 4 ∧ unwind (.forW 100000 (.atom 7)) = 4 := by decide

/-! ### Part B — regenerated tables -/

/-- Every blocking operation found in package interp (channel receive, select, Wait, io.Copy, Read,
    OpenFile, Scanner.Scan, ReadPassword, Parse of a file, writes) has an entry in the expectation,
    and every entry still exists: a new or moved blocking operation breaks this. -/
theorem blocking_sites :
    blocks.all (fun b => (expected.any fun x => x.key = b.key)) = true
      ∧ expected.all (fun x => (blocks.any fun b => b.key = x.key)) = true
      ∧ blocks.length = expected.length := by
  decide +kernel

/-- The operations that nothing releases after cancellation are exactly the two FIFO opens of a
    process substitution (`mapfile`'s scanner is deadline-aware since 5c04a9d). -/
theorem blocking_unreleased :
    (expected.filter fun x => x.rel = .unreleased).map (·.key) = unreleasedKeys := by
  decide +kernel

/-- Wait-for closure.  Leaving the known FIFO opens aside, no operation and no activity can
    stay blocked once the context is cancelled: each is deadline-aware, context-aware, blocked on
    caller-supplied I/O only, or waits for peers that end.  With them, `wait`'s receive on
    `bg.done` is among the stuck operations (a process substitution nobody opens never ends, so
    `wait` never returns — DESIGN §6). -/
theorem wait_for_graph :
    stuck (expected.filter fun x => x.rel ≠ .unreleased) peers = []
      ∧ (stuck expected peers).contains "Runner.builtin|chan-recv|bg.done" = true
      ∧ (stuck expected peers).contains "bgjob" = true := by
  decide +kernel

/-- `Runner.stop` is consulted exactly where the skeleton model puts its checks (stmt, cmd entry,
    while-loop head and word-list `for` iteration, call), and the context is looked at only by `stop`, `readLine`'s AfterFunc
    and the exec handler. -/
theorem stop_sites :
    (ShVerif.Gen.C31.ctxUses.filter fun x => x.2.1 = "stop-call") = stopCalls
      ∧ (ShVerif.Gen.C31.ctxUses.filter fun x => x.2.1 ≠ "stop-call").all ShVerif.Expect.C31.ctxUses.contains = true
      ∧ ShVerif.Expect.C31.ctxUses.all ShVerif.Gen.C31.ctxUses.contains = true
      -- no `Fd()` call can reach a pipe or regular file (each is behind a ModeCharDevice test, d41cde1):
      -- the only thing left that switches the runner's stdin to blocking mode is os/exec (`exec-stdin`)
      ∧ ShVerif.Gen.C31.ctxUses.all (fun x => x.2.1 ≠ "Fd-call") = true := by
  decide +kernel

/-- Context capture.  The command- and process-substitution callbacks stored in `r.ecfg` are
    long-lived closures.  Either every one of them reads the context through the Runner field that
    `Run` refreshes (`r.ectx`), or — what the code does — they capture the `ctx` parameter of the
    `fillExpandConfig` call that built them, and then `Run` must rebuild them on every call:
    exactly one call of `fillExpandConfig` in `Run`, unconditional, passing `Run`'s own context
    parameter; every other caller passes the refreshed field.  Making the call conditional (reusing
    an existing `r.ecfg`) would leave a reused Runner's substitutions on a stale context that the
    caller can no longer cancel. -/
theorem ctx_capture :
    (callbackCtx.any fun x => x.2.1 = "CmdSubst") = true
      ∧ (callbackCtx.any fun x => x.2.1 = "ProcSubst") = true
      ∧ (callbackCtx.all (fun x => x.2.2 = "field:ectx")
          || ((fillCalls.filter fun x => x.1 = "Runner.Run") = [("Runner.Run", false, "param")]
              && (fillCalls.filter fun x => x.1 ≠ "Runner.Run").all (fun x => x.2.2 = "field:ectx"))) = true := by
  decide +kernel

end ShVerif.Props.C31
