import ShVerif.Proofs.C20Parse
/-
  C20 — Arithmetic evaluation matches bash.  Property theorems (statements are fixed; helper
  lemmas live in ShVerif/Proofs/C20*.lean).

  Model: `evalArith` (expand.Arithm), `atoi`, `binArit`, `intPow`, `parseArith`
  (syntax/parser_arithm.go), `arithCmdStatus`/`letStatus`/`expansionStatus` (interp/runner.go).
  Specification: `specEval` = BashArith (bash's arithmetic on mathematical integers; results that
  leave int64 or shift counts outside 0..63 are `outOfDomain`), `specNumber` (bash constants),
  `spec…Status`.
-/
namespace ShVerif.C20

/-! ## Concrete environments and names for the examples -/

def envOf (l : List (Bytes × Bytes)) : Env :=
  { get := fun n => match l.lookup n with | some v => v | none => []
    ro := fun _ => false }

def nx : Bytes := [120]   -- "x"
def ny : Bytes := [121]   -- "y"
def nz : Bytes := [122]   -- "z"

/-! ## eval_eq_spec -/

/-- The property's statement on its stated domain (no signed overflow, shift counts 0..63): for
    every tree of bash's grammar and every environment, whenever bash's semantics pronounces a
    result (a value or one of bash's errors) the implementation returns the same result and leaves
    the same environment.  Still FALSE of the code — see the counter-examples below (all open known
    findings). -/
def eval_eq_spec_statement : Prop :=
  ∀ (fuel : Nat) (env : Env) (e : Expr) (r : Res) (env' : Env), WF e = true →
    specEval fuel bashMaxDepth env e = (r, env') → r.inDomain → evalArith env e = (r, env')

/-- `eval_eq_spec` for environments whose variables hold nothing, an integer literal, a name, or
    **an arbitrary expression text** (`EnvOK`: the text lexes and parses completely and its constants
    are valid; blank-only values are allowed as well), for expressions with valid constants
    (`LitsOK`), whenever the evaluation needs at most 99 levels of nesting through variable values
    (the code's limits are 99 names / 100 texts, bash's 1024; `r.good`): the code returns bash's
    result — value or error, and final environment — bash's own budget gives that same result, the
    invariant `EnvOK` is preserved, and no wrap-around is observed.  Targets of `op=`, `++`, `--`
    need no extra hypothesis any more. -/
theorem eval_eq_spec_partial (fuel : Nat) (env : Env) (e : Expr) (r : Res) (env' : Env)
    (hwf : WF e = true) (henv : EnvOK env) (hlit : LitsOK e)
    (h : specEval fuel codeDepth env e = (r, env')) (hd : r.good) :
    evalArith env e = (r, env') ∧ specEval fuel bashMaxDepth env e = (r, env') ∧ EnvOK env' ∧
      (∀ v, r = .ok v → inI64 v = true) :=
  eval_eq_spec_core fuel env e r env' hwf henv hlit h hd

/-- Non-vacuity, with expression-text values, a name-valued `op=` target and side effects inside a
    value: `x=5; y="x*2+1"; z=y; w="x++"; $(( z + (y += 1) + w + x ))` is 11 + 12 + 5 + 6 = 34. -/
example :
    let env := envOf [(nx, [53]), (ny, [120, 42, 50, 43, 49]), (nz, ny), ([119], [120, 43, 43])]
    let e : Expr := .binary .add (.binary .add (.binary .add (.word nz)
      (.paren (.binary .addAssgn (.word ny) (.word [49])))) (.word [119])) (.word nx)
    (specEval 200 codeDepth env e).1 = .ok 34 ∧ (evalArith env e).1 = .ok 34 := by decide

/-- Blank-only values are covered too: `x="  "; $((x + 1))` is 1 in the specification and in the code. -/
example :
    (specEval 100 codeDepth (envOf [(nx, [32, 9])]) (.binary .add (.word nx) (.word [49]))).1 = .ok 1 ∧
    (evalArith (envOf [(nx, [32, 9])]) (.binary .add (.word nx) (.word [49]))).1 = .ok 1 := by decide

/-- Repaired (19b4ebf, 5f53769): `x="1+2"; $((x))` is 3 and `y=x; x=5; $((y+=1))` is 6, in the
    specification and in the code. -/
theorem pinned_expr_text_and_lvalue :
    (specEval 100 bashMaxDepth (envOf [(nx, [49, 43, 50])]) (.word nx)).1 = .ok 3 ∧
    (evalArith (envOf [(nx, [49, 43, 50])]) (.word nx)).1 = .ok 3 ∧
    (specEval 100 bashMaxDepth (envOf [(ny, nx), (nx, [53])])
      (.binary .addAssgn (.word ny) (.word [49]))).1 = .ok 6 ∧
    (evalArith (envOf [(ny, nx), (nx, [53])]) (.binary .addAssgn (.word ny) (.word [49]))).1 = .ok 6 := by
  decide

/-- Counter-example (C20-invalid-literal-no-error): `$((08))` is an error in bash, 0 in the code. -/
theorem eval_eq_spec_counterexample_literal :
    (specEval 100 bashMaxDepth (envOf []) (.word [48, 56])).1 = .err .badNumber ∧
    (evalArith (envOf []) (.word [48, 56])).1 = .ok 0 := by decide

/-- Counter-example (C20-name-cycle, documented upstream): `x=x; $((x))` exceeds bash's recursion
    limit (an error), the code gives 0. -/
theorem eval_eq_spec_counterexample_cycle :
    (specEval 3000 bashMaxDepth (envOf [(nx, nx)]) (.word nx)).1 = .err .recursion ∧
    (evalArith (envOf [(nx, nx)]) (.word nx)).1 = .ok 0 :=
  ⟨cycle_recursion, by decide⟩

/-- Repaired (650c7ba): `x=5; y=-x; $((y))` is -5 and `z=" x "; $((z))` is 5, as in bash. -/
theorem pinned_signed_name :
    (specEval 100 bashMaxDepth (envOf [(nx, [53]), (ny, [45, 120])]) (.word ny)).1 = .ok (-5) ∧
    (evalArith (envOf [(nx, [53]), (ny, [45, 120])]) (.word ny)).1 = .ok (-5) ∧
    (evalArith (envOf [(nx, [53]), (nz, [32, 120, 32])]) (.word nz)).1 = .ok 5 := by decide

/-- Counter-example (C20-value-trailing-tokens): `y="1 2"; $((y))` is a syntax error in bash, 1 in
    the code. -/
theorem eval_eq_spec_counterexample_trailing :
    (specEval 100 bashMaxDepth (envOf [(ny, [49, 32, 50])]) (.word ny)).1 = .err .syntaxErr ∧
    (evalArith (envOf [(ny, [49, 32, 50])]) (.word ny)).1 = .ok 1 := by decide

theorem eval_eq_spec_statement_false : ¬ eval_eq_spec_statement := by
  intro h
  have h2 := eval_eq_spec_counterexample_trailing
  have h1 := h 100 (envOf [(ny, [49, 32, 50])]) (.word ny)
    (specEval 100 bashMaxDepth (envOf [(ny, [49, 32, 50])]) (.word ny)).1
    (specEval 100 bashMaxDepth (envOf [(ny, [49, 32, 50])]) (.word ny)).2 (by decide)
    (prod_eta _)
  rw [h2.1] at h1
  have h3 := congrArg Prod.fst (h1 trivial)
  rw [h2.2] at h3
  exact absurd h3 (by decide)

/-! ## assign_ops: `x op= e` ≡ `x = x op e` -/

/-- Holds in full since 5f53769: for every word `x`, environment and expression, also when `e`
    modifies `x` (`a += a++`: the old value is read first on both sides). -/
theorem assign_ops (env : Env) (op aop : BinOp) (x : Bytes) (e : Expr)
    (hop : assignOp op = some aop) :
    evalArith env (.binary op (.word x) e) =
      evalArith env (.binary .assgn (.word x) (.binary aop (.word x) e)) := by
  unfold evalArith
  rw [evalAt_eq]
  exact assign_ops_with _ env op aop x e hop

/-- `a=3; $((a += a++))` is 6 and leaves a=6 (the class of an independently seeded change:
    reading the old value after the right-hand side would give 7). -/
theorem pinned_assign_reads_old_value_first :
    (evalArith (envOf [([97], [51])]) (.binary .addAssgn (.word [97]) (.unary .inc true (.word [97])))).1
      = .ok 6 ∧
    ((evalArith (envOf [([97], [51])])
      (.binary .addAssgn (.word [97]) (.unary .inc true (.word [97])))).2.get [97]) = [54] := by
  decide

/-- The target of a plain `=` is never evaluated: `x='y++'; y=1; $((x = 5))` leaves y = 1, and
    `x='1/0'; $((x = 7))` is 7 (the class of the seeded change C20-2). -/
theorem pinned_plain_assign_does_not_read_target :
    ((evalArith (envOf [(nx, [121, 43, 43]), (ny, [49])])
      (.binary .assgn (.word nx) (.word [53]))).2.get ny) = [49] ∧
    (evalArith (envOf [(nx, [49, 47, 48])]) (.binary .assgn (.word nx) (.word [55]))).1 = .ok 7 ∧
    (specEval 100 bashMaxDepth (envOf [(nx, [49, 47, 48])])
      (.binary .assgn (.word nx) (.word [55]))).1 = .ok 7 := by
  decide

/-! ## status -/

/-- `(( e ))`: status 0 iff the expression evaluates, without error, to a non-zero value. -/
theorem status_arithCmd (env : Env) (e : Expr) :
    (arithCmdStatus env e).1 = 0 ↔ ∃ v, (evalArith env e).1 = .ok v ∧ v ≠ 0 :=
  status_arithCmd_core env e

/-- `let e`: the same rule … -/
theorem status_let_single (env : Env) (e : Expr) :
    (letStatus env [e]).1 = 0 ↔ ∃ v, (evalArith env e).1 = .ok v ∧ v ≠ 0 :=
  status_let_single_core env e

/-- … `let` stops at the first argument that fails, with status 1 (since 6b57f6d) … -/
theorem status_let_error (env : Env) (e : Expr) (rest : List Expr)
    (h : ∀ v, (evalArith env e).1 ≠ .ok v) :
    letStatus env (e :: rest) = (1, (evalArith env e).2) :=
  status_let_error_core env e rest h

/-- … and otherwise continues with the next argument in the environment left by the previous one. -/
theorem status_let_step (env env' : Env) (e e2 : Expr) (rest : List Expr) (v : Int)
    (h : evalArith env e = (.ok v, env')) :
    letStatus env (e :: e2 :: rest) = letStatus env' (e2 :: rest) :=
  status_let_step_core env env' e e2 rest v h

/-- On the domain of `eval_eq_spec_partial`, `(( e ))` has bash's status and side effects. -/
theorem status_arithCmd_eq_spec (fuel : Nat) (env : Env) (e : Expr)
    (hwf : WF e = true) (henv : EnvOK env) (hlit : LitsOK e)
    (hd : (specEval fuel codeDepth env e).1.good) :
    arithCmdStatus env e = specArithCmdStatus fuel env e :=
  status_arithCmd_eq_spec_core fuel env e hwf henv hlit hd

/-- `let e₁ … eₙ` has bash's status and side effects whenever every argument, evaluated in the
    environment the previous ones leave, stays inside the domain (`LetDomain`) — errors included. -/
theorem status_let (fuel : Nat) (env : Env) (es : List Expr) (henv : EnvOK env)
    (hdom : LetDomain fuel env es) : letStatus env es = specLetStatus fuel env es :=
  status_let_eq_spec_core fuel env es henv hdom

/-- `let 1/0 x=5` (C20-let-continues-after-error, repaired): status 1 and x untouched, as in bash. -/
theorem pinned_let_stops :
    (letStatus (envOf []) [.binary .quo (.word [49]) (.word [48]), .binary .assgn (.word nx) (.word [53])]).1 = 1 ∧
    ((letStatus (envOf []) [.binary .quo (.word [49]) (.word [48]),
      .binary .assgn (.word nx) (.word [53])]).2.get nx) = [] ∧
    (specLetStatus 100 (envOf [])
      [.binary .quo (.word [49]) (.word [48]), .binary .assgn (.word nx) (.word [53])]).1 = 1 := by
  decide

/-- A command with `$(( e ))`: full statement — FALSE, because `expandErr` recognises only two
    arithmetic error messages (C20-value-error-status). -/
def status_expansion_statement : Prop :=
  ∀ (fuel : Nat) (env : Env) (e : Expr), WF e = true → LitsOK e → EnvOK env →
    (specEval fuel codeDepth env e).1.good →
    (expansionStatus env e).1 = (specExpansionStatus fuel env e).1

/-- True when the result is a value, a division by zero or a negative exponent (since 1704f80). -/
theorem status_expansion_partial (fuel : Nat) (env : Env) (e : Expr)
    (hwf : WF e = true) (henv : EnvOK env) (hlit : LitsOK e)
    (hd : (specEval fuel codeDepth env e).1.good)
    (herr : (∃ v, (specEval fuel codeDepth env e).1 = .ok v) ∨
      (specEval fuel codeDepth env e).1 = .err .divZero ∨
      (specEval fuel codeDepth env e).1 = .err .negExp) :
    expansionStatus env e = specExpansionStatus fuel env e :=
  status_expansion_eq_spec_core fuel env e hwf henv hlit hd herr

/-- `echo $((1/0))` has status 1 now; `y="x+"; echo $((y))` (a syntax error in the value) still has
    status 0 where bash has 1. -/
theorem status_expansion_counterexample :
    (expansionStatus (envOf []) (.binary .quo (.word [49]) (.word [48]))).1 = 1 ∧
    (expansionStatus (envOf [(ny, [120, 43])]) (.word ny)).1 = 0 ∧
    (specExpansionStatus 100 (envOf [(ny, [120, 43])]) (.word ny)).1 = 1 := by decide

/-! ## errors_iff -/

/-- `binArit` fails exactly on division/remainder by zero and on negative exponents (for the
    operators bash has). -/
theorem errors_iff_binArit (op : BinOp) (x y : Int) (hop : plainBin op = true) :
    (∃ err, binArit op x y = .err err) ↔
      ((op = .quo ∨ op = .rem) ∧ y = 0) ∨ (op = .pow ∧ y < 0) :=
  errors_iff_binArit_core op x y hop

/-- On the domain of `eval_eq_spec_partial` the implementation reports an error iff bash does, and
    it is the same error. -/
theorem errors_iff (fuel : Nat) (env : Env) (e : Expr) (err : Err)
    (hwf : WF e = true) (henv : EnvOK env) (hlit : LitsOK e)
    (hd : (specEval fuel codeDepth env e).1.good) :
    (evalArith env e).1 = .err err ↔ (specEval fuel bashMaxDepth env e).1 = .err err := by
  obtain ⟨hm, hb, _, _⟩ := eval_eq_spec_partial fuel env e _ _ hwf henv hlit (prod_eta _) hd
  rw [hm, hb]

/-- The last Go panic site of `Arithm` (the type assertion of the conditional) is not reachable on
    trees of bash's grammar, at any nesting level whose nested evaluations do not panic. -/
theorem no_panic (deeper : Env → Bytes → Res × Env)
    (hd : ∀ env s, (deeper env s).1 ≠ .panic) (env : Env) (e : Expr) (hwf : WF e = true) :
    (evalWith deeper env e).1 ≠ .panic :=
  no_panic_core hd env e hwf

/-- Repaired (9f1cf54): `++x++` is a parse error (bash fails at run time), while `--5` still is
    `-(-5)`. -/
theorem pinned_preinc_postinc_rejected :
    parseArith [.sym .addAdd, .word nx, .sym .addAdd] = none ∧
    parseArith [.sym .subSub, .word [53]] =
      some (.unary .minus false (.unary .minus false (.word [53]))) := by
  decide

/-! ## atoi_spec -/

/-- On every valid bash constant — decimal, `0`octal, `0x`hex, `base#digits` with bases 2..64 and
    bash's digit alphabets (letters case-insensitive up to base 36; `a-z`=10..35, `A-Z`=36..61,
    `@`=62, `_`=63 above) — whose value fits int64, `atoi` returns the mathematical value. -/
theorem atoi_spec (w : Bytes) (n : Nat) (h : specNumber w = some n) (hn : n < 2 ^ 63) :
    atoi w = Int.ofNat n :=
  atoi_lit h hn

/-- … also with blanks and a sign around it, as in a variable value. -/
theorem atoi_spec_signed (v : Bytes) (neg : Bool) (n : Nat) (h : IntLit v neg n) (hn : n < 2 ^ 63) :
    atoi v = if neg then -(Int.ofNat n) else Int.ofNat n :=
  atoi_intLit h hn

example : atoi ([54, 52, 35, 64, 95] : Bytes) = 4031 ∧ specNumber ([54, 52, 35, 64, 95] : Bytes) = some 4031 := by decide
example : atoi ([51, 54, 35, 90, 122] : Bytes) = 1295 ∧ atoi ([32, 45, 48, 120, 49, 70, 32] : Bytes) = -31 := by decide

/-- Invalid constants are 0 for `atoi` (bash: error) — C20-invalid-literal-no-error. -/
theorem atoi_invalid_examples :
    atoi ([48, 56] : Bytes) = 0 ∧ specNumber ([48, 56] : Bytes) = none ∧
    atoi ([50, 35, 50] : Bytes) = 0 ∧ specNumber ([50, 35, 50] : Bytes) = none ∧
    atoi ([54, 53, 35, 49] : Bytes) = 0 ∧ specNumber ([54, 53, 35, 49] : Bytes) = none := by decide

/-! ## prec_assoc -/

def tX : Tok := .word nx
def tY : Tok := .word ny
def tZ : Tok := .word nz
def eX : Expr := .word nx
def eY : Expr := .word ny
def eZ : Expr := .word nz

/-- bash manual, "ARITHMETIC EVALUATION": infix operators in order of decreasing precedence
    (larger number = binds tighter); operators of one class associate to the left, `**` to the
    right. -/
def bashPrec : BinOp → Option Nat
  | .pow => some 12
  | .mul | .quo | .rem => some 11
  | .add | .sub => some 10
  | .shl | .shr => some 9
  | .leq | .geq | .lss | .gtr => some 8
  | .eql | .neq => some 7
  | .and => some 6
  | .xor => some 5
  | .or => some 4
  | .andL => some 3
  | .orL => some 2
  | .comma => some 0
  | _ => none

def infixOps : List BinOp :=
  [.pow, .mul, .quo, .rem, .add, .sub, .shl, .shr, .leq, .geq, .lss, .gtr, .eql, .neq,
   .and, .xor, .or, .andL, .orL, .comma]

def bashAssignOps : List BinOp :=
  [.assgn, .mulAssgn, .quoAssgn, .remAssgn, .addAssgn, .subAssgn, .shlAssgn, .shrAssgn,
   .andAssgn, .xorAssgn, .orAssgn]

def symOf (o : BinOp) : Tok := match o.sym with | some s => .sym s | none => .rparen

/-- how `x o1 y o2 z` groups according to the manual -/
def bashGroup (o1 o2 : BinOp) : Option Expr :=
  match bashPrec o1, bashPrec o2 with
  | some p1, some p2 =>
    if p1 < p2 ∨ (p1 = p2 ∧ o1 = .pow) then some (.binary o1 eX (.binary o2 eY eZ))
    else some (.binary o2 (.binary o1 eX eY) eZ)
  | _, _ => none

/-- Binding order and associativity of every pair of infix operators equal bash's table. -/
theorem prec_assoc_infix : infixOps.all (fun o1 => infixOps.all (fun o2 =>
    parseArith [tX, symOf o1, tY, symOf o2, tZ] == bashGroup o1 o2)) = true := by decide +kernel

/-- Assignments bind looser than every infix operator except `,`, and associate to the right. -/
theorem prec_assoc_assign : bashAssignOps.all (fun a =>
    infixOps.all (fun o =>
      parseArith [tX, symOf a, tY, symOf o, tZ] ==
        (if o = .comma then some (.binary .comma (.binary a eX eY) eZ)
         else some (.binary a eX (.binary o eY eZ)))) &&
    bashAssignOps.all (fun b =>
      parseArith [tX, symOf a, tY, symOf b, tZ] == some (.binary a eX (.binary b eY eZ)))) = true := by
  decide +kernel

/-- `?:` binds looser than `||`, tighter than assignment and `,`, nests to the right, and its
    middle operand is a full expression. -/
theorem prec_assoc_ternary :
    parseArith [tX, .sym .orOr, tY, .sym .quest, tZ, .sym .colon, tX, .sym .orOr, tY] =
      some (.binary .ternQuest (.binary .orL eX eY) (.binary .ternColon eZ (.binary .orL eX eY))) ∧
    parseArith [tX, .sym .assgn, tY, .sym .quest, tZ, .sym .colon, tX] =
      some (.binary .assgn eX (.binary .ternQuest eY (.binary .ternColon eZ eX))) ∧
    parseArith [tX, .sym .quest, tY, .sym .colon, tZ, .sym .quest, tX, .sym .colon, tY] =
      some (.binary .ternQuest eX (.binary .ternColon eY
        (.binary .ternQuest eZ (.binary .ternColon eX eY)))) ∧
    parseArith [tX, .sym .quest, tY, .sym .comma, tZ, .sym .colon, tX, .sym .comma, tY] =
      some (.binary .comma (.binary .ternQuest eX (.binary .ternColon (.binary .comma eY eZ) eX)) eY) := by
  decide

/-- Prefix `! ~ + -` bind tighter than `**` (`-x ** y` is `(-x) ** y`, as in bash) and hence than
    every infix operator; `++`/`--` bind tighter still. -/
theorem prec_assoc_unary :
    parseArith [.sym .minus, tX, .sym .power, tY] = some (.binary .pow (.unary .minus false eX) eY) ∧
    parseArith [tX, .sym .power, .sym .minus, tY] = some (.binary .pow eX (.unary .minus false eY)) ∧
    parseArith [.sym .exclMark, tX, .sym .star, tY] = some (.binary .mul (.unary .not false eX) eY) ∧
    parseArith [.sym .tilde, tX, .sym .addAdd] = some (.unary .bitNeg false (.unary .inc true eX)) ∧
    parseArith [.sym .minus, .sym .subSub, tX] = some (.unary .minus false (.unary .dec false eX)) := by
  decide

/-- The round trip: a tree whose operands sit at the levels of the chain (`PrecOK`: left-associative
    operators take a left operand of their own level or tighter and a strictly tighter right
    operand, `**` and assignment the other way round, `c ? t : f` any `t`, prefix operators bind
    tighter than `**`, `++`/`--` apply to names) prints, without any parenthesis of its own, to a
    token list that parses back to exactly the same tree — with the fuel `parseArith` itself uses. -/
theorem prec_assoc (e : Expr) (h : PrecOK e = true) : parseArith (printArith e) = some e :=
  parse_print e h

example :
    let e : Expr := .binary .assgn eX (.binary .add (.binary .mul eY (.paren (.binary .comma eX eZ)))
      (.unary .minus false (.unary .inc true eX)))
    PrecOK e = true ∧ parseArith (printArith e) = some e := by decide

end ShVerif.C20
