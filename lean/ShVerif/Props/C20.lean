import ShVerif.Proofs.C20Parse
/-
  C20 — Arithmetic evaluation matches bash.  Property theorems (statements are fixed; helper
  lemmas live in ShVerif/Proofs/C20*.lean).

  Model: `evalArith` (expand.Arithm), `atoi`, `binArit`, `intPow`, `parseArith`
  (syntax/parser_arithm.go), `arithCmdStatus`/`letStatus`/`expansionStatus` (interp/runner.go).
  Specification: `specEval` = BashArith (bash's arithmetic on mathematical integers; results that
  leave int64 or shift counts outside 0..63 are `outOfDomain`), `specNumber` (bash constants),
  `spec…Status`.
-/
namespace ShVerif.C20

/-! ## Concrete environments and names for the examples -/

def envOf (l : List (Bytes × Bytes)) : Env :=
  { get := fun n => match l.lookup n with | some v => v | none => []
    ro := fun _ => false }

def nx : Bytes := [120]   -- "x"
def ny : Bytes := [121]   -- "y"
def nz : Bytes := [122]   -- "z"

/-! ## eval_eq_spec -/

/-- The property's statement on its stated domain (no signed overflow, shift counts 0..63): for
    every tree of bash's grammar and every environment, whenever bash's semantics pronounces a
    result (a value or one of bash's errors) the implementation returns the same result and leaves
    the same environment.  FALSE of the code — see the counter-examples below. -/
def eval_eq_spec_statement : Prop :=
  ∀ (fuel : Nat) (env : Env) (e : Expr) (r : Res) (env' : Env), WF e = true →
    specEval fuel bashMaxDepth env e = (r, env') → r.inDomain → evalArith env e = (r, env')

/-- `eval_eq_spec` under the exact extra hypotheses: every variable value is an integer literal or
    a chain of names ending in one (`EnvOK`), every constant in the expression is a valid bash
    constant (`LitsOK`), and the targets of `op=`, `++`, `--` hold a literal, not a name
    (`LvalsOK`). -/
theorem eval_eq_spec_partial (fuel : Nat) (env : Env) (e : Expr) (r : Res) (env' : Env)
    (hwf : WF e = true) (henv : EnvOK env) (hlit : LitsOK e) (hlv : LvalsOK env.get e)
    (h : specEval fuel bashMaxDepth env e = (r, env')) (hd : r.inDomain) :
    evalArith env e = (r, env') :=
  eval_eq_spec_core fuel env e r env' hwf henv hlit hlv h hd

/-- Non-vacuity: the hypotheses hold for `x=5; y=x; $(( y * 2 + x++ ))` and the result is 15. -/
example :
    let env := envOf [(nx, [53]), (ny, nx)]
    let e : Expr := .binary .add (.binary .mul (.word ny) (.word [50])) (.unary .inc true (.word nx))
    (specEval 100 bashMaxDepth env e).1 = .ok 15 ∧ (evalArith env e).1 = .ok 15 := by decide

/-- Counter-example 1 (C20-expr-text-value): `x="1+2"; $((x))` is 3 in bash, 0 in the code. -/
theorem eval_eq_spec_counterexample_text :
    (specEval 100 bashMaxDepth (envOf [(nx, ([49, 43, 50] : Bytes))]) (.word nx)).1 = .ok 3 ∧
    (evalArith (envOf [(nx, ([49, 43, 50] : Bytes))]) (.word nx)).1 = .ok 0 := by decide

/-- Counter-example 2 (C20-lvalue-no-chase): `y=x; x=5; $((y+=1))` is 6 in bash, 1 in the code. -/
theorem eval_eq_spec_counterexample_lvalue :
    (specEval 100 bashMaxDepth (envOf [(ny, nx), (nx, [53])])
      (.binary .addAssgn (.word ny) (.word [49]))).1 = .ok 6 ∧
    (evalArith (envOf [(ny, nx), (nx, [53])]) (.binary .addAssgn (.word ny) (.word [49]))).1 = .ok 1 := by
  decide

/-- Counter-example 3 (C20-invalid-literal-no-error): `$((08))` is an error in bash, 0 in the code. -/
theorem eval_eq_spec_counterexample_literal :
    (specEval 100 bashMaxDepth (envOf []) (.word [48, 56])).1 = .err .badNumber ∧
    (evalArith (envOf []) (.word [48, 56])).1 = .ok 0 := by decide

/-- Counter-example 4 (C20-name-cycle): `x=x; $((x))` exceeds bash's recursion limit (an error),
    the code gives 0. -/
theorem eval_eq_spec_counterexample_cycle :
    (specEval 3000 bashMaxDepth (envOf [(nx, nx)]) (.word nx)).1 = .err .recursion ∧
    (evalArith (envOf [(nx, nx)]) (.word nx)).1 = .ok 0 :=
  ⟨cycle_recursion, by decide⟩

/-- On the domain of `eval_eq_spec_partial` every value fits int64: the wrap-around of the Go
    code is never observed. -/
theorem eval_no_overflow (fuel : Nat) (env : Env) (e : Expr) (v : Int) (env' : Env)
    (hwf : WF e = true) (henv : EnvOK env) (hlit : LitsOK e) (hlv : LvalsOK env.get e)
    (h : specEval fuel bashMaxDepth env e = (.ok v, env')) : inI64 v = true :=
  eval_inI64_core fuel env e v env' hwf henv hlit hlv h

theorem eval_eq_spec_statement_false : ¬ eval_eq_spec_statement := by
  intro h
  have h2 := eval_eq_spec_counterexample_text
  have h1 := h 100 (envOf [(nx, [49, 43, 50])]) (.word nx)
    (specEval 100 bashMaxDepth (envOf [(nx, [49, 43, 50])]) (.word nx)).1
    (specEval 100 bashMaxDepth (envOf [(nx, [49, 43, 50])]) (.word nx)).2 (by decide) (prod_eta _)
  rw [h2.1] at h1
  have h3 := congrArg Prod.fst (h1 trivial)
  rw [h2.2] at h3
  exact absurd h3 (by decide)

/-! ## assign_ops: `x op= e` ≡ `x = x op e` -/

def assign_ops_statement : Prop :=
  ∀ (env : Env) (op aop : BinOp) (x : Bytes) (e : Expr), assignOp op = some aop →
    evalArith env (.binary op (.word x) e) =
      evalArith env (.binary .assgn (.word x) (.binary aop (.word x) e))

/-- True whenever the variable does not hold a (non-empty) name: `op=` reads it with `atoi`,
    `x op e` with the name-chasing word rule. -/
theorem assign_ops_partial (env : Env) (op aop : BinOp) (x : Bytes) (e : Expr)
    (hop : assignOp op = some aop) (hx : validName x = true)
    (hv : validName (env.get x) = false) :
    evalArith env (.binary op (.word x) e) =
      evalArith env (.binary .assgn (.word x) (.binary aop (.word x) e)) :=
  assign_ops_core env op aop x e hop hx hv

theorem assign_ops_counterexample :
    (evalArith (envOf [(ny, nx), (nx, [53])]) (.binary .addAssgn (.word ny) (.word [49]))).1 = .ok 1 ∧
    (evalArith (envOf [(ny, nx), (nx, [53])])
      (.binary .assgn (.word ny) (.binary .add (.word ny) (.word [49])))).1 = .ok 6 := by decide

theorem assign_ops_statement_false : ¬ assign_ops_statement := by
  intro h
  have h1 := congrArg Prod.fst
    (h (envOf [(ny, nx), (nx, [53])]) .addAssgn .add ny (.word [49]) rfl)
  rw [assign_ops_counterexample.1, assign_ops_counterexample.2] at h1
  exact absurd h1 (by decide)

/-! ## status -/

/-- `(( e ))`: status 0 iff the expression evaluates, without error, to a non-zero value. -/
theorem status_arithCmd (env : Env) (e : Expr) :
    (arithCmdStatus env e).1 = 0 ↔ ∃ v, (evalArith env e).1 = .ok v ∧ v ≠ 0 :=
  status_arithCmd_core env e

/-- `let e₁ … eₙ e`: status 0 iff the last expression, evaluated in the environment the previous
    ones leave, gives a non-zero value. -/
theorem status_let (env : Env) (es : List Expr) (e : Expr) :
    (letStatus env (es ++ [e])).1 = 0 ↔
      ∃ v, (evalArith (letLoop env 0 es).2 e).1 = .ok v ∧ v ≠ 0 :=
  status_let_core env es e

/-- On the domain of `eval_eq_spec_partial`, `(( e ))` has bash's status and side effects, errors
    included (both give 1). -/
theorem status_arithCmd_eq_spec (fuel : Nat) (env : Env) (e : Expr)
    (hwf : WF e = true) (henv : EnvOK env) (hlit : LitsOK e) (hlv : LvalsOK env.get e)
    (hd : (specEval fuel bashMaxDepth env e).1.inDomain) :
    arithCmdStatus env e = specArithCmdStatus fuel env e :=
  status_arithCmd_eq_spec_core fuel env e hwf henv hlit hlv hd

/-- Full statement for `let` with several arguments and for `$(( ))`: FALSE (errors do not stop
    `let`, and a failing expansion leaves status 0). -/
def status_let_statement : Prop :=
  ∀ (fuel : Nat) (env : Env) (es : List Expr), (∀ e ∈ es, WF e = true ∧ LitsOK e) → EnvOK env →
    (∀ e ∈ es, LvalsOK env.get e) →
    (∀ e ∈ es, ∀ env1, (specEval fuel bashMaxDepth env1 e).1.inDomain) →
    (letStatus env es).1 = (specLetStatus fuel env es).1

def status_expansion_statement : Prop :=
  ∀ (fuel : Nat) (env : Env) (e : Expr), WF e = true → LitsOK e → EnvOK env → LvalsOK env.get e →
    (specEval fuel bashMaxDepth env e).1.inDomain →
    (expansionStatus env e).1 = (specExpansionStatus fuel env e).1

/-- C20-let-continues-after-error: `let 1/0 x=5` has status 1 in bash, 0 in the code. -/
theorem status_let_counterexample :
    (letStatus (envOf []) [.binary .quo (.word [49]) (.word [48]), .binary .assgn (.word nx) (.word [53])]).1 = 0 ∧
    (specLetStatus 100 (envOf [])
      [.binary .quo (.word [49]) (.word [48]), .binary .assgn (.word nx) (.word [53])]).1 = 1 := by decide

/-- C20-arith-error-status: `echo $((1/0))` has status 1 in bash, 0 in the code. -/
theorem status_expansion_counterexample :
    (expansionStatus (envOf []) (.binary .quo (.word [49]) (.word [48]))).1 = 0 ∧
    (specExpansionStatus 100 (envOf []) (.binary .quo (.word [49]) (.word [48]))).1 = 1 := by decide

/-! ## errors_iff -/

/-- `binArit` fails exactly on division/remainder by zero and on negative exponents (for the
    operators bash has). -/
theorem errors_iff_binArit (op : BinOp) (x y : Int) (hop : plainBin op = true) :
    (∃ err, binArit op x y = .err err) ↔
      ((op = .quo ∨ op = .rem) ∧ y = 0) ∨ (op = .pow ∧ y < 0) :=
  errors_iff_binArit_core op x y hop

/-- On the domain of `eval_eq_spec_partial` the implementation reports an error iff bash does, and
    it is the same error. -/
theorem errors_iff (fuel : Nat) (env : Env) (e : Expr) (err : Err)
    (hwf : WF e = true) (henv : EnvOK env) (hlit : LitsOK e) (hlv : LvalsOK env.get e)
    (hd : (specEval fuel bashMaxDepth env e).1.inDomain) :
    (evalArith env e).1 = .err err ↔ (specEval fuel bashMaxDepth env e).1 = .err err := by
  have h := eval_eq_spec_partial fuel env e _ _ hwf henv hlit hlv rfl hd
  rw [h]

/-- Trees of bash's grammar never make `Arithm` panic … -/
theorem no_panic (env : Env) (e : Expr) (hwf : WF e = true) : (evalArith env e).1 ≠ .panic :=
  no_panic_core env e hwf

/-- The parser also produces `++x++` = `++(x++)` (C20-preinc-postinc-panic, fixed in /repo by the
    `nodeLit` check): it is no longer a Go panic but the error "unsupported assignment target";
    bash reports an error too. -/
theorem parser_output_unsupported_target :
    parseArith [.sym .addAdd, .word nx, .sym .addAdd] =
      some (.unary .inc false (.unary .inc true (.word nx))) ∧
    (evalArith (envOf []) (.unary .inc false (.unary .inc true (.word nx)))).1 =
      .err .unsupTarget := by
  decide

/-! ## atoi_spec -/

/-- On every valid bash constant — decimal, `0`octal, `0x`hex, `base#digits` with bases 2..64 and
    bash's digit alphabets (letters case-insensitive up to base 36; `a-z`=10..35, `A-Z`=36..61,
    `@`=62, `_`=63 above) — whose value fits int64, `atoi` returns the mathematical value. -/
theorem atoi_spec (w : Bytes) (n : Nat) (h : specNumber w = some n) (hn : n < 2 ^ 63) :
    atoi w = Int.ofNat n :=
  atoi_lit h hn

/-- … also with blanks and a sign around it, as in a variable value. -/
theorem atoi_spec_signed (v : Bytes) (neg : Bool) (n : Nat) (h : IntLit v neg n) (hn : n < 2 ^ 63) :
    atoi v = if neg then -(Int.ofNat n) else Int.ofNat n :=
  atoi_intLit h hn

example : atoi ([54, 52, 35, 64, 95] : Bytes) = 4031 ∧ specNumber ([54, 52, 35, 64, 95] : Bytes) = some 4031 := by decide
example : atoi ([51, 54, 35, 90, 122] : Bytes) = 1295 ∧ atoi ([32, 45, 48, 120, 49, 70, 32] : Bytes) = -31 := by decide

/-- Invalid constants are 0 for `atoi` (bash: error) — C20-invalid-literal-no-error. -/
theorem atoi_invalid_examples :
    atoi ([48, 56] : Bytes) = 0 ∧ specNumber ([48, 56] : Bytes) = none ∧
    atoi ([50, 35, 50] : Bytes) = 0 ∧ specNumber ([50, 35, 50] : Bytes) = none ∧
    atoi ([54, 53, 35, 49] : Bytes) = 0 ∧ specNumber ([54, 53, 35, 49] : Bytes) = none := by decide

/-! ## prec_assoc -/

def tX : Tok := .word nx
def tY : Tok := .word ny
def tZ : Tok := .word nz
def eX : Expr := .word nx
def eY : Expr := .word ny
def eZ : Expr := .word nz

/-- bash manual, "ARITHMETIC EVALUATION": infix operators in order of decreasing precedence
    (larger number = binds tighter); operators of one class associate to the left, `**` to the
    right. -/
def bashPrec : BinOp → Option Nat
  | .pow => some 12
  | .mul | .quo | .rem => some 11
  | .add | .sub => some 10
  | .shl | .shr => some 9
  | .leq | .geq | .lss | .gtr => some 8
  | .eql | .neq => some 7
  | .and => some 6
  | .xor => some 5
  | .or => some 4
  | .andL => some 3
  | .orL => some 2
  | .comma => some 0
  | _ => none

def infixOps : List BinOp :=
  [.pow, .mul, .quo, .rem, .add, .sub, .shl, .shr, .leq, .geq, .lss, .gtr, .eql, .neq,
   .and, .xor, .or, .andL, .orL, .comma]

def bashAssignOps : List BinOp :=
  [.assgn, .mulAssgn, .quoAssgn, .remAssgn, .addAssgn, .subAssgn, .shlAssgn, .shrAssgn,
   .andAssgn, .xorAssgn, .orAssgn]

def symOf (o : BinOp) : Tok := match o.sym with | some s => .sym s | none => .rparen

/-- how `x o1 y o2 z` groups according to the manual -/
def bashGroup (o1 o2 : BinOp) : Option Expr :=
  match bashPrec o1, bashPrec o2 with
  | some p1, some p2 =>
    if p1 < p2 ∨ (p1 = p2 ∧ o1 = .pow) then some (.binary o1 eX (.binary o2 eY eZ))
    else some (.binary o2 (.binary o1 eX eY) eZ)
  | _, _ => none

/-- Binding order and associativity of every pair of infix operators equal bash's table. -/
theorem prec_assoc_infix : infixOps.all (fun o1 => infixOps.all (fun o2 =>
    parseArith [tX, symOf o1, tY, symOf o2, tZ] == bashGroup o1 o2)) = true := by decide +kernel

/-- Assignments bind looser than every infix operator except `,`, and associate to the right. -/
theorem prec_assoc_assign : bashAssignOps.all (fun a =>
    infixOps.all (fun o =>
      parseArith [tX, symOf a, tY, symOf o, tZ] ==
        (if o = .comma then some (.binary .comma (.binary a eX eY) eZ)
         else some (.binary a eX (.binary o eY eZ)))) &&
    bashAssignOps.all (fun b =>
      parseArith [tX, symOf a, tY, symOf b, tZ] == some (.binary a eX (.binary b eY eZ)))) = true := by
  decide +kernel

/-- `?:` binds looser than `||`, tighter than assignment and `,`, nests to the right, and its
    middle operand is a full expression. -/
theorem prec_assoc_ternary :
    parseArith [tX, .sym .orOr, tY, .sym .quest, tZ, .sym .colon, tX, .sym .orOr, tY] =
      some (.binary .ternQuest (.binary .orL eX eY) (.binary .ternColon eZ (.binary .orL eX eY))) ∧
    parseArith [tX, .sym .assgn, tY, .sym .quest, tZ, .sym .colon, tX] =
      some (.binary .assgn eX (.binary .ternQuest eY (.binary .ternColon eZ eX))) ∧
    parseArith [tX, .sym .quest, tY, .sym .colon, tZ, .sym .quest, tX, .sym .colon, tY] =
      some (.binary .ternQuest eX (.binary .ternColon eY
        (.binary .ternQuest eZ (.binary .ternColon eX eY)))) ∧
    parseArith [tX, .sym .quest, tY, .sym .comma, tZ, .sym .colon, tX, .sym .comma, tY] =
      some (.binary .comma (.binary .ternQuest eX (.binary .ternColon (.binary .comma eY eZ) eX)) eY) := by
  decide

/-- Prefix `! ~ + -` bind tighter than `**` (`-x ** y` is `(-x) ** y`, as in bash) and hence than
    every infix operator; `++`/`--` bind tighter still. -/
theorem prec_assoc_unary :
    parseArith [.sym .minus, tX, .sym .power, tY] = some (.binary .pow (.unary .minus false eX) eY) ∧
    parseArith [tX, .sym .power, .sym .minus, tY] = some (.binary .pow eX (.unary .minus false eY)) ∧
    parseArith [.sym .exclMark, tX, .sym .star, tY] = some (.binary .mul (.unary .not false eX) eY) ∧
    parseArith [.sym .tilde, tX, .sym .addAdd] = some (.unary .bitNeg false (.unary .inc true eX)) ∧
    parseArith [.sym .minus, .sym .subSub, tX] = some (.unary .minus false (.unary .dec false eX)) := by
  decide

/-- The round trip: a tree whose operands sit at the levels of the chain (`PrecOK`: left-associative
    operators take a left operand of their own level or tighter and a strictly tighter right
    operand, `**` and assignment the other way round, `c ? t : f` any `t`, prefix operators bind
    tighter than `**`, `++`/`--` apply to names) prints, without any parenthesis of its own, to a
    token list that parses back to exactly the same tree — with the fuel `parseArith` itself uses. -/
theorem prec_assoc (e : Expr) (h : PrecOK e = true) : parseArith (printArith e) = some e :=
  parse_print e h

example :
    let e : Expr := .binary .assgn eX (.binary .add (.binary .mul eY (.paren (.binary .comma eX eZ)))
      (.unary .minus false (.unary .inc true eX)))
    PrecOK e = true ∧ parseArith (printArith e) = some e := by decide

end ShVerif.C20
