import ShVerif.Proofs.C20
/-
  C20 — Arithmetic evaluation matches bash.  Property theorems.
-/
namespace ShVerif.C20

theorem placeholder_true : True := trivial

end ShVerif.C20
