import ShVerif.Model.C05
namespace ShVerif.C05

theorem placeholder : True := trivial

end ShVerif.C05
