import ShVerif.Proofs.C05Main
import ShVerif.Proofs.C05Minify
import ShVerif.Proofs.C05Static
/-
  C05 — Formatting keeps every comment: the property theorems about the comment-skeleton model
  of `syntax/printer.go` (`ShVerif/Model/C05.lean`).

  `emitted o f` is the ghost output of the model printer (the comments it writes, in order),
  `allComments f` every comment field of the tree in the canonical field order, `sourceOrder f`
  the same comments sorted by offset.  `WFComments` is an assume/guarantee predicate: it is
  executable, checked on every tree the Go parser returns during a run (harness op `tree`), and
  NOT proved of the parser.
-/
namespace ShVerif.C05

/-! ## Conservation -/

/-- The whole of `Print(*File)` as one `Step` from the initial state. -/
theorem printFile_step (o : Opts) (hm : o.minify = false) (f : File) (hw : WFComments f = true) :
    Step (initSt o) (printFile o f) (allComments f) := by
  unfold printFile allComments
  have h1 := step_loop o hm false f.stmts (initSt o) hw
  exact (((((h1.andThen (listPost_step o hm _ _ f.last _)).andThen (newline_step o Pos.none _)).andThen
    (flushHeredocs_keeps o _).step).andThen (flushComments_step o _))).congr (by simp)

/-- **Printer order = field order.**  With Minify off, on a tree that satisfies `WFComments`, a
    run that takes none of the state-dependent reordering branches (`lossD = 0`: a `BinaryCmd`
    printed on one line whose non-empty `Y.Comments` is queued behind comments inside `Y`; an
    inline backquote comment written while comments are pending) writes exactly the comment
    fields of the tree, each once, in field order. -/
theorem emitted_eq_allComments (o : Opts) (f : File) (hm : o.minify = false)
    (hw : WFComments f = true) (hl : (printFile o f).lossD = 0) :
    emitted o f = allComments f := by
  have hs := printFile_step o hm f hw
  have hacc := hs.2 (by simpa [initSt] using hl)
  have hp : (printFile o f).pending = [] := by
    unfold printFile; exact flushComments_pending o _
  have : (printFile o f).acc = (printFile o f).emitted := by simp [St.acc, hp]
  rw [this] at hacc
  simpa [emitted, initSt, St.acc] using hacc

theorem insertCom_of_le (c : Com) : ∀ l : List Com, sortedComs (c :: l) = true → insertCom c l = c :: l
  | [], _ => rfl
  | d :: ds, h => by
    simp only [sortedComs, Bool.and_eq_true, decide_eq_true_eq] at h
    simp [insertCom, h.1]

theorem sortedComs_tail : ∀ (c : Com) (l : List Com), sortedComs (c :: l) = true → sortedComs l = true
  | _, [], _ => rfl
  | _, d :: ds, h => by
    simp only [sortedComs, Bool.and_eq_true] at h
    exact h.2

/-- sorting a list with strictly increasing offsets changes nothing -/
theorem sortComs_of_sorted : ∀ l : List Com, sortedComs l = true → sortComs l = l
  | [], _ => rfl
  | c :: l, h => by
    simp only [sortComs]
    rw [sortComs_of_sorted l (sortedComs_tail c l h)]
    exact insertCom_of_le c l h

/-- The property as stated (all parsed trees, all option sets without Minify).  It is FALSE of
    the model, hence of the code: see the counter-examples below. -/
def comments_conserved_statement : Prop :=
  ∀ (o : Opts) (f : File), WFComments f = true → o.minify = false → emitted o f = sourceOrder f

/-- **Comments are conserved** (multiset and order), with the exact extra hypotheses:
    no state-dependent reordering branch taken, and the canonical field order being the source
    order (`SourceOrdered`, false where the parser stores a comment in a field that the printer
    emits before earlier comments: for-header comments, trailing comments before heredoc bodies). -/
theorem comments_conserved_partial (o : Opts) (f : File) (hm : o.minify = false)
    (hw : WFComments f = true) (hl : (printFile o f).lossD = 0) (ho : SourceOrdered f = true) :
    emitted o f = sourceOrder f := by
  rw [emitted_eq_allComments o f hm hw hl]
  unfold sourceOrder
  exact (sortComs_of_sorted _ ho).symm

/-- After `flushComments` nothing is pending: every comment handed to the printer is written
    before `Print` returns. -/
theorem nothing_pending_at_end (o : Opts) (f : File) : (printFile o f).pending = [] := by
  unfold printFile; exact flushComments_pending o _

/-! ## Counter-examples to the full statement (each replayed on the Go code: corpus/C05-known.txt)
     and pinned behaviour of fixed findings -/

def P (o l c : Nat) : Pos := ⟨true, o, l, c⟩
def word1 (l : Nat) : List Item := [.li (.bsl l), .li (.bsl l), .li (.adv l)]
def comC : Com := ⟨P 4 1 5, 7, [0x20, 0x63]⟩
def com1 : Com := ⟨P 13 1 14, 17, [0x20, 0x63, 0x31]⟩
def com2 : Com := ⟨P 20 2 3, 24, [0x20, 0x63, 0x32]⟩

/-- `a | # c⏎b` as dumped by the harness -/
def exPipe : File :=
  ⟨[.mk (P 0 1 1) (P 0 1 1) (P 9 2 2) Pos.none []
      (.binary (P 2 1 3)
        (.mk (P 0 1 1) (P 0 1 1) (P 1 1 2) Pos.none [] (.flat (word1 1)) [])
        (.mk (P 8 2 1) (P 8 2 1) (P 9 2 2) Pos.none [comC] (.flat (word1 2)) [])) []], []⟩

/-- `a | # c1⏎$(b # c2⏎)` as dumped by the harness -/
def exPipeNested : File :=
  ⟨[.mk (P 0 1 1) (P 0 1 1) (P 19 3 2) Pos.none []
      (.binary (P 2 1 3)
        (.mk (P 0 1 1) (P 0 1 1) (P 1 1 2) Pos.none [] (.flat (word1 1)) [])
        (.mk (P 9 2 1) (P 9 2 1) (P 19 3 2) Pos.none [⟨P 4 1 5, 8, [0x20, 0x63, 0x31]⟩]
          (.flat (word1 2 ++ [.sub .dollar false 2 (P 9 2 1) (P 18 3 1)
            [.mk (P 11 2 3) (P 11 2 3) (P 12 2 4) Pos.none [⟨P 13 2 5, 17, [0x20, 0x63, 0x32]⟩]
              (.flat (word1 2)) []] [], .li (.adv 3)])) [])) []], []⟩

/-- `for i in $(a # c1⏎) # c2⏎do :; done` as dumped by the harness -/
def exFor : File :=
  ⟨[.mk (P 0 1 1) (P 0 1 1) (P 35 3 11) Pos.none [com2]
      (.forc (P 25 3 1) (P 31 3 7)
        [.li (.bsl 1), .li (.bsl 1), .li (.adv 1),
         .sub .dollar false 1 (P 9 1 10) (P 18 2 1)
           [.mk (P 11 1 12) (P 11 1 12) (P 12 1 13) Pos.none [com1] (.flat (word1 1)) []] [],
         .li (.adv 2)]
        3 [.mk (P 28 3 4) (P 28 3 4) (P 29 3 5) (P 29 3 5) [] (.flat (word1 3)) []] []) []], []⟩

/-- `time a <<E # c⏎E` as dumped by the harness -/
def exTime : File :=
  ⟨[.mk (P 0 1 1) (P 0 1 1) (P 10 1 11) Pos.none []
      (.wrap [] (some (.mk (P 5 1 6) (P 5 1 6) (P 6 1 7) Pos.none [⟨P 11 1 12, 14, [0x20, 0x63]⟩]
        (.flat (word1 1)) [.mk (P 7 1 8) (some ⟨false, false, [], [], 0⟩) [.li (.bsl 1), .li (.adv 1)]]))) []], []⟩

/-- Comments between a `for` header and `do` overtake the comments inside the header (open
    finding C05-for-header-comments-queued-early): nothing is lost, the order changes. -/
theorem counter_for_header :
    WFComments exFor = true ∧ (printFile {} exFor).lossD = 0 ∧ SourceOrdered exFor = false ∧
    emitted {} exFor = [com2, com1] ∧ sourceOrder exFor = [com1, com2] := by decide

/-- SingleLine queues the comment between `|` and the next command behind the comments inside
    that command (open finding C05-singleline-ycomments-after-nested): the order changes. -/
theorem counter_singleLine_nested :
    WFComments exPipeNested = true ∧ SourceOrdered exPipeNested = true ∧
    (printFile { singleLine := true } exPipeNested).lossD = 1 ∧
    (emitted { singleLine := true } exPipeNested).map (·.pos.offs) = [13, 4] ∧
    (sourceOrder exPipeNested).map (·.pos.offs) = [4, 13] := by decide

theorem comments_conserved_statement_false : ¬ comments_conserved_statement := by
  intro h
  have := h {} exFor (by decide) rfl
  revert this
  decide

/-- Pinned (fixed by /repo 5414a4f): SingleLine keeps the comment between `|` and the next
    command. -/
theorem pinned_singleLine_pipe :
    emitted { singleLine := true } exPipe = [comC] ∧ emitted {} exPipe = [comC] := by decide

/-- Pinned (fixed by /repo 94a311f): the comment of the statement inside `time` is printed. -/
theorem pinned_time_inner :
    WFComments exTime = true ∧ emitted {} exTime = sourceOrder exTime ∧
    (sourceOrder exTime).length = 1 := by decide

/-- Non-vacuity: the hypotheses of `comments_conserved_partial` hold of `a | # c⏎b` under the
    default options, and a comment is written. -/
example : WFComments exPipe = true ∧ (printFile { singleLine := true } exPipe).lossD = 0 ∧
    SourceOrdered exPipe = true ∧ emitted { singleLine := true } exPipe = [comC] := by decide

/-! ## `lossD = 0` from a syntactic condition -/

/-- On a tree without reordering sites (`NoReorderSites`: no `BinaryCmd` whose right operand
    carries comments both in `Y.Comments` and inside `Y`; no backquoted substitution consisting of
    one comment) the printer never takes a state-dependent reordering branch, whatever the
    options. -/
theorem lossD_zero_of_noReorderSites (o : Opts) (f : File) (hn : NoReorderSites f = true) :
    (printFile o f).lossD = 0 := by
  unfold printFile
  have h : LStep (initSt o) (flushComments o (flushHeredocs o (newline o Pos.none
      (listPost o f.stmts.length (sepOf f.stmts (initSt o)) f.last (prStmtLoop o false f.stmts (initSt o)))))) :=
    ((((lstep_loop o false f.stmts (initSt o) hn).andThen (listPost_lstep o _ _ f.last _)).andThen
      (newline_lstep o Pos.none _)).andThen (flushHeredocs_keeps o _).lstep).andThen (flushComments_lstep o _)
  simpa [LStep, initSt] using h

/-- **Printer order = field order**, all hypotheses syntactic: Minify off, `WFComments`,
    `NoReorderSites`. -/
theorem emitted_eq_allComments_static (o : Opts) (f : File) (hm : o.minify = false)
    (hw : WFComments f = true) (hn : NoReorderSites f = true) : emitted o f = allComments f :=
  emitted_eq_allComments o f hm hw (lossD_zero_of_noReorderSites o f hn)

/-- **Comments are conserved** (multiset and order) with syntactic hypotheses only: Minify off,
    `WFComments` (parser guarantee, checked per run), `NoReorderSites` (regions of the open
    findings C05-singleline-ycomments-after-nested, C05-binary-y-for-header-comments-after-body,
    C05-singleline-inline-backquote-comment-overtakes-pending) and `SourceOrdered` (regions of
    C05-for-header-comments-queued-early, C05-funcdecl-body-trailing-comment-printed-first,
    C05-redirect-only-stmt-trailing-comment-printed-first,
    C05-trailing-comment-before-heredoc-body-printed-first). -/
theorem comments_conserved_static (o : Opts) (f : File) (hm : o.minify = false)
    (hw : WFComments f = true) (hn : NoReorderSites f = true) (ho : SourceOrdered f = true) :
    emitted o f = sourceOrder f :=
  comments_conserved_partial o f hm hw (lossD_zero_of_noReorderSites o f hn) ho

/-- Non-vacuity and sharpness: `a | # c⏎b` satisfies all three syntactic hypotheses;
    `a | # c1⏎$(b # c2⏎)` fails exactly `NoReorderSites`; the `for` witness fails exactly
    `SourceOrdered`. -/
example : (WFComments exPipe && NoReorderSites exPipe && SourceOrdered exPipe) = true ∧
    (WFComments exPipeNested && SourceOrdered exPipeNested) = true ∧ NoReorderSites exPipeNested = false ∧
    (WFComments exFor && NoReorderSites exFor) = true ∧ SourceOrdered exFor = false := by decide

/-! ## Minify -/

/-- The whole of `Print(*File)` with Minify. -/
theorem printFile_mstep (o : Opts) (hm : o.minify = true) (f : File) : MStep (initSt o) (printFile o f) := by
  unfold printFile
  exact ((((mstep_loop o hm false f.stmts (initSt o)).andThen (listPost_mstep o hm _ _ f.last _)).andThen
    (newline_mstep o Pos.none _)).andThen (flushHeredocs_mstep o _)).andThen (flushComments_mstep o _)

/-- **With Minify the only comment written is a shebang at 1:1** — for every tree and every
    option set with Minify; no well-formedness is needed. -/
theorem minify_shebang (o : Opts) (f : File) (hm : o.minify = true) :
    ∀ c ∈ emitted o f, shebangAt11 c = true := by
  intro c hc
  have h := printFile_mstep o hm f (by simp [initSt])
  rcases h.2 c hc with h | h
  · simp [initSt] at h
  · exact h

/-- a comment that passes the test sits at line 1, column 1 and matches the shebang pattern -/
theorem shebangAt11_spec (c : Com) (h : shebangAt11 c = true) :
    c.pos.line = 1 ∧ c.pos.col = 1 ∧ isShebang c.text = true := by
  unfold shebangAt11 at h
  simp only [Bool.and_eq_true, decide_eq_true_eq] at h
  exact ⟨h.2, h.1.2, h.1.1⟩

/-- echo `# c` as dumped by the harness -/
def exInline : File :=
  ⟨[.mk (P 0 1 1) (P 0 1 1) (P 10 1 11) Pos.none []
      (.flat (word1 1 ++ [.li (.bsl 1), .li (.bsl 1), .li (.adv 1),
        .sub .backquote false 1 (P 5 1 6) (P 9 1 10) [] [⟨P 6 1 7, 9, [0x20, 0x63]⟩], .li (.adv 1)])) []], []⟩

/-- `#!/bin/sh⏎a # c` as dumped by the harness -/
def exShebang : File :=
  ⟨[.mk (P 10 2 1) (P 10 2 1) (P 11 2 2) Pos.none
      [⟨P 0 1 1, 9, [0x21, 0x2F, 0x62, 0x69, 0x6E, 0x2F, 0x73, 0x68]⟩, ⟨P 12 2 3, 15, [0x20, 0x63]⟩] (.flat (word1 2)) []], []⟩

/-- Pinned (fixed by /repo 48c3159): Minify drops an inline backquote comment, the default
    options keep it. -/
theorem pinned_minify_inline :
    emitted { minify := true } exInline = [] ∧ (emitted {} exInline).length = 1 := by decide

/-- Non-vacuity: with Minify the shebang of `#!/bin/sh⏎a # c` is kept, the other comment is not. -/
example : (emitted { minify := true } exShebang).map (·.pos) = [P 0 1 1] ∧
    (emitted {} exShebang).length = 2 := by decide

end ShVerif.C05
