import ShVerif.Model.C24
import ShVerif.Proofs.C24
/-
  C24 — printf and echo -e format like bash.  Property theorems.

  `formatInto`, `printfBuiltin`, `echoBuiltin` are the model of the Go code (tied to it by the
  harness); `Spec.*` is the description of bash (tied to the real bash by the harness).
-/
namespace ShVerif.C24

/-! ## safety: index panics and the fmt fragment -/

/-- `formatInto` never reaches a Go index/slice panic (`readDigits`' `format[i:i+j]`, `arg[0]` of
    `%c`, `args[0]`, `args[1:]`) and never calls `fmt.Fprintf` outside the modelled fragment —
    for every format, argument list and nil-ness of the argument slice. -/
theorem format_safe (f : Bytes) (args : List Bytes) (argsNil : Bool) :
    ∃ o, formatInto f args argsNil = .obs o :=
  formatInto_obs f args argsNil

/-- The `printf` loop terminates within `len(args)+1` iterations, `args[n:]` never panics; the
    same for `echo`. -/
theorem builtins_safe (ws : List Bytes) :
    (∃ r, printfBuiltin ws = .done r) ∧ (∃ r, echoBuiltin ws = .done r) := by
  constructor
  · cases ws with
    | nil => exact ⟨_, rfl⟩
    | cons fmt args =>
      simp only [printfBuiltin]
      cases he : (formatArgs fmt []).errOf with
      | none =>
        obtain ⟨out, h, _⟩ := printfLoop_reuse fmt he (args.length + 1) args [] (Nat.lt_succ_self _)
        exact ⟨_, h⟩
      | some e => exact ⟨_, printfLoop_err fmt e he _ _ _⟩
  · unfold echoBuiltin
    rcases echoOpts ws true false with ⟨nl, ex, rest⟩
    obtain ⟨b, hb⟩ := echoBody_some ex rest true
    simp only [hb]
    exact ⟨_, rfl⟩

/-! ## format reuse -/

/-- Whether a pass fails is a property of the format alone. -/
theorem error_format_only (fmt : Bytes) (a1 a2 : List Bytes) :
    (formatArgs fmt a1).errOf = (formatArgs fmt a2).errOf :=
  formatArgs_errOf_indep fmt a1 a2

/-- The `printf` builtin: a malformed format gives status 1 and no output at all; otherwise the
    status is 0 and the output is the concatenation of single passes over consecutive chunks of
    the arguments — every argument is consumed (`Reuse.last`/`Reuse.more`: each chunk is used up
    by its pass, `left = 0`), unless the format takes no argument (`Reuse.ignored`, the Go loop's
    `n == 0` exit). -/
theorem reuse_loop (fmt : Bytes) (args : List Bytes) :
    (∃ e, (formatArgs fmt []).errOf = some e ∧ printfBuiltin (fmt :: args) = .done ⟨[], 1⟩) ∨
    ((formatArgs fmt []).errOf = none ∧
      ∃ out, printfBuiltin (fmt :: args) = .done ⟨out, 0⟩ ∧ Reuse fmt args out) := by
  simp only [printfBuiltin]
  cases he : (formatArgs fmt []).errOf with
  | none =>
    right
    obtain ⟨out, h, hr⟩ := printfLoop_reuse fmt he (args.length + 1) args [] (Nat.lt_succ_self _)
    exact ⟨rfl, out, by simpa using h, hr⟩
  | some e => left; exact ⟨e, rfl, printfLoop_err fmt e he _ _ _⟩

/-- Format reuse, one step: when a pass consumed at least one argument and some remain, the format
    is applied again — `printf fmt args` writes what the first pass wrote, followed by exactly
    what `printf fmt <remaining args>` writes. -/
theorem printf_reuse (fmt : Bytes) (args : List Bytes) (out : Bytes) (left : Nat)
    (h : formatArgs fmt args = .ok out left) (h0 : 0 < left) (hl : left < args.length) :
    ∃ out', printfBuiltin (fmt :: args.drop (args.length - left)) = .done ⟨out', 0⟩ ∧
      printfBuiltin (fmt :: args) = .done ⟨out ++ out', 0⟩ :=
  printf_reuse_step fmt args out left h h0 hl

/-- … instantiated for a format that is one well-formed directive: each argument is formatted in
    turn (`printf '%5d' a b c` = `%5d` of `a`, then `printf '%5d' b c`). -/
theorem printf_reuse_directive (d : MDir) (h : d.WF) (a b : Bytes) (rest : List Bytes) :
    ∃ out', printfBuiltin (d.render :: b :: rest) = .done ⟨out', 0⟩ ∧
      printfBuiltin (d.render :: a :: b :: rest) = .done ⟨d.out formatNil a ++ out', 0⟩ := by
  have hfa := formatArgs_directive d h (a :: b :: rest)
  have := printf_reuse_step d.render (a :: b :: rest) _ _ hfa (by simp) (by simp)
  simpa using this

/-- Missing arguments are empty strings (numeric conversions print 0, `%c` a NUL byte): padding
    the argument list with empty strings changes nothing that is written. -/
theorem missing_args (fmt : Bytes) (args : List Bytes) (m : Nat) :
    (formatArgs fmt (args ++ List.replicate m [])).view = (formatArgs fmt args).view :=
  go_missing formatNil nestedOK_formatNil m fmt 0 [] args FmtsOK_nil

/-! ## escape sequences -/

/-- The single-character escapes `\a \b \e \E \f \n \r \t \v \\ \' \" \?`: model and bash
    specification (format-string mode) write the same byte and consume one character, whatever
    follows. -/
theorem escapes_table (p : UInt8 × UInt8) (hp : p ∈ escTable) (rest : Bytes) :
    escape (p.1 :: rest) = some ([p.2], 1) ∧
    Spec.escape .format (p.1 :: rest) = { out := [p.2], used := 1 } := by
  refine ⟨escape_table p hp rest, ?_⟩
  simp only [escTable, List.mem_cons, List.not_mem_nil, or_false] at hp
  rcases hp with h | h | h | h | h | h | h | h | h | h | h | h | h <;> subst h <;>
    simp [Spec.escape, Spec.simpleEscape]

/-- Digit counts of `\nnn`: one to three digit characters are consumed (never a fourth, whatever
    follows) and exactly one byte is written. -/
theorem octal_hex_bounds_octal (c : UInt8) (ds rest : Bytes) (hc : 48 ≤ c ∧ c ≤ 55)
    (hds : ∀ d ∈ ds, 48 ≤ d ∧ d ≤ 57) (hlen : ds.length ≤ 2)
    (hstop : ds.length = 2 ∨ ∀ x r, rest = x :: r → ¬ (48 ≤ x ∧ x ≤ 57)) :
    escape (c :: ds ++ rest) = some ([UInt8.ofNat (parseUint (c :: ds) 8 8).1], ds.length + 1) :=
  escape_octal c ds rest hc hds hlen hstop

/-- The byte of an octal escape with genuine octal digits is its value — capped at 0xff, where
    bash takes the value modulo 256 (finding C24-octal-escape-range). -/
theorem octal_value (ds : Bytes) (hne : ds ≠ []) (h : ∀ d ∈ ds, 48 ≤ d ∧ d ≤ 55) :
    (parseUint ds 8 8).1 = min (foldv 8 ds 0) 255 :=
  parseUint_octal ds hne h

/-- `\xH[H]`: at most two hexadecimal digits, always a single byte; `\uHHHH` / `\UHHHHHHHH`: at most
    4 / 8 digits, written as Go's `WriteRune` encodes the number. -/
theorem octal_hex_bounds_hex (c : UInt8) (hc : c = 120 ∨ c = 117 ∨ c = 85) (ds rest : Bytes)
    (hds : ∀ d ∈ ds, isDigitChar true d = true) (hne : ds ≠ [])
    (hlen : ds.length ≤ (if c = 117 then 4 else if c = 85 then 8 else 2))
    (hstop : ds.length = (if c = 117 then 4 else if c = 85 then 8 else 2) ∨
      ∀ x r, rest = x :: r → isDigitChar true x = false) :
    escape (c :: ds ++ rest) =
      some (if c = 120 then [UInt8.ofNat (foldv 16 ds 0)] else appendRune (foldv 16 ds 0), 1 + ds.length) :=
  escape_hex c hc ds rest hds hne hlen hstop

/-- An escape is processed wherever it stands — even in the middle of a directive. -/
theorem escape_in_loop (n : Option (Bytes → Res)) (rest o : Bytes) (k : Nat) (st : St)
    (h : escape rest = some (o, k)) : go n (92 :: rest) 0 st = (go n rest k st).prepend o :=
  go_escape n rest o k st h

/-! ## directives -/

/-- A directive `%[flag][0…][width]verb` is processed as a unit: it writes `d.out` of the first
    argument (of the empty string when none is left) and the loop continues after it with the
    remaining arguments. -/
theorem directive_sem_step (d : MDir) (h : d.WF) (rest : Bytes) (args : List Bytes) :
    go (some formatNil) (d.render ++ rest) 0 ⟨[], args⟩ =
      (go (some formatNil) rest 0 ⟨[], args.tail⟩).prepend (d.out formatNil (args.headD [])) :=
  go_directive_out formatNil nestedOK_formatNil d h rest args

/-- `%d %i` with any accepted flag, `0` and width (≤ 6 digits): C's rendering of the value. -/
theorem directive_sem_signed (d : MDir) (h : d.WF) (hw : WidthOK d.width)
    (hv : d.verb = 100 ∨ d.verb = 105) (a : Bytes) :
    d.out formatNil a = Spec.fmtSigned d.spec (parseInt a).1 :=
  dir_out_signed formatNil d h hw hv a

/-- `%u %o %x` with flag `-` or none, `0` and width: C's rendering of the value modulo 2^64. -/
theorem directive_sem_unsigned (d : MDir) (h : d.WF) (hw : WidthOK d.width)
    (hv : d.verb = 117 ∨ d.verb = 111 ∨ d.verb = 120) (hfl : d.flag = [] ∨ d.flag = [45]) (a : Bytes) :
    d.out formatNil a = Spec.fmtUnsigned d.spec
      (if d.verb = 111 then 8 else if d.verb = 120 then 16 else 10) (toU64 (parseInt a).1) :=
  dir_out_unsigned formatNil d h hw hv hfl a

/-- `%s` without `0` flag, with no width or an ASCII argument: bash's padding. -/
theorem directive_sem_string (d : MDir) (h : d.WF) (hw : WidthOK d.width) (hv : d.verb = 115)
    (hz : d.zeros = 0) (a : Bytes) (ha : d.width = [] ∨ ∀ b ∈ a, b < 128) :
    d.out formatNil a = (Spec.runDir d.spec a).out := by
  rw [dir_out_string formatNil d h hw hv hz a ha]
  simp [Spec.runDir, MDir.spec, hv]

/-- `%c` without width: the first byte, or NUL — as bash. -/
theorem directive_sem_char (d : MDir) (hv : d.verb = 99) (hw : d.width = []) (a : Bytes) :
    d.out formatNil a = (Spec.runDir d.spec a).out := by
  rw [dir_out_char formatNil d hv a]
  simp [Spec.runDir, MDir.spec, hv, hw, decv, Spec.padTo, Spec.spaces]

/-- Go's `ParseInt(arg, 0, 0)` result is always an int64 (so `int(n)`/`uint(n)` are exact). -/
theorem parse_int_range (a : Bytes) :
    -9223372036854775808 ≤ (parseInt a).1 ∧ (parseInt a).1 ≤ 9223372036854775807 :=
  parseInt_range a

/-- Go's `ParseInt(arg, 0, 0)` and bash's `strtoimax(arg, …, 0)` agree on every argument — false
    (findings C24-invalid-number, C24-go-int-syntax, C24-bash-number-forms). -/
def numeric_arg_statement : Prop :=
  ∀ a : Bytes, (parseInt a).1 = (Spec.signedArg a).val ∧ (Spec.signedArg a).bad = false

/-- … they do agree — value, clamping to the int64 range, no error — on the empty argument and on
    every well-formed C integer literal (`CleanNum`): optional `+`/`-`, then a decimal numeral
    without leading zero, or `0` followed by octal digits, or `0x`/`0X` followed by hexadecimal
    digits; any length.  Outside this region the statement is false: trailing garbage / no digits
    (`finding_invalid_number`), `_` `0b` `0o` (`finding_go_int_syntax`), leading white space and the
    `'c` / `"c` character forms (`finding_bash_number_forms`, `numeric_arg_fails_space`). -/
theorem numeric_arg_partial (a : Bytes) (h : a = [] ∨ CleanNum a) :
    (parseInt a).1 = (Spec.signedArg a).val ∧ (Spec.signedArg a).bad = false := by
  rcases h with h | h
  · subst h; decide
  · exact numeric_arg_clean a h

/-- The same for `%u %o %x`, whose argument Go converts with `uint(n)` and bash parses with
    `strtoumax`: agreement on the literals whose value lies in the int64 range (beyond it:
    `finding_unsigned_range`). -/
theorem numeric_uarg_partial (sign : Bytes) (hs : sign = [] ∨ sign = [43] ∨ sign = [45])
    {body ds : Bytes} {b : Nat} (h : NumBody body b ds)
    (hr : InInt64 (decide (sign = [45])) (foldv b ds 0)) :
    (Spec.unsignedArg (sign ++ body)).val = Int.ofNat (toU64 (parseInt (sign ++ body)).1) ∧
    (Spec.unsignedArg (sign ++ body)).bad = false :=
  unsignedArg_clean sign hs h hr

theorem numeric_arg_fails : ¬ numeric_arg_statement := by
  intro h
  have := (h [49, 50, 97, 98, 99]).1
  revert this
  decide

/-- `printf %d ' 5'`: Go rejects the leading blank (0), bash skips it (5). -/
theorem numeric_arg_fails_space :
    (parseInt [32, 53]).1 = 0 ∧ Spec.signedArg [32, 53] = { val := 5, bad := false } := by decide

/-- `printf %d "'a"`: the character form. -/
theorem numeric_arg_fails_quote :
    (parseInt [39, 97]).1 = 0 ∧ Spec.signedArg [39, 97] = { val := 97, bad := false } := by decide

/-- Every width of at most seven digits satisfies the width hypothesis of the directive theorems;
    the hypothesis itself (`WidthOK`: no proper prefix of the digits exceeds 10^6) is exactly Go's
    `parsenum`/`tooLarge` acceptance — beyond it see `finding_huge_width`. -/
theorem width_ok_seven (ws : Bytes) (hds : ∀ d ∈ ws, isDec d = true) (h : ws.length ≤ 7) : WidthOK ws :=
  widthOK_of_length ws hds h

/-- `%d`/`%i` (any accepted flag, `0`, any width `fmt` accepts) applied to the empty argument or a
    well-formed integer literal: exactly the bytes bash writes, no error status, no stop. -/
theorem directive_sem_partial (d : MDir) (h : d.WF) (hw : WidthOK d.width)
    (hv : d.verb = 100 ∨ d.verb = 105) (a : Bytes) (ha : a = [] ∨ CleanNum a) :
    d.out formatNil a = (Spec.runDir d.spec a).out ∧
    (Spec.runDir d.spec a).bad = false ∧ (Spec.runDir d.spec a).stop = false := by
  obtain ⟨hval, hbad⟩ := numeric_arg_partial a ha
  rw [dir_out_signed formatNil d h hw hv, hval]
  have hvs : d.spec.verb = d.verb := rfl
  rcases hv with hv | hv <;> simp [Spec.runDir, hvs, hv, hbad]

/-- `%u %o %x` (flag `-` or none, `0`, any accepted width) applied to a well-formed literal in the
    int64 range: exactly the bytes bash writes, no error status, no stop. -/
theorem directive_sem_unsigned_partial (d : MDir) (h : d.WF) (hw : WidthOK d.width)
    (hv : d.verb = 117 ∨ d.verb = 111 ∨ d.verb = 120) (hfl : d.flag = [] ∨ d.flag = [45])
    (sign : Bytes) (hs : sign = [] ∨ sign = [43] ∨ sign = [45]) {body ds : Bytes} {b : Nat}
    (hb : NumBody body b ds) (hr : InInt64 (decide (sign = [45])) (foldv b ds 0)) :
    d.out formatNil (sign ++ body) = (Spec.runDir d.spec (sign ++ body)).out ∧
    (Spec.runDir d.spec (sign ++ body)).bad = false ∧ (Spec.runDir d.spec (sign ++ body)).stop = false := by
  obtain ⟨hval, hbad⟩ := unsignedArg_clean sign hs hb hr
  rw [dir_out_unsigned formatNil d h hw hv hfl]
  have hvs : d.spec.verb = d.verb := rfl
  rcases hv with hv | hv | hv <;> simp [Spec.runDir, hvs, hv, hbad, hval]

/-! ## the property itself, and where it fails

  `PrintfLikeBash ws` / `EchoLikeBash ws`: on the words `ws` the model of the builtin writes the
  bytes and returns the status the specification of bash gives.  The full statements (all words
  for which the specification is defined) are false; the theorems `finding_*` are the concrete
  counter-examples, one per recorded finding (same witnesses as corpus/C24-known.txt). -/

def PrintfLikeBash (ws : List Bytes) : Prop :=
  ∀ out st, Spec.printf ws = .res out st → printfBuiltin ws = .done ⟨out, st⟩

def EchoLikeBash (ws : List Bytes) : Prop :=
  ∀ out st, Spec.echo ws = .res out st → echoBuiltin ws = .done ⟨out, st⟩

def printf_like_bash_statement : Prop := ∀ ws, PrintfLikeBash ws
def echo_like_bash_statement : Prop := ∀ ws, EchoLikeBash ws

/-- `printf '%-+5d|' 3` -/
theorem finding_multi_flags :
    printfBuiltin [[37,45,43,53,100,124],[51]] = .done ⟨[], 1⟩ ∧
    Spec.printf [[37,45,43,53,100,124],[51]] = .res [43,51,32,32,32,124] 0 := by decide
/-- `printf %d 12abc` -/
theorem finding_invalid_number :
    printfBuiltin [[37,100],[49,50,97,98,99]] = .done ⟨[48], 0⟩ ∧
    Spec.printf [[37,100],[49,50,97,98,99]] = .res [49,50] 1 := by decide
/-- `printf %d 1_000` -/
theorem finding_go_int_syntax :
    printfBuiltin [[37,100],[49,95,48,48,48]] = .done ⟨[49,48,48,48], 0⟩ ∧
    Spec.printf [[37,100],[49,95,48,48,48]] = .res [49] 1 := by decide
/-- `printf %d "'a"` -/
theorem finding_bash_number_forms :
    printfBuiltin [[37,100],[39,97]] = .done ⟨[48], 0⟩ ∧
    Spec.printf [[37,100],[39,97]] = .res [57,55] 0 := by decide
/-- `printf %u 18446744073709551615` -/
theorem finding_unsigned_range :
    printfBuiltin [[37,117],[49,56,52,52,54,55,52,52,48,55,51,55,48,57,53,53,49,54,49,53]] =
      .done ⟨[57,50,50,51,51,55,50,48,51,54,56,53,52,55,55,53,56,48,55], 0⟩ ∧
    Spec.printf [[37,117],[49,56,52,52,54,55,52,52,48,55,51,55,48,57,53,53,49,54,49,53]] =
      .res [49,56,52,52,54,55,52,52,48,55,51,55,48,57,53,53,49,54,49,53] 0 := by decide
/-- `printf '%+u|' 5` -/
theorem finding_unsigned_sign_flag :
    printfBuiltin [[37,43,117,124],[53]] = .done ⟨[43,53,124], 0⟩ ∧
    Spec.printf [[37,43,117,124],[53]] = .res [53,124] 0 := by decide
/-- `printf '%5c|' a` -/
theorem finding_width_ignored_c_b :
    printfBuiltin [[37,53,99,124],[97]] = .done ⟨[97,124], 0⟩ ∧
    Spec.printf [[37,53,99,124],[97]] = .res [32,32,32,32,97,124] 0 := by decide
/-- `printf '%05s|' ab` -/
theorem finding_zero_flag_string :
    printfBuiltin [[37,48,53,115,124],[97,98]] = .done ⟨[48,48,48,97,98,124], 0⟩ ∧
    Spec.printf [[37,48,53,115,124],[97,98]] = .res [32,32,32,97,98,124] 0 := by decide
/-- `printf '%5s|' é` -/
theorem finding_width_counts_runes :
    printfBuiltin [[37,53,115,124],[0xc3,0xa9]] = .done ⟨[32,32,32,32,0xc3,0xa9,124], 0⟩ ∧
    Spec.printf [[37,53,115,124],[0xc3,0xa9]] = .res [32,32,32,0xc3,0xa9,124] 0 := by decide
/-- `printf '\400'` -/
theorem finding_octal_escape_range :
    printfBuiltin [[92,52,48,48]] = .done ⟨[255], 0⟩ ∧ Spec.printf [[92,52,48,48]] = .res [0] 0 := by decide
/-- `printf '\18'` -/
theorem finding_octal_escape_89 :
    printfBuiltin [[92,49,56]] = .done ⟨[0], 0⟩ ∧ Spec.printf [[92,49,56]] = .res [1,56] 0 := by decide
/-- `printf %b '\0123'` -/
theorem finding_b_octal_zero :
    printfBuiltin [[37,98],[92,48,49,50,51]] = .done ⟨[10,51], 0⟩ ∧
    Spec.printf [[37,98],[92,48,49,50,51]] = .res [83] 0 := by decide
/-- `printf %b 'a\cb' x` -/
theorem finding_backslash_c :
    printfBuiltin [[37,98],[97,92,99,98],[120]] = .done ⟨[97,92,99,98,120], 0⟩ ∧
    Spec.printf [[37,98],[97,92,99,98],[120]] = .res [97] 0 := by decide
/-- `echo -e 'a\cb'` -/
theorem finding_echo_backslash_c :
    echoBuiltin [[45,101],[97,92,99,98]] = .done ⟨[97,92,99,98,10], 0⟩ ∧
    Spec.echo [[45,101],[97,92,99,98]] = .res [97] 0 := by decide
/-- `printf %b "\\'"` -/
theorem finding_b_quote_escapes :
    printfBuiltin [[37,98],[92,39]] = .done ⟨[39], 0⟩ ∧
    Spec.printf [[37,98],[92,39]] = .res [92,39] 0 := by decide
/-- `echo -e "\\'"` -/
theorem finding_echo_quote_escapes :
    echoBuiltin [[45,101],[92,39]] = .done ⟨[39,10], 0⟩ ∧
    Spec.echo [[45,101],[92,39]] = .res [92,39,10] 0 := by decide
/-- `echo -e '\0123'` -/
theorem finding_echo_octal_zero :
    echoBuiltin [[45,101],[92,48,49,50,51]] = .done ⟨[10,51,10], 0⟩ ∧
    Spec.echo [[45,101],[92,48,49,50,51]] = .res [83,10] 0 := by decide
/-- `echo -e '\123'` -/
theorem finding_echo_octal_nonzero :
    echoBuiltin [[45,101],[92,49,50,51]] = .done ⟨[83,10], 0⟩ ∧
    Spec.echo [[45,101],[92,49,50,51]] = .res [92,49,50,51,10] 0 := by decide
/-- `echo -ne 'a\n'` -/
theorem finding_echo_combined_options :
    echoBuiltin [[45,110,101],[97,92,110]] = .done ⟨[45,110,101,32,97,92,110,10], 0⟩ ∧
    Spec.echo [[45,110,101],[97,92,110]] = .res [97,10] 0 := by decide
/-- `echo -e -E 'a\tb'` -/
theorem finding_echo_big_e :
    echoBuiltin [[45,101],[45,69],[97,92,116,98]] = .done ⟨[97,9,98,10], 0⟩ ∧
    Spec.echo [[45,101],[45,69],[97,92,116,98]] = .res [97,92,116,98,10] 0 := by decide
/-- `printf '\%d|' 5` -/
theorem finding_backslash_percent :
    printfBuiltin [[92,37,100,124],[53]] = .done ⟨[92,37,100,124], 0⟩ ∧
    Spec.printf [[92,37,100,124],[53]] = .res [92,53,124] 0 := by decide
/-- `printf '\ud800'` -/
theorem finding_unicode_invalid :
    printfBuiltin [[92,117,100,56,48,48]] = .done ⟨[0xef,0xbf,0xbd], 0⟩ ∧
    Spec.printf [[92,117,100,56,48,48]] = .res [0xed,0xa0,0x80] 0 := by decide
/-- `printf -- %s a` -/
theorem finding_no_option_parsing :
    printfBuiltin [[45,45],[37,115],[97]] = .done ⟨[45,45], 0⟩ ∧
    Spec.printf [[45,45],[37,115],[97]] = .res [97] 0 := by decide
/-- `printf '%10000010d' 1`: Go's fmt gives up on the width (the bash side, ten million spaces, is
    not evaluated here). -/
theorem finding_huge_width :
    printfBuiltin [[37,49,48,48,48,48,48,49,48,100],[49]] =
      .done ⟨[37,33,40,78,79,86,69,82,66,41,37,33,40,69,88,84,82,65,32,105,110,116,61,49,41], 0⟩ := by decide

/-- The property as stated (all words) does not hold of the model. -/
theorem printf_like_bash_fails : ¬ printf_like_bash_statement := by
  intro h
  have := h [[37,45,43,53,100,124],[51]] _ _ finding_multi_flags.2
  rw [finding_multi_flags.1] at this
  exact absurd this (by decide)

theorem echo_like_bash_fails : ¬ echo_like_bash_statement := by
  intro h
  have := h [[45,110,101],[97,92,110]] _ _ finding_echo_combined_options.2
  rw [finding_echo_combined_options.1] at this
  exact absurd this (by decide)

/-! Non-vacuity -/
example : printfBuiltin [[37, 100, 95], [49], [50], [51]] = .done ⟨[49, 95, 50, 95, 51, 95], 0⟩ := by decide
example : Reuse [37, 100, 95] [[49], [50]] [49, 95, 50, 95] :=
  Reuse.more [[49]] [[50]] [49, 95] [50, 95] (by decide) (by decide) (by decide) (Reuse.last _ _ (by decide))
example : (formatArgs [37] []).errOf = some .missingChar := by decide
example : formatArgs [37, 99, 37, 100] [] = .ok [0, 48] 0 := by decide

example : PrintfLikeBash [[37, 48, 50, 100, 32, 37, 120, 10], [49], [50, 53, 53], [51]] := by
  intro out st h
  have h' : Spec.printf [[37, 48, 50, 100, 32, 37, 120, 10], [49], [50, 53, 53], [51]] =
      .res [48, 49, 32, 102, 102, 10, 48, 51, 32, 48, 10] 0 := by decide
  rw [h'] at h; cases h; decide
example : EchoLikeBash [[45, 101], [97, 92, 116, 98], [92, 120, 52, 49]] := by
  intro out st h
  have h' : Spec.echo [[45, 101], [97, 92, 116, 98], [92, 120, 52, 49]] = .res [97, 9, 98, 32, 65, 10] 0 := by
    decide
  rw [h'] at h; cases h; decide
example : CleanNum [45, 48, 120, 49, 70] :=
  ⟨[45], [48, 120, 49, 70], 16, [49, 70], Or.inr (Or.inr rfl), NumBody.hex 120 [49, 70] (Or.inl rfl) (by decide) (by decide), rfl⟩
example : CleanNum [48, 49, 55] := ⟨[], [48, 49, 55], 8, [49, 55], Or.inl rfl, NumBody.oct [49, 55] (by decide), rfl⟩
example : WidthOK [49, 48, 48, 48, 48, 48, 48, 57] := by simp [WidthOK, PrefixOK]
example : ¬ WidthOK [49, 48, 48, 48, 48, 48, 49, 48] := by simp [WidthOK, PrefixOK]
example : (⟨[45], 0, [53], 100⟩ : MDir).WF := ⟨by simp, by decide, by simp, by decide⟩

end ShVerif.C24
