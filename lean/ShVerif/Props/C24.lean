import ShVerif.Model.C24
import ShVerif.Proofs.C24
/-
  C24 — printf and echo -e format like bash.  Property theorems.

  `formatInto`, `printfBuiltin`, `echoBuiltin` are the model of the Go code (tied to it by the
  harness); `Spec.*` is the description of bash (tied to the real bash by the harness).
-/
namespace ShVerif.C24

/-! ## safety: index panics and the fmt fragment -/

/-- `formatInto` never reaches a Go index/slice panic (`readDigits`' `format[i:i+j]`, `arg[0]` of
    `%c`, `args[0]`, `args[1:]`) and never calls `fmt.Fprintf` outside the modelled fragment —
    for every format, argument list and nil-ness of the argument slice. -/
theorem format_safe (f : Bytes) (args : List Bytes) (argsNil : Bool) :
    ∃ o, formatInto f args argsNil = .obs o :=
  formatInto_obs f args argsNil

/-- The `printf` loop terminates within `len(args)+1` iterations, `args[n:]` never panics; the
    same for `echo`. -/
theorem builtins_safe (ws : List Bytes) :
    (∃ r, printfBuiltin ws = .done r) ∧ (∃ r, echoBuiltin ws = .done r) := by
  constructor
  · cases ws with
    | nil => exact ⟨_, rfl⟩
    | cons fmt args =>
      simp only [printfBuiltin]
      cases he : (formatArgs fmt []).errOf with
      | none =>
        obtain ⟨out, h, _⟩ := printfLoop_reuse fmt he (args.length + 1) args [] (Nat.lt_succ_self _)
        exact ⟨_, h⟩
      | some e => exact ⟨_, printfLoop_err fmt e he _ _ _⟩
  · unfold echoBuiltin
    rcases echoOpts ws true false with ⟨nl, ex, rest⟩
    obtain ⟨b, hb⟩ := echoBody_some ex rest true
    simp only [hb]
    exact ⟨_, rfl⟩

/-! ## format reuse -/

/-- Whether a pass fails is a property of the format alone. -/
theorem error_format_only (fmt : Bytes) (a1 a2 : List Bytes) :
    (formatArgs fmt a1).errOf = (formatArgs fmt a2).errOf :=
  formatArgs_errOf_indep fmt a1 a2

/-- The `printf` builtin: a malformed format gives status 1 and no output at all; otherwise the
    status is 0 and the output is the concatenation of single passes over consecutive chunks of
    the arguments — every argument is consumed (`Reuse.last`/`Reuse.more`: each chunk is used up
    by its pass, `left = 0`), unless the format takes no argument (`Reuse.ignored`, the Go loop's
    `n == 0` exit). -/
theorem reuse_loop (fmt : Bytes) (args : List Bytes) :
    (∃ e, (formatArgs fmt []).errOf = some e ∧ printfBuiltin (fmt :: args) = .done ⟨[], 1⟩) ∨
    ((formatArgs fmt []).errOf = none ∧
      ∃ out, printfBuiltin (fmt :: args) = .done ⟨out, 0⟩ ∧ Reuse fmt args out) := by
  simp only [printfBuiltin]
  cases he : (formatArgs fmt []).errOf with
  | none =>
    right
    obtain ⟨out, h, hr⟩ := printfLoop_reuse fmt he (args.length + 1) args [] (Nat.lt_succ_self _)
    exact ⟨rfl, out, by simpa using h, hr⟩
  | some e => left; exact ⟨e, rfl, printfLoop_err fmt e he _ _ _⟩

/-- Missing arguments are empty strings (numeric conversions print 0, `%c` a NUL byte): padding
    the argument list with empty strings changes nothing that is written. -/
theorem missing_args (fmt : Bytes) (args : List Bytes) (m : Nat) :
    (formatArgs fmt (args ++ List.replicate m [])).view = (formatArgs fmt args).view :=
  go_missing formatNil nestedOK_formatNil m fmt 0 [] args FmtsOK_nil

/-! Non-vacuity -/
example : printfBuiltin [[37, 100, 95], [49], [50], [51]] = .done ⟨[49, 95, 50, 95, 51, 95], 0⟩ := by decide
example : Reuse [37, 100, 95] [[49], [50]] [49, 95, 50, 95] :=
  Reuse.more [[49]] [[50]] [49, 95] [50, 95] (by decide) (by decide) (by decide) (Reuse.last _ _ (by decide))
example : (formatArgs [37] []).errOf = some .missingChar := by decide
example : formatArgs [37, 99, 37, 100] [] = .ok [0, 48] 0 := by decide

end ShVerif.C24
