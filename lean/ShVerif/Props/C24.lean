import ShVerif.Model.C24
import ShVerif.Proofs.C24
/-
  C24 — printf and echo -e format like bash.  Property theorems.
-/
namespace ShVerif.C24

/-- placeholder while the obligations are being written -/
theorem smoke : formatInto [37, 100] [[53]] false = .obs { out := [53], consumed := 1, err := none } := by
  decide

end ShVerif.C24
