import ShVerif.Model.C14
import ShVerif.Gen.C14
import ShVerif.Proofs.C14
/-
  C14 — Walk and Preorder visit every node exactly once.

  Part A: obligations about the table regenerated from /repo/syntax/{walk,nodes}.go on every run
          (`decide` over the complete table).
  Part B: generic theorems about `walk` for every table, every tree and every callback.
  Part C: the two combined for the real table.
-/
namespace ShVerif.C14
open ShVerif.Gen.C14

/-- Node types for which Walk deliberately has no case: the parser never produces them
    (BraceExp only appears after expand.Braces / syntax.SplitBraces). -/
def notProduced : List String := ["BraceExp"]

/-! ### Part A — regenerated table obligations -/

/-- Every Walk case touches each exported Node-holding field of its type exactly once, with the
    right helper for lists/single fields and only self- or prefix-guards. -/
theorem walk_fields_complete :
    schema.all (fun ti => if ti.instrs.isSome then caseComplete ti else notProduced.contains ti.name) = true := by
  decide +kernel

/-- No child is walked after the node's own f(nil). -/
theorem walk_no_defer : schema.all noDefer = true := by
  decide +kernel

/-- The frame of Walk: entry check first, exactly one trailing f(nil), a panicking default,
    no case for a non-node type, nothing else. -/
theorem walk_frame :
    walkEntryCheck = true ∧ walkNilCalls = 1 ∧ walkFrameOther = [] ∧ walkDefault = "panic" ∧ extraCases = [] := by
  decide +kernel

/-! ### Part B — generic theorems -/

/-- With a callback that always returns true, every node of a well-formed tree is entered
    exactly once (the entered ids are a permutation of all node ids) and Walk does not panic. -/
theorem walk_visits_once (tbl : Table) (nslots : Nat → Nat) (hc : TableComplete tbl nslots)
    (t : Tree) (hwf : wf tbl t = true) (hb : bounded nslots t = true) :
    (enters (walk tbl (fun _ => true) t)).Perm (allIds t) ∧ Ev.panic ∉ walk tbl (fun _ => true) t := by
  sorry

/-- For every callback: the nodes entered are exactly those whose proper ancestors were all kept
    (returning false at a node skips exactly its descendants). -/
theorem walk_prune (tbl : Table) (nslots : Nat → Nat) (hc : TableComplete tbl nslots)
    (keep : Nat → Bool) (t : Tree) (hwf : wf tbl t = true) (hb : bounded nslots t = true) :
    (enters (walk tbl keep t)).Perm (visible keep t) := by
  sorry

/-- For every callback the callbacks are well bracketed: each kept node's `f(nil)` comes exactly
    once, after all events of its children; a pruned node gets no `f(nil)`. -/
theorem walk_brackets (tbl : Table) (hnd : NoDefer tbl) (keep : Nat → Bool) (t : Tree)
    (hwf : wf tbl t = true) : wellBracketed keep (walk tbl keep t) = true := by
  sorry

/-- Parent before children: the first event of a walk is the entry of the root. -/
theorem walk_parent_first (tbl : Table) (keep : Nat → Bool) (t : Tree) :
    (walk tbl keep t).head? = some (.enter t.id) := by
  sorry

/-- Preorder yields a prefix of Walk's sequence and never more than the consumer asked for. -/
theorem preorder_prefix (tbl : Table) (t : Tree) (n : Nat) :
    preorder tbl t n <+: enters (walk tbl (fun _ => true) t) ∧ (preorder tbl t n).length ≤ n := by
  sorry

/-! ### Part C — the real table -/

/-- A schema whose cases are all complete gives a complete table. -/
theorem tableOf_complete (sch : List TypeInfo)
    (h : sch.all (fun ti => if ti.instrs.isSome then caseComplete ti else true) = true) :
    TableComplete (tableOf sch) (nslotsOf sch) := by
  sorry

theorem tableOf_noDefer (sch : List TypeInfo) (h : sch.all noDefer = true) : NoDefer (tableOf sch) := by
  sorry

/-- The property for the code as it is now: for every tree over the current node schema that is
    well-formed (what the harness checks of every tree the Go parser returns). -/
theorem real_walk_visits_once (t : Tree) (hwf : wf (tableOf schema) t = true)
    (hb : bounded (nslotsOf schema) t = true) :
    (enters (walk (tableOf schema) (fun _ => true) t)).Perm (allIds t)
      ∧ Ev.panic ∉ walk (tableOf schema) (fun _ => true) t
      ∧ ∀ keep, wellBracketed keep (walk (tableOf schema) keep t) = true
          ∧ (enters (walk (tableOf schema) keep t)).Perm (visible keep t) := by
  sorry

end ShVerif.C14
