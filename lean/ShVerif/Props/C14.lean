import ShVerif.Model.C14
import ShVerif.Gen.C14
import ShVerif.Proofs.C14
/-
  C14 — Walk and Preorder visit every node exactly once.

  Part A: obligations about the table regenerated from /repo/syntax/{walk,nodes}.go on every run
          (`decide` over the complete table).
  Part B: generic theorems about `walk` for every table, every tree and every callback.
  Part C: the two combined for the real table.
-/
namespace ShVerif.C14
open ShVerif.Gen.C14

/-- Node types for which Walk deliberately has no case: the parser never produces them
    (BraceExp only appears after expand.Braces / syntax.SplitBraces). -/
def notProduced : List String := ["BraceExp"]

/-! ### Part A — regenerated table obligations -/

/-- Every Walk case touches each exported Node-holding field of its type exactly once, with the
    right helper for lists/single fields and only self- or prefix-guards. -/
theorem walk_fields_complete :
    schema.all (fun ti => if ti.instrs.isSome then caseComplete ti else notProduced.contains ti.name) = true := by
  decide +kernel

/-- No child is walked after the node's own f(nil). -/
theorem walk_no_defer : schema.all noDefer = true := by
  decide +kernel

/-- The frame of Walk: entry check first, exactly one trailing f(nil), a panicking default,
    no case for a non-node type, nothing else. -/
theorem walk_frame :
    walkEntryCheck = true ∧ walkNilCalls = 1 ∧ walkFrameOther = [] ∧ walkDefault = "panic" ∧ extraCases = [] := by
  decide +kernel

/-! ### Part B — generic theorems -/

/-- With a callback that always returns true, every node of a well-formed tree is entered
    exactly once (the entered ids are a permutation of all node ids) and Walk does not panic. -/
theorem walk_visits_once (tbl : Table) (nslots : Nat → Nat) (hc : TableComplete tbl nslots)
    (t : Tree) (hwf : wf tbl t = true) (hb : bounded nslots t = true) :
    (enters (walk tbl (fun _ => true) t)).Perm (allIds t) ∧ Ev.panic ∉ walk tbl (fun _ => true) t := by
  refine ⟨?_, nopanic_tree tbl _ t hwf⟩
  rw [← visible_true t]
  exact prune_tree tbl nslots hc _ t hwf hb

/-- For every callback: the nodes entered are exactly those whose proper ancestors were all kept
    (returning false at a node skips exactly its descendants). -/
theorem walk_prune (tbl : Table) (nslots : Nat → Nat) (hc : TableComplete tbl nslots)
    (keep : Nat → Bool) (t : Tree) (hwf : wf tbl t = true) (hb : bounded nslots t = true) :
    (enters (walk tbl keep t)).Perm (visible keep t) := by
  exact prune_tree tbl nslots hc keep t hwf hb

/-- For every callback the callbacks are well bracketed: each kept node's `f(nil)` comes exactly
    once, after all events of its children; a pruned node gets no `f(nil)`. -/
theorem walk_brackets (tbl : Table) (hnd : NoDefer tbl) (keep : Nat → Bool) (t : Tree)
    (hwf : wf tbl t = true) : wellBracketed keep (walk tbl keep t) = true := by
  have h := balanced_tree tbl hnd keep t hwf []
  unfold run at h
  unfold wellBracketed
  rw [h]; rfl

/-- Parent before children: the first event of a walk is the entry of the root. -/
theorem walk_parent_first (tbl : Table) (keep : Nat → Bool) (t : Tree) :
    (walk tbl keep t).head? = some (.enter t.id) := by
  cases t with
  | node ty id sl fl kids =>
    rw [walk_node]
    simp only [Tree.id]
    split
    · rfl
    · split <;> rfl

/-- Preorder yields a prefix of Walk's sequence and never more than the consumer asked for. -/
theorem preorder_prefix (tbl : Table) (t : Tree) (n : Nat) :
    preorder tbl t n <+: enters (walk tbl (fun _ => true) t) ∧ (preorder tbl t n).length ≤ n := by
  unfold preorder
  exact ⟨List.take_prefix _ _, by simp [List.length_take]; omega⟩

/-! ### Part C — the real table -/

/-- A schema whose cases are all complete gives a complete table. -/
theorem tableOf_complete (sch : List TypeInfo)
    (h : sch.all (fun ti => if ti.instrs.isSome then caseComplete ti else true) = true) :
    TableComplete (tableOf sch) (nslotsOf sch) := by
  intro ty instrs htbl
  obtain ⟨ti, hty, hmem, hres⟩ := tableOf_some sch ty instrs htbl
  obtain ⟨l, hl⟩ := resolve_some ti instrs hres
  have hcc := List.all_eq_true.mp h ti hmem
  simp only [hl, Option.isSome_some, if_true] at hcc
  unfold caseComplete at hcc
  simp only [hl, hres, Bool.and_eq_true] at hcc
  have hp := List.isPerm_iff.mp hcc.1
  simpa [nslotsOf, hty] using hp

theorem tableOf_noDefer (sch : List TypeInfo) (h : sch.all noDefer = true) : NoDefer (tableOf sch) := by
  intro ty instrs htbl i hi hop
  obtain ⟨ti, _, hmem, hres⟩ := tableOf_some sch ty instrs htbl
  obtain ⟨l, hl⟩ := resolve_some ti instrs hres
  have hnd := List.all_eq_true.mp h ti hmem
  unfold noDefer at hnd
  simp only [hl] at hnd
  unfold resolve at hres
  simp only [hl] at hres
  obtain ⟨⟨op, f, g⟩, hx, hfx⟩ := mapM_some_mem _ l instrs hres i hi
  have hne := List.all_eq_true.mp hnd _ hx
  simp only [bne_iff_ne, ne_eq] at hne
  cases ho : opOfString op with
  | none => simp [ho] at hfx
  | some o =>
    simp only [ho, Option.some.injEq] at hfx
    subst hfx
    simp only at hop
    split at hop
    · cases hop
    · subst hop
      exact hne (opOfString_defer op ho)

/-- The property for the code as it is now: for every tree over the current node schema that is
    well-formed (what the harness checks of every tree the Go parser returns). -/
theorem real_walk_visits_once (t : Tree) (hwf : wf (tableOf schema) t = true)
    (hb : bounded (nslotsOf schema) t = true) :
    (enters (walk (tableOf schema) (fun _ => true) t)).Perm (allIds t)
      ∧ Ev.panic ∉ walk (tableOf schema) (fun _ => true) t
      ∧ ∀ keep, wellBracketed keep (walk (tableOf schema) keep t) = true
          ∧ (enters (walk (tableOf schema) keep t)).Perm (visible keep t) := by
  have hc : TableComplete (tableOf schema) (nslotsOf schema) := by
    apply tableOf_complete
    have h := walk_fields_complete
    rw [List.all_eq_true] at h ⊢
    intro ti hti
    have := h ti hti
    split
    · next hs => simpa [hs] using this
    · rfl
  have hnd : NoDefer (tableOf schema) := tableOf_noDefer schema walk_no_defer
  obtain ⟨h1, h2⟩ := walk_visits_once _ _ hc t hwf hb
  exact ⟨h1, h2, fun keep => ⟨walk_brackets _ hnd keep t hwf, walk_prune _ _ hc keep t hwf hb⟩⟩

end ShVerif.C14
