import ShVerif.Proofs.C12
/-
  C12 — parser acceptance agrees with the real shells, at token level.

  `parse c` is the model of syntax/parser.go's statement parser with rule variants `c`
  (`accepts l = parse (goCfg l)` is the Go code, tied on every run);
  `Derives c` is the shell grammar with the same rule variants
  (`Derives (shCfg l)` is the grammar of bash / dash, validated against `bash -n` / `dash -n`).
-/
namespace ShVerif.C12
open Tok

/-! ### The property itself and where it fails on the unchanged tree -/

/-- C12 as stated: the Go parser accepts exactly the token lists of the shell's grammar. -/
def agree_statement (l : Lang) : Prop :=
  ∀ ts, accepts l ts = true ↔ Derives (shCfg l) .program .closed ts

/-- The same at the level of the two recognisers. -/
def agree_recognisers_statement (l : Lang) : Prop :=
  ∀ ts, accepts l ts = shellAccepts l ts

/-- Soundness of the recogniser, for every rule-variant vector and every token list: what the
    model parser accepts is a program of the grammar with the same rule variants. -/
theorem sound (c : Cfg) (ts : List Tok) (h : parse c ts = true) : Derives c .program .closed ts :=
  parseWith_sound h

/-- In particular: whatever the Go parser (model) accepts is derivable in the grammar with Go's
    rule variants. -/
theorem accepts_sound (l : Lang) (ts : List Tok) (h : accepts l ts = true) :
    Derives (goCfg l) .program .closed ts := sound _ _ h

/-- Completeness of the recogniser for every rule-variant vector (not proved yet). -/
def complete_statement : Prop :=
  ∀ c ts, Derives c .program .closed ts → parse c ts = true

/-- Known finding C12-else-in-command-*: `else` / `in` as command names. -/
theorem else_in_accepted_by_go_only :
    accepts .bash [kElse] = true ∧ shellAccepts .bash [kElse] = false ∧
    accepts .posix [kIn] = true ∧ shellAccepts .posix [kIn] = false := by decide

/-- Known finding C12-reserved-after-redirect-*: `> a then`, `> a fi`. -/
theorem reserved_after_redirect_rejected_by_go_only :
    accepts .bash [io, word, kThen] = false ∧ shellAccepts .bash [io, word, kThen] = true ∧
    accepts .posix [io, word, kFi] = false ∧ shellAccepts .posix [io, word, kFi] = true := by decide

/-- Known findings C12-func-body-*: `a ( ) a` (bash), `a ( ) ! a` (dash). -/
theorem function_body_accepted_by_go_only :
    accepts .bash [word, lparen, rparen, word] = true ∧
    shellAccepts .bash [word, lparen, rparen, word] = false ∧
    accepts .posix [word, lparen, rparen, bang, word] = true ∧
    shellAccepts .posix [word, lparen, rparen, bang, word] = false := by decide

/-- Known finding C12-for-assign-posix: `for x=1 in a ; do a ; done`. -/
theorem for_assign_accepted_by_go_only :
    accepts .posix [kFor, assign, kIn, word, semi, kDo, word, semi, kDone] = true ∧
    shellAccepts .posix [kFor, assign, kIn, word, semi, kDo, word, semi, kDone] = false := by
  decide +kernel

/-- Documented difference (flipConfirm(LangBash) in syntax/parser_test.go): bash allows a lone or
    repeated `!`, the Go parser does not. -/
theorem bash_lone_bang_is_a_documented_difference :
    accepts .bash [bang] = false ∧ shellAccepts .bash [bang] = true ∧
    accepts .bash [bang, bang, word] = false ∧ shellAccepts .bash [bang, bang, word] = true := by decide

/-- The recogniser-level property is false for both languages. -/
theorem agree_recognisers_false (l : Lang) : ¬ agree_recognisers_statement l := by
  intro h
  cases l
  · have := h [kElse]; revert this; decide
  · have := h [kIn]; revert this; decide

/-- Non-vacuity: the model accepts ordinary programs, in both variants. -/
example : accepts .bash [kIf, word, semi, kThen, word, semi, kFi] = true := by decide +kernel
example : accepts .posix [kCase, word, kIn, word, rparen, word, dsemi, kEsac] = true := by decide +kernel
example : shellAccepts .bash [word, lparen, rparen, lbrace, word, semi, rbrace] = true := by decide +kernel
example : Derives (shCfg .posix) .program .closed [word] :=
  .program (.l_last (.stmt (.b_plain (.pipeline (.c_simple (pre := []) .nil (by decide) .nil) .p_nil)) .t_nil) (by simp [startOK]))

end ShVerif.C12
