import ShVerif.Proofs.C12Variants
/-
  C12 — parser acceptance agrees with the real shells, at token level.

  `parse c` is the model of syntax/parser.go's statement parser with rule variants `c`
  (`accepts l = parse (goCfg l)` is the Go code, tied on every run);
  `Derives c` is the shell grammar with the same rule variants
  (`Derives (shCfg l)` is the grammar of bash / dash, validated against `bash -n` / `dash -n`).
-/
namespace ShVerif.C12
open Tok

/-! ### The property itself and where it fails on the unchanged tree -/

/-- C12 as stated: the Go parser accepts exactly the token lists of the shell's grammar. -/
def agree_statement (l : Lang) : Prop :=
  ∀ ts, accepts l ts = true ↔ Derives (shCfg l) .program .closed ts

/-- The same at the level of the two recognisers. -/
def agree_recognisers_statement (l : Lang) : Prop :=
  ∀ ts, accepts l ts = shellAccepts l ts

/-! ### Parser = grammar, for every rule-variant vector and every token list -/

/-- Soundness of the recogniser: what the model parser accepts is a program of the grammar with
    the same rule variants. -/
theorem sound (c : Cfg) (ts : List Tok) (h : parse c ts = true) : Derives c .program .closed ts :=
  parseWith_sound h

/-- Completeness of the recogniser: every program of the grammar is accepted, with the fuel
    `fuelFor ts` the model uses. -/
theorem complete (c : Cfg) (ts : List Tok) (h : Derives c .program .closed ts) : parse c ts = true :=
  parse_complete h

/-- The fuel is no restriction: any larger fuel gives the same answer (no token list makes the
    parser run out of fuel or need more than `8·|ts| + 8` steps of call depth). -/
theorem fuel_sufficient (c : Cfg) (ts : List Tok) (f : Nat) (hf : fuelFor ts ≤ f) :
    parseWith c f ts = parse c ts := by
  cases hp : parse c ts with
  | true => exact parseWith_complete (by simp [fuelFor] at hf; omega) (sound c ts hp)
  | false =>
    cases hw : parseWith c f ts with
    | false => rfl
    | true => rw [complete c ts (parseWith_sound hw)] at hp; cases hp

/-- The Go parser (model) accepts exactly the grammar with Go's rule variants. -/
theorem accepts_iff_go_grammar (l : Lang) (ts : List Tok) :
    accepts l ts = true ↔ Derives (goCfg l) .program .closed ts :=
  ⟨sound _ ts, complete _ ts⟩

/-- `shellAccepts` decides the shells' grammar (this is what `bash -n` / `dash -n` validate). -/
theorem shellAccepts_iff_shell_grammar (l : Lang) (ts : List Tok) :
    shellAccepts l ts = true ↔ Derives (shCfg l) .program .closed ts :=
  ⟨sound _ ts, complete _ ts⟩

/-- Closed under mutations: the equivalence holds for the result of any edit (insertion, deletion,
    swap, replacement …) of any token list, since it holds for all token lists. -/
theorem mutations_closed (c : Cfg) (edit : List Tok → List Tok) (ts : List Tok) :
    parse c (edit ts) = true ↔ Derives c .program .closed (edit ts) :=
  ⟨sound _ _, complete _ _⟩

/-! ### The property itself and where it fails on the unchanged tree -/

/-- C12 restricted to the token lists on which the rule variants that separate the Go parser
    from the shell (the known findings and the documented `!` difference) do not change the
    parser's answer. -/
theorem agree_partial (l : Lang) (ts : List Tok)
    (h : parse (goCfg l) ts = parse (shCfg l) ts) :
    accepts l ts = true ↔ Derives (shCfg l) .program .closed ts := by
  unfold accepts
  rw [h]
  exact ⟨sound _ ts, complete _ ts⟩

/-! The same, finding by finding: the rule variants are switched from Go's value to the shell's one
    at a time; each hypothesis says that one open finding (or the documented `!` difference) does
    not change the parser's answer on `ts`. -/

/-- Go's parser with the findings fixed one after the other (`k` of them), in the order
    C12-else-in-command, C12-reserved-after-redirect, C12-closer-after-redirect, C12-func-body,
    then C12-for-assign-posix (POSIX) / the documented lone-`!` difference (Bash). -/
def fixedCfg (l : Lang) : Nat → Cfg
  | 0 => goCfg l
  | 1 => { goCfg l with elseInCmd := false }
  | 2 => { goCfg l with elseInCmd := false, rsrvAfterIO := false }
  | 3 => { goCfg l with elseInCmd := false, rsrvAfterIO := false, closerAfterRedir := false }
  | 4 => { goCfg l with elseInCmd := false, rsrvAfterIO := false, closerAfterRedir := false,
                        fnBody := (shCfg l).fnBody }
  | _ => shCfg l

theorem agree_partial_by_finding (l : Lang) (ts : List Tok)
    (h_else_in_command : parse (fixedCfg l 0) ts = parse (fixedCfg l 1) ts)
    (h_reserved_after_redirect : parse (fixedCfg l 1) ts = parse (fixedCfg l 2) ts)
    (h_closer_after_redirect : parse (fixedCfg l 2) ts = parse (fixedCfg l 3) ts)
    (h_func_body : parse (fixedCfg l 3) ts = parse (fixedCfg l 4) ts)
    (h_for_assign_or_lone_bang : parse (fixedCfg l 4) ts = parse (fixedCfg l 5) ts) :
    accepts l ts = true ↔ Derives (shCfg l) .program .closed ts :=
  agree_partial l ts
    (h_else_in_command.trans (h_reserved_after_redirect.trans (h_closer_after_redirect.trans
      (h_func_body.trans h_for_assign_or_lone_bang))))

/-- C12-for-assign-posix cannot apply to a token list that does not contain both `for` and an
    assignment-looking word: there its rule variant provably does not change the answer. -/
theorem for_assign_irrelevant (ts : List Tok) (h : ¬ (kFor ∈ ts ∧ assign ∈ ts)) :
    parse (fixedCfg .posix 4) ts = parse (fixedCfg .posix 5) ts :=
  parse_forAssign (c := fixedCfg .posix 4) (c' := fixedCfg .posix 5) (by constructor <;> decide) ts h

/-- C12 for LangPOSIX vs dash with the hypothesis about C12-for-assign-posix replaced by the
    syntactic condition "not both `for` and an assignment word occur". -/
theorem agree_partial_posix (ts : List Tok)
    (h_else_in_command : parse (fixedCfg .posix 0) ts = parse (fixedCfg .posix 1) ts)
    (h_reserved_after_redirect : parse (fixedCfg .posix 1) ts = parse (fixedCfg .posix 2) ts)
    (h_closer_after_redirect : parse (fixedCfg .posix 2) ts = parse (fixedCfg .posix 3) ts)
    (h_func_body_bang : parse (fixedCfg .posix 3) ts = parse (fixedCfg .posix 4) ts)
    (h_no_for_assign : ¬ (kFor ∈ ts ∧ assign ∈ ts)) :
    accepts .posix ts = true ↔ Derives (shCfg .posix) .program .closed ts :=
  agree_partial_by_finding .posix ts h_else_in_command h_reserved_after_redirect
    h_closer_after_redirect h_func_body_bang (for_assign_irrelevant ts h_no_for_assign)

/-- The recogniser-level statement on the same region. -/
theorem agree_recognisers_partial (l : Lang) (ts : List Tok)
    (h : parse (goCfg l) ts = parse (shCfg l) ts) : accepts l ts = shellAccepts l ts := h

/-- … and outside that region the property fails, by definition of the region. -/
theorem agree_fails_outside (l : Lang) (ts : List Tok)
    (h : parse (goCfg l) ts ≠ parse (shCfg l) ts) :
    ¬ (accepts l ts = true ↔ Derives (shCfg l) .program .closed ts) := by
  intro hiff
  apply h
  have h2 := shellAccepts_iff_shell_grammar l ts
  unfold shellAccepts at h2
  unfold accepts at hiff
  cases h1 : parse (goCfg l) ts <;> cases h3 : parse (shCfg l) ts <;> simp_all

/-- Known finding C12-else-in-command-*: `else` / `in` as command names. -/
theorem else_in_accepted_by_go_only :
    accepts .bash [kElse] = true ∧ shellAccepts .bash [kElse] = false ∧
    accepts .posix [kIn] = true ∧ shellAccepts .posix [kIn] = false := by decide

/-- Known finding C12-reserved-after-redirect-*: `> a then`, `> a fi`. -/
theorem reserved_after_redirect_rejected_by_go_only :
    accepts .bash [io, word, kThen] = false ∧ shellAccepts .bash [io, word, kThen] = true ∧
    accepts .posix [io, word, kFi] = false ∧ shellAccepts .posix [io, word, kFi] = true := by decide

/-- Known findings C12-func-body-*: `a ( ) a` (bash), `a ( ) ! a` (dash). -/
theorem function_body_accepted_by_go_only :
    accepts .bash [word, lparen, rparen, word] = true ∧
    shellAccepts .bash [word, lparen, rparen, word] = false ∧
    accepts .posix [word, lparen, rparen, bang, word] = true ∧
    shellAccepts .posix [word, lparen, rparen, bang, word] = false := by decide

/-- Known finding C12-for-assign-posix: `for x=1 in a ; do a ; done`. -/
theorem for_assign_accepted_by_go_only :
    accepts .posix [kFor, assign, kIn, word, semi, kDo, word, semi, kDone] = true ∧
    shellAccepts .posix [kFor, assign, kIn, word, semi, kDo, word, semi, kDone] = false := by
  decide +kernel

/-- Known findings C12-closer-after-redirect-*: `{ ( a ) > a }`. -/
theorem closer_after_redirect_accepted_by_go_only :
    accepts .bash [lbrace, lparen, word, rparen, io, word, rbrace] = true ∧
    shellAccepts .bash [lbrace, lparen, word, rparen, io, word, rbrace] = false ∧
    accepts .posix [lbrace, lparen, word, rparen, io, word, rbrace] = true ∧
    shellAccepts .posix [lbrace, lparen, word, rparen, io, word, rbrace] = false := by
  decide +kernel

/-- Documented difference (flipConfirm(LangBash) in syntax/parser_test.go): bash allows a lone or
    repeated `!`, the Go parser does not. -/
theorem bash_lone_bang_is_a_documented_difference :
    accepts .bash [bang] = false ∧ shellAccepts .bash [bang] = true ∧
    accepts .bash [bang, bang, word] = false ∧ shellAccepts .bash [bang, bang, word] = true := by decide

/-- The property as stated is false for both languages (witnesses `else` / `in`). -/
theorem agree_false (l : Lang) : ¬ agree_statement l := by
  intro h
  cases l
  · exact agree_fails_outside .bash [kElse] (by decide) (h _)
  · exact agree_fails_outside .posix [kIn] (by decide) (h _)

/-- The recogniser-level property is false for both languages. -/
theorem agree_recognisers_false (l : Lang) : ¬ agree_recognisers_statement l := by
  intro h
  cases l
  · have := h [kElse]; revert this; decide
  · have := h [kIn]; revert this; decide

/-- Non-vacuity: the model accepts ordinary programs, in both variants. -/
example : accepts .bash [kIf, word, semi, kThen, word, semi, kFi] = true := by decide +kernel
example : accepts .posix [kCase, word, kIn, word, rparen, word, dsemi, kEsac] = true := by decide +kernel
example : shellAccepts .bash [word, lparen, rparen, lbrace, word, semi, rbrace] = true := by decide +kernel
example : Derives (shCfg .posix) .program .closed [word] :=
  .program (.l_last (.stmt (.b_plain (.pipeline (.c_simple (pre := []) .nil (by decide) .nil) .p_nil)) .t_nil) (by simp [startOK]))

end ShVerif.C12
