import ShVerif.Model.C04
import ShVerif.Proofs.C04
import ShVerif.Proofs.C04Change
import ShVerif.Proofs.C04Bridge
/-
  C04 — Simplify preserves behaviour.  Property theorems (statements are fixed; helper lemmas live
  in ShVerif/Proofs/C04.lean).  Where the unchanged code violates the property the full statement
  is kept as `def …_statement : Prop`, refuted on a concrete witness (`…_counterexample`) and
  proved under the exact extra hypothesis (`…_partial`).  `word_sem` and `test_sem` are full
  theorems since the fixes 16d3528 and 2e8be01.
-/
namespace ShVerif.C04

/-! ## Double-quoted literals → single quotes (`simplifyWord`) -/

/-- Whenever `"lit"` / `$"lit"` is rewritten to `'nv'` / `$'nv'`, the new word denotes the same
    string — for both kinds of string (since fix 16d3528 a `$"…"` string is never rewritten; before
    it, `$"a\\n"` became `$'a\n'`, a newline). -/
theorem word_sem (dollar : Bool) (lit nv v : Bytes)
    (h : rewriteDq dollar lit = some nv) (hv : dqValue lit = some v) : sqValue dollar nv = v := by
  unfold rewriteDq at h
  cases dollar with
  | true => simp at h
  | false =>
    simp only [Bool.false_eq_true, if_false] at h
    cases hs : dqToSq lit with
    | none => simp [hs] at h
    | some nv' =>
      simp only [hs] at h
      split at h
      · simp at h
      · have e : nv' = nv := by simpa using h
        rw [← e]
        exact dqScan_value lit false nv' v hs (by simpa using hv)

/-- `$"…"` is left alone. -/
theorem word_dollar_kept (lit : Bytes) : rewriteDq true lit = none := rfl

/-- Why it must be: the old rewrite `$"a\\n"` → `$'a\n'` changes the string. -/
theorem word_dollar_would_differ :
    dqToSq [97, 92, 92, 110] = some [97, 92, 110] ∧ dqValue [97, 92, 92, 110] = some [97, 92, 110] ∧
    sqValue true [97, 92, 110] = [97, 10] := by decide

/-- The literal is only rewritten when it cannot change: no `'` in it, and every backslash it has
    is one the double quotes remove. -/
theorem word_no_single_quote (lit nv : Bytes) (h : dqToSq lit = some nv) : (39 : UInt8) ∉ nv := by
  have key : ∀ (l : Bytes) (esc : Bool) (r : Bytes), dqScan esc l = some r → (39 : UInt8) ∉ r := by
    intro l
    induction l with
    | nil => intro esc r h; simp [dqScan] at h; subst h; simp
    | cons b bs ih =>
      intro esc r h
      simp only [dqScan] at h
      by_cases hb : b = 92
      · subst hb
        cases esc with
        | false => simp at h; exact ih true r h
        | true =>
          simp at h
          obtain ⟨r', hr', rfl⟩ := h
          have := ih false r' hr'
          simp [this]
      · simp only [hb, if_false] at h
        by_cases hq : b = 39
        · simp [hq] at h
        · simp only [hq, if_false] at h
          split at h
          · simp at h
            obtain ⟨r', hr', rfl⟩ := h
            have := ih false r' hr'
            simp [this, Ne.symm hq]
          · split at h
            · simp at h
            · simp at h
              obtain ⟨r', hr', rfl⟩ := h
              have := ih false r' hr'
              simp [this, Ne.symm hq]
  exact key lit false nv h

/-! ## `[[ ]]` rewrites (`removeParensTest`, `removeNegateTest`, `unquoteParams`, `=` → `==`) -/

/-- The simplified test expression evaluates like the original under every semantics of strings,
    patterns and operators (`TSem`: an expansion without operator word has one value, an expansion
    with a word has a quoted and an unquoted value).  Full statement since fix 2e8be01: only
    expansions without a word are unquoted. -/
theorem test_sem (S : TSem) (x : Test) : S.eval (Test.top x) = S.eval x := eval_top S x

/-- `"${a:-'x'}"` keeps its quotes … -/
theorem test_word_param_kept (p : Nat) : Test.unqW (.quotedW p) = .quotedW p := rfl

/-- … and must: a semantics in which parameter 0 is `${a:-'x'}` with `a` unset (quoted it yields
    `'x'`, unquoted `x`) tells `[[ "${a:-'x'}" == x ]]` from `[[ ${a:-'x'} == x ]]`. -/
def quoteSensitiveSem : TSem where
  sval := fun _ => []
  pval := fun q _ => if q then [39, 120, 39] else [120]
  wval := fun _ => [120]
  wpat := fun _ => ([120], true)
  patMatch := fun p s => p.1 == s
  reMatch := fun p s => p.1 == s
  unOp := fun _ _ => false
  binOp := fun _ _ _ => false

theorem test_word_param_would_differ :
    quoteSensitiveSem.eval (.bin tsMatch (.quotedW 0) (.other 0)) ≠
    quoteSensitiveSem.eval (.bin tsMatch (.bareW 0) (.other 0)) := by decide

/-- The quoting rule of `==`, `!=`, `=~`: their right-hand side is never unquoted (it would turn a
    literal into a pattern), every other word operand is. -/
theorem test_rhs_kept (f op : Nat) (a b : TWord) (h : op = tsMatch ∨ op = tsNoMatch ∨ op = tsReMatch) :
    Test.walk (f + 1) (.bin op a b) = .bin op (Test.unqW a) b := by
  rcases h with h | h | h <;> subst h <;> simp [Test.walk, Test.noUnquoteRhs, tsMatch, tsNoMatch, tsReMatch, tsMatchShort]

theorem test_short_match (f : Nat) (a b : TWord) :
    Test.walk (f + 1) (.bin tsMatchShort a b) = .bin tsMatch (Test.unqW a) b := by
  simp [Test.walk, Test.noUnquoteRhs]

/-- Simplify is not idempotent on tests: `[[ ! ! ! -n x ]]` gives `[[ ! -n x ]]`, a second run
    gives `[[ -z x ]]` (the merged node is not looked at again). -/
theorem test_not_idempotent :
    Test.top (.not (.not (.not (.un tsNempStr (.other 0))))) = .not (.un tsNempStr (.other 0)) ∧
    Test.top (.not (.un tsNempStr (.other 0))) = .un tsEmpStr (.other 0) := by
  decide

/-! ## Arithmetic (`removeParensArithm`, `inlineSimpleParams`) -/

/-- Full statement for the interpreter (`expand.Arithm`): unconditional.  False: name chains of
    exactly `maxNameRefDepth` links (finding C04-interp-nameref-depth). -/
def arith_sem_statement : Prop :=
  ∀ (P : Prims), P.Lawful → ∀ (env : Env) (e : Arith), e.WF P →
    evalI P env e.top = evalI P env e

/-- Holds whenever the variables read through an inlined-or-not `$name` operand of the expression do
    not hold a valid name (in particular when they hold integers) — other variables may hold names
    (`x=y; $(( x + $a ))`), and side effects are included: the interpreter expands `$a` when the
    operand is evaluated. -/
theorem arith_sem_partial (P : Prims) (hP : P.Lawful) (env : Env) (e : Arith) (hw : e.WF P)
    (hE : ∀ n, n ∈ e.dollars → validName (env n) = false) : evalI P env e.top = evalI P env e :=
  (evalI_simpl_on P hP e.dollars e hw (fun _ h => h) env hE).1

/-- The earlier, narrower form: no variable at all holds a name. -/
theorem arith_sem_partial_noNames (P : Prims) (hP : P.Lawful) (env : Env) (e : Arith) (hw : e.WF P)
    (hE : env.NoNames) : evalI P env e.top = evalI P env e :=
  arith_sem_partial P hP env e hw (fun n _ => hE n)

/-- `x=y; a=3; $(( x + $a ))`: `x` holds a name, `$a` does not — covered by the widened theorem only. -/
example : (∀ n, n ∈ (Arith.binary opAdd (.lit [120]) (.dollar false [97])).dollars →
      validName ((fun n => if n = [120] then [121] else if n = [97] then [51] else []) n) = false) ∧
    ¬ Env.NoNames (fun n => if n = [120] then [121] else if n = [97] then [51] else []) := by
  constructor
  · intro n hn
    simp [Arith.dollars] at hn
    subst hn
    decide
  · intro h
    have := h [120]
    revert this
    decide

/-- The chain `a → aa → aaa → … → a¹⁰⁰ = 7`. -/
def chainEnv : Env := fun n =>
  if n.all (· == 97) && !n.isEmpty then (if n.length < 100 then 97 :: n else [55]) else []

theorem arith_sem_counterexample : ¬ arith_sem_statement := by
  intro h
  have := h demoPrims demoPrims_lawful chainEnv (.dollar false [97]) trivial
  have := congrArg (Option.map Prod.fst) this
  revert this
  decide +kernel

/-- Full statement for bash with integer-valued variables.  False when the expression assigns a
    variable it also reads through `$` (finding C04-arith-expansion-order). -/
def arith_sem_bash_statement : Prop :=
  ∀ (P : Prims) (env : IEnv) (e : Arith), e.WF P → evalBash P env e.top = evalBash P env e

/-- Holds whenever no *inlinable* `$name` operand (valid name: `$1`, `$#`, `$?` are never inlined) is
    assigned in the expression — assignments, `++`/`--` to other variables and positional or special
    parameters next to assignments are all fine. -/
theorem arith_sem_bash_partial (P : Prims) (env : IEnv) (e : Arith) (hw : e.WF P)
    (hd : ∀ n, n ∈ e.dollars → validName n = true → n ∉ e.assigned P) :
    evalBash P env e.top = evalBash P env e :=
  (evalB_simpl P env (e.dollars.filter (validName ·)) e hw
    (fun n h hv => List.mem_filter.mpr ⟨h, by simpa using hv⟩)
    (fun n h => hd n (List.mem_filter.mp h).1 (by simpa using (List.mem_filter.mp h).2))
    env (fun _ _ => rfl)).1

/-- The earlier, narrower form: no `$name` operand at all is assigned. -/
theorem arith_sem_bash_partial_all (P : Prims) (env : IEnv) (e : Arith) (hw : e.WF P)
    (hd : ∀ n, n ∈ e.dollars → n ∉ e.assigned P) : evalBash P env e.top = evalBash P env e :=
  arith_sem_bash_partial P env e hw (fun n h _ => hd n h)

/-- `$(( (a = 5) + $1 ))` with a positional parameter literally named like a number, and
    `$(( (a += 1) * $b ))`: covered by the widened theorem. -/
example : ∀ n, n ∈ (Arith.binary opAdd (.paren (.binary opAssgn (.lit [49]) (.lit [53]))) (.dollar false [49])).dollars →
    validName n = true →
    n ∉ (Arith.binary opAdd (.paren (.binary opAssgn (.lit [49]) (.lit [53]))) (.dollar false [49])).assigned demoPrims := by
  intro n hn hv
  simp [Arith.dollars] at hn
  subst hn
  exact absurd hv (by decide)

/-- `a=1; $(( (a = 5) + $a ))` is 6, `$(( (a = 5) + a ))` is 10. -/
theorem arith_sem_bash_counterexample : ¬ arith_sem_bash_statement := by
  intro h
  have := h demoPrims (fun _ => 1)
    (.binary opAdd (.paren (.binary opAssgn (.lit [97]) (.lit [53]))) (.dollar false [97]))
    (by simp [Arith.WF, demoPrims, opAdd, opAssgn, opAddAssgn])
  have := congrArg (Option.map Prod.fst) this
  revert this
  decide

/-- Redundant parentheses never matter, in any evaluator. -/
theorem arith_strip_sem (P : Prims) (env : Env) (e : Arith) : evalI P env e.strip = evalI P env e := by
  induction e with
  | paren x ih => simpa [Arith.strip, evalI] using ih
  | _ => rfl

/-! ## Nested subshells (`inlineSubshell`) -/

/-- `( ( S ) )` has the output, status and (non-)effects of `( S )`. -/
theorem subshell_sem (f : Nat) (stmts : List Stmt) (s : ShState) :
    runCmd (.sub (inlineSub f stmts)) s = runCmd (.sub stmts) s := runCmd_inlineSub f stmts s

/-- `$( ( S ) )` captures the output and status of `$( S )`. -/
theorem cmdsubst_sem (f : Nat) (stmts : List Stmt) (s : ShState) :
    cmdSubst (inlineSub f stmts) s = cmdSubst stmts s := cmdSubst_inlineSub f stmts s

/-- The side conditions matter: `( ! ( exit 3 ) )` has status 0, `( exit 3 )` has status 3. -/
theorem subshell_negated_differs :
    (runCmd (.sub [.mk true false (.sub [.mk false false (.exit 3)])]) ⟨fun _ => [], [], 0⟩).1.status = 0 ∧
    (runCmd (.sub [.mk false false (.exit 3)]) ⟨fun _ => [], [], 0⟩).1.status = 3 ∧
    inlineSub 5 [.mk true false (.sub [.mk false false (.exit 3)])] =
      [.mk true false (.sub [.mk false false (.exit 3)])] := by
  refine ⟨by rfl, by rfl, by rfl⟩

/-! ## The whole-tree model (the one tied to `syntax.Simplify` on every run) -/

/-- Simplify reports `true` exactly when it changed the tree. -/
theorem reports_change (n : Node) : (simplify n).2 = true ↔ (simplify n).1 ≠ n :=
  reports_change_aux n

/-- The model's fuel never runs out: every fuel above the weight of the tree (≤ 2·size) gives the
    result of `simplify`. -/
theorem simplify_fuel_irrelevant (f : Nat) (n : Node) (h : weight n < f) : simp f n = simplify n :=
  simp_fuel_irrelevant f n h

/-- Every rewrite makes the tree lighter (nodes + number of `=` operators): Simplify never grows it. -/
theorem simplify_weight_le (n : Node) : weight (simplify n).1 ≤ weight n := simp_weight_le _ n

/-- On an embedded arithmetic expression the tied model is the typed `Arith.top` … -/
theorem arith_model_agrees (q c : Nat) (ty : Ty)
    (hty : ty = .arithmExp ∨ ty = .arithmCmd ∨ ty = .parenArithm) (a : List Nat) (v : Bytes) (e : Arith) :
    (simplify (.mk ty a v [e.toNode q c])).1 = .mk ty a v [e.top.toNode q c] :=
  simplify_arith_holder q c ty hty a v e

/-- … hence, end to end: what `Simplify` leaves in `$(( e ))` evaluates like `e` (interpreter). -/
theorem arith_sem_tied (q c : Nat) (a : List Nat) (v : Bytes) (e : Arith)
    (P : Prims) (hP : P.Lawful) (env : Env) (hw : e.WF P)
    (hE : ∀ n, n ∈ e.dollars → validName (env n) = false) :
    ∃ e', (simplify (.mk .arithmExp a v [e.toNode q c])).1 = .mk .arithmExp a v [e'.toNode q c] ∧
      evalI P env e' = evalI P env e :=
  ⟨e.top, simplify_arith_holder q c .arithmExp (Or.inl rfl) a v e, arith_sem_partial P hP env e hw hE⟩

/-- On an embedded `[[ ]]` expression the tied model is the typed `Test.top`. -/
theorem test_model_agrees (a : List Nat) (v : Bytes) (x : Test) (h : x.WF) :
    (simplify (.mk .testClause a v [x.toNode])).1 = .mk .testClause a v [(Test.top x).toNode] :=
  simplify_testClause a v x h

theorem test_sem_tied (a : List Nat) (v : Bytes) (x : Test) (h : x.WF) (S : TSem) :
    ∃ x', (simplify (.mk .testClause a v [x.toNode])).1 = .mk .testClause a v [x'.toNode] ∧
      S.eval x' = S.eval x :=
  ⟨Test.top x, simplify_testClause a v x h, test_sem S x⟩

/-- On a word that is one double-quoted literal the tied model applies `rewriteDq`. -/
theorem word_model_agrees (a : List Nat) (v : Bytes) (d : Nat) (lit : Bytes) :
    (simplify (dqWord a v d lit)).1 =
      .mk .word a v [match rewriteDq (d != 0) lit with
       | some nv => .mk .sgl [d] nv []
       | none => .mk .dbl [d] [] [.mk .lit [] lit []]] :=
  simplify_dqWord a v d lit

/-! Non-vacuity -/
example : rewriteDq false [92, 36, 97] = some [36, 97] := by decide          -- "\$a" → '$a'
example : dqValue [92, 36, 97] = some [36, 97] := by decide
example : rewriteDq false [97, 92, 110] = none := by decide                   -- "a\n" is left alone
example : rewriteDq false [105, 116, 39, 115, 92, 36] = none := by decide     -- "it's\$" is left alone
example : (Arith.paren (.paren (.binary opAdd (.dollar true [97]) (.paren (.dollar false [98]))))).top
    = .binary opAdd (.lit [97]) (.paren (.lit [98])) := by decide
example : (Arith.dollar false [49]).top = .dollar false [49] := by decide   -- $1 is not inlined
example : (Arith.binary opAdd (.lit [97]) (.lit [49])).WF demoPrims := by
  simp [Arith.WF, demoPrims, opAdd, opAssgn, opAddAssgn]
example : Env.NoNames (fun n => if n = [97] then [51] else []) := by
  intro m; by_cases h : m = [97] <;> simp [h, validName] <;> decide
example : Test.top (.paren (.not (.un tsEmpStr (.quoted 0)))) = .un tsNempStr (.bare 0) := by decide
example : Test.top (.not (.bin tsMatch (.quoted 0) (.quoted 1))) = .bin tsNoMatch (.bare 0) (.quoted 1) := by
  decide
example : inlineSub 9 [.mk false false (.sub [.mk false false (.sub [.mk false false (.echo [97])])])]
    = [.mk false false (.echo [97])] := by rfl

end ShVerif.C04
