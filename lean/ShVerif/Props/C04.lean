import ShVerif.Model.C04
import ShVerif.Proofs.C04
/-
  C04 — Simplify preserves behaviour.  Property theorems.
-/
namespace ShVerif.C04

end ShVerif.C04
