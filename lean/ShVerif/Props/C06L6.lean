import ShVerif.Proofs.C14
import ShVerif.Proofs.C15
/-
  C06 on the generic-tree layer (L6): the totality theorems DESIGN §5 names for Walk and
  typedjson.Encode, as corollaries of the models and lemmas of C14 and C15 (read-only imports of
  Model/Proofs C14 and C15; nothing regenerated is imported — the instantiation to the tables
  extracted from walk.go / nodes.go / typedjson is C14's `real_walk_visits_once` and C15's
  `decode_encode_real`, which state the same for the real schema).

  Termination is not a proof obligation here: `C14.walk` and `C15.encodeValue` are structurally
  recursive Lean functions over finite trees, hence total; what has to be shown is that they never
  produce their explicit `panic` outcome, which stands for `panic(...)` in the default case of
  Walk's type switch, Walk on a nil interface, and the panicking reflect calls of Encode.
  The well-formedness predicates are those of the two models — "every node type has a case and
  every child Walk dereferences is present" for Walk, "JSON well-formed value of the schema" for
  Encode — not `C06.wfNode`: neither function indexes the lists `wfNode` is about (`Pos()`/`End()`
  do, and typedjson calls them through reflection; C15 models their results as given data, so
  `wfNode` is the assumption under which that data exists).
-/
namespace ShVerif.C06

/-- **walk_total**: for every Walk table, every visitor answer function `keep` (what `f` returns
    per node) and every tree well-formed for that table, `Walk` delivers its event list without
    panicking. -/
theorem walk_total (tbl : C14.Table) (keep : Nat → Bool) (t : C14.Tree)
    (hwf : C14.wf tbl t = true) : C14.Ev.panic ∉ C14.walk tbl keep t :=
  C14.nopanic_tree tbl keep t hwf

/-- **encode_total**: for every schema and every root value that is well-formed for it,
    `typedjson.Encode` produces a document (it does not panic). -/
theorem encode_total (σ : C15.Schema) (v : C15.Val)
    (h : C15.wf σ (.iface "Node") (.iface v) = true) : ∃ j, C15.encodeRoot σ v = .val j := by
  obtain ⟨j, hj, _⟩ := C15.round_root σ v h
  exact ⟨j, hj⟩

/-- non-vacuity of `walk_total`: a two-type table (type 0 walks its required child in slot 0 and a
    list in slot 1, type 1 is a leaf), a well-formed tree, and an ill-formed one that does panic
    (the required child is missing). -/
def demoTable : C14.Table := fun ty =>
  match ty with
  | 0 => some [{ op := .walk, slot := 0 }, { op := .list, slot := 1 }]
  | 1 => some []
  | _ => none

example : C14.wf demoTable (.node 0 0 0 false [.node 1 1 0 false [], .node 1 2 1 false [], .node 1 3 1 false []]) = true := by
  decide

example : C14.Ev.panic ∈ C14.walk demoTable (fun _ => true) (.node 0 0 0 false [.node 1 2 1 false []]) := by
  decide

end ShVerif.C06
