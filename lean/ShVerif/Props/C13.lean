import ShVerif.Model.C13
import ShVerif.Proofs.C13
/-
  C13 — Quote produces a word that expands back to the string.  Property theorems.
-/
namespace ShVerif.C13

/-- An empty string is always quoted as `''`. -/
theorem empty_quoted (l : Lang) : quote l [] = .ok [0x27, 0x27] := by
  simp [quote]

def quote_roundtrip_statement : Prop :=
  ∀ (l : Lang) (s q : Bytes), validLang l = true → quote l s = .ok q →
    ∃ w, lexWords (resolve l) q = .ok [w] ∧ expandLit w = .ok s

def quote_fails_iff_code_statement : Prop :=
  ∀ (l : Lang) (s : Bytes), (∃ e, quote l s = .error e) ↔ codeFails l s = true

end ShVerif.C13
