import ShVerif.Model.C13
import ShVerif.Proofs.C13
/-
  C13 — Quote produces a word that expands back to the string.  Property theorems.

  `quote` is the model of syntax.Quote, `lexWords` of Parser.Words on Quote's output shapes,
  `expandLit` of expand.Literal (ShVerif/Model/C13.lean); all three are tied to the Go code on
  every run.  Variants are `syntax.LangVariant` bit sets (`Lang = Nat`).
-/
set_option linter.unusedSimpArgs false

namespace ShVerif.C13

/-! ## empty_quoted -/

/-- An empty string is always quoted as `''`, in every variant. -/
theorem empty_quoted (l : Lang) : quote l [] = .ok [0x27, 0x27] := by
  simp [quote]

/-! ## quote_roundtrip -/

/-- For every variant the parser accepts (the five variants and the legacy zero value) and every
    byte string: when Quote succeeds, the parser reads its result back as **exactly one word**
    (`lexWords … = ok [w]`: no parse error, nothing outside the literal/quoted fragment, not zero
    or several words) made only of literal and quoted parts (`WordShape`: one bare literal, one
    '…', one "…" without expansions, or one or more $'…'), and `expand.Literal` of that word is
    exactly the original string. -/
theorem quote_roundtrip (l : Lang) (s q : Bytes) (hl : validLang l = true)
    (h : quote l s = .ok q) :
    ∃ w, lexWords (resolve l) q = .ok [w] ∧ WordShape w ∧ expandLit w = .ok s :=
  quote_roundtrip_main l s q hl h

/-- The same, through `unquote` (parse as words, demand exactly one, expand it). -/
theorem quote_unquote (l : Lang) (s q : Bytes) (hl : validLang l = true)
    (h : quote l s = .ok q) : unquote (resolve l) q = .ok s := by
  obtain ⟨w, h1, _, h3⟩ := quote_roundtrip l s q hl h
  simp only [unquote, h1, h3]

/-- Quote never produces an empty result. -/
theorem quote_nonempty (l : Lang) (s q : Bytes) (hl : validLang l = true)
    (h : quote l s = .ok q) : q ≠ [] := by
  obtain ⟨w, h1, _, _⟩ := quote_roundtrip l s q hl h
  intro e; subst e
  simp [lexWords, inFragment, validUTF8, runes, runesF, lexF, finish] at h1

/-! ## quote_fails_iff -/

/-- What the code does, for **every** bit set `l`: Quote fails exactly when the string contains a
    NUL byte, or `l.in(LangPOSIX)` and some rune is non-printable or invalid UTF-8, or
    `l.in(LangMirBSDKorn)` and some non-printable rune is above U+FFFD. -/
theorem quote_fails_iff_code (l : Lang) (s : Bytes) :
    (∃ e, quote l s = .error e) ↔ codeFails l s = true :=
  quote_fails_iff_codeFails l s

/-- The property's wording: with the variant understood as the rest of the package understands it
    (`resolve`: the zero value means Bash), Quote fails exactly on the strings the variant cannot
    represent.  **False of the code** for the legacy zero value — see `quote_fails_iff_zero`. -/
def quote_fails_iff_statement : Prop :=
  ∀ (l : Lang) (s : Bytes), validLang l = true →
    ((∃ e, quote l s = .error e) ↔ specFails l s = true)

/-- The statement holds for every non-zero bit set (in particular the five variants, LangAuto,
    and bit sets that are no variant at all). -/
theorem quote_fails_iff_partial (l : Lang) (s : Bytes) (h0 : l ≠ 0) :
    (∃ e, quote l s = .error e) ↔ specFails l s = true := by
  rw [quote_fails_iff_code]
  have r : resolve l = l := by simp [resolve, h0]
  simp only [codeFails, specFails, r, langIn_eq_of_ne_zero l 2 (Or.inl rfl) h0,
    langIn_eq_of_ne_zero l 4 (Or.inr rfl) h0, langPOSIX, langMksh]

/-- The counter-example: under the legacy zero value (documented as "the zero value is LangBash")
    Quote refuses a newline with the POSIX error, although Bash quotes it as `$'\n'` and the
    property calls the string representable. -/
theorem quote_fails_iff_zero :
    quote 0 [0x0a] = .error ⟨0, .posix⟩ ∧
    quote langBash [0x0a] = .ok [0x24, 0x27, 0x5c, 0x6e, 0x27] ∧
    specFails 0 [0x0a] = false := by
  decide +kernel

theorem quote_fails_iff_statement_false : ¬ quote_fails_iff_statement := by
  intro h
  have := (h 0 [0x0a] (by decide)).mp ⟨_, quote_fails_iff_zero.1⟩
  rw [quote_fails_iff_zero.2.2] at this
  cases this

/-- The zero value behaves as POSIX **and** mksh at once, never as Bash. -/
theorem legacy_zero_in_everything (m : Lang) : langIn 0 m = true := by
  simp [langIn]

/-! ## error kinds -/

/-- Which error is reported, and that `quoteErrRange` ("rune out of range") is unreachable. -/
theorem quote_error_kind (l : Lang) (s : Bytes) (e : QErr) (h : quote l s = .error e) :
    (e.kind = .null ∧ s.contains 0x00 = true) ∨
    (e.kind = .posix ∧ langIn l langPOSIX = true ∧ ∃ t ∈ runes s, nonPrint t.r = true) ∨
    (e.kind = .mksh ∧ langIn l langMksh = true ∧ langIn l langPOSIX = false ∧
      s.contains 0x00 = false ∧ ∃ t ∈ runes s, t.r > 0xFFFD ∧ isPrint t.r = false) := by
  have hok := runes_ok s
  by_cases hs : s = []
  · subst hs; simp [quote] at h
  unfold quote at h
  simp only [hs, ↓reduceIte] at h
  cases hsc : scan l (runes s) 0 false false with
  | error e' =>
    rw [hsc] at h; cases h
    rcases scan_error l _ _ _ _ e hsc with ⟨a, t, m, b⟩ | ⟨a, a', t, m, b⟩
    · exact Or.inl ⟨a, (contains_zero_iff s).mpr ⟨t, m, b⟩⟩
    · exact Or.inr (Or.inl ⟨a, a', t, m, b⟩)
  | ok r =>
    obtain ⟨sc, np⟩ := r
    rw [hsc] at h; simp only at h
    obtain ⟨i1, _, i3⟩ := scan_ok l _ _ _ _ _ _ hsc
    by_cases hb : (!sc && !np && !isKeyword s) = true
    · simp only [hb, ↓reduceIte] at h; cases h
    · simp only [hb, Bool.false_eq_true, ↓reduceIte] at h
      cases hnp : np with
      | false =>
        rw [hnp] at h; simp only [Bool.false_eq_true, ↓reduceIte] at h
        split at h <;> cases h
      | true =>
        rw [hnp] at h i3; simp only [↓reduceIte] at h
        cases hd : dollarBody l (runes s) 0 false with
        | ok body => rw [hd] at h; cases h
        | error e' =>
          rw [hd] at h; cases h
          obtain ⟨a, b, t, m, c⟩ := dollar_error l _ _ _ e hok hd
          simp only [Bool.false_or] at i3
          obtain ⟨t0, m0, hn0⟩ := List.any_eq_true.mp i3.symm
          have hposix : langIn l langPOSIX = false := by
            cases hp : langIn l langPOSIX
            · rfl
            · have := (i1 t0 m0).2 hp; rw [this] at hn0; cases hn0
          have hz : s.contains 0x00 = false := by
            cases hc : s.contains 0x00
            · rfl
            · obtain ⟨t', m', h'⟩ := (contains_zero_iff s).mp hc
              exact absurd h' (i1 t' m').1
          exact Or.inr (Or.inr ⟨a, b, hposix, hz, t, m, c⟩)

theorem quote_never_range (l : Lang) (s : Bytes) (o : Nat) : quote l s ≠ .error ⟨o, .range⟩ := by
  intro h
  rcases quote_error_kind l s _ h with ⟨a, _⟩ | ⟨a, _⟩ | ⟨a, _⟩ <;> cases a

/-- `ByteOffset` is the byte index at which the first offending rune (for the reported kind)
    starts: the decode steps of `s` split as `pre ++ t :: post`, the offset is the length of `pre`,
    `t` offends, and no rune of `pre` does. -/
theorem quote_error_offset (l : Lang) (s : Bytes) (e : QErr) (h : quote l s = .error e) :
    ∃ pre t post, runes s = pre ++ t :: post ∧ e.offs = (pre.flatMap Tok.raw).length ∧
      Offending l e.kind t ∧ ∀ t' ∈ pre, ¬ Offending l e.kind t' :=
  quote_error_at l s e h

/-! ## Non-vacuity: every output shape and every error occurs -/

-- bare: `a}` stays as it is
example : quote langBash [0x61, 0x7d] = .ok [0x61, 0x7d] := by decide +kernel
-- keyword: `if` → 'if'
example : quote langPOSIX [0x69, 0x66] = .ok [0x27, 0x69, 0x66, 0x27] := by decide +kernel
-- single quotes: `a b` → 'a b'
example : quote langPOSIX [0x61, 0x20, 0x62] = .ok [0x27, 0x61, 0x20, 0x62, 0x27] := by
  decide +kernel
-- double quotes: `a'$` → "a'\$"
example : quote langBash [0x61, 0x27, 0x24] = .ok [0x22, 0x61, 0x27, 0x5c, 0x24, 0x22] := by
  decide +kernel
-- $'…' with a hex escape, re-quoted for mksh only: ESC `1`
example : quote langBash [0x1b, 0x31] = .ok [0x24, 0x27, 0x5c, 0x78, 0x31, 0x62, 0x31, 0x27] := by
  decide +kernel
example : quote langMksh [0x1b, 0x31] =
    .ok [0x24, 0x27, 0x5c, 0x78, 0x31, 0x62, 0x27, 0x24, 0x27, 0x31, 0x27] := by decide +kernel
example : unquote langMksh [0x24, 0x27, 0x5c, 0x78, 0x31, 0x62, 0x27, 0x24, 0x27, 0x31, 0x27] =
    .ok [0x1b, 0x31] := by decide +kernel
-- invalid UTF-8 byte → \xff; NBSP →  ; U+E0001 → \U000e0001
example : quote langBash [0xff] = .ok [0x24, 0x27, 0x5c, 0x78, 0x66, 0x66, 0x27] := by
  decide +kernel
example : quote langZsh [0xc2, 0xa0] =
    .ok [0x24, 0x27, 0x5c, 0x75, 0x30, 0x30, 0x61, 0x30, 0x27] := by decide +kernel
example : quote langBats [0xf3, 0xa0, 0x80, 0x81] =
    .ok [0x24, 0x27, 0x5c, 0x55, 0x30, 0x30, 0x30, 0x65, 0x30, 0x30, 0x30, 0x31, 0x27] := by
  decide +kernel
-- the three reachable errors, with their byte offsets
example : quote langBash [0x61, 0x00] = .error ⟨1, .null⟩ := by decide +kernel
example : quote langPOSIX [0x61, 0x62, 0x09] = .error ⟨2, .posix⟩ := by decide +kernel
example : quote langMksh [0x61, 0xf3, 0xa0, 0x80, 0x81] = .error ⟨1, .mksh⟩ := by decide +kernel
-- mksh passes a *printable* rune above U+FFFD (😀) raw: `😀 ` → '😀 '
example : quote langMksh [0xf0, 0x9f, 0x98, 0x80, 0x20] =
    .ok [0x27, 0xf0, 0x9f, 0x98, 0x80, 0x20, 0x27] := by
  decide +kernel
-- hypotheses of the theorems are satisfiable
example : validLang 0 = true ∧ validLang langZsh = true := by decide
example : ∃ l s q, validLang l = true ∧ quote l s = .ok q := ⟨1, [], _, rfl, rfl⟩

end ShVerif.C13
