import ShVerif.Model.C13
import ShVerif.Proofs.C13
/-
  C13 — Quote produces a word that expands back to the string.  Property theorems.

  `quote` is the model of syntax.Quote, `lexWords` of Parser.Words on Quote's output shapes,
  `expandLit` of expand.Literal (ShVerif/Model/C13.lean); all three are tied to the Go code on
  every run.  Variants are `syntax.LangVariant` bit sets (`Lang = Nat`).
-/
set_option linter.unusedSimpArgs false

namespace ShVerif.C13

/-! ## empty_quoted -/

/-- An empty string is always quoted as `''`, in every variant. -/
theorem empty_quoted (l : Lang) : quote l [] = .ok [0x27, 0x27] := by
  simp [quote, quoteCore]

/-! ## quote_roundtrip -/

/-- For every variant the parser accepts (the five variants and the legacy zero value) and every
    byte string: when Quote succeeds, the parser reads its result back as **exactly one word**
    (`lexWords … = ok [w]`: no parse error, nothing outside the literal/quoted fragment, not zero
    or several words) made only of literal and quoted parts (`WordShape`: one bare literal, one
    '…', one "…" without expansions, or one or more $'…'), and `expand.Literal` of that word is
    exactly the original string. -/
theorem quote_roundtrip (l : Lang) (s q : Bytes) (hl : validLang l = true)
    (h : quote l s = .ok q) :
    ∃ w, lexWords (resolve l) q = .ok [w] ∧ WordShape w ∧ expandLit w = .ok s := by
  obtain ⟨w, h1, h2, h3, _⟩ := quote_roundtrip_main (resolve l) s q (validLang_resolve l hl) h
  rw [resolve_idem] at h1
  exact ⟨w, h1, h2, h3⟩

/-- The same, through `unquote` (parse as words, demand exactly one, expand it). -/
theorem quote_unquote (l : Lang) (s q : Bytes) (hl : validLang l = true)
    (h : quote l s = .ok q) : unquote (resolve l) q = .ok s := by
  obtain ⟨w, h1, _, h3⟩ := quote_roundtrip l s q hl h
  simp only [unquote, h1, h3]

/-- Quote never produces an empty result. -/
theorem quote_nonempty (l : Lang) (s q : Bytes) (hl : validLang l = true)
    (h : quote l s = .ok q) : q ≠ [] := by
  obtain ⟨w, h1, _, _⟩ := quote_roundtrip l s q hl h
  intro e; subst e
  simp [lexWords, inFragment, validUTF8, runes, runesF, lexF, finish] at h1

/-! ## quote_fails_iff -/

/-- The property, for **every** `LangVariant` value (the five variants, the legacy zero value,
    LangAuto, and bit sets that are no variant): Quote fails exactly on the strings the variant —
    understood as the rest of the package understands it, zero = Bash — cannot represent: a NUL
    byte anywhere; in POSIX a non-printable rune or invalid UTF-8; in mksh a non-printable rune
    above U+FFFD. -/
theorem quote_fails_iff (l : Lang) (s : Bytes) :
    (∃ e, quote l s = .error e) ↔ specFails l s = true := by
  have h0 := resolve_ne_zero l
  unfold quote
  rw [quote_fails_iff_codeFails]
  simp only [codeFails, specFails, resolve_idem, langIn_eq_of_ne_zero (resolve l) 2 (Or.inl rfl) h0,
    langIn_eq_of_ne_zero (resolve l) 4 (Or.inr rfl) h0, langPOSIX, langMksh]

/-- The same in the code's own terms (`lang.in(...)` after the legacy-zero guard). -/
theorem quote_fails_iff_code (l : Lang) (s : Bytes) :
    (∃ e, quote l s = .error e) ↔ codeFails (resolve l) s = true :=
  quote_fails_iff_codeFails (resolve l) s

/-- Pinned: why the guard `if lang == langBashLegacy { lang = LangBash }` is needed.  Without it
    (the body alone, as before commit 9caaaf3) the zero value is "in" every language set and a
    newline is refused with the POSIX error; with it Quote gives `$'\n'` like LangBash. -/
theorem pinned_legacy_zero :
    (∀ m : Lang, langIn 0 m = true) ∧
    quoteCore 0 [0x0a] = .error ⟨0, .posix⟩ ∧
    quote 0 [0x0a] = .ok [0x24, 0x27, 0x5c, 0x6e, 0x27] ∧
    quote 0 [0x0a] = quote langBash [0x0a] := by
  refine ⟨fun m => by simp [langIn], ?_⟩
  decide +kernel

/-! ## error kinds -/

/-- Which error is reported, and why. -/
theorem quote_error_kind (l : Lang) (s : Bytes) (e : QErr) (h : quote l s = .error e) :
    (e.kind = .null ∧ s.contains 0x00 = true) ∨
    (e.kind = .posix ∧ resolve l = langPOSIX ∧ ∃ t ∈ runes s, nonPrint t.r = true) ∨
    (e.kind = .mksh ∧ resolve l = langMksh ∧ s.contains 0x00 = false ∧
      ∃ t ∈ runes s, t.r > 0xFFFD ∧ isPrint t.r = false) := by
  have h0 := resolve_ne_zero l
  have p2 := langIn_eq_of_ne_zero (resolve l) 2 (Or.inl rfl) h0
  have p4 := langIn_eq_of_ne_zero (resolve l) 4 (Or.inr rfl) h0
  rcases quoteCore_error_kind (resolve l) s e h with ⟨a, b⟩ | ⟨a, b, c⟩ | ⟨a, b, _, d, c⟩
  · exact Or.inl ⟨a, b⟩
  · refine Or.inr (Or.inl ⟨a, ?_, c⟩)
    rw [show langPOSIX = 2 from rfl, p2] at b
    have b' : resolve l = 2 := by simpa using b
    exact b'
  · refine Or.inr (Or.inr ⟨a, ?_, d, c⟩)
    rw [show langMksh = 4 from rfl, p4] at b
    have b' : resolve l = 4 := by simpa using b
    exact b'

/-- `quoteErrRange` ("rune out of range") is unreachable. -/
theorem quote_never_range (l : Lang) (s : Bytes) (o : Nat) : quote l s ≠ .error ⟨o, .range⟩ := by
  intro h
  rcases quote_error_kind l s _ h with ⟨a, _⟩ | ⟨a, _⟩ | ⟨a, _⟩ <;> cases a

/-- `ByteOffset` is the byte index at which the first offending rune (for the reported kind)
    starts: the decode steps of `s` split as `pre ++ t :: post`, the offset is the length of `pre`,
    `t` offends, and no rune of `pre` does. -/
theorem quote_error_offset (l : Lang) (s : Bytes) (e : QErr) (h : quote l s = .error e) :
    ∃ pre t post, runes s = pre ++ t :: post ∧ e.offs = (pre.flatMap Tok.raw).length ∧
      Offending (resolve l) e.kind t ∧ ∀ t' ∈ pre, ¬ Offending (resolve l) e.kind t' :=
  quote_error_at (resolve l) s e h

/-! ## Command position: the result used as the only word of a command -/

/-- For every variant and every string that is not one of the parser's own builtin clauses
    (`let`, `declare`…, bats `@test`: shell builtins, not reserved words), the quoted text, parsed
    on its own as a whole program, is a simple command with no assignment and exactly one word,
    which expands to the string. -/
theorem quote_command_position (l : Lang) (s q : Bytes) (hl : validLang l = true)
    (h : quote l s = .ok q) (hc : clauseWord (resolve l) s = false) :
    ∃ w, cmdPos (resolve l) q = .simple w ∧ WordShape w ∧ expandLit w = .ok s := by
  obtain ⟨w, h1, h2, h3, h4⟩ := quote_roundtrip_main (resolve l) s q (validLang_resolve l hl) h
  rw [resolve_idem] at h1
  refine ⟨w, ?_, h2, h3⟩
  cases w with
  | nil =>
    rcases h2 with ⟨_, e⟩ | ⟨_, e⟩ | ⟨_, e⟩ | ⟨e, _⟩
    · cases e
    · cases e
    · cases e
    · exact absurd rfl e
  | cons p ps =>
    cases p with
    | lit v =>
      obtain ⟨rfl, rfl, hk, h3d, h7b⟩ := h4 v ps rfl
      have a1 := stmtWord_false (resolve l) v hk h7b hc
      have a2 : assignLit (resolve l) v = false := by simp only [assignLit, firstEq_none v h3d]
      simp only [cmdPos, h1, a1, a2, Bool.false_eq_true, and_false, ↓reduceIte]
    | sgl d v => simp only [cmdPos, h1]
    | dbl v => simp only [cmdPos, h1]

/-- Pinned (fix 3e73091): `elif` is a keyword for Quote, so it is quoted; bare, it would not be a
    simple command in first position. -/
theorem pinned_elif :
    quote langBash elifWord = .ok ([0x27] ++ elifWord ++ [0x27]) ∧
    cmdPos langBash elifWord = .special ∧
    cmdPos langBash ([0x27] ++ elifWord ++ [0x27]) = .simple [.sgl false elifWord] := by
  decide +kernel

/-- What Quote protects against in first position: a bare result never contains `=` (so it is
    never read as `name=value` / `name+=value`), e.g. `a+=b` is quoted. -/
example : quote langBash [0x61, 0x2b, 0x3d, 0x62] = .ok [0x27, 0x61, 0x2b, 0x3d, 0x62, 0x27] ∧
    cmdPos langBash [0x61, 0x2b, 0x3d, 0x62] = .assign ∧
    cmdPos langPOSIX [0x61, 0x2b, 0x3d, 0x62] = .simple [.lit [0x61, 0x2b, 0x3d, 0x62]] := by
  decide +kernel

/-! ## Non-vacuity: every output shape and every error occurs -/

-- bare: `a}` stays as it is
example : quote langBash [0x61, 0x7d] = .ok [0x61, 0x7d] := by decide +kernel
-- keyword: `if` → 'if'
example : quote langPOSIX [0x69, 0x66] = .ok [0x27, 0x69, 0x66, 0x27] := by decide +kernel
-- single quotes: `a b` → 'a b'
example : quote langPOSIX [0x61, 0x20, 0x62] = .ok [0x27, 0x61, 0x20, 0x62, 0x27] := by
  decide +kernel
-- double quotes: `a'$` → "a'\$"
example : quote langBash [0x61, 0x27, 0x24] = .ok [0x22, 0x61, 0x27, 0x5c, 0x24, 0x22] := by
  decide +kernel
-- $'…' with a hex escape, re-quoted for mksh only: ESC `1`
example : quote langBash [0x1b, 0x31] = .ok [0x24, 0x27, 0x5c, 0x78, 0x31, 0x62, 0x31, 0x27] := by
  decide +kernel
example : quote langMksh [0x1b, 0x31] =
    .ok [0x24, 0x27, 0x5c, 0x78, 0x31, 0x62, 0x27, 0x24, 0x27, 0x31, 0x27] := by decide +kernel
example : unquote langMksh [0x24, 0x27, 0x5c, 0x78, 0x31, 0x62, 0x27, 0x24, 0x27, 0x31, 0x27] =
    .ok [0x1b, 0x31] := by decide +kernel
-- invalid UTF-8 byte → \xff; NBSP →  ; U+E0001 → \U000e0001
example : quote langBash [0xff] = .ok [0x24, 0x27, 0x5c, 0x78, 0x66, 0x66, 0x27] := by
  decide +kernel
example : quote langZsh [0xc2, 0xa0] =
    .ok [0x24, 0x27, 0x5c, 0x75, 0x30, 0x30, 0x61, 0x30, 0x27] := by decide +kernel
example : quote langBats [0xf3, 0xa0, 0x80, 0x81] =
    .ok [0x24, 0x27, 0x5c, 0x55, 0x30, 0x30, 0x30, 0x65, 0x30, 0x30, 0x30, 0x31, 0x27] := by
  decide +kernel
-- the three reachable errors, with their byte offsets
example : quote langBash [0x61, 0x00] = .error ⟨1, .null⟩ := by decide +kernel
example : quote langPOSIX [0x61, 0x62, 0x09] = .error ⟨2, .posix⟩ := by decide +kernel
example : quote langMksh [0x61, 0xf3, 0xa0, 0x80, 0x81] = .error ⟨1, .mksh⟩ := by decide +kernel
-- mksh passes a *printable* rune above U+FFFD (😀) raw: `😀 ` → '😀 '
example : quote langMksh [0xf0, 0x9f, 0x98, 0x80, 0x20] =
    .ok [0x27, 0xf0, 0x9f, 0x98, 0x80, 0x20, 0x27] := by
  decide +kernel
-- the legacy zero value quotes like Bash
example : quote 0 [0x1b] = .ok [0x24, 0x27, 0x5c, 0x78, 0x31, 0x62, 0x27] := by decide +kernel
-- hypotheses of the theorems are satisfiable
example : validLang 0 = true ∧ validLang langZsh = true := by decide
example : ∃ l s q, validLang l = true ∧ quote l s = .ok q := ⟨1, [], _, rfl, rfl⟩

end ShVerif.C13
