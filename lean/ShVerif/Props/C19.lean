import ShVerif.Model.C19
import ShVerif.Proofs.C19
import ShVerif.Proofs.C19Star
/-
  C19 — Pathname expansion matches bash.  Property theorems about the model of
  expand.FieldsSeq / escapedGlobField / Config.glob / globDir (ShVerif/Model/C19.lean); the model is
  tied to the Go code on every run (stream `fields`), the specification is run against the
  implementation and against bash (streams `specfields`, `specbash`).
-/
namespace ShVerif.C19
open ShVerif ShVerif.L3

/-! ## the FieldsSeq decision table -/

/-- `set -f` (ReadDir2 = nil): every field is kept as it is. -/
theorem noglob_rule (rd : Reader) (mk : Matcher) (cfg : Cfg) (base : Str) (f : Field)
    (h : cfg.noglob = true) : fieldOutcome rd mk cfg base f = .keep := by
  unfold fieldOutcome
  cases escapedGlobField f <;> simp [h]

/-- A field without an unquoted pattern character (or whose escaped text has no metacharacter) is kept. -/
theorem unglobbed_field_kept (rd : Reader) (mk : Matcher) (cfg : Cfg) (base : Str) (f : Field)
    (h : escapedGlobField f = none) : fieldOutcome rd mk cfg base f = .keep := by
  simp [fieldOutcome, h]

/-- nullglob: a pattern without matches expands to zero fields. -/
theorem nullglob_rule (rd : Reader) (mk : Matcher) (cfg : Cfg) (base pat : Str) (f : Field)
    (hf : escapedGlobField f = some pat) (hg : cfg.noglob = false) (hn : cfg.nullglob = true)
    (h : glob rd mk cfg base pat = .ok []) : fieldOutcome rd mk cfg base f = .expand [] := by
  simp [fieldOutcome, hf, hg, h, decideGlob, hn]

/-- Without nullglob a pattern without matches stays as the word itself. -/
theorem no_match_keeps_word (rd : Reader) (mk : Matcher) (cfg : Cfg) (base pat : Str) (f : Field)
    (hf : escapedGlobField f = some pat) (hn : cfg.nullglob = false)
    (h : glob rd mk cfg base pat = .ok []) : fieldOutcome rd mk cfg base f = .keep := by
  by_cases hg : cfg.noglob = true
  · exact noglob_rule rd mk cfg base f hg
  · simp [fieldOutcome, hf, hg, h, decideGlob, hn]

/-- A pattern with matches is replaced by them. -/
theorem match_expands (rd : Reader) (mk : Matcher) (cfg : Cfg) (base pat : Str) (f : Field) (m : Str) (ms : List Str)
    (hf : escapedGlobField f = some pat) (hg : cfg.noglob = false)
    (h : glob rd mk cfg base pat = .ok (m :: ms)) : fieldOutcome rd mk cfg base f = .expand (m :: ms) := by
  simp [fieldOutcome, hf, hg, h, decideGlob]

/-- A malformed pattern (`*pattern.SyntaxError`) keeps the word — with or without nullglob. -/
theorem syntax_error_keeps_word (rd : Reader) (mk : Matcher) (cfg : Cfg) (base pat : Str) (f : Field)
    (hf : escapedGlobField f = some pat)
    (h : glob rd mk cfg base pat = .error .syntax) : fieldOutcome rd mk cfg base f = .keep := by
  by_cases hg : cfg.noglob = true
  · exact noglob_rule rd mk cfg base f hg
  · simp [fieldOutcome, hf, hg, h, decideGlob]

/-- The whole table of `decideGlob` on result shapes. -/
theorem decision_table (nullglob : Bool) :
    decideGlob nullglob (.error .syntax) = .keep ∧
    decideGlob nullglob (.ok []) = (if nullglob then .expand [] else .keep) ∧
    (∀ m ms, decideGlob nullglob (.ok (m :: ms)) = .expand (m :: ms)) ∧
    (∀ e, decideGlob nullglob (.error (.fs e)) = .fail (.fs e)) ∧
    decideGlob nullglob (.error .unsupported) = .fail .unsupported ∧
    decideGlob nullglob (.error .panic) = .fail .panic := by
  cases nullglob <;> simp [decideGlob]

/-! ## escapedGlobField -/

/-- A field made of quoted parts only is never globbed. -/
theorem quoted_field_never_globbed (f : Field) (h : ∀ p ∈ f, p.quoted = true) : escapedGlobField f = none := by
  unfold escapedGlobField
  have : f.any (fun p => !p.quoted && hasPatChar p.val) = false := by
    apply List.any_eq_false.mpr
    intro p hp
    simp [h p hp]
  simp [this]

/-- What reaches `glob`: the unquoted parts verbatim, and for quoted parts every character, with a
    backslash exactly on `* ? [ \` — provided no unquoted part ends in an unpaired backslash.
    (That `\c` is matched as the character `c` is the matcher's law, property C17.) -/
theorem escaped_glob_field_partial (f : Field)
    (h : ∀ p ∈ f, p.quoted = false → danglingBS p.val = false) :
    toks (escapeParts f) = f.flatMap (partToks isQuoteMetaSpecial) :=
  toks_escapeParts f h

/-- The full statement: every quoted character that means something in a pattern comes out escaped.
    FALSE today: `]`, `!`, `^`, `-` of a quoted part stay active inside a bracket expression that an
    unquoted `[` opened (counter-example below; `touch a; echo [a"]"` prints `a`, bash prints `[a]`). -/
def escaped_glob_field_statement : Prop :=
  ∀ f : Field, (∀ p ∈ f, p.quoted = false → danglingBS p.val = false) →
    toks (escapeParts f) = f.flatMap (partToks isPatSpecial)

def bracketField : Field := [⟨strOf "[a", false⟩, ⟨strOf "]", true⟩]

theorem escaped_glob_field_statement_false : ¬ escaped_glob_field_statement := by
  intro h
  have := h bracketField (by decide)
  revert this
  decide

/-- …and it matters: the field `[a"]"` is globbed with the pattern `[a]`, which matches `a`. -/
theorem escaped_glob_field_counterexample :
    escapedGlobField bracketField = some (strOf "[a]") ∧
    (match extMatcher (Cfg.mode ⟨false, false, false, false, false, false⟩) (strOf "[a]") with
      | .ok f => f (strOf "a") | _ => false) = true := by
  decide +kernel

/-- An unquoted part that ends in an unpaired backslash swallows the escape of what follows. -/
theorem dangling_backslash_counterexample :
    toks (escapeParts [⟨[cBS], false⟩, ⟨[cStar], true⟩]) = [(cBS, true), (cStar, false)] := by decide

/-! ## glob: order, and the componentwise specification -/

/-- The result of `glob` is sorted (byte order). -/
theorem glob_sorted (rd : Reader) (mk : Matcher) (cfg : Cfg) (base pat : Str) (l : List Str)
    (h : glob rd mk cfg base pat = .ok l) : Sorted l := by
  unfold glob at h
  simp only at h
  split at h
  · cases h
  · cases h
    exact dropEmptyHead_sorted (sortStrs_sorted _)

/-- Model = specification for patterns without an active `**`: a non-empty path is in the result
    iff it is selected component by component (`Sel`). -/
theorem glob_spec (rd : Reader) (mk : Matcher) (cfg : Cfg) (base pat : Str) (l : List Str)
    (hns : ∀ p ∈ patParts pat, isGlobStar cfg p = false)
    (h : glob rd mk cfg base pat = .ok l) (r : Str) (hr : r ≠ []) :
    r ∈ l ↔ Sel rd mk cfg base (patParts pat) (patStart pat) r := by
  unfold glob at h
  unfold patParts at hns ⊢
  unfold patStart
  by_cases hab : isAbs pat = true
  · simp only [hab, if_true] at h hns ⊢
    split at h
    · cases h
    · rename_i m hm
      cases h
      rw [mem_dropEmptyHead hr, mem_sortStrs, globLoop_sel _ _ _ hns hm r]
      simp
  · have hab' : isAbs pat = false := by simpa using hab
    simp only [hab', Bool.false_eq_true, if_false] at h hns ⊢
    split at h
    · cases h
    · rename_i m hm
      cases h
      rw [mem_dropEmptyHead hr, mem_sortStrs, globLoop_sel _ _ _ hns hm r]
      simp

/-- No duplicates, for patterns without an active `**`, over any directory reader that lists
    distinct, non-empty, slash-free names. -/
theorem glob_nodup_partial (rd : Reader) (mk : Matcher) (cfg : Cfg) (base pat : Str) (l : List Str)
    (hwf : ReaderWF rd) (hns : ∀ p ∈ patParts pat, isGlobStar cfg p = false)
    (h : glob rd mk cfg base pat = .ok l) : l.Nodup := by
  unfold glob at h
  unfold patParts at hns
  have hsf : ∀ p ∈ splitOn cSlash pat, cSlash ∉ p := splitOn_slashfree cSlash pat
  by_cases hab : isAbs pat = true
  · simp only [hab, if_true] at h hns
    split at h
    · cases h
    · rename_i m hm
      cases h
      have hl : Level .S [[cSlash]] := ⟨by simp, by intro d hd; simp at hd; subst hd; simp [HasShape, endsSlash]⟩
      have := globLoop_level hwf _ _ _ _ (fun p hp => hsf p (List.mem_of_mem_tail hp)) hns hl hm
      exact (dropEmptyHead_sublist _).nodup ((sortStrs_perm m).nodup_iff.mpr this)
  · have hab' : isAbs pat = false := by simpa using hab
    simp only [hab', Bool.false_eq_true, if_false] at h hns
    split at h
    · cases h
    · rename_i m hm
      cases h
      have hl : Level .E [[]] := ⟨by simp, by intro d hd; simp at hd; subst hd; simp [HasShape]⟩
      have := globLoop_level hwf _ _ _ _ hsf hns hl hm
      exact (dropEmptyHead_sublist _).nodup ((sortStrs_perm m).nodup_iff.mpr this)

/-- The full statement (every pattern): FALSE today — a second `**` walks again from every match of
    the first one (`**/**` lists `d/y` twice). -/
def glob_nodup_statement : Prop :=
  ∀ (rd : Reader) (mk : Matcher) (cfg : Cfg) (base pat : Str) (l : List Str),
    ReaderWF rd → glob rd mk cfg base pat = .ok l → l.Nodup

def starTree : Node := .dir [(strOf "w", .dir [(strOf "d", .dir [(strOf "y", .file)])])]
def cfgStar : Cfg := ⟨false, false, true, false, false, false⟩

theorem glob_nodup_counterexample :
    (match glob (readDir starTree) extMatcher cfgStar (strOf "/w") (strOf "**/**") with
      | .ok l => l == [strOf "d", strOf "d/", strOf "d/y", strOf "d/y"]
      | .error _ => false) = true := by decide +kernel

theorem glob_nodup_statement_false : ¬ glob_nodup_statement := by
  intro h
  have hwf : ReaderWF (readDir starTree) := readDir_wf starTree (by decide)
  have hc := glob_nodup_counterexample
  cases hg : glob (readDir starTree) extMatcher cfgStar (strOf "/w") (strOf "**/**") with
  | error e => simp [hg] at hc
  | ok l =>
    simp only [hg] at hc
    have hl : l = [strOf "d", strOf "d/", strOf "d/y", strOf "d/y"] := by simpa using hc
    have := h _ _ _ _ _ _ hwf hg
    rw [hl] at this
    revert this
    decide

/-- Model = specification for EVERY pattern, `**` included: whenever `glob` returns a list (the walk
    finished within its fuel and no directory read failed), a non-empty path is in it iff it is
    selected component by component, where a `**` component under globstar selects what the walk can
    reach (`StarReach`: the prefix with a trailing slash, then repeatedly the entries — directories only
    when more components follow, no leading dot unless dotglob — of anything reached).  `SelStar`,
    `StarReach` are defined in Proofs/C19Star.lean.  No side condition: this is about the model (= the
    code, by the tie); where `**` differs from bash is findings C19-globstar-follows-symlink,
    C19-globstar-repeated (`glob_nodup_statement_false`), C19-globstar-zero-match-slash. -/
def glob_spec_globstar_statement : Prop :=
  ∀ (rd : Reader) (mk : Matcher) (cfg : Cfg) (base pat : Str) (l : List Str),
    glob rd mk cfg base pat = .ok l → ∀ r, r ≠ [] →
      (r ∈ l ↔ SelStar rd mk cfg base (patParts pat) (patStart pat) r)

theorem glob_spec_globstar : glob_spec_globstar_statement := by
  intro rd mk cfg base pat l h r hr
  unfold glob at h
  unfold patParts patStart
  by_cases hab : isAbs pat = true
  · simp only [hab, if_true] at h ⊢
    split at h
    · cases h
    · rename_i m hm
      cases h
      rw [mem_dropEmptyHead hr, mem_sortStrs, globLoop_selStar _ _ _ hm r]
      simp
  · have hab' : isAbs pat = false := by simpa using hab
    simp only [hab', Bool.false_eq_true, if_false] at h ⊢
    split at h
    · cases h
    · rename_i m hm
      cases h
      rw [mem_dropEmptyHead hr, mem_sortStrs, globLoop_selStar _ _ _ hm r]
      simp

/-- The walk itself: when it finishes, it has visited exactly the start prefixes and everything
    reachable from them (each at least once; see `glob_nodup_statement_false` for "more than once"). -/
theorem star_walk_visits (rd : Reader) (base : Str) (dotglob wantDir : Bool) (fuel : Nat)
    (start out : List Str) (h : starWalk rd base dotglob wantDir fuel start [] = some out) (x : Str) :
    x ∈ out ↔ ∃ d ∈ start, StarReach rd base dotglob wantDir d x := by
  rw [starWalk_mem fuel start [] out h x]
  simp

/-! ## non-vacuity -/

def demoTree : Node :=
  .dir [(strOf "w", .dir [(strOf "a", .file), (strOf "b", .file), (strOf "x", .dir [(strOf "a*", .file), (strOf "ab", .file)])])]

def cfg0 : Cfg := ⟨false, false, false, false, false, false⟩

def okIs (r : Except FErr (List Str)) (l : List Str) : Bool :=
  match r with
  | .ok x => x == l
  | .error _ => false

example : okIs (fields (readDir demoTree) extMatcher cfg0 (strOf "/w") [.unq (strOf "*")])
    [strOf "a", strOf "b", strOf "x"] = true := by decide +kernel
example : okIs (fields (readDir demoTree) extMatcher cfg0 (strOf "/w") [.unq (strOf "x/a"), .dq (strOf "*")])
    [strOf "x/a*"] = true := by decide +kernel
example : okIs (fields (readDir demoTree) extMatcher cfg0 (strOf "/w") [.unq (strOf "q*")])
    [strOf "q*"] = true := by decide +kernel
example : okIs (fields (readDir demoTree) extMatcher { cfg0 with nullglob := true } (strOf "/w") [.unq (strOf "q*")])
    [] = true := by decide +kernel
example : okIs (fields (readDir demoTree) extMatcher { cfg0 with noglob := true } (strOf "/w") [.unq (strOf "*")])
    [strOf "*"] = true := by decide +kernel

end ShVerif.C19
