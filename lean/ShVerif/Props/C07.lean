/-
  C07 — Parsing does not depend on how input bytes arrive.   (work in progress: skeleton)
-/
import ShVerif.Model.C07
import ShVerif.Gen.C07
namespace ShVerif.Props.C07
open ShVerif ShVerif.L2 ShVerif.C07

/-! ## parser_is_client — table obligation over the regenerated selector-use facts -/

/-- the functions of package syntax that the byte-source model covers, per field of Parser -/
def allowed : List (String × List String) := [
  ("bs",      ["errPass", "fill", "newLit", "next", "peek", "peekTwo", "reset", "rune", "zshNumRange"]),
  ("bsp",     ["errPass", "fill", "newLit", "next", "nextPos", "peek", "peekTwo", "reset", "rune", "zshNumRange"]),
  ("litBs",   ["Incomplete", "advanceLitHdoc", "advanceLitNone", "endLit", "isLitRedir", "newLit", "next",
               "quotedHdocWord", "reset", "rune", "wordPart"]),
  ("offs",    ["fill", "nextPos", "reset"]),
  ("readBuf", ["fill"]),
  ("readEOF", ["fill", "reset", "rune"]),
  ("readErr", ["fill", "reset"]),
  ("src",     ["Arithmetic", "Document", "Parse", "StmtsSeq", "WordsSeq", "fill"])]

def subsetOf (xs ys : List String) : Bool := xs.all fun x => ys.contains x

def clientOK (acc : List (String × List String)) : Bool :=
  acc.all fun (field, fns) =>
    match allowed.lookup field with
    | some ok => subsetOf fns ok
    | none => false

theorem parser_is_client : clientOK Gen.C07.byteAccess = true := by decide +kernel

end ShVerif.Props.C07
