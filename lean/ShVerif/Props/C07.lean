/-
  C07 — Parsing does not depend on how input bytes arrive.

  The byte source of the lexer (Model/L2ByteSrc.lean, tied to syntax/lexer.go on every run) is
  run over *schedules*: the chunk lengths an io.Reader may legally return, zero-length reads
  included, `io.EOF` with or after the last bytes.  The lexer/parser above it is a client
  program `Prog α` over the primitives.  `specRun` runs the same program on the unchunked
  machine of Model/C07.lean, which has no buffer and no schedule.

  Proved (for the code after fix commits 5478a01 f64c543 ef3ade7 bc3fd85 b35c36c): every client that
  stays inside the stated protocol (`InProtocol`, computed on the unchunked machine alone) gets the
  same results from the chunked byte source under every schedule — `io.EOF` with or after the
  last bytes.  Exactly three things remain excluded (`Admissible`), each with a counter-example
  theorem below: (a) reading on after the stop-word test fired (by design: the lexer has been told
  to stop and `fill` refuses to read), (b) `nextPos` after an error (`errPass` parks the cursor at
  `len(p.bs)+1`, whatever the buffer holds), (c) the residual defect C07-zshnumrange-long: a
  positive `zshNumRange` answer that is not decided by the first 64 bytes.  The two places where Go
  panics (`zshNumRange` at the end of input, `endLit` on a too short literal) panic under every
  schedule alike and are outcomes of `client_sched_indep_partial`, not exclusions.
-/
import ShVerif.Proofs.C07Full
import ShVerif.Gen.C07
namespace ShVerif.Props.C07
open ShVerif ShVerif.L2 ShVerif.C07

/-! ## parser_is_client — table obligation over the regenerated selector-use facts -/

/-- the methods of syntax.Parser that the byte-source model covers, per field -/
def allowed : List (String × List String) := [
  ("bs",      ["errPass", "fill", "newLit", "next", "peek", "peekTwo", "reset", "rune", "zshNumRange"]),
  ("bsp",     ["errPass", "fill", "newLit", "next", "nextPos", "peek", "peekTwo", "reset", "rune", "zshNumRange"]),
  ("litBs",   ["Incomplete", "advanceLitHdoc", "advanceLitNone", "endLit", "isLitRedir", "newLit", "next",
               "quotedHdocWord", "reset", "rune", "wordPart"]),
  ("offs",    ["fill", "nextPos", "reset"]),
  ("readBuf", ["fill"]),
  ("readEOF", ["fill", "reset", "rune"]),
  ("readErr", ["fill", "reset"]),
  ("src",     ["Arithmetic", "Document", "Parse", "StmtsSeq", "WordsSeq", "fill"])]

def subsetOf (xs ys : List String) : Bool := xs.all fun x => ys.contains x

def clientOK (acc : List (String × List String)) : Bool :=
  acc.all fun (field, fns) =>
    match allowed.lookup field with
    | some ok => subsetOf fns ok
    | none => false

/-- `p.bs`, `p.bsp`, `p.readBuf`, `p.src`, `p.readErr`, `p.readEOF`, `p.offs` are mentioned only
    inside the modelled primitives (and the entry points that set `p.src`); `p.litBs` only inside
    the functions whose accesses are the `litGet`/`litAppend`/`litDrop`/`newLit`/`endLit` client
    operations. -/
theorem parser_is_client : clientOK Gen.C07.byteAccess = true := by decide +kernel

/-- `Parser.next` is the only function allowed above that is not wholly a modelled primitive: it may
    mention `p.bs` / `p.bsp` exactly as often as its stop-word test does (4 times each: the lookahead
    loop condition and the prefix comparison).  Any further direct access to the buffer from the
    token-level lexer (a fast path that skips `rune`, say) has to be reviewed and modelled. -/
theorem next_touches_buffer_only_in_stop_test :
    Gen.C07.nextMentions = [("bs", 4), ("bsp", 4)] := by decide

/-! ## the simulation relation -/

/-- Two states of the chunked byte source (different schedules, different buffers) that present
    the same logical state: same remaining input, same consumed offset / line / column, same
    `r, w`, same literal buffer. -/
def Sim (s₁ s₂ : St) : Prop := ∃ a, R s₁ a ∧ R s₂ a

theorem sim_init (input : List Byte) (sc₁ sc₂ : List Nat) (e₁ e₂ : Bool) (stop : List Byte)
    (hs : stop.length ≤ 4) :
    Sim (init input sc₁ e₁ stop) (init input sc₂ e₂ stop) :=
  ⟨LSt.init input stop, R_init _ _ _ _ hs, R_init _ _ _ _ hs⟩

/-- observable outcome of a run: the result, or `none` for a Go panic / hang -/
def outcome {α : Type} (x : M (α × St)) : Option α :=
  match x with
  | .ok (v, _) => some v
  | .error _ => none

/-! ## primitives -/

/-- `Sim`-related and the stop-word test has not fired -/
def Live (s₁ s₂ : St) : Prop := ∃ a, R s₁ a ∧ R s₂ a ∧ a.halted = false

/-- full statement (still false because of `zshNumRange`, see `prim_sched_indep_fails`): every
    primitive maps `Sim`-related states to equal results, for all schedules -/
def prim_sched_indep_statement : Prop :=
  ∀ (s₁ s₂ : St), Sim s₁ s₂ →
    (outcome s₁.rune = outcome s₂.rune) ∧ (outcome s₁.peek = outcome s₂.peek) ∧
    (outcome (s₁.peekTwo.map fun x => ((x.1, x.2.1), x.2.2))
      = outcome (s₂.peekTwo.map fun x => ((x.1, x.2.1), x.2.2))) ∧
    (outcome s₁.zshNum = outcome s₂.zshNum) ∧
    (∀ r, outcome (s₁.stopAt r) = outcome (s₂.stopAt r))

theorem live_ok {s₁ s₂ : St} (h : Live s₁ s₂) :
    ∃ a, R s₁ a ∧ R s₂ a ∧ a.halted = false ∧ a.ok = true := by
  obtain ⟨a, h1, h2, hh⟩ := h
  exact ⟨{ a with ok := true }, h1.setOk true, h2.setOk true, hh, rfl⟩

/-- **`rune` does not depend on the schedule** (as long as the stop word has not fired). -/
theorem rune_sched_indep {s₁ s₂ : St} (h : Live s₁ s₂) :
    ∃ v s₁' s₂', s₁.rune = .ok (v, s₁') ∧ s₂.rune = .ok (v, s₂') ∧ Sim s₁' s₂' := by
  obtain ⟨a, h1, h2, hh, hk⟩ := live_ok h
  have hok := rune_ok_of_live hk hh
  obtain ⟨s1', e1, r1⟩ := rune_refines h1 hok
  obtain ⟨s2', e2, r2⟩ := rune_refines h2 hok
  exact ⟨_, s1', s2', e1, e2, _, r1, r2⟩

/-- **`peek` does not depend on the schedule.** -/
theorem peek_sched_indep {s₁ s₂ : St} (h : Live s₁ s₂) :
    ∃ v s₁' s₂', s₁.peek = .ok (v, s₁') ∧ s₂.peek = .ok (v, s₂') ∧ Sim s₁' s₂' := by
  obtain ⟨a, h1, h2, hh, hk⟩ := live_ok h
  have hok := peek_ok_of_live hk hh
  obtain ⟨s1', e1, r1⟩ := peek_refines h1 hok
  obtain ⟨s2', e2, r2⟩ := peek_refines h2 hok
  exact ⟨_, s1', s2', e1, e2, _, r1, r2⟩

/-- **`peekTwo` does not depend on the schedule** (since f64c543). -/
theorem peekTwo_sched_indep {s₁ s₂ : St} (h : Live s₁ s₂) :
    ∃ v w s₁' s₂', s₁.peekTwo = .ok (v, w, s₁') ∧ s₂.peekTwo = .ok (v, w, s₂') ∧ Sim s₁' s₂' := by
  obtain ⟨a, h1, h2, hh, hk⟩ := live_ok h
  have hok := peekTwo_ok_of_live hk hh
  obtain ⟨s1', e1, r1⟩ := peekTwo_refines h1 hok
  obtain ⟨s2', e2, r2⟩ := peekTwo_refines h2 hok
  exact ⟨_, _, s1', s2', e1, e2, _, r1, r2⟩

/-- **The stop-word test does not depend on the schedule** (since b35c36c). -/
theorem stopAt_sched_indep {s₁ s₂ : St} (r : Nat) (h : Live s₁ s₂) :
    ∃ v s₁' s₂', s₁.stopAt r = .ok (v, s₁') ∧ s₂.stopAt r = .ok (v, s₂') ∧ Sim s₁' s₂' := by
  obtain ⟨a, h1, h2, hh, hk⟩ := live_ok h
  have hok := stopAt_ok_of_live r hk hh
  obtain ⟨s1', e1, r1⟩ := stopAt_refines h1 r hok
  obtain ⟨s2', e2, r2⟩ := stopAt_refines h2 r hok
  exact ⟨_, s1', s2', e1, e2, _, r1, r2⟩

/-- **`newLit` does not depend on the schedule, nor on the buffer** (since cb62b3c): no hypothesis. -/
theorem newLit_sched_indep {s₁ s₂ : St} (r : Nat) (h : Sim s₁ s₂) :
    ∃ s₁' s₂', s₁.newLit r = .ok s₁' ∧ s₂.newLit r = .ok s₂' ∧ Sim s₁' s₂' := by
  obtain ⟨a, h1, h2⟩ := h
  obtain ⟨s1', e1, r1⟩ := newLit_refines h1 r
  obtain ⟨s2', e2, r2⟩ := newLit_refines h2 r
  exact ⟨s1', s2', e1, e2, _, r1, r2⟩

/-- `zshNumRange` does not depend on the schedule when a positive answer is decided within the
    first 64 bytes (residual finding C07-zshnumrange-long otherwise) … -/
theorem zshNum_sched_indep_partial {s₁ s₂ : St} {a : LSt} (h1 : R s₁ a) (h2 : R s₂ a)
    (hh : a.halted = false) (hr : a.r ≠ runeEOF)
    (hcut : St.zshScan a.rest = .yes → St.zshScan (a.rest.take 64) = .yes) :
    ∃ v s₁' s₂', s₁.zshNum = .ok (v, s₁') ∧ s₂.zshNum = .ok (v, s₂') ∧ Sim s₁' s₂' := by
  have hok : ({ a with ok := true } : LSt).zshNum.2.ok = true :=
    (zshNum_ok_iff _).mpr ⟨rfl, hh, hr, hcut⟩
  obtain ⟨s1', e1, r1⟩ := zshNum_refines (h1.setOk true) hok
  obtain ⟨s2', e2, r2⟩ := zshNum_refines (h2.setOk true) hok
  exact ⟨_, s1', s2', e1, e2, _, r1, r2⟩

/-- … and at the end of input (`p.r == runeEOF`, cursor past the buffer) it panics under every
    schedule alike. -/
theorem zshNum_at_eof_panics {s₁ s₂ : St} {a : LSt} (h1 : R s₁ a) (h2 : R s₂ a)
    (hh : a.halted = false) (hr : a.r = runeEOF) :
    outcome s₁.zshNum = none ∧ outcome s₂.zshNum = none := by
  obtain ⟨f1, e1⟩ := zshNum_panics h1 hr hh
  obtain ⟨f2, e2⟩ := zshNum_panics h2 hr hh
  rw [e1, e2]; exact ⟨rfl, rfl⟩

/-! ## client programs -/

/-- full statement (still false, see `client_sched_indep_fails`): any client, any two schedules of
    the same bytes — EOF with or after the last data — same result -/
def client_sched_indep_statement : Prop :=
  ∀ (α : Type) (p : Prog α) (input stop : List Byte) (sc₁ sc₂ : List Nat) (e₁ e₂ : Bool),
    outcome (p.run (init input sc₁ e₁ stop)) = outcome (p.run (init input sc₂ e₂ stop))

/-- **The chunked byte source refines the unchunked one**: inside the protocol, under every
    schedule (EOF with or after the last data), a client gets exactly the results of the
    schedule-free machine. -/
theorem client_refines_spec {α : Type} (p : Prog α) (input stop : List Byte) (sc : List Nat)
    (e : Bool) (hs : stop.length ≤ 4) (hp : InProtocol p input stop) :
    ∃ s', p.run (init input sc e stop) = .ok ((specRun p (LSt.init input stop)).1, s') := by
  obtain ⟨s', h, _⟩ := client_refines p (R_init input sc e stop hs) hp
  exact ⟨s', h⟩

/-- **Schedule independence of client programs** (the property, on the byte layer): for every
    input, every stop word, every two read schedules (any chunk lengths, zero-length reads,
    `io.EOF` with or after the last bytes) and every client program over
    {rune, peek, peekTwo, zshNumRange, stop-word test, newLit, endLit, nextPos, literal-buffer and
    error operations} that is `Admissible` — (a) no reading after the stop word fired, (b) no
    `nextPos` after an error, (c) no positive `zshNumRange` answer beyond 64 bytes — both runs give
    the same result, or both panic (`zshNumRange` at the end of input, `endLit` on a too short
    literal). -/
theorem client_sched_indep_partial {α : Type} (p : Prog α) (input stop : List Byte)
    (sc₁ sc₂ : List Nat) (e₁ e₂ : Bool) (hs : stop.length ≤ 4) (hp : Admissible p input stop) :
    outcome (p.run (init input sc₁ e₁ stop)) = (specRunF p (LSt.init input stop)).result ∧
    outcome (p.run (init input sc₂ e₂ stop)) = (specRunF p (LSt.init input stop)).result := by
  have h1 := client_refinesF p (R_init input sc₁ e₁ stop hs) hp
  have h2 := client_refinesF p (R_init input sc₂ e₂ stop hs) hp
  cases hr : specRunF p (LSt.init input stop) with
  | done v a =>
    rw [hr] at h1 h2
    obtain ⟨s1, e1, _⟩ := h1
    obtain ⟨s2, e2, _⟩ := h2
    rw [e1, e2]; exact ⟨rfl, rfl⟩
  | panic a =>
    rw [hr] at h1 h2
    obtain ⟨f1, e1⟩ := h1
    obtain ⟨f2, e2⟩ := h2
    rw [e1, e2]; exact ⟨rfl, rfl⟩

/-- the corollary in the words of the property -/
theorem client_sched_indep_any_two {α : Type} (p : Prog α) (input stop : List Byte)
    (sc₁ sc₂ : List Nat) (e₁ e₂ : Bool) (hs : stop.length ≤ 4) (hp : Admissible p input stop) :
    outcome (p.run (init input sc₁ e₁ stop)) = outcome (p.run (init input sc₂ e₂ stop)) := by
  obtain ⟨h1, h2⟩ := client_sched_indep_partial p input stop sc₁ sc₂ e₁ e₂ hs hp
  rw [h1, h2]

/-- C06 on the byte layer: inside the protocol no primitive panics (index / slice bounds), hangs
    in `fill`, or exhausts the model's recursion budget. -/
theorem bytesrc_no_panic {α : Type} (p : Prog α) (input stop : List Byte) (sc : List Nat)
    (e : Bool) (hs : stop.length ≤ 4) (hp : InProtocol p input stop) :
    ∀ f, p.run (init input sc e stop) ≠ .error f := by
  obtain ⟨s', h⟩ := client_refines_spec p input stop sc e hs hp
  intro f hf
  rw [h] at hf
  cases hf

/-- C09 on the byte layer, upper bound: under every schedule, after a client that stays inside the
    protocol and as long as no error was raised, `nextPos` (raw: `p.offs + p.bsp - p.w`, counting
    skipped NUL bytes, CR of CR LF, escaped newlines and unescaped backquote backslashes) does not
    point past the end of the input — the end-of-input position is exactly `len(input)` however
    the end was discovered. -/
theorem bytesrc_pos_inv {α : Type} (p : Prog α) (input stop : List Byte) (sc : List Nat)
    (e : Bool) (hs : stop.length ≤ 4) (hp : InProtocol p input stop) :
    ∃ v s', p.run (init input sc e stop) = .ok (v, s') ∧
      (s'.err = none → s'.nextPos.1 ≤ input.length) := by
  obtain ⟨s', h, hR⟩ := client_refines p (R_init input sc e stop hs) hp
  refine ⟨_, s', h, ?_⟩
  intro he
  have hal : (specRun p (LSt.init input stop)).2.err = none := by rw [hR.f_err]; exact he
  rw [nextPos_eq hR hal]
  exact nextPos_le p input stop hal

/-- the lower bound `0 ≤ nextPos` (stated only): it needs the client to apply the stop-word test
    to the rune just read — a client that calls it with another rune before reading anything gets
    `p.w = 1` at offset 0 -/
def bytesrc_pos_nonneg_statement : Prop :=
  ∀ (α : Type) (p : Prog α) (input stop : List Byte), InProtocol p input stop →
    (specRun p (LSt.init input stop)).2.err = none →
    0 ≤ (specRun p (LSt.init input stop)).2.nextPos.1

/-- `newLit` (since cb62b3c: `utf8.AppendRune(p.litBuf[:0], r)`) never receives the replacement rune
    of an invalid byte: when `DecodeRune` answers `(RuneError, 1)`, `rune` raises "invalid UTF-8
    encoding" and returns `runeEOF`, whose literal is empty.  So the encoding written by `newLit` is
    always that of a validly decoded rune — the bytes it had in the input (checked against the
    source bytes by the harness, `c07NewLitBytes`). -/
theorem invalid_byte_never_reaches_newLit (a : LSt) (ha : a.err = none)
    (hd : decodeRune a.rest = (runeError, 1)) :
    (LSt.runeDecode a).r = runeEOF ∧ (LSt.runeDecode a).err ≠ none :=
  runeDecode_invalid a ha hd

/-- the stop-word test applied to `a` before anything was read, stop word `a`, empty input -/
def pStopFirst : Prog Int := .stopAt 97 fun _ => .pos fun o _ _ => .ret o

theorem pos_nonneg_fails : ¬ bytesrc_pos_nonneg_statement := by
  intro h
  have := h Int pStopFirst [] [97] (by unfold InProtocol; decide +kernel) (by decide +kernel)
  revert this
  decide +kernel

/-! ## the five fixed defects: the old witnesses now agree on the model -/

/-- `r := rune(); zshNumRange()` -/
def pZsh : Prog Bool := .rune fun _ => .zshNum fun b => .ret b
/-- `peekTwo()` with nothing buffered -/
def pPeekTwo : Prog (Nat × Nat) := .peekTwo fun x y => .ret (x, y)
/-- `r := rune(); stop-word test for r` -/
def pStop : Prog Bool := .rune fun r => .stopAt r fun b => .ret b
/-- inside one level of backquotes: third rune -/
def pBquote : Prog Nat := .setBquotes 1 0 (.rune fun _ => .rune fun _ => .rune fun r => .ret r)
/-- `rune(); rune(); nextPos()` : the offset of the end of input -/
def pEofPos : Prog Int := .rune fun _ => .rune fun _ => .pos fun o _ _ => .ret o

/-- fixed ef3ade7: `<->` all at once and as `<-` + `>` -/
theorem fixed_zshNum :
    outcome (pZsh.run (init [60, 45, 62] [] false)) = some true ∧
    outcome (pZsh.run (init [60, 45, 62] [2] false)) = some true := by decide +kernel

/-- fixed f64c543: `ab` all at once and as `a` + `b` -/
theorem fixed_peekTwo :
    outcome (pPeekTwo.run (init [97, 98] [] false)) = some (97, 98) ∧
    outcome (pPeekTwo.run (init [97, 98] [1] false)) = some (97, 98) := by decide +kernel

/-- fixed b35c36c: stop word `$$`, input `$$` all at once and as `$` + `$` -/
theorem fixed_stopAt :
    outcome (pStop.run (init [36, 36] [] false [36, 36])) = some true ∧
    outcome (pStop.run (init [36, 36] [1] false [36, 36])) = some true := by decide +kernel

/-- fixed bc3fd85: five backslashes and `$` inside backquotes, all at once and split before `$` -/
theorem fixed_rune_bquote :
    outcome (pBquote.run (init [92, 92, 92, 92, 92, 36] [] false)) = some 36 ∧
    outcome (pBquote.run (init [92, 92, 92, 92, 92, 36] [5] false)) = some 36 := by decide +kernel

/-- fixed 5478a01: `a`; EOF by a separate read and together with the byte -/
theorem fixed_eofWith_pos :
    outcome (pEofPos.run (init [97] [] false)) = some 1 ∧
    outcome (pEofPos.run (init [97] [] true)) = some 1 := by decide +kernel

/-! ## the residual counter-example (open finding C07-zshnumrange-long) -/

/-- `<`, 64 digits, `->` -/
def longRange : List Byte := 60 :: (List.replicate 64 49 ++ [45, 62])

/-- all at once: a numeric range glob; one byte at a time: not -/
theorem zshNum_long_sched_dep :
    outcome (pZsh.run (init longRange [] false)) = some true ∧
    outcome (pZsh.run (init longRange (List.replicate 70 1) false)) = some false := by decide +kernel

/-! ## the other two exclusions are needed as well -/

/-- `r := rune(); stop-word test; rune()` with stop word `$` on `$ab` -/
def pAfterStop : Prog Nat := .rune fun r => .stopAt r fun _ => .rune fun x => .ret x
/-- `rune(); errPass; nextPos()` on `abc` -/
def pPosAfterErr : Prog Int := .rune fun _ => .errPass (.pos fun o _ _ => .ret o)

/-- (a) after the stop word fired `fill` refuses to read: `rune` sees the bytes that happen to be
    buffered (`a` when read at once) or the end of input (one byte at a time) -/
theorem rune_after_stop_sched_dep :
    outcome (pAfterStop.run (init [36, 97, 98] [] false [36])) = some 97 ∧
    outcome (pAfterStop.run (init [36, 97, 98] [1, 1, 1] false [36])) = some runeEOF := by
  decide +kernel

/-- (b) after an error the cursor is parked at `len(p.bs)+1`: `nextPos` is the buffer length -/
theorem pos_after_error_sched_dep :
    outcome (pPosAfterErr.run (init [97, 98, 99] [] false)) = some 3 ∧
    outcome (pPosAfterErr.run (init [97, 98, 99] [1, 1, 1] false)) = some 1 := by
  decide +kernel

theorem client_sched_indep_fails : ¬ client_sched_indep_statement := by
  intro h
  have := h Bool pZsh longRange [] [] (List.replicate 70 1) false false
  rw [zshNum_long_sched_dep.1, zshNum_long_sched_dep.2] at this
  cases this

theorem prim_sched_indep_fails : ¬ prim_sched_indep_statement := by
  intro h
  -- the two states after one `rune()` over the long range, read at once and one byte at a time
  obtain ⟨v, s1, s2, e1, e2, hs⟩ :=
    rune_sched_indep ⟨LSt.init longRange [], R_init longRange [] false [] (by decide),
      R_init longRange (List.replicate 70 1) false [] (by decide), rfl⟩
  have hz := (h s1 s2 hs).2.2.2.1
  have a1 := zshNum_long_sched_dep.1
  have a2 := zshNum_long_sched_dep.2
  unfold pZsh at a1 a2
  simp only [Prog.run, e1, e2, bind_ok] at a1 a2
  have o1 : outcome s1.zshNum = some true := by
    cases hh : s1.zshNum with
    | error f => rw [hh] at a1; simp [outcome] at a1
    | ok x => rw [hh] at a1; simpa [outcome] using a1
  have o2 : outcome s2.zshNum = some false := by
    cases hh : s2.zshNum with
    | error f => rw [hh] at a2; simp [outcome] at a2
    | ok x => rw [hh] at a2; simpa [outcome] using a2
  rw [o1, o2] at hz
  cases hz

/-! ## non-vacuity: the protocol is satisfiable by programs that use every lookahead primitive -/

/-- `rune; peekTwo; zshNumRange; rune; newLit(r); rune; endLit; stop-word test; nextPos` -/
def pDemo : Prog (Nat × Nat × Bool × List Byte × Bool × Int) :=
  .rune fun _ => .peekTwo fun _ y => .zshNum fun z => .rune fun r => .newLit r (.rune fun x =>
    .endLit fun l => .stopAt x fun st => .pos fun o _ _ => .ret (r, y, z, l, st, o))

example : InProtocol pDemo [92, 10, 195, 169, 120, 0, 121] [120, 121] := by
  unfold InProtocol; decide +kernel

example : (specRun pDemo (LSt.init [92, 10, 195, 169, 120, 0, 121] [120, 121])).1
    = (233, 169, false, [195, 169], false, 4) := by
  decide +kernel

example : Admissible pDemo [92, 10, 195, 169, 120, 0, 121] [120, 121] := by
  unfold Admissible; decide +kernel

/-- an admissible client that panics (under every schedule): `rune(); endLit()` without `newLit` -/
def pShortLit : Prog (List Byte) := .rune fun _ => .endLit fun l => .ret l

example : Admissible pShortLit [97] [] ∧ (specRunF pShortLit (LSt.init [97] [])).result = none := by
  unfold Admissible; decide +kernel

end ShVerif.Props.C07
