import ShVerif.Model.C30
import ShVerif.Gen.C30
import ShVerif.Expect.C30
import ShVerif.Proofs.C30
/-
  C30 — Runner reuse is equivalent to a fresh runner.

  Part A: obligations about the tables regenerated from /repo/interp on every run (struct Runner,
          Runner.Reset, every write site of a Runner field), decided over the complete tables.
  Part B: `Reset` on the regenerated table only depends on the stable (configuration) fields.
  Part C: one Run per top-level statement vs one Run of the whole file (own small model, tied to
          the real Runner by the `file`/`incr` correspondence streams).
-/
namespace ShVerif.Props.C30
open ShVerif.C30 ShVerif.Gen.C30 ShVerif.Expect.C30

/-! ### Part A — regenerated table obligations -/

/-- Every field of the regenerated `Runner` struct is classified in `Expect/C30.lean` and `Reset`
    treats it as its class demands: zeroed fields are absent from the `*r = Runner{…}` literal and
    never given a value afterwards; restored fields take the matching `orig*` field, which is itself
    kept and was captured from that very field under `!r.didReset`; configuration fields keep their
    own value and are written before the literal only under `!r.didReset`; kept stores are emptied
    and re-seeded from settled fields only; rebuilt fields get a fresh value of settled fields.
    A new field that Reset neither zeroes nor the expectation classifies breaks this. -/
theorem reset_fields :
    runnerFields.all (fieldClassified expect reset) = true
      ∧ (expect.map (·.1)).all runnerFields.contains = true ∧ noDup (expect.map (·.1)) = true := by
  decide +kernel

/-- The frame of `Reset`: exactly one `Runner{…}` literal, assigned to `*r` (so every field not in
    it is zeroed), keyed by real fields without duplicates; no statement the scan did not
    understand; no method call on the runner before the literal and only `setVar`/`setVarString`
    after it. -/
theorem reset_frame : resetFrameOk reset allowedPostCalls = true := by
  decide +kernel

/-- The stable fields (`orig*`, handlers, `Env`, `tempDir`, `usedNew`) are written only by the
    constructors' literals, by `Reset` under `!r.didReset`, or by the closure of the matching
    RunnerOption; their address is never taken and no element of them is assigned.  The restored
    slice `Params` (which shares its backing array with `origParams`) is only ever replaced, never
    written element-wise. -/
theorem orig_stable :
    sites.all (fun s => !(isStable expect s.field || s.field = "*")
                          || siteOk optionSetters foreignWrites constructors s) = true
      ∧ sites.all (fun s => !aliasedRestored.contains s.field || s.kind = "assign" || s.kind = "literal") = true := by
  decide +kernel

/-- What `Run` does to the Runner on every call, besides running the node: it writes exactly
    `exit` (zeroed, unconditionally), `filename` and `lastExit` (`= r.exit`, unconditionally), calls
    `Reset` only under `!r.didReset`, and otherwise only `fillExpandConfig`, the node runners and
    `trapCallback`.  Every other field — loop control counts, options, traps, functions, aliases,
    parameters, directory — is left exactly as the previous call left it, which is what makes one
    `Run` per top-level statement equal to the whole-file loop (Part C models these three writes).
    A new per-call reset of a field that a whole-file run keeps between statements breaks this. -/
theorem run_prologue :
    runWrites.all (fun w => (runWritesExpected.any fun x => x.1 = w.field) && w.op = "assign") = true
      ∧ runWritesExpected.all (fun x => runWrites.any fun w => w.field = x.1) = true
      ∧ (runWrites.filter fun w => w.field = "exit").all (fun w => w.guards = [] && w.val.kind = "fresh") = true
      ∧ (runWrites.filter fun w => w.field = "lastExit").all (fun w => w.guards = [] && w.val.kind = "self" && w.val.field = "exit") = true
      ∧ runCalls.all (fun c => runCallsExpected.contains c.name) = true
      ∧ (runCalls.filter fun c => c.name = "Reset").all (fun c => c.guards = ["notDidReset"]) = true := by
  decide +kernel

/-! ### Part B — Reset only depends on the stable fields -/

/-- Interpreting the regenerated Reset table symbolically (`resetSym`: the literal, then the
    writes after it), the observable value of every field after `Reset` (backing stores of emptied
    slices/maps dropped) is the same for any two runner states that agree on the stable fields —
    whatever history produced them, in particular a fresh runner's. -/
theorem reset_equiv (s1 s2 : AState) (h : ∀ f, isStable expect f = true → s1 f = s2 f) :
    ∀ f ∈ runnerFields, ((resetSym reset f).obs).eval s1 = ((resetSym reset f).obs).eval s2 := by
  have tbl : runnerFields.all (dependsOnlyOn reset (isStable expect)) = true := by decide +kernel
  intro f hf
  exact reset_congr reset (isStable expect) f (List.all_eq_true.mp tbl f hf) s1 s2 h

/-! ### Part C — statement at a time vs whole file -/

/-- nobody reads `$0`: neither the program, nor its EXIT traps, nor a trap already installed -/
def NoArg0 (ss : List Stmt) (s : St) : Prop :=
  ss.all (fun c => !usesArg0 c) = true ∧ s.trap.all (fun c => !usesArg0Simple c) = true

/-- "Running a file's top-level statements one Run call at a time, stopping once Exited reports
    true, gives the same output, variables and final status as running the whole file, except for
    the EXIT trap, which only a whole-file run triggers." -/
def IncrementalAt (name : String) (ss : List Stmt) (s0 : St) : Prop :=
  let w := runFile name ss s0
  let i := runIncr ss s0
  (i.exit.exiting = true → w.obs = i.obs)
  ∧ (i.exit.exiting = false →
      w.obs = (trapCallback i).obs ∧ w.exit.code = i.exit.code ∧ (i.trap = [] → w.obs = i.obs))

/-- the full statement: false of the model, and of the code, because of `$0` (see below) -/
def incremental_statement : Prop :=
  ∀ (name : String) (ss : List Stmt) (s0 : St), Fresh s0 → IncrementalAt name ss s0

theorem incremental_unnamed (ss : List Stmt) (s0 : St) (h : Fresh s0) : IncrementalAt "" ss s0 := by
  obtain ⟨hinv, hfn, hpro⟩ := fresh_inv h
  obtain ⟨c1, c2⟩ := incr_core ss s0 hinv hfn
  have hw : runFile "" ss s0 = trapCallback (fixLast (stmts s0 ss)) := by rw [run_file_eq, hpro]
  refine ⟨fun he => ?_, fun he => ?_⟩
  · show (runFile "" ss s0).obs = _
    rw [hw, c1 he]
  · obtain ⟨e, hi⟩ := c2 he
    have hw' : runFile "" ss s0 = trapCallback (runIncr ss s0) := by
      rw [hw, ← e, fixLast_of_last (by rw [e]; exact hi.last)]
    refine ⟨by show (runFile "" ss s0).obs = _; rw [hw'], ?_, fun ht => ?_⟩
    · show (runFile "" ss s0).exit.code = _
      rw [hw', trapCallback_exit]
    · show (runFile "" ss s0).obs = _
      rw [hw']
      unfold trapCallback
      rw [if_pos ht]

/-- The property, with the one extra hypothesis it needs: the file has no name, or nobody reads
    `$0`. -/
theorem incremental_partial (name : String) (ss : List Stmt) (s0 : St) (h : Fresh s0)
    (hn : name = "" ∨ NoArg0 ss s0) : IncrementalAt name ss s0 := by
  cases hn with
  | inl e => subst e; exact incremental_unnamed ss s0 h
  | inr hna =>
    have hu := incremental_unnamed ss s0 h
    have ht : trapOk s0 = true := by
      simpa [trapOk, simpleOk] using hna.2
    have e := runFile_nf name ss s0 hna.1 ht
    have eo : (runFile name ss s0).obs = (runFile "" ss s0).obs := by rw [← e, obs_nf]
    have ec : (runFile name ss s0).exit.code = (runFile "" ss s0).exit.code := by rw [← e]; rfl
    unfold IncrementalAt at hu ⊢
    simp only at hu ⊢
    rw [eo, ec]
    exact hu

/-- a runner state between two `Run` calls: what `Run`'s own prologue does not establish itself -/
def Ready (s : St) : Prop := s.lastExit = .zero ∧ s.handlingTrap = false

/-- The per-call footprint of the model's `run`: running nothing changes exactly `exit`, `filename`
    and `lastExit` (the fields listed in `modelRunWrites`). -/
theorem run_frame (s : St) :
    run s none [] = { s with exit := .zero, filename := "", lastExit := .zero } := by
  simp [run, stmts, pro, fixLast, Exit.zero]

/-- The regenerated table of `Runner.Run` and the model agree on that footprint: the fields the real
    `Run` writes on every call are exactly the ones the model's prologue/epilogue write.  This is
    what lets `incremental_ready` drop two hypotheses: `exit` and `filename` need not be assumed of
    the starting state because `Run` itself establishes them at every call. -/
theorem run_prologue_model :
    runWrites.all (fun w => modelRunWrites.contains w.field) = true
      ∧ modelRunWrites.all (fun f => runWrites.any fun w => w.field = f) = true := by
  decide +kernel

/-- `incremental_partial` with the hypotheses about `exit` and `filename` discharged by the
    prologue (`run_frame` / `run_prologue_model`): for a non-empty file it suffices that the runner
    is between two calls (`lastExit` zero, not inside a trap — both `zeroed` by Reset, Part A).
    The remaining hypothesis `name = "" ∨ NoArg0` is the open finding C30-arg0-stmt-at-a-time. -/
theorem incremental_ready (name : String) (c : Stmt) (r : List Stmt) (s0 : St) (h : Ready s0)
    (hn : name = "" ∨ NoArg0 (c :: r) s0) : IncrementalAt name (c :: r) s0 := by
  have hf : Fresh (pro "" s0) := ⟨rfl, h.1, h.2, rfl⟩
  have hp := incremental_partial name (c :: r) (pro "" s0) hf hn
  have e1 : runFile name (c :: r) (pro "" s0) = runFile name (c :: r) s0 := rfl
  have e2 : runIncr (c :: r) (pro "" s0) = runIncr (c :: r) s0 := rfl
  unfold IncrementalAt at hp ⊢
  rw [e1, e2] at hp
  exact hp

/-- With a named file, `echo $0` prints the name in a whole-file run and "gosh" statement by
    statement (`Run` sets `r.filename` only for a `*syntax.File`): the full statement fails.
    Replayed on the Go code by corpus/C30-known.txt. -/
theorem incremental_counterexample : ¬ incremental_statement := by
  intro h
  have := (h "f.sh" [.simple .echo0] St.fresh ⟨rfl, rfl, rfl, rfl⟩).2 (by decide)
  exact absurd this.1 (by decide)

/-- The executable statement of the property used by the `specincr` stream (whole-file semantics
    without the end-of-file EXIT trap) is what the model's statement-at-a-time run observes. -/
theorem spec_incr (name : String) (ss : List Stmt) (s0 : St) (h : Fresh s0)
    (hn : name = "" ∨ NoArg0 ss s0) : specIncr name ss s0 = (runIncr ss s0).obs := by
  obtain ⟨hinv, hfn, hpro⟩ := fresh_inv h
  obtain ⟨c1, c2⟩ := incr_core ss s0 hinv hfn
  -- reduce to the unnamed file
  have red : specIncr name ss s0 = specIncr "" ss s0 := by
    cases hn with
    | inl e => rw [e]
    | inr hna =>
      have ht : trapOk s0 = true := by simpa [trapOk, simpleOk] using hna.2
      obtain ⟨e1, t1⟩ := stmts_nf ss (pro name s0) hna.1 ht
      have e0 : pro "" s0 = nf (pro name s0) := rfl
      have e2 : fixLast (stmts (pro "" s0) ss) = nf (fixLast (stmts (pro name s0) ss)) := by
        rw [e0, e1]; rfl
      unfold specIncr
      simp only
      rw [e2]
      have t1' : trapOk (fixLast (stmts (pro name s0) ss)) = true := by simpa [trapOk, fixLast] using t1
      by_cases hx : (fixLast (stmts (pro name s0) ss)).exit.exiting = true
      · have hx' : (nf (fixLast (stmts (pro name s0) ss))).exit.exiting = true := hx
        rw [if_pos hx, if_pos hx', trapCallback_nf _ t1', obs_nf]
      · have hx' : ¬ (nf (fixLast (stmts (pro name s0) ss))).exit.exiting = true := hx
        rw [if_neg hx, if_neg hx', obs_nf]
  rw [red]
  unfold specIncr
  simp only
  rw [hpro]
  cases he : (runIncr ss s0).exit.exiting with
  | true =>
    have e := c1 he
    have hx : (fixLast (stmts s0 ss)).exit.exiting = true := by
      rw [← trapCallback_exit, e, he]
    rw [if_pos hx, e]
  | false =>
    obtain ⟨e, hi⟩ := c2 he
    have hf : fixLast (stmts s0 ss) = runIncr ss s0 := by
      rw [← e, fixLast_of_last (by rw [e]; exact hi.last)]
    rw [hf, he]
    simp

/-! ### non-vacuity -/

example : Fresh St.fresh := ⟨rfl, rfl, rfl, rfl⟩

/-- the EXIT trap fires at the end of a whole-file run only; an `exit` fires it in both -/
example :
    (runFile "" [.trapExit [.echo "bye"], .simple (.echo "hi")] St.fresh).out = ["hi", "bye"]
    ∧ (runIncr [.trapExit [.echo "bye"], .simple (.echo "hi")] St.fresh).out = ["hi"]
    ∧ (runIncr [.trapExit [.echo "bye"], .simple (.exit (some 3)), .simple (.echo "no")] St.fresh).obs
        = ⟨["bye"], [], 3⟩ := by decide

/-- the stable set is a proper, non-empty part of the fields; states may differ elsewhere -/
example : isStable expect "origDir" = true ∧ isStable expect "Funcs" = false ∧ isStable expect "Dir" = false := by
  decide

end ShVerif.Props.C30
