import ShVerif.Gen.C03
import ShVerif.Model.C03
import ShVerif.Props.C01
/-
  C03 — Formatting never changes what a script does.
  (1) `sem_invariant`: any semantics that factors through the normal form is preserved by a
      parse/print pair that round-trips up to the normal form — the abstract shape of the argument;
      C01's `roundtrip` theorem discharges its hypothesis on the proved fragment.
  (2) `interp_ignores_cosmetics`: the interpreter and the expander never read a field that
      formatting is allowed to change (regenerated selector table, decided on every run).
  (3) `format_preserves_run`: the concrete instance.  Trees = the L4 fragment F0 with the model
      printer and parser of syntax/ (C01's `roundtrip_partial` is the law), semantics = the L5
      model of `interp.Runner` on the reading `toL5` of the tree: for every option set, every
      variant and every F0 tree with non-decreasing line numbers, the formatted text parses to a
      tree that runs to the same output and exit status, for every fuel.  The composed model is
      tied to the real parser + interpreter by the `run` stream and the statement itself is
      executed on both sides by the `specfmt` stream.
-/
namespace ShVerif.C03
open ShVerif.Gen.C03

/-- Abstract formatting pipeline. -/
structure Pipeline (Tree Bytes Opts Err : Type) where
  print : Opts → Tree → Except Err Bytes
  parse : Bytes → Except Err Tree
  norm : Tree → Tree
  /-- the round-trip law (C01) -/
  roundtrip : ∀ o t b, print o t = .ok b → ∃ t', parse b = .ok t' ∧ norm t' = norm t

/-- If running a program only depends on its normal form, the formatted program behaves the same
    for every printer option set. -/
theorem sem_invariant {Tree Bytes Opts Err β : Type} (P : Pipeline Tree Bytes Opts Err)
    (sem : Tree → β) (hsem : ∀ t t', P.norm t = P.norm t' → sem t = sem t')
    (o : Opts) (t : Tree) (b : Bytes) (hp : P.print o t = .ok b) :
    ∃ t', P.parse b = .ok t' ∧ sem t' = sem t := by
  obtain ⟨t', h1, h2⟩ := P.roundtrip o t b hp
  exact ⟨t', h1, hsem t' t h2⟩

/-- …and formatting twice (e.g. Minify after a default format) still preserves behaviour. -/
theorem sem_invariant_twice {Tree Bytes Opts Err β : Type} (P : Pipeline Tree Bytes Opts Err)
    (sem : Tree → β) (hsem : ∀ t t', P.norm t = P.norm t' → sem t = sem t')
    (o₁ o₂ : Opts) (t : Tree) (b₁ b₂ : Bytes) (t₁ : Tree)
    (h1 : P.print o₁ t = .ok b₁) (hp : P.parse b₁ = .ok t₁) (h2 : P.print o₂ t₁ = .ok b₂) :
    ∃ t₂, P.parse b₂ = .ok t₂ ∧ sem t₂ = sem t := by
  obtain ⟨t₂, hq, hs⟩ := sem_invariant P sem hsem o₂ t₁ b₂ h2
  obtain ⟨t₁', hq1, hs1⟩ := sem_invariant P sem hsem o₁ t b₁ h1
  have : t₁' = t₁ := by rw [hp] at hq1; cases hq1; rfl
  subst this
  exact ⟨t₂, hq, hs.trans hs1⟩

/-- non-vacuity: a tiny pipeline (trees = lists of words, print joins with spaces or newlines,
    parse splits, norm = id) satisfies the structure's law -/
example : ∃ _ : Pipeline (List Nat) (List Nat) Bool Unit, True :=
  ⟨{ print := fun _ t => .ok t, parse := fun b => .ok b, norm := id,
     roundtrip := by intro o t b h; cases h; exact ⟨_, rfl, rfl⟩ }, trivial⟩

/-- Reads that are not cosmetic although the name matches, each with its reason. -/
def allowed : List (String × String × String) :=
  [ ("interp", "Runner.readLine", "Time"),   -- `time.Time`, the Go package, not TimeClause.Time
    ("interp", "Runner.builtin", "Time"),    -- `time.Time{}` (mapfile's read deadline reset, fix 5c04a9d), the Go package again
    ("interp", "Runner.cmd", "InPos"),       -- `for x; do` vs `for x in …`: presence of `in` is semantic and printed
    ("expand", "Config.wordField", "Dollar"),  -- SglQuoted/DblQuoted.Dollar (bool): $'…' is semantic and printed
    ("expand", "Config.wordFields", "Dollar") ]

/-- No function of packages interp or expand reads a comment field, a formatting flag
    (Backquotes, Bracket, Braces, Short) or a position field of a syntax node, apart from the
    justified list. A new read breaks this obligation. -/
theorem interp_ignores_cosmetics :
    uses.all (fun (pkg, fn, field, _, _) => allowed.contains (pkg, fn, field)) = true
      ∧ searched.length > 20 := by
  decide +kernel

/-! ## The concrete instance: L4 printer/parser, L5 interpreter -/

open ShVerif.L4 in
/-- Pipelines whose round-trip law holds on a domain of trees. -/
structure PipelineOn (Tree Bytes Opts Err N : Type) where
  print : Opts → Tree → Except Err Bytes
  parse : Bytes → Except Err Tree
  norm : Tree → N
  dom : Tree → Prop
  roundtrip : ∀ o t b, dom t → print o t = .ok b → ∃ t', parse b = .ok t' ∧ norm t' = norm t

theorem sem_invariant_on {Tree Bytes Opts Err N β : Type} (P : PipelineOn Tree Bytes Opts Err N)
    (sem : Tree → β) (hsem : ∀ t t', P.norm t = P.norm t' → sem t = sem t')
    (o : Opts) (t : Tree) (b : Bytes) (hd : P.dom t) (hp : P.print o t = .ok b) :
    ∃ t', P.parse b = .ok t' ∧ sem t' = sem t := by
  obtain ⟨t', h1, h2⟩ := P.roundtrip o t b hd hp
  exact ⟨t', h1, hsem t' t h2⟩

/-- The model of mvdan/sh's printer and parser on F0 is such a pipeline, in every variant; its
    law is C01's theorem. -/
def l4Pipeline (l : L4.Lang) : PipelineOn L4.File ShVerif.Bytes L4.Opts L4.PrintErr L4.NStmts where
  print := L4.printFile
  parse := fun b => match L4.parse l b with
    | .ok f => .ok f
    | .error _ => .error .panic     -- the error kind is irrelevant here
  norm := L4.File.norm
  dom := fun f => f.wf = true ∧ L4.posMono f ∧ f.stmts ≠ .nil
  roundtrip := by
    intro o t b ⟨hwf, hmono, hne⟩ hp
    obtain ⟨f', h1, h2⟩ := ShVerif.Props.C01.roundtrip_partial o l t b hwf hmono hne hp
    exact ⟨f', by simp [h1], h2⟩

/-- reading a tree as an L5 program depends on its normal form only -/
theorem toL5_norm (f f' : L4.File) (h : f'.norm = f.norm) : toL5 f' = toL5 f := by
  unfold toL5; rw [h]

/-- …and the normal form's merging of adjacent literals does not change the field a word stands
    for: `toL5` reads the tree's words by plain quote removal. -/
theorem fieldOf_normParts (ps : List L4.WordPart) : fieldOf (L4.normParts ps) = fieldOfParts ps := by
  induction ps with
  | nil => rfl
  | cons p rest ih =>
    cases p with
    | sgl l r v => simp [L4.normParts, fieldOf, fieldOfParts, ih]
    | lit a e v =>
      simp only [L4.normParts, fieldOfParts]
      rw [← ih]
      split
      · rename_i v' r heq; rw [heq]; simp [fieldOf]
      · simp [fieldOf]

/-- **Formatting preserves behaviour (fragment F0 ∩ L5)**: for every printer option set `o`, every
    variant `l` and every well-formed F0 tree with non-decreasing line numbers, the printed text
    parses again, and the re-parsed program runs — in the model of `interp.Runner` — to the same
    output and exit status as the original, whatever the fuel. -/
theorem format_preserves_run (o : L4.Opts) (l : L4.Lang) (f : L4.File) (b : ShVerif.Bytes)
    (hwf : f.wf = true) (hmono : L4.posMono f) (hne : f.stmts ≠ .nil)
    (hp : L4.printFile o f = .ok b) :
    ∃ f', L4.parse l b = .ok f' ∧ ∀ fuel, runL4 fuel f' = runL4 fuel f := by
  obtain ⟨f', h1, h2⟩ := sem_invariant_on (l4Pipeline l) (fun t => toL5 t)
    (fun t t' h => toL5_norm t' t h) o f b ⟨hwf, hmono, hne⟩ hp
  refine ⟨f', ?_, fun fuel => by unfold runL4; rw [h2]⟩
  simp only [l4Pipeline] at h1
  split at h1
  · rename_i g hg; cases h1; exact hg
  · cases h1

/-- The same from source text, with no hypothesis on the tree: if `src` parses (in the model
    parser of syntax/) to `f` — the empty file included — the formatted text of `f` parses to a
    tree that runs to the same output and exit status.  Well-formedness and non-decreasing line
    numbers of `f` come from C01's `parse_WF` (through `roundtrip_src`). -/
theorem format_preserves_run_src (o : L4.Opts) (l : L4.Lang) (src : ShVerif.Bytes) (f : L4.File) (b : ShVerif.Bytes)
    (hsrc : L4.parse l src = .ok f) (hp : L4.printFile o f = .ok b) :
    ∃ f', L4.parse l b = .ok f' ∧ ∀ fuel, runL4 fuel f' = runL4 fuel f := by
  obtain ⟨f', h1, h2⟩ := ShVerif.Props.C01.roundtrip_src o l src f b hsrc hp
  exact ⟨f', h1, fun fuel => by unfold runL4; rw [toL5_norm f f' h2]⟩

/-- **Formatting source text preserves behaviour, with no side condition**: every F0 source that
    parses, formatted with any option set that is not the refused one, yields text that parses and
    runs (model of `interp.Runner`) to the same output and exit status. -/
theorem format_preserves_run_src_total (o : L4.Opts) (hr : L4.refuse o = false) (l : L4.Lang)
    (src : ShVerif.Bytes) (f : L4.File) (hsrc : L4.parse l src = .ok f) :
    ∃ b f', L4.printFile o f = .ok b ∧ L4.parse l b = .ok f' ∧ ∀ fuel, runL4 fuel f' = runL4 fuel f := by
  obtain ⟨b, f', hb, h1, h2⟩ := ShVerif.Props.C01.roundtrip_src_total o hr l src f hsrc
  exact ⟨b, f', hb, h1, fun fuel => by unfold runL4; rw [toL5_norm f f' h2]⟩

/-- …and formatting the formatted text again (e.g. Minify after a default format, in another
    variant) still preserves it: the second input is itself parser output, so C01's `parse_WF`
    applies to it. -/
theorem format_twice_preserves_run_src (o₁ o₂ : L4.Opts) (l₁ l₂ : L4.Lang) (src : ShVerif.Bytes)
    (f : L4.File) (b₁ b₂ : ShVerif.Bytes) (f₁ : L4.File)
    (hsrc : L4.parse l₁ src = .ok f) (h1 : L4.printFile o₁ f = .ok b₁)
    (hp1 : L4.parse l₂ b₁ = .ok f₁) (h2 : L4.printFile o₂ f₁ = .ok b₂) :
    ∃ f₂, L4.parse l₂ b₂ = .ok f₂ ∧ ∀ fuel, runL4 fuel f₂ = runL4 fuel f := by
  obtain ⟨f₁', hq, hr1⟩ := format_preserves_run_src o₁ l₂ src f b₁ (by
    -- the first formatting is judged in variant l₂ as well: parsing F0 does not depend on the variant
    exact (by cases l₁ <;> cases l₂ <;> exact hsrc)) h1
  have : f₁' = f₁ := by rw [hp1] at hq; cases hq; rfl
  subst this
  obtain ⟨f₂, hq2, hr2⟩ := format_preserves_run_src o₂ l₂ b₁ f₁' b₂ hp1 h2
  exact ⟨f₂, hq2, fun fuel => (hr2 fuel).trans (hr1 fuel)⟩

/-- …and unless the option set is the refused one (Minify with SingleLine) there is such a text. -/
theorem format_preserves_run_total (o : L4.Opts) (hr : L4.refuse o = false) (l : L4.Lang) (f : L4.File)
    (hwf : f.wf = true) (hmono : L4.posMono f) (hne : f.stmts ≠ .nil) :
    ∃ b f', L4.printFile o f = .ok b ∧ L4.parse l b = .ok f' ∧ ∀ fuel, runL4 fuel f' = runL4 fuel f := by
  obtain ⟨b, hb⟩ := ShVerif.Props.C01.print_total o hr f hwf
  obtain ⟨f', h1, h2⟩ := format_preserves_run o l f b hwf hmono hne hb
  exact ⟨b, f', hb, h1, h2⟩

/-- In particular the observable behaviour of the *text* is preserved: what `runSrc` reports for
    the formatted text is what the original tree runs to. -/
theorem format_preserves_obs (o : L4.Opts) (l : L4.Lang) (f : L4.File) (b : ShVerif.Bytes)
    (hwf : f.wf = true) (hmono : L4.posMono f) (hne : f.stmts ≠ .nil)
    (hp : L4.printFile o f = .ok b) (p : L5.Prog) (hin : toL5 f = some p) (fuel : Nat) :
    runSrc fuel l b = match L5.runFile fuel p with
      | none => .fuel
      | some (out, st) => .ran out st := by
  obtain ⟨f', h1, h2⟩ := sem_invariant_on (l4Pipeline l) (fun t => toL5 t)
    (fun t t' h => toL5_norm t' t h) o f b ⟨hwf, hmono, hne⟩ hp
  have hparse : L4.parse l b = .ok f' := by
    simp only [l4Pipeline] at h1
    split at h1
    · rename_i g hg; cases h1; exact hg
    · cases h1
  unfold runSrc
  rw [hparse]; simp only [h2, hin]
  cases L5.runFile fuel p with
  | none => rfl
  | some r => cases r; rfl

/-- non-vacuity, and a pinned run of the composed model: `echo 'a  b'; false || exit 3` prints
    `a  b` and returns 3; the same after minifying. -/
example : runSrc 50 .bash (bytesOf "echo 'a  b'; false || exit 3\n")
    = .ran [97, 32, 32, 98, 10] 3 := by decide +kernel

example : specFormat 50 { minify := true } .bash (bytesOf "echo 'a  b'; ( false ) || exit 3\n") = "same" := by
  decide +kernel

end ShVerif.C03
