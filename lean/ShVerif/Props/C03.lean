import ShVerif.Gen.C03
/-
  C03 — Formatting never changes what a script does.
  (1) `sem_invariant`: any semantics that factors through the normal form is preserved by a
      parse/print pair that round-trips up to the normal form — the abstract shape of the argument;
      C01's `roundtrip` theorem discharges its hypothesis on the proved fragment.
  (2) `interp_ignores_cosmetics`: the interpreter and the expander never read a field that
      formatting is allowed to change (regenerated selector table, decided on every run).
-/
namespace ShVerif.C03
open ShVerif.Gen.C03

/-- Abstract formatting pipeline. -/
structure Pipeline (Tree Bytes Opts Err : Type) where
  print : Opts → Tree → Except Err Bytes
  parse : Bytes → Except Err Tree
  norm : Tree → Tree
  /-- the round-trip law (C01) -/
  roundtrip : ∀ o t b, print o t = .ok b → ∃ t', parse b = .ok t' ∧ norm t' = norm t

/-- If running a program only depends on its normal form, the formatted program behaves the same
    for every printer option set. -/
theorem sem_invariant {Tree Bytes Opts Err β : Type} (P : Pipeline Tree Bytes Opts Err)
    (sem : Tree → β) (hsem : ∀ t t', P.norm t = P.norm t' → sem t = sem t')
    (o : Opts) (t : Tree) (b : Bytes) (hp : P.print o t = .ok b) :
    ∃ t', P.parse b = .ok t' ∧ sem t' = sem t := by
  obtain ⟨t', h1, h2⟩ := P.roundtrip o t b hp
  exact ⟨t', h1, hsem t' t h2⟩

/-- …and formatting twice (e.g. Minify after a default format) still preserves behaviour. -/
theorem sem_invariant_twice {Tree Bytes Opts Err β : Type} (P : Pipeline Tree Bytes Opts Err)
    (sem : Tree → β) (hsem : ∀ t t', P.norm t = P.norm t' → sem t = sem t')
    (o₁ o₂ : Opts) (t : Tree) (b₁ b₂ : Bytes) (t₁ : Tree)
    (h1 : P.print o₁ t = .ok b₁) (hp : P.parse b₁ = .ok t₁) (h2 : P.print o₂ t₁ = .ok b₂) :
    ∃ t₂, P.parse b₂ = .ok t₂ ∧ sem t₂ = sem t := by
  obtain ⟨t₂, hq, hs⟩ := sem_invariant P sem hsem o₂ t₁ b₂ h2
  obtain ⟨t₁', hq1, hs1⟩ := sem_invariant P sem hsem o₁ t b₁ h1
  have : t₁' = t₁ := by rw [hp] at hq1; cases hq1; rfl
  subst this
  exact ⟨t₂, hq, hs.trans hs1⟩

/-- non-vacuity: a tiny pipeline (trees = lists of words, print joins with spaces or newlines,
    parse splits, norm = id) satisfies the structure's law -/
example : ∃ _ : Pipeline (List Nat) (List Nat) Bool Unit, True :=
  ⟨{ print := fun _ t => .ok t, parse := fun b => .ok b, norm := id,
     roundtrip := by intro o t b h; cases h; exact ⟨_, rfl, rfl⟩ }, trivial⟩

/-- Reads that are not cosmetic although the name matches, each with its reason. -/
def allowed : List (String × String × String) :=
  [ ("interp", "Runner.readLine", "Time"),   -- `time.Time`, the Go package, not TimeClause.Time
    ("interp", "Runner.builtin", "Time"),    -- `time.Time{}` (mapfile's read deadline reset, fix 5c04a9d), the Go package again
    ("interp", "Runner.cmd", "InPos"),       -- `for x; do` vs `for x in …`: presence of `in` is semantic and printed
    ("expand", "Config.wordField", "Dollar"),  -- SglQuoted/DblQuoted.Dollar (bool): $'…' is semantic and printed
    ("expand", "Config.wordFields", "Dollar") ]

/-- No function of packages interp or expand reads a comment field, a formatting flag
    (Backquotes, Bracket, Braces, Short) or a position field of a syntax node, apart from the
    justified list. A new read breaks this obligation. -/
theorem interp_ignores_cosmetics :
    uses.all (fun (pkg, fn, field, _, _) => allowed.contains (pkg, fn, field)) = true
      ∧ searched.length > 20 := by
  decide +kernel

end ShVerif.C03
