import ShVerif.Model.L3Glob
import ShVerif.Proofs.L3Glob
import ShVerif.Proofs.C18
/-
  C18 — QuoteMeta and HasMeta are consistent with matching.

  `globMatch` is the reference semantics of shell patterns (Model/L3Glob §5), `quoteMeta`, `hasMeta`
  the models of pattern.QuoteMeta / pattern.HasMeta (tied to the Go code by exhaustive
  correspondence), `sameText m t s` is `t = s` — up to case when the mode folds case.
-/
namespace ShVerif.C18
open ShVerif ShVerif.L3

/-- QuoteMeta(s) is a pattern that matches s and nothing else, for every mode that matches the
    entire string.  FALSE of the code today for modes with ExtendedOperators (see the
    counter-example below and known finding C18-quotemeta-extglob). -/
def quoteMeta_exact_statement : Prop :=
  ∀ (m : Mode) (s t : Str), m.entire = true → (globMatch m (quoteMeta s) t = true ↔ sameText m t s)

/-- HasMeta p = false → p matches at most one string: p with its escapes removed.
    FALSE of the code today for modes with ExtendedOperators (known finding C18-hasmeta-extglob). -/
def hasMeta_single_statement : Prop :=
  ∀ (m : Mode) (p t : Str), m.entire = true → hasMeta p = false → globMatch m p t = true →
    sameText m t (unescape p)

/-- What "the pattern matches t as the text s" means in a mode: with EntireString, t is s (up to
    case when the mode folds case); without it — the regexp is unanchored — s occurs in t. -/
def matchedText (m : Mode) (t s : Str) : Prop :=
  if m.entire = true then sameText m t s else ∃ a b c, t = a ++ b ++ c ∧ sameText m b s

/-- QuoteMeta(s) matches s and nothing else — in **every** mode, anchored or not.  The one
    remaining hypothesis is exact (finding C18-quotemeta-extglob): the mode has no extended
    operators, or the text has no `!(`, `+(`, `@(` (the operators QuoteMeta leaves unescaped). -/
theorem quoteMeta_exact_partial (m : Mode) (s t : Str)
    (hx : m.ext = false ∨ hasExtOpener s = false) :
    globMatch m (quoteMeta s) t = true ↔ matchedText m t s := by
  unfold globMatch parseGlob matchedText
  rw [parseSeq_quoteMeta m s _ 0 (Nat.lt_succ_of_le (quoteMeta_length_ge s)) hx]
  cases he : m.entire with
  | true =>
    simp only [if_true]
    rw [gmatch_full_iff, GDen_litSeq m s 0 true t (fun _ => .inl rfl)]
  | false =>
    simp only [Bool.false_eq_true, if_false]
    rw [search_iff]
    constructor
    · rintro ⟨a, b, c, h, hd⟩
      exact ⟨a, b, c, h, (GDen_litSeq m s 0 true b (fun _ => .inl rfl)).mp hd⟩
    · rintro ⟨a, b, c, h, hd⟩
      exact ⟨a, b, c, h, (GDen_litSeq m s 0 true b (fun _ => .inl rfl)).mpr hd⟩

/-- Without case folding: QuoteMeta(s) matches exactly s. -/
theorem quoteMeta_exact_partial_eq (m : Mode) (s t : Str) (he : m.entire = true)
    (hn : m.nocase = false) (hx : m.ext = false ∨ hasExtOpener s = false) :
    globMatch m (quoteMeta s) t = true ↔ t = s := by
  rw [quoteMeta_exact_partial m s t hx, ← sameText_eq hn]
  simp [matchedText, he]

/-- QuoteMeta(s) has no metacharacters according to HasMeta. -/
theorem quoteMeta_no_meta (s : Str) : hasMeta (quoteMeta s) = false :=
  hasMetaAux_quoteMeta s

/-- A pattern for which HasMeta is false matches at most its unescaped text — in **every** mode
    (anchored: t is that text; unanchored: that text occurs in t).  The one remaining hypothesis
    is exact (finding C18-hasmeta-extglob): the mode has no extended operators, or the pattern
    has no unescaped `?(`, `*(`, `+(`, `@(`, `!(`. -/
theorem hasMeta_single_partial (m : Mode) (p t : Str)
    (hm : hasMeta p = false) (hx : m.ext = false ∨ hasExtGroup p = false)
    (h : globMatch m p t = true) : matchedText m t (unescape p) := by
  unfold globMatch parseGlob at h
  unfold matchedText
  rcases parseSeq_noMeta m (p.length + 1) false 0 p (Nat.lt_succ_self _) hm hx with hp | ⟨e, hp⟩
  · rw [hp] at h
    cases he : m.entire with
    | true =>
      simp only [he, if_true] at h ⊢
      rw [gmatch_full_iff, GDen_litSeq m (unescape p) 0 true t (fun _ => .inl rfl)] at h
      exact h
    | false =>
      simp only [he, Bool.false_eq_true, if_false] at h ⊢
      rw [search_iff] at h
      obtain ⟨a, b, c, ht, hd⟩ := h
      exact ⟨a, b, c, ht, (GDen_litSeq m (unescape p) 0 true b (fun _ => .inl rfl)).mp hd⟩
  · rw [hp] at h
    cases h

/-- Without case folding: at most one string, the unescaped pattern. -/
theorem hasMeta_single_partial_eq (m : Mode) (p t : Str) (he : m.entire = true)
    (hn : m.nocase = false) (hm : hasMeta p = false) (hx : m.ext = false ∨ hasExtGroup p = false)
    (h : globMatch m p t = true) : t = unescape p :=
  (sameText_eq hn _ _).mp (by simpa [matchedText, he] using hasMeta_single_partial m p t hm hx h)

def mCase : Mode := Mode.ofNat 68   -- EntireString | ExtendedOperators: the mode of `case` and [[ ]]

/-- Counter-example to the full statement: QuoteMeta("@(a)") = "@(a)" matches "a", and not
    "@(a)", under the mode of `case`. -/
theorem quoteMeta_exact_counterexample : ¬ quoteMeta_exact_statement := by
  intro h
  have h1 := (h mCase (strOf "@(a)") (strOf "a") (by decide)).mp (by decide +kernel)
  have h2 := sameText_length h1
  revert h2
  decide +kernel

/-- Counter-example to the full statement: HasMeta("@(a|b)") = false, yet the pattern matches
    "a" (and "b"), which is not its unescaped text. -/
theorem hasMeta_single_counterexample : ¬ hasMeta_single_statement := by
  intro h
  have h1 := h mCase (strOf "@(a|b)") (strOf "a") (by decide) (by decide +kernel) (by decide +kernel)
  have h2 := sameText_length h1
  revert h2
  decide +kernel

/-! Non-vacuity: the hypotheses are satisfiable and the conclusions are not trivially true. -/
example : globMatch (Mode.ofNat 4) (quoteMeta (strOf "a*[b]\\")) (strOf "a*[b]\\") = true := by
  decide +kernel
example : globMatch (Mode.ofNat 4) (quoteMeta (strOf "a*")) (strOf "ab") = false := by decide +kernel
example : hasMeta (strOf "a\\*[b") = false ∧ globMatch (Mode.ofNat 4) (strOf "a\\*[b") (strOf "a*[b") = true := by
  decide +kernel
example : globMatch (Mode.ofNat 0) (quoteMeta (strOf "a*")) (strOf "xa*y") = true ∧
    globMatch (Mode.ofNat 0) (quoteMeta (strOf "a*")) (strOf "xaay") = false := by decide +kernel
example : hasExtOpener (strOf "?(a)*(b)") = false ∧ hasExtOpener (strOf "@(a)") = true := by decide +kernel

end ShVerif.C18
