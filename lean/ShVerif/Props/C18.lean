import ShVerif.Model.L3Glob
import ShVerif.Proofs.L3Glob
/-
  C18 — QuoteMeta and HasMeta are consistent with matching.
-/
namespace ShVerif.C18
open ShVerif ShVerif.L3

/-- "The same text", up to case when the mode folds case. -/
def sameText (m : Mode) (t s : Str) : Prop :=
  t.length = s.length ∧ ∀ i (h : i < t.length) (h' : i < s.length), chEq m.nocase s[i] t[i] = true

/-- QuoteMeta(s) is a pattern that matches s and nothing else — for every mode that matches the
    entire string.  FALSE today for modes with ExtendedOperators (counter-example below). -/
def quoteMeta_exact_statement : Prop :=
  ∀ (m : Mode) (s t : Str), m.entire = true → (globMatch m (quoteMeta s) t = true ↔ sameText m t s)

/-- HasMeta p = false → p matches at most one string: p with its escapes removed.
    FALSE today for modes with ExtendedOperators (counter-example below). -/
def hasMeta_single_statement : Prop :=
  ∀ (m : Mode) (p t : Str), m.entire = true → hasMeta p = false → globMatch m p t = true →
    sameText m t (unescape p)

def mCase : Mode := Mode.ofNat 68   -- EntireString | ExtendedOperators: the mode of `case` and [[ ]]

/-- Counter-example: QuoteMeta("@(a)") = "@(a)" matches "a" under the mode of `case`. -/
theorem quoteMeta_exact_counterexample :
    globMatch mCase (quoteMeta (strOf "@(a)")) (strOf "a") = true ∧
    globMatch mCase (quoteMeta (strOf "@(a)")) (strOf "@(a)") = false := by decide +kernel

/-- Counter-example: HasMeta("@(a|b)") = false, yet the pattern matches "a" and "b". -/
theorem hasMeta_single_counterexample :
    hasMeta (strOf "@(a|b)") = false ∧ globMatch mCase (strOf "@(a|b)") (strOf "a") = true ∧
    globMatch mCase (strOf "@(a|b)") (strOf "b") = true := by decide +kernel

end ShVerif.C18
