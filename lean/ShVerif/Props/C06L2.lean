import ShVerif.Props.C06
import ShVerif.Proofs.C07Pos
/-
  C06 on the byte-source layer: `bytesrc_no_panic_statement` (stated in Props/C06.lean without
  importing anything) instantiated with the L2 model and discharged by C07's refinement theorem
  `client_refines` + `R_init` (Proofs/C07Client.lean) — the same two-line argument as
  `ShVerif.Props.C07.bytesrc_no_panic`; the Proofs layer is imported rather than Props/C07.lean so
  that this file does not rebuild whenever C07's own property file is edited.  Read-only use of
  lean/ShVerif/Model/L2ByteSrc.lean, Model/C07.lean and Proofs/C07*.lean.
-/
namespace ShVerif.C06
open ShVerif ShVerif.L2 ShVerif.C07

/-- A client program over the byte-source primitives (`rune`, `peek`, `peekTwo`, `zshNumRange`,
    the stop-word test, `newLit`, `endLit`, `nextPos`, reads of `p.r`/`p.w`/`p.litBs`, `errPass` …)
    *faults* on `input` delivered in chunks `sched` (EOF together with the last bytes iff `eofWith`)
    when
      * the stop word fits `StopAt`'s contract (at most four bytes),
      * the client stays inside the protocol — computed on the schedule-free machine alone:
        `InProtocol p input stop` = `(specRun p (LSt.init input stop)).2.ok = true`, which excludes
        exactly: reading on after the stop-word test fired, `endLit` with fewer literal bytes than
        the width of the current rune, `nextPos` after an error, `zshNumRange` at `runeEOF` or with
        a positive answer that needs more than 64 bytes —
      * and yet some primitive returns a `Fault`: an index or slice out of range
        (`p.bs[p.bsp]`, `p.bs[p.bsp-w:]`, `p.litBs[:len-p.w]`), `fill` spinning on a full buffer,
        or the model's recursion budget running out. -/
def l2Faults (α : Type) (stop : List Byte) (eofWith : Bool) :
    List UInt8 → List Nat → Prog α → Prop :=
  fun input sched p =>
    stop.length ≤ 4 ∧ InProtocol p input stop ∧ ∃ f, p.run (init input sched eofWith stop) = .error f

/-- **bytesrc_no_panic** (the statement of Props/C06.lean, now a theorem): for every input, every
    read schedule, EOF with or after the last bytes, every stop word and every client inside the
    protocol, no primitive of the byte source panics or hangs. -/
theorem bytesrc_no_panic (α : Type) (stop : List Byte) (eofWith : Bool) :
    bytesrc_no_panic_statement (l2Faults α stop eofWith) := by
  intro input sched p ⟨hs, hp, f, hf⟩
  obtain ⟨s', h, _⟩ := client_refines p (R_init input sched eofWith stop hs) hp
  rw [h] at hf
  cases hf

/-- The same, unfolded: the run returns a value. -/
theorem bytesrc_run_ok {α : Type} (p : Prog α) (input stop : List Byte) (sched : List Nat)
    (eofWith : Bool) (hs : stop.length ≤ 4) (hp : InProtocol p input stop) :
    ∃ s', p.run (init input sched eofWith stop) = .ok ((specRun p (LSt.init input stop)).1, s') := by
  obtain ⟨s', h, _⟩ := client_refines p (R_init input sched eofWith stop hs) hp
  exact ⟨s', h⟩

/-- a client that uses every kind of primitive:
    `rune; peekTwo; zshNumRange; rune; newLit(r); rune; endLit; stop-word test; nextPos` -/
def demoClient : Prog (Nat × Nat × Bool × List Byte × Bool × Int) :=
  .rune fun _ => .peekTwo fun _ y => .zshNum fun z => .rune fun r => .newLit r (.rune fun x =>
    .endLit fun l => .stopAt x fun st => .pos fun o _ _ => .ret (r, y, z, l, st, o))

/-- non-vacuity: over `\\`LF`é x`NUL`y` with stop word `xy` the demo client is inside the protocol … -/
theorem demo_in_protocol : InProtocol demoClient [92, 10, 195, 169, 120, 0, 121] [120, 121] := by
  unfold InProtocol; decide +kernel

/-- … so it does not fault under any schedule, e.g. one byte at a time. -/
example : ¬ l2Faults _ [120, 121] false [92, 10, 195, 169, 120, 0, 121] (List.replicate 9 1) demoClient :=
  bytesrc_no_panic _ _ _ _ _ _

end ShVerif.C06
