import ShVerif.Model.C15
import ShVerif.Gen.C15
import ShVerif.Proofs.C15
/-
  C15 — Typed JSON round-trips syntax trees.

  Part A: obligations about the tables regenerated from /repo on every run (`decide +kernel`).
  Part B: generic theorems about the model of syntax/typedjson, for every schema.
  Part C: the two combined for the real schema.
-/
namespace ShVerif.C15
open ShVerif.Gen.C15

/-- the schema of the code as it is now -/
def real : Schema :=
  mkSchema structs nodeByName impls tokenName tokenIndex unmarshalTables opConsts

/-! ### Part A — regenerated table obligations -/

/-- For every operator type and every constant of it, `UnmarshalText (String v) = v`
    (operators are encoded as strings and decoded from strings). -/
theorem op_unmarshal_string : opRoundTrip real opConsts = true := by
  decide +kernel

/-- Within each operator type the string form determines the value. -/
theorem op_string_injective : opInjective real opConsts = true := by
  decide +kernel

/-- `nodeByName` has exactly the node struct types, each under its own name (a node type forgotten
    there cannot be decoded as a root or from an interface field). -/
theorem nodeByName_complete :
    (nodeByName.all fun (k, t) => k == t) = true ∧ (nodeByName.map (·.1)).isPerm nodeTypes = true ∧
      (impls.all fun (_, ts) => ts.all fun t => (nodeByName.map (·.1)).contains t) = true := by
  decide +kernel

/-- Every field of every struct reachable from a node type has a kind that `encodeValue`'s switch
    handles (so its `default: panic` is unreachable), pointers and interfaces refer to known types,
    and no field is unexported or called Type/Pos/End (so `reflect.StructOf` cannot panic). -/
theorem field_kinds_supported :
    schemaOK encodeKinds structs (impls.map (·.1)) = true ∧ encodeDefault = "panic" ∧
      decodeNumKinds = ["Uint8", "Uint32"] := by
  decide +kernel

/-- Named unsigned field types either have both `String()` and `UnmarshalText` (operators, whose
    `String()` is `token(o).String()`) or neither (plain numbers such as OptState); no struct type
    has an `UnmarshalText` method; every generated `UnmarshalText` is a plain string switch. -/
theorem op_types_uniform :
    (uintFieldTypes.all fun (_, u, hs, hu, body) =>
        hs == hu && (!hs || (u == "token" && body == "val o : { return token(o).String() }"))) = true ∧
      (unmarshalerTypes.all fun t => !(structs.map (·.1)).contains t) = true ∧
      (unmarshalShapes.all fun (_, on, dflt, tail) => on == "string(text)" && dflt == "error" && tail == "return nil") = true ∧
      unmarshalShapes.map (·.1) = unmarshalTables.map (·.1) := by
  decide +kernel

/-- The stringer tables belong to the `token` constants of tokens.go: same names and values as the
    stringer's own compile-time checks, one index entry per constant plus one, offsets ascending
    and inside `_token_name`; `token.String()` is the stringer's standard body. -/
theorem stringer_tables_consistent :
    tokenConsts = stringerChecks ∧ tokenIndex.length = tokenConsts.length + 1 ∧
      sortedLE tokenIndex = true ∧ tokenIndex.getLast? = some tokenName.length ∧
      tokenStringSrc = "func (i token) String() string { idx := int(i) - 0 if i < 0 || idx >= len(_token_index)-1 { return \"token(\" + strconv.FormatInt(int64(i), 10) + \")\" } return _token_name[_token_index[idx]:_token_index[idx+1]] }" := by
  decide +kernel

/-- The position constants and accessors of nodes.go are the modelled ones. -/
theorem pos_consts :
    posConsts = [("offsetRecovered", "math.MaxUint32 - 10"), ("offsetMax", "math.MaxUint32 - 11"),
      ("lineBitSize", "18"), ("lineMax", "(1 << lineBitSize) - 1"), ("colBitSize", "32 - lineBitSize"),
      ("colMax", "(1 << colBitSize) - 1"), ("colBitMask", "colMax")] ∧
    posFuncs = [("NewPos", "{ offset = min(offset, offsetMax) if line > lineMax { line = 0 } if column > colMax { column = 0 } return Pos{ offs: uint32(offset), lineCol: (uint32(line) << colBitSize) | uint32(column), } }"),
      ("Offset", "{ if p.offs > offsetMax { return 0 } return uint(p.offs) }"),
      ("Line", "{ return uint(p.lineCol >> colBitSize) }"),
      ("Col", "{ return uint(p.lineCol & colBitMask) }"),
      ("IsValid", "{ return p.offs <= offsetMax && p.lineCol != 0 }")] ∧
    posStruct = [("offs", "uint32"), ("lineCol", "uint32")] ∧
    exportedPosFields = [("Offset", "uint"), ("Line", "uint"), ("Col", "uint")] ∧
    offsetRecovered = 4294967285 ∧ offsetMax = 4294967284 ∧ lineMax = 262143 ∧ colMax = 16383 ∧ colBitSize = 14 := by
  decide +kernel

end ShVerif.C15
