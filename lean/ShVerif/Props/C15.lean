import ShVerif.Model.C15
import ShVerif.Gen.C15
import ShVerif.Proofs.C15
/-
  C15 — Typed JSON round-trips syntax trees.

  Part A: obligations about the tables regenerated from /repo on every run (`decide +kernel`).
  Part B: generic theorems about the model of syntax/typedjson, for every schema.
  Part C: the two combined for the real schema.
-/
namespace ShVerif.C15
open ShVerif.Gen.C15

/-- the schema of the code as it is now -/
def real : Schema :=
  mkSchema structs nodeByName impls tokenName tokenIndex unmarshalTables opConsts

/-! ### Part A — regenerated table obligations -/

/-- For every operator type and every constant of it, `UnmarshalText (String v) = v`
    (operators are encoded as strings and decoded from strings). -/
theorem op_unmarshal_string : opRoundTrip real opConsts = true := by
  decide +kernel

/-- Within each operator type the string form determines the value. -/
theorem op_string_injective : opInjective real opConsts = true := by
  decide +kernel

/-- `nodeByName` has exactly the node struct types, each under its own name (a node type forgotten
    there cannot be decoded as a root or from an interface field). -/
theorem nodeByName_complete :
    (nodeByName.all fun (k, t) => k == t) = true ∧ (nodeByName.map (·.1)).isPerm nodeTypes = true ∧
      (impls.all fun (_, ts) => ts.all fun t => (nodeByName.map (·.1)).contains t) = true := by
  decide +kernel

/-- Every field of every struct reachable from a node type has a kind that `encodeValue`'s switch
    handles (so its `default: panic` is unreachable), pointers and interfaces refer to known types,
    and no field is unexported or called Type/Pos/End (so `reflect.StructOf` cannot panic). -/
theorem field_kinds_supported :
    schemaOK encodeKinds structs (impls.map (·.1)) = true ∧ encodeDefault = "panic" ∧
      decodeNumKinds = ["Uint8", "Uint32"] := by
  decide +kernel

/-- Named unsigned field types either have both `String()` and `UnmarshalText` (operators, whose
    `String()` is `token(o).String()`) or neither (plain numbers such as OptState); no struct type
    has an `UnmarshalText` method; every generated `UnmarshalText` is a plain string switch. -/
theorem op_types_uniform :
    (uintFieldTypes.all fun (_, u, hs, hu, body) =>
        hs == hu && (!hs || (u == "token" && body == "val o : { return token(o).String() }"))) = true ∧
      (unmarshalerTypes.all fun t => !(structs.map (·.1)).contains t) = true ∧
      (unmarshalShapes.all fun (_, on, dflt, tail) => on == "string(text)" && dflt == "error" && tail == "return nil") = true ∧
      unmarshalShapes.map (·.1) = unmarshalTables.map (·.1) := by
  decide +kernel

/-- The stringer tables belong to the `token` constants of tokens.go: same names and values as the
    stringer's own compile-time checks, one index entry per constant plus one, offsets ascending
    and inside `_token_name`; `token.String()` is the stringer's standard body. -/
theorem stringer_tables_consistent :
    tokenConsts = stringerChecks ∧ tokenIndex.length = tokenConsts.length + 1 ∧
      sortedLE tokenIndex = true ∧ tokenIndex.getLast? = some tokenName.length ∧
      tokenStringSrc = "func (i token) String() string { idx := int(i) - 0 if i < 0 || idx >= len(_token_index)-1 { return \"token(\" + strconv.FormatInt(int64(i), 10) + \")\" } return _token_name[_token_index[idx]:_token_index[idx+1]] }" := by
  decide +kernel

/-- The position constants and accessors of nodes.go are the modelled ones. -/
theorem pos_consts :
    posConsts = [("offsetRecovered", "math.MaxUint32 - 10"), ("offsetMax", "math.MaxUint32 - 11"),
      ("lineBitSize", "18"), ("lineMax", "(1 << lineBitSize) - 1"), ("colBitSize", "32 - lineBitSize"),
      ("colMax", "(1 << colBitSize) - 1"), ("colBitMask", "colMax")] ∧
    posFuncs = [("NewPos", "{ offset = min(offset, offsetMax) if line > lineMax { line = 0 } if column > colMax { column = 0 } return Pos{ offs: uint32(offset), lineCol: (uint32(line) << colBitSize) | uint32(column), } }"),
      ("Offset", "{ if p.offs > offsetMax { return 0 } return uint(p.offs) }"),
      ("Line", "{ return uint(p.lineCol >> colBitSize) }"),
      ("Col", "{ return uint(p.lineCol & colBitMask) }"),
      ("IsValid", "{ return p.offs <= offsetMax && p.lineCol != 0 }")] ∧
    posStruct = [("offs", "uint32"), ("lineCol", "uint32")] ∧
    exportedPosFields = [("Offset", "uint"), ("Line", "uint"), ("Col", "uint")] ∧
    offsetRecovered = 4294967285 ∧ offsetMax = 4294967284 ∧ lineMax = 262143 ∧ colMax = 16383 ∧ colBitSize = 14 := by
  decide +kernel

/-! ### Part B — generic theorems (every schema, every value, every JSON document) -/

/-- `NewPos(p.Offset(), p.Line(), p.Col()) = p` for every position that is not one of the reserved
    invalid offsets (18 bits of line, 14 bits of column, offsets up to 2^32 - 12). -/
theorem pos_roundtrip (p : Pos) (hr : p.inRange = true) (ho : p.offs ≤ offsetMax) :
    newPos p.offset p.line p.col = p :=
  newPos_parts p hr ho

/-- The clamping limits of `NewPos`: the offset saturates at `offsetMax` (so `NewPos` never builds
    a recovered position), a line above 262143 or a column above 16383 is stored as 0. -/
theorem newPos_clamps (o l c : Nat) :
    (newPos o l c).offs ≤ offsetMax ∧ newPos o l c ≠ Pos.recovered ∧
      (lineMax < l → (newPos o l c).line = 0) ∧ (colMax < c → (newPos o l c).col = 0) := by
  refine ⟨newPos_offs_le o l c, ?_, newPos_line_overflow o l c, newPos_col_overflow o l c⟩
  intro e
  have h := newPos_offs_le o l c
  rw [e] at h
  revert h; decide

/-- `decodePos` inverts `encodePos` on every valid position. -/
theorem decodePos_encodePos (p : Pos) (hr : p.inRange = true) (hv : p.isValid = true) :
    ∃ j, encPos p = some j ∧ decodePos j = .ok p :=
  decodePos_encPos p hr hv

/-- Decode never reaches a reflect call that panics — for EVERY JSON value and EVERY target type
    (`val.Addr()` is only called on addressable values; every `Set*` is preceded by its check). -/
theorem decode_no_panic (σ : Schema) (τ : GoType) (j : J) :
    decodeValue σ true τ j ≠ .panic ∧ decodeRoot σ j ≠ .panic :=
  ⟨decodeValue_no_panic σ j τ, decodeRoot_no_panic σ j⟩

/-- Decode always returns a value or an error. -/
theorem decode_total (σ : Schema) (j : J) :
    (∃ v, decodeRoot σ j = .ok v) ∨ (∃ e, decodeRoot σ j = .err e) := by
  cases h : decodeRoot σ j with
  | ok v => exact Or.inl ⟨v, rfl⟩
  | err e => exact Or.inr ⟨e, rfl⟩
  | panic => exact absurd h (decodeRoot_no_panic σ j)

/-- Value level, any static type: a JsonWF value either encodes to nothing and is the zero value
    of its type up to canonical form, or encodes to a document that decodes to its canonical form;
    `Encode` does not panic. -/
theorem decode_encode_value (σ : Schema) (τ : GoType) (v : Val) (h : wf σ τ v = true)
    (hp : ∀ p, v ≠ .pos p) :
    (∃ tn, encodeValue σ v = .res none tn ∧ zero τ = canon v) ∨
    (∃ j tn, encodeValue σ v = .res (some j) tn ∧ decodeValue σ true τ j = .ok (canon v)) :=
  roundV σ v τ h hp

/-- The full statement without the hypothesis on positions: any two `uint32`s as a position.
    It is FALSE of the model and of the code (`decode_encode_statement_false`). -/
def decode_encode_statement : Prop :=
  ∀ (σ : Schema) (v : Val), wfAnyPos σ (.iface "Node") (.iface v) = true →
    ∃ j, encodeRoot σ v = .val j ∧ decodeRoot σ j = .ok (canon (.iface v))

/-- `Decode(Encode(node))` is the node with recovered positions cleared (and empty slices nil, which
    `Encode` cannot tell from nil slices), for every schema and every JsonWF root; `Encode` does not
    panic.  The extra hypothesis w.r.t. `decode_encode_statement` is exactly `posWF` on every
    position: valid, zero or recovered. -/
theorem decode_encode_partial (σ : Schema) (v : Val) (h : wf σ (.iface "Node") (.iface v) = true) :
    ∃ j, encodeRoot σ v = .val j ∧ decodeRoot σ j = .ok (canon (.iface v)) :=
  round_root σ v h

/-- …and with no empty-but-non-nil slice the result is literally `dropRecovered`. -/
theorem decode_encode (σ : Schema) (v : Val) (h : wf σ (.iface "Node") (.iface v) = true)
    (hne : noEmptySlice v = true) :
    ∃ j, encodeRoot σ v = .val j ∧ decodeRoot σ j = .ok (dropRecovered (.iface v)) := by
  obtain ⟨j, h1, h2⟩ := round_root σ v h
  refine ⟨j, h1, ?_⟩
  rw [h2, canon_eq_dropRecovered (.iface v) (by simpa only [noEmptySlice] using hne)]

/-- Re-encoding the decoded tree gives the identical document (same keys in the same order, same
    values), for every `Pos()`/`End()` function `ann` whose encoded results are stable under the
    round trip (`peStable`: the assumption about the methods of nodes.go, checked per tree by the
    harness through byte equality). -/
theorem encode_decode_encode (σ : Schema) (ann : Ann) (t : Val)
    (h : wf σ (.iface "Node") (.iface (annotate ann t)) = true) (hs : peStable ann t) :
    ∃ j d, encodeRoot σ (annotate ann t) = .val j ∧ decodeRoot σ j = .ok (.iface d) ∧
      encodeRoot σ (annotate ann d) = .val j := by
  obtain ⟨j, h1, h2⟩ := round_root σ (annotate ann t) h
  refine ⟨j, canon t, h1, ?_, ?_⟩
  · rw [h2]; simp only [canon, canon_annotate]
  · rw [reencode_root σ ann t hs, h1]

/-- Byte-identical re-encoding on the well-formed region, for EVERY `Pos()`/`End()` function: the
    extra hypotheses w.r.t. `encode_decode_encode_statement` are exactly that the tree holds no
    recovered position (the region of the open finding C15-reencode-recovered-posend, see
    `reencode_recovered_differs`) and no empty-but-non-nil slice (so that the decoded tree is the
    original one as far as any method can see: `canon t = forget t`). -/
theorem encode_decode_encode_partial (σ : Schema) (ann : Ann) (t : Val)
    (h : wf σ (.iface "Node") (.iface (annotate ann t)) = true)
    (hr : noRecovered t = true) (hne : noEmptySlice t = true) :
    ∃ j d, encodeRoot σ (annotate ann t) = .val j ∧ decodeRoot σ j = .ok (.iface d) ∧
      encodeRoot σ (annotate ann d) = .val j :=
  encode_decode_encode σ ann t h (peStable_of_noRecovered ann t hr hne)

/-- The strongest form given the open finding: for every `Pos()`/`End()` function that cannot tell
    a nil slice from an empty one (true of nodes.go: the methods only use `len` and `range`), the
    re-encoding is byte-identical for EVERY JsonWF tree without a recovered position — recovered
    positions are excluded exactly (`reencode_recovered_differs` is the counter-example there). -/
theorem encode_decode_encode_no_recovered (σ : Schema) (ann : Ann) (hb : annSliceBlind ann) (t : Val)
    (h : wf σ (.iface "Node") (.iface (annotate ann t)) = true) (hr : noRecovered t = true) :
    ∃ j d, encodeRoot σ (annotate ann t) = .val j ∧ decodeRoot σ j = .ok (.iface d) ∧
      encodeRoot σ (annotate ann d) = .val j :=
  encode_decode_encode σ ann t h (peStable_of_blind ann hb t hr)

/-- …and the decoded tree is then literally the original one (annotations aside). -/
theorem decode_encode_no_recovered (σ : Schema) (v : Val) (h : wf σ (.iface "Node") (.iface v) = true)
    (hr : noRecovered v = true) (hne : noEmptySlice v = true) :
    ∃ j, encodeRoot σ v = .val j ∧ decodeRoot σ j = .ok (forget (.iface v)) := by
  obtain ⟨j, h1, h2⟩ := round_root σ v h
  refine ⟨j, h1, ?_⟩
  rw [h2, canon_eq_forget (.iface v) (by simpa only [noRecovered] using hr)
    (by simpa only [noEmptySlice] using hne)]

/-- The full statement of byte-identical re-encoding, without the hypothesis on `Pos()`/`End()`.
    It is FALSE (`encode_decode_encode_statement_false`): a `Pos()`/`End()` that looks at a recovered
    position may give another answer once the position is cleared. -/
def encode_decode_encode_statement : Prop :=
  ∀ (σ : Schema) (ann : Ann) (t : Val), wf σ (.iface "Node") (.iface (annotate ann t)) = true →
    ∃ j d, encodeRoot σ (annotate ann t) = .val j ∧ decodeRoot σ j = .ok (.iface d) ∧
      encodeRoot σ (annotate ann d) = .val j

/-! ### Part C — the real schema -/

/-- a literal at byte offset 278534 of an input whose line and column counters both overflowed -/
def litOverflowed : Val :=
  .ptr (.struct "Lit" (some (⟨278534, 0⟩, ⟨278538, 0⟩))
    [("ValuePos", .pos ⟨278534, 0⟩), ("ValueEnd", .pos ⟨278538, 0⟩), ("Value", .str [101, 99, 104, 111])])

/-- The known finding C15-invalid-pos-dropped on the model of the real schema: the literal is well
    typed, its positions are neither valid, zero nor recovered, `Encode` drops them and `Decode`
    returns a tree that differs from the original (offset 278534 became 0). -/
theorem invalid_pos_not_roundtrip :
    wfAnyPos real (.iface "Node") (.iface litOverflowed) = true ∧
      wf real (.iface "Node") (.iface litOverflowed) = false ∧
      (match encodeRoot real litOverflowed with
       | .val j =>
         match decodeRoot real j with
         | .ok d => beqVal d (canon (.iface litOverflowed)) || beqVal d (dropRecovered (.iface litOverflowed))
         | _ => true
       | .panic => true) = false := by
  decide +kernel

theorem decode_encode_statement_false : ¬ decode_encode_statement := by
  intro hst
  obtain ⟨h1, _, h3⟩ := invalid_pos_not_roundtrip
  obtain ⟨j, he, hd⟩ := hst real litOverflowed h1
  rw [he] at h3
  simp only [hd, beqVal_refl, Bool.true_or] at h3
  contradiction

/-- a `Pos()`/`End()` in the style of nodes.go: the first position field, or a fallback when it is unset -/
def annFallback : Ann := fun _ fs =>
  match fs with
  | (_, .pos p) :: _ => if p = Pos.zero then some (⟨1, 16385⟩, ⟨1, 16385⟩) else some (p, p)
  | _ => none

/-- a literal whose positions are recovered ones -/
def litRecovered : Val :=
  .ptr (.struct "Lit" none
    [("ValuePos", .pos Pos.recovered), ("ValueEnd", .pos Pos.recovered), ("Value", .str [97])])

/-- The known finding C15-reencode-recovered-posend on the model: the tree is JsonWF, yet the
    re-annotated decoded tree encodes differently (a "Pos"/"End" appears). -/
theorem reencode_recovered_differs :
    wf real (.iface "Node") (.iface (annotate annFallback litRecovered)) = true ∧
      beqEnc (encodeRoot real (annotate annFallback (canon litRecovered)))
        (encodeRoot real (annotate annFallback litRecovered)) = false := by
  decide +kernel

theorem encode_decode_encode_statement_false : ¬ encode_decode_encode_statement := by
  intro hst
  obtain ⟨hw, hne⟩ := reencode_recovered_differs
  obtain ⟨j, d, h1, h2, h3⟩ := hst real annFallback litRecovered hw
  obtain ⟨j', h1', h2'⟩ := round_root real (annotate annFallback litRecovered) hw
  rw [h1] at h1'
  injection h1' with hj
  subst hj
  rw [h2] at h2'
  injection h2' with hd
  simp only [canon, canon_annotate] at hd
  injection hd with hd
  subst hd
  rw [h3, h1, beqEnc_refl] at hne
  contradiction

/-- A string that is not valid UTF-8 does not survive `encoding/json` (outside the property: the
    parser rejects such input; shown for hand-built trees and partial trees next to a parse error). -/
theorem invalid_utf8_not_roundtrip :
    (match encodeRoot real (.ptr (.struct "Lit" none [("ValuePos", .pos Pos.zero), ("ValueEnd", .pos Pos.zero), ("Value", .str [255])])) with
     | .val j =>
       match decodeRoot real j with
       | .ok d => beqVal d (.iface (.ptr (.struct "Lit" none [("ValuePos", .pos Pos.zero), ("ValueEnd", .pos Pos.zero), ("Value", .str [0xEF, 0xBF, 0xBD])])))
       | _ => false
     | .panic => false) = true := by
  decide +kernel

/-- Non-vacuity of `annSliceBlind`: the constant method is slice-blind; `annFallback`, which looks at
    the first position field only, is too (positions are untouched by `nilEmpty`/`forget`). -/
example : annSliceBlind (fun _ _ => some (⟨1, 16385⟩, ⟨2, 16386⟩)) := fun _ _ => rfl

/-- The round trip for the code as it is now: every JsonWF tree over the current node schema. -/
theorem decode_encode_real (v : Val) (h : wf real (.iface "Node") (.iface v) = true) :
    ∃ j, encodeRoot real v = .val j ∧ decodeRoot real j = .ok (canon (.iface v)) :=
  decode_encode_partial real v h

/-- Non-vacuity: a small parsed tree (`echo`) is JsonWF in the real schema, and its round trip,
    evaluated, is the tree itself. -/
example :
    wf real (.iface "Node") (.iface (.ptr (.struct "Lit" (some (⟨0, 16385⟩, ⟨4, 16389⟩))
      [("ValuePos", .pos ⟨0, 16385⟩), ("ValueEnd", .pos ⟨4, 16389⟩), ("Value", .str [101, 99, 104, 111])]))) = true := by
  decide +kernel

/-- Non-vacuity of the operator condition in JsonWF: `&&` as a BinCmdOperator. -/
example : real.unm "BinCmdOperator" (real.tokStr 11) = some 11 ∧ real.tokStr 11 = [38, 38] := by
  decide +kernel

end ShVerif.C15
