import ShVerif.Props.C10
import ShVerif.Proofs.C10L2
/-
  C10 on the byte-source layer: `error_pos_in_input_statement` (stated in Props/C10.lean without
  importing anything) instantiated with the L2 model and discharged from C07's theorems
  `client_refines`, `R_init`, `nextPos_eq`, `nextPos_le` (the ingredients of
  `ShVerif.Props.C07.bytesrc_pos_inv`; the Proofs layer is imported rather than Props/C07.lean so
  that this file does not rebuild whenever C07's own property file is edited).  Read-only use of
  Model/L2ByteSrc.lean, Model/C07.lean, Proofs/C07*.lean.
-/
namespace ShVerif.C10
open ShVerif ShVerif.L2 ShVerif.C07

/-- The client that runs `p` and then asks for `nextPos()`: every `ret a` becomes
    `pos; ret (a, offset)`.  Every moment at which the parser takes a position (`p.pos = p.nextPos()`
    in `next`, the `nextPos()` arguments of posErr/checkLang, node positions) is the end of such a
    client: the part of the parser's run up to that moment. -/
def thenPos {α : Type} : Prog α → Prog (α × Int)
  | .ret a => .pos fun o _ _ => .ret (a, o)
  | .rune k => .rune fun r => thenPos (k r)
  | .peek k => .peek fun b => thenPos (k b)
  | .peekTwo k => .peekTwo fun a b => thenPos (k a b)
  | .zshNum k => .zshNum fun b => thenPos (k b)
  | .stopAt r k => .stopAt r fun b => thenPos (k b)
  | .newLit r k => .newLit r (thenPos k)
  | .endLit k => .endLit fun l => thenPos (k l)
  | .pos k => .pos fun o l c => thenPos (k o l c)
  | .setBquotes o d k => .setBquotes o d (thenPos k)
  | .getRW k => .getRW fun r w => thenPos (k r w)
  | .lastBq k => .lastBq fun n => thenPos (k n)
  | .litGet k => .litGet fun l => thenPos (k l)
  | .litAppend bs k => .litAppend bs (thenPos k)
  | .litDrop k => .litDrop (thenPos k)
  | .errPass k => .errPass (thenPos k)
  | .errGet k => .errGet fun b => thenPos (k b)

/-- `thenPos p` returns what `p` returns together with `nextPos()` of the final state. -/
theorem run_thenPos {α : Type} (p : Prog α) : ∀ (s : St) (a : α) (o : Int) (s' : St),
    (thenPos p).run s = .ok ((a, o), s') → o = s'.nextPos.1 := by
  induction p with
  | ret x =>
    intro s a o s' h
    simp only [thenPos, Prog.run] at h
    cases h
    rfl
  | rune k ih =>
    intro s a o s' h
    simp only [thenPos, Prog.run] at h
    cases hr : s.rune with
    | error f => rw [hr] at h; cases h
    | ok x => rw [hr] at h; exact ih x.1 x.2 a o s' h
  | peek k ih =>
    intro s a o s' h
    simp only [thenPos, Prog.run] at h
    cases hr : s.peek with
    | error f => rw [hr] at h; cases h
    | ok x => rw [hr] at h; exact ih x.1 x.2 a o s' h
  | peekTwo k ih =>
    intro s a o s' h
    simp only [thenPos, Prog.run] at h
    cases hr : s.peekTwo with
    | error f => rw [hr] at h; cases h
    | ok x => rw [hr] at h; exact ih x.1 x.2.1 x.2.2 a o s' h
  | zshNum k ih =>
    intro s a o s' h
    simp only [thenPos, Prog.run] at h
    cases hr : s.zshNum with
    | error f => rw [hr] at h; cases h
    | ok x => rw [hr] at h; exact ih x.1 x.2 a o s' h
  | stopAt r k ih =>
    intro s a o s' h
    simp only [thenPos, Prog.run] at h
    cases hr : s.stopAt r with
    | error f => rw [hr] at h; cases h
    | ok x => rw [hr] at h; exact ih x.1 x.2 a o s' h
  | newLit r k ih =>
    intro s a o s' h
    simp only [thenPos, Prog.run] at h
    cases hr : s.newLit r with
    | error f => rw [hr] at h; cases h
    | ok x => rw [hr] at h; exact ih x a o s' h
  | endLit k ih =>
    intro s a o s' h
    simp only [thenPos, Prog.run] at h
    cases hr : s.endLit with
    | error f => rw [hr] at h; cases h
    | ok x => rw [hr] at h; exact ih x.1 x.2 a o s' h
  | pos k ih => intro s a o s' h; simp only [thenPos, Prog.run] at h; exact ih _ _ _ s a o s' h
  | setBquotes x d k ih => intro s a o s' h; simp only [thenPos, Prog.run] at h; exact ih _ a o s' h
  | getRW k ih => intro s a o s' h; simp only [thenPos, Prog.run] at h; exact ih _ _ s a o s' h
  | lastBq k ih => intro s a o s' h; simp only [thenPos, Prog.run] at h; exact ih _ s a o s' h
  | litGet k ih => intro s a o s' h; simp only [thenPos, Prog.run] at h; exact ih _ s a o s' h
  | litAppend bs k ih => intro s a o s' h; simp only [thenPos, Prog.run] at h; exact ih _ a o s' h
  | litDrop k ih => intro s a o s' h; simp only [thenPos, Prog.run] at h; exact ih _ a o s' h
  | errPass k ih => intro s a o s' h; simp only [thenPos, Prog.run] at h; exact ih _ a o s' h
  | errGet k ih => intro s a o s' h; simp only [thenPos, Prog.run] at h; exact ih _ s a o s' h

/-- On the schedule-free machine: `thenPos p` ends in the state `p` ends in, except that the
    protocol flag also records that no error had been raised when the position was taken. -/
theorem spec_thenPos {α : Type} (p : Prog α) : ∀ (a : C07.LSt),
    (specRun (thenPos p) a).2 = { (specRun p a).2 with ok := (specRun p a).2.ok && (specRun p a).2.err.isNone } := by
  induction p with
  | ret x => intro a; simp [thenPos, specRun, C07.LSt.pos]
  | rune k ih => intro a; simp only [thenPos, specRun]; exact ih _ _
  | peek k ih => intro a; simp only [thenPos, specRun]; exact ih _ _
  | peekTwo k ih => intro a; simp only [thenPos, specRun]; exact ih _ _ _
  | zshNum k ih => intro a; simp only [thenPos, specRun]; exact ih _ _
  | stopAt r k ih => intro a; simp only [thenPos, specRun]; exact ih _ _
  | newLit r k ih => intro a; simp only [thenPos, specRun]; exact ih _
  | endLit k ih => intro a; simp only [thenPos, specRun]; exact ih _ _
  | pos k ih => intro a; simp only [thenPos, specRun]; exact ih _ _ _ _
  | setBquotes x d k ih => intro a; simp only [thenPos, specRun]; exact ih _
  | getRW k ih => intro a; simp only [thenPos, specRun]; exact ih _ _ _
  | lastBq k ih => intro a; simp only [thenPos, specRun]; exact ih _ _
  | litGet k ih => intro a; simp only [thenPos, specRun]; exact ih _ _
  | litAppend bs k ih => intro a; simp only [thenPos, specRun]; exact ih _
  | litDrop k ih => intro a; simp only [thenPos, specRun]; exact ih _
  | errPass k ih => intro a; simp only [thenPos, specRun]; exact ih _
  | errGet k ih => intro a; simp only [thenPos, specRun]; exact ih _ _

/-- The protocol of `thenPos p` is the protocol of `p` plus "no error has been raised when the
    position is taken". -/
theorem inProtocol_thenPos {α : Type} (p : Prog α) (input stop : List Byte) :
    InProtocol (thenPos p) input stop ↔
      (InProtocol p input stop ∧ (specRun p (C07.LSt.init input stop)).2.err = none) := by
  unfold InProtocol
  rw [spec_thenPos]
  simp [Option.isNone_iff_eq_none]

/-- **Every position the lexer hands out lies within the input.**  For every input, read
    schedule (EOF with or after the last bytes), stop word of at most four bytes and client `p`
    such that `p` stays inside the protocol and has raised no error: the run returns, and the
    offset of `nextPos()` taken at that moment is at most the number of input bytes. -/
theorem pos_in_input {α : Type} (p : Prog α) (input stop : List Byte) (sched : List Nat)
    (eofWith : Bool) (hs : stop.length ≤ 4) (hp : InProtocol p input stop)
    (he : (specRun p (C07.LSt.init input stop)).2.err = none) :
    ∃ a o s', (thenPos p).run (init input sched eofWith stop) = .ok ((a, o), s') ∧ o ≤ input.length := by
  have hp' : InProtocol (thenPos p) input stop := (inProtocol_thenPos p input stop).2 ⟨hp, he⟩
  obtain ⟨s', hrun, hR⟩ := client_refines (thenPos p) (R_init input sched eofWith stop hs) hp'
  have hal : (specRun (thenPos p) (C07.LSt.init input stop)).2.err = none := by
    rw [spec_thenPos]; exact he
  have hle : s'.nextPos.1 ≤ input.length := by
    rw [nextPos_eq hR hal]
    exact nextPos_le (thenPos p) input stop hal
  refine ⟨_, _, s', hrun, ?_⟩
  rw [run_thenPos p _ _ _ _ hrun]
  exact hle

/-- "the byte source hands out offset `off` on `input`": some client inside the protocol, under
    some schedule and stop word, takes `nextPos()` before any error and gets `off`. -/
def l2HandsOut : List UInt8 → Nat → Prop := fun input off =>
  ∃ (α : Type) (p : Prog α) (stop : List Byte) (sched : List Nat) (eofWith : Bool) (a : α) (s' : St),
    stop.length ≤ 4 ∧ InProtocol p input stop ∧ (specRun p (C07.LSt.init input stop)).2.err = none ∧
    (thenPos p).run (init input sched eofWith stop) = .ok ((a, (off : Int)), s')

/-- **error_pos_in_input** (the statement of Props/C10.lean, now a theorem), for the positions
    `p.pos` / `nextPos()` — by `error_sites` every ParseError/LangError position except the one of
    "invalid UTF-8 encoding" (raised inside `rune`, see `utf8_error_pos_in_input`) is such a
    position, a node position built from them, or invalid. -/
theorem error_pos_in_input : error_pos_in_input_statement l2HandsOut := by
  intro input off ⟨α, p, stop, sched, e, a, s', hs, hp, he, hrun⟩
  obtain ⟨a', o', s'', hrun', hle⟩ := pos_in_input p input stop sched e hs hp he
  rw [hrun] at hrun'
  cases hrun'
  exact_mod_cast hle

/-- **The "invalid UTF-8 encoding" error** — the one error the byte source raises by itself, inside
    `rune`, with `posErr(p.nextPos(), …)` (offset repaired by 215287c) — also lies within the input:
    for every schedule and every client inside the protocol, if the run ends with that error
    recorded, its offset is at most the number of input bytes. -/
theorem utf8_error_pos_in_input {α : Type} (p : Prog α) (input stop : List Byte) (sched : List Nat)
    (eofWith : Bool) (hs : stop.length ≤ 4) (hp : InProtocol p input stop)
    (v : α) (s' : St) (hrun : p.run (init input sched eofWith stop) = .ok (v, s'))
    (o : Int) (l c : Nat) (he : s'.err = some (.utf8 o l c)) : o ≤ (input.length : Int) := by
  obtain ⟨s'', hrun', hR⟩ := client_refines p (R_init input sched eofWith stop hs) hp
  rw [hrun] at hrun'
  cases hrun'
  have : (specRun p (C07.LSt.init input stop)).2.err = some (.utf8 o l c) := by rw [hR.f_err]; exact he
  exact utf8_err_offset_le p input stop o l c this

/-- every offset an error of the byte layer can carry: a position taken by the client before any
    error (`l2HandsOut`), or the one recorded by the "invalid UTF-8 encoding" error -/
def l2ErrorOffsets : List UInt8 → Nat → Prop := fun input off =>
  l2HandsOut input off ∨
  ∃ (α : Type) (p : Prog α) (stop : List Byte) (sched : List Nat) (eofWith : Bool) (v : α) (s' : St) (l c : Nat),
    stop.length ≤ 4 ∧ InProtocol p input stop ∧ p.run (init input sched eofWith stop) = .ok (v, s') ∧
    s'.err = some (.utf8 (off : Int) l c)

/-- **error_pos_in_input**, both kinds of error position. -/
theorem error_pos_in_input_all : error_pos_in_input_statement l2ErrorOffsets := by
  intro input off h
  rcases h with h | ⟨α, p, stop, sched, e, v, s', l, c, hs, hp, hrun, he⟩
  · exact error_pos_in_input input off h
  · exact_mod_cast utf8_error_pos_in_input p input stop sched e hs hp v s' hrun _ l c he

/-! ### non-vacuity -/

/-- `rune; rune; rune` -/
def threeRunes : Prog Nat := .rune fun _ => .rune fun _ => .rune fun r => .ret r

/-- `a`, `b`, EOF: the client is inside the protocol and error-free, and `nextPos()` after the
    third `rune` is offset 2 = len(input), here read one byte at a time … -/
example : l2HandsOut [97, 98] 2 := by
  have hp : InProtocol threeRunes [97, 98] [] := by unfold InProtocol; decide +kernel
  have he : (specRun threeRunes (C07.LSt.init [97, 98] [])).2.err = none := by decide +kernel
  have hp' := (inProtocol_thenPos threeRunes [97, 98] []).2 ⟨hp, he⟩
  obtain ⟨s', hrun, _⟩ := client_refines (thenPos threeRunes) (R_init [97, 98] [1, 1] false [] (by decide)) hp'
  have hv : (specRun (thenPos threeRunes) (C07.LSt.init [97, 98] [])).1 = (runeEOF, 2) := by decide +kernel
  rw [hv] at hrun
  exact ⟨Nat, threeRunes, [], [1, 1], false, runeEOF, s', by decide, hp, he, hrun⟩

/-- … and `é`, 0xFF: the second `rune` raises "invalid UTF-8 encoding" with offset 2, line 1,
    column 3 — the invalid byte, after a two-byte rune (the case 215287c repaired) — inside the
    protocol, so `utf8_error_pos_in_input` applies (EOF together with the last bytes here). -/
example : l2ErrorOffsets [195, 169, 255] 2 := by
  have hp : InProtocol threeRunes [195, 169, 255] [] := by unfold InProtocol; decide +kernel
  obtain ⟨s', hrun, hR⟩ := client_refines threeRunes (R_init [195, 169, 255] [] true [] (by decide)) hp
  have he : (specRun threeRunes (C07.LSt.init [195, 169, 255] [])).2.err = some (.utf8 2 1 3) := by
    decide +kernel
  exact Or.inr ⟨Nat, threeRunes, [], [], true, _, s', 1, 3, by decide, hp, hrun, by rw [← hR.f_err]; exact he⟩

end ShVerif.C10
