import ShVerif.Model.C26
import ShVerif.Proofs.C26
/-
  C26 — the interpreter runs supported programs like bash.  Property theorems.

  *Partial, and labelled so.*  The theorems are about the control-flow skeleton of the
  interpreter (`ShVerif.L5.run`, tied to `interp.Runner` by the harness) and the declarative bash
  semantics `ShVerif.L5.Bash.sem` (validated against bash 5.2 by the harness).  The full statement
  "for every skeleton program, same stdout and status" is *false* — the counter-examples below are
  confirmed divergences of mvdan/sh from bash, one per entry of `known-findings.jsonl` — and is
  kept as `run_eq_bashsem_statement`; `run_eq_bashsem_partial` proves it for the programs accepted by
  the static predicate `supportedProg`, whose every exclusion is one of those findings (plus ERR
  traps, which are outside the theorem altogether).
-/
namespace ShVerif.C26
open ShVerif.L5

/-- The full statement: the model of the interpreter and `BashSem` give the same stdout and status
    on every skeleton program, for every fuel.  False (see `run_eq_bashsem_statement_false`). -/
def run_eq_bashsem_statement : Prop :=
  ∀ (fuel : Nat) (p : Prog), runFile fuel p = Bash.semFile fuel p

/-- **Main theorem.**  For every skeleton program accepted by `supportedProg` (in either mode: `e =
    false` — no `set -e` anywhere —, or `e = true`) and every fuel, the model of `interp.Runner` and
    `BashSem` return the same result: both run out of fuel, or both give the same stdout bytes and
    the same exit status.  Excluded constructs (each an open known finding): `break`/`continue`
    away from tail positions of loop bodies, in conditions, in functions called from loops, with a
    count outside `1..depth`; `return` without argument or in a subshell of a function; `!` in front of anything but a simple command (or a subshell, without `set -e`);
    with `set -e`: subshells/command substitutions/pipelines where `-e` is (or may be) ignored,
    and `{ }`/`if`/`for`/`case`/function bodies ending in `! cmd` or `… && cmd`; pipelines whose
    last stage is not `true`/`false`/`echo`/`[ ]`; `while`/`until` bodies whose last command may
    fail; empty `case` clauses after `;&`/`;;&`; `trap … EXIT` in subshells or functions, or with
    an action other than `echo`/`true` commands; every `trap … ERR`; function bodies that are not a plain
    `{ }`. -/
theorem run_eq_bashsem_partial (e : Bool) (fuel : Nat) (p : Prog) (h : supportedProg e p = true) :
    runFile fuel p = Bash.semFile fuel p :=
  run_eq_sem_file e fuel p h

/-- More fuel never changes a result of the model (so "the result of the model" is well defined). -/
theorem fuel_monotone (n : Nat) (t : Task) (s r : St) (h : run n t s = some r) :
    run (n+1) t s = some r :=
  run_mono n t s r h

/-- … also for whole files. -/
theorem fuel_monotone_file (n : Nat) (p : Prog) (r : Str × Nat) (h : runFile n p = some r) :
    runFile (n+1) p = some r :=
  runFile_mono n p r h

/-- On supported programs more fuel never changes a result of `BashSem` either. -/
theorem fuel_monotone_spec (e : Bool) (n : Nat) (p : Prog) (r : Str × Nat)
    (hs : supportedProg e p = true) (h : Bash.semFile n p = some r) : Bash.semFile (n+1) p = some r := by
  rw [← run_eq_bashsem_partial e n p hs] at h
  rw [← run_eq_bashsem_partial e (n+1) p hs]
  exact runFile_mono n p r h

/-! ### Traps -/

/-- `trapCallback` never changes the result: `exit` and `lastExit` are what they were. -/
theorem traps_preserve_result (n : Nat) (body : Prog) (s r : St) (h : run n (.trap body) s = some r) :
    r.exit = s.exit ∧ r.lastExit = s.lastExit := by
  cases n with
  | zero => simp [run] at h
  | succ m =>
    rw [run] at h
    split at h
    · cases h; exact ⟨rfl, rfl⟩
    · split at h
      · cases h; exact ⟨rfl, rfl⟩
      · split at h
        · cases h
        · cases h; exact ⟨rfl, rfl⟩

/-- Whole-file runs: the EXIT trap runs once, after the last statement, with `$?` = the status of
    the script, and the status returned is the one from before the trap. -/
theorem traps_exit_once (fuel : Nat) (p : Prog) (out : Str) (st : Nat)
    (h : runFile fuel p = some (out, st)) :
    ∃ s s2, foldStmts (fun st => run fuel (.stmt st)) p {} = some s ∧
      run fuel (.trap s.callbackExit) { s with lastExit := s.exit } = some s2 ∧
      out = s2.out ∧ st = s.exit.code := by
  unfold runFile at h
  cases hr : foldStmts (fun st => run fuel (.stmt st)) p {} with
  | none => rw [hr] at h; cases h
  | some s =>
    rw [hr] at h
    simp only at h
    cases hr2 : run fuel (.trap ({ s with lastExit := s.exit } : St).callbackExit) { s with lastExit := s.exit } with
    | none => rw [hr2] at h; cases h
    | some s2 =>
      rw [hr2] at h
      simp only [Option.some.injEq, Prod.mk.injEq] at h
      have := (traps_preserve_result fuel _ _ _ hr2).1
      exact ⟨s, s2, rfl, hr2, h.1.symm, by rw [← h.2, this]⟩

/-- The ERR trap runs under the bash conditions: not for `! cmd`, not for `&&`/`||` lists (their
    last command has had its own test), not where `noErrExit` is set (conditions, left operands),
    not when the command succeeded.  (That it runs *once* is false — finding C26-err-trap-nesting —
    which is why ERR traps are outside `run_eq_bashsem_partial`.) -/
theorem traps_err_conditions (n : Nat) (neg : Bool) (c : Cmd) (s s1 r : St)
    (hs : stop s = false) (hc : run n (.cmd c) { s with exit := {} } = some s1)
    (h : run (n+1) (.stmt (.mk neg c)) s = some r)
    (hquiet : neg = true ∨ c.isAndOr = true ∨ s1.exit.ok = true ∨ s1.noErrExit = true) :
    r.out = s1.out := by
  rw [run] at h
  simp only [hs, Bool.false_eq_true, ↓reduceIte, hc] at h
  rcases hquiet with hq | hq | hq | hq
  · subst hq
    simp only [↓reduceIte] at h
    split at h <;> (cases h; rfl)
  · cases neg with
    | true => simp only [↓reduceIte] at h; split at h <;> (cases h; rfl)
    | false => simp only [Bool.false_eq_true, ↓reduceIte, hq] at h; cases h; rfl
  · cases neg with
    | true => simp only [↓reduceIte] at h; split at h <;> (cases h; rfl)
    | false =>
      simp only [Bool.false_eq_true, ↓reduceIte, hq, Bool.not_true, Bool.false_and] at h
      split at h <;> (cases h; rfl)
  · cases neg with
    | true => simp only [↓reduceIte] at h; split at h <;> (cases h; rfl)
    | false =>
      simp only [Bool.false_eq_true, ↓reduceIte, hq, Bool.not_true, Bool.and_false] at h
      split at h <;> (cases h; rfl)

/-! ### Pipelines -/

/-- `pipefail`: the status of `x | y` is that of `y`, unless `pipefail` is set, `y` succeeded and
    `x` failed: then it is the status of `x` ("the last command to exit with a non-zero status"). -/
theorem pipefail_rule (n : Nat) (x y : Stmt) (s r : St) (hs : stop s = false)
    (h : run (n+1) (.cmd (.pipe x y)) s = some r) :
    ∃ r2 s1, run n (.stmt x) (subshellOf s []) = some r2 ∧ run n (.stmt y) s = some s1 ∧
      r.exit.code = (if s1.pipefail && r2.exit.code != 0 && s1.exit.ok then r2.exit.code
                     else s1.exit.code) := by
  rw [run_pipe n x y s hs] at h
  cases hr : run n (.stmt x) (subshellOf s []) with
  | none => rw [hr] at h; cases h
  | some r2 =>
    rw [hr] at h
    cases hr2 : run n (.stmt y) s with
    | none => rw [hr2] at h; cases h
    | some s1 =>
      rw [hr2] at h
      refine ⟨r2, s1, rfl, rfl, ?_⟩
      simp only at h
      split at h <;> (cases h; simp_all)

/-! ### Non-vacuity: supported programs exercising the mechanisms -/

/-- `set -e; fn1() { false; echo "b"; }; if fn1; then echo "c"; fi; echo "a"` -/
def ex_errexit_in_condition : Prog :=
  (.cons (.mk false (.setE true)) (.cons (.mk false (.fn [102, 110, 49] (.mk false (.block (.cons (.mk false .fls) (.cons (.mk false (.echo [.lit [98]])) .nil)))))) (.cons (.mk false (.ifc (.cons (.mk false (.call [102, 110, 49])) .nil) (.cons (.mk false (.echo [.lit [99]])) .nil) .none)) (.cons (.mk false (.echo [.lit [97]])) .nil))))

/-- `for i in 1 2; do for j in a b; do echo "$i$j"; continue 2; done; echo "m"; done; echo "$?"` -/
def ex_continue_two_levels : Prog :=
  (.cons (.mk false (.forc [105] [[49], [50]] (.cons (.mk false (.forc [106] [[97], [98]] (.cons (.mk false (.echo [.var [105], .var [106]])) (.cons (.mk false (.cont (some 2))) .nil)))) (.cons (.mk false (.echo [.lit [109]])) .nil)))) (.cons (.mk false (.echo [.status])) .nil))

/-- `set -o pipefail; exit 3 | exit 4 | true; echo "$?"` -/
def ex_pipefail_chain : Prog :=
  (.cons (.mk false (.setPF true)) (.cons (.mk false (.pipe (.mk false (.pipe (.mk false (.exit (some 3))) (.mk false (.exit (some 4))))) (.mk false .tru))) (.cons (.mk false (.echo [.status])) .nil)))

/-- `trap 'echo "t$?"' EXIT; ( exit 3 )` -/
def ex_exit_trap : Prog :=
  (.cons (.mk false (.trapExit (.cons (.mk false (.echo [.lit [116], .status])) .nil))) (.cons (.mk false (.subsh (.cons (.mk false (.exit (some 3))) .nil))) .nil))

example : supportedProg true ex_errexit_in_condition = true := by decide +kernel
example : runFile 30 ex_errexit_in_condition = some ([98, 10, 99, 10, 97, 10], 0) := by decide +kernel
example : supportedProg false ex_continue_two_levels = true := by decide +kernel
example : runFile 30 ex_continue_two_levels = some ([49, 97, 10, 50, 97, 10, 48, 10], 0) := by decide +kernel
example : Bash.semFile 30 ex_pipefail_chain = some ([52, 10], 0) := by decide +kernel
example : runFile 30 ex_pipefail_chain = some ([52, 10], 0) := by decide +kernel
example : supportedProg false ex_exit_trap = true := by decide +kernel
example : runFile 30 ex_exit_trap = some ([116, 51, 10], 3) := by decide +kernel

/-! ### Counter-examples: the divergences that delimit `supportedProg`

  Each `w_*` is the skeleton term of the witness recorded in `known-findings.jsonl` /
  `corpus/C26-known.txt` (converted from the parsed shell text by the harness); the model (= the
  interpreter, tie) and `BashSem` (= bash, validated) disagree on it, and `supportedProg` rejects it
  in both modes. -/

/-- `for i in 1 2; do { break; echo "x"; }; echo "y"; done` -/
def w_break_nested : Prog :=
  (.cons (.mk false (.forc [105] [[49], [50]] (.cons (.mk false (.block (.cons (.mk false (.brk none)) (.cons (.mk false (.echo [.lit [120]])) .nil)))) (.cons (.mk false (.echo [.lit [121]])) .nil)))) .nil)

theorem cex_break_nested : runFile 40 w_break_nested ≠ Bash.semFile 40 w_break_nested := by decide +kernel
example : supportedProg false w_break_nested = false ∧ supportedProg true w_break_nested = false := by decide +kernel

/-- `for i in 1 2; do while break; do echo "x"; done; echo "$i"; done` -/
def w_break_in_while_condition : Prog :=
  (.cons (.mk false (.forc [105] [[49], [50]] (.cons (.mk false (.whl false (.cons (.mk false (.brk none)) .nil) (.cons (.mk false (.echo [.lit [120]])) .nil))) (.cons (.mk false (.echo [.var [105]])) .nil)))) .nil)

theorem cex_break_in_while_condition : runFile 40 w_break_in_while_condition ≠ Bash.semFile 40 w_break_in_while_condition := by decide +kernel
example : supportedProg false w_break_in_while_condition = false ∧ supportedProg true w_break_in_while_condition = false := by decide +kernel

/-- `for i in 1 2; do break 5; done; for j in 1 2; do echo "$j"; done` -/
def w_break_count : Prog :=
  (.cons (.mk false (.forc [105] [[49], [50]] (.cons (.mk false (.brk (some 5))) .nil))) (.cons (.mk false (.forc [106] [[49], [50]] (.cons (.mk false (.echo [.var [106]])) .nil))) .nil))

theorem cex_break_count : runFile 40 w_break_count ≠ Bash.semFile 40 w_break_count := by decide +kernel
example : supportedProg false w_break_count = false ∧ supportedProg true w_break_count = false := by decide +kernel

/-- `for i in 1 2; do echo "$i"; break 0; echo "after"; done; echo "$?"` -/
def w_break_zero : Prog :=
  (.cons (.mk false (.forc [105] [[49], [50]] (.cons (.mk false (.echo [.var [105]])) (.cons (.mk false (.brk (some 0))) (.cons (.mk false (.echo [.lit [97, 102, 116, 101, 114]])) .nil))))) (.cons (.mk false (.echo [.status])) .nil))

theorem cex_break_zero : runFile 40 w_break_zero ≠ Bash.semFile 40 w_break_zero := by decide +kernel
example : supportedProg false w_break_zero = false ∧ supportedProg true w_break_zero = false := by decide +kernel

/-- `fn1() { break; echo "inf"; }; for i in 1 2; do fn1; echo "$i"; done` -/
def w_break_function : Prog :=
  (.cons (.mk false (.fn [102, 110, 49] (.mk false (.block (.cons (.mk false (.brk none)) (.cons (.mk false (.echo [.lit [105, 110, 102]])) .nil)))))) (.cons (.mk false (.forc [105] [[49], [50]] (.cons (.mk false (.call [102, 110, 49])) (.cons (.mk false (.echo [.var [105]])) .nil)))) .nil))

theorem cex_break_function : runFile 40 w_break_function ≠ Bash.semFile 40 w_break_function := by decide +kernel
example : supportedProg false w_break_function = false ∧ supportedProg true w_break_function = false := by decide +kernel

/-- `fn1() { false; return; }; fn1; echo "$?"` -/
def w_return_status : Prog :=
  (.cons (.mk false (.fn [102, 110, 49] (.mk false (.block (.cons (.mk false .fls) (.cons (.mk false (.ret none)) .nil)))))) (.cons (.mk false (.call [102, 110, 49])) (.cons (.mk false (.echo [.status])) .nil)))

theorem cex_return_status : runFile 40 w_return_status ≠ Bash.semFile 40 w_return_status := by decide +kernel
example : supportedProg false w_return_status = false ∧ supportedProg true w_return_status = false := by decide +kernel

/-- `fn1() { ( return 3 ); echo "$?"; }; fn1` -/
def w_return_subshell : Prog :=
  (.cons (.mk false (.fn [102, 110, 49] (.mk false (.block (.cons (.mk false (.subsh (.cons (.mk false (.ret (some 3))) .nil))) (.cons (.mk false (.echo [.status])) .nil)))))) (.cons (.mk false (.call [102, 110, 49])) .nil))

theorem cex_return_subshell : runFile 40 w_return_subshell ≠ Bash.semFile 40 w_return_subshell := by decide +kernel
example : supportedProg false w_return_subshell = false ∧ supportedProg true w_return_subshell = false := by decide +kernel

/-- `fn1() { for i in a b c; do return 1; done; }; fn1; echo "$i"` -/
def w_for_after_return : Prog :=
  (.cons (.mk false (.fn [102, 110, 49] (.mk false (.block (.cons (.mk false (.forc [105] [[97], [98], [99]] (.cons (.mk false (.ret (some 1))) .nil))) .nil))))) (.cons (.mk false (.call [102, 110, 49])) (.cons (.mk false (.echo [.var [105]])) .nil)))

-- fixed in /repo by 7ead8d8 (the word-list `for` loop checks `stop()`): no longer a counter-example,
-- the clause of `supportedProg` that excluded it is gone
example : supportedProg false w_for_after_return = true := by decide +kernel
example : runFile 40 w_for_after_return = some ([97, 10], 0) := by decide +kernel
example : Bash.semFile 40 w_for_after_return = some ([97, 10], 0) := by decide +kernel

/-- `set -e; ! { false; echo "b"; }; echo "a"` -/
def w_negation_errexit : Prog :=
  (.cons (.mk false (.setE true)) (.cons (.mk true (.block (.cons (.mk false .fls) (.cons (.mk false (.echo [.lit [98]])) .nil)))) (.cons (.mk false (.echo [.lit [97]])) .nil)))

theorem cex_negation_errexit : runFile 40 w_negation_errexit ≠ Bash.semFile 40 w_negation_errexit := by decide +kernel
example : supportedProg false w_negation_errexit = false ∧ supportedProg true w_negation_errexit = false := by decide +kernel

/-- `! exit 0` -/
def w_negated_exit : Prog :=
  (.cons (.mk true (.exit (some 0))) .nil)

theorem cex_negated_exit : runFile 40 w_negated_exit ≠ Bash.semFile 40 w_negated_exit := by decide +kernel
example : supportedProg false w_negated_exit = false ∧ supportedProg true w_negated_exit = false := by decide +kernel

/-- `set -e; if ( false; echo "x" ); then echo "y"; fi` -/
def w_subshell_errexit_ignored : Prog :=
  (.cons (.mk false (.setE true)) (.cons (.mk false (.ifc (.cons (.mk false (.subsh (.cons (.mk false .fls) (.cons (.mk false (.echo [.lit [120]])) .nil)))) .nil) (.cons (.mk false (.echo [.lit [121]])) .nil) .none)) .nil))

theorem cex_subshell_errexit_ignored : runFile 40 w_subshell_errexit_ignored ≠ Bash.semFile 40 w_subshell_errexit_ignored := by decide +kernel
example : supportedProg false w_subshell_errexit_ignored = false ∧ supportedProg true w_subshell_errexit_ignored = false := by decide +kernel

/-- `set -e; { false && true; }; echo "d"` -/
def w_compound_errexit : Prog :=
  (.cons (.mk false (.setE true)) (.cons (.mk false (.block (.cons (.mk false (.and (.mk false .fls) (.mk false .tru))) .nil))) (.cons (.mk false (.echo [.lit [100]])) .nil)))

theorem cex_compound_errexit : runFile 40 w_compound_errexit ≠ Bash.semFile 40 w_compound_errexit := by decide +kernel
example : supportedProg false w_compound_errexit = false ∧ supportedProg true w_compound_errexit = false := by decide +kernel

/-- `true | x=5; echo "$x"` -/
def w_pipeline_last_stage : Prog :=
  (.cons (.mk false (.pipe (.mk false .tru) (.mk false (.assign [120] [.lit [53]])))) (.cons (.mk false (.echo [.var [120]])) .nil))

theorem cex_pipeline_last_stage : runFile 40 w_pipeline_last_stage ≠ Bash.semFile 40 w_pipeline_last_stage := by decide +kernel
example : supportedProg false w_pipeline_last_stage = false ∧ supportedProg true w_pipeline_last_stage = false := by decide +kernel

/-- `i=; while [ "$i" != aa ]; do i="${i}a"; false; done; echo "$?"` -/
def w_while_status : Prog :=
  (.cons (.mk false (.assign [105] [])) (.cons (.mk false (.whl false (.cons (.mk false (.test [105] true [97, 97])) .nil) (.cons (.mk false (.assign [105] [.var [105], .lit [97]])) (.cons (.mk false .fls) .nil)))) (.cons (.mk false (.echo [.status])) .nil)))

theorem cex_while_status : runFile 40 w_while_status ≠ Bash.semFile 40 w_while_status := by decide +kernel
example : supportedProg false w_while_status = false ∧ supportedProg true w_while_status = false := by decide +kernel

/-- `case k in *) false ;& a) ;; esac; echo "$?"` -/
def w_case_empty_clause : Prog :=
  (.cons (.mk false (.case [.lit [107]] (.cons [.star] (.cons (.mk false .fls) .nil) .fall (.cons [.lit [97]] .nil .brk .nil)))) (.cons (.mk false (.echo [.status])) .nil))

theorem cex_case_empty_clause : runFile 40 w_case_empty_clause ≠ Bash.semFile 40 w_case_empty_clause := by decide +kernel
example : supportedProg false w_case_empty_clause = false ∧ supportedProg true w_case_empty_clause = false := by decide +kernel

/-- `( trap 'echo "bye"' EXIT; true ); echo "x"` -/
def w_exit_trap_subshell : Prog :=
  (.cons (.mk false (.subsh (.cons (.mk false (.trapExit (.cons (.mk false (.echo [.lit [98, 121, 101]])) .nil))) (.cons (.mk false .tru) .nil)))) (.cons (.mk false (.echo [.lit [120]])) .nil))

theorem cex_exit_trap_subshell : runFile 40 w_exit_trap_subshell ≠ Bash.semFile 40 w_exit_trap_subshell := by decide +kernel
example : supportedProg false w_exit_trap_subshell = false ∧ supportedProg true w_exit_trap_subshell = false := by decide +kernel

/-- `trap 'exit 4' EXIT; echo "a"` -/
def w_trap_exit_status : Prog :=
  (.cons (.mk false (.trapExit (.cons (.mk false (.exit (some 4))) .nil))) (.cons (.mk false (.echo [.lit [97]])) .nil))

theorem cex_trap_exit_status : runFile 40 w_trap_exit_status ≠ Bash.semFile 40 w_trap_exit_status := by decide +kernel
example : supportedProg false w_trap_exit_status = false ∧ supportedProg true w_trap_exit_status = false := by decide +kernel

/-- `trap 'echo "e"' ERR; { false; }; echo "d"` -/
def w_err_trap_nesting : Prog :=
  (.cons (.mk false (.trapErr (.cons (.mk false (.echo [.lit [101]])) .nil))) (.cons (.mk false (.block (.cons (.mk false .fls) .nil))) (.cons (.mk false (.echo [.lit [100]])) .nil)))

theorem cex_err_trap_nesting : runFile 40 w_err_trap_nesting ≠ Bash.semFile 40 w_err_trap_nesting := by decide +kernel
example : supportedProg false w_err_trap_nesting = false ∧ supportedProg true w_err_trap_nesting = false := by decide +kernel

/-- `trap 'echo "e"' ERR; fn1() { false; true; }; fn1` -/
def w_err_trap_function : Prog :=
  (.cons (.mk false (.trapErr (.cons (.mk false (.echo [.lit [101]])) .nil))) (.cons (.mk false (.fn [102, 110, 49] (.mk false (.block (.cons (.mk false .fls) (.cons (.mk false .tru) .nil)))))) (.cons (.mk false (.call [102, 110, 49])) .nil)))

theorem cex_err_trap_function : runFile 40 w_err_trap_function ≠ Bash.semFile 40 w_err_trap_function := by decide +kernel
example : supportedProg false w_err_trap_function = false ∧ supportedProg true w_err_trap_function = false := by decide +kernel

/-- `trap 'echo "e"; exit 9' ERR; false; echo "d"` -/
def w_err_trap_exit : Prog :=
  (.cons (.mk false (.trapErr (.cons (.mk false (.echo [.lit [101]])) (.cons (.mk false (.exit (some 9))) .nil)))) (.cons (.mk false .fls) (.cons (.mk false (.echo [.lit [100]])) .nil)))

theorem cex_err_trap_exit : runFile 40 w_err_trap_exit ≠ Bash.semFile 40 w_err_trap_exit := by decide +kernel
example : supportedProg false w_err_trap_exit = false ∧ supportedProg true w_err_trap_exit = false := by decide +kernel

/-- `fn1() { true; } && echo "in"` -/
def w_funcdecl_list : Prog :=
  (.cons (.mk false (.fn [102, 110, 49] (.mk false (.and (.mk false (.block (.cons (.mk false .tru) .nil))) (.mk false (.echo [.lit [105, 110]])))))) .nil)

example : supportedProg false w_funcdecl_list = false ∧ supportedProg true w_funcdecl_list = false := by decide +kernel

/-- `for i in 1 2; do x=$( break; echo "x" ); echo "y$x"; done` -/
def w_break_cmdsubst : Prog :=
  (.cons (.mk false (.forc [105] [[49], [50]] (.cons (.mk false (.assignSub [120] (.cons (.mk false (.brk none)) (.cons (.mk false (.echo [.lit [120]])) .nil)))) (.cons (.mk false (.echo [.lit [121], .var [120]])) .nil)))) .nil)

theorem cex_break_cmdsubst : runFile 40 w_break_cmdsubst ≠ Bash.semFile 40 w_break_cmdsubst := by decide +kernel
example : supportedProg false w_break_cmdsubst = false ∧ supportedProg true w_break_cmdsubst = false := by decide +kernel

/-- `false; echo "$?$( exit 3 )$?"` -/
def w_status_after_cmdsubst : Prog :=
  (.cons (.mk false .fls) (.cons (.mk false (.echoSub [.status] (.cons (.mk false (.exit (some 3))) .nil) [.status])) .nil))

theorem cex_status_after_cmdsubst :
    runFile 40 w_status_after_cmdsubst ≠ Bash.semFile 40 w_status_after_cmdsubst := by decide +kernel
example : supportedProg false w_status_after_cmdsubst = false ∧ supportedProg true w_status_after_cmdsubst = false := by decide +kernel

/-- `echo "a$( exit 3 )"; x=1; echo "$?"`: the status of a substitution in an argument is not seen by a
    later assignment (the mechanism of `lastExpandExit`). -/
def ex_expand_status_not_stale : Prog :=
  (.cons (.mk false (.echoSub [.lit [97]] (.cons (.mk false (.exit (some 3))) .nil) [])) (.cons (.mk false (.assign [120] [.lit [49]])) (.cons (.mk false (.echo [.status])) .nil)))

example : supportedProg false ex_expand_status_not_stale = true := by decide +kernel
example : runFile 30 ex_expand_status_not_stale = some ([97, 10, 48, 10], 0) := by decide +kernel

/-- The full statement is false. -/
theorem run_eq_bashsem_statement_false : ¬ run_eq_bashsem_statement :=
  fun h => cex_break_nested (h 40 w_break_nested)

end ShVerif.C26
