import ShVerif.Model.C26
import ShVerif.Proofs.C26
/-
  C26 — the interpreter runs supported programs like bash.  Property theorems.
-/
namespace ShVerif.C26
open ShVerif.L5

/-- The full statement (false: see the counter-examples below). -/
def run_eq_bashsem_statement : Prop :=
  ∀ (fuel : Nat) (p : Prog), runFile fuel p = Bash.semFile fuel p

end ShVerif.C26
