import ShVerif.Model.C35
import ShVerif.Proofs.C35
/-
  C35 — `shfmt -w` replaces files atomically: property theorems about the system-call script
  `writeScript` run on the file-system model of ShVerif/Model/C35.lean.

  Assumed (it is the model's semantics of `rename`): the kernel replaces the directory entry
  atomically.  Outside the model: durability across power loss (`fsync` is a no-op here),
  concurrent writers to the same path, ownership and hard links.
-/
namespace ShVerif.C35

/-- Every intermediate state of the script is a state in which the target is intact. -/
theorem all_states_ok (c : TmpCfg) (perm umask : Nat) (old new : Bytes) :
    ∀ s ∈ states (writeScript c perm umask new) (init old perm umask),
      ∃ fs, s = some fs ∧ TargetOK fs old new perm := by
  cases c <;> by_cases h : maskMode perm umask = perm <;>
    simp [writeScript, probe, tempFd, h, states, step, init, TargetOK, lookup, upd]

/-- **prefix_atomic**: kill `shfmt -w` before any system call of the script — after EVERY prefix,
    reading the target yields exactly the old or exactly the new bytes, it is a regular file and
    its permission bits are the original ones.  For every temp-dir configuration, umask, mode and
    contents. -/
theorem prefix_atomic (c : TmpCfg) (perm umask : Nat) (old new : Bytes) (k : Nat) :
    ∃ fs, run ((writeScript c perm umask new).take k) (init old perm umask) = some fs ∧
      TargetOK fs old new perm :=
  all_states_ok c perm umask old new _ (run_take_mem_states _ _ k)

/-- No call of the script fails (from a state where only the target exists). -/
theorem script_runs (c : TmpCfg) (perm umask : Nat) (old new : Bytes) :
    (run (writeScript c perm umask new) (init old perm umask)).isSome = true := by
  obtain ⟨fs, h, _⟩ := all_states_ok c perm umask old new _ (run_mem_states _ _)
  rw [h]; rfl

/-- **no_temp_left**: after the complete script the only name that exists is the target (neither
    probe file nor the pending file is left, in either directory), and it holds exactly the new
    bytes with the original mode. -/
theorem no_temp_left (c : TmpCfg) (perm umask : Nat) (old new : Bytes) :
    ∃ fs, run (writeScript c perm umask new) (init old perm umask) = some fs ∧
      listing fs = [.target] ∧
      lookup fs .target = some { bytes := new, mode := perm, kind := .reg } ∧
      (∀ fd, fs.fds fd = none) := by
  cases c <;> by_cases h : maskMode perm umask = perm <;>
    simp [writeScript, probe, tempFd, h, run, step, init, listing, allPaths, lookup, upd] <;>
    intro fd <;> repeat' split <;> simp_all

/-- While the script runs only the three temporary names can appear next to the target, so a
    killed run leaves at most those behind (allowed by the property; a *completed* run leaves none). -/
theorem only_temps_appear (c : TmpCfg) (perm umask : Nat) (old new : Bytes) (k : Nat) :
    ∃ fs, run ((writeScript c perm umask new).take k) (init old perm umask) = some fs ∧
      Path.target ∈ listing fs := by
  obtain ⟨fs, h, ino, h2, _⟩ := prefix_atomic c perm umask old new k
  refine ⟨fs, h, ?_⟩
  unfold lookup at h2
  unfold listing allPaths
  cases hn : fs.names .target with
  | none => simp [hn] at h2
  | some i => simp [hn]

/-- **nonregular_refused**: for a symlink, FIFO, directory or any other non-regular target the
    decision is taken on `Lstat` alone: the script consists of `lstat` calls only (nothing is
    created, written, renamed or removed), and the file system is unchanged. -/
theorem nonregular_refused (kind : FKind) (hk : kind ≠ .reg) (c : TmpCfg) (perm umask : Nat)
    (old new : Bytes) :
    (∀ op ∈ shfmtW kind c perm umask new, op = .lstat .target) ∧
    run (shfmtW kind c perm umask new) (init old perm umask kind) = some (init old perm umask kind) := by
  cases kind <;> simp_all [shfmtW, run, step]

/-- A regular target gets the full script. -/
theorem regular_written (c : TmpCfg) (perm umask : Nat) (new : Bytes) :
    shfmtW .reg c perm umask new = writeScript c perm umask new := by
  simp [shfmtW]

/-- The pending file never becomes visible under the target's name before it is complete: at the
    moment of the final rename it holds exactly `new` with mode `perm` (so the rename publishes a
    complete file). -/
theorem temp_complete_before_rename (c : TmpCfg) (perm umask : Nat) (old new : Bytes) :
    ∃ fs, run ((writeScript c perm umask new).take ((writeScript c perm umask new).length - 1))
        (init old perm umask) = some fs ∧
      lookup fs .temp = some { bytes := new, mode := perm, kind := .reg } ∧
      (∀ fd, fs.fds fd = none) := by
  cases c <;> by_cases h : maskMode perm umask = perm <;>
    simp [writeScript, probe, tempFd, h, run, step, init, lookup, upd] <;>
    intro fd <;> repeat' split <;> simp_all

/-- **Hard-link witness**: the original inode (number 0) is never modified — after every prefix of
    the script it still holds the old bytes with the old mode.  Atomic replace means a *new* inode
    under the old name; anything else holding the old inode (a hard link, an open descriptor, a
    running script) keeps seeing the old file. -/
theorem original_inode_untouched (c : TmpCfg) (perm umask : Nat) (old new : Bytes) :
    ∀ s ∈ states (writeScript c perm umask new) (init old perm umask),
      ∃ fs, s = some fs ∧ fs.inodes 0 = some { bytes := old, mode := perm, kind := .reg } := by
  cases c <;> by_cases h : maskMode perm umask = perm <;>
    simp [writeScript, probe, tempFd, h, states, step, init, upd]

/-- …and after the complete script the target's name points to a different inode. -/
theorem replaced_by_new_inode (c : TmpCfg) (perm umask : Nat) (old new : Bytes) :
    ∃ fs, run (writeScript c perm umask new) (init old perm umask) = some fs ∧
      fs.names .target ≠ some 0 ∧ fs.inodes 0 = some { bytes := old, mode := perm, kind := .reg } := by
  cases c <;> by_cases h : maskMode perm umask = perm <;>
    simp [writeScript, probe, tempFd, h, run, step, init, upd]

/-- **A failing atomic path leaves the file alone**: after every prefix of a failing run's script
    the target is still the original inode with the old bytes and mode, and after the complete
    failing script nothing else is left and nothing is open. -/
theorem failed_run_harmless (c : TmpCfg) (at_ : FailAt) (perm umask : Nat) (old : Bytes) :
    (∀ s ∈ states (failScript c at_) (init old perm umask),
      ∃ fs, s = some fs ∧ fs.names .target = some 0 ∧
        fs.inodes 0 = some { bytes := old, mode := perm, kind := .reg }) ∧
    (∃ fs, run (failScript c at_) (init old perm umask) = some fs ∧ listing fs = [.target] ∧
      (∀ fd, fs.fds fd = none)) := by
  constructor
  · cases c <;> cases at_ <;> simp [failScript, probe, states, step, init, upd]
  · cases c <;> cases at_ <;>
      simp [failScript, probe, run, step, init, listing, allPaths, upd] <;>
      intro fd <;> repeat' split <;> simp_all

/-- **Alphabet**: no call of any script — successful, failing, or for a non-regular target —
    creates, truncates, writes, chmods or removes the target in place; the only call that changes
    what the target's name refers to is the rename of the pending file onto it. -/
theorem script_alphabet (kind : FKind) (c : TmpCfg) (at_ : FailAt) (perm umask : Nat) (new : Bytes) :
    (∀ op ∈ shfmtW kind c perm umask new, allowedOnTarget op = true) ∧
    (∀ op ∈ failScript c at_, allowedOnTarget op = true) := by
  constructor
  · cases kind <;> cases c <;> by_cases h : maskMode perm umask = perm <;>
      simp [shfmtW, writeScript, probe, tempFd, h, allowedOnTarget]
  · cases c <;> cases at_ <;> simp [failScript, probe, allowedOnTarget]

/-- The permission bits the pending file is created with are the target's, cut by the umask, and
    the `fchmod` is present exactly when the umask took something away. -/
theorem fchmod_iff (c : TmpCfg) (perm umask : Nat) (new : Bytes) :
    Op.fchmod (tempFd c) perm ∈ writeScript c perm umask new ↔ maskMode perm umask ≠ perm := by
  cases c <;> by_cases h : maskMode perm umask = perm <;> simp [writeScript, probe, tempFd, h]

/-- Non-vacuity: a umask that forces the fchmod, and one that does not. -/
example : maskMode 0o755 0o077 ≠ 0o755 := by decide
example : maskMode 0o644 0o022 = 0o644 := by decide

end ShVerif.C35
