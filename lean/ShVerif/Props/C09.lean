import ShVerif.Model.C09
import ShVerif.Gen.C09
import ShVerif.Expect.C09PosEnd
import ShVerif.Proofs.C09
/-
  C09 — Source positions point at the source they describe.

  Part A `pos_pack`: the arithmetic of syntax.Pos, on the bit-exact model (tied to NewPos, the
          accessors, After and posAddCol by differential correspondence on boundary values, and to
          their source text by `pos_source_unchanged`).
  Part B `posend_table`: every node type's Pos()/End() body, regenerated from nodes.go on every
          run, equals the hand-written expectation "start of first token / one past last token".
  Part C `local_to_global`: generic induction over schema-erased trees.
  The byte-source invariant `bytesrc_pos_inv` (layer L2) belongs to the L2 package; the lexer and
  parser are not modelled here: that parser output satisfies the local facts, that line/column are
  those of the byte offset and that each keyword/operator position points at its text is checked on
  every parsed tree of every run (ops `local…`, `speclinecol`, and the harness's search leg).
-/
namespace ShVerif.C09

/-! ### Part A — pos_pack -/

/-- Within the documented limits `NewPos` followed by the accessors is the identity. -/
theorem pos_pack_roundtrip (o l c : Nat) (ho : o ≤ offsetMax) (hl : l ≤ lineMax) (hc : c ≤ colMax) :
    (newPos o l c).offset = o ∧ (newPos o l c).line = l ∧ (newPos o l c).col = c := by
  refine ⟨?_, ?_, ?_⟩
  · rw [newPos_offset]; omega
  · rw [newPos_line]; simp; omega
  · rw [newPos_col]; simp; omega

/-- Beyond the limits: the offset stops increasing at `offsetMax`; a line or column that does not
    fit its 18 / 14 bits is replaced by 0 — independently of the other two components. -/
theorem pos_pack_beyond (o l c : Nat) :
    (newPos o l c).offset = min o offsetMax ∧
    (newPos o l c).line = (if l > lineMax then 0 else l) ∧
    (newPos o l c).col = (if c > colMax then 0 else c) ∧
    (newPos o l c).wf :=
  ⟨newPos_offset o l c, newPos_line o l c, newPos_col o l c, newPos_wf o l c⟩

/-- `IsValid` of a constructed position: some component carries information.  (An offset alone
    does not: `NewPos(o, 0, 0)` is invalid; a position whose line *and* column overflowed is
    invalid too.)  A constructed position is never the "recovered" marker. -/
theorem pos_pack_valid (o l c : Nat) :
    ((newPos o l c).isValid = true ↔ ((l ≤ lineMax ∧ l ≠ 0) ∨ (c ≤ colMax ∧ c ≠ 0))) ∧
    (newPos o l c).isRecovered = false := by
  refine ⟨newPos_isValid o l c, ?_⟩
  rw [newPos_words]
  unfold Pos.isRecovered recoveredPos
  have : min o offsetMax ≠ offsetRecovered := by rw [offsetMax_eq, offsetRecovered_eq]; omega
  simp [this]

/-- `posAddCol` leaves invalid positions (zero, recovered) alone. -/
theorem posAddCol_invalid_id (p : Pos) (n : Int) (h : p.isValid = false) : posAddCol p n = p :=
  posAddCol_invalid p n h

/-- `posAddCol` preserves the offset and column deltas and the line: if the column is known and
    neither the offset nor the column leaves its range, both move by exactly `n`. -/
theorem posAddCol_delta (p : Pos) (n : Int) (hw : p.wf) (hv : p.isValid = true) (hn : smallInt n)
    (ho : 0 ≤ (p.offs : Int) + n ∧ (p.offs : Int) + n ≤ offsetMax)
    (hc : p.col ≠ 0 ∧ 1 ≤ (p.col : Int) + n ∧ (p.col : Int) + n ≤ colMax) :
    ((posAddCol p n).offset : Int) = p.offset + n ∧
    ((posAddCol p n).col : Int) = p.col + n ∧
    (posAddCol p n).line = p.line ∧
    (posAddCol p n).isValid = true := by
  rw [offsetMax_eq] at ho
  rw [colMax_eq] at hc
  have hoff : (posAddCol p n).offs = newOffs p.offs n := posAddCol_offs p n hw hv hn
  have hcol : (posAddCol p n).col = newCol p.col n := posAddCol_col p n hw hv hn
  have hvalid : (posAddCol p n).isValid = true := by
    rw [isValid_iff, hoff]
    refine ⟨by rw [offsetMax_eq]; exact newOffs_le _ _, ?_⟩
    intro h0
    have : (posAddCol p n).col = 0 := by unfold Pos.col; rw [h0]; simp
    rw [hcol] at this
    unfold newCol at this
    rw [if_neg hc.1, if_pos (by omega)] at this
    omega
  refine ⟨?_, ?_, posAddCol_line p n hw hv hn, hvalid⟩
  · rw [offset_of_valid hvalid, offset_of_valid hv, hoff]
    unfold newOffs; omega
  · rw [hcol]
    unfold newCol
    rw [if_neg hc.1, if_pos (by omega)]
    omega

/-- Out of range: the offset is clamped to `[0, offsetMax]`; a column that leaves `[1, colMax]`,
    or that was unknown, is 0 ("?"); the line never changes. -/
theorem posAddCol_clamp (p : Pos) (n : Int) (hw : p.wf) (hv : p.isValid = true) (hn : smallInt n) :
    (posAddCol p n).offs = newOffs p.offs n ∧
    (posAddCol p n).col = newCol p.col n ∧
    (posAddCol p n).line = p.line ∧
    (posAddCol p n).wf :=
  ⟨posAddCol_offs p n hw hv hn, posAddCol_col p n hw hv hn, posAddCol_line p n hw hv hn,
   posAddCol_wf p n hw hv hn⟩

/-- `posAddCol` is monotone in `n`: the offset never decreases, and the column does not decrease
    as long as it stays known. -/
theorem posAddCol_mono (p : Pos) (n m : Int) (hw : p.wf) (hv : p.isValid = true)
    (hn : smallInt n) (hm : smallInt m) (hnm : n ≤ m) :
    (posAddCol p n).offs ≤ (posAddCol p m).offs ∧
    ((posAddCol p n).col ≠ 0 → (posAddCol p m).col ≠ 0 → (posAddCol p n).col ≤ (posAddCol p m).col) := by
  rw [posAddCol_offs p n hw hv hn, posAddCol_offs p m hw hv hm,
    posAddCol_col p n hw hv hn, posAddCol_col p m hw hv hm]
  constructor
  · unfold newOffs; omega
  · intro h1 h2
    exact newCol_mono p.col n m hnm h1 h2

/-- Validity survives `posAddCol` whenever the line is known. -/
theorem posAddCol_valid (p : Pos) (n : Int) (hw : p.wf) (hv : p.isValid = true) (hn : smallInt n)
    (hl : p.line ≠ 0) : (posAddCol p n).isValid = true := by
  rw [isValid_iff, posAddCol_offs p n hw hv hn]
  refine ⟨by rw [offsetMax_eq]; exact newOffs_le _ _, ?_⟩
  intro h0
  have : (posAddCol p n).line = 0 := by unfold Pos.line; rw [h0]; simp
  rw [posAddCol_line p n hw hv hn] at this
  exact hl this

/-- … and only then: with an overflowed line (0) a column that overflows as well turns a valid
    position into an invalid one. -/
theorem posAddCol_valid_needs_line :
    (newPos 5 0 16383).isValid = true ∧ (posAddCol (newPos 5 0 16383) 1).isValid = false := by
  decide

/-- `After` is a strict order on positions: irreflexive, asymmetric, transitive; two valid
    positions with different offset words are comparable. -/
theorem after_strict_order (p q r : Pos) :
    p.after p = false ∧
    (p.after q = true → q.after p = false) ∧
    (p.after q = true → q.after r = true → p.after r = true) ∧
    (p.isValid = true → q.isValid = true → p.offs ≠ q.offs → (p.after q = true ∨ q.after p = true)) := by
  unfold Pos.after
  refine ⟨?_, ?_, ?_, ?_⟩
  · cases p.isValid <;> simp
  · cases p.isValid <;> cases q.isValid <;> simp <;> omega
  · cases p.isValid <;> cases q.isValid <;> simp <;> omega
  · intro hp hq hne
    simp [hp, hq]
    omega

/-- For a valid `p` and any `q` that is not a recovered position, `p.After(q)` is the comparison
    of the reported offsets; an invalid `p` is after nothing. -/
theorem after_iff_offset (p q : Pos) :
    (p.isValid = true → q.offs ≤ offsetMax → (p.after q = true ↔ p.offset > q.offset)) ∧
    (p.isValid = false → p.after q = false) := by
  constructor
  · intro hp hq
    have : q.offset = q.offs := by
      unfold Pos.offset
      have : ¬ (q.offs > offsetMax) := by omega
      simp [this]
    rw [offset_of_valid hp, this]
    unfold Pos.after
    simp [hp]
  · intro hp
    unfold Pos.after
    simp [hp]

/-- Moving right by a positive amount that stays in range yields a later position. -/
theorem posAddCol_after (p : Pos) (n : Int) (hw : p.wf) (hv : p.isValid = true) (hn : smallInt n)
    (hpos : 0 < n) (ho : (p.offs : Int) + n ≤ offsetMax) (hl : p.line ≠ 0) :
    (posAddCol p n).after p = true := by
  unfold Pos.after
  rw [posAddCol_valid p n hw hv hn hl, posAddCol_offs p n hw hv hn]
  rw [offsetMax_eq] at ho
  simp
  unfold newOffs
  omega

/-! ### Part B — posend_table (regenerated on every run) -/

open ShVerif.Gen.C09 in
/-- Every node type's `Pos()` and `End()` is what the hand-written expectation says: start of the
    first token, one past the last token.  (`len("…")` and token texts are folded to numbers on
    both sides before comparing.) -/
theorem posend_table : sameTable table Expect.C09.table = true := by
  decide +kernel

open ShVerif.Gen.C09 in
/-- … and so are the helper functions those bodies call. -/
theorem posend_helpers : sameHelpers helpers Expect.C09.helpers = true := by
  decide +kernel

open ShVerif.Gen.C09 in
/-- The extractor understood every body completely. -/
theorem posend_no_unknown :
    (table.all (fun e => !e.pos.hasUnknown && !e.end_.hasUnknown) &&
     helpers.all (fun h => !h.body.hasUnknown)) = true := by
  decide +kernel

open ShVerif.Gen.C09 in
/-- The constants and function bodies after which the `Pos` model of Part A was written are
    unchanged in the source. -/
theorem pos_source_unchanged :
    consts = Expect.C09.consts ∧
    (funcs.filter fun f => !Expect.C09.unmodelled.contains f.1) = Expect.C09.funcs := by
  decide +kernel

/-! ### Part C — local_to_global -/

/-- If every node satisfies its local facts (`pos ≤ end`, own tokens and direct children inside
    `[pos, end]`, elements of each list field starting in source order) then, for every node `a`
    of the tree: `pos ≤ end`; every node and every token below `a` lies within `a`; the elements of
    each of `a`'s list fields start in source order. -/
theorem local_to_global (t : PTree) (h : localOk t = true) :
    ∀ a, Sub t a →
      a.pos ≤ a.end_ ∧
      (∀ d, Sub a d → a.pos ≤ d.pos ∧ d.end_ ≤ a.end_ ∧ d.pos ≤ d.end_) ∧
      (∀ d, Sub a d → ∀ tk ∈ d.toks, a.pos ≤ tk.1 ∧ tk.1 + tk.2 ≤ a.end_) ∧
      List.Pairwise (fun k1 k2 => k1.slot = k2.slot → k1.pos ≤ k2.pos) a.kids := by
  intro a ha
  have hla : localOk a = true := (local_sub t h a ha).2.2
  have hna := localOk_node hla
  refine ⟨localNode_pos_le hna, ?_, ?_, ?_⟩
  · intro d hd
    obtain ⟨h1, h2, h3⟩ := local_sub a hla d hd
    exact ⟨h1, h2, localNode_pos_le (localOk_node h3)⟩
  · intro d hd tk htk
    obtain ⟨h1, h2, h3⟩ := local_sub a hla d hd
    have hnd := localOk_node h3
    simp only [localNode, Bool.and_eq_true, List.all_eq_true] at hnd
    have := hnd.1.1.2 tk htk
    simp only [tokWithin, Bool.and_eq_true, decide_eq_true_eq] at this
    omega
  · simp only [localNode, Bool.and_eq_true] at hna
    refine (pairwiseB_pairwise hna.2).imp ?_
    intro k1 k2 hk heq
    simp only [startsBefore, Bool.or_eq_true, bne_iff_ne, ne_eq, decide_eq_true_eq] at hk
    rcases hk with hk | hk
    · exact absurd heq hk
    · exact hk

/-- Source order of whole subtrees: if, in addition, the elements of every list field do not
    overlap (no here-document involved), then everything inside an earlier element ends before
    anything inside a later element of the same field starts. -/
theorem local_to_global_disjoint (t : PTree) (h : localOk t = true) (hd : localDisjoint t = true) :
    ∀ a, Sub t a →
      List.Pairwise (fun k1 k2 => k1.slot = k2.slot →
        ∀ d1 d2, Sub k1 d1 → Sub k2 d2 → d1.end_ ≤ d2.pos) a.kids := by
  intro a ha
  have hla : localOk a = true := (local_sub t h a ha).2.2
  have hp := pairwiseB_pairwise (disjoint_sub _ t (Nat.le_refl _) hd a ha)
  have hkids : ∀ k ∈ a.kids, localOk k = true := by
    cases a with
    | node id s p e toks kids =>
      simp only [localOk, Bool.and_eq_true] at hla
      exact localOkList_mem hla.2
  refine hp.imp_of_mem ?_
  intro k1 k2 hm1 hm2 hk heq d1 d2 hd1 hd2
  simp only [endsBefore, Bool.or_eq_true, bne_iff_ne, ne_eq, decide_eq_true_eq] at hk
  rcases hk with hk | hk
  · exact absurd heq hk
  · have e1 := (local_sub k1 (hkids k1 hm1) d1 hd1).2.1
    have e2 := (local_sub k2 (hkids k2 hm2) d2 hd2).1
    omega

/-- The same conclusion for the executable specification the driver runs on every real tree
    (`specglobal`): a tree that passes the local check passes the global one. -/
theorem local_to_global_spec (t : PTree) (h : localOk t = true) : globalOk t = true := by
  unfold globalOk
  simp only [List.all_eq_true, Bool.and_eq_true, decide_eq_true_eq]
  intro a ha
  obtain ⟨h1, h2, h3, _⟩ := local_to_global t h a ha
  have hla : localOk a = true := (local_sub t h a ha).2.2
  refine ⟨⟨h1, ?_⟩, ?_⟩
  · intro d hd
    obtain ⟨e1, e2, e3⟩ := h2 d hd
    refine ⟨⟨?_, e3⟩, ?_⟩
    · simp only [kidWithin, Bool.and_eq_true, decide_eq_true_eq]; exact ⟨e1, e2⟩
    · intro tk htk
      have := h3 d hd tk htk
      simp only [tokWithin, Bool.and_eq_true, decide_eq_true_eq]; exact this
  · have hna := localOk_node hla
    simp only [localNode, Bool.and_eq_true] at hna
    exact hna.2

/-! ### The specification of line and column

  What "line and column agree with the byte offset" means (`lineColAt`, run against every position
  of every parsed tree by the op `speclinecol`): offset 0 is 1:1; stepping over a newline byte
  (0x0A) leads to the next line, column 1; stepping over ANY other byte leads to the same line, next
  column — a NUL byte, a CR, a tab, each byte of a byte order mark or of a multi-byte character, an
  invalid UTF-8 byte, a backslash: column = 1 + number of bytes since the last newline.
  NUL bytes are therefore counted like every other byte (so does the lexer: `p.col++`).  The open
  finding K4 is not about this specification: it concerns positions that the parser *derives* from
  a token's length when NULs or escaped newlines lie inside that token; only such a position (same
  blank-delimited run, after the dropped bytes) is exempt from the check, every other position of
  an input with NUL bytes is checked. -/

/-- the defining equations -/
theorem lineColAt_step (b : UInt8) (rest : List UInt8) (off line col : Nat) :
    lineColFrom line col (b :: rest) (off + 1) =
      (if b = 10 then lineColFrom (line + 1) 1 rest off else lineColFrom line (col + 1) rest off) ∧
    lineColFrom line col (b :: rest) 0 = (line, col) := by
  constructor
  · rfl
  · rfl

/-- The specification, offset by offset: the start of the input is 1:1, and the position after the
    byte at `off` is the next line's column 1 if that byte is a newline, the next column otherwise. -/
theorem lineColAt_succ (src : List UInt8) (off : Nat) (b : UInt8) (h : src[off]? = some b) :
    lineColAt src 0 = (1, 1) ∧
    lineColAt src (off + 1) =
      (if b = 10 then ((lineColAt src off).1 + 1, 1) else ((lineColAt src off).1, (lineColAt src off).2 + 1)) := by
  refine ⟨by cases src <;> rfl, ?_⟩
  exact lineColFrom_succ src off 1 1 b h

/-! ### Non-vacuity -/

example : localOk (.node 0 0 0 10 [(0, 1), (9, 1)] [.node 1 0 1 4 [] [], .node 2 0 5 8 [(5, 1)] [.node 3 0 6 7 [] []]]) = true := by decide
example : localDisjoint (.node 0 0 0 10 [] [.node 1 0 1 4 [] [], .node 2 0 5 8 [] []]) = true := by decide
/-- a tree that violates a local fact two levels down fails the global spec -/
example : globalOk (.node 0 0 0 10 [] [.node 1 0 1 4 [] [.node 2 0 3 6 [] []]]) = false := by decide
example : (newPos 7 3 5).isValid = true ∧ (newPos 7 3 5).wf := ⟨by decide, newPos_wf 7 3 5⟩
example : smallInt 4 := by unfold smallInt; omega
example : (posAddCol (newPos 14 1 15) 2).offset = 16 ∧ (posAddCol (newPos 14 1 15) 2).col = 17 := by decide

/-! ### What the specification says on the witnesses of the open findings (known-findings.jsonl);
    the implementation's answers are in the comments, replayed from corpus/C09-known.txt. -/

/-- K1 `a \␍␊b`: `b` (offset 5) is at 2:1; the parser reports 2:2. -/
example : lineColAt [0x61, 0x20, 0x5c, 0x0d, 0x0a, 0x62] 5 = (2, 1) := by decide
/-- K2 `echo "a\␊b"`: the literal `a` ends at offset 7 (1:8) or, counting the continuation, at 9
    (2:1); the parser reports offset 8 with 1:8, and offset 8 is 1:9. -/
example : lineColAt [0x65, 0x63, 0x68, 0x6f, 0x20, 0x22, 0x61, 0x5c, 0x0a, 0x62, 0x22] 8 = (1, 9) := by decide
/-- K8 `foo\`: the end of the input (offset 4) is 1:5; the parser reports 1:6. -/
example : lineColAt [0x66, 0x6f, 0x6f, 0x5c] 4 = (1, 5) := by decide

end ShVerif.C09
