import ShVerif.Model.C28
import ShVerif.Proofs.C28
import ShVerif.Gen.C28Sites
import ShVerif.Expect.C28Sites
/-
  C28 — The interpreter never panics.  *Partial by nature*: the theorems below prove index /
  assertion safety of the modelled argument-handling code (models in ShVerif/Model/C28.lean, tied
  to the Go code by differential correspondence), and `panic_sites_expected` ties the complete list
  of explicit `panic(` calls and unchecked type assertions of packages interp and expand to a
  reviewed expectation.  Whole-interpreter panic freedom is explored by the harness's search leg
  only.

  All five statements that were false on the pinned tree (shift, getopts, arithmetic l-values,
  associative subscripts, Params) hold since the fix: commits 2d6a9e4, 77cabce, fd86341, 443024b,
  a1547ff and are full theorems now, and so does `append_kind_safe` (namerefs with an empty target,
  found later; fix 3a8d3f5).  No refuted statement is left.  Statements that are
  still false of the model (hence of the code: each counter-example is replayed on
  the real interpreter on every run) are kept as `def …_statement : Prop`, with the `…_partial`
  theorem under the exact extra hypothesis and the refutation of the full statement.
-/
namespace ShVerif.C28

/-! ## shift -/

/-- `shift` never panics, for any positional parameters and any arguments (a negative count is the
    error "shift count out of range" since fix 2d6a9e4). -/
theorem shift_safe (params args : List Bytes) : shift params args ≠ .panic :=
  shift_no_panic params args

/-! ## getopts -/

/-- `getopts.next` is total for every cursor, option string and argument vector (a stale rune
    cursor is reset before use since fix 77cabce). -/
theorem getopts_next_safe (g : GState) (optstr : List Nat) (args : List (List Nat)) :
    gnext g optstr args ≠ .panic := by
  obtain ⟨g', o, hg⟩ := gnext_total g optstr args
  rw [hg]; intro h'; cases h'

/-- For every sequence of calls — any option strings, any (changing) argument vectors, any OPTIND
    values — `getopts.next` never indexes out of range. -/
theorem getopts_safe (calls : List GCall) : grun ⟨0, 0⟩ calls ≠ .panic :=
  grun_total calls ⟨0, 0⟩

/-! ## flagParser and Params -/

/-- `more()`, `value()` never panic; `flag()` does not panic when the call before it was a
    `more()` that returned true — for every argument vector and every client script. -/
theorem flagparser_safe (args : List Bytes) (ops : List FOp)
    (h : fpObeys (FP.init args) false ops = true) : (fpRun (FP.init args) ops).2 = false :=
  fpRun_safe ops (FP.init args) false (fun h => by cases h) h

/-- `Params(args...)` — the `set` builtin, and the option to `New` in any position — never panics
    (in particular `flag[0]`, `flag[1]` are in range and listings are printed through a non-nil
    writer: full statement since fix a1547ff), and the fuel of the model suffices. -/
theorem params_safe (opts : List Bool) (args : List Bytes) :
    params opts args ≠ .panic ∧ params opts args ≠ .outOfFuel := by
  unfold params
  exact paramsLoop_safe _ _ _ (by rw [fpSize_init]; omega) (Or.inl rfl)

/-! ## break / continue, exit / return, wait -/

theorem break_continue_safe (inLoop : Bool) (args : List Bytes) :
    breakContinue inLoop args ≠ .panic := by
  unfold breakContinue
  cases inLoop with
  | false => intro h; cases h
  | true =>
    match args with
    | [] => intro h; cases h
    | [a] => simp only [Bool.not_true, Bool.false_eq_true, if_false]; cases goAtoi a <;> (intro h; cases h)
    | _ :: _ :: _ => intro h; cases h

theorem exit_return_safe (args : List Bytes) : exitArgs args ≠ .panic := by
  unfold exitArgs
  match args with
  | [] => intro h; cases h
  | [a] => simp only; cases goAtoi a <;> (intro h; cases h)
  | _ :: _ :: _ => intro h; cases h

/-- `r.bgProcs[pid-1]` is in range for every argument vector and any number of jobs. -/
theorem wait_safe (nprocs : Nat) (args : List Bytes) : wait nprocs args ≠ .panic := by
  unfold wait
  obtain ⟨b, p', hm, _⟩ := (FP.init args).more_spec
  rw [hm]
  cases b with
  | true => intro h; cases h
  | false =>
    simp only
    split
    · intro h; cases h
    · exact waitArgs_no_panic nprocs args 0 []

/-! ## pushd / popd / dirs -/

/-- Over every sequence of `pushd`/`popd`/`cd`/`dirs` calls (any flags and arguments, any file
    system) from a stack of at least one entry — `Reset` and `subshell` establish that — no
    `r.dirStack[len-1]`, `[len-2]`, `[:len-1]` is out of range, and the stack never gets empty. -/
theorem pushd_popd_safe (fs : List Bytes) (s : DState) (ops : List DOp) (h : 1 ≤ s.stack.length) :
    ∃ s' tr, drun fs s ops = .ok (s', tr) ∧ 1 ≤ s'.stack.length :=
  drun_safe fs ops s h

/-! ## slicing -/

/-- `${s:o:l}`: for every value and every offset / length (absent, negative, huge). -/
theorem slice_safe (rs : List Nat) (off len : Option Int) : sliceStr rs off len ≠ .panic :=
  sliceStr_safe rs off len

/-- `${a[@]:o:l}`, `${@:o:l}`: for every element list, dense (`indexes = []`) or sparse with one
    index per element (the `Variable.Indexes` invariant), and every offset / length. -/
theorem slice_elems_safe {α : Type} (elems : List α) (indexes : List Int) (off len : Option Int)
    (h : indexes = [] ∨ indexes.length = elems.length) : sliceElems elems indexes off len ≠ .panic :=
  sliceElems_safe elems indexes off len h

/-! ## arithmetic l-values -/

/-- Whatever operand the parser hands to `++ -- = op=` (a name, `a[i]`, a postfix expression, …),
    `expand.Arithm` neither fails a type assertion nor looks up an empty variable name: a
    non-literal operand is the error "unsupported assignment target" (fix fd86341). -/
theorem arith_name_safe (x : AExpr) : arithLvalue x ≠ .panic := by
  unfold arithLvalue
  simp only
  split <;> (intro h; cases h)

/-- A name that is looked up is never empty. -/
theorem arith_name_nonempty (x : AExpr) (n : Bytes) (h : arithLvalue x = .ok (some n)) : n ≠ [] := by
  unfold arithLvalue at h
  simp only at h
  split at h
  · cases h
  · cases h; assumption

/-! ## associative subscripts -/

/-- Whatever subscript the parser produces (`k`, `1+2`, `i++`, `(1)`, zsh flags, none), `varInd` /
    `assignElem` / `assignVal` on an associative array do not fail a type assertion (full statement
    since fix 443024b: a non-word subscript is an error). -/
theorem assoc_index_safe (idx : AExpr) : assocIndex idx ≠ .panic := by
  cases idx <;> (intro h; cases h)

/-! ## namerefs -/

/-- `Variable.Resolve` never returns a variable whose `Kind` is still `NameRef` — for every
    environment, including nameref cycles, self references, dangling references and chains of 100
    or more.  This is the invariant that makes the `default:` branches of the `Kind` switches after a
    `Resolve` unreachable. -/
theorem resolve_never_nameref (env : Bytes → Var) (v : Var) : (resolve env v).2.kind ≠ .nameRef :=
  resolveLoop_not_nameref env _ _ _

/-- The `default:` branch of `assignVal`'s `Kind` switch (`panic("unexpected conversion of kind
    %d")`) is unreachable for every stored variable and every environment — namerefs with empty
    targets, cycles, self references and over-long chains included (full statement since fix
    3a8d3f5: an unresolved nameref has its own arm; a resolved variable is never a nameref by
    `resolve_never_nameref`; `KeepValue` is never stored). -/
theorem append_kind_safe (env : Bytes → Var) (v : Var) (hv : v.kind ≠ .keepValue)
    (henv : ∀ n, (env n).kind ≠ .keepValue) : appendKind (prevFor env v).kind ≠ .panic := by
  have key : ∀ k : VKind, k ≠ .keepValue → appendKind k ≠ .panic := by
    intro k h; cases k <;> simp_all [appendKind]
  unfold prevFor
  by_cases hn : (resolve env v).1 ≠ []
  · rw [if_pos hn]
    exact key _ (resolveLoop_kind env (· ≠ .keepValue) (by decide) henv _ _ _ hv)
  · rw [if_neg hn]
    exact key _ hv

/-! ## panic-site table -/

/-- Every explicit `panic(` call, every unchecked type assertion `x.(T)` and every shift `x << y`,
    `x >> y`, `<<=`, `>>=` whose count is neither an integer literal nor a conversion to an unsigned
    type (a potential "negative shift amount" panic) in packages interp
    and expand (regenerated from the working tree into `Gen.C28Sites.sites` on every run) is one
    of the reviewed sites of `Expect.C28Sites.expected`, and vice versa: a new site, or a site
    that moved to another function, breaks this obligation. -/
theorem panic_sites_expected :
    Gen.C28Sites.sites = Expect.C28Sites.expected.map (fun e => e.site) := by
  decide +kernel

/-! ## Non-vacuity -/

example : shift [[97], [98], [99]] [[50]] = .ok 1 := by decide
example : shift [[97]] [[45, 48]] = .ok 1 := by decide
example : (gcall ⟨0, 0⟩ ⟨1, [97, 58], [[45, 97, 120]]⟩) = .ok (⟨1, 0⟩, ⟨97, [120], false⟩) := by decide
-- the former counter-examples, now answered without a panic:
example : shift [[97], [98]] [[45, 49]] = .outOfRange := by decide
example : grun ⟨0, 0⟩ [⟨1, [97, 98, 99], [[45, 97, 98, 99]]⟩, ⟨1, [97, 98, 99], [[45, 97, 98, 99]]⟩,
    ⟨1, [97, 98, 99], [[45, 97]]⟩] = .ok ⟨1, 0⟩ := by decide
example : arithLvalue (.word [.nakedIndex [97]]) = .ok none := by decide
example : arithLvalue .unary = .ok none := by decide
example : assocIndex .binary = .ok false := by decide
-- a two-cycle of namerefs resolves to the zero variable
example : (resolve (fun n => if n = [97] then ⟨.nameRef, [98]⟩ else ⟨.nameRef, [97]⟩) ⟨.nameRef, [98]⟩).2.kind = .unknown := by decide
example : fpObeys (FP.init [[45, 97, 98], [120]]) false [.more, .flag, .more, .flag, .more, .args] = true := by decide
example : (fpRun (FP.init []) [.flag]).2 = true := by decide
example : (params [false, false, false, false, false, false, false] [[45, 111]]) =
    .ok ⟨[false, false, false, false, false, false, false], none, 1⟩ := by decide
example : params [false, false, false, false, false, false, false] [[45, 101], [45, 45], [120]]
    = .ok ⟨[false, true, false, false, false, false, false], some [[120]], 0⟩ := by decide
example : sliceStr [97, 98, 99] (some (-1)) (some 5) = .ok (some [99]) := by decide
example : sliceStr [97, 98, 99] (some 2) (some (-5)) = .ok none := by decide
example : sliceElems [0, 1, 2] [0, 5, 9] (some (-2)) none = .ok [2] := by decide
example : arithLvalue (.word [.lit [97]]) = .ok (some [97]) := by decide

end ShVerif.C28
