import ShVerif.Model.C11
import ShVerif.Gen.C11
/-
  C11 — Language variants gate their features consistently: obligations over the guard tables
  regenerated from the parser and lexer source on every run.  (The all-inputs behaviour is the
  harness's search leg; these obligations catch the "forgot the guard / guarded with the wrong
  set / recovery on a non-error path" classes of change without needing an input.)
-/
namespace ShVerif.C11
open ShVerif.Gen.C11

/-- Guards that legitimately separate Bash from Bats: the `@test` declaration of Bats. -/
def batsOnly : List (String × List String) := [("gotStmtPipe", ["LangBats"])]

/-- Functions whose `lang.in` argument is a parameter, not a constant set. -/
def parametric : List String := ["checkLang"]

/-- Node kinds that only non-POSIX variants may construct and whose construction sites are
    dominated by syntactic guards (own scope or every call path). Token-gated kinds (ProcSubst,
    ArithmCmd, CStyleLoop: the lexer only emits their opening token under a `lang.in` test) are
    covered by the search leg only. -/
def guardedKinds : List String :=
  ["TestClause", "DeclClause", "TimeClause", "CoprocClause", "LetClause", "TestDecl",
   "ExtGlob", "Replace", "Slice", "ArrayExpr", "ArrayElem", "FlagsArithm"]

/-- Every guard set mentions LangBash iff it mentions LangBats (so Bats accepts what Bash
    accepts), except the `@test` guard. -/
theorem bash_bats_sets :
    guards.all (fun g =>
      if resolved g then bashBatsTogether g || batsOnly.contains (g.func, g.set)
      else parametric.contains g.func) = true := by
  decide +kernel

/-- No `checkLang` call lists POSIX among the variants that have the feature: every feature
    reported through checkLang is rejected in POSIX mode. -/
theorem checklang_excludes_posix :
    guards.all (fun g => g.kind != "checkLang" || !g.set.contains "LangPOSIX") = true := by
  decide +kernel

/-- Construction sites of the non-POSIX node kinds are dominated by a POSIX-free guard on every
    path. -/
theorem posix_guards :
    sites.all (fun s => !guardedKinds.contains s.type || siteGuarded s) = true := by
  decide +kernel

/-- Each of the guarded kinds actually has a construction site (non-vacuity of `posix_guards`). -/
theorem posix_guards_nonvacuous :
    guardedKinds.all (fun k => sites.any fun s => s.type == k) = true := by
  decide +kernel

/-- `recoverError()` is only ever consulted in place of raising a parse error: every call is the
    condition of an `if` whose alternative raises one. Hence on an input that raises no error the
    recovery budget is never touched. -/
theorem recover_only_on_error :
    recoverSites.all (fun r => r.shape == "if-cond" && r.orElse == "error") = true
      ∧ recoverSites.length > 0 := by
  decide +kernel

end ShVerif.C11
