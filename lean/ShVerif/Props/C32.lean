import ShVerif.Model.C32
import ShVerif.Proofs.C32
import ShVerif.Proofs.C32Sep2
import ShVerif.Gen.C32
import ShVerif.Expect.C32
/-
  C32 — Concurrent shell features are race-free.  Property theorems.

  The Go memory model itself is outside: the theorems prove the *ownership discipline* that excludes
  conflicting accesses — which objects a goroutine can reach and which of them it may write — and
  the `wait` protocol; the race detector (search leg) observes real executions.
-/
namespace ShVerif.C32
open ShVerif ShVerif.L1

/-! ## The `wait` protocol -/

/-- **wait_protocol.**  Child: `*bg.exit = v; close(bg.done)`.  Parent: `<-bg.done; exit = *bg.exit`.
    In every interleaving (any schedule, with stuttering) every status the parent reads is `v`, and
    at the moment of the read the child's goroutine is past its `close` (program counter 2): its
    write happens before the read through the close/receive edge. -/
theorem wait_protocol (v : Nat) (sched : List Nat) :
    ∀ r ∈ (exec { prog := [.spawn v, .waitJob 1] } sched).results, r = .status 1 v 2 := by
  intro r hr
  have w := winv_exec (prog0 := [.spawn v, .waitJob 1]) rfl sched _ (winv_init _)
  cases r with
  | notChild pid =>
    -- `wait g1` after one spawn is never "not a child": the result list only gets statuses
    exfalso
    have key : ∀ (sched : List Nat) (st : PState),
        (∀ r ∈ st.results, ∀ pid, r ≠ .notChild pid) →
        (st.prog = [.spawn v, .waitJob 1] ∧ st.jobs = [] ∨ (st.prog = [.waitJob 1] ∧ st.jobs.length = 1) ∨ st.prog = []) →
        ∀ r ∈ (exec st sched).results, ∀ pid, r ≠ .notChild pid := by
      intro sched
      induction sched with
      | nil => intro st h _; exact h
      | cons k rest ih =>
        intro st h hs
        cases k with
        | zero =>
          apply ih
          · intro r hr pid
            rcases hs with ⟨hp, hj⟩ | ⟨hp, hj⟩ | hp
            · simp only [parentStep, hp] at hr; exact h r hr pid
            · simp only [parentStep, hp] at hr
              split at hr
              · next hc => omega
              · split at hr
                · exact h r hr pid
                · split at hr
                  · simp only [List.mem_append, List.mem_singleton] at hr
                    rcases hr with hr | hr
                    · exact h r hr pid
                    · rw [hr]; intro e; cases e
                  · exact h r hr pid
            · simp only [parentStep, hp] at hr; exact h r hr pid
          · rcases hs with ⟨hp, hj⟩ | ⟨hp, hj⟩ | hp
            · right; left
              simp [parentStep, hp, hj]
            · simp only [parentStep, hp]
              split
              · next hc => omega
              · split
                · right; left; exact ⟨hp, hj⟩
                · split
                  · right; right; rfl
                  · right; left; exact ⟨hp, hj⟩
            · right; right
              simp only [parentStep, hp]
        | succ i =>
          apply ih
          · intro r hr pid
            have : (childStep st i).results = st.results := by
              unfold childStep; split <;> (try rfl); split <;> (try rfl); split <;> rfl
            rw [this] at hr
            exact h r hr pid
          · have hp : (childStep st i).prog = st.prog := by
              unfold childStep; split <;> (try rfl); split <;> (try rfl); split <;> rfl
            have hl : (childStep st i).jobs.length = st.jobs.length := by
              unfold childStep; split <;> (try rfl); split <;> (try simp); split <;> simp
            rcases hs with ⟨hp', hj⟩ | ⟨hp', hj⟩ | hp'
            · left
              refine ⟨by rw [hp]; exact hp', ?_⟩
              have : (childStep st i).jobs.length = 0 := by rw [hl, hj]; rfl
              exact List.eq_nil_of_length_eq_zero this
            · right; left; exact ⟨by rw [hp]; exact hp', by rw [hl]; exact hj⟩
            · right; right; rw [hp]; exact hp'
    exact key sched { prog := [.spawn v, .waitJob 1] } (by intro r hr; cases hr) (Or.inl ⟨rfl, rfl⟩) _ hr pid rfl
  | status pid x pc =>
    have h := w.results _ hr pid x pc rfl
    -- which pid: only `waitJob 1` is in the program
    have hpid : pid = 1 := by
      by_cases h1 : pid = 1
      · exact h1
      · exfalso
        have := h.2
        simp only [spawnStatus, h1, if_false] at this
        cases this
    subst hpid
    have := h.2
    simp only [spawnStatus, if_true, Option.some.injEq] at this
    rw [h.1, ← this]

/-- **wait_job_id.**  For every parent program of job starts, `wait g<pid>` and `wait`, and every
    schedule: each status that a `wait g<pid>` returns is the exit status of the job started by the
    `pid`-th `&` (or process substitution) of the program, whatever the order in which the jobs
    finish; and it is read after that job's goroutine closed its channel. -/
theorem wait_job_id (prog : List POp) (np : usesPeek prog = false) (sched : List Nat) :
    ∀ r ∈ (exec { prog := prog } sched).results, ∀ pid x pc, r = .status pid x pc →
      pc = 2 ∧ spawnStatus prog pid = some x :=
  (winv_exec np sched _ (winv_init prog)).results

/-- `r.bgProcs` is append-only while a program runs: along every execution the list only grows and
    position `N-1` keeps denoting the job that was started `N`-th (with the status it will report). -/
theorem bgprocs_append_only (st : PState) (sched : List Nat) :
    st.jobs.length ≤ (exec st sched).jobs.length ∧
    ∀ i, i < st.jobs.length → ((exec st sched).jobs[i]?).map (·.status) = (st.jobs[i]?).map (·.status) :=
  jobsExtend_exec sched st

/-- The code's side of `wait_job_id` (regenerated): `r.bgProcs` is written only by the two places
    that start a job — an `append`, outside any goroutine body, by the goroutine that owns the
    Runner — and by `Reset`; it is read only outside goroutine bodies; and in both job goroutines the
    status is written before the channel is closed, while `wait` receives before it reads. -/
theorem bgprocs_sites :
    ShVerif.Gen.C32.bgProcsWrites = ShVerif.Expect.C32.expectedBgProcsWrites ∧
    (ShVerif.Gen.C32.bgProcsWrites.all fun s => !s.inGo) = true ∧
    ShVerif.Gen.C32.bgProcsReaders = ShVerif.Expect.C32.expectedBgProcsReaders ∧
    (ShVerif.Gen.C32.bgProcsReaders.all fun s => !s.2) = true ∧
    ShVerif.Gen.C32.chanOps = ShVerif.Expect.C32.expectedChanOps := by
  decide +kernel

/-- Non-vacuity: a fair schedule lets the parent finish with the right status … -/
example : (exec { prog := [.spawn 7, .waitJob 1] } [0, 0, 1, 1, 0]).results = [.status 1 7 2] := by decide

/-- … a parent scheduled before the close stays blocked … -/
example : (exec { prog := [.spawn 7, .waitJob 1] } [0, 0, 0, 1, 0, 0]).results = [] := by decide

/-- … two jobs finishing in the other order are still told apart … -/
example : (exec { prog := [.spawn 3, .spawn 5, .waitJob 2, .waitJob 1] } [0, 0, 2, 2, 0, 1, 1, 0]).results =
    [.status 2 5 2, .status 1 3 2] := by decide

/-- … and the protocol matters: reading `*bg.exit` without the receive (`peek`, not in the code)
    sees the zero status while the job is still running. -/
example : (exec { prog := [.spawn 7, .peek 1] } [0, 0]).results = [.status 1 0 0] := by decide

/-! ## Runner.subshell -/

/-- **subshell_fields.**  Every field of `interp.Runner` (regenerated, with its Go type) and what
    `Runner.subshell` does with it is the reviewed table, and every entry's class fits the type
    and the way the field is filled: value types are copied by the literal; maps, the overlay and
    dirStack get new storage; ecfg/ectx are rebuilt for the copy; handlers are immutable function
    values; stdin/stdout/stderr are shared writers that must be concurrency-safe (documented);
    Params shares its backing array, which nobody writes (all `.Params` writes are whole-slice
    assignments or reslices, regenerated); everything else starts from zero.  A new field, a
    field whose type becomes a reference type, or a field that is merely aliased breaks this. -/
theorem subshell_fields :
    ShVerif.Gen.C32.fields = ShVerif.Expect.C32.expected.map (·.field) ∧
    (ShVerif.Expect.C32.expected.all ShVerif.Expect.C32.classOK) = true ∧
    ShVerif.Gen.C32.subshellOther = ShVerif.Expect.C32.expectedSubshellOther ∧
    ShVerif.Gen.C32.fillAssigns = ShVerif.Expect.C32.expectedFillAssigns ∧
    (ShVerif.Gen.C32.paramsWrites.all fun s => ShVerif.Expect.C32.safeParamsKinds.contains s.kind) = true := by
  decide +kernel

/-- **spawn_sites.**  The goroutine start sites of package interp (regenerated) are the six reviewed
    ones with the variables each goroutine body captures, and no goroutine body uses the Runner
    that spawned it (the process substitution did, through `r.errf`, until commit f9b9e42: finding
    C32-procsubst-errf, fixed). -/
theorem spawn_sites :
    ShVerif.Gen.C32.spawns = ShVerif.Expect.C32.expectedSpawns ∧
    (ShVerif.Gen.C32.spawns.all fun s => s.parentUses.isEmpty) = true := by
  decide +kernel

/-! ## Storage shared after `subshell(true)` -/

/-- **bg_separation.**  After `Runner.subshell(true)` — the child's variable table is a copy of the
    parent's whose `List`/`Indexes`/`Map` values share storage with it, `Params` shares its backing
    array, `dirStack` is copied — for every growth policy of `append`, every operation sequence of
    the parent, every operation sequence of the child (assignments, `+=` on scalars and arrays,
    element and key writes, `unset` of elements, keys and variables, array and map literals with
    and without `+=`, `shift`, `set --`, `pushd -n`, `popd -n`) and every interleaving of the two:
    no step of one side changes an array or a map that the other side can reach through its
    variables, its `Params` or its `dirStack` — contents and spare capacity.  (A side only ever
    touches what it can reach, so no object is written by one side and accessed by the other.) -/
theorem bg_separation (g : Grows) (h : Heap) (p : Side) (wf : WFp h p) (pops cops : List Op) (sched : Sched) :
    Separated g { h := (fork g h p).1, parent := p, child := (fork g h p).2 } pops cops sched :=
  separated_of_inv g sched _ pops cops _ (fork_inv g h p wf)

/-- What one operation may write at all: every array and map that existed before it is unchanged,
    except the side's own `dirStack` array (`pushd -n`/`popd -n` write it in place); everything else
    an operation writes it has allocated itself (clones first: `slices.Clone`, `maps.Clone`). -/
theorem step_writes_own_storage_only (g : Grows) (h : Heap) (s : Side) (op : Op) (r : Heap × Side)
    (e : step g h s op = some r) :
    (∀ id, id < h.strs.length → r.1.strs[id]? ≠ h.strs[id]? → id ∈ sliceArr s.dirStack) ∧
    (∀ id, id < h.ints.length → r.1.ints[id]? = h.ints[id]?) ∧
    (∀ id, id < h.maps.length → r.1.maps[id]? = h.maps[id]?) := by
  have st := step_ok g op e
  refine ⟨?_, st.ints, st.maps⟩
  intro id hid hne
  have d := st.strs id hid hne
  simp [sliceArr, d.1, d.2]

/-! ### non-vacuity -/

def exGrows : Grows := { strs := fun _ _ n => n, ints := fun _ _ n => n }

/-- parent: `a=(x y z)` in array 1 (with one spare cell), dirStack `[/]` in array 0 -/
def exHeap : Heap := { strs := [[[47]], [[120], [121], [122], []]] }
def exParent : Side :=
  { vars := [([97], { set := true, kind := .indexed, list := { arr := 1, off := 0, len := 3, cap := 4 } })],
    dirStack := { arr := 0, off := 0, len := 1, cap := 1 } }

instance (h : Heap) (p : Side) : Decidable (WFp h p) :=
  if h1 : (∀ id ∈ (reach p).strs, id < h.strs.length) then
    if h2 : (∀ id ∈ (reach p).ints, id < h.ints.length) then
      if h3 : (∀ id ∈ (reach p).maps, id < h.maps.length) then
        if h4 : (∀ id ∈ p.vars.flatMap (fun nv => sliceArr nv.2.list) ++ sliceArr p.params, id ∉ sliceArr p.dirStack) then
          isTrue ⟨h1, h2, h3, h4⟩
        else isFalse fun w => h4 w.dirPrivate
      else isFalse fun w => h3 w.maps
    else isFalse fun w => h2 w.ints
  else isFalse fun w => h1 w.strs

example : WFp exHeap exParent := by decide

/-- the child really shares the parent's array right after the fork … -/
example : ((fork exGrows exHeap exParent).2.get [97]).list.arr = (exParent.get [97]).list.arr := by decide

/-- … and `a+=Q` in the child and `a[1]=W` in the parent both run to completion, each on its own clone:
    afterwards the two sides hold different arrays and the shared one still reads `x y z`. -/
example :
    (interleave exGrows { h := (fork exGrows exHeap exParent).1, parent := exParent, child := (fork exGrows exHeap exParent).2 }
      [.setElem [97] 1 [87]] [.appendStr [97] [81]] [true, false]).map
      (fun t => (cells t.h.strs (t.parent.get [97]).list, cells t.h.strs (t.child.get [97]).list, t.h.strs[1]?)) =
    some ([[120], [87], [122]], [[120, 81], [121], [122]], some [[120], [121], [122], []]) := by decide

/-- The theorem is not about a model that cannot write in place: an in-place write of the shared
    array (what `a+=Q` did before commit db7f3b5: `prev.List[0] += s` on the uncloned slice) changes
    what the other side reaches. -/
example : (sliceSet exHeap.strs (exParent.get [97]).list 0 [120, 81]).map (fun s => s[1]? == exHeap.strs[1]?) = some false := by
  decide

end ShVerif.C32
