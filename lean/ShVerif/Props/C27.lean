import ShVerif.Model.C27
import ShVerif.Proofs.C27
import ShVerif.Gen.C27Writes
import ShVerif.Expect.C27Writes
/-
  C27 — Subshells cannot change the parent shell.  Property theorems.

  `isolation` is the property for the code as it is (`fx = true`: `assignVal` clones before `+=`,
  commit db7f3b5): full statement, no extra hypothesis.  `frame` is the invariant behind it.
  `vocabulary_complete` ties the operation vocabulary to the regenerated write-site table.

  The `pinned_…` material documents the tree as it was before db7f3b5 (`fx = false`: `a+=s` on an
  indexed array wrote `prev.List[0]` / called `SetIndexedElem(prev.List, …)` on the uncloned
  slice): the full statement was false (`pinned_counterexample`: `a=(x y z); ( a+=Q )`), and held
  under the extra hypothesis of `pinned_isolation_partial`.  The harness ties against that variant
  only if it detects the old behaviour again.
-/
namespace ShVerif.C27
open ShVerif ShVerif.L1

/-- After creating a subshell (`bg` = background) and running `ops` in it, the parent's
    observable state — variables of every scope with array and map contents, functions, aliases,
    options, directory and directory stack, positional parameters — is what it was.
    (A Go panic, `none`, ends the whole process; there is nothing to observe.) -/
def IsolatedRun (fx : Bool) (g : Grows) (h : Heap) (p : Runner) (bg : Bool) (ops : List Op) : Prop :=
  match childRun fx g h p bg ops with
  | some x => observe p x.1 = observe p h
  | none => True

instance (fx : Bool) (g : Grows) (h : Heap) (p : Runner) (bg : Bool) (ops : List Op) :
    Decidable (IsolatedRun fx g h p bg ops) := by
  unfold IsolatedRun; split <;> infer_instance

/-- PINNED (tree before db7f3b5): the property for the old `assignVal`; false, see
    `pinned_counterexample`. -/
def pinned_isolation_statement : Prop :=
  ∀ (g : Grows) (h : Heap) (p : Runner) (bg : Bool) (ops : List Op), WF p h → IsolatedRun false g h p bg ops

/-- PINNED: the hypothesis of `pinned_isolation_partial`, stated on the child as `subshell` creates it. -/
def SafeChild (g : Grows) (h : Heap) (p : Runner) (bg : Bool) (ops : List Op) : Prop :=
  match subshell g h p bg with
  | some c => SafeRun h.sizes g c.1 c.2 ops
  | none => True

/-! ### PINNED — the counter-example for the old code: `a=(x y z); ( a+=Q )`

(the state `cexHeap`/`cexParent` also serves the non-vacuity examples of `isolation`) -/

def exactGrow : Grows := { strs := fun _ _ n => n, ints := fun _ _ n => n }

def cexName : Bytes := [97]  -- "a"

/-- Parent: one global overlay holding `a=(x y z)` in array 0. -/
def cexHeap : Heap :=
  { strs := [[[120], [121], [122]]],
    scopes := [{ parent := .nil,
                 values := some [(cexName, { set := true, kind := .indexed,
                                             list := { arr := 0, off := 0, len := 3, cap := 3 } })] }] }

def cexParent : Runner := { env := 0 }

/-- `a+=Q` -/
def cexOps : List Op := [.assign cexName .none true (.str [81])]

instance decOptBound (m : Option Nat) (len : Nat) : Decidable (∀ id, m = some id → id < len) :=
  match m with
  | none => isTrue (by intro id e; cases e)
  | some id =>
    if hlt : id < len then isTrue (by intro id' e; cases e; exact hlt)
    else isFalse (fun hh => hlt (hh id rfl))

instance decRefBound (r : PRef) (len : Nat) : Decidable (∀ p, r = .ov p → p < len) :=
  match r with
  | .nil => isTrue (by intro p e; cases e)
  | .base => isTrue (by intro p e; cases e)
  | .ov q =>
    if hlt : q < len then isTrue (by intro p e; cases e; exact hlt)
    else isFalse (fun hh => hlt (hh q rfl))

instance (len : Nat) (s : Slice) : Decidable (SliceIn len s) := by unfold SliceIn; infer_instance
instance (h : Heap) (v : Var) : Decidable (VarIn h v) := by unfold VarIn; infer_instance
instance (h : Heap) (o : Scope) : Decidable (ScopeIn h o) := by unfold ScopeIn; infer_instance
instance (p : Runner) (h : Heap) : Decidable (WF p h) := by unfold WF; infer_instance

theorem cex_wf : WF cexParent cexHeap := by decide

/-- PINNED: the property failed on the old code: in its model of `( a+=Q )` the parent's `a[0]`
    becomes `xQ`. -/
theorem pinned_counterexample : ¬ pinned_isolation_statement := by
  intro hst
  have h := hst exactGrow cexHeap cexParent false cexOps cex_wf
  revert h
  decide

/-- PINNED: the same in a background subshell (`$( )`, pipelines, `&`). -/
theorem pinned_counterexample_bg : ¬ IsolatedRun false exactGrow cexHeap cexParent true cexOps := by
  decide

/-! ### The general theorems (either variant of `assignVal`)

One invariant proof serves both variants: `fx = true` (the code as it is) needs no hypothesis,
`fx = false` (the pinned old code) needs `SafeChild`.  `isolation`/`frame` and the `pinned_…`
theorems below are one-line corollaries. -/

/-- Isolation for either variant: the current one unconditionally, the pinned one under
    `SafeChild`. -/
theorem isolation_any (fx : Bool) (g : Grows) (h : Heap) (p : Runner) (bg : Bool) (ops : List Op) (wf : WF p h)
    (safe : fx = true ∨ SafeChild g h p bg ops) : IsolatedRun fx g h p bg ops := by
  unfold IsolatedRun childRun
  cases hs : subshell g h p bg with
  | none => trivial
  | some c =>
    simp only
    cases hr : run fx g c.1 c.2 ops with
    | none => trivial
    | some x =>
      refine childRun_observe wf hs ?_ hr
      rcases safe with hfx | hsafe
      · exact Or.inl hfx
      · cases fx with
        | true => exact Or.inl rfl
        | false =>
          unfold SafeChild at hsafe
          rw [hs] at hsafe
          exact Or.inr ⟨rfl, hsafe⟩

/-- The frame for either variant: no heap object that existed when the subshell was created is
    ever written (arrays, maps, overlay values, function and alias maps). -/
theorem frame_any (fx : Bool) (g : Grows) (h : Heap) (p : Runner) (bg : Bool) (ops : List Op) (x : Heap × Runner)
    (safe : fx = true ∨ SafeChild g h p bg ops) (e : childRun fx g h p bg ops = some x) :
    (∀ i, i < h.strs.length → x.1.strs[i]? = h.strs[i]?) ∧
    (∀ i, i < h.ints.length → x.1.ints[i]? = h.ints[i]?) ∧
    (∀ i, i < h.maps.length → x.1.maps[i]? = h.maps[i]?) ∧
    (∀ i, i < h.scopes.length → (x.1.scopes[i]?).map (·.values) = (h.scopes[i]?).map (·.values)) ∧
    (∀ i, i < h.fmaps.length → x.1.fmaps[i]? = h.fmaps[i]?) ∧
    (∀ i, i < h.amaps.length → x.1.amaps[i]? = h.amaps[i]?) := by
  unfold childRun at e
  cases hs : subshell g h p bg with
  | none => rw [hs] at e; cases e
  | some c =>
    rw [hs] at e
    simp only at e
    have s := subshell_inv hs
    have safe' : fx = true ∨ (fx = false ∧ SafeRun h.sizes g c.1 c.2 ops) := by
      rcases safe with hfx | hsafe
      · exact Or.inl hfx
      · cases fx with
        | true => exact Or.inl rfl
        | false =>
          unfold SafeChild at hsafe
          rw [hs] at hsafe
          exact Or.inr ⟨rfl, hsafe⟩
    have r := run_inv ops s.2 safe' e
    have fr := s.1.trans r.1
    exact ⟨fun i hi => fr.strs.getElem? hi, fun i hi => fr.ints.getElem? hi, fun i hi => fr.maps.getElem? hi,
      fun i hi => by rw [fr.scopes.getElem? hi], fun i hi => fr.fmaps.getElem? hi,
      fun i hi => fr.amaps.getElem? hi⟩

/-! ### The property -/

/-- Subshells cannot change the parent shell: for every well-formed parent state, every slice growth
    policy, foreground and background subshells and every sequence of modelled operations run in
    the child, the parent's observable state is unchanged.  (Corollary of `isolation_any`.) -/
theorem isolation (g : Grows) (h : Heap) (p : Runner) (bg : Bool) (ops : List Op) (wf : WF p h) :
    IsolatedRun true g h p bg ops :=
  isolation_any true g h p bg ops wf (Or.inl rfl)

/-- The invariant behind it (also what C32 needs): the child never writes a heap object that
    existed when the subshell was created — every old array, map and overlay is still there and
    unchanged, whether or not the parent can reach it.  (Corollary of `frame_any`.) -/
theorem frame (g : Grows) (h : Heap) (p : Runner) (bg : Bool) (ops : List Op) (x : Heap × Runner)
    (e : childRun true g h p bg ops = some x) :
    (∀ i, i < h.strs.length → x.1.strs[i]? = h.strs[i]?) ∧
    (∀ i, i < h.ints.length → x.1.ints[i]? = h.ints[i]?) ∧
    (∀ i, i < h.maps.length → x.1.maps[i]? = h.maps[i]?) ∧
    (∀ i, i < h.scopes.length → (x.1.scopes[i]?).map (·.values) = (h.scopes[i]?).map (·.values)) ∧
    (∀ i, i < h.fmaps.length → x.1.fmaps[i]? = h.fmaps[i]?) ∧
    (∀ i, i < h.amaps.length → x.1.amaps[i]? = h.amaps[i]?) :=
  frame_any true g h p bg ops x (Or.inl rfl) e

/-! ### PINNED — the old code, as corollaries of the general theorems -/

/-- PINNED: the old code isolated the parent whenever no `name+=word` hit an indexed array whose
    element storage predates the subshell.  (Corollary of `isolation_any` with `fx = false`.) -/
theorem pinned_isolation_partial (g : Grows) (h : Heap) (p : Runner) (bg : Bool) (ops : List Op) (wf : WF p h)
    (safe : SafeChild g h p bg ops) : IsolatedRun false g h p bg ops :=
  isolation_any false g h p bg ops wf (Or.inr safe)

/-- PINNED: the same frame for the old code under that hypothesis.  (Corollary of `frame_any`.) -/
theorem pinned_frame_partial (g : Grows) (h : Heap) (p : Runner) (bg : Bool) (ops : List Op) (x : Heap × Runner)
    (safe : SafeChild g h p bg ops) (e : childRun false g h p bg ops = some x) :
    (∀ i, i < h.strs.length → x.1.strs[i]? = h.strs[i]?) ∧
    (∀ i, i < h.ints.length → x.1.ints[i]? = h.ints[i]?) ∧
    (∀ i, i < h.maps.length → x.1.maps[i]? = h.maps[i]?) :=
  let f := frame_any false g h p bg ops x (Or.inr safe) e
  ⟨f.1, f.2.1, f.2.2.1⟩

/-! ### The vocabulary is complete (regenerated table) -/

/-- Every syntactic write site of the shell state in package interp — calls of writeEnv.Set,
    setVar*, delVar, unsetElem, setFunc and writes to Runner.{Params, Dir, opts, alias, Funcs,
    dirStack, writeEnv, Vars, inFunc}, regenerated from the working tree on every run — is one of
    the reviewed sites of `Expect/C27Writes.lean`, each mapped to the modelled operation that
    covers it, and no reviewed site has disappeared. -/
theorem vocabulary_complete :
    ShVerif.Gen.C27Writes.sites = ShVerif.Expect.C27Writes.expected.map (·.site) := by
  decide +kernel

/-! ### Non-vacuity -/

instance (n : Nat) (s : Slice) : Decidable (Owned n s) := by unfold Owned; infer_instance

instance decAppendSafe (n : Sizes) (r : Runner) (h : Heap) (op : Op) : Decidable (AppendSafe n r h op) :=
  match ht : appendTarget r h op with
  | none => isTrue (by intro v e; rw [ht] at e; cases e)
  | some v =>
    if hk : v.kind = .indexed then
      if ho : Owned n.strs v.list ∧ Owned n.ints v.indexes then
        isTrue (by intro v' e _; rw [ht] at e; cases e; exact ho)
      else isFalse (fun hh => ho (hh v ht hk))
    else isTrue (by intro v' e hk'; rw [ht] at e; cases e; exact absurd hk' hk)

instance decSafeRun (n : Sizes) (g : Grows) :
    ∀ (h : Heap) (r : Runner) (ops : List Op), Decidable (SafeRun n g h r ops)
  | _, _, [] => isTrue trivial
  | h, r, op :: ops =>
    match hs : step false g h r op with
    | none =>
      if ha : AppendSafe n r h op then isTrue (by simp only [SafeRun, hs]; exact ⟨ha, trivial⟩)
      else isFalse (by simp only [SafeRun]; intro hh; exact ha hh.1)
    | some x =>
      match decSafeRun n g x.1 x.2 ops with
      | isTrue ht =>
        if ha : AppendSafe n r h op then isTrue (by simp only [SafeRun, hs]; exact ⟨ha, ht⟩)
        else isFalse (by simp only [SafeRun]; intro hh; exact ha hh.1)
      | isFalse hf => isFalse (by simp only [SafeRun, hs]; intro hh; exact hf hh.2)

instance (g : Grows) (h : Heap) (p : Runner) (bg : Bool) (ops : List Op) : Decidable (SafeChild g h p bg ops) := by
  unfold SafeChild; split <;> infer_instance


/-- The hypotheses are satisfiable and the runs do not end in `none`: on the pinned counter-example's
    parent the code runs `a+=Q` to completion, and the parent still sees `x y z`. -/
example : WF cexParent cexHeap ∧ (childRun true exactGrow cexHeap cexParent false cexOps).isSome = true ∧
    (childRun false exactGrow cexHeap cexParent false cexOps).isSome = true := by decide

/-- `SafeChild` is satisfiable with a real `+=`: after `a=(p)` in the child, `a+=Q` is safe. -/
example : SafeChild exactGrow cexHeap cexParent false
    [.assign cexName .none false (.arr [(none, [112])]), .assign cexName .none true (.str [81])] := by
  decide

/-- … and it is not trivially true: the counter-example violates it. -/
example : ¬ SafeChild exactGrow cexHeap cexParent false cexOps := by decide

/-! ### Non-vacuity for the assigning expansion `${a[1]:=w}` -/

/-- Parent: `a=(x "" z)` in array 0, with one spare cell of capacity (len 3, cap 4). -/
def paHeap : Heap :=
  { strs := [[[120], [], [122], []]],
    scopes := [{ parent := .nil,
                 values := some [(cexName, { set := true, kind := .indexed,
                                             list := { arr := 0, off := 0, len := 3, cap := 4 } })] }] }

/-- `: "${a[1]:=w}"` -/
def paOps : List Op := [.paramAssign cexName (some 1) true [119]]

/-- What the example checks on the child's final state `x` (a Bool so that `decide` evaluates it):
    the parent's array 0 — its whole heap of arrays — and every overlay's variables are what
    they were, the parent's observation is unchanged, the child sees `a[1]=w`, the parent `a[1]=""`. -/
def paCheck (bg : Bool) : Bool :=
  match childRun true exactGrow paHeap cexParent bg paOps with
  | some x =>
    decide (x.1.strs.take 1 = paHeap.strs) &&
    decide ((x.1.scopes.take 1).map (·.values) = paHeap.scopes.map (·.values)) &&
    decide (observe cexParent x.1 = observe cexParent paHeap) &&
    decide (varInd x.1 (lookupVar x.2 x.1 cexName) (some 1) = some ([119], true)) &&
    decide (varInd paHeap (lookupVar cexParent paHeap cexName) (some 1) = some ([], true))
  | none => false

/-- A concrete parent/child pair for `paramAssign`: the parent is well-formed, the child runs
    `${a[1]:=w}` to completion (foreground and background) and `paCheck` holds. -/
example : WF cexParent paHeap ∧ paCheck false = true ∧ paCheck true = true := by decide

end ShVerif.C27
