import ShVerif.Model.C21
import ShVerif.Proofs.C21
/-
  C21 — Parameter expansion matches bash.  Property theorems about the model `ShVerif.C21`
  (expand/param.go, expand/expand.go), relative to the two parameters of the model: the matcher
  `x.M` (pattern.Regexp + regexp, property C17) and the quoter `x.Q` (syntax.Quote, property C13).

  Where the code does not do what bash does, the full statement is kept as a `def …_statement`, the
  theorem `…_partial` carries the exact extra hypothesis, and the negation of the full statement is
  proved on a concrete witness (the same witnesses are replayed on the Go code from
  corpus/C21-known.txt on every run).  Statements that became true with the fix: commits of
  2026-09-22 (cb62620 … 82103d3) are full theorems now; `pinned_…` lemmas keep the former
  counter-examples as regression facts.
-/
namespace ShVerif.C21
open Spec

deriving instance DecidableEq for Except

/-! ## concrete parameters for the counter-examples -/

/-- every pattern is a literal -/
def litM : Str → Pat := fun p => .ok (fun u => u == p)
/-- every pattern means `c*` -/
def cStarM : Str → Pat := fun _ => .ok (fun u => u.head? == some 'c')
def xLit : Ext := ⟨litM, fun _ => none⟩
def xCStar : Ext := ⟨cStarM, fun _ => none⟩
def yN : Str := ['y']
def rN : Str := ['r']

/-! ## `unset_null_table` -/

/-- The eight forms `:- - := = :? ? :+ +` on an unset, a null and a set parameter equal the POSIX
    table (value substituted, assignment performed, error raised), for every value and word. -/
theorem unset_null_table (x : Ext) (op : ExpOp) (st : St) (v w : Str) (hv : v ≠ []) (o : Outcome)
    (h : Spec.table op st = some o) :
    paramExp x {} (envOf st v) (peOf op w) = outcomeResult o st v w :=
  table_holds x op st v w hv o h

/-- The table covers exactly the eight test operators, in all three states. -/
theorem unset_null_table_total (op : ExpOp) (st : St) :
    (Spec.table op st).isSome = overridingUnset (peOf op []) := by
  cases op <;> cases st <;> rfl

/-! ## `length` -/

/-- `${#x}` of a set scalar is its number of characters (runes), in decimal. -/
theorem length (x : Ext) (cfg : Cfg) (env : Env) (name s ifs : Str)
    (hifs : ifsOf env = .ok ifs) (hp : Plain name) (hv : env.get name = Var.ofStr s) :
    paramExp x cfg env { name := name, length := true } = .ok (itoa s.length, env) :=
  length_scalar_eq x cfg env name s ifs hifs hp hv

/-- `${#a[@]}` and `${#a[*]}` of an indexed array are its number of elements … -/
theorem length_list (x : Ext) (cfg : Cfg) (env : Env) (name ifs : Str) (l : List Str) (star : Bool)
    (hifs : ifsOf env = .ok ifs) (hp : Plain name) (hv : env.get name = Var.ofList l) :
    paramExp x cfg env { name := name, idx := if star then .star else .at, length := true }
      = .ok (itoa l.length, env) :=
  length_list_eq x cfg env name ifs l star hifs hp hv

/-- … and of an associative array its number of entries (fixed by ed26a21). -/
theorem length_assoc (x : Ext) (cfg : Cfg) (env : Env) (name ifs : Str) (m : List (Str × Str)) (star : Bool)
    (hifs : ifsOf env = .ok ifs) (hp : Plain name) (hv : env.get name = Var.ofMap m) :
    paramExp x cfg env { name := name, idx := if star then .star else .at, length := true }
      = .ok (itoa m.length, env) :=
  length_assoc_eq x cfg env name ifs m star hifs hp hv

/-- former finding C21-assoc-list-joined-count: `declare -A x=([a]=1 [k]=2); ${#x[@]}` is 2 -/
theorem pinned_assoc_count :
    paramExp xLit {} [(xN, Var.ofMap [(['a'], ['1']), (['k'], ['2'])])] { name := xN, idx := .at, length := true }
      = .ok (['2'], [(xN, Var.ofMap [(['a'], ['1']), (['k'], ['2'])])]) := by decide

/-! ## `substring` -/

/-- `${x:off:len}` of a set scalar, offsets and lengths in characters, negative offsets counted
    from the end (beyond the start: empty), lengths clamped, negative lengths as end positions: the
    code returns bash's substring where it is defined and the error `substring expression < 0`
    exactly where bash raises it (fixed by 0dc986b). -/
theorem substring (x : Ext) (cfg : Cfg) (env : Env) (name s ifs : Str) (off len : Option Int)
    (hifs : ifsOf env = .ok ifs) (hp : Plain name) (hv : env.get name = Var.ofStr s) :
    paramExp x cfg env { name := name, slice := some (off, len) } =
      match Spec.substring s off len with
      | some r => .ok (r, env)
      | none => .error (.substr (len.getD 0)) := by
  rw [slice_scalar_eq x cfg env name s ifs off len hifs hp hv, sliceStr_spec]
  unfold sliceExpect
  cases Spec.substring s off len <;> rfl

/-- former finding C21-negative-length (value part): `x=abc; ${x:2:-2}` is an error -/
theorem pinned_negative_length :
    Spec.substring (sOf "abc") (some 2) (some (-2)) = none ∧
    paramExp xLit {} [(xN, Var.ofStr (sOf "abc"))] { name := xN, slice := some (some 2, some (-2)) }
      = .error (.substr (-2)) := by decide

/-- Unicode: the positions are characters, not bytes. -/
example : paramExp xLit {} [(xN, Var.ofStr (sOf "héllo"))] { name := xN, slice := some (some (-4), some 2) }
    = .ok (sOf "él", [(xN, Var.ofStr (sOf "héllo"))]) := by decide

/-! ## `remove_prefix_suffix` -/

/-- `${x#p} ${x##p} ${x%p} ${x%%p}` on a set scalar: what is removed is a prefix / suffix that the
    pattern matches, the shortest / longest such, and nothing is removed only if none matches
    (for every value, newlines included: fixed by cb62620). -/
theorem remove_prefix_suffix (x : Ext) (cfg : Cfg) (env : Env) (name s ifs arg : Str) (op : ExpOp)
    (m : Str → Bool) (hifs : ifsOf env = .ok ifs) (hp : Plain name) (hv : env.get name = Var.ofStr s)
    (hop : isRemove op = true) (hM : x.M arg = .ok m) :
    ∃ r, paramExp x cfg env { name := name, exp := some (op, arg) } = .ok (r, env) ∧
      RemovalSpec m s (op == .remSmallSuf || op == .remLargeSuf) (op == .remSmallPre || op == .remSmallSuf) r :=
  ⟨_, remove_scalar_eq x cfg env name s ifs arg op m hifs hp hv hop hM, removeWith_spec m s _ _⟩

/-- former finding C21-suffix-newline: `x=$'cb\ncb'; ${x%c*}` is `cb` + newline -/
theorem pinned_suffix_newline :
    paramExp xCStar {} [(xN, Var.ofStr (sOf "cb\ncb"))] { name := xN, exp := some (.remSmallSuf, sOf "c*") }
      = .ok (sOf "cb\n", [(xN, Var.ofStr (sOf "cb\ncb"))]) := by decide

/-! ## `replace` -/

/-- `${x/p/w}` and `${x//p/w}` on a set scalar, for a pattern that is not anchored and a replacement
    text `w` that is written verbatim (no unquoted `&`, see `replace_amp_statement`): the leftmost
    match, the longest there, replaced (`//`: again behind it, never overlapping), the rest copied;
    a pattern that matches the empty string matches everything (hypothesis `EmptyAll`: true of
    shell patterns, which then consist of stars only) and gives the replacement alone. -/
theorem replace_partial (x : Ext) (cfg : Cfg) (env : Env) (name s ifs : Str) (r : Repl) (m : Str → Bool)
    (hifs : ifsOf env = .ok ifs) (hp : Plain name) (hv : env.get name = Var.ofStr s)
    (hne : r.orig ≠ []) (hM : x.M r.orig = .ok m) (hE : EmptyAll m) (ha : r.anchor = .none) :
    paramExp x cfg env { name := name, repl := some r } = .ok (Spec.replace m r.anchor r.all r.with_ s, env) := by
  rw [repl_scalar_eq x cfg env name s ifs r m hifs hp hv hne hM, splice_eq_spec m r.with_ s r.all hE, ha]

/-- The relational reading of the same: `ReplAll` / `ReplFirst`. -/
theorem replace_relational (m : Str → Bool) (w s : Str) (hne : m [] = false) :
    ReplAll m w s (spliceLocs s w 0 (findAll m s true)) ∧
    ReplFirst m w s (spliceLocs s w 0 (findAll m s false)) :=
  ⟨findAll_replAll m s w hne, findAll_replFirst m s w hne⟩

/-- The text of the pattern after the anchor character. -/
def stripAnchor (r : Repl) : Str := if r.anchor == .none then r.orig else r.orig.drop 1

/-- With the anchored forms `${x/#p/w}` and `${x/%p/w}`. -/
def replace_statement : Prop :=
  ∀ (x : Ext) (cfg : Cfg) (env : Env) (name s ifs : Str) (r : Repl) (m : Str → Bool),
    ifsOf env = .ok ifs → Plain name → env.get name = Var.ofStr s → stripAnchor r ≠ [] →
    x.M r.orig ≠ .panic → x.M (stripAnchor r) = .ok m → EmptyAll m →
    paramExp x cfg env { name := name, repl := some r } = .ok (Spec.replace m r.anchor r.all r.with_ s, env)

def anchoredRepl : Repl := ⟨false, sOf "#a", ['X'], .pre⟩

/-- finding C21-anchored-replace: `x=abcabc; ${x/#a/X}` is `abcabc` (bash `Xbcabc`) -/
theorem replace_anchored_counterexample :
    paramExp xLit {} [(xN, Var.ofStr (sOf "abcabc"))] { name := xN, repl := some anchoredRepl }
      = .ok (sOf "abcabc", [(xN, Var.ofStr (sOf "abcabc"))]) ∧
    Spec.replace (fun u => u == ['a']) .pre false ['X'] (sOf "abcabc") = sOf "Xbcabc" := by decide

theorem replace_statement_false : ¬ replace_statement := by
  intro h
  have := h xLit {} [(xN, Var.ofStr (sOf "abcabc"))] xN (sOf "abcabc") (sOf " \t\n") anchoredRepl
    (fun u => u == ['a']) (by decide) (by decide) (by decide) (by decide) (by simp [xLit, litM]) rfl
    (by intro h; exact absurd h (by decide))
  rw [replace_anchored_counterexample.1] at this
  have h2 := replace_anchored_counterexample.2
  simp only [anchoredRepl] at this
  rw [h2] at this
  revert this; decide

/-- With bash 5.2's default `patsub_replacement`: an unquoted `&` in the replacement is the match. -/
def replace_amp_statement : Prop :=
  ∀ (x : Ext) (cfg : Cfg) (env : Env) (name s ifs : Str) (r : Repl) (m : Str → Bool),
    ifsOf env = .ok ifs → Plain name → env.get name = Var.ofStr s → r.orig ≠ [] → x.M r.orig = .ok m →
    m [] = false → r.anchor = .none → r.all = false →
    paramExp x cfg env { name := name, repl := some r } = .ok (Spec.replFirstAmp m r.with_ s, env)

def ampRepl : Repl := ⟨false, ['b'], sOf "[&]", .none⟩

/-- finding C21-patsub-ampersand: `x=abcb; ${x/b/[&]}` is `a[&]cb` (bash `a[b]cb`) -/
theorem replace_amp_counterexample :
    paramExp xLit {} [(xN, Var.ofStr (sOf "abcb"))] { name := xN, repl := some ampRepl }
      = .ok (sOf "a[&]cb", [(xN, Var.ofStr (sOf "abcb"))]) ∧
    Spec.replFirstAmp (fun u => u == ['b']) (sOf "[&]") (sOf "abcb") = sOf "a[b]cb" := by decide

theorem replace_amp_statement_false : ¬ replace_amp_statement := by
  intro h
  have := h xLit {} [(xN, Var.ofStr (sOf "abcb"))] xN (sOf "abcb") (sOf " \t\n") ampRepl
    (fun u => u == ['b']) (by decide) (by decide) (by decide) (by decide) rfl (by decide) rfl rfl
  rw [replace_amp_counterexample.1] at this
  have h2 := replace_amp_counterexample.2
  simp only [ampRepl] at this
  rw [h2] at this
  revert this; decide

/-! ## `case_conv` -/

/-- `${x^p} ${x^^p} ${x,p} ${x,,p}` on a set scalar: the first / every character that the pattern
    matches (an empty pattern is `?`) is mapped by the upper / lower case table.  The two matcher
    hypotheses say what `pattern.Regexp` does with the empty pattern and with patterns that match
    the empty string. -/
theorem case_conv (x : Ext) (cfg : Cfg) (env : Env) (name s ifs arg : Str) (op : ExpOp) (m : Str → Bool)
    (hifs : ifsOf env = .ok ifs) (hp : Plain name) (hv : env.get name = Var.ofStr s)
    (hop : isCase op = true) (hM : x.M arg = .ok m)
    (hE1 : arg ≠ [] → m [] = true → ∀ c, m [c] = true) (hE2 : arg = [] → m [] = true) :
    paramExp x cfg env { name := name, exp := some (op, arg) }
      = .ok (Spec.caseConv (if op == .upperFirst || op == .upperAll then toUpper else toLower)
              (fun c => arg.isEmpty || m [c]) (op == .upperAll || op == .lowerAll) s, env) := by
  rw [case_scalar_eq x cfg env name s ifs arg op m hifs hp hv hop hM, convRunes_eq]
  congr 2
  apply caseConv_congr
  intro c
  by_cases ha : arg = []
  · simp [ha, hE2 ha]
  · have : arg.isEmpty = false := by cases arg <;> simp_all
    rw [this]
    cases h0 : m [] with
    | true => simp [hE1 ha h0 c]
    | false => simp

/-! ## `per_elem` -/

/-- Every per-element operator (replacement, the four removals, the four case conversions, or none)
    on `"${a[@]…}"` of an indexed array is the map of the scalar operator over the elements, each
    result a separate field. -/
theorem per_elem_partial (x : Ext) (cfg : Cfg) (env : Env) (pe : PE) (ifs : Str) (l : List Str)
    (hifs : ifsOf env = .ok ifs) (hp : Plain pe.name) (hv : env.get pe.name = Var.ofList l)
    (hidx : pe.idx = .at) (h1 : pe.excl = false) (h2 : pe.length = false) (h3 : pe.slice = none)
    (hop : PerElem x pe l) :
    fields x cfg env pe true = (mapMExcept (scalarOp x pe) l).map (fun ys => (ys, env)) :=
  per_elem_fields x cfg env pe ifs l hifs hp hv hidx h1 h2 h3 hop

/-- The same operators on `"${a[*]…}"`: mapped over the elements, then joined with the first IFS
    character into one field. -/
theorem per_elem_star (x : Ext) (cfg : Cfg) (env : Env) (pe : PE) (ifs : Str) (l : List Str)
    (hifs : ifsOf env = .ok ifs) (hp : Plain pe.name) (hv : env.get pe.name = Var.ofList l)
    (hidx : pe.idx = .star) (h1 : pe.excl = false) (h2 : pe.length = false) (h3 : pe.slice = none)
    (hop : PerElem x pe l) :
    fields x cfg env pe true
      = (mapMExcept (scalarOp x pe) l).map (fun ys => ([joinWith (ifs.take 1) ys], env)) :=
  per_elem_fields_star x cfg env pe ifs l hifs hp hv hidx h1 h2 h3 hop

/-- … and on `"${m[@]…}"` of an associative array: mapped over its values (in sorted order), one
    field each (since ed26a21 / 0ab856c). -/
theorem per_elem_assoc (x : Ext) (cfg : Cfg) (env : Env) (pe : PE) (ifs : Str) (m : List (Str × Str))
    (hifs : ifsOf env = .ok ifs) (hp : Plain pe.name) (hv : env.get pe.name = Var.ofMap m)
    (hidx : pe.idx = .at) (h1 : pe.excl = false) (h2 : pe.length = false) (h3 : pe.slice = none)
    (hop : PerElem x pe (sortStrs (m.map (·.2)))) :
    fields x cfg env pe true
      = (mapMExcept (scalarOp x pe) (sortStrs (m.map (·.2)))).map (fun ys => (ys, env)) :=
  per_elem_fields_assoc x cfg env pe ifs m hifs hp hv hidx h1 h2 h3 hop

/-- … and on `"$@"`: mapped over the positional parameters, one field each (`asX pe` is the same
    expansion about an ordinary scalar variable). -/
theorem per_elem_positional (x : Ext) (cfg : Cfg) (env : Env) (pe : PE) (ifs : Str) (l : List Str)
    (hifs : ifsOf env = .ok ifs) (hn : pe.name = ['@']) (hv : env.get ['@'] = Var.ofList l)
    (h1 : pe.excl = false) (h2 : pe.length = false) (h3 : pe.slice = none)
    (hop : PerElem x pe l) :
    fields x cfg env pe true = (mapMExcept (scalarOp x (asX pe)) l).map (fun ys => (ys, env)) :=
  per_elem_fields_at_positional x cfg env pe ifs l hifs hn hv h1 h2 h3 hop

/-- The same for every operator the grammar allows after `a[@]` (the `@` transformations included). -/
def per_elem_statement : Prop :=
  ∀ (x : Ext) (cfg : Cfg) (env : Env) (pe : PE) (ifs : Str) (l : List Str),
    ifsOf env = .ok ifs → Plain pe.name → env.get pe.name = Var.ofList l →
    pe.idx = .at → pe.excl = false → pe.length = false → pe.slice = none → pe.repl = none →
    (∀ op arg, pe.exp = some (op, arg) → overridingUnset pe = false) →
    fields x cfg env pe true = (mapMExcept (scalarOp x pe) l).map (fun ys => (ys, env))

def upperPE : PE := { name := xN, idx := .at, exp := some (.other, ['U']) }
def abEnv : Env := [(xN, Var.ofList [['a'], ['b']])]

/-- finding C21-list-transform: `x=(a b); "${x[@]@U}"` gives `a` `b` -/
theorem per_elem_counterexample :
    fields xLit {} abEnv upperPE true = .ok ([['a'], ['b']], abEnv) ∧
    mapMExcept (scalarOp xLit upperPE) [['a'], ['b']] = .ok [['A'], ['B']] := by decide

theorem per_elem_statement_false : ¬ per_elem_statement := by
  intro h
  have := h xLit {} abEnv upperPE (sOf " \t\n") [['a'], ['b']] (by decide) (by decide) (by decide) rfl rfl rfl rfl rfl
    (by intro op arg h; cases h; rfl)
  rw [per_elem_counterexample.1, per_elem_counterexample.2] at this
  revert this; decide

/-- The eight test operators on a quoted list: with a non-empty list whose joined value is not
    null, `"${a[@]:+w}"` is the word. -/
def quoted_list_alt_statement : Prop :=
  ∀ (x : Ext) (cfg : Cfg) (env : Env) (name ifs w : Str) (l : List Str),
    ifsOf env = .ok ifs → Plain name → env.get name = Var.ofList l → joinWith [' '] l ≠ [] →
    fields x cfg env { name := name, idx := .at, exp := some (.altUnsetOrNull, w) } true = .ok ([w], env)

/-- finding C21-quoted-list-test-op: `x=(a b); "${x[@]:+w}"` gives `a` `b` -/
theorem quoted_list_alt_counterexample :
    fields xLit {} abEnv { name := xN, idx := .at, exp := some (.altUnsetOrNull, ['w']) } true
      = .ok ([['a'], ['b']], abEnv) := by decide

theorem quoted_list_alt_statement_false : ¬ quoted_list_alt_statement := by
  intro h
  have := h xLit {} abEnv xN (sOf " \t\n") ['w'] [['a'], ['b']] (by decide) (by decide) (by decide) (by decide)
  rw [quoted_list_alt_counterexample] at this
  revert this; decide

/-! ## `quoted_at`, `quoted_star` -/

/-- `"${a[@]}"` is the elements as separate fields (none for an empty array)… -/
theorem quoted_at (x : Ext) (cfg : Cfg) (env : Env) (name ifs : Str) (l : List Str)
    (hifs : ifsOf env = .ok ifs) (hp : Plain name) (hv : env.get name = Var.ofList l) :
    fields x cfg env { name := name, idx := .at } true = .ok (l, env) :=
  quoted_at_eq x cfg env name ifs l hifs hp hv

/-- … `"$@"` the positional parameters … -/
theorem quoted_at_positional (x : Ext) (cfg : Cfg) (env : Env) (ifs : Str) (l : List Str)
    (hifs : ifsOf env = .ok ifs) (hv : env.get ['@'] = Var.ofList l) :
    fields x cfg env { name := ['@'] } true = .ok (l, env) :=
  quoted_positional_at x cfg env ifs l hifs hv

/-- … and no field at all for an unset variable. -/
theorem quoted_at_of_unset (x : Ext) (cfg : Cfg) (env : Env) (name ifs : Str)
    (hifs : ifsOf env = .ok ifs) (hp : Plain name) (hv : env.get name = Var.zero) :
    fields x cfg env { name := name, idx := .at } true = .ok ([], env) :=
  quoted_at_unset x cfg env name ifs hifs hp hv

/-- `"${a[*]}"` and `"$*"` are one field: the elements joined with the first character of IFS
    (nothing when IFS is empty; a space when IFS is unset, by `ifsOf`). -/
theorem quoted_star (x : Ext) (cfg : Cfg) (env : Env) (name ifs : Str) (l : List Str)
    (hifs : ifsOf env = .ok ifs) (hp : Plain name) (hv : env.get name = Var.ofList l) :
    fields x cfg env { name := name, idx := .star } true = .ok ([joinWith (ifs.take 1) l], env) :=
  quoted_star_eq x cfg env name ifs l hifs hp hv

theorem quoted_star_positional (x : Ext) (cfg : Cfg) (env : Env) (ifs : Str) (l : List Str)
    (hifs : ifsOf env = .ok ifs) (hv : env.get ['*'] = Var.ofList l) :
    fields x cfg env { name := ['*'] } true = .ok ([joinWith (ifs.take 1) l], env) :=
  quoted_positional_star x cfg env ifs l hifs hv

/-- IFS unset means space, tab, newline. -/
theorem ifs_default (env : Env) (h : env.get (sOf "IFS") = Var.zero) : ifsOf env = .ok (sOf " \t\n") := by
  simp [ifsOf, h]

/-! ## `indirect` -/

/-- `${!r}` where `r` holds a non-empty name is the value of that variable; an unset `r` is the
    error "invalid indirect expansion". -/
theorem indirect (x : Ext) (cfg : Cfg) (env : Env) (name n v ifs : Str)
    (hifs : ifsOf env = .ok ifs) (hp : Plain name) (hv : env.get name = Var.ofStr n) (hn : n ≠ [])
    (hval : (env.get n).string = .ok v) :
    paramExp x cfg env { name := name, excl := true } = .ok (v, env) :=
  indirect_eq x cfg env name n v ifs hifs hp hv hn hval

theorem indirect_of_unset (x : Ext) (env : Env) (name ifs : Str)
    (hifs : ifsOf env = .ok ifs) (hp : Plain name) (hv : env.get name = Var.zero) :
    paramExp x {} env { name := name, excl := true } = .error .indirect :=
  indirect_unset x env name ifs hifs hp hv

/-- An operator after the indirection applies to the referenced value. -/
def indirect_then_op_statement : Prop :=
  ∀ (x : Ext) (cfg : Cfg) (env : Env) (name n v ifs : Str) (off : Int),
    ifsOf env = .ok ifs → Plain name → env.get name = Var.ofStr n → n ≠ [] → (env.get n).string = .ok v →
    paramExp x cfg env { name := name, excl := true, slice := some (some off, none) }
      = (sliceStr v (some off) none).map (fun r => (r, env))

def indEnv : Env := [(yN, Var.ofStr (sOf "hello")), (rN, Var.ofStr yN)]

/-- finding C21-indirect-then-op: `y=hello; r=y; ${!r:1}` is `hello` -/
theorem indirect_then_op_counterexample :
    paramExp xLit {} indEnv { name := rN, excl := true, slice := some (some 1, none) } = .ok (sOf "hello", indEnv) := by
  decide

theorem indirect_then_op_statement_false : ¬ indirect_then_op_statement := by
  intro h
  have := h xLit {} indEnv rN yN (sOf "hello") (sOf " \t\n") 1 (by decide) (by decide) (by decide) (by decide) (by decide)
  rw [indirect_then_op_counterexample] at this
  revert this; decide

/-! ## `transform_ops` -/

/-- `${x@U}`, `${x@L}`, `${x@u}` on a set scalar map the case table over all / the first character;
    `${x@Q}` is what `syntax.Quote` returns (property C13: a word that expands back to the value —
    which leaves strings that need no quoting unquoted, the documented difference from bash). -/
theorem transform_ops (x : Ext) (cfg : Cfg) (env : Env) (name s ifs : Str)
    (hifs : ifsOf env = .ok ifs) (hp : Plain name) (hv : env.get name = Var.ofStr s) :
    paramExp x cfg env { name := name, exp := some (.other, ['U']) } = .ok (s.map toUpper, env) ∧
    paramExp x cfg env { name := name, exp := some (.other, ['L']) } = .ok (s.map toLower, env) ∧
    paramExp x cfg env { name := name, exp := some (.other, ['u']) } = .ok (upperFirstRune s, env) ∧
    (∀ q, x.Q s = some q → paramExp x cfg env { name := name, exp := some (.other, ['Q']) } = .ok (q, env)) ∧
    (x.Q s = none → paramExp x cfg env { name := name, exp := some (.other, ['Q']) } = .error .quote) := by
  refine ⟨?_, ?_, ?_, ?_, ?_⟩
  · rw [other_scalar_eq x cfg env name s ifs _ hifs hp hv]; rfl
  · rw [other_scalar_eq x cfg env name s ifs _ hifs hp hv]; rfl
  · rw [other_scalar_eq x cfg env name s ifs _ hifs hp hv]; rfl
  · intro q hq
    rw [other_scalar_eq x cfg env name s ifs _ hifs hp hv]
    simp [otherOp, hq, Except.map]
  · intro hq
    rw [other_scalar_eq x cfg env name s ifs _ hifs hp hv]
    simp [otherOp, hq, Except.map]

/-- `${x@Q}` of an unset parameter is nothing (fixed by 0f29e88). -/
theorem quote_of_unset (x : Ext) (env : Env) (name ifs : Str)
    (hifs : ifsOf env = .ok ifs) (hp : Plain name) (hv : env.get name = Var.zero) :
    paramExp x {} env { name := name, exp := some (.other, ['Q']) } = .ok ([], env) := by
  simp [paramExp, hifs, hv, effIdx, hp.1, hp.2, isAtStar, Idx.lit, varInd, varIndNone, Var.string, Var.zero,
    otherOp, bind, Except.bind, pure, Except.pure]

/-- `${x/p/w}` of an unset parameter is nothing, whatever the pattern (fixed by f702dff). -/
theorem replace_of_unset (x : Ext) (env : Env) (name ifs : Str) (r : Repl)
    (hifs : ifsOf env = .ok ifs) (hp : Plain name) (hv : env.get name = Var.zero) :
    paramExp x {} env { name := name, repl := some r } = .ok ([], env) := by
  simp [paramExp, hifs, hv, effIdx, hp.1, hp.2, isAtStar, Idx.lit, varInd, varIndNone, Var.string, Var.zero,
    bind, Except.bind, pure, Except.pure]

/-- `"${m[@]}"` of an associative array: the values (sorted) as separate fields, none when it is
    empty (fixed by 0ab856c). -/
theorem quoted_at_assoc (x : Ext) (cfg : Cfg) (env : Env) (name ifs : Str) (m : List (Str × Str))
    (hifs : ifsOf env = .ok ifs) (hp : Plain name) (hv : env.get name = Var.ofMap m) :
    fields x cfg env { name := name, idx := .at } true = .ok (sortStrs (m.map (·.2)), env) := by
  simp [fields, quotedElemFields, listElems, hifs, hv, hp.1, hp.2, isAtStar, Idx.lit, perElemOps,
    addElemsQuoted_fields, bind, Except.bind, pure, Except.pure]

/-- The case table on the letters of the generators' alphabet. -/
example : (sOf "aé ǅz").map toUpper = sOf "AÉ ǄZ" ∧ (sOf "AÉǅ").map toLower = sOf "aéǆ" := by decide

/-! ## an empty list counts as unset -/

/-- `$@`, `$*`, `${a[@]}`, `${a[*]}` without elements count as unset for the test operators
    (fixed by f7cc96f + 4040b4e for indexed lists, ed26a21 for associative arrays): `${@-w}` is the word … -/
theorem empty_list_unset (x : Ext) (cfg : Cfg) (env : Env) (ifs w : Str)
    (hifs : ifsOf env = .ok ifs) (hv : env.get ['@'] = Var.ofList []) :
    paramExp x cfg env { name := ['@'], exp := some (.defUnset, w) } = .ok (w, env) := by
  simp [paramExp, hifs, hv, effIdx, isAtStar, Idx.lit, sliceElems, overridingUnset, Sl.toList, joinWith,
    bind, Except.bind, pure, Except.pure]

/-- … `${@+w}` is nothing, and the same for an indexed array with `[@]`. -/
theorem empty_list_unset_alt (x : Ext) (cfg : Cfg) (env : Env) (ifs w : Str)
    (hifs : ifsOf env = .ok ifs) (hv : env.get ['@'] = Var.ofList []) :
    paramExp x cfg env { name := ['@'], exp := some (.altUnset, w) } = .ok ([], env) := by
  simp [paramExp, hifs, hv, effIdx, isAtStar, Idx.lit, sliceElems, overridingUnset, Sl.toList, joinWith,
    bind, Except.bind, pure, Except.pure]

theorem empty_array_unset (x : Ext) (cfg : Cfg) (env : Env) (name ifs w : Str)
    (hifs : ifsOf env = .ok ifs) (hp : Plain name) (hv : env.get name = Var.ofList []) :
    paramExp x cfg env { name := name, idx := .at, exp := some (.defUnset, w) } = .ok (w, env) := by
  simp [paramExp, hifs, hv, effIdx, hp.1, hp.2, isAtStar, Idx.lit, sliceElems, overridingUnset, Sl.toList, joinWith,
    bind, Except.bind, pure, Except.pure]

/-- former finding C21-empty-list-is-unset: `set --; ${@-d}` is `d` -/
theorem pinned_empty_list_unset :
    paramExp xLit {} [(['@'], Var.ofList [])] { name := ['@'], exp := some (.defUnset, ['d']) }
      = .ok (['d'], [(['@'], Var.ofList [])]) := by decide

/-! ## a subscript of an associative array that is not a plain word -/

/-- finding C21-assoc-negative-subscript: `declare -A x=([a]=b); ${x[-1]}` is the error
    "unsupported associative array subscript" (a Go panic before 443024b; bash uses the text `-1`
    as the key and expands to nothing). -/
theorem assoc_negative_subscript_error :
    paramExp xLit {} [(xN, Var.ofMap [(['a'], ['b'])])] { name := xN, idx := .word (sOf "-1") false }
      = .error .assocSubscript := by decide

/-- No subscript form of an associative array reaches a Go panic any more (well-formed or not). -/
theorem assoc_subscript_no_panic (ifs : Str) (m : List (Str × Str)) (idx : Idx) :
    varInd ifs (Var.ofMap m) idx ≠ .error .panic := by
  cases idx with
  | none => simp only [varInd, varIndNone, ofMap_kind]; split <;> simp
  | «at» => simp [varInd, varIndSome, Idx.lit]
  | star => simp [varInd, varIndSome, Idx.lit]
  | word t w =>
    cases w <;> simp only [varInd, varIndSome, ofMap_kind, Idx.lit] <;> repeat (first | split | simp)

/-! ## non-vacuity -/

example : ifsOf [] = .ok (sOf " \t\n") := by decide
example : Plain xN := by decide
example : EmptyAll (fun u => u == ['a']) := by intro h; exact absurd h (by decide)
example : PerElem xLit { name := xN, idx := .at, exp := some (.remSmallPre, ['a']) } [['a'], ['b']] :=
  Or.inr (Or.inl ⟨rfl, .remSmallPre, ['a'], rfl, Or.inl rfl⟩)
example : fields xLit {} abEnv { name := xN, idx := .at, exp := some (.remSmallPre, ['a']) } true
    = .ok ([[], ['b']], abEnv) := by decide
example : fields xLit {} abEnv { name := xN, idx := .star } true = .ok ([sOf "a b"], abEnv) := by decide
example : fields xLit {} ((sOf "IFS", Var.ofStr [':']) :: abEnv) { name := xN, idx := .star } true
    = .ok ([sOf "a:b"], (sOf "IFS", Var.ofStr [':']) :: abEnv) := by decide
example : paramExp xLit {} [(xN, Var.ofStr (sOf "abcabc"))] { name := xN, repl := some ⟨true, ['b'], ['X'], .none⟩ }
    = .ok (sOf "aXcaXc", [(xN, Var.ofStr (sOf "abcabc"))]) := by decide
example : paramExp xCStar {} [(xN, Var.ofStr (sOf "abcb"))] { name := xN, exp := some (.remLargeSuf, sOf "c*") }
    = .ok (sOf "ab", [(xN, Var.ofStr (sOf "abcb"))]) := by decide
example : fields xLit {} ((sOf "IFS", Var.ofStr [':']) :: abEnv)
    { name := xN, idx := .star, exp := some (.upperAll, ['a']) } true
    = .ok ([sOf "A:b"], (sOf "IFS", Var.ofStr [':']) :: abEnv) := by decide

example : fields xLit {} [(['@'], Var.ofList [sOf "ab", sOf "b"])] { name := ['@'], exp := some (.remSmallPre, ['a']) } true
    = .ok ([['b'], ['b']], [(['@'], Var.ofList [sOf "ab", sOf "b"])]) := by decide
example : Spec.table .asgUnsetOrNull .null = some .assign := rfl

end ShVerif.C21
