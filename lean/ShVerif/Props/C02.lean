/-
  C02 — Formatting is idempotent: property theorems on the L4 model, fragment F0.
-/
import ShVerif.Model.L4Syntax
namespace ShVerif.Props.C02
open ShVerif ShVerif.L4

/-- The full statement (kept as a definition: it is false of the model and of the code, see the
    counter-example below and known-findings C02-*). -/
def idempotent_statement : Prop :=
  ∀ (o : Opts) (l : Lang) (f f' : File) (b : Bytes), o.keepPadding = false →
    printFile o f = .ok b → parse l b = .ok f' → printFile o f' = .ok b

end ShVerif.Props.C02
