/-
  C02 — Formatting is idempotent: property theorems on the L4 model, fragment F0, every printer
  option except KeepPadding.  Negative: the all-options statement is false (two recorded defects,
  both with default options).  Positive: with SingleLine the second pass is byte-identical, on all
  of F0 and for every other option (`idempotent_singleLine`).
-/
import ShVerif.Proofs.L4PrintGen
import ShVerif.Proofs.L4Single
import ShVerif.Proofs.L4ParseWF
import ShVerif.Proofs.L4Fix
import ShVerif.Proofs.L4Walk
import ShVerif.Proofs.L4WalkN
import ShVerif.Props.C01
namespace ShVerif.Props.C02
open ShVerif ShVerif.L4

deriving instance DecidableEq for Except

/-- The full statement.  It is false of the model and of the code (`idempotent_fails`, known
    findings C02-subshell-trailing-blank and C02-closing-paren-space), so it stays a definition. -/
def idempotent_statement : Prop :=
  ∀ (o : Opts) (l : Lang) (f f' : File) (b : Bytes), f.wf = true → o.keepPadding = false →
    printFile o f = .ok b → parse l b = .ok f' → printFile o f' = .ok b

/-- second formatting pass: parse, then print -/
def reprint (o : Opts) (l : Lang) (b : Bytes) : Except PrintErr Bytes :=
  match parse l b with
  | .ok f => printFile o f
  | .error _ => .error .panic

theorem reprint_of_parse {o l b f} (h : parse l b = .ok f) : reprint o l b = printFile o f := by
  unfold reprint; rw [h]

/-! ### The recorded defect C02-subshell-trailing-blank on the model -/

private def w1 (offs line col : Nat) (s : String) : Word :=
  ⟨[.lit ⟨offs, line, col⟩ ⟨offs + 1, line, col + 1⟩ (bytesOfString s)]⟩

/-- `( (s)` NEWLINE `)` as the parser produces it -/
def trailingBlankWitness : File :=
  ⟨.cons (.mk ⟨0, 1, 1⟩ Pos.zero false false
      (.subshell ⟨0, 1, 1⟩ ⟨6, 2, 1⟩
        (.cons (.mk ⟨2, 1, 3⟩ Pos.zero false false
          (.subshell ⟨2, 1, 3⟩ ⟨4, 1, 5⟩ (.cons (.mk ⟨3, 1, 4⟩ Pos.zero false false (.call [w1 3 1 4 "s"])) .nil))) .nil))) .nil⟩

/-- first pass: `( ` NEWLINE TAB `(s)` NEWLINE `)` — a blank before the line break -/
theorem trailingBlank_first :
    printFile {} trailingBlankWitness = .ok (bytesOfString "( \n\t(s)\n)\n") := by
  decide +kernel

/-- second pass: `(` NEWLINE TAB `(s)` NEWLINE `)` -/
theorem trailingBlank_second :
    reprint {} .bash (bytesOfString "( \n\t(s)\n)\n") = .ok (bytesOfString "(\n\t(s)\n)\n") := by
  decide +kernel

/-- Hence the full statement is false (default options, a tree that the parser produces). -/
theorem idempotent_fails : ¬ idempotent_statement := by
  intro h
  cases hp : parse .bash (bytesOfString "( \n\t(s)\n)\n") with
  | error e =>
    have h2 := trailingBlank_second
    unfold reprint at h2
    rw [hp] at h2
    cases h2
  | ok f' =>
    have h1 := h {} .bash trailingBlankWitness f' _ (by decide +kernel) rfl trailingBlank_first hp
    have h2 := trailingBlank_second
    rw [reprint_of_parse hp, h1] at h2
    revert h2
    decide +kernel

/-! ### C02-closing-paren-space on the model: POSIX `((a;b))` -/

/-- `( (a;b))` : two subshells opened and closed on one line, two statements inside -/
def closingParenWitness : File :=
  ⟨.cons (.mk ⟨0, 1, 1⟩ Pos.zero false false
      (.subshell ⟨0, 1, 1⟩ ⟨7, 1, 8⟩
        (.cons (.mk ⟨2, 1, 3⟩ Pos.zero false false
          (.subshell ⟨2, 1, 3⟩ ⟨6, 1, 7⟩
            (.cons (.mk ⟨3, 1, 4⟩ ⟨4, 1, 5⟩ false false (.call [w1 3 1 4 "a"]))
              (.cons (.mk ⟨5, 1, 6⟩ Pos.zero false false (.call [w1 5 1 6 "b"])) .nil)))) .nil))) .nil⟩

theorem closingParen_first :
    printFile {} closingParenWitness = .ok (bytesOfString "( (\n\ta\n\tb\n) )\n") := by
  decide +kernel

theorem closingParen_second :
    reprint {} .posix (bytesOfString "( (\n\ta\n\tb\n) )\n") = .ok (bytesOfString "( (\n\ta\n\tb\n))\n") := by
  decide +kernel


/-! ## SingleLine: the second pass is byte-identical

  Under SingleLine the printer consults no position: on F0 its output is a function of the norm of
  the tree (`L4.printFile_singleLine`, proved by running the model printer on an abstraction of
  its state).  The first pass parses back to a tree with the same norm (`L4.roundtrip_gen`, the
  C01 round trip), hence the second pass writes the same bytes.  No hypothesis on the re-parsed
  tree is needed. -/

theorem safe_ne_bs : ∀ b : UInt8, isSafe b = true → (b != 92) = true := by
  apply u8_forall; decide +kernel

theorem normParts_plain : ∀ parts : List WordPart, (∀ p ∈ parts, p.wf = true) →
    (normParts parts).all NPart.plain = true
  | [], _ => rfl
  | .sgl l r v :: rest, h => by
    have ih := normParts_plain rest (fun p hp => h p (by simp [hp]))
    simp only [normParts, List.all_cons, NPart.plain, Bool.true_and]
    exact ih
  | .lit a e v :: rest, h => by
    have ih := normParts_plain rest (fun p hp => h p (by simp [hp]))
    have hv : v.all (· != 92) = true := by
      have := h (.lit a e v) (by simp)
      simp only [WordPart.wf, Bool.and_eq_true, List.all_eq_true] at this
      exact List.all_eq_true.mpr (fun b hb => safe_ne_bs b (this.2 b hb))
    simp only [normParts]
    split
    · rename_i v' r hr
      rw [hr] at ih
      simp only [List.all_cons, NPart.plain, Bool.and_eq_true] at ih
      simp only [List.all_cons, NPart.plain, List.all_append, Bool.and_eq_true]
      exact ⟨⟨hv, ih.1⟩, ih.2⟩
    · simp only [List.all_cons, NPart.plain, Bool.and_eq_true]
      exact ⟨hv, ih⟩

theorem word_wf_ok (w : Word) (h : w.wf = true) : nwordOk w.norm = true := by
  have hne := Word.wf_parts_ne h
  have hparts : ∀ p ∈ w.parts, p.wf = true := by
    unfold Word.wf at h
    simp only [Bool.and_eq_true, List.all_eq_true] at h
    exact h.2
  simp only [nwordOk, Bool.and_eq_true, Bool.not_eq_true', List.isEmpty_eq_false_iff]
  refine ⟨fun e => hne (normParts_nil e), normParts_plain w.parts hparts⟩

mutual
theorem stmt_wf_ok : ∀ s : Stmt, s.wf = true → s.norm.ok = true
  | .mk _ _ _ _ c, h => by
    simp only [Stmt.wf, Bool.and_eq_true] at h
    simpa [Stmt.norm, NStmt.ok] using cmd_wf_ok c h.1
theorem cmd_wf_ok : ∀ c : Cmd, c.wf = true → c.norm.ok = true
  | .call args, h => by
    cases args with
    | nil => simp [Cmd.wf] at h
    | cons w rest =>
      simp only [Cmd.wf, Bool.and_eq_true, List.all_eq_true] at h
      simp only [Cmd.norm, NCmd.ok, List.map_cons, List.isEmpty_cons, Bool.not_false, Bool.true_and, List.all_cons,
        Bool.and_eq_true, List.all_eq_true, List.mem_map, forall_exists_index, and_imp, forall_apply_eq_imp_iff₂]
      exact ⟨word_wf_ok w (h.1 w (by simp)), fun x hx => word_wf_ok x (h.1 x (by simp [hx]))⟩
  | .subshell _ _ ss, h => by
    simp only [Cmd.wf, Bool.and_eq_true, decide_eq_true_eq] at h
    cases ss with
    | nil => simp [Stmts.length] at h
    | cons s r => simpa [Cmd.norm, Stmts.norm, NCmd.ok] using stmts_wf_ok (.cons s r) h.2
  | .block _ _ ss, h => by
    simp only [Cmd.wf, Bool.and_eq_true, decide_eq_true_eq] at h
    cases ss with
    | nil => simp [Stmts.length] at h
    | cons s r => simpa [Cmd.norm, Stmts.norm, NCmd.ok] using stmts_wf_ok (.cons s r) h.2
  | .binary _ _ x y, h => by
    simp only [Cmd.wf, Bool.and_eq_true] at h
    simp only [Cmd.norm, NCmd.ok, Bool.and_eq_true]
    exact ⟨stmt_wf_ok x h.1.1.1.1, stmt_wf_ok y h.1.1.1.2⟩
theorem stmts_wf_ok : ∀ ss : Stmts, ss.wf = true → ss.norm.ok = true
  | .nil, _ => rfl
  | .cons s r, h => by
    obtain ⟨h1, h2⟩ := Stmts.wf_cons h
    simp only [Stmts.norm, NStmts.ok, Bool.and_eq_true]
    exact ⟨stmt_wf_ok s h1, stmts_wf_ok r h2⟩
end

/-- **Idempotence under SingleLine** (all of F0, every other option, every variant): if a
    well-formed tree with monotone positions prints as `b` and `b` parses to `f'`, then `f'`
    prints as `b` again. -/
theorem idempotent_singleLine (o : Opts) (l : Lang) (f f' : File) (b : Bytes) (hsl : o.singleLine = true)
    (hwf : f.wf = true) (hmono : posMono f) (hne : f.stmts ≠ .nil)
    (hp : printFile o f = .ok b) (hq : parse l b = .ok f') : printFile o f' = .ok b := by
  have hmn : o.minify = false := by
    cases hm : o.minify with
    | false => rfl
    | true =>
      unfold printFile at hp
      simp [refuse, hm, hsl] at hp
  obtain ⟨f'', h1, h2⟩ := roundtrip_gen o l f b hwf hmono hne hp
  rw [hq] at h1
  cases h1
  have hok : f.norm.ok = true := stmts_wf_ok f.stmts hwf
  have hne' : f'.stmts ≠ .nil := by
    intro e
    have : f'.norm = .nil := by simp [File.norm, e, Stmts.norm]
    rw [h2] at this
    obtain ⟨ss⟩ := f
    cases ss with
    | nil => exact hne rfl
    | cons s r => simp [File.norm, Stmts.norm] at this
  rw [printFile_singleLine o hsl hmn f' (by rw [h2]; exact hok) hne', h2,
    ← printFile_singleLine o hsl hmn f hok hne]
  exact hp

/-- for instance the witness of C02-subshell-trailing-blank is stable under SingleLine: it prints
    `( (s) )`, and so does the second pass -/
theorem trailingBlank_singleLine :
    printFile { singleLine := true } trailingBlankWitness = .ok (bytesOfString "( (s) )\n") ∧
    reprint { singleLine := true } .bash (bytesOfString "( (s) )\n") = .ok (bytesOfString "( (s) )\n") := by
  constructor <;> decide +kernel

/-- the second pass as a function of the bytes: `reprint` gives the same bytes back -/
theorem reprint_singleLine (o : Opts) (l : Lang) (f : File) (b : Bytes) (hsl : o.singleLine = true)
    (hwf : f.wf = true) (hmono : posMono f) (hne : f.stmts ≠ .nil) (hp : printFile o f = .ok b) :
    reprint o l b = .ok b := by
  obtain ⟨f', h1, _⟩ := roundtrip_gen o l f b hwf hmono hne hp
  rw [reprint_of_parse h1]
  exact idempotent_singleLine o l f f' b hsl hwf hmono hne hp h1

/-- **Idempotence under SingleLine, from source text**: if `src` parses to a non-empty `f`, `f`
    prints as `b` under an option set with SingleLine, then formatting `b` again gives `b`.  No
    hypothesis on the tree (`parse_wf_posMono`). -/
theorem idempotent_singleLine_src (o : Opts) (l : Lang) (src : Bytes) (f : File) (b : Bytes) (hsl : o.singleLine = true)
    (hsrc : parse l src = .ok f) (hne : f.stmts ≠ .nil) (hp : printFile o f = .ok b) : reprint o l b = .ok b := by
  obtain ⟨hwf, hmono⟩ := parse_wf_posMono l src f hsrc
  exact reprint_singleLine o l f b hsl hwf hmono hne hp

/-! ## A word printed on its own -/

/-- `Print(Word)` writes the bytes of the parts, whatever the options and the positions -/
theorem printWord_bytes (o : Opts) (hr : refuse o = false) (w : Word) (hw : w.wf = true) :
    printWord o w = .ok (wordBytes w.parts) := by
  obtain ⟨pos, hpos⟩ := Word.wf_pos hw
  have hne := Word.wf_parts_ne hw
  unfold printWord
  simp only [hr, Bool.false_eq_true, ↓reduceIte, hpos]
  cases hparts : w.parts with
  | nil => exact absurd hparts hne
  | cons wp rest =>
    have hpl : wp.pos.line = pos.line := by
      simp only [Word.pos?, hparts, List.head?_cons, Option.map_some, Option.some.injEq] at hpos
      rw [← hpos]
    have hI : Inv 0 (({ (P.init o) with line := pos.line } : P).word w) :=
      Inv.word (n := 0) (p := { (P.init o) with line := pos.line }) ⟨rfl, rfl⟩ w hw
    rw [hI.finish]
    simp only [Except.ok.injEq]
    simp only [P.word, P.wordParts, hparts, hpl, Nat.lt_irrefl, decide_false, Bool.and_false, Bool.false_eq_true,
      ↓reduceIte]
    have hout : ∀ (q : P) (wps : List WordPart), (q.wordPartsLoop wps).out = q.out := by
      intro q wps
      induction wps generalizing q with
      | nil => rfl
      | cons x xs ih =>
        unfold P.wordPartsLoop
        rw [ih]
        cases x <;> rfl
    simp [hout, P.init, render, Piece.bytes]

/-- **Idempotence for a word printed on its own** (every option set): lexing the printed word and
    printing the result gives the same bytes. -/
theorem idempotent_word (o : Opts) (w : Word) (hw : w.wf = true) (b : Bytes) (hp : printWord o w = .ok b)
    (parts : List WordPart) (stop : Pos) (hl : lexWord b ⟨0, 1, 1⟩ .idle [] = .done parts stop []) :
    printWord o ⟨parts⟩ = .ok b := by
  have hr : refuse o = false := by
    cases h : refuse o with
    | false => rfl
    | true => unfold printWord at hp; simp [h] at hp
  rw [printWord_bytes o hr w hw] at hp
  cases hp
  obtain ⟨parts2, stop2, h1, h2⟩ := ShVerif.Props.C01.roundtrip_word o w hw _ (printWord_bytes o hr w hw)
  rw [hl] at h1
  cases h1
  -- the lexed parts are well formed
  obtain ⟨x, t, hx, hsafe⟩ := wordBytes_head w.parts (Word.wf_parts_ne hw) (Word.wf_parts hw)
  rw [hx] at hl
  obtain ⟨_, hwf2, _⟩ := lexWord_start_ok x t ⟨0, 1, 1⟩ parts stop [] [] (by rcases hsafe with h | h <;> simp [h]) hl
    (by simp [Sorted])
  rw [printWord_bytes o hr ⟨parts⟩ hwf2]
  congr 1
  have hp1 := normParts_plain parts (Word.wf_parts hwf2)
  have hp2 := normParts_plain w.parts (Word.wf_parts hw)
  rw [wordBytes_norm parts hp1, wordBytes_norm w.parts hp2]
  show nwordBytes (normParts parts) = nwordBytes w.norm
  rw [h2]

/-! ## Without SingleLine: programs without subshells and blocks

  Outside SingleLine the printed layout depends on the line numbers in the tree.  Call `f'` a
  *transcript* of printing `f` (`TrFile o f f'`; `trFileB o f f'` is the executable check,
  `Model/L4Transcript.lean`) when `f'` has the shape of `f` and carries, as line numbers, the
  lines on which `printFile o f` actually writes the corresponding tokens: every word starts on
  the line where it was written and ends that line plus the newlines inside it, a statement
  starts where its first token was written, a `;`/`&` sits where it was written, an operator not
  after its right operand.

  1. `reprint_fixpoint` (`Proofs/L4Fix.lean`): printing a transcript writes the same bytes again,
     for *every* option set without SingleLine (Minify, BinaryNextLine, Indent n, …) and every
     line-number assignment of `f` — continuation lines, blank lines and multi-line `&&`/`||`/`|`
     lists included.  The two printer passes are run side by side: same flags and levels, same
     bytes, and the second pass's line counter *is* the current output line.
  2. `reparse_transcript` (`Proofs/L4Walk.lean`): the parser reads the printed text back as a
     transcript.  Ingredients: where the tokens of printed text sit (`lexAll_pieces_lines`: the
     k-th token is on line 1 + the newlines written before the k-th word/operator piece), where a
     word ends (`lexAll_ok3`), the tree is the token stream (`parse_tokens`), statement positions
     are first-token positions (`parse_pk`), `parse_WF`, and C01's round trip on norms.
  3. Hence `idempotent_linear`: the statement the property asks for, from source text, with no
     hypothesis on any tree, for programs without subshells and blocks (`Stmts.lin`): simple
     commands with literal and single-quoted words, `!`, `&`, `;`, and `&&`/`||`/`|` lists of any
     nesting and any layout.

  Subshells and blocks: see the section "subshells and blocks, under a side condition" below
  (`idempotent_nested_partial`).  There the printer reads positions not only through "is this token
  after the current line": `lp.line != s.pos.line`, `closing.line > p.line ∧ endLine <
  closing.line` and `openLine == closeLine` compare positions of the *first* tree with each other,
  and the transcript answers them differently exactly in the two recorded defects
  (`idempotent_fails`: `( (s)` NEWLINE `)`, POSIX `((a;b))`); the transcript relation therefore
  carries the agreement of these comparisons, and the executable side condition `nestOKFile`
  provides it. -/

/-- **The printer is a fixpoint on its own layout.** -/
theorem reprint_fixpoint (o : Opts) (f f' : File) (hsl : o.singleLine = false) (t : trFileB o f f' = true) :
    printFile o f' = printFile o f :=
  printFile_transcript o f f' hsl t

/-- the same with the relational form of "transcript" (`TrFile`, which the check decides) -/
theorem reprint_fixpoint_rel (o : Opts) (f f' : File) (hsl : o.singleLine = false) (t : TrFile o f f') :
    printFile o f' = printFile o f :=
  printFile_fix o f f' hsl t

/-- idempotence of one formatting run, given that its re-parsed output is a transcript -/
theorem idempotent_of_transcript (o : Opts) (l : Lang) (f f' : File) (b : Bytes) (hsl : o.singleLine = false)
    (hp : printFile o f = .ok b) (_hq : parse l b = .ok f') (t : trFileB o f f' = true) :
    printFile o f' = .ok b := by
  rw [reprint_fixpoint o f f' hsl t]; exact hp

/-- the hypotheses are satisfiable, with a continuation line, a blank line, a `&&` broken after
    the operator, `&` and a quoted newline: the parser does read the printed text back as a
    transcript here -/
example :
    (match parse .bash "a \\\n  b &\n\n\nc 'x\ny' &&\n d | e\n! f".toUTF8.toList with
     | .ok f =>
       match printFile {} f with
       | .ok b =>
         match parse .bash b with
         | .ok f' => trFileB {} f f' && !f.stmts.toList.isEmpty && b.count 10 ≥ 6
         | _ => false
       | _ => false
     | _ => false) = true := by
  decide +kernel

/-- **The parser reads printed text back as a transcript** (programs without subshells and
    blocks, every option set without SingleLine, every variant). -/
theorem reparse_transcript (o : Opts) (l : Lang) (src : Bytes) (f f' : File) (b : Bytes) (hsrc : parse l src = .ok f)
    (hlin : f.stmts.lin = true) (hne : f.stmts ≠ .nil) (hsl : o.singleLine = false)
    (hp : printFile o f = .ok b) (hq : parse l b = .ok f') : TrFile o f f' :=
  transcript o l src f f' b hsrc hlin hne hsl hp hq

theorem norm_nil_stmts {f : File} (h : f.norm.beq NStmts.nil = true) : f.stmts = .nil := by
  obtain ⟨ss⟩ := f
  cases ss with
  | nil => rfl
  | cons s r => simp [File.norm, Stmts.norm, NStmts.beq] at h

/-- the second pass succeeds and writes the same bytes -/
theorem reprint_linear (o : Opts) (l : Lang) (src : Bytes) (f f' : File) (b : Bytes) (hsrc : parse l src = .ok f)
    (hlin : f.stmts.lin = true) (hsl : o.singleLine = false)
    (hp : printFile o f = .ok b) (hq : parse l b = .ok f') : printFile o f' = .ok b := by
  by_cases hne : f.stmts = .nil
  · -- the empty file prints as one newline, which parses to the empty file
    obtain ⟨ss⟩ := f
    simp only at hne
    subst hne
    have hr : refuse o = false := by
      cases h : refuse o with
      | false => rfl
      | true => unfold printFile at hp; simp [h] at hp
    rw [C01.printFile_nil o hr] at hp
    simp only [Except.ok.injEq] at hp
    subst hp
    have hn := C01.parse_newline l
    rw [hq] at hn
    have : f' = ⟨.nil⟩ := by
      have := norm_nil_stmts hn
      obtain ⟨ss'⟩ := f'
      simp only at this
      rw [this]
    rw [this]
    exact C01.printFile_nil o hr
  · exact L4.idempotent_linear o l src f f' b hsrc hlin hne hsl hp hq

/-- **Idempotence without SingleLine on programs without subshells and blocks** — the
    property's own statement, from source text: every option set without SingleLine (KeepPadding is
    outside the model), every variant, no hypothesis on any tree. -/
theorem idempotent_linear (o : Opts) (l : Lang) (src : Bytes) (f f' : File) (b b' : Bytes)
    (hsrc : parse l src = .ok f) (hlin : f.stmts.lin = true) (hsl : o.singleLine = false)
    (hp : printFile o f = .ok b) (hq : parse l b = .ok f') (hp' : printFile o f' = .ok b') : b' = b := by
  rw [reprint_linear o l src f f' b hsrc hlin hsl hp hq] at hp'
  simp only [Except.ok.injEq] at hp'
  exact hp'.symm

/-- the hypotheses are satisfiable, and the layout is not trivial: a continuation line, a blank
    line, `&&` broken after the operator, `&`, a quoted newline, `!` -/
example : ∃ f, parse .bash "a \\\n  b &\n\n\nc 'x\ny' &&\n d | e\n! f".toUTF8.toList = .ok f ∧ f.stmts.lin = true := by
  cases h : parse .bash "a \\\n  b &\n\n\nc 'x\ny' &&\n d | e\n! f".toUTF8.toList with
  | error e =>
    have : (match parse .bash "a \\\n  b &\n\n\nc 'x\ny' &&\n d | e\n! f".toUTF8.toList with | .ok _ => true | _ => false) = true := by
      decide +kernel
    rw [h] at this
    cases this
  | ok f =>
    refine ⟨f, rfl, ?_⟩
    have : (match parse .bash "a \\\n  b &\n\n\nc 'x\ny' &&\n d | e\n! f".toUTF8.toList with | .ok f => f.stmts.lin | _ => false) = true := by
      decide +kernel
    rw [h] at this
    exact this

/-! ## Without SingleLine: subshells and blocks, under a side condition

  `nestOKFile o f` (executable, `Model/L4Transcript.lean`) runs the printer on `f` and checks, at
  every subshell and block, that the comparisons the printer makes between positions of the tree —
  is the first statement on the line of `(` (`lp.line != s.pos.line`, when it starts with `(`),
  is the closing token below the end of the list (`closing.line > p.line ∧ endLine < closing.line`),
  is the single statement on a later line than the printer's counter (`stmtList`'s `sep`), are
  `(` and `)` on one line (`closingParen`, when the single statement ends in `)`) — come out the
  same on the lines where the tokens are actually written; for a block also that the printer is
  past its first line.  Programs without subshells and blocks satisfy it (`nestOKFile_of_lin`), the
  two recorded defects do not (`nestOK_excludes_defects`).

  `idempotent_nested_partial`: the property's own statement on all of F0 under this condition.
  Proof: `reprint_fixpoint_rel` now covers subshells and blocks (the transcript relation carries the
  agreement of these comparisons), `Proofs/L4WalkN.lean` extends the walk (`transcriptN`): `(`, `)`,
  `{`, `}` and the `;` that `semiRsrv` writes before `}` (which the parser gives to the last
  statement) are tokens of the run; `end_stmt/end_cmd/end_loop` show that the end line of a re-read
  statement is the line on which the first run finished it. -/

/-- **Idempotence without SingleLine on all of F0 under the side condition `nestOKFile`** — from
    source text, every option set without SingleLine, every variant, no hypothesis on any tree. -/
theorem idempotent_nested_partial (o : Opts) (l : Lang) (src : Bytes) (f f' : File) (b b' : Bytes)
    (hsrc : parse l src = .ok f) (hnok : nestOKFile o f = true) (hsl : o.singleLine = false)
    (hp : printFile o f = .ok b) (hq : parse l b = .ok f') (hp' : printFile o f' = .ok b') : b' = b := by
  have key : printFile o f' = .ok b := by
    by_cases hne : f.stmts = .nil
    · have hlin : f.stmts.lin = true := by rw [hne]; rfl
      exact reprint_linear o l src f f' b hsrc hlin hsl hp hq
    · exact L4.idempotent_nested o l src f f' b hsrc hnok hne hsl hp hq
  rw [key] at hp'
  simp only [Except.ok.injEq] at hp'
  exact hp'.symm

/-- the second pass succeeds -/
theorem reprint_nested_partial (o : Opts) (l : Lang) (src : Bytes) (f f' : File) (b : Bytes)
    (hsrc : parse l src = .ok f) (hnok : nestOKFile o f = true) (hsl : o.singleLine = false)
    (hp : printFile o f = .ok b) (hq : parse l b = .ok f') : printFile o f' = .ok b := by
  by_cases hne : f.stmts = .nil
  · have hlin : f.stmts.lin = true := by rw [hne]; rfl
    exact reprint_linear o l src f f' b hsrc hlin hsl hp hq
  · exact L4.idempotent_nested o l src f f' b hsrc hnok hne hsl hp hq

/-- programs without subshells and blocks satisfy the side condition -/
theorem nestOK_of_linear (o : Opts) (f : File) (h : f.stmts.lin = true) : nestOKFile o f = true :=
  L4.nestOKFile_of_lin o f h

/-- the two recorded defects are outside the side condition, as they must be -/
theorem nestOK_excludes_defects :
    nestOKFile {} trailingBlankWitness = false ∧ nestOKFile {} closingParenWitness = false := by
  decide +kernel

/-- the side condition holds for ordinary nested programs: subshells and blocks on one line and
    over several lines, nested in each other and in `&&`/`|` lists -/
example :
    (match parse .bash "( a; b )\n{ c; }\n(\n a &&\n b\n)\n{ c\n d; }\nx | ( y )\n{ (a); } && ( b\n)\n".toUTF8.toList with
     | .ok f => nestOKFile {} f && !f.stmts.lin
     | _ => false) = true := by
  decide +kernel

/-! ## Stated, not proved

  Idempotence without SingleLine under the *syntactic* side condition `noParenParen` (no subshell
  whose single statement starts or ends with a parenthesis).  A definition, not a theorem: what is
  proved is `idempotent_nested_partial`, whose side condition `nestOKFile` is executable but runs
  the printer; that `noParenParen` (with `posMono`, no Minify) implies `nestOKFile` is not proved —
  it needs the printer's line counter to be in step with the source lines at every `(` and `{`
  (the `Pre` invariants of `Proofs/L4PrintGen.lean`) and fails for exotic layouts such as
  `{ a \` NEWLINE `\` NEWLINE `\` NEWLINE `; }` (a `;` three continuation lines down: `nestOKFile`
  is false and the model's two passes differ).  Checked by execution (`specidem`) on every run. -/

def idempotent_partial_statement : Prop :=
  ∀ (o : Opts) (l : Lang) (f f' : File) (b : Bytes), f.wf = true → posMono f → f.stmts.noParenParen = true →
    o.keepPadding = false → o.minify = false → o.singleLine = false →
    printFile o f = .ok b → parse l b = .ok f' → printFile o f' = .ok b

/-- both witnesses are excluded by the side condition, as they must be -/
example : trailingBlankWitness.stmts.noParenParen = false ∧ closingParenWitness.stmts.noParenParen = false := by
  decide +kernel

end ShVerif.Props.C02
