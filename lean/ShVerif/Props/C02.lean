/-
  C02 — Formatting is idempotent: property theorems on the L4 model, fragment F0, every printer
  option except KeepPadding.
-/
import ShVerif.Proofs.L4Parse
namespace ShVerif.Props.C02
open ShVerif ShVerif.L4

deriving instance DecidableEq for Except

/-- The full statement.  It is false of the model and of the code (`idempotent_fails`, known
    findings C02-subshell-trailing-blank and C02-closing-paren-space), so it stays a definition. -/
def idempotent_statement : Prop :=
  ∀ (o : Opts) (l : Lang) (f f' : File) (b : Bytes), f.wf = true → o.keepPadding = false →
    printFile o f = .ok b → parse l b = .ok f' → printFile o f' = .ok b

/-- second formatting pass: parse, then print -/
def reprint (o : Opts) (l : Lang) (b : Bytes) : Except PrintErr Bytes :=
  match parse l b with
  | .ok f => printFile o f
  | .error _ => .error .panic

theorem reprint_of_parse {o l b f} (h : parse l b = .ok f) : reprint o l b = printFile o f := by
  unfold reprint; rw [h]

/-! ### The recorded defect C02-subshell-trailing-blank on the model -/

private def w1 (offs line col : Nat) (s : String) : Word :=
  ⟨[.lit ⟨offs, line, col⟩ ⟨offs + 1, line, col + 1⟩ (bytesOfString s)]⟩

/-- `( (s)` NEWLINE `)` as the parser produces it -/
def trailingBlankWitness : File :=
  ⟨.cons (.mk ⟨0, 1, 1⟩ Pos.zero false false
      (.subshell ⟨0, 1, 1⟩ ⟨6, 2, 1⟩
        (.cons (.mk ⟨2, 1, 3⟩ Pos.zero false false
          (.subshell ⟨2, 1, 3⟩ ⟨4, 1, 5⟩ (.cons (.mk ⟨3, 1, 4⟩ Pos.zero false false (.call [w1 3 1 4 "s"])) .nil))) .nil))) .nil⟩

/-- first pass: `( ` NEWLINE TAB `(s)` NEWLINE `)` — a blank before the line break -/
theorem trailingBlank_first :
    printFile {} trailingBlankWitness = .ok (bytesOfString "( \n\t(s)\n)\n") := by
  decide +kernel

/-- second pass: `(` NEWLINE TAB `(s)` NEWLINE `)` -/
theorem trailingBlank_second :
    reprint {} .bash (bytesOfString "( \n\t(s)\n)\n") = .ok (bytesOfString "(\n\t(s)\n)\n") := by
  decide +kernel

/-- Hence the full statement is false (default options, a tree that the parser produces). -/
theorem idempotent_fails : ¬ idempotent_statement := by
  intro h
  cases hp : parse .bash (bytesOfString "( \n\t(s)\n)\n") with
  | error e =>
    have h2 := trailingBlank_second
    unfold reprint at h2
    rw [hp] at h2
    cases h2
  | ok f' =>
    have h1 := h {} .bash trailingBlankWitness f' _ (by decide +kernel) rfl trailingBlank_first hp
    have h2 := trailingBlank_second
    rw [reprint_of_parse hp, h1] at h2
    revert h2
    decide +kernel

/-! ### C02-closing-paren-space on the model: POSIX `((a;b))` -/

/-- `( (a;b))` : two subshells opened and closed on one line, two statements inside -/
def closingParenWitness : File :=
  ⟨.cons (.mk ⟨0, 1, 1⟩ Pos.zero false false
      (.subshell ⟨0, 1, 1⟩ ⟨7, 1, 8⟩
        (.cons (.mk ⟨2, 1, 3⟩ Pos.zero false false
          (.subshell ⟨2, 1, 3⟩ ⟨6, 1, 7⟩
            (.cons (.mk ⟨3, 1, 4⟩ ⟨4, 1, 5⟩ false false (.call [w1 3 1 4 "a"]))
              (.cons (.mk ⟨5, 1, 6⟩ Pos.zero false false (.call [w1 5 1 6 "b"])) .nil)))) .nil))) .nil⟩

theorem closingParen_first :
    printFile {} closingParenWitness = .ok (bytesOfString "( (\n\ta\n\tb\n) )\n") := by
  decide +kernel

theorem closingParen_second :
    reprint {} .posix (bytesOfString "( (\n\ta\n\tb\n) )\n") = .ok (bytesOfString "( (\n\ta\n\tb\n))\n") := by
  decide +kernel


/-! ## Stated, not proved

  Idempotence on the part of F0 that avoids the two recorded shapes.  A definition, not a
  theorem; checked by execution (`specidem` ops: model and Go code side by side) on every run. -/

def idempotent_partial_statement : Prop :=
  ∀ (o : Opts) (l : Lang) (f f' : File) (b : Bytes), f.wf = true → posMono f → f.stmts.noParenParen = true →
    o.keepPadding = false → o.minify = false → o.singleLine = false →
    printFile o f = .ok b → parse l b = .ok f' → printFile o f' = .ok b

/-- both witnesses are excluded by the side condition, as they must be -/
example : trailingBlankWitness.stmts.noParenParen = false ∧ closingParenWitness.stmts.noParenParen = false := by
  decide +kernel

end ShVerif.Props.C02
