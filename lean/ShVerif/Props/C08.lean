import ShVerif.Model.C08
import ShVerif.Gen.C08
import ShVerif.Expect.C08Scratch
import ShVerif.Proofs.C08
/-
  C08 — Streaming, interactive and reused parsers agree with Parse.

  Part A: obligations about the tables regenerated from /repo/syntax/{parser,printer}.go on every
          run (`decide +kernel`): every field of Parser/Printer is reset, configuration, initialised
          by every entry point, or hand-justified scratch; the two statement entry points run the
          same loop.
  Part B: the statement loop: StmtsSeq yields what Parse collects.
  Part C: the glue of InteractiveSeq over every parser event trace.
-/
namespace ShVerif.C08
open ShVerif.Gen.C08 ShVerif.Expect.C08

/-! ### Part A — reuse: regenerated table obligations -/

/-- The classification lists exactly the fields of the structs, in declaration order: a new or
    removed field breaks this. -/
theorem fields_classified :
    classifiedExactly Gen.C08.parser Expect.C08.parser = true ∧
    classifiedExactly Gen.C08.printer Expect.C08.printer = true := by
  decide +kernel

/-- reset() exists and consists of field assignments only. -/
theorem reset_frames : resetFrameOk Gen.C08.parser = true ∧ resetFrameOk Gen.C08.printer = true := by
  decide +kernel

/-- `reset_covers` for Parser: every field is assigned by reset() (with a right-hand side that is a
    constant, a self pointer, its own `[:0]`, or a function of configuration), or is configuration
    (no write outside option functions and constructors), or is assigned by every entry point right
    after reset(), or is in the hand-justified scratch list; none is a recorded defect. -/
theorem parser_reset_covers : covers Gen.C08.parser Expect.C08.parser = true := by
  decide +kernel

/-- `reset_covers` for Printer (full statement; `wroteSemi` was the recorded finding
    C08-printer-stale-wrotesemi until reset() was given `p.wroteSemi = false`). -/
theorem printer_reset_covers : covers Gen.C08.printer Expect.C08.printer = true := by
  decide +kernel

/-- Every exported method of Parser/Printer starts with `reset()`, or touches the object only
    through other exported methods (no unexported call, no field write). -/
theorem entry_points_reset_first : entriesOk Gen.C08.parser = true ∧ entriesOk Gen.C08.printer = true := by
  decide +kernel

/-- State reachable through pointer fields does not outlive a call: every pointer-typed field of
    Parser/Printer is re-pointed by reset(), initialised by every entry point, or (tabsPrinter)
    assigned the address of a new composite literal before any use in every function touching it. -/
theorem pointer_fields_covered :
    pointerFieldsOk Gen.C08.parser Expect.C08.parser = true ∧
    pointerFieldsOk Gen.C08.printer Expect.C08.printer = true := by
  decide +kernel

/-- `Parser.Incomplete()` reads exactly `openNodes` and `litBs` (writes nothing, calls nothing);
    both are reset by reset() and are listed with their idle invariant, which the harness probes on
    the real parser after every statement and every line (A0/A2 streams, legs inter/incl). -/
theorem incomplete_depends_on_probed_fields :
    incompleteFieldsOk Gen.C08.parser Expect.C08.parser Expect.C08.parserInvariants = true := by
  decide +kernel

/-- Option functions write configuration fields (or fields every entry point re-initialises). -/
theorem options_write_config_only :
    optionsWriteConfigOnly Gen.C08.parser Expect.C08.parser = true ∧
    optionsWriteConfigOnly Gen.C08.printer Expect.C08.printer = true := by
  decide +kernel

/-- What `covers` buys: after reset(), every reset/truncated/configuration field has a value that
    depends only on the configuration — whatever the object went through before. -/
theorem reset_determines (t : StructTable) (e : Expect) (s1 s2 : String → Option String)
    (hcfg : ∀ g, e.classOf g = some .config → s1 g = s2 g)
    (f : String) (hok : fieldOk t e f = true)
    (hc : e.classOf f = some .reset ∨ e.classOf f = some .truncated ∨ e.classOf f = some .config) :
    resetSem t e s1 f = resetSem t e s2 f := by
  unfold fieldOk at hok
  unfold resetSem
  rcases hc with hc | hc | hc
  · rw [hc] at hok
    cases hr : t.resetRhs f with
    | none => simp [hr] at hok
    | some rhs =>
      simp only [hr, Bool.and_eq_true] at hok
      apply rhsValue_congr
      intro g hg
      have hk := hok.2
      unfold rhsKnown at hk
      simp only [hg, beq_iff_eq] at hk
      exact hcfg g hk
  · rw [hc] at hok
    cases hr : t.resetRhs f with
    | none => simp [hr] at hok
    | some rhs =>
      simp only [hr] at hok
      simp [rhsValue, hok]
  · rw [hc] at hok
    cases hr : t.resetRhs f with
    | none => exact hcfg f hc
    | some rhs => simp [hr] at hok

/-- … instantiated: two Parsers with the same options agree on every field that is not entry-
    initialised or scratch, right after reset(). -/
theorem parser_reset_determines (s1 s2 : String → Option String)
    (hcfg : ∀ g, Expect.C08.parser.classOf g = some .config → s1 g = s2 g)
    (f : String) (hf : f ∈ Gen.C08.parser.fieldNames)
    (hc : Expect.C08.parser.classOf f = some .reset ∨ Expect.C08.parser.classOf f = some .truncated ∨
          Expect.C08.parser.classOf f = some .config) :
    resetSem Gen.C08.parser Expect.C08.parser s1 f = resetSem Gen.C08.parser Expect.C08.parser s2 f := by
  have h := parser_reset_covers
  unfold covers at h
  rw [List.all_eq_true] at h
  have := h f hf
  simp only [Bool.and_eq_true] at this
  exact reset_determines _ _ s1 s2 hcfg f this.1 hc

theorem printer_reset_determines (s1 s2 : String → Option String)
    (hcfg : ∀ g, Expect.C08.printer.classOf g = some .config → s1 g = s2 g)
    (f : String) (hf : f ∈ Gen.C08.printer.fieldNames)
    (hc : Expect.C08.printer.classOf f = some .reset ∨ Expect.C08.printer.classOf f = some .truncated ∨
          Expect.C08.printer.classOf f = some .config) :
    resetSem Gen.C08.printer Expect.C08.printer s1 f = resetSem Gen.C08.printer Expect.C08.printer s2 f := by
  have h := printer_reset_covers
  unfold covers at h
  rw [List.all_eq_true] at h
  have := h f hf
  simp only [Bool.and_eq_true] at this
  exact reset_determines _ _ s1 s2 hcfg f this.1 hc

/-! ### Part B — StmtsSeq yields what Parse returns -/

/-- The call-structure fact that keeps the model honest: Parse runs reset, rune, next, stmtList
    (which is `stmts(fn, stops...)` with a collector that always returns true, called without stop
    words), then doHeredocs unless there is an error; StmtsSeq runs reset, rune, next,
    `stmts(yieldStmt)` with a wrapper that stops exactly when the consumer does, then the same
    doHeredocs. -/
theorem stmts_call_structure :
    Gen.C08.flows.map (·.func) = ["Parse", "StmtsSeq", "stmtList"] ∧
    Gen.C08.flows.map (·.found) = [true, true, true] ∧
    Gen.C08.flows.map (·.skeleton) = [parseSkeleton, stmtsSeqSkeleton, stmtListSkeleton] ∧
    Gen.C08.flows.map (·.closures) = [[], stmtsSeqClosures, stmtListClosures] := by
  decide +kernel

/-- `stmtsSeq_eq_parse`: for every sequence of loop iterations, the statements StmtsSeq yields to
    a consumer that never stops are the statements Parse returns, in order, and an error is yielded
    exactly when Parse returns one. -/
theorem stmtsSeq_eq_parse (steps : List Step) (hdocErr : Bool) :
    (stmtsSeq (fun _ => true) steps hdocErr).filterMap (·.stmt) = (parse steps hdocErr).stmts ∧
    (stmtsSeq (fun _ => true) steps hdocErr).any (·.err) = (parse steps hdocErr).err := by
  unfold stmtsSeq parse
  simp only [loop_true_not_stopped, Bool.false_eq_true, if_false]
  constructor
  · split <;> simp [List.filterMap_append]
  · split
    · rename_i h; simp [h]
    · rename_i h
      have hf : ((stmtsLoop (fun _ => true) steps 0).err || hdocErr) = false := by simpa using h
      rw [hf]
      cases ha : (stmtsLoop (fun _ => true) steps 0).yields.any (·.err) with
      | false => rfl
      | true =>
        have := loop_err_of_yield _ steps 0 ha
        simp [this] at hf

/-- For every consumer: what it is given is a prefix of what a never-stopping consumer is given … -/
theorem stmtsSeq_stop_prefix (cont : Nat → Bool) (steps : List Step) (hdocErr : Bool) :
    stmtsSeq cont steps hdocErr <+: stmtsSeq (fun _ => true) steps hdocErr := by
  unfold stmtsSeq
  obtain ⟨hp, he⟩ := loop_prefix cont steps 0
  simp only [loop_true_not_stopped, Bool.false_eq_true, if_false]
  cases hs : (stmtsLoop cont steps 0).stopped with
  | true =>
    simp only [if_true]
    split
    · exact List.IsPrefix.trans hp (List.prefix_append _ _)
    · exact hp
  | false =>
    rw [he hs]
    simp only [Bool.false_eq_true, if_false]
    exact List.prefix_refl _

/-- … and nothing is yielded after the call at which it returned false. -/
theorem stmtsSeq_no_yield_after_stop (cont : Nat → Bool) (steps : List Step) (hdocErr : Bool)
    (j : Nat) (hc : cont j = false) : (stmtsSeq cont steps hdocErr).length ≤ j + 1 := by
  unfold stmtsSeq
  obtain ⟨h1, h2⟩ := loop_stop_bound cont steps 0 j (by simpa using hc)
  dsimp only
  split
  · rename_i hs; exact h1 hs
  · rename_i hs
    have hs' : (stmtsLoop cont steps 0).stopped = false := by simpa using hs
    have := h2 hs'
    split
    · simp only [List.length_append, List.length_cons, List.length_nil]; omega
    · omega

/-! ### Part C — InteractiveSeq = wrappedReader.Read + the loop, over every parser event trace -/

/-- A consumer that never stops is never called after returning false (no Go runtime panic). -/
theorem no_panic_without_stop (tr : List Ev) : (run none tr).panic = false :=
  (runFrom_live {} live_init tr).2.2.1

/-- Nothing is lost, duplicated or reordered: for every trace of a program that parses, what a
    client runs (the statements of the callbacks that are neither incomplete nor erroring), followed
    by what InteractiveSeq still holds back, is the statement list. -/
theorem interactive_ran_pending (tr : List Ev) (hn : NoErr tr) (h0 : A0 tr) :
    ran (run none tr) ++ (run none tr).acc.filterMap id = allStmts tr := by
  have := ran_pending tr {} live_init hn h0
  simpa [run, accIds, ran, ranOf] using this

/-- `interactive_batches`: if the last statement was followed by a newline token (`EndsNewl`: the
    program's last line is terminated), the callbacks made before EOF already deliver exactly the
    statement list. -/
theorem interactive_batches (tr : List Ev) (hn : NoErr tr) (h0 : A0 tr) (he : EndsNewl tr) :
    ran (run none tr) = allStmts tr := by
  have h := interactive_ran_pending tr hn h0
  have hacc : (run none tr).acc = [] :=
    acc_empty_of_last tr {} live_init hn none (fun _ => rfl) he
  rw [hacc] at h
  simpa using h

/-- `interactive_all` (full statement): with the final hand-over at EOF, for every trace of a
    program that parses — whether or not its last line is terminated — the concatenated
    non-incomplete callbacks of InteractiveSeq are exactly the statement list.  (Without the final
    hand-over this was finding C08-interactive-unterminated-last-line.) -/
theorem interactive_all (tr : List Ev) (hn : NoErr tr) (h0 : A0 tr) :
    ran (runAll none tr false 0 0) = allStmts tr := by
  unfold runAll run
  rw [finish_live _ (runFrom_live {} live_init tr)]
  have := ran_pending tr {} live_init hn h0
  simpa [run, incomplete_zero, accIds, ran, ranOf] using this

/-- the real trace of `echo foo` (no final newline): nothing is handed over before EOF, the
    statement is handed over by the final flush -/
def traceEchoFoo : List Ev :=
  [.read false 1 0 0 false false, .read false 1 1 3 false true, .stmt (some 0) false false 1 0 0]

example : ran (run none traceEchoFoo) = [] ∧ ran (runAll none traceEchoFoo false 0 0) = [0] := by decide

/-- Before EOF (i.e. without the final hand-over) the statement list has been delivered completely
    if and only if the last statement was followed by a newline token. -/
theorem interactive_all_iff (tr : List Ev) (hn : NoErr tr) (h0 : A0 tr) :
    ran (run none tr) = allStmts tr ↔ EndsNewl tr := by
  constructor
  · intro h
    unfold EndsNewl
    intro hl
    have hne := acc_nonempty_of_last tr {} live_init hn none (fun h => by simp at h) hl
    have hp := interactive_ran_pending tr hn h0
    rw [h] at hp
    have hnil : accIds (runFrom none {} tr) = [] := by
      have : allStmts tr ++ (run none tr).acc.filterMap id = allStmts tr ++ [] := by simpa using hp
      exact List.append_cancel_left this
    have hall := acc_all_some tr {} live_init hn (by simp)
    exact hne ((accIds_eq_nil_iff _ hall).1 hnil)
  · exact interactive_batches tr hn h0

/-- Nothing is yielded twice: if the parser's statements are distinct, so are the statements run. -/
theorem no_double_yield (tr : List Ev) (hn : NoErr tr) (h0 : A0 tr) (hd : (allStmts tr).Nodup) :
    (ran (run none tr)).Nodup := by
  have h := interactive_ran_pending tr hn h0
  rw [← h] at hd
  exact (List.nodup_append.1 hd).1

/-- … also with the final hand-over. -/
theorem no_double_yield_all (tr : List Ev) (hn : NoErr tr) (h0 : A0 tr) (hd : (allStmts tr).Nodup) :
    (ran (runAll none tr false 0 0)).Nodup := by
  rw [interactive_all tr hn h0]; exact hd

/-- `Incomplete` is reported only at blocked reads inside an unfinished statement — for every
    consumer, stopping or not: under A0 (no open node at a statement event) and A2 (an open node or
    literal at a blocked read means a statement is in progress), every callback during which
    `Parser.Incomplete()` is true was made by wrappedReader.Read while a statement was in progress. -/
theorem incomplete_only_unfinished (stopAt : Option Nat) (tr : List Ev) (h0 : A0 tr) (h2 : A2 tr) :
    ∀ cb ∈ (run stopAt tr).cbs, cb.inc = true → cb.fromRead = true ∧ cb.inStmt = true :=
  runFrom_incOk stopAt tr {} (by intro cb h; simp at h) h0 h2

/-- Batches are line-aligned: whenever the parser blocks after a newline between statements, and
    the trace so far satisfies A1, every statement so far has been handed over in a runnable
    callback and nothing is held back. -/
theorem idle_means_flushed (pre post : List Ev) (line o l : Nat) (err : Bool)
    (h1 : A1 (pre ++ .read true line o l err false :: post)) (hn : NoErr pre) (h0 : A0 pre) :
    (run none pre).acc = [] ∧ ran (run none pre) = allStmts pre := by
  unfold A1 at h1
  rw [checkA1_append, Bool.and_eq_true] at h1
  have hl : lastTokNewl none pre ≠ some false := by
    have := h1.2
    simp only [checkA1, Bool.and_eq_true, bne_iff_ne, ne_eq] at this
    exact this.1
  have hacc : (run none pre).acc = [] := acc_empty_of_last pre {} live_init hn none (fun _ => rfl) hl
  refine ⟨hacc, ?_⟩
  have h := interactive_ran_pending pre hn h0
  rw [hacc] at h
  simpa using h

/-- Stopping (`no_yield_after_stop`): for every trace in which the parser does not call Read again
    once wrappedReader.Read has returned EOF to a stopping consumer (A3: read errors are sticky in
    `Parser.fill`), the consumer is never called again after it returned false — at whatever
    callback it stops.  (This was finding C08-interactive-yield-after-stop before `w.stopped`.) -/
theorem no_yield_after_stop (stopAt : Option Nat) (tr : List Ev) (err : Bool) (o l : Nat)
    (h3 : noReadAfterStop stopAt {} tr = true) : (runAll stopAt tr err o l).panic = false :=
  finish_stopInv stopAt _ err o l (runFrom_stopInv stopAt tr {} ⟨rfl, fun h => by simp at h⟩ h3)

/-- Without A3 a Go runtime panic still needs a stop at a callback made by wrappedReader.Read. -/
theorem no_yield_after_stop_partial (k : Nat) (tr : List Ev) (hp : (run (some k) tr).panic = true) :
    ∃ cb, (run (some k) tr).cbs[k]? = some cb ∧ cb.fromRead = true := by
  have h := runFrom_stopOk k tr {} (stopOk_init k)
  have := h.1 hp
  exact h.2.1 this.1 this.2

/-- the real trace of `echo "foo` NEWLINE `bar"` when the consumer stops at its first callback
    (Incomplete): Read returns EOF, the parser reports the unclosed quote, the loop breaks -/
def traceStopIncomplete : List Ev :=
  [.read false 1 0 0 false false, .read true 2 2 4 false true, .stmt none true false 2 0 0]

example : noReadAfterStop (some 0) {} traceStopIncomplete = true ∧
    (runAll (some 0) traceStopIncomplete true 0 0).panic = false ∧
    (runAll (some 0) traceStopIncomplete true 0 0).cbs.length = 1 := by
  decide

/-! ### non-vacuity: the hypotheses hold on real traces -/

/-- the real trace of `cat <<EOF` / `foo` / `EOF` / `echo bar` fed line by line -/
def traceHeredoc : List Ev :=
  [.read false 1 0 0 false false, .read true 2 1 0 false true, .read true 3 1 4 false true,
   .stmt (some 0) false true 3 0 0, .read true 4 0 0 false false, .stmt (some 1) false true 4 0 0,
   .read true 5 0 0 false false]

example : NoErr traceHeredoc ∧ A0 traceHeredoc ∧ A1 traceHeredoc ∧ A2 traceHeredoc ∧ A2conv traceHeredoc ∧
    EndsNewl traceHeredoc := by decide

example : ran (run none traceHeredoc) = [0, 1] ∧ (run none traceHeredoc).cbs.length = 4 := by decide

/-- `echo a; echo b &&` / `echo c`: the first statement is held back while the second is unfinished -/
def traceHeldBack : List Ev :=
  [.read false 1 0 0 false false, .stmt (some 0) false false 1 0 0, .read true 2 1 0 false true,
   .stmt (some 1) false true 2 0 0, .read true 3 0 0 false false]

example : NoErr traceHeldBack ∧ A0 traceHeldBack ∧ A1 traceHeldBack ∧ A2 traceHeldBack ∧ EndsNewl traceHeldBack := by
  decide

example : (run none traceHeldBack).cbs.map (fun cb => (cb.stmts, cb.inc)) =
    [([some 0], true), ([some 0, some 1], false)] := by decide

example : ¬ EndsNewl traceEchoFoo := by decide

example : (parse [⟨some 0, false⟩, ⟨some 1, true⟩] false).stmts = [0, 1] ∧
    stmtsSeq (fun k => k != 0) [⟨some 0, false⟩, ⟨some 1, true⟩] false = [⟨some 0, false⟩] := by decide

end ShVerif.C08
