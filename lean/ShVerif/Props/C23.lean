import ShVerif.Model.C23
import ShVerif.Proofs.C23
import ShVerif.Proofs.C23Spec
/-
  C23 — `read` splits lines like bash.  Property theorems (helper lemmas: Proofs/C23.lean).
-/
namespace ShVerif.C23

/-- The `n` the builtin passes to ReadFields: the number of names, or -1 for `read -a`. -/
def nOf : Option Nat → Int
  | some k => (k : Int)
  | none => -1

/-- What the builtin assigns from the fields ReadFields returned. -/
def valuesOf (names : Option Nat) (fs : List (List Char)) : List (List Char) :=
  match names with
  | some k => assign k fs
  | none => fs

/-- Line reading: for every input and both settings of `-r`, `readLine` never hits the
    `line[:len(line)-1]` panic and returns exactly the line, the unread input and the
    end-of-input flag of the specification (backslash-newline removed, other backslash pairs kept,
    the line ends at the first unescaped newline). -/
theorem readline_spec (raw : Bool) (input : Bytes) :
    readLine raw input = .ok (specReadLine raw input) := by
  unfold readLine
  cases raw
  · rw [readLineLoop_cooked]; simp
  · rw [readLineLoop_raw]; simp

/-- Bare `read`: REPLY is the whole line with each `\c` replaced by `c` (nothing trimmed), or the
    line itself with `-r`. -/
theorem bare_reply (raw : Bool) (line : Bytes) : bareReply raw line = specBareReply raw line :=
  bare_reply' raw line

/-- Index safety (feeds C28): for every IFS, line and `-r` setting, with the `n` the builtin can
    pass (`n ≥ 1` names, or `-1`), none of `fpos[len(fpos)-1]`, `runes[lo]`, `runes[hi-1]`,
    `fpos[n-1]`, `fpos[:n]`, `runes[p.start:p.end]` is out of range. -/
theorem readfields_safe (ifs line : List Char) (n : Int) (raw : Bool) (hn : 1 ≤ n ∨ n = -1) :
    ∃ fs, readFields ifs line n raw = .ok fs := by
  unfold readFields
  obtain ⟨st, h1, h2⟩ := loop_inv ifs raw line St.init init_inv
  rw [h1]
  exact finish_safe ifs n st h2 hn

/-- `expand.ReadFields(cfg, "x", 0, raw)` does panic (`fpos[n-1]` with n = 0); the builtin never
    passes 0. -/
theorem readfields_n0_panics : ∃ m, readFields [' '] ['x'] 0 false = .error m := ⟨_, rfl⟩

/-- The property at full strength: for every IFS, line, number of names (≥ 1, or `read -a`) and
    `-r` setting, ReadFields succeeds and the assigned values are those of POSIX/bash `read`. -/
def readfields_spec_statement : Prop :=
  ∀ (ifs line : List Char) (names : Option Nat) (raw : Bool), (∀ k, names = some k → 1 ≤ k) →
    ∃ fs, readFields ifs line (nOf names) raw = .ok fs ∧
      valuesOf names fs = specRead ifs line names raw

/-- … which the code does not meet: `IFS=: read a b c <<<x::y` (bash: a=x b= c=y). -/
theorem readfields_spec_counterexample : ¬ readfields_spec_statement := by
  intro h
  obtain ⟨fs, h1, h2⟩ := h [':'] ['x', ':', ':', 'y'] (some 3) false (by intro k hk; cases hk; decide)
  have e : readFields [':'] ['x', ':', ':', 'y'] (nOf (some 3)) false = .ok [['x'], ['y']] := by decide
  rw [e] at h1
  cases h1
  revert h2
  decide

/-- The splitting theorem on the region the code gets right: for every IFS, every number of names
    (≥ 1, or `read -a`), both `-r` settings and every line that is `Clean` — every non-white-space
    IFS delimiter stands strictly between two field characters (modulo IFS white space), no
    backslash in IFS unless `-r`, no unpaired final backslash — ReadFields succeeds and the values
    assigned are exactly those of the POSIX/bash `read` algorithm.  IFS made of white space only
    (or unset, or empty) is the special case without any delimiter condition. -/
theorem readfields_spec_partial (ifs line : List Char) (names : Option Nat) (raw : Bool)
    (hk : ∀ k, names = some k → 1 ≤ k) (hc : Clean ifs raw line) :
    ∃ fs, readFields ifs line (nOf names) raw = .ok fs ∧
      valuesOf names fs = specRead ifs line names raw := by
  have h := readfields_spec_partial' ifs line names raw hk hc
  cases names <;> exact h

/-- IFS made of white space only (in particular unset or empty IFS): no delimiter condition is
    needed. -/
theorem readfields_spec_ws (ifs line : List Char) (names : Option Nat) (raw : Bool)
    (hk : ∀ k, names = some k → 1 ≤ k)
    (hws : ∀ c ∈ ifs, c = ' ' ∨ c = '\t' ∨ c = '\n')
    (hl : raw = true ∨ loneBackslash line = false) :
    ∃ fs, readFields ifs line (nOf names) raw = .ok fs ∧
      valuesOf names fs = specRead ifs line names raw := by
  apply readfields_spec_partial ifs line names raw hk
  refine ⟨?_, hl, isolated_of_ws ifs hws _ .start (by simp)⟩
  right
  cases h : ifs.contains '\\' with
  | false => rfl
  | true =>
    have := hws '\\' (by simpa using h)
    rcases this with h | h | h <;> exact absurd h (by decide)


/-- Lines without a backslash: neither the `-r` flag nor a backslash in IFS matters; the only
    hypothesis left is the delimiter condition (findings C23-adjacent-delims, -leading-delim,
    -trailing-delim-single, -trailing-delim-rest, -array-empty-fields). -/
theorem readfields_spec_no_backslash (ifs line : List Char) (names : Option Nat) (raw : Bool)
    (hk : ∀ k, names = some k → 1 ≤ k)
    (hb : line.contains '\\' = false)
    (hi : isolated ifs .start (unescape true line) = true) :
    ∃ fs, readFields ifs line (nOf names) raw = .ok fs ∧
      valuesOf names fs = specRead ifs line names raw := by
  have h := readfields_spec_partial ifs line names true hk ⟨Or.inl rfl, Or.inl rfl, hi⟩
  cases raw with
  | true => exact h
  | false =>
    rw [readFields_no_backslash ifs line _ hb, specRead_no_backslash ifs line names hb]
    exact h


/-- The builtin as a whole on a clean first line: `read` through readLine + ReadFields (+ the
    REPLY loop) assigns what the specification of the builtin says, consumes the same input and
    returns the same status. -/
theorem read_builtin_spec_partial (ifs : Option Bytes) (raw : Bool) (mode : Mode) (input : Bytes)
    (hm : ∀ k, mode = .names k → 1 ≤ k)
    (hc : mode ≠ .bare → Clean (ifsOf ifs) raw (decodeRunes (specReadLine raw input).line)) :
    readBuiltin ifs raw mode input = .ok (specBuiltin ifs raw mode input) := by
  unfold readBuiltin specBuiltin
  rw [readline_spec]
  cases mode with
  | bare => simp [bare_reply]
  | array =>
    obtain ⟨fs, h1, h2⟩ := readfields_spec_partial (ifsOf ifs)
      (decodeRunes (specReadLine raw input).line) none raw (by intro k hk; cases hk) (hc (by simp))
    simp only [nOf] at h1
    simp only [valuesOf] at h2
    simp [h1, h2]
  | names k =>
    obtain ⟨fs, h1, h2⟩ := readfields_spec_partial (ifsOf ifs)
      (decodeRunes (specReadLine raw input).line) (some k) raw
      (by intro k' hk; cases hk; exact hm k rfl) (hc (by simp))
    simp only [nOf] at h1
    simp only [valuesOf] at h2
    simp [h1, h2]

/-! Further counter-examples (each replayed against bash by the harness, corpus/C23-known.txt). -/

/-- `IFS=: read a b <<<:x` — model a=x b=, spec a= b=x. -/
theorem counterexample_leading_delim :
    readFields [':'] [':', 'x'] 2 false = .ok [['x']] ∧
    specRead [':'] [':', 'x'] (some 2) false = [[], ['x']] := by decide
/-- `IFS=: read a <<<x:` — model a=x:, spec a=x. -/
theorem counterexample_trailing_delim_single :
    readFields [':'] ['x', ':'] 1 false = .ok [['x', ':']] ∧
    specRead [':'] ['x', ':'] (some 1) false = [['x']] := by decide
/-- `IFS=: read a b <<<x:y:z:` — model b=y:z, spec b=y:z: . -/
theorem counterexample_trailing_delim_rest :
    readFields [':'] ['x', ':', 'y', ':', 'z', ':'] 2 false = .ok [['x'], ['y', ':', 'z']] ∧
    specRead [':'] ['x', ':', 'y', ':', 'z', ':'] (some 2) false = [['x'], ['y', ':', 'z', ':']] := by
  decide
/-- `IFS=: read -a arr <<<x::y` — model 2 fields, spec 3. -/
theorem counterexample_array :
    readFields [':'] ['x', ':', ':', 'y'] (-1) false = .ok [['x'], ['y']] ∧
    specRead [':'] ['x', ':', ':', 'y'] none false = [['x'], [], ['y']] := by decide
/-- `IFS='\' read a b <<<'a\xy'` — model a=a b=y, spec a=axy b= . -/
theorem counterexample_backslash_ifs :
    readFields ['\\'] ['a', '\\', 'x', 'y'] 2 false = .ok [['a'], ['y']] ∧
    specRead ['\\'] ['a', '\\', 'x', 'y'] (some 2) false = [['a', 'x', 'y'], []] := by decide
/-- Invalid UTF-8 does not survive the `[]rune` round trip of ReadFields (`read a` on a\xffb). -/
theorem counterexample_invalid_utf8 :
    encodeRunes (decodeRunes [0x61, 0xff, 0x62]) = [0x61, 0xef, 0xbf, 0xbd, 0x62] := by decide

/-! Non-vacuity of `Clean`. -/
example : Clean [':', ' '] false [' ', 'x', ' ', ':', ' ', 'y', '\\', ':', 'z', ' '] := by decide
example : ¬ Clean [':'] false ['x', ':', ':', 'y'] := by decide
example : ¬ Clean [':'] false ['x', ':'] := by decide

end ShVerif.C23
