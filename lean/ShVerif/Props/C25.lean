import ShVerif.Model.C25
import ShVerif.Proofs.C25
import ShVerif.Proofs.C25b
/-
  C25 — shell.Expand and shell.Fields behave like bash.  Property theorems about the model
  (ShVerif/Model/C25.lean: the two parsers of the fragment and the staged expansion of
  expand.Document / expand.Fields over expand.FuncEnviron) against the one-pass specifications
  `hdocSem` / `argsSem`.  The model is tied to shell/expand.go on every run (streams `expand`,
  `fields`); the specifications are run against the implementation (`specexpand`, `specfields`) and
  the implementation against bash (search leg).
-/
namespace ShVerif.C25
open ShVerif

/-! ## FuncEnviron: empty means unset -/

/-- `FuncEnviron(f).Get(name)` is unset exactly when `f name` is the empty string. -/
theorem func_environ_unset (env : Env) (n : Bytes) : envGet env n = none ↔ envF env n = [] := by
  unfold envGet
  cases h : envF env n with
  | nil => simp
  | cons b rest => simp

/-- A value that is set is never empty, so "unset" and "unset or null" cannot be told apart … -/
theorem func_environ_set_nonempty (env : Env) (n v : Bytes) (h : envGet env n = some v) : v ≠ [] := by
  unfold envGet at h
  cases hv : envF env n with
  | nil => simp [hv] at h
  | cons b rest => simp [hv] at h; rw [← h]; simp

/-- … hence `${x:-w}` = `${x-w}` and `${x:+w}` = `${x+w}` for every environment function. -/
theorem colon_forms_agree (env : Env) (n : Bytes) (w : List WPart) :
    expandOp env n .colMinus w = expandOp env n .minus w ∧
    expandOp env n .colPlus w = expandOp env n .plus w := by
  cases h : envGet env n with
  | none => simp [expandOp, h]
  | some v =>
    have hv := func_environ_set_nonempty env n v h
    have : v.isEmpty = false := by cases v <;> simp_all
    simp [expandOp, h, this]

/-- Both default forms give the default word when the function returns "". -/
theorem default_when_empty (env : Env) (n : Bytes) (w : List WPart) (h : envF env n = []) :
    expandOp env n .colMinus w = expandWParts env w ∧ expandOp env n .minus w = expandWParts env w := by
  have := (func_environ_unset env n).mpr h
  simp [expandOp, this]

/-! ## shell.Expand = here-document semantics -/

theorem shellExpand_eq_finish (s : Bytes) (env : Env) (hrisk : contRisk false 0 s = false) :
    shellExpand s env =
      finishDoc env (parseDoc ((joinLines false s).length + 1) (joinLines false s) [] []) := by
  unfold shellExpand finishDoc
  simp only [hrisk, Bool.false_eq_true, if_false]
  cases parseDoc ((joinLines false s).length + 1) (joinLines false s) [] [] with
  | err => rfl
  | outside => rfl
  | ok parts => cases expandPartsQ env false parts <;> rfl

/-- On the fragment, shell.Expand gives what bash gives for the string as here-document text —
    provided the lexer's line continuation agrees with bash's on the string (no run of three or
    more backslashes right before a newline; see the counter-example) and no continuation sits
    inside a `${` / `$((` / `))` token (`contRisk`, finding C25-continuation-inside-dollar-token). -/
theorem expand_is_heredoc_partial (s : Bytes) (env : Env)
    (hjoin : joinLines false s = bashJoin s) (hrisk : contRisk false 0 s = false)
    (hin : hdocSem s env ≠ .outside ∨ ∃ v, shellExpand s env = .ok v) :
    shellExpand s env = hdocSem s env := by
  rw [shellExpand_eq_finish s env hrisk] at hin ⊢
  unfold hdocSem at hin ⊢
  simp only at hin ⊢
  rw [hjoin] at hin ⊢
  have hne : hdocText env ((bashJoin s).length + 1) (bashJoin s) ≠ .outside := by
    rcases hin with h | ⟨v, hv⟩
    · exact h
    · intro hout
      exact parseDoc_not_ok env _ _ [] [] (Or.inl hout) v hv
  have := parseDoc_hdocText env ((bashJoin s).length + 1) (bashJoin s) [] [] [] (by simp [cleanLit])
    (by simp [expandPartsQ]) hne
  rw [this]
  cases hdocText env ((bashJoin s).length + 1) (bashJoin s) <;> simp [Res.map, unescQ]

/-- Results coincide in both directions, with only the two finding regions as side conditions:
    shell.Expand returns `v` iff the one-pass here-document semantics does. -/
theorem expand_ok_iff (s : Bytes) (env : Env) (v : Bytes)
    (hjoin : joinLines false s = bashJoin s) (hrisk : contRisk false 0 s = false) :
    shellExpand s env = .ok v ↔ hdocSem s env = .ok v := by
  constructor
  · intro h
    rw [← expand_is_heredoc_partial s env hjoin hrisk (Or.inr ⟨v, h⟩)]; exact h
  · intro h
    rw [expand_is_heredoc_partial s env hjoin hrisk (Or.inl (by rw [h]; intro h'; cases h'))]; exact h

/-- The full statement (no side condition on backslashes): FALSE today. -/
def expand_is_heredoc_statement : Prop :=
  ∀ (s : Bytes) (env : Env), hdocSem s env ≠ .outside → shellExpand s env = hdocSem s env

def bs3 : Bytes := [bBS, bBS, bBS, bNL, 120]   -- \\\<newline>x

/-- Three backslashes, a newline, `x`: bash reads `\x`; the model (like the Go lexer, which skips the
    continuation test after any backslash rune) reads `\`, `\`, newline, `x`. -/
theorem expand_is_heredoc_counterexample :
    hdocSem bs3 [] = .ok [bBS, 120] ∧ shellExpand bs3 [] = .ok [bBS, bBS, bNL, 120] := by
  constructor <;> decide +kernel

def dollarCont : Bytes := [bDollar, bBS, bNL, bLB, 120, bRB]   -- $\<newline>{x}

/-- `$`, backslash-newline, `{x}`: bash reads `${x}`; the Go lexer does not (the model answers
    `outside`, the harness witness is in corpus/C25-known.txt). -/
theorem dollar_continuation_outside :
    hdocSem dollarCont [([120], [118])] = .ok [118] ∧ shellExpand dollarCont [([120], [118])] = .outside := by
  constructor <;> decide +kernel

theorem expand_is_heredoc_statement_false : ¬ expand_is_heredoc_statement := by
  intro h
  have h1 := h bs3 [] (by rw [expand_is_heredoc_counterexample.1]; intro h'; cases h')
  rw [expand_is_heredoc_counterexample.1, expand_is_heredoc_counterexample.2] at h1
  revert h1
  decide

/-! ## shell.Fields = arguments -/

theorem wordsLoop_eq_wordsArgs (env : Env) : ∀ (ws : List (List Seg)), wordsLoop env ws = wordsArgs env ws := by
  intro ws
  induction ws with
  | nil => rfl
  | cons w rest ih =>
    simp only [wordsLoop, wordsArgs]
    rw [wordFields_eq_wordArgs env w, ih]

/-- On the fragment, shell.Fields gives the words bash produces for the string as arguments: the
    field machine of `wordFields` (tilde prefix, splitAdd, flush, allowEmpty, the empty part of `""`)
    equals "atoms split at separators" — for every string and environment, no side condition.
    (Before the upstream fix of C22-empty-dquotes this needed "no empty \"\""; the model was
    re-synchronised with the repaired wordFields.) -/
theorem fields_is_args (s : Bytes) (env : Env) : shellFields s env = argsSem s env := by
  unfold shellFields argsSem
  split
  · cases hp : parseWords (s.length + 1) s [] with
    | err => rfl
    | outside => rfl
    | ok ws =>
      simp only
      rw [wordsLoop_eq_wordsArgs env ws]
  · rfl

def emptyDqInput : Bytes := "\"\"$sp".toUTF8.toList
def emptyDqEnv : Env := [("sp".toUTF8.toList, " a".toUTF8.toList)]

/-- `""$sp` with sp=" a": an empty field and `a`, as in bash. -/
theorem fields_empty_dquotes : shellFields emptyDqInput emptyDqEnv = .ok [[], [97]] := by decide +kernel

/-! ## errors -/

/-- In the fragment an error of shell.Expand is a syntax error: it does not depend on the environment. -/
theorem expand_error_env_independent (s : Bytes) (env env' : Env) :
    shellExpand s env = .err → shellExpand s env' = .err := by
  by_cases hrisk : contRisk false 0 s = true
  · intro h; simp [shellExpand, hrisk] at h
  · have hr : contRisk false 0 s = false := by simpa using hrisk
    rw [shellExpand_eq_finish s env hr, shellExpand_eq_finish s env' hr]
    cases parseDoc ((joinLines false s).length + 1) (joinLines false s) [] [] with
    | err => intro _; rfl
    | outside => intro h; cases h
    | ok parts =>
      intro h
      simp only [finishDoc] at h
      cases hx : expandPartsQ env false parts <;> simp [hx] at h

/-- The full statement: shell.Expand reports an error exactly when the specification does.  Not
    proved and not refuted: beyond the side conditions below it can only differ where the
    specification answers `outside` before reaching the syntax error. -/
def error_iff_syntax_statement : Prop :=
  ∀ (s : Bytes) (env : Env), hdocSem s env ≠ .outside → (shellExpand s env = .err ↔ hdocSem s env = .err)

/-- shell.Expand reports an error exactly when the specification does (same side conditions as
    `expand_is_heredoc_partial`). -/
theorem error_iff_syntax_partial (s : Bytes) (env : Env)
    (hjoin : joinLines false s = bashJoin s) (hrisk : contRisk false 0 s = false)
    (hin : hdocSem s env ≠ .outside) :
    shellExpand s env = .err ↔ hdocSem s env = .err := by
  rw [expand_is_heredoc_partial s env hjoin hrisk (Or.inl hin)]

/-- One direction needs no fragment condition: a syntax error of the specification is an error of
    shell.Expand. -/
theorem error_of_spec_error (s : Bytes) (env : Env)
    (hjoin : joinLines false s = bashJoin s) (hrisk : contRisk false 0 s = false)
    (h : hdocSem s env = .err) : shellExpand s env = .err := by
  rw [expand_is_heredoc_partial s env hjoin hrisk (Or.inl (by rw [h]; intro h'; cases h'))]; exact h

/-- The same for shell.Fields. -/
theorem fields_error_env_independent (s : Bytes) (env env' : Env)
    (hifs : envF env "IFS".toUTF8.toList = []) (hifs' : envF env' "IFS".toUTF8.toList = []) :
    shellFields s env = .err → shellFields s env' = .err := by
  unfold shellFields
  simp only [hifs, hifs', List.isEmpty_nil, if_true]
  cases parseWords (s.length + 1) s [] with
  | err => intro _; rfl
  | outside => intro h; cases h
  | ok ws =>
    intro h
    cases hx : wordsLoop env ws <;> simp [hx] at h

/-! ## non-vacuity -/

def envDemo : Env := [("x".toUTF8.toList, "val".toUTF8.toList), ("sp".toUTF8.toList, "a b".toUTF8.toList), ("e".toUTF8.toList, [])]

def okBytes (r : Res Bytes) (v : String) : Bool :=
  match r with
  | .ok x => x == v.toUTF8.toList
  | _ => false

def okFields (r : Res (List Bytes)) (v : List String) : Bool :=
  match r with
  | .ok x => x == v.map (·.toUTF8.toList)
  | _ => false

example : okBytes (shellExpand "a $x ${x} ${u:-d} ${e:-d} ${e-d} ${x:+y} $((1+2*3)) \\$x '$x'".toUTF8.toList envDemo)
    "a val val d d d y 7 $x 'val'" = true := by decide +kernel
example : okBytes (hdocSem "a $x ${u:-d} $((1+2*3)) \\$x \\a".toUTF8.toList envDemo) "a val d 7 $x \\a" = true := by
  decide +kernel
example : okFields (shellFields "$sp \"$sp\" '$x' a\\ b ${u:-c d}".toUTF8.toList envDemo)
    ["a", "b", "a b", "$x", "a b", "c", "d"] = true := by decide +kernel
example : okFields (argsSem "$sp \"$sp\" '$x' a\\ b ${u:-c d} \"\" $e".toUTF8.toList envDemo)
    ["a", "b", "a b", "$x", "a b", "c", "d", ""] = true := by decide +kernel
example : (match shellExpand "${x".toUTF8.toList envDemo with | .err => true | _ => false) = true := by decide +kernel
example : (match shellFields "'abc".toUTF8.toList envDemo with | .err => true | _ => false) = true := by decide +kernel

end ShVerif.C25
