import ShVerif.Model.C34
import ShVerif.Proofs.C34
/-
  C34 — Environment lists behave like an ordered map.  Property theorems (statements are fixed;
  helper lemmas live in ShVerif/Proofs/C34.lean).
-/
namespace ShVerif.C34

/-- The result `Get` must give according to the left-to-right map. -/
def ofSpec : Option Bytes → GetRes
  | some v => .val v
  | none => .unset

/-- Strictly increasing sort keys (`name=`): the order `Each` yields in. -/
def KeysIncreasing : List (Bytes × Bytes) → Prop
  | [] => True
  | [_] => True
  | a :: b :: rest =>
    cmpBytes (a.1 ++ [eqByte]) (b.1 ++ [eqByte]) = .lt ∧ KeysIncreasing (b :: rest)

/-- `listEnviron_` never hits the `slices.Delete(list, i-1, i)` panic. -/
theorem listEnviron_total (pairs : List Bytes) : ∃ l, listEnviron pairs = some l := by
  obtain ⟨l, h, _⟩ := listEnviron_inv pairs
  exact ⟨l, h⟩

/-- Get returns the last value given for a name, and nothing for names never given — for every
    pair list and **every** name (including names containing `=`, empty names). -/
theorem get_spec (pairs : List Bytes) (name : Bytes) (l : List Bytes)
    (h : listEnviron pairs = some l) : get l name = ofSpec (specGet pairs name) := by
  obtain ⟨l', h1, hv, hs, hg⟩ := listEnviron_inv pairs
  rw [h] at h1
  cases h1
  obtain ⟨g1, g2⟩ := get_inv l name hv hs
  rw [← hg name]
  cases hsp : specGet l name with
  | none => exact g2 hsp
  | some v => exact g1 v hsp

/-- Get never panics. -/
theorem get_no_panic (pairs : List Bytes) (name : Bytes) (l : List Bytes)
    (h : listEnviron pairs = some l) : get l name ≠ .panic := by
  rw [get_spec pairs name l h]; cases specGet pairs name <;> simp [ofSpec]

/-- Each never panics, yields every surviving name exactly once (keys strictly increasing, hence
    pairwise distinct) with the last value given, and nothing else. -/
theorem each_spec (pairs : List Bytes) (l : List Bytes) (h : listEnviron pairs = some l) :
    ∃ nvs, each l = some nvs ∧ KeysIncreasing nvs ∧
      ∀ n v, (n, v) ∈ nvs ↔ specGet pairs n = some v := by
  obtain ⟨l', h1, hv, hs, hg⟩ := listEnviron_inv pairs
  rw [h] at h1
  cases h1
  obtain ⟨nvs, e1, e2, e3⟩ := each_inv l hv hs
  refine ⟨nvs, e1, ?_, ?_⟩
  · clear e1 e3
    induction nvs with
    | nil => trivial
    | cons a rest ih =>
      rw [List.pairwise_cons] at e2
      cases rest with
      | nil => trivial
      | cons b rest => exact ⟨e2.1 b (List.mem_cons_self ..), ih e2.2⟩
  · intro n v
    rw [e3, ← hg n, specGet_eq_some_iff l n v hv hs]

/-- Invalid pairs (no `=`, or empty name) are ignored: they never influence any lookup. -/
theorem invalid_ignored (pairs : List Bytes) (name : Bytes) :
    specGet pairs name = specGet (pairs.filter fun p => (validPair p).isSome) name := by
  rw [specGet_eq, specGet_eq]
  exact foldl_step_filter_valid pairs name none

/-- FuncEnviron treats an empty value as unset. -/
theorem func_environ (f : Bytes → Bytes) (name : Bytes) :
    (funcGet f name = none ↔ f name = []) ∧ (∀ v, funcGet f name = some v → v = f name ∧ v ≠ []) := by
  unfold funcGet
  by_cases h : f name = []
  · simp [h]
  · simp only [h, if_false]
    refine ⟨by simp, ?_⟩
    intro v hv
    cases hv
    exact ⟨rfl, h⟩

/-! Non-vacuity: a concrete list with duplicates, an invalid pair and prefix-related names. -/
example : listEnviron [[65,61,49], [65,49,61,50], [122], [65,61,51]]
    = some [[65,49,61,50], [65,61,51]] := by decide
example : get [[65,49,61,50], [65,61,51]] [65] = .val [51] := by decide
example : get [[65,61,66]] [65,61,66] = .unset := by decide

end ShVerif.C34
