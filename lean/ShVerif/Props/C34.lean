import ShVerif.Model.C34
import ShVerif.Proofs.C34
import ShVerif.Proofs.C34F
/-
  C34 — Environment lists behave like an ordered map.  Property theorems (statements are fixed;
  helper lemmas live in ShVerif/Proofs/C34.lean).
-/
namespace ShVerif.C34

/-- The result `Get` must give according to the left-to-right map. -/
def ofSpec : Option Bytes → GetRes
  | some v => .val v
  | none => .unset

/-- Strictly increasing sort keys (`name=`): the order `Each` yields in. -/
def KeysIncreasing : List (Bytes × Bytes) → Prop
  | [] => True
  | [_] => True
  | a :: b :: rest =>
    cmpBytes (a.1 ++ [eqByte]) (b.1 ++ [eqByte]) = .lt ∧ KeysIncreasing (b :: rest)

/-- `listEnviron_` never hits the `slices.Delete(list, i-1, i)` panic. -/
theorem listEnviron_total (pairs : List Bytes) : ∃ l, listEnviron pairs = some l := by
  obtain ⟨l, h, _⟩ := listEnviron_inv pairs
  exact ⟨l, h⟩

/-- Get returns the last value given for a name, and nothing for names never given — for every
    pair list and **every** name (including names containing `=`, empty names). -/
theorem get_spec (pairs : List Bytes) (name : Bytes) (l : List Bytes)
    (h : listEnviron pairs = some l) : get l name = ofSpec (specGet pairs name) := by
  obtain ⟨l', h1, hv, hs, hg⟩ := listEnviron_inv pairs
  rw [h] at h1
  cases h1
  obtain ⟨g1, g2⟩ := get_inv l name hv hs
  rw [← hg name]
  cases hsp : specGet l name with
  | none => exact g2 hsp
  | some v => exact g1 v hsp

/-- Get never panics. -/
theorem get_no_panic (pairs : List Bytes) (name : Bytes) (l : List Bytes)
    (h : listEnviron pairs = some l) : get l name ≠ .panic := by
  rw [get_spec pairs name l h]; cases specGet pairs name <;> simp [ofSpec]

/-- Each never panics, yields every surviving name exactly once (keys strictly increasing, hence
    pairwise distinct) with the last value given, and nothing else. -/
theorem each_spec (pairs : List Bytes) (l : List Bytes) (h : listEnviron pairs = some l) :
    ∃ nvs, each l = some nvs ∧ KeysIncreasing nvs ∧
      ∀ n v, (n, v) ∈ nvs ↔ specGet pairs n = some v := by
  obtain ⟨l', h1, hv, hs, hg⟩ := listEnviron_inv pairs
  rw [h] at h1
  cases h1
  obtain ⟨nvs, e1, e2, e3⟩ := each_inv l hv hs
  refine ⟨nvs, e1, ?_, ?_⟩
  · clear e1 e3
    induction nvs with
    | nil => trivial
    | cons a rest ih =>
      rw [List.pairwise_cons] at e2
      cases rest with
      | nil => trivial
      | cons b rest => exact ⟨e2.1 b (List.mem_cons_self ..), ih e2.2⟩
  · intro n v
    rw [e3, ← hg n, specGet_eq_some_iff l n v hv hs]

/-- Invalid pairs (no `=`, or empty name) are ignored: they never influence any lookup. -/
theorem invalid_ignored (pairs : List Bytes) (name : Bytes) :
    specGet pairs name = specGet (pairs.filter fun p => (validPair p).isSome) name := by
  rw [specGet_eq, specGet_eq]
  exact foldl_step_filter_valid pairs name none

/-- FuncEnviron treats an empty value as unset. -/
theorem func_environ (f : Bytes → Bytes) (name : Bytes) :
    (funcGet f name = none ↔ f name = []) ∧ (∀ v, funcGet f name = some v → v = f name ∧ v ≠ []) := by
  unfold funcGet
  by_cases h : f name = []
  · simp [h]
  · simp only [h, if_false]
    refine ⟨by simp, ?_⟩
    intro v hv
    cases hv
    exact ⟨rfl, h⟩

/-! Non-vacuity: a concrete list with duplicates, an invalid pair and prefix-related names. -/
example : listEnviron [[65,61,49], [65,49,61,50], [122], [65,61,51]]
    = some [[65,49,61,50], [65,61,51]] := by decide
example : get [[65,49,61,50], [65,61,51]] [65] = .val [51] := by decide
example : get [[65,61,66]] [65,61,66] = .unset := by decide

/-! ## The name-folding mode (`caseInsensitive = true`, i.e. Windows)

  `listEnvironF fold`, `getF fold` are the same code with `listEnviron.compare`'s folding as a
  parameter.  The theorems hold for every byte-wise folding `List.map f` that moves no byte across
  `=` (`EqPreserving f`, defined with `specGetF` at the top of Proofs/C34F.lean); `upperAscii` is such
  a folding, and `specGetCI = specGetF upperAscii`. -/

/-- Strictly increasing folded sort keys. -/
def KeysIncreasingF (fold : Bytes → Bytes) : List (Bytes × Bytes) → Prop
  | [] => True
  | [_] => True
  | a :: b :: rest =>
    cmpBytes (fold a.1 ++ [eqByte]) (fold b.1 ++ [eqByte]) = .lt ∧ KeysIncreasingF fold (b :: rest)

/-- With `fold = id` the folded code is the case-sensitive code, so the theorems above are
    instances of the ones below. -/
theorem listEnvironF_id : listEnvironF id = listEnviron ∧ getF id = get :=
  ⟨funext listEnvironF_id_apply, funext fun l => funext fun name => getF_id_apply l name⟩

/-- The folded `listEnviron_` never hits the `slices.Delete(list, i-1, i)` panic. -/
theorem listEnvironF_total (f : UInt8 → UInt8) (hf : EqPreserving f) (pairs : List Bytes) :
    ∃ l, listEnvironF (List.map f) pairs = some l := by
  obtain ⟨l, h, _⟩ := listEnvironF_inv hf pairs
  exact ⟨l, h⟩

/-- Folded Get returns the last value given for a name that folds like `name`, and nothing when
    there is none — for every pair list and every name (with or without `=`, empty or not). -/
theorem getF_spec (f : UInt8 → UInt8) (hf : EqPreserving f) (pairs : List Bytes) (name : Bytes)
    (l : List Bytes) (h : listEnvironF (List.map f) pairs = some l) :
    getF (List.map f) l name = ofSpec (specGetF (List.map f) pairs name) := by
  obtain ⟨l', h1, h2, hv⟩ := listEnvironF_inv hf pairs
  rw [h] at h1
  cases h1
  rw [specGetF_eq hf]
  by_cases hc : eqByte ∈ name
  · have hc' : eqByte ∈ name.map f := by
      have := List.mem_map_of_mem (f := f) hc
      rwa [(f_eq_iff hf eqByte).2 rfl] at this
    rw [specGet_of_mem_eq _ _ hc']
    simp [getF, hc, ofSpec]
  · rw [getF_eq_get hf l name hv hc]
    exact get_spec _ _ _ h2

/-- Folded Get never panics. -/
theorem getF_no_panic (f : UInt8 → UInt8) (hf : EqPreserving f) (pairs : List Bytes) (name : Bytes)
    (l : List Bytes) (h : listEnvironF (List.map f) pairs = some l) :
    getF (List.map f) l name ≠ .panic := by
  rw [getF_spec f hf pairs name l h]; cases specGetF (List.map f) pairs name <;> simp [ofSpec]

/-- Each on the folded list never panics, yields every surviving folded name exactly once (folded
    keys strictly increasing, hence pairwise distinct) with the last value given for it, and nothing
    else.  The yielded spelling of the name is that of one of the given pairs. -/
theorem eachF_spec (f : UInt8 → UInt8) (hf : EqPreserving f) (pairs : List Bytes) (l : List Bytes)
    (h : listEnvironF (List.map f) pairs = some l) :
    ∃ nvs, each l = some nvs ∧ KeysIncreasingF (List.map f) nvs ∧
      (∀ n v, (n, v) ∈ nvs → specGetF (List.map f) pairs n = some v) ∧
      ∀ n v, specGetF (List.map f) pairs n = some v ↔
        ∃ n', List.map f n' = List.map f n ∧ (n', v) ∈ nvs := by
  obtain ⟨l', h1, h2, hv⟩ := listEnvironF_inv hf pairs
  rw [h] at h1
  cases h1
  obtain ⟨nvs', e1, e2, e3⟩ := each_spec _ _ h2
  rw [each_map hf] at e1
  cases he : each l with
  | none => rw [he] at e1; cases e1
  | some nvs =>
    rw [he] at e1
    simp only [Option.map_some, Option.some.injEq] at e1
    subst e1
    have hiff : ∀ n v, specGetF (List.map f) pairs n = some v ↔
        ∃ n', List.map f n' = List.map f n ∧ (n', v) ∈ nvs := by
      intro n v
      rw [specGetF_eq hf, ← e3, List.mem_map]
      constructor
      · rintro ⟨⟨n', v'⟩, hm, e⟩
        simp only [Prod.mk.injEq] at e
        obtain ⟨ea, rfl⟩ := e
        exact ⟨n', ea, hm⟩
      · rintro ⟨n', ea, hm⟩
        exact ⟨(n', v), hm, by simp [ea]⟩
    refine ⟨nvs, rfl, ?_, ?_, hiff⟩
    · clear e3 he hiff
      induction nvs with
      | nil => trivial
      | cons a rest ih =>
        cases rest with
        | nil => trivial
        | cons b rest => exact ⟨e2.1, ih e2.2⟩
    · intro n v hm
      exact (hiff n v).2 ⟨n, rfl, hm⟩

/-! ### The `upperAscii` instance: what `listEnviron_(true, …)` does on ASCII names -/

theorem listEnvironCI_total (pairs : List Bytes) : ∃ l, listEnvironF upperAscii pairs = some l :=
  listEnvironF_total upperByte upperByte_eqPreserving pairs

/-- Case-insensitive Get returns the last value given for a name equal to `name` up to ASCII case. -/
theorem getCI_spec (pairs : List Bytes) (name : Bytes) (l : List Bytes)
    (h : listEnvironF upperAscii pairs = some l) :
    getF upperAscii l name = ofSpec (specGetCI pairs name) :=
  getF_spec upperByte upperByte_eqPreserving pairs name l h

theorem getCI_no_panic (pairs : List Bytes) (name : Bytes) (l : List Bytes)
    (h : listEnvironF upperAscii pairs = some l) : getF upperAscii l name ≠ .panic :=
  getF_no_panic upperByte upperByte_eqPreserving pairs name l h

theorem eachCI_spec (pairs : List Bytes) (l : List Bytes)
    (h : listEnvironF upperAscii pairs = some l) :
    ∃ nvs, each l = some nvs ∧ KeysIncreasingF upperAscii nvs ∧
      (∀ n v, (n, v) ∈ nvs → specGetCI pairs n = some v) ∧
      ∀ n v, specGetCI pairs n = some v ↔ ∃ n', upperAscii n' = upperAscii n ∧ (n', v) ∈ nvs :=
  eachF_spec upperByte upperByte_eqPreserving pairs l h

/-! Non-vacuity: names differing only by case, a lower-case value longer than the looked-up name
    (the too-short branch of `Get` folds it), and a name that is a case-variant prefix. -/
example : listEnvironF upperAscii [[97,61,49], [65,98,61,122], [65,61,50], [122]]
    = some [[65,61,50], [65,98,61,122]] := by decide
example : getF upperAscii [[65,61,50], [65,98,61,122]] [97] = .val [50] := by decide
example : getF upperAscii [[65,61,50], [65,98,61,122]] [97,66] = .val [122] := by decide
example : getF upperAscii [[65,61,50], [65,98,61,122]] [97,66,67] = .unset := by decide
example : specGetCI [[97,61,49], [65,98,61,122], [65,61,50], [122]] [97] = some [50] := by decide

end ShVerif.C34
