import ShVerif.Model.C36
import ShVerif.Proofs.C36
/-
  C36 — shfmt's list, diff, write and stdin modes agree.  Property theorems about the model of
  cmd/shfmt/main.go (ShVerif/Model/C36.lean); helper lemmas are in ShVerif/Proofs/C36.lean.

  The formatter `F` (parser + printer) and the diff printer `D` are parameters: every theorem
  holds for all of them, under the hypotheses it names (`Idempotent F` is property C02).
-/
namespace ShVerif.C36

/-! ## `-l` lists exactly the files whose formatted output differs -/

/-- Tail of formatBytes: the path is printed by `-l` exactly when the formatted output differs. -/
theorem l_lists_iff (list : Tri) (w d : Bool) (path src res dt : Bytes) (reg : Bool) :
    (outcome list w d path src res dt reg).listed = true ↔ (list ≠ .off ∧ res ≠ src) :=
  outcome_listed list w d path src res dt reg

/-- …and at the level of a visited file: it is listed iff the formatter succeeded (under the
    options the decision logic resolved) with bytes different from the file's. -/
theorem l_lists_iff_file (F : Fmt) (D : Dif) (f : Flags) (e : Entry) (hl : f.list ≠ .off)
    (hfind : f.find = .off) (o : Opts) (b : Bool)
    (hro : resolveOpts f e (fileLang f e.path e.src) = some (o, b)) :
    (formatPath F D f e false).listed = true ↔ ∃ r, F o e.path e.src = .ok r ∧ r ≠ e.src := by
  unfold formatPath
  simp only [Bool.false_and, Bool.false_eq_true, ↓reduceIte, hfind]
  constructor
  · intro h
    obtain ⟨o', b', r, g1, g2, g3⟩ := formatBytes_listed _ _ _ _ _ _ _ h
    rw [hro] at g1
    cases g1
    exact ⟨r, g2, g3⟩
  · rintro ⟨r, g1, g2⟩
    unfold formatBytes
    simp only [hro, g1]
    exact (outcome_listed _ _ _ _ _ _ _ _).mpr ⟨hl, g2⟩

/-- Exact stdout of plain `-l` for one file. -/
theorem l_stdout (path src res dt : Bytes) (reg : Bool) :
    (outcome .nl false false path src res dt reg).stdout = if res ≠ src then path ++ [nl] else [] := by
  unfold outcome
  by_cases h : src = res
  · subst h; simp
  · have h' : res ≠ src := fun e => h e.symm
    simp [h, h', listLine]

/-- `shfmt -l` (without `-w`) exits non-zero exactly when it listed a file or reported an error
    (a parse error, a missing path).  Whole run, any arguments. -/
theorem l_status (F : Fmt) (D : Dif) (f : Flags) (es : List Entry)
    (hs : startupError f = false) (hn : f.filename = [])
    (hl : f.list ≠ .off) (hw : f.write = false)
    (hp : (runWalk F D f es).panicked = false) :
    (runWalk F D f es).status ≠ 0 ↔
      ((∃ ev ∈ visits F D f es none, listedV ev.2 = true) ∨
       (∃ ev ∈ visits F D f es none, errorV ev.2 = true)) := by
  unfold runWalk at hp ⊢
  simp only [hs, hn, Bool.false_eq_true, ↓reduceIte, ne_eq, not_true_eq_false] at hp ⊢
  rw [← ne_eq, collect_status _ _ hp]
  have key : ∀ ev ∈ visits F D f es none,
      (visitFails ev.2 = true ↔ (listedV ev.2 = true ∨ errorV ev.2 = true)) := by
    intro ev hev
    obtain ⟨e, v⟩ := ev
    have := visits_mem F D f es none e v hev
    subst this
    exact visit_fail_iff F D f e hl hw
  constructor
  · rintro (h | ⟨ev, hev, hf⟩)
    · simp at h
    · rcases (key ev hev).mp hf with h | h
      · exact Or.inl ⟨ev, hev, h⟩
      · exact Or.inr ⟨ev, hev, h⟩
  · rintro (⟨ev, hev, h⟩ | ⟨ev, hev, h⟩)
    · exact Or.inr ⟨ev, hev, (key ev hev).mpr (Or.inl h)⟩
    · exact Or.inr ⟨ev, hev, (key ev hev).mpr (Or.inr h)⟩

/-- The property's sentence, for runs without errors: exit status ≠ 0 ⇔ something was listed. -/
theorem l_status_clean (F : Fmt) (D : Dif) (f : Flags) (es : List Entry)
    (hs : startupError f = false) (hn : f.filename = [])
    (hl : f.list ≠ .off) (hw : f.write = false)
    (hp : (runWalk F D f es).panicked = false)
    (hne : ∀ ev ∈ visits F D f es none, errorV ev.2 = false) :
    (runWalk F D f es).status ≠ 0 ↔ ∃ ev ∈ visits F D f es none, listedV ev.2 = true := by
  rw [l_status F D f es hs hn hl hw hp]
  constructor
  · rintro (h | ⟨ev, hev, h⟩)
    · exact h
    · rw [hne ev hev] at h; cases h
  · exact Or.inl

/-! ## one pipeline for every mode: parse → simplify? → print → compare -/

/-- `g` is `f` with other mode flags (`-l`, `-w`, `-d`) — same parser/printer/walk flags. -/
def SameFormatting (f g : Flags) : Prop :=
  g = { f with list := g.list, write := g.write, diff := g.diff }

/-- The mode flags do not take part in resolving the language or the options (incl. `simplify` and
    `minify`, from flags or from EditorConfig): list-only, diff, write and plain runs hand the formatter
    the same option record, hence compare against the same formatted bytes. -/
theorem modes_same_pipeline (f g : Flags) (h : SameFormatting f g) (e : Entry) (l : Lang) (p s : Bytes) :
    resolveOpts g e l = resolveOpts f e l ∧ fileLang g p s = fileLang f p s ∧
    stdinLang g p s = stdinLang f p s := by
  rw [h]; exact ⟨rfl, rfl, rfl⟩

/-- List-only mode under simplification: with `-s` (or `-mn`) the file is listed exactly when the
    *simplified* formatted bytes differ — `F` receives `simplify = true`. -/
theorem l_lists_simplified (F : Fmt) (D : Dif) (f : Flags) (e : Entry) (hl : f.list ≠ .off)
    (hfind : f.find = .off) (hs : f.simplify = some true ∨ f.mn = some true) :
    ∃ o, o.simplify = true ∧ o = optsOfFlags f (fileLang f e.path e.src) ∧
      ((formatPath F D f e false).listed = true ↔ ∃ r, F o e.path e.src = .ok r ∧ r ≠ e.src) := by
  have hec : useEC f = false := by
    unfold useEC; rcases hs with h | h <;> simp [h]
  refine ⟨_, ?_, rfl, l_lists_iff_file F D f e hl hfind _ false (resolveOpts_flags f e _ hec)⟩
  unfold optsOfFlags; rcases hs with h | h <;> simp [h]

/-! ## `-d` prints a diff exactly for those files, and the diff applies -/

/-- A diff is printed exactly when the formatted output differs (and `-w` did not refuse). -/
theorem d_iff (list : Tri) (w : Bool) (path src res dt : Bytes) (reg : Bool) :
    (outcome list w true path src res dt reg).diffed = true ↔
      (res ≠ src ∧ ¬ (w = true ∧ reg = false)) :=
  outcome_diffed list w path src res dt reg

/-- Without `-d` no diff is printed. -/
theorem d_off (list : Tri) (w : Bool) (path src res dt : Bytes) (reg : Bool) :
    (outcome list w false path src res dt reg).diffed = false :=
  outcome_nodiff list w path src res dt reg

/-- What is printed is the `-l` line (if any) followed by the diff text, unmodified. -/
theorem d_stdout (list : Tri) (w : Bool) (path src res dt : Bytes) (reg : Bool)
    (h : (outcome list w true path src res dt reg).diffed = true) :
    (outcome list w true path src res dt reg).stdout = listLine list path ++ dt :=
  outcome_diff_stdout list w path src res dt reg h

/-- Diff model: any diff printer `D` with a patcher `apply` satisfying the apply law. -/
def DiffLaw (D : Dif) (apply : Bytes → Bytes → Option Bytes) : Prop :=
  ∀ path a b, a ≠ b → apply (D path a b) a = some b

/-- Applying the text printed by plain `-d` to the file's bytes yields the formatted output. -/
theorem d_applies (D : Dif) (apply : Bytes → Bytes → Option Bytes) (law : DiffLaw D apply)
    (w : Bool) (path src res : Bytes) (reg : Bool)
    (h : (outcome .off w true path src res (D path src res) reg).diffed = true) :
    apply (outcome .off w true path src res (D path src res) reg).stdout src = some res := by
  rw [d_stdout _ _ _ _ _ _ _ h]
  have hne := ((d_iff _ _ _ _ _ _ _).mp h).1
  simpa [listLine] using law path src res (fun e => hne e.symm)

/-- The apply law is satisfiable: the reference diff (one hunk after the common prefix) and the
    hunk patcher `applyScript` (the algorithm of the harness' reference patcher) satisfy it. -/
theorem diff_apply_law (a b : List Bytes) : applyScript (simpleDiff a b) a = some b :=
  simpleDiff_law a b

/-! ## after `-w`, `-l` lists nothing -/

/-- The statement with formatter idempotence (C02) as its only hypothesis.  It is FALSE of the
    model (and of shfmt): see `w_then_l_counterexample`. -/
def w_then_l_statement : Prop :=
  ∀ (F : Fmt) (D : Dif), Idempotent F → ∀ (f : Flags) (e : Entry) (cs : Bool),
    e.kind = .reg → f.write = true →
    (formatPath F D (lFlags f)
      { e with src := contentAfter (formatPath F D f e cs) e.src } cs).listed = false

/-- With idempotence AND stability of the language resolved for the file (the bytes written by
    `-w` must resolve to the language the source resolved to), `-l` lists nothing after `-w`. -/
theorem w_then_l_partial (F : Fmt) (D : Dif) (idem : Idempotent F) (f : Flags) (e : Entry) (cs : Bool)
    (hreg : e.kind = .reg) (hw : f.write = true)
    (stable : ∀ r, (formatPath F D f e cs).write = some r →
        fileLang f e.path r = fileLang f e.path e.src) :
    (formatPath F D (lFlags f)
      { e with src := contentAfter (formatPath F D f e cs) e.src } cs).listed = false :=
  formatPath_w_then_l F D idem f e cs hreg hw stable

/-- The same at the level of the walk callback: whatever the callback decides for the entry. -/
theorem w_then_l_visit (F : Fmt) (D : Dif) (idem : Idempotent F) (f : Flags) (e : Entry)
    (hreg : e.kind = .reg) (hw : f.write = true) (s1 : Step)
    (h1 : visit F D f e = .step s1)
    (stable : ∀ r, s1.write = some r → fileLang f e.path r = fileLang f e.path e.src) :
    listedV (visit F D (lFlags f) { e with src := contentAfter s1 e.src }) = false := by
  unfold visit at h1 ⊢
  rw [visitDecision_lFlags]
  cases hd : visitDecision f e with
  | format cs =>
    simp only [hd] at h1
    cases h1
    simp only [listedV]
    exact formatPath_w_then_l F D idem f e cs hreg hw stable
  | skip => simp [listedV]
  | skipDir => simp [listedV]
  | error m => simp [listedV]
  | panic => simp [listedV]

/-- With `-ln <lang>` on the command line the language cannot move, so idempotence suffices. -/
theorem w_then_l_ln (F : Fmt) (D : Dif) (idem : Idempotent F) (f : Flags) (e : Entry) (cs : Bool)
    (hreg : e.kind = .reg) (hw : f.write = true) (hln : lnVal f ≠ .auto) :
    (formatPath F D (lFlags f)
      { e with src := contentAfter (formatPath F D f e cs) e.src } cs).listed = false :=
  formatPath_w_then_l F D idem f e cs hreg hw (fun r _ => by
    rw [(stdinLang_eq_fileLang_ln f e.path e.path r hln).2,
        (stdinLang_eq_fileLang_ln f e.path e.path e.src hln).2])

/-- A (constant, hence idempotent) formatter shaped like the real witness
    `printf '  #!/bin/sh\n((x))\n' > a.sh`: bash prints `((x))`, POSIX prints `( (x))`. -/
def witnessF : Fmt := fun o _ _ =>
  if o.lang = .posix then .ok (asc "#!/bin/sh\n( (x))\n") else .ok (asc "#!/bin/sh\n((x))\n")

def witnessEntry : Entry := { path := asc "a.sh", explicit := true, src := asc "  #!/bin/sh\n((x))\n" }

theorem witnessF_idempotent : Idempotent witnessF := by
  intro o p s r h
  unfold witnessF at h ⊢
  split at h <;> split <;> first | exact h | skip
  all_goals simp_all

/-- `a.sh` resolves to bash before `-w` (the indented `#!` is no shebang) … -/
example : fileLang {} witnessEntry.path witnessEntry.src = .bash := by decide
/-- … and to POSIX afterwards. -/
example : fileLang {} witnessEntry.path (asc "#!/bin/sh\n((x))\n") = .posix := by decide

/-- Idempotence alone does not make `-l` silent after `-w`: the formatted bytes can resolve to a
    different language than the source (genuine defect, replayed from corpus/C36-known.txt). -/
theorem w_then_l_counterexample : ¬ w_then_l_statement := by
  intro h
  have := h witnessF (fun _ _ _ => []) witnessF_idempotent { write := true } witnessEntry false rfl rfl
  revert this
  decide

/-! ## stdin = file -/

/-- `shfmt --filename p < p` does exactly what `shfmt p` does whenever both resolve to the same
    language (same name ⇒ same EditorConfig section, same options). -/
theorem stdin_eq_file (F : Fmt) (D : Dif) (f : Flags) (e : Entry)
    (hw : f.write = false) (hfind : f.find = .off)
    (hig : (f.applyIgnore && pget e.pShell (asc "ignore") = asc "true") = false)
    (hlang : stdinLang f e.path e.src = fileLang f e.path e.src) :
    stdinStep F D f e = formatPath F D f e false := by
  unfold stdinStep formatPath
  simp [hw, hfind, hig, hlang]

/-- Different names, language given with `-ln`: both sides use the options of the flags, and
    the formatted bytes (hence stdout and the exit status) agree. -/
theorem stdin_eq_file_ln (F : Fmt) (D : Dif) (ni : NameIndependent F) (f : Flags) (e es : Entry)
    (hplain : f.list = .off ∧ f.write = false ∧ f.diff = false ∧ f.find = .off)
    (hai : f.applyIgnore = false) (hln : f.ln.isSome = true) (hauto : lnVal f ≠ .auto)
    (hsrc : es.src = e.src) (r : Bytes)
    (hr : F (optsOfFlags f (lnVal f)) e.path e.src = .ok r) :
    (stdinStep F D f es).stdout = r ∧ (formatPath F D f e false).stdout = r ∧
    (stdinStep F D f es).fail = false ∧ (formatPath F D f e false).fail = false := by
  obtain ⟨h1, h2, h3, h4⟩ := hplain
  have hec : useEC f = false := by
    unfold useEC; cases hl : f.ln <;> simp_all
  have hr' : F (optsOfFlags f (lnVal f)) es.path es.src = .ok r := by
    rw [hsrc]; exact ni _ _ _ _ _ hr
  have e1 := (stdinLang_eq_fileLang_ln f es.path e.path es.src hauto).1
  have e2 := (stdinLang_eq_fileLang_ln f es.path e.path e.src hauto).2
  unfold stdinStep formatPath formatBytes
  simp only [h2, hai, h4, e1, e2, resolveOpts_flags _ _ _ hec, hr, hr', h1, h3]
  unfold outcome
  by_cases hs : e.src = r
  · simp [hs, hsrc]
  · simp [hs, hsrc, listLine]

/-- When does the automatic language agree?  Always if the input is at most 32 bytes long (what
    formatPath reads for the shebang) or the name decides. -/
theorem stdin_lang_short (f : Flags) (n s : Bytes) (h : s.length ≤ 32) :
    stdinLang f n s = fileLang f n s := stdinLang_eq_fileLang_short f n s h

theorem stdin_lang_name (f : Flags) (n s : Bytes) (h : langFromFilename n ≠ .auto) :
    stdinLang f n s = fileLang f n s := stdinLang_eq_fileLang_name f n s h

/-- …but not in general: a shebang line that does not fit into 32 bytes is seen on stdin only
    (observed on the binary: `shfmt a` ≠ `shfmt --filename a < a`). -/
theorem stdin_lang_differs_example :
    stdinLang {} (asc "a") (asc "#!/usr/bin/env                  sh\n((x))\n") = .posix ∧
    fileLang {} (asc "a") (asc "#!/usr/bin/env                  sh\n((x))\n") = .bash := by decide

/-! ## flags vs EditorConfig -/

/-- An EditorConfig section says what the flags say. -/
structure Equivalent (f : Flags) (p : Props) : Prop where
  lang : langOfName (pget p (asc "shell_variant")) = (if lnVal f = .auto then none else some (lnVal f))
  indent : propsIndent p = f.indent.getD 0
  bn : ptrue p "binary_next_line" = f.bn.getD false
  ci : ptrue p "switch_case_indent" = f.ci.getD false
  sr : ptrue p "space_redirects" = f.sr.getD false
  kp : ptrue p "keep_padding" = f.kp.getD false
  fn : ptrue p "function_next_line" = f.fn.getD false
  mn : ptrue p "minify" = f.mn.getD false
  simplify : (ptrue p "minify" || ptrue p "simplify") = (f.simplify.getD false || f.mn.getD false)

/-- Equivalent settings give the same option record: for a file whose detected language is `l`,
    the record built from the properties equals the record built from the flags. -/
theorem flags_vs_editorconfig (f : Flags) (p : Props) (l : Lang) (hl : l ≠ .auto)
    (h : Equivalent f p) :
    propsOptions l p =
      some (optsOfFlags f (if lnVal f = .auto then l else lnVal f), lnVal f != .auto) := by
  obtain ⟨h1, h2, h3, h4, h5, h6, h7, h8, h9⟩ := h
  unfold propsOptions optsOfFlags
  by_cases ha : lnVal f = .auto
  · simp only [h1, ha, ↓reduceIte, Option.getD_none, hl, h2, h3, h4, h5, h6, h7, h8]
    rw [h8] at h9
    simp [h9]
  · simp only [h1, ha, ↓reduceIte, Option.getD_some, h2, h3, h4, h5, h6, h7, h8]
    rw [h8] at h9
    simp [ha, h9]

/-- Non-vacuity: `-i 4 -bn -ci -ln mksh` and the section a user would write for it. -/
def exFlags : Flags := { indent := some 4, bn := some true, ci := some true, ln := some .mksh }
def exProps : Props :=
  [(asc "indent_style", asc "space"), (asc "indent_size", asc "4"), (asc "binary_next_line", asc "true"),
   (asc "switch_case_indent", asc "true"), (asc "shell_variant", asc "mksh")]

theorem exProps_equivalent : Equivalent exFlags exProps := by
  constructor <;> decide

example : propsOptions .bash exProps = some (optsOfFlags exFlags .mksh, true) := by decide

/-- `-s -mn` ≍ `minify = true`; tabs ≍ no indent_style. -/
example : Equivalent { simplify := some true, mn := some true } [(asc "minify", asc "true")] := by
  constructor <;> decide

/-! ## totality of the decision logic -/

/-- The language handed to formatBytes is never `auto`… -/
theorem lang_resolved (f : Flags) (p s : Bytes) :
    fileLang f p s ≠ .auto ∧ stdinLang f p s ≠ .auto :=
  ⟨fileLang_ne_auto f p s, stdinLang_ne_auto f p s⟩

/-- …so `syntax.Variant` never panics, with flags or with EditorConfig properties — including
    `shell_variant = auto` (repaired in /repo by 349239f; it used to panic) — for every detected
    language `l ≠ auto`. -/
theorem no_panic (f : Flags) (e : Entry) (l : Lang) (hl : l ≠ .auto) :
    resolveOpts f e l ≠ none := by
  unfold resolveOpts
  split
  · exact propsOptions_isSome l _ hl
  · simp

/-- With parser/printer flags no hypothesis on the language is needed. -/
theorem no_panic_flags (f : Flags) (e : Entry) (l : Lang) (h : useEC f = false) :
    resolveOpts f e l ≠ none := by
  rw [resolveOpts_flags f e l h]; simp

/-- No step of a run on a path or on stdin panics in `resolveOpts`. -/
theorem no_panic_run (f : Flags) (e : Entry) (p s : Bytes) :
    resolveOpts f e (fileLang f p s) ≠ none ∧ resolveOpts f e (stdinLang f p s) ≠ none :=
  ⟨no_panic f e _ (fileLang_ne_auto f p s), no_panic f e _ (stdinLang_ne_auto f p s)⟩

/-- `shell_variant = auto` keeps the detected language (and counts as a valid setting). -/
theorem shell_variant_auto_keeps (l : Lang) (hl : l ≠ .auto) :
    (propsOptions l [(asc "shell_variant", asc "auto")]).map (fun r => (r.1.lang, r.2)) = some (l, true) := by
  cases l <;> first | exact absurd rfl hl | decide

/-! ## the shebang sniff: rows EOF / short read / full window -/

/-- Row "not checking for a shebang" (explicit regular file, or a shell extension found by walking):
    whatever the sniff reports — nothing read, a short read, a full window — the file is formatted
    (or printed by `-f`); the sniff only feeds language detection. -/
theorem sniff_unchecked (F : Fmt) (D : Dif) (f : Flags) (e : Entry) :
    formatPath F D f e false =
      match f.find with
      | .nl => { stdout := e.path ++ [nl] }
      | .nul => { stdout := e.path ++ [0] }
      | .off => formatBytes F D f e e.path e.src (fileLang f e.path e.src) := by
  cases h : f.find <;> simp [formatPath, h]

/-- Rows "checking for a shebang" (extension-less file found by walking, `--detect`): EOF and short
    reads are dropped silently … -/
theorem sniff_checked_short (F : Fmt) (D : Dif) (f : Flags) (e : Entry) (h : sniffOf e.src ≠ .window) :
    formatPath F D f e true = {} := by
  have hlen : (headOf e.src).length < 9 := by
    unfold sniffOf at h
    unfold headOf
    by_cases h1 : e.src = []
    · simp [h1]
    · by_cases h2 : e.src.length < 9
      · rw [List.length_take]; omega
      · simp [h1, h2] at h
  simp [formatPath, hlen]

/-- … and a full window decides by the shebang. -/
theorem sniff_checked_window (F : Fmt) (D : Dif) (f : Flags) (e : Entry) (h : sniffOf e.src = .window) :
    formatPath F D f e true =
      if shebang (headOf e.src) = [] then {} else formatPath F D f e false := by
  have hlen : ¬ (headOf e.src).length < 9 := by
    unfold sniffOf at h
    unfold headOf
    by_cases h1 : e.src = []
    · simp [h1] at h
    · by_cases h2 : e.src.length < 9
      · simp [h1, h2] at h
      · rw [List.length_take]; omega
  by_cases hs : shebang (headOf e.src) = [] <;> simp [formatPath, hlen, hs]

/-- An empty script is not a fixed point of the formatter (it prints a newline), so `-l` on an
    explicitly named or `.sh` empty file lists it: the EOF row must not skip the file. -/
theorem empty_file_listed (F : Fmt) (D : Dif) (f : Flags) (e : Entry) (hsrc : e.src = [])
    (hl : f.list ≠ .off) (hfind : f.find = .off) (o : Opts) (b : Bool)
    (hro : resolveOpts f e (fileLang f e.path e.src) = some (o, b))
    (hF : F o e.path [] = .ok [nl]) :
    (formatPath F D f e false).listed = true := by
  rw [l_lists_iff_file F D f e hl hfind o b hro]
  exact ⟨[nl], by rw [hsrc]; exact hF, by rw [hsrc]; simp⟩

example : sniffOf [] = .eof ∧ sniffOf (asc "#!/b") = .short ∧ sniffOf (asc "#!/bin/sh") = .window := by decide

/-! ## the decision tables, stated outright -/

/-- Language by file name (`langFromFilename`); `.sh` and unknown extensions leave it to the shebang. -/
theorem lang_by_name :
    langFromFilename (asc "x.bash") = .bash ∧ langFromFilename (asc "x.mksh") = .mksh ∧
    langFromFilename (asc "x.bats") = .bats ∧ langFromFilename (asc "x.zsh") = .zsh ∧
    langFromFilename (asc "x.posix") = .posix ∧ langFromFilename (asc "x.dash") = .posix ∧
    langFromFilename (asc "x.sh") = .auto ∧ langFromFilename (asc "x") = .auto ∧
    langFromFilename (asc "x.txt") = .auto ∧ langFromFilename (asc "d.bash/x") = .auto ∧
    langFromFilename (asc ".bashrc") = .bash ∧ langFromFilename (asc "dir/.zshrc") = .zsh ∧
    langFromFilename (asc "bash_profile") = .bash ∧ langFromFilename (asc "<standard input>") = .auto := by
  decide

/-- Language by shebang, with the bash fallback. -/
theorem lang_by_shebang :
    langFromShebang (asc "#!/bin/sh\n") = .posix ∧ langFromShebang (asc "#!/bin/dash\n") = .posix ∧
    langFromShebang (asc "#!/usr/bin/env bash\n") = .bash ∧ langFromShebang (asc "#! /bin/mksh\n") = .mksh ∧
    langFromShebang (asc "#!/usr/bin/env  zsh") = .zsh ∧ langFromShebang (asc "#!/usr/bin/env bats\n") = .bats ∧
    langFromShebang (asc "#!/bin/shx\n") = .bash ∧ langFromShebang (asc "#!/usr/bin/python\n") = .bash ∧
    langFromShebang (asc "echo hi\n") = .bash ∧ langFromShebang (asc " #!/bin/sh\n") = .bash := by
  decide

/-- Precedence: `-ln`/`-p`, then the name, then the shebang. -/
theorem lang_precedence (f : Flags) (p s : Bytes) :
    fileLang f p s =
      if lnVal f ≠ .auto then lnVal f
      else if langFromFilename p ≠ .auto then langFromFilename p
      else langFromShebang (s.take 32) := by
  unfold fileLang headOf
  by_cases h1 : lnVal f = .auto <;> by_cases h2 : langFromFilename p = .auto <;> simp [h1, h2]

/-- Which walked names are shell files (`CouldBeScript2`). -/
theorem could_be_script_table :
    couldBeScript2 (asc "a.sh") .reg = some .isScript ∧ couldBeScript2 (asc "a.bats") .reg = some .isScript ∧
    couldBeScript2 (asc "noext") .reg = some .ifShebang ∧ couldBeScript2 (asc "a.txt") .reg = some .notScript ∧
    couldBeScript2 (asc ".a.sh") .reg = some .notScript ∧ couldBeScript2 (asc "a.sh") .lnk = some .notScript ∧
    couldBeScript2 (asc "a.sh") .dir = some .notScript ∧ couldBeScript2 (asc "a.sh.bak") .reg = some .notScript := by
  decide

end ShVerif.C36
