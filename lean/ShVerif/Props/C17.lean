import ShVerif.Model.L3Glob
import ShVerif.Proofs.L3Glob
import ShVerif.Proofs.C17
import ShVerif.Proofs.C17Ext
import ShVerif.Proofs.C17Fn
/-
  C17 — Glob patterns match exactly what bash matches.

  `regexpOf` is the model of pattern.Regexp (tied to pattern.go by exhaustive correspondence on the
  printed form), `Top.matches` the Brzozowski-derivative semantics of the emitted expression
  (validated against Go's regexp), `globMatch` the reference semantics written from bash's rules
  (validated against bash), `malformed` the reference parser's verdict, `supported` the syntactic
  region in which pattern.go's known quirks do not fire (Model/L3Glob §6).
-/
namespace ShVerif.C17
open ShVerif ShVerif.L3

/-! ## The statements at full strength (false of the code today: counter-examples below) -/

/-- Language equality between the emitted regular expression and the reference semantics. -/
def regexp_language_statement : Prop :=
  ∀ (m : Mode) (p : Str) (t : Top), m.entire = true → regexpOf m p = .ok t →
    ∀ s, t.matches s = globMatch m p s

/-- A syntax error is reported exactly for the malformed patterns (and it is the same error). -/
def regexp_error_iff_statement : Prop :=
  ∀ (m : Mode) (p : Str) (e : Err), (∀ g, e ≠ .negExt g) →
    (regexpOf m p = .error e ↔ malformed m p = some e)

/-- The printed form of a result lies inside the RE2 subset grammar `Top.wf` (so it compiles). -/
def regexp_compiles_statement : Prop :=
  ∀ (m : Mode) (p : Str) (t : Top), regexpOf m p = .ok t → t.wf = true

/-- internal.ExtendedPatternMatcher never panics and decides the reference semantics. -/
def extended_matcher_statement : Prop :=
  ∀ (m : Mode) (p : Str), m.entire = true →
    extMatcher m p ≠ .panic ∧ ∀ f, extMatcher m p = .ok f → ∀ s, f s = globMatch m p s

/-- The language theorem on the whole `supported` region, every mode.  Stated only.  Proved below
    are its restrictions to three regions: (1) no Filenames, no ExtendedOperators: all of
    `supported`; (2) no Filenames, ExtendedOperators: flat pattern-lists; (3) Filenames with
    NoGlobStar: no bracket expressions, no pattern-lists.  What is left of `supported`: bracket
    expressions and pattern-lists in the filename modes, `**` as globstar, bracket expressions or
    nested lists inside a pattern-list. -/
def regexp_language_supported_statement : Prop :=
  ∀ (m : Mode) (p : Str) (t : Top), m.entire = true → supported m p = true → regexpOf m p = .ok t →
    ∀ s, t.matches s = globMatch m p s

/-! ## What is proved -/

/-- **Language equality**, for every EntireString mode without Filenames and without
    ExtendedOperators (any combination of NoGlobCase, Shortest, NoGlobStar, GlobLeadingDot), on the
    `supported` patterns: the expression `Regexp` returns accepts exactly the strings the
    pattern matches under the reference semantics. -/
theorem regexp_language_partial (m : Mode) (p : Str) (t : Top) (he : m.entire = true)
    (hx : m.ext = false) (hf : m.filenames = false) (hs : supported m p = true)
    (h : regexpOf m p = .ok t) : ∀ s, t.matches s = globMatch m p s := by
  intro s
  have ha := top_agree m hx hf p.length (p.length + 1) .start 0 p (p.length + 1) (p.length + 1)
    (Nat.lt_succ_self _) (Nat.lt_succ_self _) hs
  rw [regexpOf_entire he] at h
  unfold globMatch parseGlob
  cases hp : parseSeq m (p.length + 1) 0 p with
  | error e =>
    rw [hp] at ha
    simp only [TopAgree] at ha
    rw [ha] at h
    cases h
  | ok g =>
    rw [hp] at ha
    simp only [TopAgree] at ha
    obtain ⟨body, hb, _, hsem⟩ := ha
    rw [hb] at h
    simp at h
    subst h
    simp only [Top.matches, he, if_true]
    rw [Bool.eq_iff_iff, rmatch_iff, gmatch_full_iff]
    exact hsem true s

/-- **Errors**, same region: `Regexp` reports a syntax error exactly when the reference parser
    rejects the pattern, and it reports the same error. -/
theorem regexp_error_iff_partial (m : Mode) (p : Str) (e : Err) (he : m.entire = true)
    (hx : m.ext = false) (hf : m.filenames = false) (hs : supported m p = true) :
    regexpOf m p = .error e ↔ malformed m p = some e := by
  have ha := top_agree m hx hf p.length (p.length + 1) .start 0 p (p.length + 1) (p.length + 1)
    (Nat.lt_succ_self _) (Nat.lt_succ_self _) hs
  rw [regexpOf_entire he]
  unfold malformed parseGlob
  cases hp : parseSeq m (p.length + 1) 0 p with
  | error e' =>
    rw [hp] at ha
    simp only [TopAgree] at ha
    rw [ha]
    simp
  | ok g =>
    rw [hp] at ha
    simp only [TopAgree] at ha
    obtain ⟨body, hb, _, _⟩ := ha
    rw [hb]
    simp

/-- **Language equality with extended operators** — the mode of `case` and `[[ ]]`
    (EntireString|ExtendedOperators, plus any of NoGlobCase, Shortest, NoGlobStar, GlobLeadingDot;
    no Filenames): on the `supported` patterns whose pattern-lists are flat (`flatLists`: the
    alternatives of every `?(…) *(…) +(…) @(…)` consist of ordinary and escaped characters, `?`
    and `*`), the expression accepts exactly the strings the pattern matches. -/
theorem regexp_language_ext_partial (m : Mode) (p : Str) (t : Top) (he : m.entire = true)
    (hx : m.ext = true) (hf : m.filenames = false) (hs : supported m p = true)
    (hl : flatLists m p = true) (h : regexpOf m p = .ok t) : ∀ s, t.matches s = globMatch m p s := by
  intro s
  have ha := top_agree_ext m hx hf p.length (p.length + 1) .start 0 p (p.length + 1) (p.length + 1)
    (p.length + 1) (Nat.lt_succ_self _) (Nat.lt_succ_self _) (Nat.le_refl _) hs hl
  rw [regexpOf_entire he] at h
  unfold globMatch parseGlob
  cases hp : parseSeq m (p.length + 1) 0 p with
  | error e =>
    rw [hp] at ha
    simp only [TopAgree] at ha
    rw [ha] at h
    cases h
  | ok g =>
    rw [hp] at ha
    simp only [TopAgree] at ha
    obtain ⟨body, hb, _, hsem⟩ := ha
    rw [hb] at h
    simp at h
    subst h
    simp only [Top.matches, he, if_true]
    rw [Bool.eq_iff_iff, rmatch_iff, gmatch_full_iff]
    exact hsem true s

/-- **Errors with extended operators**, same region. -/
theorem regexp_error_iff_ext_partial (m : Mode) (p : Str) (e : Err) (he : m.entire = true)
    (hx : m.ext = true) (hf : m.filenames = false) (hs : supported m p = true)
    (hl : flatLists m p = true) : regexpOf m p = .error e ↔ malformed m p = some e := by
  have ha := top_agree_ext m hx hf p.length (p.length + 1) .start 0 p (p.length + 1) (p.length + 1)
    (p.length + 1) (Nat.lt_succ_self _) (Nat.lt_succ_self _) (Nat.le_refl _) hs hl
  rw [regexpOf_entire he]
  unfold malformed parseGlob
  cases hp : parseSeq m (p.length + 1) 0 p with
  | error e' =>
    rw [hp] at ha
    simp only [TopAgree] at ha
    rw [ha]
    simp
  | ok g =>
    rw [hp] at ha
    simp only [TopAgree] at ha
    obtain ⟨body, hb, _, _⟩ := ha
    rw [hb]
    simp

/-- **The result compiles** (first region): the model of "regexp.Compile accepts the expression"
    (`goCompiles`, tied to the real `regexp.Compile` by the `compiles` stream) holds, so
    `regexp.MustCompile` does not panic. -/
theorem regexp_compiles_partial (m : Mode) (p : Str) (t : Top) (he : m.entire = true)
    (hx : m.ext = false) (hf : m.filenames = false) (hs : supported m p = true)
    (h : regexpOf m p = .ok t) : goCompiles t.body = true := by
  have ha := top_agree m hx hf p.length (p.length + 1) .start 0 p (p.length + 1) (p.length + 1)
    (Nat.lt_succ_self _) (Nat.lt_succ_self _) hs
  rw [regexpOf_entire he] at h
  cases hp : parseSeq m (p.length + 1) 0 p with
  | error e =>
    rw [hp] at ha
    simp only [TopAgree] at ha
    rw [ha] at h
    cases h
  | ok g =>
    rw [hp] at ha
    simp only [TopAgree] at ha
    obtain ⟨body, hb, hc, _⟩ := ha
    rw [hb] at h
    simp at h
    subst h
    exact hc

/-- **The result compiles** (extended operators, flat pattern-lists). -/
theorem regexp_compiles_ext_partial (m : Mode) (p : Str) (t : Top) (he : m.entire = true)
    (hx : m.ext = true) (hf : m.filenames = false) (hs : supported m p = true)
    (hl : flatLists m p = true) (h : regexpOf m p = .ok t) : goCompiles t.body = true := by
  have ha := top_agree_ext m hx hf p.length (p.length + 1) .start 0 p (p.length + 1) (p.length + 1)
    (p.length + 1) (Nat.lt_succ_self _) (Nat.lt_succ_self _) (Nat.le_refl _) hs hl
  rw [regexpOf_entire he] at h
  cases hp : parseSeq m (p.length + 1) 0 p with
  | error e =>
    rw [hp] at ha
    simp only [TopAgree] at ha
    rw [ha] at h
    cases h
  | ok g =>
    rw [hp] at ha
    simp only [TopAgree] at ha
    obtain ⟨body, hb, hc, _⟩ := ha
    rw [hb] at h
    simp at h
    subst h
    exact hc

/-- **The matcher** `internal.ExtendedPatternMatcher` (the function `case` and `[[ ]]` call with
    EntireString|ExtendedOperators): in the second region it does not panic and decides the
    reference semantics. -/
theorem extended_matcher_partial (m : Mode) (p : Str) (t : Top) (he : m.entire = true)
    (hx : m.ext = true) (hf : m.filenames = false) (hs : supported m p = true)
    (hl : flatLists m p = true) (h : regexpOf m p = .ok t) :
    ∃ f, extMatcher m p = .ok f ∧ ∀ s, f s = globMatch m p s := by
  refine ⟨t.matches, ?_, regexp_language_ext_partial m p t he hx hf hs hl h⟩
  unfold extMatcher
  simp [he, h, regexp_compiles_ext_partial m p t he hx hf hs hl h]

/-! ### The filename modes (slashes, leading dots, `*`, `**` without globstar)

  Third region: EntireString|Filenames|NoGlobStar with any of GlobLeadingDot, NoGlobCase, Shortest,
  ExtendedOperators — the mode expand.glob uses for every path component — on the `supported`
  patterns without pattern-lists (with ExtendedOperators, `(` does not occur) and without NUL, in
  which a bracket expression occurs only if the pattern has no slash (expand.glob splits a pattern
  at its slashes first, so every pattern it hands to Regexp is of this kind).  `supported` leaves out here exactly: `?`/`*` where the pattern does
  not exclude a leading dot (C17-leading-dot), a literal dot after such a `*`
  (C17-leading-dot-after-star), `*` after `*` at a component start (`***`, C17-leading-dot). -/

/-- **Language equality in the filename modes.** -/
theorem regexp_language_fn_partial (m : Mode) (p : Str) (t : Top) (he : m.entire = true)
    (hf : m.filenames = true) (hns : m.noglobstar = true) (hs : supported m p = true)
    (hb : cLB ∉ p ∨ cSlash ∉ p) (hl : m.ext = false ∨ cLP ∉ p) (hz : (0 : Nat) ∉ p)
    (h : regexpOf m p = .ok t) : ∀ s, t.matches s = globMatch m p s := by
  intro s
  have hpp : PP .start 0 := by unfold PP; simp
  have ha := top_agree_fn m hf hns p.length (p.length + 1) .start 0 p (p.length + 1) (p.length + 1)
    (Nat.lt_succ_self _) (Nat.lt_succ_self _) hs hpp hb hl hz
  rw [regexpOf_entire he] at h
  unfold globMatch parseGlob
  cases hp : parseSeq m (p.length + 1) 0 p with
  | error e =>
    rw [hp] at ha
    simp only [TopAgreeF] at ha
    rw [ha] at h
    cases h
  | ok g =>
    rw [hp] at ha
    simp only [TopAgreeF] at ha
    obtain ⟨body, hb', _, hsem⟩ := ha
    rw [hb'] at h
    simp at h
    subst h
    simp only [Top.matches, he, if_true]
    rw [Bool.eq_iff_iff, rmatch_iff, gmatch_full_iff]
    exact hsem true s (fun _ => ⟨fun _ => rfl, fun hm => nomatch hm⟩)

/-- **Errors in the filename modes**, same region. -/
theorem regexp_error_iff_fn_partial (m : Mode) (p : Str) (e : Err) (he : m.entire = true)
    (hf : m.filenames = true) (hns : m.noglobstar = true) (hs : supported m p = true)
    (hb : cLB ∉ p ∨ cSlash ∉ p) (hl : m.ext = false ∨ cLP ∉ p) (hz : (0 : Nat) ∉ p) :
    regexpOf m p = .error e ↔ malformed m p = some e := by
  have hpp : PP .start 0 := by unfold PP; simp
  have ha := top_agree_fn m hf hns p.length (p.length + 1) .start 0 p (p.length + 1) (p.length + 1)
    (Nat.lt_succ_self _) (Nat.lt_succ_self _) hs hpp hb hl hz
  rw [regexpOf_entire he]
  unfold malformed parseGlob
  cases hp : parseSeq m (p.length + 1) 0 p with
  | error e' =>
    rw [hp] at ha
    simp only [TopAgreeF] at ha
    rw [ha]
    simp
  | ok g =>
    rw [hp] at ha
    simp only [TopAgreeF] at ha
    obtain ⟨body, hb', _, _⟩ := ha
    rw [hb']
    simp

/-- **The result compiles**, filename modes, same region. -/
theorem regexp_compiles_fn_partial (m : Mode) (p : Str) (t : Top) (he : m.entire = true)
    (hf : m.filenames = true) (hns : m.noglobstar = true) (hs : supported m p = true)
    (hb : cLB ∉ p ∨ cSlash ∉ p) (hl : m.ext = false ∨ cLP ∉ p) (hz : (0 : Nat) ∉ p)
    (h : regexpOf m p = .ok t) : goCompiles t.body = true := by
  have hpp : PP .start 0 := by unfold PP; simp
  have ha := top_agree_fn m hf hns p.length (p.length + 1) .start 0 p (p.length + 1) (p.length + 1)
    (Nat.lt_succ_self _) (Nat.lt_succ_self _) hs hpp hb hl hz
  rw [regexpOf_entire he] at h
  cases hp : parseSeq m (p.length + 1) 0 p with
  | error e =>
    rw [hp] at ha
    simp only [TopAgreeF] at ha
    rw [ha] at h
    cases h
  | ok g =>
    rw [hp] at ha
    simp only [TopAgreeF] at ha
    obtain ⟨body, hb', hc, _⟩ := ha
    rw [hb'] at h
    simp at h
    subst h
    exact hc

/-- **The slash invariant** as a theorem about the model: in that region, whenever the emitted
    expression accepts a subject, the subject has exactly as many slashes as the parsed pattern has
    literal-slash tokens — no `*`, `?` or bracket expression matched a slash and no literal slash was dropped. -/
theorem slash_invariant_fn (m : Mode) (p : Str) (t : Top) (he : m.entire = true)
    (hf : m.filenames = true) (hns : m.noglobstar = true) (hs : supported m p = true)
    (hb : cLB ∉ p ∨ cSlash ∉ p) (hl : m.ext = false ∨ cLP ∉ p) (hz : (0 : Nat) ∉ p)
    (h : regexpOf m p = .ok t) (s : Str) (hm : t.matches s = true) :
    ∃ g, parseGlob m p = .ok g ∧ s.count cSlash = litSlashes g := by
  have hlang := regexp_language_fn_partial m p t he hf hns hs hb hl hz h s
  rw [hm] at hlang
  unfold globMatch at hlang
  cases hp : parseGlob m p with
  | error e => simp [hp] at hlang
  | ok g =>
    refine ⟨g, rfl, ?_⟩
    simp only [hp, he, if_true] at hlang
    have hg := (gmatch_full_iff m g true s).mp hlang.symm
    exact GDen_slashes m hf g (parse_simple m hns _ _ p hl g hp) true s hg

/-- The reference itself has the invariant, for every simple pattern (bracket expressions
    included): a bracket expression, `?` or `*` never consumes a slash in filename mode. -/
theorem reference_slash_invariant (m : Mode) (hf : m.filenames = true) (g : Glob)
    (hg : simpleGlob g = true) (b : Bool) (s : Str) (h : GDen m g b s) :
    s.count cSlash = litSlashes g :=
  GDen_slashes m hf g hg b s h

/-! ### One statement for the union of the three regions -/

/-- The part of the mode × pattern space the proofs cover (on top of `supported`):
    (1) no Filenames, no ExtendedOperators: every pattern;
    (2) no Filenames, ExtendedOperators: flat pattern-lists;
    (3) Filenames with NoGlobStar: no pattern-list (no `(` when ExtendedOperators is set), bracket
        expressions only in patterns without a slash, no NUL.
    Not covered, hence the remaining gap of `regexp_language_supported_statement`: pattern-lists
    in the filename modes; `**` as globstar (Filenames without NoGlobStar); bracket expressions
    together with slashes in one filename pattern; bracket expressions or nested lists inside a
    pattern-list. -/
def covered (m : Mode) (p : Str) : Prop :=
  (m.filenames = false ∧ m.ext = false) ∨
  (m.filenames = false ∧ m.ext = true ∧ flatLists m p = true) ∨
  (m.filenames = true ∧ m.noglobstar = true ∧ (cLB ∉ p ∨ cSlash ∉ p) ∧ (m.ext = false ∨ cLP ∉ p) ∧
    (0 : Nat) ∉ p)

/-- **`regexp_language_supported`** on the covered part: for every EntireString mode, every
    `supported` and `covered` pattern, the emitted expression accepts exactly what the pattern
    matches under the reference semantics. -/
theorem regexp_language_supported (m : Mode) (p : Str) (t : Top) (he : m.entire = true)
    (hs : supported m p = true) (hc : covered m p) (h : regexpOf m p = .ok t) :
    ∀ s, t.matches s = globMatch m p s := by
  rcases hc with ⟨hf, hx⟩ | ⟨hf, hx, hl⟩ | ⟨hf, hns, hb, hl, hz⟩
  · exact regexp_language_partial m p t he hx hf hs h
  · exact regexp_language_ext_partial m p t he hx hf hs hl h
  · exact regexp_language_fn_partial m p t he hf hns hs hb hl hz h

/-- **`regexp_error_iff`** on the covered part. -/
theorem regexp_error_iff_supported (m : Mode) (p : Str) (e : Err) (he : m.entire = true)
    (hs : supported m p = true) (hc : covered m p) :
    regexpOf m p = .error e ↔ malformed m p = some e := by
  rcases hc with ⟨hf, hx⟩ | ⟨hf, hx, hl⟩ | ⟨hf, hns, hb, hl, hz⟩
  · exact regexp_error_iff_partial m p e he hx hf hs
  · exact regexp_error_iff_ext_partial m p e he hx hf hs hl
  · exact regexp_error_iff_fn_partial m p e he hf hns hs hb hl hz

/-- **`regexp_compiles`** on the covered part (`goCompiles`: regexp.MustCompile cannot panic). -/
theorem regexp_compiles_supported (m : Mode) (p : Str) (t : Top) (he : m.entire = true)
    (hs : supported m p = true) (hc : covered m p) (h : regexpOf m p = .ok t) :
    goCompiles t.body = true := by
  rcases hc with ⟨hf, hx⟩ | ⟨hf, hx, hl⟩ | ⟨hf, hns, hb, hl, hz⟩
  · exact regexp_compiles_partial m p t he hx hf hs h
  · exact regexp_compiles_ext_partial m p t he hx hf hs hl h
  · exact regexp_compiles_fn_partial m p t he hf hns hs hb hl hz h

/-- In that region `Regexp` never answers with a NegExtGlobError. -/
theorem regexp_total_partial (m : Mode) (p : Str) (he : m.entire = true)
    (hx : m.ext = false) (hf : m.filenames = false) (hs : supported m p = true) :
    (∃ t, regexpOf m p = .ok t) ∨ (∃ e, regexpOf m p = .error e ∧ malformed m p = some e) := by
  cases h : regexpOf m p with
  | ok t => exact .inl ⟨t, rfl⟩
  | error e => exact .inr ⟨e, rfl, (regexp_error_iff_partial m p e he hx hf hs).mp h⟩

/-- The derivative matcher used above decides the language of the expression. -/
theorem rmatch_sound (nc : Bool) (r : Regex) (s : Str) : rmatch nc r s = true ↔ Matches nc r s :=
  rmatch_iff nc r s

/-- The backtracking reference matcher decides the declarative semantics `GDen`. -/
theorem globMatch_sound (m : Mode) (g : Glob) (b : Bool) (s : Str) :
    gmatch m g b s (fun _ r => r.isEmpty) = true ↔ GDen m g b s :=
  gmatch_full_iff m g b s

/-! ## Counter-examples to the full statements (each replayed on the Go code by the harness) -/

def m4 : Mode := Mode.ofNat 4      -- EntireString
def m6 : Mode := Mode.ofNat 6      -- Filenames | EntireString
def m68 : Mode := Mode.ofNat 68    -- EntireString | ExtendedOperators: `case`, [[ ]]

/-- `?a` matches `.a` in filename mode without dotglob (C17-leading-dot); `@(a(b)c)` does not
    match `a(b)c` (C17-bare-paren-in-group). -/
theorem regexp_language_counterexample : ¬ regexp_language_statement := by
  intro h
  have h1 : regexpOf m6 (strOf "?a") = .ok
      { plain := false, nocase := false, shortest := false, entire := true,
        body := .cat notSlash (.cat (.chr 97) .eps) } := eq_ok_of_okTop (by decide +kernel)
  have h2 := h m6 (strOf "?a") _ (by decide) h1 (strOf ".a")
  revert h2
  decide +kernel

/-- `[-+]` is not malformed, yet `Regexp` reports "invalid range: [-+" (C17-bracket-dash). -/
theorem regexp_error_iff_counterexample : ¬ regexp_error_iff_statement := by
  intro h
  have h1 : regexpOf m4 (strOf "[-+]") = .error (.badRange 91 43) := eq_error_of_errOf (by decide +kernel)
  have h2 := (h m4 (strOf "[-+]") (.badRange 91 43) (by intro g; simp)).mp h1
  revert h2
  decide +kernel

/-- `@(abc` gives `(abc\x00` (C17-unterminated-extglob). -/
theorem regexp_compiles_counterexample : ¬ regexp_compiles_statement := by
  intro h
  have h1 : regexpOf m68 (strOf "@(abc") = .ok
      { plain := false, nocase := false, shortest := false, entire := true,
        body := .cat (.ugrp (.cat (.chr 97) (.cat (.chr 98) (.cat (.chr 99) .eps)))) .eps } :=
    eq_ok_of_okTop (by decide +kernel)
  have h2 := h m68 (strOf "@(abc") _ h1
  revert h2
  decide +kernel

/-- The matcher panics on `@(abc`, on `[A-\0]` and on `!(`. -/
theorem extended_matcher_counterexample : ¬ extended_matcher_statement := by
  intro h
  have h1 := (h m68 (strOf "@(abc") (by decide)).1
  have h2 : isPanic (extMatcher m68 (strOf "@(abc")) = true := by decide +kernel
  cases hm : extMatcher m68 (strOf "@(abc") with
  | panic => exact h1 hm
  | err e => simp [hm, isPanic] at h2
  | unsupported => simp [hm, isPanic] at h2
  | ok f => simp [hm, isPanic] at h2

/-! Non-vacuity of the hypotheses of the partial theorems, and sanity of the two semantics. -/
example : supported m4 (strOf "a*[!b-d[:digit:]]\\??") = true := by decide +kernel
example : supported m4 (strOf "[-+]") = false := by decide +kernel
example : globMatch m4 (strOf "a*[!b-d[:digit:]]\\??") (strOf "axyz?q") = true := by decide +kernel
example : globMatch m4 (strOf "a*[!b-d[:digit:]]\\??") (strOf "axyc?q") = false := by decide +kernel
example : globMatch m4 (strOf "[-+]") (strOf "-") = true := by decide +kernel
example : malformed m4 (strOf "[z-a]") = some (.badRange 122 97) := by decide +kernel
example : supported m68 (strOf "a@(b*|c?)+(x|\\|)[0-9]") = true ∧ flatLists m68 (strOf "a@(b*|c?)+(x|\\|)[0-9]") = true := by
  decide +kernel
example : globMatch m68 (strOf "a@(b*|c?)+(x|\\|)[0-9]") (strOf "abzzx|x7") = true := by decide +kernel
example : flatLists m68 (strOf "+([0-9])") = false := by decide +kernel
def m22 : Mode := Mode.ofNat 22    -- Filenames | EntireString | NoGlobStar: the mode of expand.glob
example : supported m22 (strOf "a*/.b?c/*x.d") = true := by decide +kernel
example : supported m22 (strOf "*.d") = false ∧ supported m22 (strOf "?a") = false := by decide +kernel
example : globMatch m22 (strOf "a*/.b?c/*x.d") (strOf "ax/.bzc/yx.d") = true := by decide +kernel
example : supported m22 (strOf "a[b-d]*[[:digit:]].c") = true := by decide +kernel
example : globMatch m22 (strOf "a[b-d]*[[:digit:]].c") (strOf "acxx7.c") = true := by decide +kernel
example : supported m22 (strOf "[!a]b") = false ∧ supported m22 (strOf "[.]a") = false := by decide +kernel
example : globMatch m22 (strOf "*.d") (strOf ".d") = false ∧ globMatch m22 (strOf "*") (strOf "a/b") = false := by
  decide +kernel
example : globMatch m68 (strOf "@(a(b)c)") (strOf "a(b)c") = true := by decide +kernel

end ShVerif.C17
