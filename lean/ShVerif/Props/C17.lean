import ShVerif.Model.L3Glob
import ShVerif.Proofs.L3Glob
/-
  C17 — Glob patterns match exactly what bash matches.
-/
namespace ShVerif.C17
open ShVerif ShVerif.L3

/-- Language equality between the emitted regular expression and the reference semantics. -/
def regexp_language_statement : Prop :=
  ∀ (m : Mode) (p : Str) (t : Top), m.entire = true → regexpOf m p = .ok t →
    ∀ s, t.matches s = globMatch m p s

end ShVerif.C17
